"""Demonstrations of the genuine defects found in the pinned commit of topsim.
Each demo runs the REAL code on one concrete input and returns (holds, detail).
`python demos.py F3` exits 1 when the property fails on the current /repo.

They were used to justify the `fix:` commits listed in KNOWN_FINDINGS.txt and
stay as regression inputs (corpus) of the monitors."""
import os
import subprocess
import sys
import json

HERE = os.path.dirname(os.path.abspath(__file__))
sys.path.insert(0, os.path.join(os.path.dirname(HERE), "harness"))
import runsim  # noqa
import simgen  # noqa

WF1 = {"nodes": [{"id": 0, "comp": 10}], "edges": []}


def base(obs, machines=None, **kw):
    spec = {
        "machines": machines or [{"id": "m0", "flops": 10, "bw": 2},
                                 {"id": "m1", "flops": 10, "bw": 2},
                                 {"id": "m2", "flops": 10, "bw": 2}],
        "system_bandwidth": 1.0, "total_arrays": 4, "max_ingest": 2,
        "observations": obs,
        "hot": {"capacity": 1000, "rate": 10}, "cold": {"capacity": 1000, "rate": 5},
        "timestep": "seconds", "planning": "batch",
        "scheduling": {"kind": "queue"}, "delay": None}
    spec.update(kw)
    return spec


def ob(name, start, dur, demand=1, rate=2, ing=1, wf=None):
    return {"name": name, "start": start, "duration": dur, "demand": demand,
            "rate": rate, "ingest_demand": ing, "workflow": wf or WF1}


def F1():
    """C19: Cluster.is_idle() is True while a task is running."""
    h = runsim.SimHandle(base([ob("a", 0, 3)]))
    try:
        sim = h.sim
        sim.start(runtime=2)
        cl = sim.cluster._clusters["default"]
        running = len(cl["tasks"]["running"])
        ing = len(cl["resources"]["ingest"])
        idle = sim.cluster.is_idle()
        return (not (idle and (running > 0 or ing > 0))), \
            "t=2 running=%d ingest-pool=%d is_idle()=%s" % (running, ing, idle)
    finally:
        h.close()


def F2():
    """C14: WorkflowPlan.get_task_predecessors returns the successors."""
    wf = {"nodes": [{"id": 0, "comp": 10}, {"id": 1, "comp": 10}], "edges": [[0, 1, 1]]}
    h = runsim.SimHandle(base([ob("a", 0, 2, wf=wf)]))
    try:
        sim = h.sim
        o = sim.instrument.observations[0]
        o.ast = 0
        plan = sim.planner.run(o, sim.buffer, None)
        t0, t1 = plan.tasks
        preds_of_t1 = [t.id for t in plan.get_task_predecessors(t1)]
        succ_of_t0 = [t.id for t in plan.get_task_successors(t0)]
        ok = preds_of_t1 == [t0.id] and succ_of_t0 == [t1.id]
        return ok, "preds(t1)=%s succ(t0)=%s" % (preds_of_t1, succ_of_t0)
    finally:
        h.close()


def F3():
    """C12: the ingest column reports 0 machines while one is still ingesting."""
    spec = base([ob("a", 0, 4), ob("b", 2, 5)])
    rec = runsim.run_spec(spec, until=8)
    rows = rec["out"]["rows"]
    bad = []
    # b's ingest machine is busy during steps 2..6 (admitted at 2, 5 steps)
    for t in range(3, 7):
        if rows[t]["ingest_resources"] < 1:
            bad.append((t, rows[t]["ingest_resources"]))
    return (not bad), "rows with ingest_resources wrong: %s" % bad


def F4():
    """C05: an observation refused for buffer space leaks the ingest
    reservation; a later observation is blocked for ever."""
    spec = base([ob("a", 0, 5, rate=10), ob("b", 5, 6, rate=10, ing=2)],
                hot={"capacity": 100, "rate": 10}, cold={"capacity": 100, "rate": 10},
                scheduling={"kind": "batch", "partitions": 2, "min": 1, "split": None})
    rec = runsim.run_spec(spec, max_steps=200)
    return (not rec["nonterminated"] and rec["exception"] is None), \
        "end=%s nonterminated=%s exc=%s" % (rec["end"], rec["nonterminated"], rec["exception"])


def F5():
    """C06: a task shorter than one step occupies its machine for two steps."""
    wf_small = {"nodes": [{"id": 0, "comp": 3}], "edges": []}
    wf_one = {"nodes": [{"id": 0, "comp": 10}], "edges": []}
    spans = []
    for wf in (wf_small, wf_one):
        rec = runsim.run_spec(base([ob("a", 0, 1, wf=wf)],
                                   machines=[{"id": "m0", "flops": 10, "bw": 2}], max_ingest=1))
        t = [v for k, v in rec["out"]["tasks"].items() if "ingest" not in k][0]
        spans.append(t["aft"] - t["ast"])
    return (spans[0] <= spans[1] and spans[0] == 1), \
        "span(comp=3)=%s span(comp=10)=%s on speed 10" % tuple(spans)


def F6a():
    """C13: 'buffer added' (observation starting at t>0) and 'buffer removed'
    never reach the event log."""
    rec = runsim.run_spec(base([ob("a", 2, 2)]))
    ev = [(e[1], e[3], e[4]) for e in rec["out"]["events"]]
    ok = ("buffer", "added", "buffer") in ev and ("buffer", "removed", "buffer") in ev
    return ok, "buffer events in log: %s" % [e for e in ev if e[0] == "buffer"]


def F6b():
    """C11: start(k) + resume differs from one uninterrupted run (event log)."""
    spec = base([ob("a", 1, 2)])
    diffs = []
    for T in range(2, 9):
        full = runsim.run_spec(spec, until=T)
        for k in range(1, T):
            part = runsim.run_spec(spec, until=k, resume=[T])
            if part["out"]["events"] != full["out"]["events"]:
                diffs.append((k, T))
    return (not diffs), "(pause k, end T) whose event log differs: %s" % diffs


def F7():
    """C02: a workflow task is accepted on a machine that is in the ingest pool."""
    import simpy
    from topsim.core.task import Task
    h = runsim.SimHandle(base([ob("a", 0, 3)]))
    try:
        cl = h.sim.cluster
        env = h.env
        o = h.sim.instrument.observations[0]
        env.process(cl.provision_ingest_resources(1, o))
        env.run(until=1)
        m = cl._clusters["default"]["resources"]["ingest"][0]
        t = Task("x_0", 0, 2, None, [])
        env.process(cl.allocate_task_to_cluster(t, m))
        refused = False
        try:
            env.run(until=2)
        except RuntimeError:
            refused = True
        running = [x.id for x in cl._clusters["default"]["tasks"]["running"]]
        return refused, "allocation on ingest machine refused=%s running=%s" % (refused, running)
    finally:
        h.close()


def F8():
    """C18: cold->hot move raises when the hot rate is the slower one;
    hot->cold ignores a slower hot rate."""
    from topsim.core.instrument import Observation
    h = runsim.SimHandle(base([ob("a", 0, 3)], hot={"capacity": 100, "rate": 2},
                              cold={"capacity": 100, "rate": 5}))
    try:
        buf = h.sim.buffer
        env = h.env
        o = h.sim.instrument.observations[0]
        o.total_data_size = 10
        buf.hot[0].current_capacity -= 10
        buf.hot[0].observations["stored"].append(o)
        env.process(buf.move_hot_to_cold(0))
        steps = 0
        try:
            while buf.cold[0].observations["stored"] == [] and steps < 50:
                env.run(until=env.now + 1)
                steps += 1
        except RuntimeError as e:
            return False, "hot->cold raised %r" % (e,)
        d1 = "hot->cold of 10 units at rates hot=2 cold=5 took %d steps (ceil(10/2)=5)" % steps
        ok = steps == 5
        env.process(buf.move_cold_to_hot(0))
        steps2 = 0
        try:
            while buf.hot[0].observations["stored"] == [] and steps2 < 50:
                env.run(until=env.now + 1)
                steps2 += 1
        except RuntimeError as e:
            return False, d1 + "; cold->hot raised %r" % (str(e),)
        return ok and steps2 == 5, d1 + "; cold->hot took %d" % steps2
    finally:
        h.close()


F9_SPEC = None


def f9_spec():
    wf = {"nodes": [{"id": i, "comp": c} for i, c in enumerate([40, 80, 120, 160, 20, 60])],
          "edges": []}
    return base([ob("a", 0, 1, wf=wf)],
                machines=[{"id": "m0", "flops": 4, "bw": 2}, {"id": "m1", "flops": 20, "bw": 2},
                          {"id": "m2", "flops": 40, "bw": 2}],
                scheduling={"kind": "queue"})


def F9():
    """C10: different PYTHONHASHSEED -> different task table."""
    outs = []
    for hs in ("0", "1", "2", "3"):
        env = dict(os.environ, PYTHONHASHSEED=hs)
        p = subprocess.run([sys.executable, __file__, "--f9-child"], env=env,
                           capture_output=True, text=True)
        outs.append(p.stdout.strip().splitlines()[-1] if p.stdout.strip() else p.stderr[-300:])
    return len(set(outs)) == 1, "distinct task tables over 4 hash seeds: %d" % len(set(outs))


def F10():
    """C05: GreedySchedulingFromPlan crashes when two ready tasks are planned
    on the same machine."""
    wf = {"nodes": [{"id": 0, "comp": 10}, {"id": 1, "comp": 10}], "edges": []}
    spec = base([ob("a", 0, 1, wf=wf)], planning="static",
                scheduling={"kind": "greedy"},
                static_plan={"a": {"0": "m1", "1": "m1"}})
    rec = runsim.run_spec(spec, max_steps=100)
    return rec["exception"] is None and not rec["nonterminated"], \
        "exc=%s end=%s" % (rec["exception"], rec["end"])


def F12():
    """C05 / C09: BatchProcessing with min_resources_per_workflow = 0 'reserves' zero
    machines when none is free (here: both machines still on ingest in the step the
    workflow is first scheduled); the cluster counts a reservation that does not
    exist, the partition limit is used up and the workflow never starts."""
    wf = {"nodes": [{"id": 0, "comp": 20}, {"id": 1, "comp": 10}], "edges": [[0, 1, 0]]}
    spec = base([ob("a", 0, 1, rate=1, ing=2, wf=wf)],
                machines=[{"id": "m0", "flops": 10, "bw": 2}, {"id": "m1", "flops": 10, "bw": 2}],
                max_ingest=2, planning="batch",
                scheduling={"kind": "batch", "partitions": 1, "min": 0, "split": None})
    rec = runsim.run_spec(spec, max_steps=200)
    return rec["exception"] is None and not rec["nonterminated"], \
        "exc=%s end=%s nonterminated=%s" % (rec["exception"], rec["end"], rec["nonterminated"])


def F13():
    """C08 / C01 (was K6): a task of 3 or more steps gave its machine back one step before the finish time it
    records: ingest machines were held duration-1 steps, and the next task could start on the machine in that
    very step, so that the task table showed two tasks on one machine during the same timestep."""
    wf = {"nodes": [{"id": 0, "comp": 40}, {"id": 1, "comp": 40}], "edges": [[0, 1, 0]]}
    spec = base([ob("a", 1, 4, rate=1, ing=1, wf=wf)],
                machines=[{"id": "m0", "flops": 10, "bw": 2}], max_ingest=1)
    rec = runsim.run_spec(spec, max_steps=100)
    rows = rec["out"]["rows"]
    held = sum(1 for r in rows if r.get("ingest_resources"))
    iv = sorted((v["ast"], v["aft"], k) for k, v in rec["out"]["tasks"].items())
    overlap = [(x, y) for x, y in zip(iv, iv[1:]) if y[0] < x[1]]
    return held == 4 and not overlap and rec["exception"] is None, \
        "ingest machine shown in %d rows for a 4-step observation; intervals on m0 %s; overlaps %s" % (held, iv, overlap)


def F14():
    """C05 (was K2): two observations admitted in the same telescope pass were both checked against the same
    list of available machines; the second provision_ingest_resources raised RuntimeError('Failed to check
    system capacity ...') although the configuration is feasible."""
    wf = {"nodes": [{"id": 0, "comp": 10}], "edges": []}
    spec = base([ob("a", 0, 2, rate=1, ing=2, wf=wf), ob("b", 0, 2, rate=1, ing=2, wf=wf)],
                machines=[{"id": "m%d" % i, "flops": 10, "bw": 2} for i in range(3)], max_ingest=4)
    rec = runsim.run_spec(spec, max_steps=200)
    return rec["exception"] is None and not rec["nonterminated"], \
        "exc=%s end=%s" % ((rec["exception"] or {}).get("type"), rec["end"])


ALL = ["F1", "F2", "F3", "F4", "F5", "F6a", "F6b", "F7", "F8", "F9", "F10", "F12", "F13", "F14"]

if __name__ == "__main__":
    if "--f9-child" in sys.argv:
        rec = runsim.run_spec(f9_spec(), max_steps=400)
        print(json.dumps([rec["end"], rec["out"]["tasks"] if rec.get("out") else None,
                          rec["exception"]], sort_keys=True))
        sys.exit(0)
    names = sys.argv[1:] or ALL
    bad = 0
    for n in names:
        ok, detail = globals()[n]()
        print("%s %s: %s" % (n, "holds" if ok else "FAILS", detail))
        bad += (not ok)
    sys.exit(1 if bad else 0)
