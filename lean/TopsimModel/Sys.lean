/-
  TopsimModel.Sys — the state of a whole simulation as the block system sees
  it: the component models plus task / plan / observation records, the process
  table and the monitor's outputs.  Mathlib-free.
-/
import TopsimModel.Cluster
import TopsimModel.Buffer
import TopsimModel.TaskTime

namespace Topsim

structure Machine where
  id : Mid
  cpu : Nat
  bw : Nat
  deriving Repr, Inhabited, DecidableEq

inductive TStatus where
  | unscheduled | scheduled | running | finished
  deriving DecidableEq, Repr, Inhabited

inductive WStatus where
  | unscheduled | scheduled | onTime | delayed | finished
  deriving DecidableEq, Repr, Inhabited

inductive RunStatus where
  | waiting | running | finished
  deriving DecidableEq, Repr, Inhabited

/-- a `Task` object (topsim/core/task.py) -/
structure TaskRec where
  id : Tid
  flops : Nat := 0
  data : Nat := 0
  preds : List Tid := []            -- task.pred
  io : List (Tid × Nat) := []       -- task.io (edge volumes by predecessor id)
  est : Nat := 0
  eft : Nat := 0
  planned : Option Mid := none      -- allocated_machine_id when it is a machine id
  allocObj : Bool := false          -- allocated_machine_id holds a Machine object
  duration : Nat := 0
  status : TStatus := .unscheduled
  ast : Option Time := none
  aft : Option Time := none
  delayFlag : Bool := false
  delayOffset : Int := 0
  offset : Nat := 0
  deriving Repr, Inhabited

/-- the workflow description of an observation (read from the JSON graph) -/
structure Workflow where
  nodes : List (Nat × Nat × Nat)    -- (node, comp, task_data)
  edges : List (Nat × Nat × Nat)    -- (u, v, transfer_data), insertion order
  topo : List Nat                   -- networkx.topological_sort (a parameter)
  deriving Repr, Inhabited

/-- a `WorkflowPlan` (topsim/core/planner.py) -/
structure Plan where
  obs : Oid
  tasks : List Tid                  -- plan.tasks (pruned as tasks finish)
  edges : List (Tid × Tid)          -- relabelled graph
  est : Nat
  ast : Option Nat := none
  status : WStatus := .scheduled
  deriving Repr, Inhabited

def Plan.preds (p : Plan) (t : Tid) : List Tid := (p.edges.filter (·.2 = t)).map (·.1)
def Plan.succs (p : Plan) (t : Tid) : List Tid := (p.edges.filter (·.1 = t)).map (·.2)

/-- an `Observation` (topsim/core/instrument.py) with its pipeline entry -/
structure Obs where
  id : Oid
  est : Nat
  duration : Nat
  demand : Nat
  rate : Int
  ingestDemand : Nat
  wf : Workflow
  status : RunStatus := .waiting
  ast : Option Nat := none
  deriving Repr, Inhabited

inductive Actor where
  | instrument | scheduler | buffer
  deriving DecidableEq, Repr, Inhabited

inductive EvKind where
  | telStarted | telFinished | bufAdded | bufRemoved | queueAdded | queueRemoved
  | allocStarted | allocStopped | transferStarted | transferStopped
  deriving DecidableEq, Repr, Inhabited

structure Event where
  time : Nat
  obs : Oid
  kind : EvKind
  deriving DecidableEq, Repr, Inhabited

def EvKind.actor : EvKind → Actor
  | .telStarted | .telFinished => .instrument
  | .queueAdded | .queueRemoved | .allocStarted | .allocStopped => .scheduler
  | _ => .buffer

/-- one row of the per-timestep table (the numeric columns) -/
structure Row where
  available : Int
  ingest : Int
  running : Int
  finished : Int
  provisioned : Nat
  hot : Int
  cold : Int
  stored : Nat
  waiting : Nat
  obsFinished : Nat
  obsDelayed : Int
  queue : Nat
  delayed : Bool          -- schedule_status == DELAYED
  delayOffset : Int
  deriving DecidableEq, Repr, Inhabited

/-- scheduling algorithm and its parameters -/
inductive AlgKind where
  | batch (partitions : Nat) (minPer : Nat) (split : Option (List (Oid × Nat × Nat)))
  | queue
  | dynamic
  | greedy
  | oracle                   -- a user algorithm: proposals come from outside
  deriving Repr, Inhabited

/-- process kinds with their local variables (pc = number of blocks run) -/
inductive PK where
  | monitor
  | telescope
  | clusterLoop
  | schedLoop
  | bufferLoop
  | allocIngest (o : Oid) (timeLeft : Int)
  | provIngest (o : Oid) (demand : Nat)
  | ingestStream (o : Oid) (timeLeft : Int)
  | allocTask (t : Tid) (m : Mid) (preds : List Tid) (obs : Option Oid) (ing : Bool) (ret : Nat)
  | doWork (t : Tid) (m : Mid) (preds : List Tid) (phase : Nat) (total : Nat)
  | allocTasks (o : Oid) (schedule : List (Tid × Mid)) (pairs : List (Tid × Mid)) (pool : List Tid) (fin : Bool)
  | hot2cold (cur : Option (Oid × Int))
  | cold2hot (cur : Option (Oid × Int))
  deriving Repr, Inhabited

structure Proc where
  pid : Nat
  k : PK
  pc : Nat := 0
  wake : Time := 0
  alive : Bool := true
  deriving Repr, Inhabited

structure Sys where
  machines : List Machine
  totalArrays : Nat
  maxIngest : Nat
  alg : AlgKind
  staticPlan : Bool := false
  cl : Cluster
  buf : Buffer
  obs : List Obs
  telUse : Int := 0
  telStatus : Bool := false
  telDelayed : Bool := false
  queue : List Oid := []            -- scheduler.observation_queue
  provIngest : Int := 0             -- scheduler.provision_ingest
  schedDelayed : Bool := false      -- schedule_status == DELAYED
  delayOffset : Int := 0
  tasks : List TaskRec := []
  plans : List Plan := []
  procs : List Proc := []
  nextPid : Nat := 0
  telEvents : List Event := []
  schEvents : List Event := []
  bufEvents : List Event := []
  log : List Event := []
  rows : List Row := []
  crashed : Option Err := none
  halted : Bool := false            -- the exception has left env.run
  -- history variables (ghost)
  starts : List Tid := []           -- do_work activations, in order
  active : List (Mid × Tid) := []   -- live do_work bodies
  admitted : List Oid := []
  deriving Repr, Inhabited

namespace Sys

def machine? (s : Sys) (m : Mid) : Option Machine := s.machines.find? (·.id = m)

def task? (s : Sys) (t : Tid) : Option TaskRec := s.tasks.find? (·.id = t)

def updTask (s : Sys) (t : Tid) (f : TaskRec → TaskRec) : Sys :=
  { s with tasks := s.tasks.map (fun r => if r.id = t then f r else r) }

def plan? (s : Sys) (o : Oid) : Option Plan := s.plans.find? (·.obs = o)

def updPlan (s : Sys) (o : Oid) (f : Plan → Plan) : Sys :=
  { s with plans := s.plans.map (fun p => if p.obs = o then f p else p) }

def obs? (s : Sys) (o : Oid) : Option Obs := s.obs.find? (·.id = o)

def updObs (s : Sys) (o : Oid) (f : Obs → Obs) : Sys :=
  { s with obs := s.obs.map (fun r => if r.id = o then f r else r) }

def proc? (s : Sys) (pid : Nat) : Option Proc := s.procs.find? (·.pid = pid)

def updProc (s : Sys) (pid : Nat) (f : Proc → Proc) : Sys :=
  { s with procs := s.procs.map (fun p => if p.pid = pid then f p else p) }

/-- `env.process(...)`: the new process is pending initialisation at `now` -/
def spawn (s : Sys) (k : PK) (now : Time) : Sys × Nat :=
  ({ s with procs := s.procs ++ [{ pid := s.nextPid, k := k, wake := now }],
            nextPid := s.nextPid + 1 }, s.nextPid)

/-- the first exception of a run is the one that leaves `env.run` (SimPy still
    runs the older events of that instant before it propagates) -/
def crash (s : Sys) (e : Err) : Sys :=
  match s.crashed with
  | some _ => s
  | none => { s with crashed := some e }

def isTaskFinished (s : Sys) (t : Tid) : Bool := s.cl.isTaskFinished t

/-- `Telescope.is_idle()` -/
def telIsIdle (s : Sys) : Bool :=
  s.obs.all (fun o => o.status == .finished) && (!s.telStatus && s.telUse == 0)

/-- `Simulation.is_finished()` -/
def isFinished (s : Sys) : Bool :=
  s.buf.isEmpty && s.cl.isIdle && s.queue.isEmpty && s.telIsIdle

end Sys
end Topsim
