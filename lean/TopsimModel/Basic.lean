/-
  TopsimModel.Basic — identifiers, error classes and list helpers shared by
  the executable model of top-sim/topsim.  Mathlib-free.
-/
namespace Topsim

/-- Machines and observations are identified by their index in the
configuration (the harness maps names to indices). -/
abbrev Mid := Nat
abbrev Oid := Nat

/-- Task identifiers mirror the two id schemes of the code:
`f"{obs}_ingest_t{i}"` (cluster.py `_generate_ingest_tasks`) and
`f"{obs}_{clock}_{node}"` (planning.py `_create_observation_task_id`). -/
inductive Tid where
  | ingest (o : Oid) (i : Nat)
  | wf (o : Oid) (clock : Nat) (node : Nat)
  | raw (n : Nat)            -- a task made by hand (direct cluster calls in tests)
  deriving DecidableEq, Repr, Inhabited

def Tid.isIngest : Tid → Bool
  | .ingest _ _ => true
  | _ => false

/-- The Python exception classes the model distinguishes. -/
inductive Err where
  | runtime | value | index | key | type | zerodiv | attr | other
  deriving DecidableEq, Repr, Inhabited

def Err.name : Err → String
  | .runtime => "RuntimeError" | .value => "ValueError" | .index => "IndexError"
  | .key => "KeyError" | .type => "TypeError" | .zerodiv => "ZeroDivisionError"
  | .attr => "AttributeError" | .other => "Other"

/-- association-list dictionary helpers (Python dicts keep insertion order) -/
def dictGet {κ α} [DecidableEq κ] (d : List (κ × α)) (k : κ) : Option α :=
  match d with
  | [] => none
  | (k', v) :: r => if k' = k then some v else dictGet r k

def dictHas {κ α} [DecidableEq κ] (d : List (κ × α)) (k : κ) : Bool :=
  (dictGet d k).isSome

/-- `d[k] = v` : update in place when present, append otherwise. -/
def dictSet {κ α} [DecidableEq κ] (d : List (κ × α)) (k : κ) (v : α) : List (κ × α) :=
  match d with
  | [] => [(k, v)]
  | (k', v') :: r => if k' = k then (k, v) :: r else (k', v') :: dictSet r k v

def dictErase {κ α} [DecidableEq κ] (d : List (κ × α)) (k : κ) : List (κ × α) :=
  match d with
  | [] => []
  | (k', v') :: r => if k' = k then r else (k', v') :: dictErase r k

def dictKeys {κ α} (d : List (κ × α)) : List κ := d.map (·.1)

end Topsim
