/-
  TopsimModel.Feasible — C05's premise and bound, as definitions over the
  initial configuration (mirrors harness/simgen.py `feasible` / `serial_bound`).
-/
import TopsimModel.Sim

namespace Topsim
namespace Sys

/-- each observation fits the telescope, the ingest-machine limit, the cluster
and both buffers on its own (and a batch reservation of the configured minimum
fits one partition) -/
def Feasible (s0 : Sys) : Prop :=
  (∀ o ∈ s0.obs, o.demand ≤ s0.totalArrays ∧ 1 ≤ o.ingestDemand ∧
      o.ingestDemand ≤ min s0.maxIngest s0.machines.length ∧ o.rate ≤ s0.buf.hot.maxRate ∧
      o.rate * o.duration < s0.buf.hot.total ∧ o.rate * o.duration ≤ s0.buf.cold.total ∧
      1 ≤ o.duration ∧ 0 < o.rate) ∧
  (∀ m ∈ s0.machines, 0 < m.cpu ∧ 0 < m.bw) ∧ 0 < s0.machines.length ∧
  (match s0.alg with
   | .batch parts minPer none => 0 < parts ∧ max 1 minPer ≤ s0.machines.length / parts
   | .batch parts minPer (some sp) => 0 < parts ∧ ∀ o ∈ s0.obs, ∃ lo hi, dictGet sp o.id = some (lo, hi) ∧
        1 ≤ lo ∧ lo ≤ hi ∧ lo ≤ s0.machines.length ∧ minPer ≤ hi
   | _ => True)

def ceilDiv (a b : Nat) : Nat := (a + b - 1) / b

/-- latest planned start plus, per observation, its duration, two tier
transfers, and per task its runtime on the slowest machine, its largest
transfer wait and a constant latency `c` -/
def serialBound (s0 : Sys) (c : Nat := 3) : Nat :=
  let slowCpu := (s0.machines.map (·.cpu)).foldl min (s0.machines.headD default).cpu
  let slowBw := (s0.machines.map (·.bw)).foldl min (s0.machines.headD default).bw
  let rate := (min s0.buf.hot.maxRate s0.buf.cold.maxRate).toNat
  let latest := (s0.obs.map (·.est)).foldl max 0
  latest + (s0.obs.map (fun o =>
    o.duration + 2 * ceilDiv (o.rate * o.duration).toNat rate + c +
    (o.wf.nodes.map (fun n =>
      max 1 (max (n.2.1 / slowCpu) (n.2.2 / slowBw)) +
      ceilDiv ((o.wf.edges.filter (fun e => e.2.1 = n.1)).map (·.2.2) |>.foldl max 0) slowBw + c)).foldl (· + ·) 0)).foldl (· + ·) 0

end Sys
end Topsim
