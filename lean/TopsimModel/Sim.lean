/-
  TopsimModel.Sim — L3: the SimPy kernel instantiated with the topsim
  processes.  A total, deterministic, executable simulator: configuration in,
  per-timestep table / task table / event log / end time out.
-/
import TopsimModel.Kernel
import TopsimModel.Procs

namespace Topsim

/-- the inputs of a run that are not part of the configuration: the delay model
    (as a table or a script) and the static plans -/
structure SimEnv where
  delayTable : List (Nat × Nat) := []
  delayScript : List Nat := []
  staticPlans : List (Oid × List (Nat × Mid × Nat × Nat)) := []
  deriving Repr, Inhabited

/-- the oracle as a function of the state -/
def SimEnv.oracle (env : SimEnv) (s : Sys) : Oracle :=
  let plan := match s.buf.nextForProcessing.2 with
    | some o => (dictGet env.staticPlans o).getD []
    | none => []
  { delayTable := env.delayTable, delayScript := env.delayScript, plan := plan }

/-- resuming a topsim process, in the kernel's terms.  A raising block
    schedules the failure of its process event (NORMAL, now): SimPy lets the
    older events of that instant run before the exception leaves `env.run`. -/
def simHandler (env : SimEnv) : Handler Sys := fun s pid _now =>
  match s.proc? pid with
  | none => ({ s with halted := true }, [], none)
  | some p =>
    if !p.alive then
      -- the failed process event is popped: the exception leaves `env.run`
      ({ s with halted := true }, [], none)
    else
      let (s1, y) := s.resume pid (env.oracle s)
      let spawned := (List.range (s1.nextPid - s.nextPid)).map (· + s.nextPid)
      match y with
      | .timeout d => (s1, spawned, some d)
      | .done => (s1, spawned, none)
      | .raised _ => (s1, spawned, some 0)      -- failure event: NORMAL, now, after the inits it created

abbrev SimState := KState Sys

namespace SimState

/-- `env.run(until=u)` on the simulation (stops when the exception propagates) -/
def runUntil (env : SimEnv) (u : Time) : Nat → SimState → SimState
  | 0, k => k
  | fuel + 1, k =>
    if k.st.halted then k
    else match k.peek with
      | none => k
      | some e =>
        if e.time < u then
          match k.step (simHandler env) with
          | none => k
          | some k1 => runUntil env u fuel k1
        else k

/-- `Simulation.start()` up to `env.run`: the five loops are created in order -/
def start (s : Sys) : SimState :=
  let s1 := s.start
  let (heap, eid) := KState.pushInits [] 0 0 (List.range 5)
  { st := s1, heap := heap, eid := eid }

/-- `start(runtime=u)` : run, then collate once more -/
def startUntil (env : SimEnv) (s : Sys) (u : Nat) (fuel : Nat) : SimState :=
  let k := runUntil env u fuel (start s)
  { k with st := if k.st.halted then k.st else k.st.collate }

/-- `resume(until=u)` (after the F6b repair it collates on return) -/
def resumeUntil (env : SimEnv) (k : SimState) (u : Nat) (fuel : Nat) : SimState :=
  let k1 := runUntil env u fuel k
  { k1 with st := if k1.st.halted then k1.st else k1.st.collate }

/-- `start()` to completion: `while not is_finished(): env.run(now + 1)` -/
def runToCompletion (env : SimEnv) (fuel : Nat) : Nat → Nat → SimState → SimState × Nat
  | 0, now, k => (k, now)
  | steps + 1, now, k =>
    if k.st.halted then (k, now)
    else if k.st.isFinished then ({ k with st := k.st.collate }, now)
    else runToCompletion env fuel steps (now + 1) (runUntil env (now + 1 : Nat) fuel k)

end SimState
end Topsim
