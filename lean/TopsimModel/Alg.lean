/-
  TopsimModel.Alg — `run()` of the four shipped scheduling algorithms
  (topsim/user/schedule/*.py, after the F9 / F10 repairs) as pure functions of
  the cluster view, the plan, the leftover schedule and the ready pool.
-/
import TopsimModel.Sys

namespace Topsim

/-- what an algorithm's `run()` returns / mutates -/
structure AlgOut where
  cl : Cluster                        -- batch provisioning / release mutate the cluster
  schedule : List (Tid × Mid)         -- `allocations` (a dict, insertion ordered)
  status : WStatus                    -- workflow_plan.status on return
  pool : List Tid                     -- task_pool (a set; order irrelevant)
  deriving Repr, Inhabited

/-- what the algorithms read of a task -/
structure TaskView where
  id : Tid
  status : TStatus
  est : Nat
  hasPred : Bool                      -- `task.pred` non-empty
  predIds : List Tid
  machine : Except Err Mid            -- cluster.get_machine_from_id(task.allocated_machine_id)
  deriving Repr, Inhabited

namespace Alg

def schedHas (s : List (Tid × Mid)) (t : Tid) : Bool := dictHas s t

/-- seed the pool with the plan's remaining root tasks when it is empty -/
def seedPool (plan : Plan) (pool : List Tid) : List Tid :=
  if pool.isEmpty then plan.tasks.filter (fun t => (plan.preds t).isEmpty) else pool

/-- `task_pool -= removed; task_pool.update(added)` -/
def updatePool (pool removed added : List Tid) : List Tid :=
  let p := pool.filter (fun t => !removed.contains t)
  p ++ (added.filter (fun t => !p.contains t)).eraseDups

/-- are all graph predecessors finished in the cluster's view? -/
def predsFinished (cl : Cluster) (plan : Plan) (t : Tid) : Bool :=
  (plan.preds t).all cl.isTaskFinished

structure LoopSt where
  alloc : List (Tid × Mid)
  temp : List Mid
  removed : List Tid
  added : List Tid
  status : WStatus
  stop : Bool := false               -- `break`
  deriving Repr, Inhabited

/-- loop body shared by BatchProcessing and QueueProcessing (first-free machine) -/
def firstFreeStep (cl : Cluster) (plan : Plan) (view : Tid → TaskView) (maxAlloc : Nat)
    (st : LoopSt) (t : Tid) : LoopSt :=
  if st.stop then st
  else if st.alloc.length ≥ maxAlloc then { st with stop := true }
  else if st.temp.length > 0 ∧ !schedHas st.alloc t then
    if (view t).status = .unscheduled then
      match st.temp with
      | [] => st
      | m :: rest =>
        if (plan.preds t).isEmpty ∨ predsFinished cl plan t then
          { st with alloc := dictSet st.alloc t m, temp := rest,
                    removed := st.removed ++ [t], added := st.added ++ plan.succs t }
        else st
    else st
  else st

/-- `_max_resource_provision` -/
def maxResourceProvision (cl : Cluster) (partitions : Nat)
    (split : Option (List (Oid × Nat × Nat))) (o : Oid) : Except Err Nat :=
  let available := cl.available.length
  match split with
  | some sp =>
    match dictGet sp o with
    | none => .error .key
    | some (lo, hi) =>
      if lo > cl.machines.length then .error .runtime
      else if available = 0 then .ok 0
      else if available < lo then .ok 0
      else .ok (min available hi)
  | none =>
    if partitions = 0 then .error .zerodiv
    else
      let maxAllowed := cl.machines.length / partitions
      if available = 0 then .ok 0
      else if available < maxAllowed then .ok available
      else .ok maxAllowed

/-- `_provision_resources` : (cluster after, provisioned?) -/
def provisionResources (cl : Cluster) (partitions minPer : Nat)
    (split : Option (List (Oid × Nat × Nat))) (o : Oid) : Except Err (Cluster × Bool) :=
  if cl.isProvisioned o then .ok (cl, true)
  else if cl.numProv < (partitions : Int) then
    match maxResourceProvision cl partitions split o with
    | .error e => .error e
    | .ok provision =>
      if provision < 1 ∨ provision < minPer then .ok (cl, false)   -- F12: at least one machine
      else
        match cl.provisionBatch provision o with
        | (_, some e) => .error e
        | (cl1, none) => .ok (cl1, true)
  else .ok (cl, false)

def finishStatus (plan : Plan) (st : WStatus) : WStatus :=
  if plan.tasks.length = 0 then .finished else st

/-- `BatchProcessing.run` -/
def batchRun (cl : Cluster) (plan : Plan) (view : Tid → TaskView) (partitions minPer : Nat)
    (split : Option (List (Oid × Nat × Nat))) (sched : List (Tid × Mid)) (pool : List Tid) :
    Except Err AlgOut :=
  match provisionResources cl partitions minPer split plan.obs with
  | .error e => .error e
  | .ok (cl1, provision) =>
    let pool1 := seedPool plan pool
    let st0 : LoopSt := { alloc := sched, temp := [], removed := [], added := [], status := plan.status }
    let st :=
      if provision then
        let temp := cl1.idleOf (some plan.obs)
        (plan.tasks.filter (fun t => pool1.contains t)).foldl
          (firstFreeStep cl1 plan view temp.length) { st0 with temp := temp }
      else st0
    let pool2 := updatePool pool1 st.removed st.added
    let cl2 := if plan.tasks.length = 0 then cl1.releaseBatch plan.obs else cl1
    .ok { cl := cl2, schedule := st.alloc, status := finishStatus plan plan.status, pool := pool2 }

/-- `QueueProcessing.run` -/
def queueRun (cl : Cluster) (plan : Plan) (view : Tid → TaskView)
    (sched : List (Tid × Mid)) (pool : List Tid) : Except Err AlgOut :=
  let pool1 := seedPool plan pool
  let temp := cl.available
  let st := (plan.tasks.filter (fun t => pool1.contains t)).foldl
    (firstFreeStep cl plan view temp.length)
    { alloc := sched, temp := temp, removed := [], added := [], status := plan.status }
  let pool2 := updatePool pool1 st.removed st.added
  let cl2 := if plan.tasks.length = 0 then cl.releaseBatch plan.obs else cl
  .ok { cl := cl2, schedule := st.alloc, status := finishStatus plan plan.status, pool := pool2 }

/-- loop body of `DynamicSchedulingFromPlan.run`; an exception aborts the run -/
def dynamicStep (cl : Cluster) (plan : Plan) (view : Tid → TaskView) (maxAlloc : Nat)
    (acc : Except Err LoopSt) (t : Tid) : Except Err LoopSt :=
  match acc with
  | .error e => .error e
  | .ok st =>
    if st.stop then .ok st
    else if st.alloc.length ≥ maxAlloc then .ok { st with stop := true }
    else if (view t).status = .unscheduled ∧ !schedHas st.alloc t ∧ st.temp.length > 0 then
      let status1 := match plan.ast with
        | some a => if a > plan.est then WStatus.delayed else st.status
        | none => st.status
      match (view t).machine with
      | .error e => .error e
      | .ok m =>
        let st1 := { st with status := status1 }
        if !st1.temp.contains m then .ok st1
        else if (plan.preds t).isEmpty then
          .ok { st1 with status := .scheduled, alloc := dictSet st1.alloc t m,
                         temp := st1.temp.erase m, removed := st1.removed ++ [t],
                         added := st1.added ++ plan.succs t }
        else if predsFinished cl plan t then
          .ok { st1 with alloc := dictSet st1.alloc t m, temp := st1.temp.erase m,
                         removed := st1.removed ++ [t], added := st1.added ++ plan.succs t }
        else .ok st1
    else .ok st

/-- `DynamicSchedulingFromPlan.run` -/
def dynamicRun (cl : Cluster) (plan : Plan) (view : Tid → TaskView)
    (sched : List (Tid × Mid)) (pool : List Tid) : Except Err AlgOut :=
  let pool1 := seedPool plan pool
  let temp := cl.available
  let order := (plan.tasks.filter (fun t => pool1.contains t)).mergeSort
    (fun a b => (view a).est ≤ (view b).est)
  match order.foldl (dynamicStep cl plan view temp.length)
      (.ok { alloc := sched, temp := temp, removed := [], added := [], status := plan.status }) with
  | .error e => .error e
  | .ok st =>
    let pool2 := updatePool pool1 st.removed st.added
    .ok { cl := cl, schedule := st.alloc, status := finishStatus plan st.status, pool := pool2 }

/-- `_attempt_machine_allocation` (after the F10 repair) -/
def attemptAllocation (cl : Cluster) (m : Mid) (t : Tid) (st : LoopSt) : LoopSt :=
  if cl.isOccupied m ∨ !st.temp.contains m then
    match st.temp with
    | [] => st
    | m' :: rest => { st with alloc := dictSet st.alloc t m', temp := rest }
  else { st with alloc := dictSet st.alloc t m, temp := st.temp.erase m }

/-- loop body of `GreedySchedulingFromPlan.run` -/
def greedyStep (cl : Cluster) (plan : Plan) (view : Tid → TaskView)
    (acc : Except Err LoopSt) (t : Tid) : Except Err LoopSt :=
  match acc with
  | .error e => .error e
  | .ok st =>
    if (view t).status = .unscheduled then
      let status1 := match plan.ast with
        | some a => if a > plan.est then WStatus.delayed else st.status
        | none => st.status
      let st1 := { st with status := status1 }
      if !(view t).hasPred then
        match (view t).machine with
        | .error e => .error e
        | .ok m => .ok (attemptAllocation cl m t { st1 with status := .scheduled })
      else
        match (view t).machine with
        | .error e => .error e
        | .ok m =>
          -- pred ⊆ {t.id for t in cluster.finished_tasks} (keys of the finished dict)
          if (view t).predIds.all (fun p => dictHas cl.finished p) then
            .ok (attemptAllocation cl m t st1)
          else .ok st1
    else .ok st

/-- `GreedySchedulingFromPlan.run` -/
def greedyRun (cl : Cluster) (plan : Plan) (view : Tid → TaskView)
    (sched : List (Tid × Mid)) (pool : List Tid) : Except Err AlgOut :=
  match plan.tasks.foldl (greedyStep cl plan view)
      (.ok { alloc := sched, temp := cl.available, removed := [], added := [],
             status := plan.status }) with
  | .error e => .error e
  | .ok st =>
    .ok { cl := cl, schedule := st.alloc, status := finishStatus plan st.status, pool := pool }

end Alg
end Topsim
