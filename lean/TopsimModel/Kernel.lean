/-
  TopsimModel.Kernel — SimPy's event loop (simpy/core.py `Environment.step` /
  `run(until)`), generic in what a process does when it is resumed.

  A heap entry is `(time, priority, insertion id, pid)`; `Initialize` events are
  URGENT (0), timeouts NORMAL (1); `step` pops the least entry in the
  lexicographic order of `(time, priority, eid)`.  Insertion ids are unique, so
  the order is strict and total: nothing is left to the host.
-/
import TopsimModel.TaskTime

namespace Topsim

structure HEntry where
  time : Time
  prio : Nat
  eid : Nat
  pid : Nat
  deriving Repr, Inhabited, DecidableEq

/-- `(time, prio, eid)` lexicographic, strict -/
def HEntry.lt (a b : HEntry) : Bool :=
  decide (a.time < b.time) ||
  (decide (a.time = b.time) && (decide (a.prio < b.prio) ||
    (decide (a.prio = b.prio) && decide (a.eid < b.eid))))

/-- what resuming a process does: new state, the pids it spawned (in order),
    and the delay of the timeout it yielded (`none`: the process ended) -/
abbrev Handler (σ : Type) := σ → Nat → Time → σ × List Nat × Option Time

structure KState (σ : Type) where
  st : σ
  heap : List HEntry
  eid : Nat
  deriving Inhabited

namespace KState

variable {σ : Type}

/-- the least entry of the heap -/
def peek (k : KState σ) : Option HEntry :=
  k.heap.foldl (fun acc e => match acc with
    | none => some e
    | some m => if e.lt m then some e else some m) none

/-- `env.process(...)` at time `now` for each new pid, in order -/
def pushInits (heap : List HEntry) (eid : Nat) (now : Time) : List Nat → List HEntry × Nat
  | [] => (heap, eid)
  | p :: ps => pushInits (heap ++ [⟨now, 0, eid, p⟩]) (eid + 1) now ps

/-- one `Environment.step()` -/
def step (h : Handler σ) (k : KState σ) : Option (KState σ) :=
  match k.peek with
  | none => none
  | some e =>
    let heap1 := k.heap.erase e
    let (st1, spawned, y) := h k.st e.pid e.time
    let (heap2, eid2) := pushInits heap1 k.eid e.time spawned
    match y with
    | some d => some { st := st1, heap := heap2 ++ [⟨e.time + d, 1, eid2, e.pid⟩], eid := eid2 + 1 }
    | none => some { st := st1, heap := heap2, eid := eid2 }

/-- `env.run(until=u)`: process every event whose time is below `u`
    (`fuel` bounds the number of events; `none` = fuel exhausted) -/
def runUntil (h : Handler σ) (u : Time) : Nat → KState σ → Option (KState σ)
  | 0, _ => none
  | fuel + 1, k =>
    match k.peek with
    | none => some k
    | some e =>
      if e.time < u then
        match k.step h with
        | none => some k
        | some k1 => runUntil h u fuel k1
      else some k

/-- the same as a relation (no fuel): `RunsTo h u k k'` -/
inductive RunsTo (h : Handler σ) (u : Time) : KState σ → KState σ → Prop
  | idle (k : KState σ) : k.peek = none → RunsTo h u k k
  | stop (k : KState σ) (e : HEntry) : k.peek = some e → u ≤ e.time → RunsTo h u k k
  | step (k k1 k2 : KState σ) (e : HEntry) : k.peek = some e → e.time < u →
      k.step h = some k1 → RunsTo h u k1 k2 → RunsTo h u k k2

/-- a paused run: `start(u₁)`, `resume(u₂)`, …, `resume(uₙ)` -/
inductive SegRuns (h : Handler σ) : List Time → KState σ → KState σ → Prop
  | nil (k : KState σ) : SegRuns h [] k k
  | cons (u : Time) (us : List Time) (k k1 k2 : KState σ) :
      RunsTo h u k k1 → SegRuns h us k1 k2 → SegRuns h (u :: us) k k2

end KState
end Topsim
