/-
  TopsimModel.Buffer — executable model of `topsim/core/buffer.py`
  (Buffer, HotBuffer, ColdBuffer), one function per method / generator block,
  in the shape of the code (after the F6a and F8 repairs).

  Sizes are integers (whole multiples of the unit).  The float comparisons with
  the 0.6 threshold are modelled exactly: `x / total > 0.6` is `5 x > 3 total`
  (true for every integer pair far below 2^53; `(100-40)/100` is the same float
  as the literal `0.6`).

  `size` mirrors `observation.total_data_size` (the attribute lives on the
  Observation object in the code).
-/
import TopsimModel.Basic

namespace Topsim

structure Hot where
  total : Int
  cur : Int
  maxRate : Int
  stored : List Oid
  transfer : Option Oid
  scheduled : List Oid
  finished : List Oid
  deriving Repr, Inhabited, DecidableEq

structure Cold where
  total : Int
  cur : Int
  maxRate : Int
  stored : List Oid
  transfer : Option Oid
  deriving Repr, Inhabited, DecidableEq

structure Buffer where
  hot : Hot
  cold : Cold
  dltt : Int                      -- `_data_left_to_transfer`
  storedTimes : List Nat          -- `stored_times`
  waiting : List Oid              -- `waiting_observation_list`
  size : List (Oid × Int)         -- observation.total_data_size
  deriving Repr, Inhabited, DecidableEq

namespace Buffer

def init (hotCap hotRate coldCap coldRate : Int) : Buffer :=
  { hot := { total := hotCap, cur := hotCap, maxRate := hotRate, stored := [],
             transfer := none, scheduled := [], finished := [] },
    cold := { total := coldCap, cur := coldCap, maxRate := coldRate, stored := [],
              transfer := none },
    dltt := 0, storedTimes := [], waiting := [], size := [] }

def sizeOf (b : Buffer) (o : Oid) : Int := (dictGet b.size o).getD 0

/-- `HotBuffer.has_capacity_for(size)` -/
def hotHasCapacityFor (b : Buffer) (sz : Int) : Bool :=
  let size := match b.hot.transfer with
    | some t => sz + b.sizeOf t
    | none => sz
  decide (b.hot.cur - size ≥ 0)

/-- `ColdBuffer.has_capacity_for(size)` -/
def coldHasCapacityFor (b : Buffer) (sz : Int) : Bool :=
  let size := match b.cold.transfer with
    | some t => sz + b.sizeOf t
    | none => sz
  decide (b.cold.cur - size ≥ 0)

/-- `check_buffer_over_data_threshold(b)` -/
def overThreshold (b : Buffer) : Bool :=
  decide (5 * (b.hot.total - b.hot.cur) > 3 * b.hot.total)

/-- `project_buffer_capacity(obs, b)` -/
def projectCapacity (b : Buffer) (o : Oid) : Bool :=
  decide (5 * (b.hot.total - b.hot.cur + b.sizeOf o) < 3 * b.hot.total)

/-- `Buffer.check_buffer_capacity(observation)` with
    `size = ingest_data_rate * duration` -/
def checkCapacity (b : Buffer) (rate : Int) (duration : Int) : Except Err Bool :=
  if duration < 1 then .error .runtime
  else
    let size := rate * duration
    if b.hot.total ≤ size then .error .runtime
    else if b.hot.cur - size < 0 ∨ !(b.coldHasCapacityFor size) then .ok false
    else .ok true

/-- one step of `ingest_data_stream`:
    `process_incoming_data_stream(rate)` then `total_data_size += rate` -/
def deposit (b : Buffer) (o : Oid) (rate : Int) : Buffer × Option Err :=
  if rate > b.hot.maxRate then (b, some .value)        -- int(rate) > max_ingest_data_rate
  else
    ({ b with hot := { b.hot with cur := b.hot.cur - rate },
              size := dictSet b.size o (b.sizeOf o + rate) }, none)

/-- the last step of `ingest_data_stream` additionally stores the observation -/
def store (b : Buffer) (o : Oid) (now : Nat) : Buffer :=
  { b with waiting := b.waiting ++ [o],
           hot := { b.hot with stored := b.hot.stored ++ [o] },
           storedTimes := b.storedTimes ++ [now] }

/-- `has_observations_ready_for_processing()` -/
def hasReady (b : Buffer) : Bool :=
  decide (b.hot.stored.length > 0) && !b.overThreshold

/-- `HotBuffer.next_observation_for_processing()`: pop the last stored
    observation into `scheduled` -/
def nextForProcessing (b : Buffer) : Buffer × Option Oid :=
  match b.hot.stored.getLast? with
  | none => (b, none)
  | some o =>
    ({ b with hot := { b.hot with stored := b.hot.stored.dropLast,
                                  scheduled := b.hot.scheduled ++ [o] } }, some o)

/-- `HotBuffer.remove(observation)` (via `mark_observation_finished`) -/
def remove (b : Buffer) (o : Oid) : Buffer × Bool :=
  if o ∈ b.hot.scheduled then
    ({ b with hot := { b.hot with cur := b.hot.cur + b.sizeOf o,
                                  finished := b.hot.finished ++ [o],
                                  scheduled := b.hot.scheduled.erase o } }, true)
  else (b, false)

/-- `is_empty()` -/
def isEmpty (b : Buffer) : Bool :=
  decide (b.hot.total = b.hot.cur) && decide (b.cold.total = b.cold.cur)

/-! ### tier moves -/

/-- arithmetic of `receive_observation(obs, residual, rate)`:
    returns (amount taken from the receiver's free space, new residual) -/
def recvAmount (rate residual size : Int) : Int × Int :=
  if rate > 0 then
    if residual < rate then (residual, 0) else (rate, residual - rate)
  else (size, residual - size)

/-- arithmetic of `transfer_observation(obs, rate, residual)`:
    returns (amount given back to the sender's free space, new residual) -/
def sendAmount (rate residual size : Int) : Int × Int :=
  if rate < 0 then (size, residual - size)
  else if residual < rate then (residual, 0)
  else (rate, residual - rate)

/-- the slower of the two tiers' rates (after the F8 repair both sides use it) -/
def moveRate (b : Buffer) : Int := min b.hot.maxRate b.cold.maxRate

/-- first block of `move_hot_to_cold`, up to the loop:
    `none` = the process returned False (refused), `some left` = transfer started -/
def hot2coldBegin (b : Buffer) : Buffer × Except Err (Option (Oid × Int)) :=
  match b.hot.stored.getLast? with
  | none => (b, .error .runtime)
  | some o =>
    let b1 := { b with hot := { b.hot with stored := b.hot.stored.dropLast, transfer := some o },
                       dltt := b.sizeOf o }
    let left := b.sizeOf o
    if !(b1.coldHasCapacityFor left) then
      ({ b1 with hot := { b1.hot with stored := b1.hot.stored ++ [o], transfer := none } }, .ok none)
    else (b1, .ok (some (o, left)))

/-- one loop iteration of `move_hot_to_cold` with `left > 0` -/
def hot2coldStep (b : Buffer) (o : Oid) (left : Int) : Buffer × Except Err Int :=
  let rate := b.moveRate
  let sz := b.sizeOf o
  -- cold.receive_observation
  let (take, check) := recvAmount rate left sz
  let cold1 := { b.cold with transfer := some o, cur := b.cold.cur - take }
  let cold2 := if check = 0 then { cold1 with transfer := none, stored := cold1.stored ++ [o] } else cold1
  -- hot.transfer_observation
  let hot0 := if b.hot.transfer.isNone then { b.hot with transfer := some o } else b.hot
  let (give, left') := sendAmount rate left sz
  let hot1 := { hot0 with cur := hot0.cur + give }
  let hot2 := if left' = 0 then { hot1 with transfer := none } else hot1
  let b1 := { b with hot := hot2, cold := cold2 }
  if check ≠ left' then (b1, .error .runtime)
  else ({ b1 with dltt := left' }, .ok left')

def cold2hotBegin (b : Buffer) : Buffer × Except Err (Option (Oid × Int)) :=
  match b.cold.stored.getLast? with
  | none => (b, .error .runtime)
  | some o =>
    let b1 := { b with cold := { b.cold with stored := b.cold.stored.dropLast, transfer := some o } }
    let left := b.sizeOf o
    if !(b1.hotHasCapacityFor left) then
      ({ b1 with cold := { b1.cold with stored := b1.cold.stored ++ [o], transfer := none } }, .ok none)
    else (b1, .ok (some (o, left)))

def cold2hotStep (b : Buffer) (o : Oid) (left : Int) : Buffer × Except Err Int :=
  let rate := b.moveRate
  let sz := b.sizeOf o
  -- hot.receive_observation
  let (take, check) := recvAmount rate left sz
  let hot1 := { b.hot with transfer := some o, cur := b.hot.cur - take }
  let hot2 := if check = 0 then { hot1 with transfer := none, stored := hot1.stored ++ [o] } else hot1
  -- cold.transfer_observation
  let cold0 := if b.cold.transfer.isNone then { b.cold with transfer := some o } else b.cold
  let (give, left') := sendAmount rate left sz
  let cold1 := { cold0 with cur := cold0.cur + give }
  let cold2 := if left' = 0 then { cold1 with transfer := none } else cold1
  let b1 := { b with hot := hot2, cold := cold2 }
  if check ≠ left' then (b1, .error .runtime) else (b1, .ok left')

/-- fuel-free run of a whole hot→cold move once it has started: the number of
    transfer steps and the final buffer (used by C18) -/
def hot2coldRun (fuel : Nat) (b : Buffer) (o : Oid) (left : Int) (steps : Nat) :
    Buffer × Except Err Nat :=
  match fuel with
  | 0 => (b, .error .other)
  | fuel + 1 =>
    if left ≤ 0 then (b, .ok steps)
    else match hot2coldStep b o left with
      | (b1, .error e) => (b1, .error e)
      | (b1, .ok left') => hot2coldRun fuel b1 o left' (steps + 1)

def cold2hotRun (fuel : Nat) (b : Buffer) (o : Oid) (left : Int) (steps : Nat) :
    Buffer × Except Err Nat :=
  match fuel with
  | 0 => (b, .error .other)
  | fuel + 1 =>
    if left ≤ 0 then (b, .ok steps)
    else match cold2hotStep b o left with
      | (b1, .error e) => (b1, .error e)
      | (b1, .ok left') => cold2hotRun fuel b1 o left' (steps + 1)

/-- decisions of one `Buffer.run` block: which tier moves it starts -/
structure LoopDecision where
  startHot2Cold : Bool
  startCold2Hot : Bool
  deriving Repr, DecidableEq

def loopDecide (b : Buffer) (now : Nat) : Except Err LoopDecision :=
  let over := b.overThreshold
  if over ∧ now ∈ b.storedTimes then .ok ⟨false, false⟩          -- `continue`
  else
    let h2c : Except Err Bool :=
      if over then
        match b.hot.stored.getLast? with
        | none => .error .index                                    -- stored[-1] on an empty list (K1a)
        | some o => .ok (b.coldHasCapacityFor (b.sizeOf o))
      else .ok false
    match h2c with
    | .error e => .error e
    | .ok h =>
      let c2h :=
        if 5 * (b.hot.cur + b.dltt) < 3 * b.hot.total then
          match b.cold.stored.getLast? with
          | some o => b.projectCapacity o
          | none => false
        else false
      .ok ⟨h, c2h⟩

end Buffer
end Topsim
