/-
  TopsimModel.Reach — the L2 transition relation: from the started simulation,
  ANY process whose wake time is minimal among the live processes may run its
  next block, with ANY oracle input (delay result, user-algorithm proposals,
  static-plan rows).  SimPy's order is one of these schedules.
-/
import TopsimModel.Procs

namespace Topsim
namespace Sys

/-- `pid` is alive and no live process is due earlier -/
def enabled (s : Sys) (pid : Nat) : Prop :=
  ∃ p, s.proc? pid = some p ∧ p.alive = true ∧ ∀ q ∈ s.procs, q.alive = true → p.wake ≤ q.wake

/-- a well-formed initial configuration, before `start()` -/
structure WFConfig (s0 : Sys) : Prop where
  machinesNodup : (s0.machines.map (·.id)).Nodup
  clInit : s0.cl = Cluster.init (s0.machines.map (·.id))
  obsNodup : (s0.obs.map (·.id)).Nodup
  obsWaiting : ∀ o ∈ s0.obs, o.status = .waiting ∧ o.ast = none ∧ 1 ≤ o.demand ∧ 1 ≤ o.duration
  fresh : s0.procs = [] ∧ s0.nextPid = 0 ∧ s0.tasks = [] ∧ s0.plans = [] ∧ s0.queue = [] ∧
          s0.starts = [] ∧ s0.active = [] ∧ s0.admitted = [] ∧ s0.telUse = 0 ∧ s0.telStatus = false ∧
          s0.provIngest = 0 ∧ s0.rows = [] ∧ s0.log = [] ∧ s0.telEvents = [] ∧ s0.schEvents = [] ∧
          s0.bufEvents = [] ∧ s0.crashed = none

inductive Reach (s0 : Sys) : Sys → Prop
  | start : Reach s0 s0.start
  | step (s : Sys) (pid : Nat) (orc : Oracle) :
      Reach s0 s → s.enabled pid → Reach s0 (s.resume pid orc).1

end Sys
end Topsim
