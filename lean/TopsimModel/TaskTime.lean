/-
  TopsimModel.TaskTime — `Task.calculate_runtime`, the `do_work` timeline and
  `_wait_for_transfer` (topsim/core/task.py).  Mathlib-free.

  Work, speeds and volumes are naturals (whole multiples of the unit, as the
  property statements say); times are rationals because a transfer wait is
  `volume / bandwidth` in true division.

  Float assumption (trusted base): for naturals below 2^53, Python's
  `int(a / b)` equals `a / b` in ℕ (floor division).
-/
import TopsimModel.Basic

namespace Topsim

abbrev Time := Rat

/-- `Task.calculate_runtime(machine)`:
    `max(int(flops / machine.cpu), int(task_data / machine.bandwidth))`.
    Python raises ZeroDivisionError for a zero speed. -/
def calculateRuntime (flops data cpu bw : Nat) : Except Err Nat :=
  if cpu = 0 ∨ bw = 0 then .error .zerodiv
  else .ok (max (flops / cpu) (data / bw))

/-- the nominal duration `do_work` uses: recomputed from the machine when the
task carries work, otherwise the planned `eft - est` -/
def nominalDuration (flops data cpu bw : Nat) (planned : Nat) : Except Err Nat :=
  if flops > 0 ∨ data > 0 then calculateRuntime flops data cpu bw else .ok planned

/-- `do_work` after the start stamp: waits `total - 1` (or `0` in the `< 1`
branch, after the F5 repair) and stamps `aft = now + 1`.
`total` is what the delay model returned for the nominal duration. -/
def bodyWait (total : Nat) : Nat := if total < 1 then 0 else total - 1

/-- recorded finish for a body that started at `ast` -/
def finishTime (ast : Time) (total : Nat) : Time := ast + (bodyWait total : Nat) + 1

/-- machine occupancy in timesteps: `aft - ast` -/
def occupancy (total : Nat) : Nat := bodyWait total + 1

/-- `_wait_for_transfer`: the maximum over cross-machine predecessors of
    `pred.aft + io/bandwidth - now`, floored at 0 (`mx = 0` initially). -/
def waitForTransfer (now : Time) (bw : Nat) (preds : List (Time × Nat)) : Time :=
  preds.foldl (fun mx (p : Time × Nat) =>
    let arrive := p.1 + (p.2 : Rat) / (bw : Rat) - now
    if arrive > mx then arrive else mx) 0

/-- recorded start: allocation time plus the transfer wait
    (no wait at all when the cross-machine list is empty) -/
def startTime (alloc : Time) (bw : Nat) (preds : List (Time × Nat)) : Time :=
  if preds.isEmpty then alloc else alloc + waitForTransfer alloc bw preds

end Topsim
