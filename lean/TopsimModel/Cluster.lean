/-
  TopsimModel.Cluster — executable model of `topsim/core/cluster.py`.

  One function per public method / generator block of `Cluster`, each written
  in the shape of the Python code (same tests in the same order, same partial
  mutations before a `raise`).  A call returns the cluster *after* the call and
  the exception it raised, if any — Python keeps whatever was mutated before a
  raise, and "a refused call leaves the pools unchanged" (C02) is then a
  theorem, not a convention.

  Ghost fields (`pending`, `runOn`) mirror the part of the SimPy process table
  that concerns the cluster: the `allocate_task_to_cluster` processes that have
  been created for ingest but have not run their first block (`pending`), and
  those that are polling for their task to finish (`runOn`).  They are never
  read by the modelled code paths; the correspondence check reconstructs them
  from the tracer's process table.
-/
import TopsimModel.Basic

namespace Topsim

structure RunEntry where
  task : Tid
  mach : Mid
  obs : Option Oid
  ing : Bool
  deriving DecidableEq, Repr, Inhabited

structure Cluster where
  machines : List Mid
  available : List Mid
  ingest : List Mid
  occupied : List Mid
  idle : List (Oid × List Mid)          -- `_resources['idle']`, insertion ordered
  running : List Tid                    -- `_tasks['running']`
  finished : List (Tid × Bool)          -- `_tasks['finished']`
  ingestStatus : Bool                   -- `_ingest['status']`
  ingestDemand : Nat                    -- `_ingest['demand']`
  ingestCompleted : Nat                 -- `_ingest['completed']`
  uAvail : Int                          -- `_usage_data['available']`
  uIngest : Int
  uRunning : Int
  uFinished : Int
  numProv : Int                         -- `num_provisioned_obs`
  pending : List RunEntry               -- ghost
  runOn : List RunEntry                 -- ghost
  deriving Repr, Inhabited

namespace Cluster

def init (ms : List Mid) : Cluster :=
  { machines := ms, available := ms, ingest := [], occupied := [], idle := [],
    running := [], finished := [], ingestStatus := false, ingestDemand := 0,
    ingestCompleted := 0, uAvail := ms.length, uIngest := 0, uRunning := 0,
    uFinished := 0, numProv := 0, pending := [], runOn := [] }

/-- `get_idle_resources(observation)` -/
def idleOf (c : Cluster) (o : Option Oid) : List Mid :=
  match o with
  | none => []
  | some o => (dictGet c.idle o).getD []

def isProvisioned (c : Cluster) (o : Oid) : Bool := dictHas c.idle o

/-- all machines reserved-idle, over all observations -/
def idleAll (c : Cluster) : List Mid := (c.idle.map (·.2)).flatten

/-- `check_ingest_capacity(pipeline_demand, max_ingest_resources, reserved)`.  F14: `reserved` is the scheduler's reservation counter; what it promises beyond the machines already in
the ingest pool (observations admitted earlier in the same telescope pass) is no longer free -/
def checkIngestCapacity (c : Cluster) (demand maxIngest : Nat) (reserved : Int := 0) : Bool :=
  if demand > maxIngest then false
  else
    let promised : Int := if reserved - (c.ingest.length : Int) < 0 then 0 else reserved - (c.ingest.length : Int)
    if (c.available.length : Int) - promised ≥ (demand : Int) ∧ c.ingest.length + demand ≤ maxIngest then true
    else false

/-- `is_idle()` (after the F1 repair) -/
def isIdle (c : Cluster) : Bool :=
  let noTasksRunning := c.running.length == 0      -- and len(waiting) == 0, always empty
  let noResourcesOccupied := c.occupied.length == 0 && c.ingest.length == 0
  if noTasksRunning && noResourcesOccupied then true else false

/-- `is_occupied(machine)` -/
def isOccupied (c : Cluster) (m : Mid) : Bool :=
  decide (m ∈ c.occupied) || decide (m ∈ c.ingest)

/-- `is_task_finished(task)` -/
def isTaskFinished (c : Cluster) (t : Tid) : Bool :=
  match dictGet c.finished t with
  | none => false
  | some b => b

/-- the loop of `provision_ingest_resources`:
    `ingest.append(machine); available.remove(machine); env.process(allocate…)` -/
def moveToIngest (c : Cluster) (obs : Oid) : List (Mid × Tid) → Cluster × Option Err
  | [] => (c, none)
  | (m, t) :: rest =>
    let c1 := { c with ingest := c.ingest ++ [m] }
    if m ∈ c1.available then
      moveToIngest { c1 with available := c1.available.erase m,
                             pending := c1.pending ++ [⟨t, m, some obs, true⟩] } obs rest
    else (c1, some .value)

/-- first block of `provision_ingest_resources(demand, observation)`.
    Returns the (machine, task) pairs whose allocation processes were created. -/
def provisionIngest (c : Cluster) (demand : Nat) (obs : Oid) :
    Cluster × Option Err × List (Mid × Tid) :=
  if demand > c.available.length then (c, some .runtime, [])
  else
    let ms := c.available.take demand
    let pairs := ms.zipIdx.map (fun (m, i) => (m, Tid.ingest obs i))
    let c1 := { c with ingestStatus := true, ingestDemand := demand }
    let (c2, e) := moveToIngest c1 obs pairs
    (c2, e, pairs)

/-- `clean_up_ingest()` -/
def cleanUpIngest (c : Cluster) : Cluster :=
  { c with ingestCompleted := c.ingestCompleted + 1, ingestStatus := false }

/-- one block of `Cluster.run` (after the F3 repair) -/
def loopTick (c : Cluster) : Cluster :=
  if !c.ingestStatus then { c with ingestDemand := 0 } else c

/-- `_set_machine_occupied(machine, observation)` -/
def setMachineOccupied (c : Cluster) (m : Mid) (obs : Option Oid) : Cluster × Option Err :=
  if m ∈ c.available then
    ({ c with available := c.available.erase m, occupied := c.occupied ++ [m] }, none)
  else
    match obs with
    | none => (c, none)
    | some o =>
      match dictGet c.idle o with
      | none => (c, none)                                 -- returns False, nothing moved
      | some l =>
        if m ∈ l then
          ({ c with idle := dictSet c.idle o (l.erase m), occupied := c.occupied ++ [m] }, none)
        else (c, some .value)                             -- list.remove raises

/-- `_set_machine_available(machine, observation)` (non-ingest branch) -/
def setMachineAvailable (c : Cluster) (m : Mid) (obs : Option Oid) : Cluster × Option Err :=
  if m ∈ c.occupied then
    let c1 := { c with occupied := c.occupied.erase m }
    match obs with
    | none => ({ c1 with available := c1.available ++ [m] }, none)
    | some o =>
      match dictGet c1.idle o with
      | some l => ({ c1 with idle := dictSet c1.idle o (l ++ [m]) }, none)
      | none => ({ c1 with available := c1.available ++ [m] }, none)
  else (c, some .value)

/-- First block of `allocate_task_to_cluster(task, machine, preds, observation, ingest)`
    (after the F7 repair of the eligibility test). -/
def allocBegin (c : Cluster) (t : Tid) (m : Mid) (obs : Option Oid) (ing : Bool) :
    Cluster × Option Err :=
  if t ∈ c.running then (c, some .attr)          -- `ret` is still None: ret.triggered
  else
    let eligible : Bool :=
      if ing then decide (m ∈ c.ingest)
      else decide (m ∈ c.available) || decide (m ∈ c.idleOf obs)
    if !eligible then (c, some .runtime)
    else if ing then
      ({ c with running := c.running ++ [t],
                finished := dictSet c.finished t false,
                uAvail := c.uAvail - 1, uRunning := c.uRunning + 1, uIngest := c.uIngest + 1,
                pending := c.pending.erase ⟨t, m, obs, true⟩,
                runOn := c.runOn ++ [⟨t, m, obs, true⟩] }, none)
    else
      match setMachineOccupied c m obs with
      | (c1, some e) => (c1, some e)
      | (c1, none) =>
        ({ c1 with running := c1.running ++ [t],
                   uAvail := c1.uAvail - 1, uRunning := c1.uRunning + 1,
                   runOn := c1.runOn ++ [⟨t, m, obs, false⟩] }, none)

/-- The `if ret.triggered:` block of `allocate_task_to_cluster`. -/
def allocEnd (c : Cluster) (t : Tid) (m : Mid) (obs : Option Oid) (ing : Bool) :
    Cluster × Option Err :=
  if t ∈ c.running then
    let c1 := { c with running := c.running.erase t, uRunning := c.uRunning - 1,
                       finished := dictSet c.finished t true, uFinished := c.uFinished + 1 }
    if ing then
      if m ∈ c1.ingest then
        ({ c1 with ingest := c1.ingest.erase m, available := c1.available ++ [m],
                   uIngest := c1.uIngest - 1, uAvail := c1.uAvail + 1,
                   runOn := c1.runOn.erase ⟨t, m, obs, true⟩ }, none)
      else (c1, some .value)
    else
      match setMachineAvailable c1 m obs with
      | (c2, some e) => (c2, some e)
      | (c2, none) =>
        ({ c2 with uAvail := c2.uAvail + 1, runOn := c2.runOn.erase ⟨t, m, obs, false⟩ }, none)
  else (c, some .value)

/-- `_add_idle_resource(observation, machine)` -/
def addIdleResource (c : Cluster) (o : Oid) (m : Mid) : Cluster × Option Err :=
  let c1 := if dictHas c.idle o then c else { c with idle := c.idle ++ [(o, [])] }
  if m ∈ c1.available then
    ({ c1 with idle := dictSet c1.idle o ((dictGet c1.idle o).getD [] ++ [m]),
               available := c1.available.erase m }, none)
  else (c1, some .runtime)

def addIdleAll (c : Cluster) (o : Oid) : List Mid → Cluster × Option Err
  | [] => (c, none)
  | m :: rest =>
    match addIdleResource c o m with
    | (c1, some e) => (c1, some e)
    | (c1, none) => addIdleAll c1 o rest

/-- `provision_batch_resources(size, name)` -/
def provisionBatch (c : Cluster) (size : Nat) (o : Oid) : Cluster × Option Err :=
  let av := c.available
  let tmp := av.length
  let size' := if size > tmp ∧ tmp > 0 then tmp else size
  if size' > tmp then (c, some .index)           -- available_resources[m] with an empty list
  else
    match addIdleAll c o (av.take size') with
    | (c1, some e) => (c1, some e)
    | (c1, none) => ({ c1 with numProv := c1.numProv + 1 }, none)

/-- `release_batch_resources(observation)` -/
def releaseBatch (c : Cluster) (o : Oid) : Cluster :=
  match dictGet c.idle o with
  | none => c
  | some l =>
    let c1 := { c with available := c.available ++ l }     -- _update_available_resources
    if l ≠ [] then                                          -- _reset_idle_resources
      { c1 with idle := dictErase c1.idle o, numProv := c1.numProv - 1 }
    else c1

end Cluster
end Topsim
