/-
  TopsimModel.BufferOps — the operation alphabet over which C07 quantifies at
  buffer level (deposit / store / hand-over / removal / tier-move steps), with
  total semantics.  A tier-move step carries the process-local residual.
-/
import TopsimModel.Buffer

namespace Topsim

inductive BufOp where
  | deposit (o : Oid) (rate : Int)
  | store (o : Oid) (now : Nat)
  | next
  | remove (o : Oid)
  | h2cBegin
  | h2cStep (o : Oid) (left : Int)
  | c2hBegin
  | c2hStep (o : Oid) (left : Int)
  deriving DecidableEq, Repr, Inhabited

namespace Buffer

def applyOp (b : Buffer) : BufOp → Buffer
  | .deposit o r => (b.deposit o r).1
  | .store o n => b.store o n
  | .next => b.nextForProcessing.1
  | .remove o => (b.remove o).1
  | .h2cBegin => b.hot2coldBegin.1
  | .h2cStep o l => (b.hot2coldStep o l).1
  | .c2hBegin => b.cold2hotBegin.1
  | .c2hStep o l => (b.cold2hotStep o l).1

def run (b : Buffer) (ops : List BufOp) : Buffer := ops.foldl applyOp b

/-- environment assumptions on a history, as a decidable enabledness test:
    data is deposited only for an observation that has not been removed, an
    observation is removed at most once, and a tier-move step is one that the
    move process would actually take without raising -/
def opOk (b : Buffer) : BufOp → Bool
  | .deposit o _ => !b.hot.finished.contains o
  | .remove o => !b.hot.finished.contains o
  | .h2cStep o left => match (b.hot2coldStep o left).2 with | .ok _ => true | .error _ => false
  | .c2hStep o left => match (b.cold2hotStep o left).2 with | .ok _ => true | .error _ => false
  | _ => true

def WFHistDef (b : Buffer) : List BufOp → Prop
  | [] => True
  | op :: rest => opOk b op = true ∧ WFHistDef (b.applyOp op) rest

def decWFHist : (b : Buffer) → (ops : List BufOp) → Decidable (WFHistDef b ops)
  | _, [] => isTrue trivial
  | b, op :: rest =>
    if h : opOk b op = true then
      match decWFHist (b.applyOp op) rest with
      | isTrue h2 => isTrue ⟨h, h2⟩
      | isFalse h2 => isFalse (fun hh => h2 hh.2)
    else isFalse (fun hh => h hh.1)

instance (b : Buffer) (ops : List BufOp) : Decidable (WFHistDef b ops) := decWFHist b ops

/-- data of the observations whose data is (still) in the buffers -/
def residentData (b : Buffer) : Int :=
  ((b.size.filter (fun p => !b.hot.finished.contains p.1)).map (·.2)).foldl (· + ·) 0

/-- a whole ingest of `d ≥ 1` steps as `ingest_data_stream` performs it:
    one deposit per step, the last step also stores the observation -/
def ingestAll (b : Buffer) (o : Oid) (rate : Int) (start : Nat) : Nat → Buffer × Option Err
  | 0 => (b, none)
  | d + 1 =>
    match b.deposit o rate with
    | (b1, some e) => (b1, some e)
    | (b1, none) =>
      if d = 0 then (b1.store o start, none) else ingestAll b1 o rate (start + 1) d

end Buffer
end Topsim
