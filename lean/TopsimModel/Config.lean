/-
  TopsimModel.Config — timestep units (topsim/core/config.py).
  The unit is either a string or an integer number of seconds.
-/
import TopsimModel.Basic

namespace Topsim

inductive TimeUnit where
  | str (s : String)
  | int (n : Int)
  deriving DecidableEq, Repr, Inhabited

/-- the multiplier every section of the configuration is meant to use -/
def multiplier : TimeUnit → Int
  | .str s => if s = "minutes" then 60 else if s = "hours" then 3600 else 1
  | .int n => n

/-- Python's `round` (half to even) on a rational -/
def roundHalfEven (x : Rat) : Int :=
  let f := x.floor
  let r := x - f
  if r < 1/2 then f else if r > 1/2 then f + 1 else (if f % 2 = 0 then f else f + 1)

/-- the scaled quantities, exactly as the three `parse_*` methods compute them -/
structure Scaled where
  start : Rat
  duration : Rat
  dataRate : Int
  hotRate : Rat
  coldRate : Rat
  cpu : Rat
  bandwidth : Rat
  sysBandwidth : Rat
  deriving Repr

def scale (u : TimeUnit) (start duration rate hotRate coldRate flops bw sysbw : Rat) : Scaled :=
  let m : Rat := multiplier u
  { start := start / m, duration := duration / m, dataRate := roundHalfEven (rate * m),
    hotRate := hotRate * m, coldRate := coldRate * m, cpu := flops * m,
    bandwidth := bw * m, sysBandwidth := sysbw * m }

end Topsim
