/-
  TopsimModel.Procs — the 13 process kinds of a topsim simulation as state
  machines over `Sys`.  `resume s pid orc` executes exactly one *block* (the
  stretch of a SimPy process between two yields) of process `pid`.

  Everything a block cannot compute from the state is an explicit oracle input:
  the delay model's answer for a task, the proposals of a user-supplied
  scheduling algorithm, the rows of a static plan.
-/
import TopsimModel.Alg
import TopsimModel.ClusterOps

namespace Topsim

structure Oracle where
  total : Option Nat := none                       -- `_calc_task_delay()` result
  proposals : List (Tid × Mid) := []               -- oracle algorithm: new proposals
  pre : List ClOp := []                            -- oracle algorithm: own reservations
  plan : List (Nat × Mid × Nat × Nat) := []        -- static plan: (node, machine, est, eft)
  delayTable : List (Nat × Nat) := []              -- delay model as a table: nominal ↦ total
  delayScript : List Nat := []                     -- scripted delays: k-th started task gets +script[k % len]
  deriving Repr, Inhabited

inductive Yield where
  | timeout (d : Time)
  | done
  | raised (e : Err)
  deriving Repr, Inhabited

def Obs.isReady (o : Obs) (now : Nat) (capacity : Int) : Bool :=
  decide (o.est ≤ now) && decide ((o.demand : Int) ≤ capacity) && (o.status == .waiting)

def Obs.isFinishedAt (o : Obs) (now : Nat) (telStatus : Bool) : Bool :=
  match o.ast with
  | none => false
  | some a => decide (now ≥ a + o.duration) && telStatus && (o.status != .finished)

namespace Sys

def natNow (now : Time) : Nat := now.floor.toNat

def addTel (s : Sys) (e : Event) : Sys := { s with telEvents := s.telEvents ++ [e] }
def addSch (s : Sys) (e : Event) : Sys := { s with schEvents := s.schEvents ++ [e] }
def addBuf (s : Sys) (e : Event) : Sys := { s with bufEvents := s.bufEvents ++ [e] }

/-! ### monitor -/

/-- `_calc_observation_delay` -/
def obsDelay (s : Sys) (now : Nat) : Int :=
  (s.obs.map (fun o => if now > o.est ∧ o.status = .waiting then ((now - o.est : Nat) : Int) else 0)).foldl (· + ·) 0

/-- the row the monitor writes: the actors' `to_df()` -/
def mkRow (s : Sys) (now : Nat) : Row :=
  { available := s.cl.uAvail, ingest := s.cl.uIngest, running := s.cl.uRunning,
    finished := s.cl.uFinished, provisioned := s.cl.idle.length,
    hot := s.buf.hot.cur, cold := s.buf.cold.cur,
    stored := s.buf.cold.stored.length + s.buf.hot.stored.length,
    waiting := (s.obs.filter (·.status = .waiting)).length,
    obsFinished := (s.obs.filter (·.status = .finished)).length,
    obsDelayed := s.obsDelay now, queue := s.queue.length,
    delayed := s.schedDelayed, delayOffset := s.delayOffset }

/-- `collate_events` (after the F6 repairs: each list is handed over once) -/
def collate (s : Sys) : Sys :=
  { s with log := s.log ++ s.telEvents ++ s.schEvents ++ s.bufEvents,
           telEvents := [], schEvents := [], bufEvents := [] }

def monitorBlock (s : Sys) (now : Time) : Sys × Yield :=
  let s1 := { s with rows := s.rows ++ [s.mkRow (natNow now)] }
  (s1.collate, .timeout 1)

/-! ### telescope -/

/-- `Scheduler.check_ingest_capacity` (after the F4 repair) -/
def checkIngestCapacity (s : Sys) (o : Obs) : Except Err (Sys × Bool) :=
  match s.buf.checkCapacity o.rate o.duration with
  | .error e => .error e
  | .ok bufferCap =>
    if s.cl.checkIngestCapacity o.ingestDemand s.maxIngest s.provIngest then
      if s.provIngest + o.ingestDemand ≤ s.maxIngest then
        let s1 := if bufferCap then { s with provIngest := s.provIngest + o.ingestDemand } else s
        .ok (s1, bufferCap)
      else .ok (s, false)
    else .ok (s, false)

/-- body of the `for observation in self.observations` loop -/
def telescopeVisit (now : Nat) (acc : Sys × Option Err) (oid : Oid) : Sys × Option Err :=
  match acc with
  | (s, some e) => (s, some e)
  | (s, none) =>
    match s.obs? oid with
    | none => (s, none)
    | some o =>
      let capacity : Int := (s.totalArrays : Int) - s.telUse
      if o.isReady now capacity then
        match s.checkIngestCapacity o with
        | .error e => (s, some e)
        | .ok (s1, false) => (s1, none)
        | .ok (s1, true) =>
          let s2 := { s1 with telUse := s1.telUse + o.demand, telStatus := true,
                              admitted := s1.admitted ++ [oid] }
          let s3 := s2.updObs oid (fun r => { r with ast := some now })
          let (s4, _) := s3.spawn (.allocIngest oid 0) now
          (s4.addTel ⟨now, oid, .telStarted⟩, none)
      else if o.isFinishedAt now s.telStatus then
        let s1 := s.updObs oid (fun r => { r with status := .finished })
        let use := s1.telUse - o.demand
        let s2 := { s1 with telUse := use, telStatus := if use = 0 then false else s1.telStatus }
        (s2.addTel ⟨now, oid, .telFinished⟩, none)
      else (s, none)

def telescopeBlock (s : Sys) (now : Time) : Sys × Yield :=
  if s.obs.all (fun o => o.status == .finished) then
    ({ s with telEvents := [] }, .done)
  else
    let s0 := { s with telEvents := [],
                       telDelayed := if s.schedDelayed ∧ !s.telDelayed then true else s.telDelayed }
    match (s0.obs.map (·.id)).foldl (telescopeVisit (natNow now)) (s0, none) with
    | (s1, some e) => (s1, .raised e)
    | (s1, none) => (s1, .timeout 1)

/-! ### ingest chain -/

def allocIngestIter (s : Sys) (now : Time) (oid : Oid) (timeLeft : Int) : Sys × PK × Yield :=
  let epilogue (s : Sys) : Sys × PK × Yield :=
    let d : Int := match s.obs? oid with | some o => o.ingestDemand | none => 0
    ({ s with provIngest := s.provIngest - d, cl := s.cl.cleanUpIngest },
      .allocIngest oid timeLeft, .done)
  match s.obs? oid with
  | none => (s, .allocIngest oid timeLeft, .raised .other)
  | some o =>
    if o.status = .finished then epilogue s
    else if o.status = .waiting then
      let (s1, _) := s.spawn (.provIngest oid o.ingestDemand) now
      let (s2, _) := s1.spawn (.ingestStream oid 0) now
      (s2.updObs oid (fun r => { r with status := .running }), .allocIngest oid timeLeft, .timeout 1)
    else if timeLeft > 0 then (s, .allocIngest oid (timeLeft - 1), .timeout 1)
    else epilogue s

def allocIngestBlock (s : Sys) (now : Time) (pc : Nat) (oid : Oid) (timeLeft : Int) :
    Sys × PK × Yield :=
  if pc = 0 then
    let s1 := s.updObs oid (fun r => { r with ast := some (natNow now) })
    let d : Int := match s.obs? oid with | some o => o.duration | none => 0
    allocIngestIter s1 now oid (d - 1)
  else allocIngestIter s now oid timeLeft

def provIngestBlock (s : Sys) (now : Time) (pc : Nat) (oid : Oid) (demand : Nat) :
    Sys × PK × Yield :=
  if pc = 0 then
    let dur := match s.obs? oid with | some o => o.duration | none => 0
    match s.cl.provisionIngest demand oid with
    | (cl1, some e, _) => ({ s with cl := cl1 }, .provIngest oid demand, .raised e)
    | (cl1, none, pairs) =>
      let recs : List TaskRec := pairs.map (fun (_, t) =>
        { id := t, duration := dur, status := .scheduled })
      let s1 := { s with cl := cl1, tasks := s.tasks ++ recs }
      let s2 := pairs.foldl (fun (s : Sys) (p : Mid × Tid) =>
        (s.spawn (.allocTask p.2 p.1 [] (some oid) true 0) now).1) s1
      (s2, .provIngest oid demand, .timeout 1)
  else (s, .provIngest oid demand, .done)

def ingestStreamIter (s : Sys) (now : Time) (oid : Oid) (timeLeft : Int) : Sys × PK × Yield :=
  match s.obs? oid with
  | none => (s, .ingestStream oid timeLeft, .raised .other)
  | some o =>
    if o.status = .running then
      match s.buf.deposit oid o.rate with
      | (b1, some e) => ({ s with buf := b1 }, .ingestStream oid timeLeft, .raised e)
      | (b1, none) =>
        let s1 := { s with buf := b1 }
        if timeLeft > 0 then (s1, .ingestStream oid (timeLeft - 1), .timeout 1)
        else ({ s1 with buf := s1.buf.store oid (natNow now) }, .ingestStream oid timeLeft, .done)
    else (s, .ingestStream oid timeLeft, .done)

def ingestStreamBlock (s : Sys) (now : Time) (pc : Nat) (oid : Oid) (timeLeft : Int) :
    Sys × PK × Yield :=
  if pc = 0 then
    match s.obs? oid with
    | none => (s, .ingestStream oid timeLeft, .raised .other)
    | some o =>
      if o.status = .waiting then (s, .ingestStream oid timeLeft, .raised .runtime)
      else
        let s1 := s.addBuf ⟨natNow now, oid, .bufAdded⟩
        ingestStreamIter s1 now oid ((o.duration : Int) - 1)
  else ingestStreamIter s now oid timeLeft

/-! ### allocate_task_to_cluster / do_work -/

def procTriggered (s : Sys) (pid : Nat) : Bool :=
  match s.proc? pid with
  | some p => !p.alive
  | none => false

/-- `env.now >= task.aft` (`aft` is -1 until the body stamps it) -/
def aftReached (s : Sys) (now : Time) (t : Tid) : Bool :=
  match s.task? t with
  | some r => (match r.aft with | some f => decide (f ≤ now) | none => true)
  | none => true

def allocTaskBlock (s : Sys) (now : Time) (t : Tid) (m : Mid) (preds : List Tid)
    (obs : Option Oid) (ing : Bool) (ret : Nat) : Sys × PK × Yield :=
  let k := PK.allocTask t m preds obs ing ret
  let finish (s : Sys) (ret : Nat) : Sys × PK × Yield :=
    let k := PK.allocTask t m preds obs ing ret
    -- F13: the machine stays with the task until the finish time the body recorded (`now ≥ task.aft`;
    -- a body that raised before stamping leaves `aft` unset, Python's -1)
    if s.procTriggered ret && s.aftReached now t then
      match s.cl.allocEnd t m obs ing with
      | (cl1, some e) => ({ s with cl := cl1 }, k, .raised e)
      | (cl1, none) =>
        (({ s with cl := cl1 }).updTask t (fun r => { r with status := .finished }), k, .done)
    else (s, k, .timeout 1)
  if t ∉ s.cl.running then
    match s.cl.allocBegin t m obs ing with
    | (cl1, some e) => ({ s with cl := cl1 }, k, .raised e)
    | (cl1, none) =>
      let s1 := ({ s with cl := cl1 }).updTask t (fun r => { r with status := .scheduled })
      let (s2, ret') := s1.spawn (.doWork t m preds 0 0) now
      if ing then finish s2 ret'
      else (s2, .allocTask t m preds obs ing ret', .timeout 1)
  else finish s ret

/-- `_wait_for_transfer` evaluated on the task records -/
def transferWait (s : Sys) (now : Time) (t : Tid) (m : Mid) (preds : List Tid) : Except Err Time :=
  match s.task? t, s.machine? m with
  | some r, some mm =>
    if mm.bw = 0 then .error .zerodiv
    else
      let xs := preds.map (fun p =>
        let aft : Time := match s.task? p with
          | some pr => pr.aft.getD (-1)
          | none => -1
        (aft, (dictGet r.io p).getD 0))
      .ok (waitForTransfer now mm.bw xs)
  | _, _ => .error .other

def doWorkBlock (s : Sys) (now : Time) (orc : Oracle) (t : Tid) (m : Mid) (preds : List Tid)
    (phase : Nat) (total : Nat) : Sys × PK × Yield :=
  let start (s : Sys) : Sys × PK × Yield :=
    match s.task? t, s.machine? m with
    | some r, some mm =>
      match nominalDuration r.flops r.data mm.cpu mm.bw r.duration with
      | .error e => (s, .doWork t m preds 2 total, .raised e)
      | .ok dur =>
        let tot := match orc.total with
          | some t => t
          | none =>
            if t.isIngest then dur               -- ingest tasks carry no delay model
            else match dictGet orc.delayTable dur with
            | some t => t
            | none =>
              if orc.delayScript.isEmpty then dur
              else dur + orc.delayScript.getD
                ((s.starts.filter (fun x => !x.isIngest)).length % orc.delayScript.length) 0
        let s1 := s.updTask t (fun r => { r with status := .running, ast := some now, duration := dur })
        let s2 := { s1 with starts := s1.starts ++ [t], active := s1.active ++ [(m, t)] }
        (s2, .doWork t m preds 2 tot, .timeout (bodyWait tot : Nat))
    | _, _ => (s, .doWork t m preds 2 total, .raised .other)
  if phase = 0 then
    if preds.isEmpty then start s
    else
      match s.transferWait now t m preds with
      | .error e => (s, .doWork t m preds 0 total, .raised e)
      | .ok w => (s, .doWork t m preds 1 total, .timeout w)
  else if phase = 1 then start s
  else
    let s1 := s.updTask t (fun r =>
      let r1 := if r.duration < total then
        { r with delayFlag := true, delayOffset := r.delayOffset + ((total - r.duration : Nat) : Int) }
        else r
      let aft : Time := now + 1
      { r1 with aft := some aft, delayFlag := if aft > (r1.eft : Rat) then true else r1.delayFlag })
    ({ s1 with active := s1.active.erase (m, t) }, .doWork t m preds 3 total, .done)

/-! ### scheduler loop and planning -/

/-- `BatchPlanning.generate_plan` -/
def batchPlan (o : Obs) (clock : Nat) : List TaskRec × Plan :=
  let tid (n : Nat) : Tid := .wf o.id clock n
  let recs : List TaskRec := o.wf.topo.map (fun n =>
    let attrs := (o.wf.nodes.find? (·.1 = n)).getD (n, 0, 0)
    let pe := o.wf.edges.filter (fun e => e.2.1 = n)
    { id := tid n, flops := attrs.2.1, data := attrs.2.2,
      preds := pe.map (fun e => tid e.1),
      io := pe.map (fun e => (tid e.1, e.2.2)) })
  let plan : Plan :=
    { obs := o.id, tasks := recs.map (·.id),
      edges := o.wf.edges.map (fun e => (tid e.1, tid e.2.1)),
      est := if o.wf.topo.isEmpty then o.duration else 0 }
  (recs, plan)

/-- the harness-side StaticPlanning: rows (node, machine, est, eft) come from
    the oracle, in `plan.tasks` order (sorted by est, stable) -/
def staticPlanOf (o : Obs) (clock : Nat) (rows : List (Nat × Mid × Nat × Nat)) : List TaskRec × Plan :=
  let tid (n : Nat) : Tid := .wf o.id clock n
  let recs : List TaskRec := rows.map (fun (n, mid, est, eft) =>
    let attrs := (o.wf.nodes.find? (·.1 = n)).getD (n, 0, 0)
    let pe := o.wf.edges.filter (fun e => e.2.1 = n)
    { id := tid n, flops := attrs.2.1, data := attrs.2.2,
      preds := pe.map (fun e => tid e.1),
      io := pe.map (fun e => (tid e.1, e.2.2)),
      est := est, eft := eft, planned := some mid, duration := eft - est })
  let plan : Plan :=
    { obs := o.id, tasks := recs.map (·.id),
      edges := o.wf.edges.map (fun e => (tid e.1, tid e.2.1)),
      est := o.duration }
  (recs, plan)

def schedLoopBlock (s : Sys) (now : Time) (orc : Oracle) : Sys × Yield :=
  let s0 := { s with schEvents := [] }
  if s0.buf.hasReady then
    match s0.buf.nextForProcessing with
    | (_, none) => (s0, .timeout 1)
    | (b1, some oid) =>
      match s0.obs? oid with
      | none => (s0, .raised .other)
      | some o =>
        let (recs, plan) := if s0.staticPlan then staticPlanOf o (natNow now) orc.plan
                            else batchPlan o (natNow now)
        let s1 := { s0 with buf := b1, tasks := s0.tasks ++ recs,
                            plans := (s0.plans.filter (·.obs ≠ oid)) ++ [plan] }
        if oid ∈ s1.queue then (s1, .timeout 1)
        else
          let s2 := { s1 with queue := s1.queue ++ [oid] }
          let (s3, _) := s2.spawn (.allocTasks oid [] [] [] false) now
          (s3.addSch ⟨natNow now, oid, .queueAdded⟩, .timeout 1)
  else (s0, .timeout 1)

/-! ### allocate_tasks -/

def taskView (s : Sys) (t : Tid) : TaskView :=
  match s.task? t with
  | none => { id := t, status := .unscheduled, est := 0, hasPred := false, predIds := [],
              machine := .error .key }
  | some r =>
    { id := t, status := r.status, est := r.est, hasPred := !r.preds.isEmpty, predIds := r.preds,
      machine :=
        if r.allocObj then .error .key
        else match r.planned with
          | none => .error .key
          | some m => if (s.machine? m).isSome then .ok m else .error .key }

/-- `_update_current_plan` -/
def updateCurrentPlan (s : Sys) (oid : Oid) : Sys :=
  match s.plan? oid with
  | none => s
  | some p =>
    let fin := p.tasks.filter (fun t => (s.taskView t).status = .finished)
    let s1 := fin.foldl (fun (s : Sys) t =>
      match s.task? t with
      | some r => if r.delayFlag then { s with schedDelayed := true, delayOffset := s.delayOffset + r.delayOffset } else s
      | none => s) s
    s1.updPlan oid (fun p => { p with tasks := p.tasks.filter (fun t => (s.taskView t).status ≠ .finished) })

/-- `Task.update_allocation(machine)` -/
def updateAllocation (r : TaskRec) (mm : Machine) : TaskRec :=
  let dur := max (r.flops / mm.cpu) (r.data / mm.bw)
  let r1 := { r with planned := some mm.id, allocObj := true }
  if dur > r1.duration then
    { r1 with delayFlag := true, delayOffset := ((dur - r1.duration : Nat) : Int), duration := dur }
  else r1

/-- `_find_pred_allocations`: the predecessors recorded on a different machine -/
def crossPreds (pairs : List (Tid × Mid)) (preds : List Tid) (m : Mid) : List Tid :=
  preds.filter (fun p => dictGet pairs p != some m)

structure PcsSt where
  s : Sys
  schedule : List (Tid × Mid)
  pairs : List (Tid × Mid)
  curr : List Mid
  err : Option Err := none

/-- loop body of `_process_current_schedule` -/
def processOne (now : Time) (oid : Oid) (st : PcsSt) (t : Tid) : PcsSt :=
  match st.err with
  | some _ => st
  | none =>
    match dictGet st.schedule t, st.s.task? t with
    | some m, some r =>
      match st.s.machine? m with
      | none => { st with err := some .attr }
      | some mm =>
        -- if machine.id != task.allocated_machine_id: task.update_allocation(machine)
        let needUpd := r.allocObj || r.planned != some m
        if needUpd ∧ (mm.cpu = 0 ∨ mm.bw = 0) then { st with err := some .zerodiv }
        else
          let s1 := if needUpd then st.s.updTask t (fun r => updateAllocation r mm) else st.s
          if st.curr.contains m ∨ s1.cl.isOccupied m then { st with s := s1 }
          else
            let pairs1 := dictSet st.pairs t m
            -- _find_pred_allocations
            let missing := r.preds.any (fun p => !dictHas pairs1 p)
            if missing then { st with s := s1, pairs := pairs1, err := some .key }
            else
              let cross := crossPreds pairs1 r.preds m
              if r.status ≠ .unscheduled then { st with s := s1, pairs := pairs1, err := some .runtime }
              else
                let (s2, _) := s1.spawn (.allocTask t m cross (some oid) false 0) now
                let s3 := s2.updTask t (fun r => { r with status := .scheduled })
                { st with s := s3, pairs := pairs1, curr := st.curr ++ [m],
                          schedule := dictErase st.schedule t }
    | _, _ => { st with err := some .key }

def processCurrentSchedule (s : Sys) (now : Time) (oid : Oid)
    (schedule pairs : List (Tid × Mid)) : PcsSt :=
  let sorted := (dictKeys schedule).mergeSort (fun a b => (s.taskView a).est ≤ (s.taskView b).est)
  sorted.foldl (processOne now oid) { s := s, schedule := schedule, pairs := pairs, curr := [] }

def runAlgorithm (s : Sys) (orc : Oracle) (plan : Plan) (schedule : List (Tid × Mid))
    (pool : List Tid) : Except Err AlgOut :=
  match s.alg with
  | .batch parts minPer split => Alg.batchRun s.cl plan s.taskView parts minPer split schedule pool
  | .queue => Alg.queueRun s.cl plan s.taskView schedule pool
  | .dynamic => Alg.dynamicRun s.cl plan s.taskView schedule pool
  | .greedy => Alg.greedyRun s.cl plan s.taskView schedule pool
  | .oracle =>
    let cl1 := orc.pre.foldl (fun c op => (c.applyOp op).1) s.cl
    .ok { cl := cl1, schedule := orc.proposals.foldl (fun d p => dictSet d p.1 p.2) schedule,
          status := Alg.finishStatus plan plan.status, pool := pool }

def allocTasksIter (s : Sys) (now : Time) (orc : Oracle) (oid : Oid)
    (schedule pairs : List (Tid × Mid)) (pool : List Tid) : Sys × PK × Yield :=
  let k0 := PK.allocTasks oid schedule pairs pool false
  let s1 := s.updateCurrentPlan oid
  match s1.plan? oid with
  | none => (s1, k0, .raised .runtime)
  | some plan =>
    match s1.runAlgorithm orc plan schedule pool with
    | .error e => (s1, k0, .raised e)
    | .ok out =>
      let s2 := ({ s1 with cl := out.cl }).updPlan oid (fun p => { p with status := out.status })
      let s3 := if out.status = .delayed then { s2 with schedDelayed := true } else s2
      let n := natNow now
      if out.schedule.isEmpty ∧ out.status = .finished then
        let s4 := (s3.addSch ⟨n, oid, .allocStopped⟩).addBuf ⟨n, oid, .bufRemoved⟩
        match s4.buf.remove oid with
        | (b1, true) =>
          let s5 := { s4 with buf := b1, cl := s4.cl.releaseBatch oid }
          if oid ∈ s5.queue then
            let s6 := { s5 with queue := s5.queue.erase oid }
            (s6.addSch ⟨n, oid, .queueRemoved⟩, .allocTasks oid out.schedule pairs out.pool true, .timeout 1)
          else (s5, .allocTasks oid out.schedule pairs out.pool false, .raised .value)
        | (b1, false) =>
          ({ s4 with buf := b1 }, .allocTasks oid out.schedule pairs out.pool false, .timeout 1)
      else if out.schedule.isEmpty then
        (s3, .allocTasks oid out.schedule pairs out.pool false, .timeout 1)
      else
        let st := processCurrentSchedule s3 now oid out.schedule pairs
        match st.err with
        | some e => (st.s, .allocTasks oid st.schedule st.pairs out.pool false, .raised e)
        | none => (st.s, .allocTasks oid st.schedule st.pairs out.pool false, .timeout 1)

def allocTasksBlock (s : Sys) (now : Time) (orc : Oracle) (pc : Nat) (oid : Oid)
    (schedule pairs : List (Tid × Mid)) (pool : List Tid) (fin : Bool) : Sys × PK × Yield :=
  if fin then (s, .allocTasks oid schedule pairs pool fin, .done)
  else if pc = 0 then
    let n := natNow now
    let s1 := s.updPlan oid (fun p => { p with ast := some n })
    let ts := match s1.plan? oid with | some p => p.tasks | none => []
    let s2 := ts.foldl (fun (s : Sys) t => s.updTask t (fun r => { r with offset := n })) s1
    allocTasksIter (s2.addSch ⟨n, oid, .allocStarted⟩) now orc oid schedule pairs pool
  else allocTasksIter s now orc oid schedule pairs pool

/-! ### buffer loop and tier moves -/

def bufferLoopBlock (s : Sys) (now : Time) : Sys × Yield :=
  match s.buf.loopDecide (natNow now) with
  | .error e => (s, .raised e)
  | .ok d =>
    let s1 := if d.startHot2Cold then (s.spawn (.hot2cold none) now).1 else s
    let s2 := if d.startCold2Hot then (s1.spawn (.cold2hot none) now).1 else s1
    (s2, .timeout 1)

def hot2coldIter (s : Sys) (now : Time) (o : Oid) (left : Int) : Sys × PK × Yield :=
  if left ≤ 0 then (s.addBuf ⟨natNow now, o, .transferStopped⟩, .hot2cold (some (o, left)), .done)
  else
    match s.buf.hot2coldStep o left with
    | (b1, .error e) => ({ s with buf := b1 }, .hot2cold (some (o, left)), .raised e)
    | (b1, .ok left') => ({ s with buf := b1 }, .hot2cold (some (o, left')), .timeout 1)

def hot2coldBlock (s : Sys) (now : Time) (cur : Option (Oid × Int)) : Sys × PK × Yield :=
  match cur with
  | some (o, left) => hot2coldIter s now o left
  | none =>
    match s.buf.hot2coldBegin with
    | (b1, .error e) => ({ s with buf := b1 }, .hot2cold none, .raised e)
    | (b1, .ok none) => ({ s with buf := b1 }, .hot2cold none, .done)
    | (b1, .ok (some (o, left))) =>
      hot2coldIter (({ s with buf := b1 }).addBuf ⟨natNow now, o, .transferStarted⟩) now o left

def cold2hotIter (s : Sys) (now : Time) (o : Oid) (left : Int) : Sys × PK × Yield :=
  if left ≤ 0 then (s.addBuf ⟨natNow now, o, .transferStopped⟩, .cold2hot (some (o, left)), .done)
  else
    match s.buf.cold2hotStep o left with
    | (b1, .error e) => ({ s with buf := b1 }, .cold2hot (some (o, left)), .raised e)
    | (b1, .ok left') => ({ s with buf := b1 }, .cold2hot (some (o, left')), .timeout 1)

def cold2hotBlock (s : Sys) (now : Time) (cur : Option (Oid × Int)) : Sys × PK × Yield :=
  match cur with
  | some (o, left) => cold2hotIter s now o left
  | none =>
    match s.buf.cold2hotBegin with
    | (b1, .error e) => ({ s with buf := b1 }, .cold2hot none, .raised e)
    | (b1, .ok none) => ({ s with buf := b1 }, .cold2hot none, .done)
    | (b1, .ok (some (o, left))) =>
      cold2hotIter (({ s with buf := b1 }).addBuf ⟨natNow now, o, .transferStarted⟩) now o left

/-! ### dispatch -/

def block (s : Sys) (p : Proc) (orc : Oracle) : Sys × PK × Yield :=
  let now := p.wake
  match p.k with
  | .monitor => let r := s.monitorBlock now; (r.1, p.k, r.2)
  | .telescope => let r := s.telescopeBlock now; (r.1, p.k, r.2)
  | .clusterLoop => ({ s with cl := s.cl.loopTick }, p.k, .timeout 1)
  | .schedLoop => let r := s.schedLoopBlock now orc; (r.1, p.k, r.2)
  | .bufferLoop => let r := s.bufferLoopBlock now; (r.1, p.k, r.2)
  | .allocIngest o tl => s.allocIngestBlock now p.pc o tl
  | .provIngest o d => s.provIngestBlock now p.pc o d
  | .ingestStream o tl => s.ingestStreamBlock now p.pc o tl
  | .allocTask t m preds obs ing ret => s.allocTaskBlock now t m preds obs ing ret
  | .doWork t m preds phase total => s.doWorkBlock now orc t m preds phase total
  | .allocTasks o sc pa po fin => s.allocTasksBlock now orc p.pc o sc pa po fin
  | .hot2cold cur => s.hot2coldBlock now cur
  | .cold2hot cur => s.cold2hotBlock now cur

/-- run one block of process `pid` -/
def resume (s : Sys) (pid : Nat) (orc : Oracle) : Sys × Yield :=
  match s.proc? pid with
  | none => (s, .raised .other)
  | some p =>
    if !p.alive then (s, .raised .other)
    else
      let (s1, k, y) := s.block p orc
      match y with
      | .timeout d =>
        (s1.updProc pid (fun q => { q with k := k, pc := q.pc + 1, wake := p.wake + d }), y)
      | .done => (s1.updProc pid (fun q => { q with k := k, pc := q.pc + 1, alive := false }), y)
      | .raised e =>
        ((s1.updProc pid (fun q => { q with k := k, pc := q.pc + 1, alive := false })).crash e, y)

/-- `Simulation.start()`: the five long-lived processes, in creation order -/
def start (s : Sys) : Sys :=
  [PK.monitor, .telescope, .clusterLoop, .schedLoop, .bufferLoop].foldl
    (fun s k => (s.spawn k 0).1) s

end Sys
end Topsim
