/-
  TopsimModel.ClusterOps — the operation alphabet over which C02/C01/C09/C19
  quantify at cluster level, and its (total) semantics.

  `ingestBegin i` / `finish i` are the first block / completion block of the
  i-th allocation process recorded in the ghost process table (`pending` /
  `runOn`); with an index out of range the operation is not enabled and does
  nothing.  `alloc` is a scheduler-side allocation request with an arbitrary
  (possibly busy, reserved, foreign or nonexistent) target.
-/
import TopsimModel.Cluster

namespace Topsim

inductive ClOp where
  | provBatch (size : Nat) (o : Oid)
  | relBatch (o : Oid)
  | provIngest (demand : Nat) (o : Oid)
  | ingestBegin (i : Nat)
  | alloc (t : Tid) (m : Mid) (obs : Option Oid)
  | finish (i : Nat)
  | tick
  | cleanupIngest
  deriving DecidableEq, Repr, Inhabited

namespace Cluster

/-- state after the call and the exception it raised, if any -/
def applyOp (c : Cluster) : ClOp → Cluster × Option Err
  | .provBatch s o => c.provisionBatch s o
  | .relBatch o => (c.releaseBatch o, none)
  | .provIngest d o => let r := c.provisionIngest d o; (r.1, r.2.1)
  | .ingestBegin i =>
    match c.pending[i]? with
    | none => (c, none)
    | some e => c.allocBegin e.task e.mach e.obs true
  | .alloc t m obs => c.allocBegin t m obs false
  | .finish i =>
    match c.runOn[i]? with
    | none => (c, none)
    | some e => c.allocEnd e.task e.mach e.obs e.ing
  | .tick => (c.loopTick, none)
  | .cleanupIngest => (c.cleanUpIngest, none)

/-- a history: exceptions are caught by the caller (as the unit tests do) and
the next call sees whatever state the failed call left behind -/
def run (c : Cluster) (ops : List ClOp) : Cluster :=
  ops.foldl (fun c op => (c.applyOp op).1) c

/-- the task ids a history introduces (each must be fresh: the scheduler only
submits UNSCHEDULED tasks and an observation is ingested once) -/
def opTids : ClOp → List Tid
  | .alloc t _ _ => [t]
  | _ => []

def opIngestObs : ClOp → List Oid
  | .provIngest _ o => [o]
  | _ => []

/-- well-formed history: scheduler-side tasks are fresh and are not ingest
tasks; every observation is ingested at most once -/
def FreshHist (ops : List ClOp) : Prop :=
  (ops.flatMap opTids).Nodup ∧ (∀ t ∈ ops.flatMap opTids, t.isIngest = false) ∧
  (ops.flatMap opIngestObs).Nodup

end Cluster
end Topsim
