/-
  TopsimModel.Delay — `DelayModel.generate_delay` (topsim/core/delay.py) as a
  function of the random draws.  numpy's generators are not modelled: the
  uniform draw `u` and the sample vector `samples` are parameters (the
  correspondence check feeds the actual draws, as exact rationals).
-/
import TopsimModel.Basic

namespace Topsim

inductive Dist where
  | normal | poisson | uniform
  deriving DecidableEq, Repr, Inhabited

/-- Python's `int(x)` on a float: truncation toward zero -/
def truncRat (x : Rat) : Int := if x ≥ 0 then x.floor else -((-x).floor)

/-- `_create_random_value_from_runtime` once the samples are drawn
    (after the F11 repair: with no sample above the mean the runtime is returned) -/
def pickAboveMean (runtime : Nat) (samples : List Rat) : Except Err Rat :=
  let var := samples.filter (fun s => s > (runtime : Rat))      -- s[s > mu]
  if var.length = 0 then .ok (runtime : Rat)                     -- if len(var) == 0: return runtime
  else match var[var.length / 2]? with                           -- var[int(len(var)/2)]
    | some v => .ok v
    | none => .error .index

/-- `generate_delay(task_runtime)`.
    `degreeZero` is `self.degree.value == 0`; `u` is `default_rng(seed).random()`. -/
def generateDelay (runtime : Nat) (degreeZero : Bool) (dist : Dist) (prob u : Rat)
    (samples : List Rat) : Except Err Int :=
  if degreeZero then .ok runtime
  else if u < prob then
    match dist with
    | .normal =>
      match pickAboveMean runtime samples with
      | .ok v => .ok (truncRat v)
      | .error e => .error e
    | .poisson => .error .type      -- int(runtime / self.degree): int / Enum
    | .uniform => .error .type      -- default_rng().uniform() is a float: s[s > mu]
  else .ok runtime

end Topsim
