-- This module serves as the root of the `Topsimlean` library.
-- Import modules here that should be built as part of the library.
import Topsimlean.Basic
