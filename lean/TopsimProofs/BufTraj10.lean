/-
  BufTraj10 — `SP` under the stream's own block, along every run that has not
  crashed; consequence: an observation marked FINISHED has deposited exactly
  `rate × duration`.
-/
import TopsimProofs.BufTraj9

namespace Topsim
namespace Sys

theorem natCast_succ_time (n : Nat) : ((n : Nat) : Time) + 1 = ((n + 1 : Nat) : Time) := by
  rw [Rat.natCast_add]; rfl

/-- the stream after a block in which it deposited one step of data -/
theorem strOk_after (Y : Sys) (p : Proc) (k' : PK) (y : Yield) (oid : Oid) (tl' tlE : Int) (ob : Obs) (a : Nat)
    (hobY : Y.obs? oid = some ob) (hast : ob.ast = some a) (hrun : ob.status = .running)
    (hwk : p.wake = ((a + p.pc : Nat) : Time)) (htlE : tlE = (ob.duration : Int) - 1 - p.pc) (h0 : 0 ≤ tlE)
    (hsz : Y.buf.sizeOf oid = ob.rate * p.pc + ob.rate) (ha : p.alive = true)
    (hres : (0 < tlE ∧ k' = .ingestStream oid (tlE - 1) ∧ y = .timeout 1) ∨
      (¬ 0 < tlE ∧ k' = .ingestStream oid tlE ∧ y = .done))
    (hk' : k' = .ingestStream oid tl') : StrOk Y (fin k' y p.wake p) oid tl' := by
  have hmul : ob.rate * p.pc + ob.rate = ob.rate * ((p.pc + 1 : Nat) : Int) := by
    rw [Int.natCast_add, Int.mul_add]; simp
  rcases hres with ⟨hpos, hk2, hy⟩ | ⟨hneg, hk2, hy⟩
  · have htl : tl' = tlE - 1 := by
      rw [hk2] at hk'
      simp only [PK.ingestStream.injEq] at hk'
      exact hk'.2.symm
    subst hy
    refine ⟨ob, hobY, fun h => by simp at h, fun _ _ => ⟨a, hast, hrun, ?_, ?_, ?_, ?_⟩, fun _ hd => ?_⟩
    · show p.wake + 1 = (((a + (p.pc + 1) : Nat)) : Time)
      rw [hwk, natCast_succ_time, Nat.add_assoc]
    · show tl' = (ob.duration : Int) - 1 - ((p.pc + 1 : Nat) : Int)
      omega
    · omega
    · show Y.buf.sizeOf oid = ob.rate * ((p.pc + 1 : Nat) : Int)
      rw [hsz, hmul]
    · have : (fin k' (.timeout 1) p.wake p).alive = p.alive := rfl
      rw [this, ha] at hd; cases hd
  · subst hy
    refine ⟨ob, hobY, fun h => by simp at h, fun _ hal => ?_, fun _ _ => ?_⟩
    · have : (fin k' .done p.wake p).alive = false := rfl
      rw [this] at hal; cases hal
    · have hd : ((p.pc + 1 : Nat) : Int) = (ob.duration : Int) := by omega
      rw [hsz, hmul, hd]

theorem sp_ingestStream {s : Sys} (hs : SInv s) (hfi : FI s) (hb : BufI s) (hsi : SI s) (h : SP s) {p : Proc}
    (hp : p ∈ s.procs) (ha : p.alive = true) {oid tl} (hk : p.k = .ingestStream oid tl) (orc : Oracle)
    (hnr : ∀ e, (s.block p orc).2.2 ≠ .raised e) :
    SP ((s.block p orc).1.updProc p.pid (fin (s.block p orc).2.1 (s.block p orc).2.2 p.wake)) := by
  have hpw := hs.pw
  have hbk : s.block p orc = s.ingestStreamBlock p.wake p.pc oid tl := by
    unfold block; simp only [hk]
  obtain ⟨tl', hk'⟩ := ingestStreamBlock_k s p.wake p.pc oid tl
  have hobs : (s.block p orc).1.obs = s.obs := block_obs s p orc (by simp [hk, PK.tag]) (by simp [hk, PK.tag])
  rw [hbk] at hnr hobs ⊢
  have hprocs : (s.ingestStreamBlock p.wake p.pc oid tl).1.procs = s.procs ++ [] := by
    simpa using ingestStreamBlock_procsq s p.wake p.pc oid tl
  have hpwX : PW (s.ingestStreamBlock p.wake p.pc oid tl).1 := (ingestStreamBlock_pres s p.wake p.pc oid tl).pw hpw
  have hm := memSpec_updProc hpw hp [] hprocs hpwX
    (fin (s.ingestStreamBlock p.wake p.pc oid tl).2.1 (s.ingestStreamBlock p.wake p.pc oid tl).2.2 p.wake)
  have hbq := ingestStreamBlock_bq s p.wake p.pc oid tl
  have hobs? : ∀ o, ((s.ingestStreamBlock p.wake p.pc oid tl).1.updProc p.pid
      (fin (s.ingestStreamBlock p.wake p.pc oid tl).2.1 (s.ingestStreamBlock p.wake p.pc oid tl).2.2 p.wake)).obs? o
      = s.obs? o := by
    intro o; unfold obs?; rw [updProc_obs, hobs]
  refine h.stepP hb hpw hp hm ?_ ?_ (by simp) ?_ ?_
  · intro o hno
    show (s.ingestStreamBlock p.wake p.pc oid tl).1.buf.sizeOf o = _
    rcases hbq with ⟨e, _⟩ | ⟨ob, _, _, _, _, _, _, hsz⟩
    · exact sizeOf_congr (congrArg (·.2.2.1) e) o
    · rw [hsz o, if_neg]
      intro e; subst e; exact hno tl hk
  · intro q _ _ o tl0 _ ob hob
    exact ⟨ob, by rw [hobs?]; exact hob, rfl, rfl, fun _ _ hr => ⟨rfl, hr⟩⟩
  · intro o tl0 e
    simp only [fin_k] at e
    rw [hk'] at e
    simp only [PK.ingestStream.injEq] at e
    obtain ⟨rfl, rfl⟩ := e
    -- the observation, its start time, and what the stream has done so far
    have hfacts : ∃ ob a tlE, s.obs? oid = some ob ∧ ob.ast = some a ∧ ob.status = .running ∧
        p.wake = ((a + p.pc : Nat) : Time) ∧ tlE = (ob.duration : Int) - 1 - p.pc ∧ 0 ≤ tlE ∧
        s.buf.sizeOf oid = ob.rate * p.pc ∧
        ∃ s' : Sys, s'.buf = s.buf ∧ s'.obs? oid = s.obs? oid ∧
          s.ingestStreamBlock p.wake p.pc oid tl = s'.ingestStreamIter p.wake oid tlE := by
      by_cases hp0 : p.pc = 0
      · obtain ⟨_, ob, a, hob, hast, hwk⟩ := hsi.sw p hp oid tl hk hp0
        have hom := (obs_mem_of_obs? hob).1
        have hoid := (obs_mem_of_obs? hob).2
        have hrun : ob.status = .running := by
          cases hst : ob.status with
          | running => rfl
          | waiting =>
            exfalso
            obtain ⟨r, hr, hrs⟩ := hb.strObs p hp oid tl hk
            have h1 : s.obs.find? (fun r => decide (r.id = oid)) = some ob := hob
            rw [h1] at hr; injection hr with e
            subst e; exact hrs hst
          | finished =>
            exfalso
            obtain ⟨q, hq, tlq, hqk, hqc⟩ := hsi.fs ob hom hst
            rw [hoid] at hqk
            have := hb.strUniq q hq p hp oid tlq tl hqk hk
            have : q = p := hpw.eq_of_pid hq hp this
            subst this; omega
        obtain ⟨ob2, hob2, a0, _, _⟩ := h.str p hp oid tl hk
        have hdur := hfi.obs.durPos ob hom
        refine ⟨ob, a, (ob.duration : Int) - 1, hob, hast, hrun, by rw [hp0]; exact hwk, by rw [hp0]; simp,
          by omega, by rw [a0 hp0, hp0]; simp, s.addBuf ⟨natNow p.wake, oid, .bufAdded⟩, rfl, rfl, ?_⟩
        rw [hp0]
        exact ingestStreamBlock_first s p.wake oid tl ob hob (by rw [hrun]; simp)
      · obtain ⟨ob, hob, _, a1, _⟩ := h.str p hp oid tl hk
        obtain ⟨a, g1, g2, g3, g4, g5, g6⟩ := a1 (by omega) ha
        exact ⟨ob, a, tl, hob, g1, g2, g3, g4, g5, g6, s, rfl, rfl, ingestStreamBlock_later s p.wake p.pc oid tl hp0⟩
    obtain ⟨ob, a, tlE, hob, hast, hrun, hwk, htlE, h0, hsz0, s', hs'b, hs'o, hB⟩ := hfacts
    have hnr' : ∀ e, (s'.ingestStreamIter p.wake oid tlE).2.2 ≠ .raised e := by rw [← hB]; exact hnr
    obtain ⟨hszs, hres⟩ := ingestStreamIter_run s' p.wake oid tlE ob (by rw [hs'o]; exact hob) hrun hnr'
    rw [← hB] at hszs hres
    rw [hs'b] at hszs
    refine strOk_after _ p _ _ oid tl' tlE ob a (by rw [hobs?]; exact hob) hast hrun hwk htlE h0 ?_ ha hres hk'
    show (s.ingestStreamBlock p.wake p.pc oid tl).1.buf.sizeOf oid = _
    rw [hszs oid, if_pos rfl, hsz0]
  · intro o tl0 e
    rw [hk] at e
    simp only [PK.ingestStream.injEq] at e
    obtain ⟨rfl, _⟩ := e
    exact ⟨tl', by simp only [fin_k]; exact hk'⟩

theorem SP.congr {a b : Sys} (h : SP a) (hp : b.procs = a.procs) (ho : b.obs = a.obs) (hb : b.buf = a.buf) : SP b := by
  have ho? : ∀ o, b.obs? o = a.obs? o := fun o => by unfold obs?; rw [ho]
  constructor
  · rw [hp, hb]; exact h.nz
  · rw [hp]
    intro q hq o tl hqk
    obtain ⟨ob, h1, h2, h3, h4⟩ := h.str q hq o tl hqk
    exact ⟨ob, by rw [ho?]; exact h1, by rw [hb]; exact h2, by rw [hb]; exact h3, by rw [hb]; exact h4⟩

theorem sp_step {s : Sys} (hs : SInv s) (hfi : FI s) (hb : BufI s) (hsi : SI s) (h : SP s) {pid : Nat}
    (hen : s.enabled pid) (orc : Oracle) (hpre : s.alg = .oracle → orc.preOk)
    (hc : (s.resume pid orc).1.crashed = none) : SP (s.resume pid orc).1 := by
  obtain ⟨p, hp, ha, hmin⟩ := hen
  obtain ⟨_, hnr⟩ := resume_nocrash s pid orc p hp ha hc
  obtain ⟨hpm, hpid⟩ := proc?_some hp
  subst hpid
  have hcore := resume_core s p.pid orc p hp ha
  refine SP.congr (a := (s.block p orc).1.updProc p.pid (fin (s.block p orc).2.1 (s.block p orc).2.2 p.wake)) ?_
    hcore.procs hcore.obs (resume_buf s p.pid orc p hp ha)
  by_cases h1 : p.k.tag = "telescope"
  · cases hk : p.k <;> rw [hk] at h1 <;> simp [PK.tag] at h1
    exact sp_telescope hs hfi hb h hpm ha hmin hk orc
  by_cases h2 : p.k.tag = "allocIngest"
  · cases hk : p.k <;> rw [hk] at h2 <;> simp [PK.tag] at h2
    exact sp_allocIngest hs hfi hb h hpm hk orc
  by_cases h3 : p.k.tag = "ingestStream"
  · cases hk : p.k <;> rw [hk] at h3 <;> simp [PK.tag] at h3
    exact sp_ingestStream hs hfi hb hsi h hpm ha hk orc hnr
  obtain ⟨new, hprocs, hpwX, hnew2⟩ := block_new hs hpm ha hmin orc hpre
  exact sp_quiet hs hb h hpm orc (block_obs s p orc h1 h2) (block_size s p orc hnr h3) h3 new hprocs hpwX
    (fun q hq => (hnew2 q hq).2 h2)

theorem start_sp (s0 : Sys) (hw : WFConfig s0) (hsz : s0.buf.size = []) : SP s0.start := by
  obtain ⟨hprocs, _⟩ := hw.fresh
  have hp : s0.start.procs = s0.procs ++
      [{ pid := s0.nextPid, k := .monitor, wake := 0 }, { pid := s0.nextPid + 1, k := .telescope, wake := 0 },
       { pid := s0.nextPid + 2, k := .clusterLoop, wake := 0 }, { pid := s0.nextPid + 3, k := .schedLoop, wake := 0 },
       { pid := s0.nextPid + 4, k := .bufferLoop, wake := 0 }] := by
    simp [start, spawn]
  rw [hprocs] at hp
  simp only [List.nil_append] at hp
  constructor
  · intro o _
    rw [start_buf]; unfold Buffer.sizeOf; rw [hsz]; rfl
  · intro q hq o tl hqk
    rw [hp] at hq
    simp only [List.mem_cons, List.not_mem_nil, or_false] at hq
    rcases hq with rfl | rfl | rfl | rfl | rfl <;> simp at hqk

theorem reachOk_sp (s0 s : Sys) (hw : WFConfig s0) (hbuf : bufList s0.buf = [])
    (hsz0 : s0.buf.size = [] ∧ s0.buf.hot.cur ≤ s0.buf.hot.total ∧ s0.buf.cold.cur ≤ s0.buf.cold.total)
    (hrate : ∀ o ∈ s0.obs, 0 < o.rate) (h : ReachOk s0 s) (hc : s.crashed = none) : SP s := by
  induction h with
  | start => exact start_sp s0 hw hsz0.1
  | step s pid orc hr hen hpre ih =>
    have hc0 : s.crashed = none := by
      obtain ⟨p, hp, ha, _⟩ := hen
      exact (resume_nocrash s pid orc p hp ha hc).1
    exact sp_step (reach_inv s0 s hw hr) (reach_finv s0 s hw hr hc0) (reachOk_bufi s0 s hw hbuf hr)
      (reachOk_sh2 s0 s hw hbuf hsz0 hrate hr hc0).1 (ih hc0) hen orc hpre hc

/-- an observation the telescope has marked FINISHED has deposited exactly rate × duration -/
theorem finished_size (s0 s : Sys) (hw : WFConfig s0) (hbuf : bufList s0.buf = [])
    (hsz0 : s0.buf.size = [] ∧ s0.buf.hot.cur ≤ s0.buf.hot.total ∧ s0.buf.cold.cur ≤ s0.buf.cold.total)
    (hrate : ∀ o ∈ s0.obs, 0 < o.rate) (h : ReachOk s0 s) (hc : s.crashed = none) :
    ∀ ob ∈ s.obs, ob.status = .finished → s.buf.sizeOf ob.id = ob.rate * ob.duration := by
  intro ob hob hfin
  have hsi := (reachOk_sh2 s0 s hw hbuf hsz0 hrate h hc).1
  have hsp := reachOk_sp s0 s hw hbuf hsz0 hrate h hc
  have hnd := (reach_inv s0 s hw h).eg.obsNodup
  obtain ⟨q, hq, tl, hqk, hqc⟩ := hsi.fs ob hob hfin
  obtain ⟨ob2, hob2, _, a1, a2⟩ := hsp.str q hq ob.id tl hqk
  rw [obs?_of_mem hnd hob] at hob2
  injection hob2 with hob2
  subst hob2
  cases hal : q.alive with
  | true =>
    obtain ⟨_, _, g2, _⟩ := a1 hqc hal
    rw [hfin] at g2; cases g2
  | false => exact a2 hqc hal

end Sys
end Topsim
