/-
  Bridge lemmas (C19, C04, C01): the idle / occupied / finished queries as
  extracted from the source equal the model's.
-/
import TopsimGen.Extracted
import TopsimModel.Procs

namespace Topsim
namespace Bridge

private theorem idPure {α : Type} (a : α) : (pure a : Id α) = a := rfl
private theorem iteBool (p : Prop) [Decidable p] : (@ite (Id Bool) p _ true false) = decide p := by
  by_cases h : p <;> simp [h]
private theorem beq_eq_decide {α : Type} [BEq α] [LawfulBEq α] [DecidableEq α] (a b : α) :
    (a == b) = decide (a = b) := by
  by_cases h : a = b <;> simp [h]
private theorem anyNe (l : List Obs) (f : RunStatus) :
    l.any (fun o => o.status != f) = !l.all (fun o => o.status == f) := by
  rw [List.all_eq_not_any_not, Bool.not_not]; rfl

theorem clusterIsIdle_eq (c : Cluster) : Gen.clusterIsIdle c = c.isIdle := by
  simp [Gen.clusterIsIdle, Cluster.isIdle, Id.run, idPure, iteBool]

theorem clusterIsOccupied_eq (c : Cluster) (m : Mid) : Gen.clusterIsOccupied c m = c.isOccupied m := by
  simp [Gen.clusterIsOccupied, Cluster.isOccupied, Id.run, idPure]

theorem schedulerIsIdle_eq (s : Sys) : Gen.schedulerIsIdle s = s.queue.isEmpty := by
  simp [Gen.schedulerIsIdle, Id.run, idPure]
  cases s.queue <;> simp

theorem telescopeIsIdle_eq (s : Sys) : Gen.telescopeIsIdle s = s.telIsIdle := by
  unfold Gen.telescopeIsIdle Sys.telIsIdle
  rw [anyNe]
  cases h : s.obs.all (fun o => o.status == RunStatus.finished) <;>
    simp [Id.run, idPure, iteBool, beq_eq_decide]

theorem bufferIsEmpty_eq (b : Buffer) : Gen.bufferIsEmpty b = b.isEmpty := by
  unfold Gen.bufferIsEmpty Buffer.isEmpty
  by_cases h1 : b.hot.total = b.hot.cur <;> by_cases h2 : b.cold.total = b.cold.cur <;>
    simp [Id.run, idPure, h1, h2]

theorem simulationIsFinished_eq (s : Sys) : Gen.simulationIsFinished s = s.isFinished := by
  simp [Gen.simulationIsFinished, Sys.isFinished, Id.run, idPure, iteBool]
  cases s.queue <;> simp

end Bridge
end Topsim
