/-
  Bridge lemma (C06): `Task.calculate_runtime` as extracted equals the model.
-/
import TopsimGen.Extracted
import TopsimModel.TaskTime

namespace Topsim
namespace Bridge

private theorem idPure {α : Type} (a : α) : (pure a : Id α) = a := rfl

theorem calculateRuntime_eq (f d c b : Nat) (hc : 0 < c) (hb : 0 < b) :
    calculateRuntime f d c b = .ok (Gen.calculateRuntime f d c b) := by
  have h : ¬ (c = 0 ∨ b = 0) := by omega
  simp [calculateRuntime, Gen.calculateRuntime, Id.run, idPure, h]

theorem calculateRuntime_val (f d c b : Nat) : Gen.calculateRuntime f d c b = max (f / c) (d / b) := by
  simp [Gen.calculateRuntime, Id.run, idPure]

end Bridge
end Topsim
