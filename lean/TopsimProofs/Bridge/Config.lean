/-
  Bridge lemmas (C16): the definitions the translator extracts from
  topsim/core/config.py equal the model's `multiplier` / `scale`.
  If config.py is edited semantically, these stop compiling.
-/
import TopsimGen.Extracted
import TopsimModel.Config

set_option linter.unusedSimpArgs false

namespace Topsim
namespace Bridge

private theorem idPure {α : Type} (a : α) : (pure a : Id α) = a := rfl

/-- the three independent ladders are the same function of the unit -/
theorem multiplierCluster_eq (u : TimeUnit) : Gen.multiplierCluster u = multiplier u := by
  cases u with
  | int n => simp [Gen.multiplierCluster, Id.run, idPure, multiplier, TimeUnit.isInt, TimeUnit.intVal]
  | str s =>
    by_cases h1 : s = "minutes"
    · subst h1
      simp [Gen.multiplierCluster, Id.run, idPure, multiplier, TimeUnit.isInt, TimeUnit.intVal]
    · by_cases h2 : s = "hours"
      · subst h2
        simp [Gen.multiplierCluster, Id.run, idPure, multiplier, TimeUnit.isInt, TimeUnit.intVal]
      · simp [Gen.multiplierCluster, Id.run, idPure, multiplier, TimeUnit.isInt, TimeUnit.intVal, h1, h2]

theorem multiplierInstrument_eq (u : TimeUnit) : Gen.multiplierInstrument u = multiplier u := by
  cases u with
  | int n => simp [Gen.multiplierInstrument, Id.run, idPure, multiplier, TimeUnit.isInt, TimeUnit.intVal]
  | str s =>
    by_cases h1 : s = "minutes"
    · subst h1
      simp [Gen.multiplierInstrument, Id.run, idPure, multiplier, TimeUnit.isInt, TimeUnit.intVal]
    · by_cases h2 : s = "hours"
      · subst h2
        simp [Gen.multiplierInstrument, Id.run, idPure, multiplier, TimeUnit.isInt, TimeUnit.intVal]
      · simp [Gen.multiplierInstrument, Id.run, idPure, multiplier, TimeUnit.isInt, TimeUnit.intVal, h1, h2]

theorem multiplierBuffer_eq (u : TimeUnit) : Gen.multiplierBuffer u = multiplier u := by
  cases u with
  | int n => simp [Gen.multiplierBuffer, Id.run, idPure, multiplier, TimeUnit.isInt, TimeUnit.intVal]
  | str s =>
    by_cases h1 : s = "minutes"
    · subst h1
      simp [Gen.multiplierBuffer, Id.run, idPure, multiplier, TimeUnit.isInt, TimeUnit.intVal]
    · by_cases h2 : s = "hours"
      · subst h2
        simp [Gen.multiplierBuffer, Id.run, idPure, multiplier, TimeUnit.isInt, TimeUnit.intVal]
      · simp [Gen.multiplierBuffer, Id.run, idPure, multiplier, TimeUnit.isInt, TimeUnit.intVal, h1, h2]

/-- each quantity is scaled exactly as `scale` says, with its own section's ladder;
capacities and demands are left unscaled -/
theorem scale_eq (u : TimeUnit) (start duration rate hot cold flops bw sysbw : Rat) :
    scale u start duration rate hot cold flops bw sysbw =
      { start := Gen.scaleStart start (Gen.multiplierInstrument u),
        duration := Gen.scaleDuration duration (Gen.multiplierInstrument u),
        dataRate := Gen.scaleDataRate rate (Gen.multiplierInstrument u),
        hotRate := Gen.scaleHotRate hot (Gen.multiplierBuffer u),
        coldRate := Gen.scaleColdRate cold (Gen.multiplierBuffer u),
        cpu := Gen.scaleCpu flops (Gen.multiplierCluster u),
        bandwidth := Gen.scaleBandwidth bw (Gen.multiplierCluster u),
        sysBandwidth := Gen.scaleSysBandwidth sysbw (Gen.multiplierCluster u) } := by
  rw [multiplierCluster_eq, multiplierInstrument_eq, multiplierBuffer_eq]
  rfl

theorem unscaled (x m : Rat) :
    Gen.scaleDemand x m = x ∧ Gen.scaleHotCapacity x m = x ∧ Gen.scaleColdCapacity x m = x :=
  ⟨rfl, rfl, rfl⟩

end Bridge
end Topsim
