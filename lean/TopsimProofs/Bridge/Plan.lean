/-
  Bridge: the plan's predecessor / successor queries as extracted from
  topsim/core/planner.py are the model's `Plan.preds` / `Plan.succs` (which read the
  plan's edge list, never the pruned task list).
-/
import TopsimGen.Extracted
import TopsimModel.Sys

namespace Topsim
namespace Bridge

theorem planPredecessors_eq (plan : Plan) (t : Tid) : Gen.planPredecessors plan t = plan.preds t := rfl

theorem planSuccessors_eq (plan : Plan) (t : Tid) : Gen.planSuccessors plan t = plan.succs t := rfl

/-- hence the extracted queries agree with each other: p precedes t iff t succeeds p -/
theorem planQueries_agree (plan : Plan) (p t : Tid) :
    p ∈ Gen.planPredecessors plan t ↔ t ∈ Gen.planSuccessors plan p := by
  rw [planPredecessors_eq, planSuccessors_eq]
  simp [Plan.preds, Plan.succs]

end Bridge
end Topsim
