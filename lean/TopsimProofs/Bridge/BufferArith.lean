/-
  Bridge lemmas (C07, C18, C05): buffer arithmetic and threshold tests as
  extracted from buffer.py equal the model's (the float comparison with 0.6 is
  the exact rational comparison with 3/5, i.e. 5x > 3y, for a positive capacity).
-/
import TopsimGen.Extracted
import TopsimModel.Buffer

namespace Topsim
namespace Bridge

private theorem idPure {α : Type} (a : α) : (pure a : Id α) = a := rfl

theorem processIncoming_eq (b : Buffer) (o : Oid) (rate : Int) :
    (match Gen.processIncoming b.hot.cur b.hot.maxRate rate with
     | .ok (cur, _) => (b.deposit o rate).2 = none ∧ (b.deposit o rate).1.hot.cur = cur
     | .error e => (b.deposit o rate) = (b, some e)) := by
  unfold Gen.processIncoming Buffer.deposit
  by_cases h : rate > b.hot.maxRate
  · simp [h]; rfl
  · simp [h]; rfl

theorem overThreshold_eq (b : Buffer) (h : 0 < b.hot.total) :
    b.overThreshold = Gen.overThreshold (b.hot.total : Rat) (b.hot.cur : Rat) ((6 : Rat) / 10) := by
  have ht : (0 : Rat) < (b.hot.total : Rat) := Rat.intCast_pos.mpr h
  unfold Buffer.overThreshold Gen.overThreshold
  simp only [Id.run, idPure, decide_eq_decide, gt_iff_lt]
  rw [Rat.lt_div_iff ht, ← Rat.intCast_lt_intCast]
  simp only [Rat.intCast_mul, Rat.intCast_sub]
  constructor <;> intro h' <;> grind

theorem projectCapacity_eq (b : Buffer) (o : Oid) (h : 0 < b.hot.total) :
    b.projectCapacity o =
      Gen.projectCapacity (b.hot.total : Rat) (b.hot.cur : Rat) (b.sizeOf o : Rat) ((6 : Rat) / 10) := by
  have ht : (0 : Rat) < (b.hot.total : Rat) := Rat.intCast_pos.mpr h
  unfold Buffer.projectCapacity Gen.projectCapacity
  simp only [Id.run, idPure, decide_eq_decide]
  rw [Rat.div_lt_iff ht, ← Rat.intCast_lt_intCast]
  simp only [Rat.intCast_mul, Rat.intCast_sub, Rat.intCast_add]
  constructor <;> intro h' <;> grind

end Bridge
end Topsim
