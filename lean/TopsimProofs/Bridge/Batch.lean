/-
  Bridge lemma (C09): the size of a batch reservation as extracted from
  batch_allocation.py equals the model's.
-/
import TopsimGen.Extracted
import TopsimModel.Alg

namespace Topsim
namespace Bridge

private theorem idPure {α : Type} (a : α) : (pure a : Id α) = a := rfl

theorem maxResourceProvision_eq (cl : Cluster) (parts : Nat) (o : Oid) (hp : 0 < parts) :
    Alg.maxResourceProvision cl parts none o =
      .ok (Gen.maxResourceProvisionNoSplit cl.available.length cl.machines.length parts) := by
  have hp' : parts ≠ 0 := by omega
  unfold Alg.maxResourceProvision Gen.maxResourceProvisionNoSplit
  by_cases h1 : cl.available.length = 0 <;>
    by_cases h2 : cl.available.length < cl.machines.length / parts <;>
      simp [Id.run, idPure, hp', h1, h2]

end Bridge
end Topsim
