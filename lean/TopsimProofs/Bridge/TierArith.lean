/-
  Bridge lemmas (C07, C18): freeing on completion and the per-step arithmetic of
  a tier move (all four transfer / receive methods), as extracted from buffer.py.
-/
import TopsimGen.Extracted
import TopsimModel.Buffer

namespace Topsim
namespace Bridge

private theorem idPure {α : Type} (a : α) : (pure a : Id α) = a := rfl

theorem hotRemove_eq (b : Buffer) (o : Oid) :
    Gen.hotRemove b.hot.cur b.hot.scheduled b.hot.finished o (b.sizeOf o) =
      ((b.remove o).2, (b.remove o).1.hot.cur, (b.remove o).1.hot.scheduled, (b.remove o).1.hot.finished) := by
  unfold Gen.hotRemove Buffer.remove
  by_cases h : o ∈ b.hot.scheduled <;> simp [Id.run, idPure, h]

/-- `transfer_observation` (sender side), hot and cold tiers -/
theorem hotTransfer_eq (cur : Int) (slot : Option Oid) (o : Oid) (size rate left : Int) :
    Gen.hotTransfer cur slot o size rate left =
      ((Buffer.sendAmount rate left size).2, cur + (Buffer.sendAmount rate left size).1,
       if (Buffer.sendAmount rate left size).2 = 0 then none
       else (if slot.isNone then some o else slot)) := by
  unfold Gen.hotTransfer Buffer.sendAmount
  by_cases h1 : rate < 0 <;> by_cases h2 : left < rate <;> cases slot <;>
    simp [Id.run, idPure, h1, h2] <;> split <;> simp_all

theorem coldTransfer_eq (cur : Int) (slot : Option Oid) (o : Oid) (size rate left : Int) :
    Gen.coldTransfer cur slot o size rate left =
      ((Buffer.sendAmount rate left size).2, cur + (Buffer.sendAmount rate left size).1,
       if (Buffer.sendAmount rate left size).2 = 0 then none
       else (if slot.isNone then some o else slot)) := by
  unfold Gen.coldTransfer Buffer.sendAmount
  by_cases h1 : rate < 0 <;> by_cases h2 : left < rate <;> cases slot <;>
    simp [Id.run, idPure, h1, h2] <;> split <;> simp_all

/-- `receive_observation` (receiver side), hot and cold tiers -/
theorem hotReceive_eq (cur : Int) (stored : List Oid) (o : Oid) (size left rate : Int) :
    Gen.hotReceive cur stored o size left rate =
      ((Buffer.recvAmount rate left size).2, cur - (Buffer.recvAmount rate left size).1,
       if (Buffer.recvAmount rate left size).2 = 0 then none else some o,
       if (Buffer.recvAmount rate left size).2 = 0 then stored ++ [o] else stored) := by
  unfold Gen.hotReceive Buffer.recvAmount
  by_cases h1 : rate > 0 <;> by_cases h2 : left < rate <;>
    simp [Id.run, idPure, h1, h2] <;> split <;> simp_all

theorem coldReceive_eq (cur : Int) (stored : List Oid) (maxRate : Int) (o : Oid) (size left rate : Int) :
    Gen.coldReceive cur stored maxRate o size left rate false =
      ((Buffer.recvAmount rate left size).2, cur - (Buffer.recvAmount rate left size).1,
       if (Buffer.recvAmount rate left size).2 = 0 then none else some o,
       if (Buffer.recvAmount rate left size).2 = 0 then stored ++ [o] else stored) := by
  unfold Gen.coldReceive Buffer.recvAmount
  by_cases h1 : rate > 0 <;> by_cases h2 : left < rate <;>
    simp [Id.run, idPure, h1, h2] <;> split <;> simp_all

/-- without an explicit rate the cold tier receives at its own maximum rate -/
theorem coldReceive_default (cur : Int) (stored : List Oid) (maxRate : Int) (o : Oid) (size left rate : Int) :
    Gen.coldReceive cur stored maxRate o size left rate true =
      Gen.coldReceive cur stored maxRate o size left maxRate false := by
  simp [Gen.coldReceive, Id.run, idPure]

/-- one lock-step of a hot→cold move is exactly receive(cold) + transfer(hot) at the slower rate -/
theorem hot2coldStep_eq (b : Buffer) (o : Oid) (left : Int) :
    let r := Gen.coldReceive b.cold.cur b.cold.stored b.cold.maxRate o (b.sizeOf o) left b.moveRate false
    let t := Gen.hotTransfer b.hot.cur b.hot.transfer o (b.sizeOf o) b.moveRate left
    (b.hot2coldStep o left).1.cold.cur = r.2.1 ∧ (b.hot2coldStep o left).1.cold.stored = r.2.2.2 ∧
    (b.hot2coldStep o left).1.cold.transfer = r.2.2.1 ∧
    (b.hot2coldStep o left).1.hot.cur = t.2.1 ∧ (b.hot2coldStep o left).1.hot.transfer = t.2.2 ∧
    ((b.hot2coldStep o left).2 = (if r.1 ≠ t.1 then .error .runtime else .ok t.1)) := by
  intro r t
  have hr := coldReceive_eq b.cold.cur b.cold.stored b.cold.maxRate o (b.sizeOf o) left b.moveRate
  have ht := hotTransfer_eq b.hot.cur b.hot.transfer o (b.sizeOf o) b.moveRate left
  simp only [r, t, hr, ht, Buffer.hot2coldStep]
  generalize Buffer.recvAmount b.moveRate left (b.sizeOf o) = ra
  generalize Buffer.sendAmount b.moveRate left (b.sizeOf o) = sa
  obtain ⟨take, check⟩ := ra
  obtain ⟨give, left'⟩ := sa
  simp only
  by_cases h1 : check = 0 <;> by_cases h2 : left' = 0 <;> by_cases h3 : check = left' <;>
    cases h4 : b.hot.transfer <;> simp_all

end Bridge
end Topsim
