/-
  Bridge lemmas (C08, C05): the admission decisions as extracted from
  cluster.py / instrument.py / buffer.py equal the model's.
-/
import TopsimGen.Extracted
import TopsimModel.Procs

namespace Topsim
namespace Bridge

private theorem idPure {α : Type} (a : α) : (pure a : Id α) = a := rfl
private theorem iteBool (p : Prop) [Decidable p] : (@ite (Id Bool) p _ true false) = decide p := by
  by_cases h : p <;> simp [h]
private theorem beq_eq_decide {α : Type} [BEq α] [LawfulBEq α] [DecidableEq α] (a b : α) :
    (a == b) = decide (a = b) := by
  by_cases h : a = b <;> simp [h]

-- F14: the extracted test and the model's now both take the reservation counter `r`
theorem checkIngestCapacity_eq (c : Cluster) (d mx : Nat) (r : Int) :
    Gen.checkIngestCapacity c d mx r = c.checkIngestCapacity d mx r := by
  unfold Gen.checkIngestCapacity Cluster.checkIngestCapacity
  have hB : ((c.ingest.length : Int) + (d : Int) ≤ (mx : Int)) ↔ (c.ingest.length + d ≤ mx) := by omega
  by_cases h1 : d > mx
  · simp [Id.run, idPure, h1]
  · by_cases h0 : r - (c.ingest.length : Int) < 0
    · simp [Id.run, idPure, h1, h0, hB]
      by_cases h2 : d ≤ c.available.length <;> by_cases h3 : c.ingest.length + d ≤ mx <;> simp [h2, h3]
    · simp [Id.run, idPure, h1, h0, hB]
      by_cases h2 : (d : Int) ≤ ↑c.available.length - (r - ↑c.ingest.length) <;>
        by_cases h3 : c.ingest.length + d ≤ mx <;> simp [h2, h3]

theorem obsIsReady_eq (o : Obs) (t : Nat) (cap : Int) : Gen.obsIsReady o t cap = o.isReady t cap := by
  simp [Gen.obsIsReady, Obs.isReady, Id.run, idPure, iteBool, beq_eq_decide]

theorem obsIsFinished_eq (o : Obs) (t : Nat) (st : Bool) :
    o.isFinishedAt t st = Gen.obsIsFinished o (o.ast.getD 0) o.ast.isNone t st := by
  unfold Obs.isFinishedAt Gen.obsIsFinished
  cases o.ast <;> simp [Id.run, idPure, iteBool, bne, beq_eq_decide]

theorem coldHasCapacityFor_eq (b : Buffer) (sz : Int) :
    b.coldHasCapacityFor sz = Gen.coldHasCapacityFor b.cold.cur (b.cold.transfer.map b.sizeOf) sz := by
  unfold Buffer.coldHasCapacityFor Gen.coldHasCapacityFor
  cases b.cold.transfer <;> simp [Id.run, idPure]

theorem hotHasCapacityFor_eq (b : Buffer) (sz : Int) :
    b.hotHasCapacityFor sz = Gen.hotHasCapacityFor b.hot.cur (b.hot.transfer.map b.sizeOf) sz := by
  unfold Buffer.hotHasCapacityFor Gen.hotHasCapacityFor
  cases b.hot.transfer <;> simp [Id.run, idPure]

end Bridge
end Topsim
