/-
  Bridge lemmas (C05, C08): the scheduler-side capacity check with its ingest
  reservation (F4) and the buffer's whole-volume admission test, as extracted.
-/
import TopsimGen.Extracted
import TopsimModel.Procs

namespace Topsim
namespace Bridge

private theorem idPure {α : Type} (a : α) : (pure a : Id α) = a := rfl

theorem checkBufferCapacity_eq (b : Buffer) (rate duration : Int) :
    b.checkCapacity rate duration =
      Gen.checkBufferCapacity duration rate b.hot.total b.hot.cur b.coldHasCapacityFor := by
  unfold Buffer.checkCapacity Gen.checkBufferCapacity
  by_cases h1 : duration < 1
  · simp [h1]; rfl
  · by_cases h2 : b.hot.total ≤ rate * duration
    · simp [h1, h2]; rfl
    · by_cases h3 : b.hot.cur - rate * duration < 0 <;>
        cases h4 : b.coldHasCapacityFor (rate * duration) <;> simp [h1, h2, h3, h4] <;> rfl

theorem schedCheckIngest_eq (s : Sys) (o : Obs) (bufOk : Bool)
    (h : s.buf.checkCapacity o.rate o.duration = .ok bufOk) :
    -- F14: the cluster test receives the reservation counter `s.provIngest`
    s.checkIngestCapacity o =
      .ok ({ s with provIngest := (Gen.schedCheckIngest bufOk
              (s.cl.checkIngestCapacity o.ingestDemand s.maxIngest s.provIngest) o.ingestDemand s.maxIngest s.provIngest).2 },
           (Gen.schedCheckIngest bufOk
              (s.cl.checkIngestCapacity o.ingestDemand s.maxIngest s.provIngest) o.ingestDemand s.maxIngest s.provIngest).1) := by
  unfold Sys.checkIngestCapacity Gen.schedCheckIngest
  rw [h]
  cases h1 : s.cl.checkIngestCapacity o.ingestDemand s.maxIngest s.provIngest <;>
    by_cases h2 : s.provIngest + (o.ingestDemand : Int) ≤ (s.maxIngest : Int) <;>
      cases bufOk <;> simp [Id.run, idPure, h2]

theorem schedCheckIngest_raises (s : Sys) (o : Obs) (e : Err)
    (h : s.buf.checkCapacity o.rate o.duration = .error e) : s.checkIngestCapacity o = .error e := by
  unfold Sys.checkIngestCapacity
  rw [h]

/-- array accounting of the telescope -/
theorem beginObservation_eq (use : Int) (st : Bool) (d : Int) :
    Gen.beginObservation use st d = (RunStatus.running, use + d, true) := by
  simp [Gen.beginObservation, Id.run, idPure]

theorem finishObservation_eq (use : Int) (st : Bool) (d : Int) :
    Gen.finishObservation use st d = (RunStatus.finished, use - d, if use - d = 0 then false else st) := by
  unfold Gen.finishObservation
  by_cases h : use - d = 0 <;> simp [Id.run, idPure, h]

end Bridge
end Topsim
