/-
  SysInv6 — `allocate_tasks`: the scheduler's allocation loop (plan update,
  algorithm run, `_process_current_schedule`).
-/
import TopsimProofs.SysInv5

namespace Topsim
namespace Sys

theorem Core8.trans {a b c : Sys} (h1 : Core8 a b) (h2 : Core8 b c) : Core8 a c :=
  ⟨h2.cl.trans h1.cl, h2.tasks.trans h1.tasks, h2.obs.trans h1.obs, h2.procs.trans h1.procs,
   h2.nextPid.trans h1.nextPid, h2.starts.trans h1.starts, h2.active.trans h1.active,
   h2.admitted.trans h1.admitted⟩

theorem foldl_core8 {α} (f : Sys → α → Sys) (hf : ∀ s x, Core8 s (f s x)) (l : List α) (s : Sys) :
    Core8 s (l.foldl f s) := by
  induction l generalizing s with
  | nil => exact Core8.refl _
  | cons x r ih => exact (hf s x).trans (ih _)

theorem foldl_pres {α} (f : Sys → α → Sys) (hf : ∀ s x, Pres s (f s x)) (l : List α) (s : Sys) :
    Pres s (l.foldl f s) := by
  induction l generalizing s with
  | nil => exact Pres.refl _
  | cons x r ih => exact (hf s x).trans (ih _)

theorem updateCurrentPlan_core (s : Sys) (oid : Oid) : Core8 s (s.updateCurrentPlan oid) := by
  unfold updateCurrentPlan
  split
  · exact Core8.refl _
  · simp only
    refine Core8.trans (foldl_core8 _ ?_ _ s) ⟨rfl, rfl, rfl, rfl, rfl, rfl, rfl, rfl⟩
    intro s x
    split
    · split
      · exact ⟨rfl, rfl, rfl, rfl, rfl, rfl, rfl, rfl⟩
      · exact Core8.refl _
    · exact Core8.refl _

theorem Pres.updTask (s : Sys) (t : Tid) (f : TaskRec → TaskRec) (hf : GoodT f) :
    Pres s (s.updTask t f) :=
  Pres.frame (ClQuiet.refl _) (TaskMono.updTask s t f hf) rfl rfl rfl rfl rfl rfl

theorem Pres.addSch_right {a b : Sys} (h : Pres a b) (e : Event) : Pres a (b.addSch e) :=
  h.trans (Pres.core ⟨rfl, rfl, rfl, rfl, rfl, rfl, rfl, rfl⟩)

theorem updateAllocation_good (mm : Machine) : GoodT (fun r => updateAllocation r mm) := by
  intro r
  unfold updateAllocation
  simp only
  split <;> exact ⟨rfl, fun h => h⟩

/-! ### spawning a scheduler-side allocation process -/

theorem CI.spawnAT {s : Sys} {U : List Tid} (h : CI s U) (t : Tid) (m : Mid) (preds : List Tid)
    (obs : Option Oid) (ret : Nat) (now : Time) (hs : Sched s.tasks t) (hU : t ∉ U)
    (hi : t.isIngest = false)
    (hno : ∀ q ∈ s.procs, ∀ m preds obs ing ret, q.k ≠ .allocTask t m preds obs ing ret) :
    CI (s.spawn (.allocTask t m preds obs false ret) now).1 U := by
  constructor
  · exact h.inv
  · intro p hp ha t' m' preds' obs' ing' ret' hk hpc
    simp only [spawn_procs, List.mem_append, List.mem_singleton] at hp
    rcases hp with hp | rfl
    · exact h.runOn p hp ha t' m' preds' obs' ing' ret' hk hpc
    · simp at hpc
  · intro p hp ha t' m' preds' obs' ret' hk hpc
    simp only [spawn_procs, List.mem_append, List.mem_singleton] at hp
    rcases hp with hp | rfl
    · exact h.pend p hp ha t' m' preds' obs' ret' hk hpc
    · simp at hk
  · intro p hp ha t' m' preds' obs' ret' hk hpc
    simp only [spawn_procs, List.mem_append, List.mem_singleton] at hp
    rcases hp with hp | rfl
    · exact h.newT p hp ha t' m' preds' obs' ret' hk hpc
    · simp only [PK.allocTask.injEq] at hk
      obtain ⟨rfl, _⟩ := hk
      exact ⟨hU, hi⟩
  · intro p hp q hq ha hb t' m1 preds1 obs1 ing1 ret1 m2 preds2 obs2 ing2 ret2 hk hk'
    simp only [spawn_procs, List.mem_append, List.mem_singleton] at hp hq
    rcases hp with hp | rfl <;> rcases hq with hq | rfl
    · exact h.uniq p hp q hq ha hb t' m1 preds1 obs1 ing1 ret1 m2 preds2 obs2 ing2 ret2 hk hk'
    · simp only [PK.allocTask.injEq] at hk'
      obtain ⟨rfl, _⟩ := hk'
      exact absurd hk (hno p hp _ _ _ _ _)
    · simp only [PK.allocTask.injEq] at hk
      obtain ⟨rfl, _⟩ := hk
      exact absurd hk' (hno q hq _ _ _ _ _)
    · rfl
  · intro p hp t' m' preds' obs' ing' ret' hk
    simp only [spawn_procs, List.mem_append, List.mem_singleton] at hp
    rcases hp with hp | rfl
    · exact h.hasRec p hp t' m' preds' obs' ing' ret' hk
    · simp only [PK.allocTask.injEq] at hk
      obtain ⟨rfl, _⟩ := hk
      exact hs
  · exact h.ingRec
  · exact h.usedRec
  · intro o i hoi
    obtain ⟨p, hp, d, hk, hpc⟩ := h.provOnce o i hoi
    exact ⟨p, by simp [hp], d, hk, hpc⟩
  · intro p hp q hq o d d' hk hk'
    simp only [spawn_procs, List.mem_append, List.mem_singleton] at hp hq
    rcases hp with hp | rfl
    · rcases hq with hq | rfl
      · exact h.provUniq p hp q hq o d d' hk hk'
      · simp at hk'
    · simp at hk
  · intro p hp o d hk
    simp only [spawn_procs, List.mem_append, List.mem_singleton] at hp
    rcases hp with hp | rfl
    · exact h.provObs p hp o d hk
    · simp at hk

theorem sched_of_status {s : Sys} {t : Tid} {r : TaskRec} (hr : s.task? t = some r)
    (hst : r.status = .unscheduled) : ¬ Sched s.tasks t := by
  rintro ⟨r', hr', hs⟩
  unfold task? at hr
  rw [hr] at hr'
  injection hr' with e
  subst e
  exact hs hst

theorem spawnAT_pres (s : Sys) (t : Tid) (m : Mid) (preds : List Tid) (obs : Option Oid) (now : Time)
    (r : TaskRec) (hr : s.task? t = some r) (hst : r.status = .unscheduled) :
    Pres s ((s.spawn (.allocTask t m preds obs false 0) now).1.updTask t
      (fun r => { r with status := .scheduled })) := by
  have hgood : GoodT (fun r : TaskRec => { r with status := .scheduled }) :=
    fun r => ⟨rfl, fun h => by simp at h⟩
  have hns := sched_of_status hr hst
  have hmem : r ∈ s.tasks ∧ r.id = t := by
    unfold task? at hr
    exact ⟨List.mem_of_find?_eq_some hr, by simpa using List.find?_some hr⟩
  refine ⟨by simp, fun h => ⟨(h.spawn (.allocTask t m preds obs false 0) now).nodup,
    (h.spawn (.allocTask t m preds obs false 0) now).lt⟩, ?_, ?_, ?_,
    ⟨rfl, rfl, rfl, rfl, [{ pid := s.nextPid, k := .allocTask t m preds obs false 0, wake := now }], rfl,
      by simp [PK.isDW, PK.isPI, PK.isAI, PK.isTel, PK.tag]⟩⟩
  · intro U _ h
    have hU : t ∉ U := fun hh => hns (h.usedRec t hh)
    have hi : t.isIngest = false := by
      cases hti : t.isIngest with
      | false => rfl
      | true => exact absurd hst (h.ingRec r hmem.1 (by rw [hmem.2]; exact hti))
    have hno : ∀ q ∈ s.procs, ∀ m preds obs ing ret, q.k ≠ .allocTask t m preds obs ing ret :=
      fun q hq m preds obs ing ret hk => hns (h.hasRec q hq t m preds obs ing ret hk)
    have h1 : CI (s.updTask t (fun r => { r with status := .scheduled })) U :=
      (Pres.updTask s t _ hgood).ci U ‹_› h
    have hs : Sched (s.updTask t (fun r => { r with status := .scheduled })).tasks t := by
      have := task?_updTask s t t (fun r => { r with status := .scheduled }) (fun _ => rfl)
      unfold task? at this hr
      refine ⟨_, by rw [this, hr]; rfl, ?_⟩
      simp [hmem.2]
    exact h1.spawnAT t m preds obs 0 now hs hU hi hno
  · intro _ h
    exact h.addProcs rfl rfl rfl rfl [{ pid := s.nextPid, k := .allocTask t m preds obs false 0, wake := now }]
      rfl (by simp [PK.isDW])
  · intro _ h
    exact h.addProcs rfl rfl [{ pid := s.nextPid, k := .allocTask t m preds obs false 0, wake := now }]
      rfl (by simp [PK.isTel, PK.isAI])

theorem processOne_pres (now : Time) (oid : Oid) (st : PcsSt) (t : Tid) :
    Pres st.s (processOne now oid st t).s := by
  unfold processOne
  cases hok : st.err with
  | some e => exact Pres.refl _
  | none =>
    simp only
    cases hm : dictGet st.schedule t with
    | none => exact Pres.refl _
    | some m =>
      cases hr : st.s.task? t with
      | none => exact Pres.refl _
      | some r =>
        simp only []
        cases hmm : st.s.machine? m with
        | none => exact Pres.refl _
        | some mm =>
          simp only []
          by_cases hz : ((r.allocObj || r.planned != some m) = true ∧ (mm.cpu = 0 ∨ mm.bw = 0))
          · simp only [hz, if_true]; exact Pres.refl _
          · simp only [hz, if_false]
            generalize hs1 : (if (r.allocObj || r.planned != some m) = true then
              st.s.updTask t (fun r => updateAllocation r mm) else st.s) = s1
            have h1 : Pres st.s s1 := by
              subst hs1; split
              · exact Pres.updTask _ _ _ (updateAllocation_good mm)
              · exact Pres.refl _
            have h2 : ∃ r', s1.task? t = some r' ∧ r'.status = r.status := by
              subst hs1; split
              · rw [task?_updTask _ _ _ _ (fun r => (updateAllocation_good mm r).1), hr]
                refine ⟨_, rfl, ?_⟩
                have : r.id = t := by
                  unfold task? at hr; simpa using List.find?_some hr
                simp only [this, if_true]
                unfold updateAllocation
                simp only
                split <;> rfl
              · exact ⟨r, hr, rfl⟩
            by_cases hocc : (st.curr.contains m = true ∨ s1.cl.isOccupied m = true)
            · simp only [hocc, if_true]; exact h1
            · simp only [hocc, if_false]
              by_cases hmiss : (r.preds.any fun p => !dictHas (dictSet st.pairs t m) p) = true
              · simp only [hmiss, if_true]; exact h1
              · simp only [hmiss]
                by_cases hst : r.status ≠ TStatus.unscheduled
                · rw [if_pos hst]; exact h1
                · rw [if_neg hst]
                  obtain ⟨r', hr', hst'⟩ := h2
                  refine h1.trans (spawnAT_pres s1 t m _ (some oid) now r' hr' ?_)
                  rw [hst']; simpa using hst

theorem processCurrentSchedule_pres (s : Sys) (now : Time) (oid : Oid)
    (schedule pairs : List (Tid × Mid)) : Pres s (processCurrentSchedule s now oid schedule pairs).s := by
  unfold processCurrentSchedule
  simp only
  generalize ((dictKeys schedule).mergeSort _) = l
  have : ∀ (l : List Tid) (st : PcsSt), Pres st.s (l.foldl (processOne now oid) st).s := by
    intro l
    induction l with
    | nil => intro st; exact Pres.refl _
    | cons x r ih => intro st; exact (processOne_pres now oid st x).trans (ih _)
  exact this l { s := s, schedule := schedule, pairs := pairs, curr := [] }

theorem foldl_alg {α} (f : Sys → α → Sys) (hf : ∀ s x, (f s x).alg = s.alg) (l : List α) (s : Sys) :
    (l.foldl f s).alg = s.alg := by
  induction l generalizing s with
  | nil => rfl
  | cons x r ih => exact (ih _).trans (hf s x)

theorem updateCurrentPlan_alg (s : Sys) (oid : Oid) : (s.updateCurrentPlan oid).alg = s.alg := by
  unfold updateCurrentPlan
  split
  · rfl
  · simp only
    show (List.foldl _ s _).alg = s.alg
    apply foldl_alg
    intro s x
    split
    · split <;> rfl
    · rfl

theorem allocTasksIter_pres (s : Sys) (now : Time) (orc : Oracle) (hpre : s.alg = .oracle → orc.preOk)
    (oid : Oid) (schedule pairs : List (Tid × Mid)) (pool : List Tid) :
    Pres s (s.allocTasksIter now orc oid schedule pairs pool).1 := by
  unfold allocTasksIter
  simp only
  have h1 : Pres s (s.updateCurrentPlan oid) := Pres.core (updateCurrentPlan_core s oid)
  have hpre1 : (s.updateCurrentPlan oid).alg = .oracle → orc.preOk := by
    rw [updateCurrentPlan_alg]; exact hpre
  generalize s.updateCurrentPlan oid = s1 at h1 hpre1
  split
  · exact h1
  · rename_i plan _
    split
    · exact h1
    · rename_i out hout
      have hq := runAlgorithm_quiet s1 orc plan schedule pool out hpre1 hout
      have h2 : Pres s1 (({ s1 with cl := out.cl }).updPlan oid (fun p => { p with status := out.status })) :=
        Pres.frame hq (TaskMono.refl _) rfl rfl rfl rfl rfl rfl
      generalize (({ s1 with cl := out.cl }).updPlan oid (fun p => { p with status := out.status })) = s2 at h2
      have h3 : Pres s2 (if out.status = .delayed then { s2 with schedDelayed := true } else s2) := by
        split
        · exact Pres.core ⟨rfl, rfl, rfl, rfl, rfl, rfl, rfl, rfl⟩
        · exact Pres.refl _
      generalize (if out.status = .delayed then { s2 with schedDelayed := true } else s2) = s3 at h3
      have h13 := h1.trans (h2.trans h3)
      split
      · have h4 : Pres s3 ((s3.addSch ⟨natNow now, oid, .allocStopped⟩).addBuf ⟨natNow now, oid, .bufRemoved⟩) :=
          Pres.core ⟨rfl, rfl, rfl, rfl, rfl, rfl, rfl, rfl⟩
        generalize ((s3.addSch ⟨natNow now, oid, .allocStopped⟩).addBuf ⟨natNow now, oid, .bufRemoved⟩) = s4 at h4
        have h14 := h13.trans h4
        split
        · rename_i b1 _
          have h5 : Pres s4 { s4 with buf := b1, cl := s4.cl.releaseBatch oid } :=
            Pres.frame (clQuiet_releaseBatch _ _) (TaskMono.refl _) rfl rfl rfl rfl rfl rfl
          split
          · exact h14.trans (h5.trans (Pres.core ⟨rfl, rfl, rfl, rfl, rfl, rfl, rfl, rfl⟩))
          · exact h14.trans h5
        · exact h14.trans (Pres.core ⟨rfl, rfl, rfl, rfl, rfl, rfl, rfl, rfl⟩)
      · split
        · exact h13
        · have h4 := processCurrentSchedule_pres s3 now oid out.schedule pairs
          split <;> exact h13.trans h4

theorem allocTasksBlock_pres (s : Sys) (now : Time) (orc : Oracle) (hpre : s.alg = .oracle → orc.preOk) (pc : Nat)
    (oid : Oid) (schedule pairs : List (Tid × Mid)) (pool : List Tid) (fin : Bool) :
    Pres s (s.allocTasksBlock now orc pc oid schedule pairs pool fin).1 := by
  unfold allocTasksBlock
  split
  · exact Pres.refl _
  · split
    · simp only
      have h1 : Pres s (s.updPlan oid (fun p => { p with ast := some (natNow now) })) :=
        Pres.core ⟨rfl, rfl, rfl, rfl, rfl, rfl, rfl, rfl⟩
      have halg1 : (s.updPlan oid (fun p => { p with ast := some (natNow now) })).alg = s.alg := rfl
      generalize (s.updPlan oid (fun p => { p with ast := some (natNow now) })) = s1 at h1 halg1
      refine Pres.trans ?_ (allocTasksIter_pres _ now orc ?_ oid schedule pairs pool)
      · apply Pres.addSch_right
        refine h1.trans ?_
        apply foldl_pres
        intro s t
        exact Pres.updTask s t _ (fun r => ⟨rfl, fun h => h⟩)
      · intro ho
        apply hpre
        rw [← halg1, ← ho]
        symm
        show (List.foldl _ s1 _).alg = s1.alg
        apply foldl_alg
        intro s t
        rfl
    · exact allocTasksIter_pres _ now orc hpre oid schedule pairs pool

end Sys
end Topsim
