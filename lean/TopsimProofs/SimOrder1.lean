/-
  SimOrder1 — "creation order is kept" on the deterministic simulator.

  If a process `c` creates a process `d` (the initialisation of `d` is URGENT at
  the current time, `c` comes back one step later) and both only ever yield
  `timeout(1)`, then inside every later instant `c` is resumed before `d`:
  each re-arms in the order in which it ran.  Stated for a relation `R` on process
  kinds (`R c.k d.k`: "`d` is one of `c`'s"), as an invariant of the heap in the
  style of `MonFirst`.
-/
import TopsimProofs.IngestLimit23

namespace Topsim

open KState Sys

/-- the pending events of `cpid` and `dpid`: `d` still waits at the instant `c` has already left,
or both wait at the same instant and `c` comes first -/
def SoBefore (k : SimState) (cpid dpid : Nat) : Prop :=
  ∃ xc ∈ k.heap, ∃ xd ∈ k.heap, xc.pid = cpid ∧ xd.pid = dpid ∧ xc.prio ≤ 1 ∧
    (xd.time + 1 = xc.time ∨ (xd.time = xc.time ∧ xc.lt xd = true))

def SoPairInv (R : PK → PK → Prop) (k : SimState) : Prop :=
  ∀ c ∈ k.st.procs, ∀ d ∈ k.st.procs, c.alive = true → d.alive = true → R c.k d.k →
    SoBefore k c.pid d.pid

theorem SoPairInv.collate {R : PK → PK → Prop} {k : SimState} (h : SoPairInv R k) :
    SoPairInv R { k with st := k.st.collate } := h

/-- reading at the moment `d` is popped: `c` has already run at this instant -/
theorem SoPairInv.popped {R : PK → PK → Prop} {k : SimState} (h : IlHeapOk k) (inv : SoPairInv R k)
    {e : HEntry} (hpk : k.peek = some e) {c d : Proc} (hc : c ∈ k.st.procs) (hd : d ∈ k.st.procs)
    (hca : c.alive = true) (hda : d.alive = true) (hR : R c.k d.k) (hed : e.pid = d.pid) :
    d.wake + 1 = c.wake := by
  obtain ⟨he, hleast⟩ := peek_spec k e hpk
  obtain ⟨xc, hxc, xd, hxd, hcp, hdp, _, hrel⟩ := inv c hc d hd hca hda hR
  have hxde : xd = e := nodup_map_inj (·.pid) k.heap h.uniq xd e hxd he (by rw [hdp, hed])
  subst hxde
  have t1 : xd.time = d.wake := h.time xd hxd d hd hdp.symm hda
  have t2 : xc.time = c.wake := h.time xc hxc c hc hcp.symm hca
  rcases hrel with h1 | ⟨_, h2⟩
  · rw [← t1, ← t2]; exact h1
  · rw [hleast xc hxc] at h2; cases h2

/-- One kernel step keeps the invariant, provided every pair of the new state is an old pair or
a process just created by the process that ran. -/
theorem SoPairInv.step (R : PK → PK → Prop)
    (hRdw : ∀ kc kd, R kc kd → kc.isDoWork = false ∧ kd.isDoWork = false)
    (hRirr : ∀ k0, ¬ R k0 k0) (env : SimEnv) (k k' : SimState) (hs : SInv k.st) (h : IlHeapOk k)
    (inv : SoPairInv R k) (hstep : k.step (simHandler env) = some k')
    (hpairs : ∀ e, k.peek = some e → ∀ c' ∈ k'.st.procs, ∀ d' ∈ k'.st.procs, c'.alive = true →
      d'.alive = true → R c'.k d'.k →
      (∃ c ∈ k.st.procs, ∃ d ∈ k.st.procs, c.alive = true ∧ d.alive = true ∧ c.pid = c'.pid ∧
        d.pid = d'.pid ∧ R c.k d.k) ∨
      (c'.pid = e.pid ∧ k.st.nextPid ≤ d'.pid)) : SoPairInv R k' := by
  obtain ⟨h', hs', e, hpk, hcase⟩ := il_l3_step env k k' hs h hstep
  obtain ⟨he, hleast⟩ := peek_spec k e hpk
  obtain ⟨hst, hkeep, _, eid2, heid2, hnew, hto⟩ :=
    step_spec (simHandler env) k k' e hpk hstep h.fresh
  have hpw := hs.pw
  -- a live process with the popped pid comes back one step later
  have hback : ∀ q' ∈ k'.st.procs, q'.alive = true → q'.pid = e.pid → q'.k.isDoWork = false →
      (⟨e.time + 1, 1, eid2, e.pid⟩ : HEntry) ∈ k'.heap := by
    intro q' hq' hqa hqp hqdw
    rcases hcase with ⟨hc, hdead⟩ | ⟨_, ⟨p, hpp, ha, _⟩, hc⟩
    · exfalso
      have hq0 : q' ∈ k.st.procs := by rw [hc] at hq'; exact hq'
      have := hdead q' (by rw [← hqp]; exact hpw.proc?_of_mem hq0)
      rw [this] at hqa; exact absurd hqa (by simp)
    · obtain ⟨hpm, hpid⟩ := proc?_some hpp
      obtain ⟨m1, _, _⟩ := il_resume_procs_mem hpw hpp ha (env.oracle k.st)
      have hq'' : q' ∈ (k.st.resume e.pid (env.oracle k.st)).1.procs := by rw [← hc]; exact hq'
      have hqf : q' = fin (k.st.block p (env.oracle k.st)).2.1 (k.st.block p (env.oracle k.st)).2.2 p.wake p := by
        rcases m1 q' hq'' with hh | ⟨_, hne⟩ | ⟨_, _, _, w4⟩
        · exact hh
        · exact absurd hqp hne
        · have := hpw.lt p hpm; omega
      subst hqf
      obtain ⟨_, d, hd⟩ := (il_fin_alive_iff _ _ _ _).mp hqa
      -- the process is no task body, so it yields `timeout(1)`
      have hpdw : p.k.isDoWork = false := by
        cases hx : p.k.isDoWork with
        | false => rfl
        | true =>
          have := (block_dw k.st p (env.oracle k.st) hx).2
          simp only [fin_k] at hqdw
          rw [this] at hqdw; exact absurd hqdw (by simp)
      have hu := block_unit k.st p (env.oracle k.st) hpdw
      rw [hd] at hu
      simp only [Yield.unit] at hu
      subst hu
      apply hto 1
      rcases simHandler_cases env k.st e.pid e.time with ⟨_, hdd⟩ | ⟨_, _, hh3⟩
      · have := hdd p hpp; rw [this] at ha; exact absurd ha (by simp)
      · rw [hh3, (il_resume_procs_eq k.st e.pid (env.oracle k.st) p hpp ha).2.2, hd]
  intro c' hc' d' hd' hca hda hR
  obtain ⟨hcdw, hddw⟩ := hRdw _ _ hR
  rcases hpairs e hpk c' hc' d' hd' hca hda hR with
    ⟨c, hc, d, hd, hca0, hda0, hcp, hdp, hR0⟩ | ⟨hcp, hdge⟩
  · -- an old pair
    obtain ⟨xc, hxc, xd, hxd, hxcp, hxdp, hprio, hrel⟩ := inv c hc d hd hca0 hda0 hR0
    have hne : c.pid ≠ d.pid := by
      intro e'
      have : c = d := hpw.eq_of_pid hc hd e'
      rw [this] at hR0; exact hRirr _ hR0
    have hxne : xc ≠ xd := fun e' => hne (by rw [← hxcp, ← hxdp, e'])
    by_cases hec : e = xc
    · -- `c` has run
      subst hec
      have hxc' := hback c' hc' hca (by rw [← hcp, hxcp]) hcdw
      have hxd' : xd ∈ k'.heap := hkeep xd ((List.mem_erase_of_ne (Ne.symm hxne)).mpr hxd)
      refine ⟨_, hxc', xd, hxd', by simp [← hcp, hxcp], by rw [hxdp, hdp], Nat.le_refl _, Or.inl ?_⟩
      rcases hrel with h1 | ⟨h1, _⟩
      · exfalso
        have := hleast xd hxd
        rw [lt_false_iff] at this
        grind
      · show xd.time + 1 = e.time + 1
        rw [h1]
    · by_cases hed : e = xd
      · -- `d` has run
        subst hed
        have hxd' := hback d' hd' hda (by rw [← hdp, hxdp]) hddw
        have hxc' : xc ∈ k'.heap := hkeep xc ((List.mem_erase_of_ne hxne).mpr hxc)
        refine ⟨xc, hxc', _, hxd', by rw [hxcp, hcp], by simp [← hdp, hxdp], hprio, Or.inr ?_⟩
        rcases hrel with h1 | ⟨_, h2⟩
        · refine ⟨h1, ?_⟩
          rw [lt_iff]
          right
          refine ⟨h1.symm, ?_⟩
          have := h.fresh xc hxc
          simp only
          omega
        · rw [hleast xc hxc] at h2; cases h2
      · exact ⟨xc, hkeep xc ((List.mem_erase_of_ne (Ne.symm hec)).mpr hxc), xd,
          hkeep xd ((List.mem_erase_of_ne (Ne.symm hed)).mpr hxd), by rw [hxcp, hcp], by rw [hxdp, hdp], hprio, hrel⟩
  · -- `d'` has just been created by `c'`
    have hxc' := hback c' hc' hca hcp hcdw
    obtain ⟨xd, hxd, hxdp, _⟩ := h'.live d' hd' hda
    refine ⟨_, hxc', xd, hxd, by simp [hcp], hxdp, Nat.le_refl _, Or.inl ?_⟩
    show xd.time + 1 = e.time + 1
    rcases hnew xd hxd with h1 | ⟨h1, _, _⟩ | ⟨dd, _, h1⟩
    · have := h.lt xd (List.mem_of_mem_erase h1); omega
    · rw [h1]
    · have := h.lt e he
      rw [h1] at hxdp
      simp only at hxdp
      omega

end Topsim
