/-
  Preced8 — the precedence invariant `PR` and its preservation by the blocks
  that stamp no task record (every block except those of a task body).
-/
import TopsimProofs.Preced7
import TopsimProofs.FinishStr3

namespace Topsim
namespace Sys

open Cluster

/-! ### the invariant -/

structure PR (s : Sys) : Prop where
  /-- the telescope is due at whole instants -/
  telNat : ∀ p ∈ s.procs, p.k = .telescope → ∃ n : Nat, p.wake = (n : Time)
  /-- a recorded finish is at most one timestep ahead of every live process -/
  aftLe : ∀ t r f, s.task? t = some r → r.aft = some f → ∀ p ∈ s.procs, p.alive = true → f ≤ p.wake + 1
  /-- a workflow task whose body has ended has a recorded finish -/
  dwDead : ∀ d ∈ s.procs, ∀ t m preds ph tot, d.k = .doWork t m preds ph tot → d.alive = false → IsWf t →
    ∀ r, s.task? t = some r → r.aft.isSome = true
  /-- what the cluster reports finished has a FINISHED record with a recorded finish -/
  finRec : ∀ q, IsWf q → FinT s q → ∃ rq, s.task? q = some rq ∧ rq.status = .finished ∧ rq.aft.isSome = true
  /-- the local schedule of an `allocate_tasks` process holds ready tasks -/
  schedRdy : ∀ p ∈ s.procs, ∀ o sc pa po fn, p.k = .allocTasks o sc pa po fn → ∀ t ∈ dictKeys sc, Rdy s t
  /-- a scheduler-side allocation process carries a ready task -/
  atRdy : ∀ p ∈ s.procs, ∀ t m cross obs ret, p.k = .allocTask t m cross obs false ret → Rdy s t
  /-- a started workflow task: every task of its predecessor list is reported finished, and was
  stamped finished no later than one timestep after the start -/
  started : ∀ t r a, s.task? t = some r → r.ast = some a → IsWf t → ∀ q ∈ r.preds, IsWf q ∧ FinT s q ∧
    ∀ rq f, s.task? q = some rq → rq.aft = some f → f ≤ a + 1

/-! ### facts from the system invariant -/

theorem dw_hasRec {s : Sys} (hs : SInv s) {d : Proc} (hd : d ∈ s.procs) {t m preds ph tot}
    (hk : d.k = .doWork t m preds ph tot) : ∃ r, s.task? t = some r := by
  obtain ⟨U, hU⟩ := hs.ci
  have hu : t ∈ U := by
    rcases hs.dg.dwUsed d hd t m preds ph tot hk with h | h
    · exact hU.inv.usedRun t h
    · exact hU.inv.usedFin t h
  obtain ⟨r, hr, _⟩ := hU.usedRec t hu
  exact ⟨r, hr⟩

/-- the allocation process of a live task body: polling, on the same machine, not for ingest when
the task is a workflow task -/
theorem dw_alloc {s : Sys} (hs : SInv s) {d : Proc} (hd : d ∈ s.procs) (ha : d.alive = true) {t m preds ph tot}
    (hk : d.k = .doWork t m preds ph tot) :
    t ∈ s.cl.running ∧ ∃ a ∈ s.procs, ∃ preds' obs, a.k = .allocTask t m preds' obs t.isIngest d.pid := by
  obtain ⟨U, hU⟩ := hs.ci
  obtain ⟨a, ha1, haa, hapc, preds', obs, ing, hak⟩ := hs.dg.dwAlloc d hd ha _ _ _ _ _ hk
  have he := hU.runOn a ha1 haa _ _ _ _ _ _ hak hapc
  have hr : t ∈ s.cl.running := by
    rw [← hU.inv.runOnTasks]; exact List.mem_map_of_mem (f := (·.task)) he
  have hi := hU.inv.ingRun _ he
  simp only at hi
  exact ⟨hr, a, ha1, preds', obs, by rw [← hi]; exact hak⟩

theorem finT_no_dw {s : Sys} (hs : SInv s) {d : Proc} (hd : d ∈ s.procs) (ha : d.alive = true) {t m preds ph tot}
    (hk : d.k = .doWork t m preds ph tot) : ¬ FinT s t := by
  obtain ⟨U, hU⟩ := hs.ci
  exact hU.inv.runNotFin t (dw_alloc hs hd ha hk).1

/-! ### `task?` after `updTask` -/

theorem task?_updTask_eq (s : Sys) {t : Tid} (f : TaskRec → TaskRec) (hf : ∀ r, (f r).id = r.id) {r : TaskRec}
    (hr : s.task? t = some r) : (s.updTask t f).task? t = some (f r) := by
  rw [task?_updTask s t t f hf, hr]
  simp [task?_id hr]

theorem task?_updTask_ne (s : Sys) {t t' : Tid} (f : TaskRec → TaskRec) (hf : ∀ r, (f r).id = r.id)
    (hne : t' ≠ t) : (s.updTask t f).task? t' = s.task? t' := by
  rw [task?_updTask s t t' f hf]
  cases h : s.task? t' with
  | none => rfl
  | some r =>
    have := task?_id h
    simp only [Option.map_some]
    rw [if_neg (by rw [this]; exact hne)]

/-! ### states that agree on what `PR` reads -/

theorem Rdy.congr {a b : Sys} (ht : b.tasks = a.tasks) (hc : b.cl.finished = a.cl.finished) {t : Tid}
    (h : Rdy a t) : Rdy b t := by
  obtain ⟨r, hr, hq⟩ := h
  refine ⟨r, by unfold task? at hr ⊢; rw [ht]; exact hr, fun q hq' => ?_⟩
  exact ⟨(hq q hq').1, (finT_congr hc q).mpr (hq q hq').2⟩

theorem PR.core {a b : Sys} (h : PR a) (e : Core8 a b) : PR b := by
  have ht : ∀ t, b.task? t = a.task? t := fun t => by unfold task?; rw [e.tasks]
  have hf : ∀ q, FinT b q ↔ FinT a q := fun q => finT_congr (by rw [e.cl]) q
  have hr : ∀ t, Rdy a t → Rdy b t := fun t h => h.congr e.tasks (by rw [e.cl])
  constructor
  · rw [e.procs]; exact h.telNat
  · intro t r f h1 h2; rw [ht] at h1; rw [e.procs]; exact h.aftLe t r f h1 h2
  · rw [e.procs]; intro d hd t m preds ph tot hk hda hw r hr'
    rw [ht] at hr'; exact h.dwDead d hd t m preds ph tot hk hda hw r hr'
  · intro q hw hq
    obtain ⟨rq, g1, g2, g3⟩ := h.finRec q hw ((hf q).mp hq)
    exact ⟨rq, by rw [ht]; exact g1, g2, g3⟩
  · rw [e.procs]; intro p hp o sc pa po fn hk t ht'
    exact hr t (h.schedRdy p hp o sc pa po fn hk t ht')
  · rw [e.procs]; intro p hp t m cross obs ret hk
    exact hr t (h.atRdy p hp t m cross obs ret hk)
  · intro t r a' h1 h2 hw q hq
    rw [ht] at h1
    obtain ⟨g0, g1, g2⟩ := h.started t r a' h1 h2 hw q hq
    exact ⟨g0, (hf q).mpr g1, fun rq f h3 h4 => g2 rq f (by rw [← ht]; exact h3) h4⟩

/-! ### the process table after one `resume` -/

theorem resume_procs {s : Sys} (hs : SInv s) {p : Proc} (hp : p ∈ s.procs) (ha : p.alive = true)
    (hmin : ∀ q ∈ s.procs, q.alive = true → p.wake ≤ q.wake) (orc : Oracle)
    (htel : p.k = .telescope → ((natNow p.wake : Nat) : Time) = p.wake) :
    ∀ q ∈ ((s.block p orc).1.updProc p.pid (fin (s.block p orc).2.1 (s.block p orc).2.2 p.wake)).procs,
      q = fin (s.block p orc).2.1 (s.block p orc).2.2 p.wake p ∨ (q ∈ s.procs ∧ q.pid ≠ p.pid) ∨
      (q ∈ (s.block p orc).1.procs ∧ q ∉ s.procs ∧ q.wake = p.wake ∧ q.alive = true ∧ q.pc = 0) := by
  obtain ⟨hpre, hpwX⟩ := block_pre_str hs.pw hs.eg hp ha hmin orc
  have hpX : p ∈ (s.block p orc).1.procs := hpre.subset hp
  intro q hq
  rcases (mem_updProc_iff hpwX hpX _ q).mp hq with rfl | ⟨hq1, hne⟩
  · exact Or.inl rfl
  · by_cases hin : q ∈ s.procs
    · exact Or.inr (Or.inl ⟨hin, hne⟩)
    · rcases block_neww s p orc htel q hq1 with h1 | h1
      · exact absurd h1 hin
      · exact Or.inr (Or.inr ⟨hq1, hin, h1⟩)

theorem fin_wake_ge (k : PK) (y : Yield) (p : Proc) (hy : ∀ d, y = .timeout d → 0 ≤ d)
    (hal : (fin k y p.wake p).alive = true) : p.wake ≤ (fin k y p.wake p).wake := by
  obtain ⟨_, d, rfl⟩ := fin_alive _ _ _ _ hal
  have := hy d rfl
  show p.wake ≤ p.wake + d
  grind

theorem resume_wake {s : Sys} (hs : SInv s) {p : Proc} (hp : p ∈ s.procs) (ha : p.alive = true)
    (hmin : ∀ q ∈ s.procs, q.alive = true → p.wake ≤ q.wake) (orc : Oracle)
    (htel : p.k = .telescope → ((natNow p.wake : Nat) : Time) = p.wake) :
    ∀ q ∈ ((s.block p orc).1.updProc p.pid (fin (s.block p orc).2.1 (s.block p orc).2.2 p.wake)).procs,
      q.alive = true → p.wake ≤ q.wake := by
  intro q hq hqa
  rcases resume_procs hs hp ha hmin orc htel q hq with rfl | ⟨h1, _⟩ | ⟨_, _, h1, _⟩
  · exact fin_wake_ge _ _ p (fun d hd => block_delay_nonneg s p orc d hd) hqa
  · exact hmin q h1 hqa
  · rw [h1]; exact Rat.le_refl

/-! ### the generic step: no stamp is written -/

theorem PR.quiet {s Y : Sys} (h : PR s) (hs : SInv s) {p : Proc} (hp : p ∈ s.procs) (ha : p.alive = true)
    (hT : TaskStep s Y) (hFm : FinMono s Y)
    (hFn : ∀ q, IsWf q → FinT Y q → FinT s q ∨
      ∃ rq, Y.task? q = some rq ∧ rq.status = .finished ∧ rq.aft.isSome = true)
    (hwake : ∀ q ∈ Y.procs, q.alive = true → p.wake ≤ q.wake)
    (hTel : ∀ q ∈ Y.procs, q.k = .telescope → ∃ n : Nat, q.wake = (n : Time))
    (hDw : ∀ d ∈ Y.procs, ∀ t m preds ph tot, d.k = .doWork t m preds ph tot → d.alive = false →
      ∃ d0 ∈ s.procs, ∃ m0 preds0 ph0 tot0, d0.k = .doWork t m0 preds0 ph0 tot0 ∧ d0.alive = false)
    (hSched : ∀ q ∈ Y.procs, ∀ o sc pa po fn, q.k = .allocTasks o sc pa po fn → ∀ t ∈ dictKeys sc, Rdy Y t)
    (hAT : ∀ q ∈ Y.procs, ∀ t m cross obs ret, q.k = .allocTask t m cross obs false ret → Rdy Y t) :
    PR Y := by
  refine ⟨hTel, ?_, ?_, ?_, hSched, hAT, ?_⟩
  · intro t r' f hr' hf q hq hqa
    rcases hT.bwd hr' with ⟨r, hr, hk⟩ | ⟨_, hfr⟩
    · have h1 := h.aftLe t r f hr (by rw [← hk.aft]; exact hf) p hp ha
      have h2 := hwake q hq hqa
      grind
    · rw [hfr.aft] at hf; exact absurd hf (by simp)
  · intro d hd t m preds ph tot hk hda hw r' hr'
    obtain ⟨d0, hd0, m0, preds0, ph0, tot0, hk0, hda0⟩ := hDw d hd t m preds ph tot hk hda
    rcases hT.bwd hr' with ⟨r, hr, hkk⟩ | ⟨h0, _⟩
    · rw [hkk.aft]; exact h.dwDead d0 hd0 t m0 preds0 ph0 tot0 hk0 hda0 hw r hr
    · obtain ⟨r, hr⟩ := dw_hasRec hs hd0 hk0
      rw [h0] at hr; exact absurd hr (by simp)
  · intro q hw hq
    rcases hFn q hw hq with h1 | h1
    · obtain ⟨rq, g1, g2, g3⟩ := h.finRec q hw h1
      obtain ⟨rq', g4, g5⟩ := hT.fwd q rq g1
      exact ⟨rq', g4, g5.status (by rw [task?_id g1]; exact hw) g2, by rw [g5.aft]; exact g3⟩
    · exact h1
  · intro t r' a hr' hast hw q hq
    rcases hT.bwd hr' with ⟨r, hr, hk⟩ | ⟨_, hfr⟩
    · obtain ⟨hqw, g1, g2⟩ := h.started t r a hr (by rw [← hk.ast]; exact hast) hw q
        (by rw [← hk.shape.preds]; exact hq)
      exact ⟨hqw, hFm q hqw g1, fun rq' f h3 h4 => by
        rcases hT.bwd h3 with ⟨rq, h5, hk'⟩ | ⟨_, hfr'⟩
        · exact g2 rq f h5 (by rw [← hk'.aft]; exact h4)
        · rw [hfr'.aft] at h4; exact absurd h4 (by simp)⟩
    · rw [hfr.ast] at hast; exact absurd hast (by simp)

end Sys
end Topsim
