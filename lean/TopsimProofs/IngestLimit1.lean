/-
  IngestLimit1 — the ingest ledger (C08, trajectory clause): definitions and the
  accounting inequality.

  The scheduler's counter `provision_ingest` is raised by the pipeline demand
  when the telescope admits an observation and lowered by the same amount when
  the observation's ingest supervisor (`allocate_ingest`) ends.  In between, the
  `provision_ingest_resources` block moves that many machines to the ingest pool
  and the allocation processes give them back one by one.

  Everything is stated on the projection of a state the ledger reads: the
  process table `ps`, the pipeline demands `dem`, the ghost list `E` of ingest
  allocation processes (`pending` ++ the ingest part of `runOn`), the counter
  `P`, the limit `M` and the list `adm` of admitted observations.
-/
import TopsimProofs.SysInv

namespace Topsim

/-- the observation an ingest supervisor (`allocate_ingest`) works for -/
def PK.aiObs : PK → Option Oid
  | .allocIngest o _ => some o
  | _ => none

/-- the observation a provisioning process (`provision_ingest_resources`) works for -/
def PK.piObs : PK → Option Oid
  | .provIngest o _ => some o
  | _ => none

/-- the observation of a live ingest supervisor -/
def ilAiLive (p : Proc) : Option Oid := if p.alive then p.k.aiObs else none

/-- the observations whose ingest supervisor is alive (one entry per supervisor) -/
def ilLiveAI (ps : List Proc) : List Oid := ps.filterMap ilAiLive

def ilCovered (ps : List Proc) (o : Oid) : Bool := ps.any (fun p => ilAiLive p == some o)

/-- `p` stands for machines of `o` that are promised but not yet moved: the supervisor before its
first block, or the provisioning process before its first block -/
def ilUnprov (o : Oid) (p : Proc) : Bool :=
  p.alive && p.pc == 0 && (p.k.aiObs == some o || p.k.piObs == some o)

def ilUnprovisioned (ps : List Proc) (o : Oid) : Bool := ps.any (ilUnprov o)

def ilPromisedTo (ps : List Proc) (dem : Oid → Nat) (o : Oid) : Nat :=
  if ilUnprovisioned ps o then dem o else 0

/-- machines promised to admitted observations whose provisioning block has not run yet -/
def ilPromised (ps : List Proc) (dem : Oid → Nat) : Nat :=
  ((ilLiveAI ps).map (ilPromisedTo ps dem)).sum

def ilEntCount (E : List RunEntry) (o : Oid) : Nat := E.countP (fun e => e.obs == some o)

/-- an ingest allocation process whose observation's supervisor has already ended -/
def ilStaleEntry (ps : List Proc) (e : RunEntry) : Bool :=
  match e.obs with
  | some o => !ilCovered ps o
  | none => true

def ilStale (ps : List Proc) (E : List RunEntry) : Nat := E.countP (ilStaleEntry ps)

def ilLoad (ps : List Proc) (dem : Oid → Nat) (E : List RunEntry) : Nat := E.length + ilPromised ps dem

/-! ### characterisations -/

theorem ilAiLive_some {p : Proc} {o : Oid} :
    ilAiLive p = some o ↔ p.alive = true ∧ p.k.aiObs = some o := by
  unfold ilAiLive
  by_cases h : p.alive = true <;> simp [h]

theorem mem_ilLiveAI {ps : List Proc} {o : Oid} :
    o ∈ ilLiveAI ps ↔ ∃ p ∈ ps, p.alive = true ∧ p.k.aiObs = some o := by
  unfold ilLiveAI
  rw [List.mem_filterMap]
  constructor
  · rintro ⟨p, hp, h⟩; exact ⟨p, hp, ilAiLive_some.mp h⟩
  · rintro ⟨p, hp, h⟩; exact ⟨p, hp, ilAiLive_some.mpr h⟩

theorem ilCovered_iff {ps : List Proc} {o : Oid} : ilCovered ps o = true ↔ o ∈ ilLiveAI ps := by
  unfold ilCovered
  rw [List.any_eq_true, mem_ilLiveAI]
  constructor
  · rintro ⟨p, hp, h⟩; exact ⟨p, hp, ilAiLive_some.mp (by simpa using h)⟩
  · rintro ⟨p, hp, h⟩; exact ⟨p, hp, by simpa using ilAiLive_some.mpr h⟩

theorem ilUnprov_iff {o : Oid} {p : Proc} :
    ilUnprov o p = true ↔ p.alive = true ∧ p.pc = 0 ∧ (p.k.aiObs = some o ∨ p.k.piObs = some o) := by
  unfold ilUnprov
  simp [and_assoc]

theorem ilUnprovisioned_iff {ps : List Proc} {o : Oid} :
    ilUnprovisioned ps o = true ↔
      ∃ p ∈ ps, p.alive = true ∧ p.pc = 0 ∧ (p.k.aiObs = some o ∨ p.k.piObs = some o) := by
  unfold ilUnprovisioned
  rw [List.any_eq_true]
  constructor
  · rintro ⟨p, hp, h⟩; exact ⟨p, hp, ilUnprov_iff.mp h⟩
  · rintro ⟨p, hp, h⟩; exact ⟨p, hp, ilUnprov_iff.mpr h⟩

theorem ilPromisedTo_le (ps : List Proc) (dem : Oid → Nat) (o : Oid) : ilPromisedTo ps dem o ≤ dem o := by
  unfold ilPromisedTo; split <;> omega

theorem ilPromisedTo_mono {ps ps' : List Proc} {dem : Oid → Nat} {o : Oid}
    (h : ilUnprovisioned ps' o = true → ilUnprovisioned ps o = true) :
    ilPromisedTo ps' dem o ≤ ilPromisedTo ps dem o := by
  unfold ilPromisedTo
  by_cases h' : ilUnprovisioned ps' o = true
  · simp [h', h h']
  · simp [h']

/-! ### sums of naturals over lists -/

theorem il_sum_le_of_le {α} (f g : α → Nat) (l : List α) (h : ∀ a ∈ l, f a ≤ g a) :
    (l.map f).sum ≤ (l.map g).sum := by
  induction l with
  | nil => simp
  | cons x r ih =>
    simp only [List.map_cons, List.sum_cons]
    have := h x (by simp)
    have := ih (fun a ha => h a (List.mem_cons_of_mem _ ha))
    omega

theorem il_sum_sublist {α} (f : α → Nat) {l l' : List α} (h : l'.Sublist l) :
    (l'.map f).sum ≤ (l.map f).sum := by
  induction h with
  | slnil => simp
  | cons a _ ih => simp only [List.map_cons, List.sum_cons]; omega
  | cons_cons a _ ih => simp only [List.map_cons, List.sum_cons]; omega

theorem il_le_sum_of_mem {α} (f : α → Nat) {l : List α} {a : α} (h : a ∈ l) : f a ≤ (l.map f).sum := by
  induction l with
  | nil => simp at h
  | cons x r ih =>
    simp only [List.map_cons, List.sum_cons]
    rcases List.mem_cons.mp h with rfl | h
    · omega
    · have := ih h; omega

theorem il_sum_add {α} (f g : α → Nat) (l : List α) :
    (l.map (fun a => f a + g a)).sum = (l.map f).sum + (l.map g).sum := by
  induction l with
  | nil => simp
  | cons x r ih => simp only [List.map_cons, List.sum_cons, ih]; omega

/-- pointwise `≤` with a drop of `d` at one member -/
theorem il_sum_drop {α} (f g : α → Nat) (l : List α) (h : ∀ a ∈ l, f a ≤ g a) {a : α} (ha : a ∈ l)
    (d : Nat) (hd : f a + d ≤ g a) : (l.map f).sum + d ≤ (l.map g).sum := by
  induction l with
  | nil => simp at ha
  | cons x r ih =>
    simp only [List.map_cons, List.sum_cons]
    rcases List.mem_cons.mp ha with rfl | ha'
    · have := il_sum_le_of_le f g r (fun b hb => h b (List.mem_cons_of_mem _ hb))
      omega
    · have := ih (fun b hb => h b (List.mem_cons_of_mem _ hb)) ha'
      have := h x (by simp)
      omega

/-! ### the accounting inequality -/

theorem ilEntCount_cons (e : RunEntry) (E : List RunEntry) (o : Oid) :
    ilEntCount (e :: E) o = ilEntCount E o + (if e.obs == some o then 1 else 0) := by
  unfold ilEntCount
  rw [List.countP_cons]

/-- every ingest allocation process that is not stale is counted for a live supervisor -/
theorem il_covered_le (ps : List Proc) (E : List RunEntry) :
    E.countP (fun e => !ilStaleEntry ps e) ≤ ((ilLiveAI ps).map (ilEntCount E)).sum := by
  induction E with
  | nil => simp
  | cons e E ih =>
    rw [List.countP_cons]
    have h1 : ((ilLiveAI ps).map (ilEntCount (e :: E))).sum
        = ((ilLiveAI ps).map (ilEntCount E)).sum
          + ((ilLiveAI ps).map (fun o => if e.obs == some o then 1 else 0)).sum := by
      rw [← il_sum_add]
      congr 1
      apply List.map_congr_left
      intro o _
      exact ilEntCount_cons e E o
    rw [h1]
    have h2 : (if (!ilStaleEntry ps e) = true then 1 else 0)
        ≤ ((ilLiveAI ps).map (fun o => if e.obs == some o then 1 else 0)).sum := by
      by_cases hs : ilStaleEntry ps e = true
      · simp [hs]
      · have hs' : (!ilStaleEntry ps e) = true := by simpa using hs
        rw [if_pos hs']
        unfold ilStaleEntry at hs
        cases hobs : e.obs with
        | none => rw [hobs] at hs; simp at hs
        | some o =>
          rw [hobs] at hs
          have hc : ilCovered ps o = true := by simpa using hs
          have hm := ilCovered_iff.mp hc
          have := il_le_sum_of_mem (fun o' => if some o == some o' then 1 else 0) hm
          simpa using this
    omega

theorem il_length_split (ps : List Proc) (E : List RunEntry) :
    E.length = ilStale ps E + E.countP (fun e => !ilStaleEntry ps e) := by
  unfold ilStale
  induction E with
  | nil => simp
  | cons e E ih =>
    rw [List.countP_cons, List.countP_cons, List.length_cons]
    cases ilStaleEntry ps e <;> simp <;> omega

/-! ### the ledger invariant -/

structure ILC (ps : List Proc) (dem : Oid → Nat) (E : List RunEntry) (P : Int) (M : Nat)
    (adm : List Oid) : Prop where
  /-- the counter covers the demand of every observation whose supervisor is alive -/
  owed : ((((ilLiveAI ps).map dem).sum : Nat) : Int) ≤ P
  cap : P ≤ (M : Int)
  /-- a live supervisor's observation holds at most its demand, machines in use plus promised -/
  perObs : ∀ o ∈ ilLiveAI ps, ilEntCount E o + ilPromisedTo ps dem o ≤ dem o
  aiAdm : ∀ p ∈ ps, ∀ o, p.k.aiObs = some o → o ∈ adm
  aiUniq : ∀ p ∈ ps, ∀ q ∈ ps, ∀ o, p.k.aiObs = some o → q.k.aiObs = some o → p.pid = q.pid
  entAdm : ∀ e ∈ E, ∀ o, e.obs = some o → o ∈ adm
  /-- a provisioning process that has not run yet asks for exactly the demand, and its
  observation's supervisor is alive, past its first block, and due strictly later -/
  piLive : ∀ q ∈ ps, q.alive = true → q.pc = 0 → ∀ o d, q.k = .provIngest o d →
    d = dem o ∧ ∃ p ∈ ps, p.alive = true ∧ 1 ≤ p.pc ∧ p.k.aiObs = some o ∧ q.wake < p.wake

theorem ILC.promised_le_owed {ps dem E P M adm} (_h : ILC ps dem E P M adm) :
    ilPromised ps dem ≤ ((ilLiveAI ps).map dem).sum :=
  il_sum_le_of_le _ _ _ (fun o _ => ilPromisedTo_le ps dem o)

/-- machines in the ingest pool plus machines promised never exceed the counter, except for the
machines of allocation processes whose observation's ingest has already been closed -/
theorem ILC.accounting {ps dem E P M adm} (h : ILC ps dem E P M adm) :
    ((E.length + ilPromised ps dem : Nat) : Int) ≤ P + (ilStale ps E : Nat) := by
  have h1 := il_length_split ps E
  have h2 := il_covered_le ps E
  have h3 : ((ilLiveAI ps).map (ilEntCount E)).sum + ilPromised ps dem
      ≤ ((ilLiveAI ps).map dem).sum := by
    unfold ilPromised
    rw [← il_sum_add]
    exact il_sum_le_of_le _ _ _ h.perObs
  have h4 := h.owed
  omega

theorem ILC.promised_le {ps dem E P M adm} (h : ILC ps dem E P M adm) :
    ((ilPromised ps dem : Nat) : Int) ≤ P := by
  have := h.promised_le_owed
  have := h.owed
  omega

end Topsim
