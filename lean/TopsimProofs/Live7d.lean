/-
  Live7d — progress of `allocate_tasks` (part 4): the plan of the observation through one block
  of its `allocate_tasks` process, the summary of such a block (`l7_ats_own`), the classification
  of the status changes of one step (`l7_tstat_step`), and the arithmetic of the ready pool
  (`l7_pool_core`).
-/
import TopsimProofs.Live7c

namespace Topsim

open Sys

/-! ### the pool, abstractly -/

theorem l7_mem_seedPool_of_mem (plan : Plan) {po : List Tid} {t : Tid} (h : t ∈ po) :
    t ∈ Alg.seedPool plan po := by
  unfold Alg.seedPool
  cases po with
  | nil => simp at h
  | cons a r => simpa using h

theorem l7_mem_seedPool_root (plan : Plan) {t : Tid} (ht : t ∈ plan.tasks) (hr : plan.preds t = []) :
    t ∈ Alg.seedPool plan [] := by
  unfold Alg.seedPool
  simp [List.mem_filter, ht, hr]

/-- **The pool keeps every ready task.**  One run of `QueueProcessing.run` followed by
`_process_current_schedule`, in terms of the statuses before (`stat0`) and after (`stat1`): if
before the block every UNSCHEDULED task with a predecessor that has left UNSCHEDULED (or is a key
of the leftover schedule), and — when the pool is not empty — every UNSCHEDULED root, is in the
pool or a key of the leftover schedule, then so it is after the block. -/
theorem l7_pool_core (plan : Plan) (sc sc' : List (Tid × Mid)) (po : List Tid) (out : AlgOut)
    (removed added : List Tid) (stat0 stat1 : Tid → TStatus) (tasks0 : List Tid)
    (q1 : ∀ k ∈ dictKeys sc, k ∈ dictKeys out.schedule)
    (q2 : ∀ t ∈ removed, t ∈ dictKeys out.schedule)
    (q3 : ∀ t ∈ removed, ∀ x ∈ plan.succs t, x ∈ added)
    (q4 : ∀ k ∈ dictKeys out.schedule, k ∈ dictKeys sc ∨ k ∈ removed)
    (q5 : ∀ t, t ∈ out.pool ↔ (t ∈ Alg.seedPool plan po ∧ t ∉ removed) ∨ t ∈ added)
    (H1 : ∀ x, stat1 x = stat0 x ∨ (stat0 x = .unscheduled ∧ stat1 x = .scheduled ∧ x ∈ dictKeys out.schedule))
    (H2 : ∀ x ∈ dictKeys out.schedule, x ∈ dictKeys sc' ∨ stat1 x = .scheduled)
    (H3 : ∀ x ∈ dictKeys sc', x ∈ dictKeys out.schedule)
    (hsub : ∀ t ∈ plan.tasks, t ∈ tasks0)
    (IH : ∀ t ∈ tasks0, stat0 t = .unscheduled →
      ((∃ u ∈ plan.preds t, stat0 u ≠ .unscheduled ∨ u ∈ dictKeys sc) ∨ (plan.preds t = [] ∧ po ≠ [])) →
      t ∈ po ∨ t ∈ dictKeys sc) :
    ∀ t ∈ plan.tasks, stat1 t = .unscheduled →
      ((∃ u ∈ plan.preds t, stat1 u ≠ .unscheduled ∨ u ∈ dictKeys sc') ∨ (plan.preds t = [] ∧ out.pool ≠ [])) →
      t ∈ out.pool ∨ t ∈ dictKeys sc' := by
  intro t ht hu hc
  have hu0 : stat0 t = .unscheduled := by
    rcases H1 t with e | ⟨_, e, _⟩
    · rw [← e]; exact hu
    · rw [hu] at e; cases e
  by_cases hA : t ∈ dictKeys out.schedule
  · rcases H2 t hA with h | h
    · exact Or.inr h
    · rw [hu] at h; cases h
  · have hnr : t ∉ removed := fun h => hA (q2 t h)
    have hnsc : t ∉ dictKeys sc := fun h => hA (q1 t h)
    have fromPo : t ∈ po → t ∈ out.pool := fun h =>
      (q5 t).mpr (Or.inl ⟨l7_mem_seedPool_of_mem plan h, hnr⟩)
    have viaIH : ((∃ u ∈ plan.preds t, stat0 u ≠ .unscheduled ∨ u ∈ dictKeys sc) ∨ (plan.preds t = [] ∧ po ≠ [])) →
        t ∈ out.pool := fun hc0 =>
      (IH t (hsub t ht) hu0 hc0).elim fromPo (fun h => absurd h hnsc)
    have keyCase : ∀ u ∈ plan.preds t, u ∈ dictKeys out.schedule → t ∈ out.pool := by
      intro u hup hk
      rcases q4 u hk with h | h
      · exact viaIH (Or.inl ⟨u, hup, Or.inr h⟩)
      · exact (q5 t).mpr (Or.inr (q3 u h t ((C14_queries plan u t).mp hup)))
    left
    rcases hc with ⟨u, hup, hu1 | hu1⟩ | ⟨hroot, _⟩
    · rcases H1 u with e | ⟨_, _, hk⟩
      · exact viaIH (Or.inl ⟨u, hup, Or.inl (by rw [← e]; exact hu1)⟩)
      · exact keyCase u hup hk
    · exact keyCase u hup (H3 u hu1)
    · by_cases hpo : po = []
      · refine (q5 t).mpr (Or.inl ⟨?_, hnr⟩)
        rw [hpo]; exact l7_mem_seedPool_root plan ht hroot
      · exact viaIH (Or.inr ⟨hroot, hpo⟩)

namespace Sys

/-! ### plans -/

theorem l7_preds_congr {pl pl' : Plan} (h : pl'.edges = pl.edges) (t : Tid) : pl'.preds t = pl.preds t := by
  unfold Plan.preds; rw [h]

theorem l7_plan?_of_mem {s : Sys} (hpn : (s.plans.map (·.obs)).Nodup) {pl : Plan} (h : pl ∈ s.plans) :
    s.plan? pl.obs = some pl := by
  unfold plan?
  exact find?_of_mem_nodup (f := fun p : Plan => p.obs) hpn h

/-- the plan of `o` after the plan stamp and the pruning: same edges, the unfinished tasks -/
theorem l7_s1_plan (s : Sys) (now : Time) (pc : Nat) (o : Oid) {pl : Plan} (h : s.plan? o = some pl) :
    ∃ pl1, ((atStart s now pc o).updateCurrentPlan o).plan? o = some pl1 ∧ pl1.edges = pl.edges ∧
      pl1.obs = pl.obs ∧ (∀ t, t ∈ pl1.tasks ↔ t ∈ pl.tasks ∧ tstat s t ≠ .finished) ∧
      pl1.tasks.Sublist pl.tasks := by
  -- the stamp
  have h1 : ∃ pla, (atStart s now pc o).plan? o = some pla ∧ pla.edges = pl.edges ∧ pla.obs = pl.obs ∧
      pla.tasks = pl.tasks := by
    rcases atStart_plans s now pc o with e | e
    · exact ⟨pl, by rw [plan?_of_plans e]; exact h, rfl, rfl, rfl⟩
    · refine ⟨{ pl with ast := some (natNow now) }, ?_, rfl, rfl, rfl⟩
      rw [plan?_of_plans e, plan?_updPlan s o (fun p => { p with ast := some (natNow now) }) (fun _ => rfl), h]
      rfl
  obtain ⟨pla, ha, e1, e2, e3⟩ := h1
  have hpl := updateCurrentPlan_plans (atStart s now pc o) o
  rw [ha] at hpl
  simp only at hpl
  refine ⟨{ pla with tasks := pla.tasks.filter (fun t => ((atStart s now pc o).taskView t).status ≠ .finished) },
    ?_, e1, e2, ?_, ?_⟩
  · rw [plan?_of_plans hpl, plan?_updPlan (atStart s now pc o) o
      (fun p => { p with tasks := p.tasks.filter (fun t => ((atStart s now pc o).taskView t).status ≠ .finished) })
      (fun _ => rfl), ha]
    rfl
  · intro t
    simp only [List.mem_filter, decide_eq_true_eq]
    rw [e3]
    have : ((atStart s now pc o).taskView t).status = tstat s t := atStart_tstat s now pc o t
    rw [this]
  · rw [← e3]; exact List.filter_sublist

/-- … and after the algorithm's status has been recorded -/
theorem l7_s3_plan (s1 : Sys) (out : AlgOut) (o : Oid) {plan : Plan} (h : s1.plan? o = some plan) :
    (atS3 s1 out o).plan? o = some { plan with status := out.status } := by
  rw [plan?_map s1 (atS3 s1 out o) o (fun p => { p with status := out.status }) (fun _ => rfl)
    (atS3_plans s1 out o) o, h]
  simp only [Option.map_some]
  rw [if_pos (plan?_mem h).2]

/-! ### one block of a live `allocate_tasks` process, in full -/

attribute [local irreducible] atS3 atStart Sys.updateCurrentPlan processCurrentSchedule in
/-- a block of the live `allocate_tasks` process of `o` that does not raise and does not finish:
the plan the algorithm ran on, what the algorithm returned, the plan afterwards, the statuses, and
the keys of the new leftover schedule -/
theorem l7_ats_own {s : Sys} (hsu : SU s) (halg : s.alg = .queue) {p : Proc} (hp : p ∈ s.procs)
    (ha : p.alive = true) (orc : Oracle) {o : Oid} {sc pa : List (Tid × Mid)} {po : List Tid}
    (hk : p.k = .allocTasks o sc pa po false) (hnr : ∀ e, (s.block p orc).2.2 ≠ .raised e)
    {pl : Plan} (hpl : s.plan? o = some pl) {sc' pa' : List (Tid × Mid)} {po' : List Tid}
    (hk' : (s.block p orc).2.1 = .allocTasks o sc' pa' po' false) :
    ∃ (plan : Plan) (out : AlgOut) (removed added : List Tid),
      plan.edges = pl.edges ∧ (∀ t, t ∈ plan.tasks ↔ t ∈ pl.tasks ∧ tstat s t ≠ .finished) ∧
      (∀ k ∈ dictKeys sc, k ∈ dictKeys out.schedule) ∧
      (∀ t ∈ removed, t ∈ dictKeys out.schedule) ∧
      (∀ t ∈ removed, ∀ x ∈ plan.succs t, x ∈ added) ∧
      (∀ k ∈ dictKeys out.schedule, k ∈ dictKeys sc ∨ k ∈ removed) ∧
      (∀ t, t ∈ out.pool ↔ (t ∈ Alg.seedPool plan po ∧ t ∉ removed) ∨ t ∈ added) ∧
      po' = out.pool ∧
      (s.block p orc).1.plan? o = some { plan with status := out.status } ∧
      (∀ x, tstat (s.block p orc).1 x = tstat s x ∨
        (tstat s x = .unscheduled ∧ tstat (s.block p orc).1 x = .scheduled ∧ x ∈ dictKeys out.schedule)) ∧
      (∀ x ∈ dictKeys out.schedule, x ∈ dictKeys sc' ∨ tstat (s.block p orc).1 x = .scheduled) ∧
      (∀ x ∈ dictKeys sc', x ∈ dictKeys out.schedule) := by
  rw [block_allocTasks orc hk] at hnr hk' ⊢
  rw [allocTasksBlock_eq] at hnr hk' ⊢
  obtain ⟨pl1, hpl1, e1, _, e3, _⟩ := l7_s1_plan s p.wake p.pc o hpl
  have hts1 : ∀ t, tstat ((atStart s p.wake p.pc o).updateCurrentPlan o) t = tstat s t := fun t =>
    (updateCurrentPlan_tstat _ o t).trans (atStart_tstat s p.wake p.pc o t)
  have halg1 : ((atStart s p.wake p.pc o).updateCurrentPlan o).alg = .queue := by
    rw [updateCurrentPlan_alg, atStart_alg]; exact halg
  have hno1 : ((atStart s p.wake p.pc o).updateCurrentPlan o).alg ≠ .oracle := by rw [halg1]; simp
  obtain ⟨hnd0, _⟩ := hsu.sl p hp ha o sc pa po false hk
  have hout := allocTasksIter_out (atStart s p.wake p.pc o) p.wake orc o sc pa po
  generalize (atStart s p.wake p.pc o).allocTasksIter p.wake orc o sc pa po = r at hout hnr hk' ⊢
  -- the algorithm is `QueueProcessing`
  have hq : ∀ plan out, ((atStart s p.wake p.pc o).updateCurrentPlan o).runAlgorithm orc plan sc po = .ok out →
      Alg.queueRun ((atStart s p.wake p.pc o).updateCurrentPlan o).cl plan
        ((atStart s p.wake p.pc o).updateCurrentPlan o).taskView sc po = .ok out := by
    intro plan out hrun
    unfold runAlgorithm at hrun
    rw [halg1] at hrun
    exact hrun
  -- the outcomes with an empty new schedule
  have quiet : ∀ (plan : Plan) (out : AlgOut) (X : Sys),
      ((atStart s p.wake p.pc o).updateCurrentPlan o).plan? o = some plan →
      ((atStart s p.wake p.pc o).updateCurrentPlan o).runAlgorithm orc plan sc po = .ok out →
      out.schedule.isEmpty = true → X.plans = (atS3 ((atStart s p.wake p.pc o).updateCurrentPlan o) out o).plans →
      X.tasks = (atS3 ((atStart s p.wake p.pc o).updateCurrentPlan o) out o).tasks →
      sc' = out.schedule → po' = out.pool →
      ∃ (plan : Plan) (out : AlgOut) (removed added : List Tid),
        plan.edges = pl.edges ∧ (∀ t, t ∈ plan.tasks ↔ t ∈ pl.tasks ∧ tstat s t ≠ .finished) ∧
        (∀ k ∈ dictKeys sc, k ∈ dictKeys out.schedule) ∧
        (∀ t ∈ removed, t ∈ dictKeys out.schedule) ∧
        (∀ t ∈ removed, ∀ x ∈ plan.succs t, x ∈ added) ∧
        (∀ k ∈ dictKeys out.schedule, k ∈ dictKeys sc ∨ k ∈ removed) ∧
        (∀ t, t ∈ out.pool ↔ (t ∈ Alg.seedPool plan po ∧ t ∉ removed) ∨ t ∈ added) ∧
        po' = out.pool ∧
        X.plan? o = some { plan with status := out.status } ∧
        (∀ x, tstat X x = tstat s x ∨
          (tstat s x = .unscheduled ∧ tstat X x = .scheduled ∧ x ∈ dictKeys out.schedule)) ∧
        (∀ x ∈ dictKeys out.schedule, x ∈ dictKeys sc' ∨ tstat X x = .scheduled) ∧
        (∀ x ∈ dictKeys sc', x ∈ dictKeys out.schedule) := by
    intro plan out X hplan hrun hemp hXp hXt hsc hpo
    rw [hpl1] at hplan
    injection hplan with hplan
    subst hplan
    obtain ⟨removed, added, q1, q2, q3, q4, q5, _⟩ := l7_queueRun _ _ _ _ _ _ (hq _ _ hrun)
    have hnil : dictKeys out.schedule = [] := dictKeys_of_isEmpty hemp
    refine ⟨pl1, out, removed, added, e1, e3, q1, q2, q3, q4, q5, hpo, ?_, ?_, ?_, ?_⟩
    · rw [plan?_of_plans hXp]; exact l7_s3_plan _ out o hpl1
    · intro x
      left
      rw [tstat_of_tasks hXt, atS3_tstat, hts1]
    · intro x hx; rw [hnil] at hx; simp at hx
    · intro x hx; rw [hsc] at hx; exact hx
  cases hout with
  | noPlan _ => exact absurd rfl (hnr _)
  | algErr plan e _ _ => exact absurd rfl (hnr _)
  | finish plan out _ _ _ _ _ _ => simp at hk'
  | finishBad plan out _ _ _ _ _ _ => exact absurd rfl (hnr _)
  | finishWait plan out hplan hrun hemp _ _ =>
    simp only [PK.allocTasks.injEq, and_true, true_and] at hk'
    exact quiet plan out _ hplan hrun hemp rfl rfl hk'.1.symm hk'.2.2.symm
  | idle plan out hplan hrun hemp _ =>
    simp only [PK.allocTasks.injEq, and_true, true_and] at hk'
    exact quiet plan out _ hplan hrun hemp rfl rfl hk'.1.symm hk'.2.2.symm
  | alloc plan out y hplan hrun _ _ =>
    simp only [PK.allocTasks.injEq, and_true, true_and] at hk'
    obtain ⟨hsc, _, hpo⟩ := hk'
    rw [hpl1] at hplan
    injection hplan with hplan
    subst hplan
    obtain ⟨removed, added, q1, q2, q3, q4, q5, _⟩ := l7_queueRun _ _ _ _ _ _ (hq _ _ hrun)
    obtain ⟨_, halgn⟩ := runAlgorithm_sched ((atStart s p.wake p.pc o).updateCurrentPlan o) orc pl1 sc po out
      hno1 hrun
    obtain ⟨new', hpcs⟩ := processCurrentSchedule_pcs (atS3 ((atStart s p.wake p.pc o).updateCurrentPlan o) out o)
      p.wake o out.schedule pa (halgn hnd0)
    have hpq := l7_pcs_pq (atS3 ((atStart s p.wake p.pc o).updateCurrentPlan o) out o) p.wake o out.schedule pa
      (halgn hnd0)
    have hXpl := processCurrentSchedule_plans (atS3 ((atStart s p.wake p.pc o).updateCurrentPlan o) out o)
      p.wake o out.schedule pa
    generalize processCurrentSchedule (atS3 ((atStart s p.wake p.pc o).updateCurrentPlan o) out o) p.wake o
      out.schedule pa = st at hpcs hpq hXpl hsc ⊢
    refine ⟨pl1, out, removed, added, e1, e3, q1, q2, q3, q4, q5, hpo.symm, ?_, ?_, ?_, ?_⟩
    · show st.s.plan? o = _
      rw [plan?_of_plans hXpl]; exact l7_s3_plan _ out o hpl1
    · intro x
      show tstat st.s x = _ ∨ (_ ∧ tstat st.s x = _ ∧ _)
      rcases hpcs.stat x with e | ⟨g1, g2, q, hq', m', cross', hqk⟩
      · left; rw [e, atS3_tstat, hts1]
      · right
        rw [atS3_tstat, hts1] at g1
        refine ⟨g1, g2, ?_⟩
        obtain ⟨_, _, t0, m0, c0, e, g3, _⟩ := hpcs.newk q hq'
        rw [hqk] at e
        injection e with e0
        subst e0
        exact g3
    · intro x hx
      show _ ∨ tstat st.s x = _
      rw [← hsc]
      exact hpq.left x hx
    · intro x hx
      rw [← hsc] at hx
      exact hpcs.keys x hx

/-! ### the status changes of one step -/

/-- one step of the run and a workflow task: its status is as before, or it had left UNSCHEDULED
and has not returned, or `allocate_tasks` has just handed it to a new allocation process -/
theorem l7_tstat_step {s0 s s' : Sys} {p : Proc} {orc : Oracle} (L : L7Lib s0 s) (h : L7Step s s' p orc)
    {new : List Proc} (hnew : (s.block p orc).1.procs = s.procs ++ new) {t : Tid} (hw : IsWf t) :
    tstat s' t = tstat s t ∨
    (tstat s t ≠ .unscheduled ∧ tstat s' t ≠ .unscheduled) ∨
    (tstat s t = .unscheduled ∧ tstat s' t = .scheduled ∧ ∃ o sc pa po fn, p.k = .allocTasks o sc pa po fn ∧
      ∃ q ∈ new, q.alive = true ∧ ∃ m cross, q.k = .allocTask t m cross (some o) false 0) := by
  have hpm := h.mem
  have hs := L.sinv
  obtain ⟨U, hU⟩ := hs.ci
  have hno : s.alg ≠ .oracle := by rw [L.alg]; simp
  rw [h.tstat]
  cases hk : p.k with
  | allocTask t0 m preds obs ing ret =>
    have hnr := h.nr
    rw [block_allocTask orc hk] at hnr ⊢
    by_cases e : t = t0
    · subst e
      have hsch := hU.hasRec p hpm t m preds obs ing ret hk
      have hrec : ∃ r, s.task? t = some r := by
        obtain ⟨r, hr, _⟩ := hsch
        exact ⟨r, hr⟩
      have h0 := tstat_of_sched hsch
      obtain ⟨_, hcase⟩ := l7_allocTask_block s hs.pw p.wake t m preds obs ing ret hnr hrec
      rcases hcase with ⟨_, hsame | hsc, _⟩ | ⟨_, hf, _⟩
      · exact Or.inl hsame
      · exact Or.inr (Or.inl ⟨h0, by rw [hsc]; simp⟩)
      · exact Or.inr (Or.inl ⟨h0, by rw [hf]; simp⟩)
    · exact Or.inl (allocTask_tstat_ne s _ _ _ _ _ _ _ e)
  | doWork t0 m preds ph tot =>
    rw [block_doWork orc hk]
    rcases l7_doWork_tstat s p.wake orc t0 m preds ph tot t with e | ⟨e, e'⟩
    · exact Or.inl e
    · subst e
      obtain ⟨a, ha1, _, _, preds', obs, ing, hak⟩ := hs.dg.dwAlloc p hpm h.ha _ _ _ _ _ hk
      exact Or.inr (Or.inl ⟨tstat_of_sched (hU.hasRec a ha1 t m preds' obs ing p.pid hak), by rw [e']; simp⟩)
  | allocTasks o sc pa po fn =>
    rcases l7_allocTasks_tstat L.su hno hpm h.ha orc hk hnew t with e | ⟨e1, e2, q, hq, hqa, m', cross', hqk⟩
    · exact Or.inl e
    · exact Or.inr (Or.inr ⟨e1, e2, o, sc, pa, po, fn, rfl, q, hq, hqa, m', cross', hqk⟩)
  | _ =>
    exact Or.inl (l7_block_tstat_other s p orc (by rw [hk]; simp [PK.tag]) (by rw [hk]; simp [PK.tag])
      (by rw [hk]; simp [PK.tag]) hw)

end Sys

end Topsim
