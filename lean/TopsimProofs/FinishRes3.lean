/-
  FinishRes3 — blocks that leave the cluster alone.
-/
import TopsimProofs.FinishRes2

namespace Topsim
namespace Sys

theorem monitorBlock_clq (s : Sys) (now : Time) : (s.monitorBlock now).1.cl = s.cl := rfl

theorem checkIngestCapacity_clq (s : Sys) (o : Obs) (s' : Sys) (b : Bool)
    (h : s.checkIngestCapacity o = .ok (s', b)) : s'.cl = s.cl := by
  unfold checkIngestCapacity at h
  split at h
  · exact absurd h (by simp)
  · split at h
    · split at h
      · injection h with h; injection h with h1 _
        subst h1
        split <;> rfl
      · injection h with h; injection h with h1 _; subst h1; rfl
    · injection h with h; injection h with h1 _; subst h1; rfl

theorem telescopeVisit_clq (n : Nat) (acc : Sys × Option Err) (oid : Oid) :
    (telescopeVisit n acc oid).1.cl = acc.1.cl := by
  obtain ⟨s1, err⟩ := acc
  unfold telescopeVisit
  cases err with
  | some e => rfl
  | none =>
    simp only
    split
    · rfl
    · rename_i o _
      split
      · cases hc : s1.checkIngestCapacity o with
        | error e => rfl
        | ok r =>
          obtain ⟨s', b⟩ := r
          have := checkIngestCapacity_clq s1 o s' b hc
          cases b with
          | false => exact this
          | true => simp only; exact this
      · split <;> rfl

theorem foldl_clq' {α β} (f : Sys × β → α → Sys × β) (hf : ∀ acc x, (f acc x).1.cl = acc.1.cl)
    (l : List α) (acc : Sys × β) : (l.foldl f acc).1.cl = acc.1.cl := by
  induction l generalizing acc with
  | nil => rfl
  | cons x r ih => exact (ih _).trans (hf acc x)

theorem telescopeBlock_clq (s : Sys) (now : Time) : (s.telescopeBlock now).1.cl = s.cl := by
  unfold telescopeBlock
  split
  · rfl
  · simp only
    have := foldl_clq' (telescopeVisit (natNow now)) (telescopeVisit_clq (natNow now))
      (s.obs.map (·.id))
      ({ s with telEvents := [], telDelayed := if s.schedDelayed = true ∧ (!s.telDelayed) = true then true else s.telDelayed }, none)
    generalize (List.foldl (telescopeVisit (natNow now)) ({ s with telEvents := [], telDelayed := if s.schedDelayed = true ∧ (!s.telDelayed) = true then true else s.telDelayed }, none) (s.obs.map (·.id))) = r at this ⊢
    obtain ⟨s1, e1⟩ := r
    cases e1 <;> exact this

theorem schedLoopBlock_clq (s : Sys) (now : Time) (orc : Oracle) :
    (s.schedLoopBlock now orc).1.cl = s.cl := by
  unfold schedLoopBlock
  simp only
  split
  · split
    · rfl
    · split
      · rfl
      · split <;> split <;> rfl
  · rfl

theorem bufferLoopBlock_clq (s : Sys) (now : Time) : (s.bufferLoopBlock now).1.cl = s.cl := by
  unfold bufferLoopBlock
  split
  · rfl
  · simp only; split <;> split <;> rfl

theorem ingestStreamIter_clq (s : Sys) (now : Time) (oid : Oid) (tl : Int) :
    (s.ingestStreamIter now oid tl).1.cl = s.cl := by
  unfold ingestStreamIter; mach_split

theorem ingestStreamBlock_clq (s : Sys) (now : Time) (pc : Nat) (oid : Oid) (tl : Int) :
    (s.ingestStreamBlock now pc oid tl).1.cl = s.cl := by
  unfold ingestStreamBlock
  split
  · split
    · rfl
    · split
      · rfl
      · exact ingestStreamIter_clq _ _ _ _
  · exact ingestStreamIter_clq _ _ _ _

theorem doWorkBlock_clq (s : Sys) (now : Time) (orc : Oracle) (t : Tid) (m : Mid) (preds : List Tid)
    (ph tot : Nat) : (s.doWorkBlock now orc t m preds ph tot).1.cl = s.cl := by
  rcases doWorkBlock_out s now orc t m preds ph tot with
    ⟨_, _, _, _, heq⟩ | ⟨_, _, _, _, _, heq⟩ | ⟨_, _, _, heq⟩ <;> rw [heq] <;> rfl

theorem hot2coldIter_clq (s : Sys) (now : Time) (o : Oid) (left : Int) :
    (s.hot2coldIter now o left).1.cl = s.cl := by
  unfold hot2coldIter; mach_split

theorem hot2coldBlock_clq (s : Sys) (now : Time) (cur : Option (Oid × Int)) :
    (s.hot2coldBlock now cur).1.cl = s.cl := by
  unfold hot2coldBlock
  split
  · exact hot2coldIter_clq _ _ _ _
  · split
    · rfl
    · rfl
    · rw [hot2coldIter_clq]; rfl

theorem cold2hotIter_clq (s : Sys) (now : Time) (o : Oid) (left : Int) :
    (s.cold2hotIter now o left).1.cl = s.cl := by
  unfold cold2hotIter; mach_split

theorem cold2hotBlock_clq (s : Sys) (now : Time) (cur : Option (Oid × Int)) :
    (s.cold2hotBlock now cur).1.cl = s.cl := by
  unfold cold2hotBlock
  split
  · exact cold2hotIter_clq _ _ _ _
  · split
    · rfl
    · rfl
    · rw [cold2hotIter_clq]; rfl

theorem allocIngestBlock_clq (s : Sys) (now : Time) (pc : Nat) (oid : Oid) (tl : Int) :
    (s.allocIngestBlock now pc oid tl).1.cl = s.cl ∨
    (s.allocIngestBlock now pc oid tl).1.cl = s.cl.cleanUpIngest := by
  have hi : ∀ s : Sys, ∀ tl, (s.allocIngestIter now oid tl).1.cl = s.cl ∨
      (s.allocIngestIter now oid tl).1.cl = s.cl.cleanUpIngest := by
    intro s tl
    unfold allocIngestIter
    simp only
    split
    · exact Or.inl rfl
    · split
      · exact Or.inr rfl
      · split
        · exact Or.inl rfl
        · split
          · exact Or.inl rfl
          · exact Or.inr rfl
  unfold allocIngestBlock
  split
  · exact hi _ _
  · exact hi _ _

/-- the blocks that do not allocate or release: `runOn` and the reservations are unchanged -/
theorem block_runOn_idle (s : Sys) (p : Proc) (orc : Oracle) (h1 : p.k.tag ≠ "provIngest")
    (h2 : p.k.tag ≠ "allocTask") (h3 : p.k.tag ≠ "allocTasks") :
    (s.block p orc).1.cl.runOn = s.cl.runOn ∧ (s.block p orc).1.cl.idle = s.cl.idle := by
  unfold block
  split
  · rw [monitorBlock_clq]; exact ⟨rfl, rfl⟩
  · rw [telescopeBlock_clq]; exact ⟨rfl, rfl⟩
  · show (s.cl.loopTick).runOn = _ ∧ (s.cl.loopTick).idle = _
    unfold Cluster.loopTick; split <;> exact ⟨rfl, rfl⟩
  · rw [schedLoopBlock_clq]; exact ⟨rfl, rfl⟩
  · rw [bufferLoopBlock_clq]; exact ⟨rfl, rfl⟩
  · rename_i o tl _
    rcases allocIngestBlock_clq s p.wake p.pc o tl with h | h <;> rw [h] <;> exact ⟨rfl, rfl⟩
  · rename_i hk; rw [hk] at h1; exact absurd rfl h1
  · rw [ingestStreamBlock_clq]; exact ⟨rfl, rfl⟩
  · rename_i hk; rw [hk] at h2; exact absurd rfl h2
  · rw [doWorkBlock_clq]; exact ⟨rfl, rfl⟩
  · rename_i hk; rw [hk] at h3; exact absurd rfl h3
  · rw [hot2coldBlock_clq]; exact ⟨rfl, rfl⟩
  · rw [cold2hotBlock_clq]; exact ⟨rfl, rfl⟩

end Sys
end Topsim
