/-
  LiveP15c — the declarations of Live15c.lean that depend on the configuration structures, restated for
  the plan-following configurations (`LivePCfg`, `NcPCfg`, `L7PLib`); the proofs are those of Live15c.lean.
  `run()` of a plan-following algorithm leaves the cluster alone (`l7_planRun_cl_P`).
-/
import TopsimProofs.LiveP15b2

namespace Topsim

open KState Sys

namespace Cluster

end Cluster

namespace Sys

open Cluster

-- (the counterpart of `nco_queue_out` is in LiveP2)

theorem nco_allocTasksBlock_P (s : Sys) (now : Time) (orc : Oracle) (pc : Nat) (oid : Oid)
    (sc pa : List (Tid × Mid)) (po : List Tid) (fin : Bool) (halg : PlanAlg s.alg)
    (hidle : s.cl.idle = []) :
    (s.allocTasksBlock now orc pc oid sc pa po fin).1.cl = s.cl ∧
    ∃ new, (s.allocTasksBlock now orc pc oid sc pa po fin).1.procs = s.procs ++ new ∧
      (new.map (fun q => q.k.ncoMach)).Nodup ∧
      ∀ q ∈ new, ∃ t m cross, q.k = .allocTask t m cross (some oid) false 0 ∧
        s.cl.isOccupied m = false ∧ ∃ mm ∈ s.machines, mm.id = m := by
  cases fin with
  | true =>
    rw [allocTasksBlock_fin]
    exact ⟨rfl, [], by simp, by simp, by simp⟩
  | false =>
    rw [allocTasksBlock_eq]
    have a1 := atStart_cl s now pc oid
    have a2 := atStart_procs s now pc oid
    have a3 := atStart_machs s now pc oid
    have a4 := atStart_alg s now pc oid
    generalize atStart s now pc oid = a at a1 a2 a3 a4
    have c := updateCurrentPlan_core a oid
    have b1 : (a.updateCurrentPlan oid).cl = s.cl := c.cl.trans a1
    have b2 : (a.updateCurrentPlan oid).procs = s.procs := c.procs.trans a2
    have b3 : (a.updateCurrentPlan oid).machines = s.machines := (updateCurrentPlan_machs a oid).trans a3
    have b4 : PlanAlg (a.updateCurrentPlan oid).alg := by rw [updateCurrentPlan_alg, a4]; exact halg
    have hout := allocTasksIter_out a now orc oid sc pa po
    have hid1 : (a.updateCurrentPlan oid).cl.idle = [] := by rw [b1]; exact hidle
    have hq : ∀ plan out, (a.updateCurrentPlan oid).runAlgorithm orc plan sc po = .ok out → out.cl = s.cl :=
      fun plan out h => (l7_planRun_cl_P _ orc plan sc po out b4 h).trans b1
    have hnone : ∀ X : Sys, X.cl = s.cl → X.procs = s.procs →
        X.cl = s.cl ∧ ∃ new, X.procs = s.procs ++ new ∧ (new.map (fun q => q.k.ncoMach)).Nodup ∧
          ∀ q ∈ new, ∃ t m cross, q.k = .allocTask t m cross (some oid) false 0 ∧
            s.cl.isOccupied m = false ∧ ∃ mm ∈ s.machines, mm.id = m :=
      fun X h1 h2 => ⟨h1, [], by simp [h2], by simp, by simp⟩
    generalize a.allocTasksIter now orc oid sc pa po = r at hout ⊢
    cases hout with
    | noPlan _ => exact hnone _ b1 b2
    | algErr plan e _ _ => exact hnone _ b1 b2
    | finish plan out _ hrun _ _ _ _ =>
      apply hnone
      · show Cluster.releaseBatch (atS3 (a.updateCurrentPlan oid) out oid).cl oid = s.cl
        rw [atS3_cl, hq plan out hrun]
        exact nco_releaseBatch_nil _ _ hidle
      · show (atS3 (a.updateCurrentPlan oid) out oid).procs = s.procs
        rw [atS3_procs]; exact b2
    | finishBad plan out _ hrun _ _ _ _ =>
      apply hnone
      · show Cluster.releaseBatch (atS3 (a.updateCurrentPlan oid) out oid).cl oid = s.cl
        rw [atS3_cl, hq plan out hrun]
        exact nco_releaseBatch_nil _ _ hidle
      · show (atS3 (a.updateCurrentPlan oid) out oid).procs = s.procs
        rw [atS3_procs]; exact b2
    | finishWait plan out _ hrun _ _ _ =>
      apply hnone
      · show (atS3 (a.updateCurrentPlan oid) out oid).cl = s.cl
        rw [atS3_cl]; exact hq plan out hrun
      · show (atS3 (a.updateCurrentPlan oid) out oid).procs = s.procs
        rw [atS3_procs]; exact b2
    | idle plan out _ hrun _ _ =>
      apply hnone
      · rw [atS3_cl]; exact hq plan out hrun
      · rw [atS3_procs]; exact b2
    | alloc plan out y _ hrun _ _ =>
      obtain ⟨h1, new, h2, h3, h4⟩ := nco_pcs (atS3 (a.updateCurrentPlan oid) out oid) now oid out.schedule pa
      have hcl3 : (atS3 (a.updateCurrentPlan oid) out oid).cl = s.cl := by rw [atS3_cl]; exact hq plan out hrun
      refine ⟨h1.trans hcl3, new, by rw [h2, atS3_procs, b2], h3, ?_⟩
      intro q hq'
      obtain ⟨t, m, cross, hk, ho, hmm⟩ := h4 q hq'
      rw [hcl3] at ho
      rw [atS3_machs, b3] at hmm
      exact ⟨t, m, cross, hk, ho, hmm⟩

end Sys

end Topsim

