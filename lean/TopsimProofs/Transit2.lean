/-
  Transit2 — the admission step and the room in the cold tier.

  * only the telescope's block extends `admitted`; an observation that a step admits passed the
    buffer test of `check_buffer_capacity` in the state before the step (`transit_resume_admission`);
  * with at most one hot→cold move in flight the data in transit is at most the size of the
    observation in the cold tier's transfer slot (`transit_inTransit_le_slot`), hence the cold
    test leaves room for it (`transit_cold_room`);
  * the slot is the move, and the cold tier's free space plus what the move has delivered is the
    free space the stored observations leave (`transit_slot_move`).
-/
import TopsimProofs.Transit1
import TopsimProofs.OnTime1

namespace Topsim
namespace Sys

/-! ### `admitted` is extended by the telescope's block only -/

theorem transit_foldl_admitted {α} (f : Sys → α → Sys) (hf : ∀ s x, (f s x).admitted = s.admitted)
    (l : List α) (s : Sys) : (l.foldl f s).admitted = s.admitted := by
  induction l generalizing s with
  | nil => rfl
  | cons x r ih => exact (ih _).trans (hf s x)

theorem transit_allocIngestIter_admitted (s : Sys) (now : Time) (oid : Oid) (tl : Int) :
    (s.allocIngestIter now oid tl).1.admitted = s.admitted := by
  unfold allocIngestIter; simp only; mach_split

theorem transit_allocIngestBlock_admitted (s : Sys) (now : Time) (pc : Nat) (oid : Oid) (tl : Int) :
    (s.allocIngestBlock now pc oid tl).1.admitted = s.admitted := by
  unfold allocIngestBlock
  split
  · exact transit_allocIngestIter_admitted _ _ _ _
  · exact transit_allocIngestIter_admitted _ _ _ _

theorem transit_provIngestBlock_admitted (s : Sys) (now : Time) (pc : Nat) (oid : Oid) (d : Nat) :
    (s.provIngestBlock now pc oid d).1.admitted = s.admitted := by
  unfold provIngestBlock
  split
  · simp only
    split
    · rfl
    · refine Eq.trans (transit_foldl_admitted _ ?_ _ _) rfl
      intro s x; rfl
  · rfl

theorem transit_allocTaskBlock_admitted (s : Sys) (now : Time) (t : Tid) (m : Mid) (preds : List Tid)
    (obs : Option Oid) (ing : Bool) (ret : Nat) :
    (s.allocTaskBlock now t m preds obs ing ret).1.admitted = s.admitted := by
  unfold allocTaskBlock; simp only; mach_split

theorem transit_doWorkBlock_admitted (s : Sys) (now : Time) (orc : Oracle) (t : Tid) (m : Mid)
    (preds : List Tid) (ph tot : Nat) : (s.doWorkBlock now orc t m preds ph tot).1.admitted = s.admitted := by
  rcases doWorkBlock_out s now orc t m preds ph tot with
    ⟨_, _, _, _, heq⟩ | ⟨_, _, _, _, _, heq⟩ | ⟨_, _, _, heq⟩ <;> rw [heq] <;> rfl

theorem transit_block_admitted (s : Sys) (p : Proc) (orc : Oracle) (hpre : s.alg = .oracle → orc.preOk)
    (hk : p.k ≠ .telescope) : (s.block p orc).1.admitted = s.admitted := by
  unfold block
  split
  · exact (monitorBlock_pres _ _).shape.admitted
  · rename_i hk'; exact absurd hk' hk
  · rfl
  · exact (schedLoopBlock_pres _ _ _).shape.admitted
  · exact (bufferLoopBlock_pres _ _).shape.admitted
  · exact transit_allocIngestBlock_admitted _ _ _ _ _
  · exact transit_provIngestBlock_admitted _ _ _ _ _
  · exact (ingestStreamBlock_pres _ _ _ _ _).shape.admitted
  · exact transit_allocTaskBlock_admitted _ _ _ _ _ _ _ _
  · exact transit_doWorkBlock_admitted _ _ _ _ _ _ _ _
  · exact (allocTasksBlock_pres _ _ _ hpre _ _ _ _ _ _).shape.admitted
  · exact (hot2coldBlock_pres _ _ _).shape.admitted
  · exact (cold2hotBlock_pres _ _ _).shape.admitted

/-! ### what an admission has tested -/

/-- the visits of one telescope pass: an observation admitted by them passed the buffer test against
the buffer of the state the pass started from -/
theorem transit_telFold_admission (n : Nat) (l : List Oid) (acc : Sys × Option Err) (oid : Oid)
    (hn : oid ∉ acc.1.admitted) (ha : oid ∈ (l.foldl (telescopeVisit n) acc).1.admitted) :
    ∃ o, acc.1.obs? oid = some o ∧ o.rate * o.duration ≤ acc.1.buf.hot.cur ∧
      acc.1.buf.coldHasCapacityFor (o.rate * o.duration) = true := by
  induction l generalizing acc with
  | nil => exact absurd ha hn
  | cons x r ih =>
    rw [List.foldl_cons] at ha
    obtain ⟨t, ht⟩ := telescopeVisit_step n acc x
    have hbuf := telescopeVisit_buf n acc x
    have hkeep := telStep_keep ht
    by_cases hx : oid ∈ (telescopeVisit n acc x).1.admitted
    · cases ht with
      | quiet _ hadm => rw [hadm] at hx; exact absurd hx hn
      | start ob he he' _ hob _ _ hadm =>
        rw [hadm] at hx
        have hox : oid = x := by
          rcases List.mem_append.mp hx with h | h
          · exact absurd h hn
          · simpa using h
        subst hox
        obtain ⟨s, e⟩ := acc
        simp only at he hob hn hadm ⊢
        subst he
        have hv : telescopeVisit n (s, none) oid = ((telescopeVisit n (s, none) oid).1, none) := by
          cases hr : telescopeVisit n (s, none) oid with
          | mk a b =>
            rw [hr] at he'
            simp only at he'
            rw [he']
        obtain ⟨_, _, _, _, _, _, _, g8, _, g10, _⟩ :=
          admission_guard n s _ oid ob hob hv (by rw [hadm]; simp)
        exact ⟨ob, hob, g8, g10⟩
      | finish _ _ _ _ _ _ _ _ _ _ hadm => rw [hadm] at hx; exact absurd hx hn
    · obtain ⟨o1, ho1, g1, g2⟩ := ih _ hx ha
      obtain ⟨o, ho, hst⟩ := hkeep.bwd ho1
      obtain ⟨_, _, hd, _, hr, _⟩ := ot_stat_fields hst
      rw [hbuf] at g1 g2
      rw [hr, hd] at g1 g2
      exact ⟨o, ho, g1, g2⟩

theorem transit_telescopeBlock_admission (s : Sys) (now : Time) (oid : Oid) (hn : oid ∉ s.admitted)
    (ha : oid ∈ (s.telescopeBlock now).1.admitted) :
    ∃ o, s.obs? oid = some o ∧ o.rate * o.duration ≤ s.buf.hot.cur ∧
      s.buf.coldHasCapacityFor (o.rate * o.duration) = true := by
  unfold telescopeBlock at ha
  split at ha
  · exact absurd ha hn
  · simp only at ha
    split at ha
    · rename_i s1 e heq
      have e1 : _ = s1 := congrArg Prod.fst heq
      try simp only at ha
      rw [← e1] at ha
      refine transit_telFold_admission _ _ _ oid ?_ ha
      exact hn
    · rename_i s1 heq
      have e1 : _ = s1 := congrArg Prod.fst heq
      try simp only at ha
      rw [← e1] at ha
      refine transit_telFold_admission _ _ _ oid ?_ ha
      exact hn

/-- **An admission step.**  If a step of the block system admits observation `oid`, then in the
state before the step `oid` passed the buffer test: its volume is at most the hot tier's free
space, and the cold tier's `has_capacity_for` holds of it. -/
theorem transit_resume_admission (s : Sys) (pid : Nat) (orc : Oracle) (hpre : s.alg = .oracle → orc.preOk)
    (oid : Oid) (hn : oid ∉ s.admitted) (ha : oid ∈ (s.resume pid orc).1.admitted) :
    ∃ o, s.obs? oid = some o ∧ o.rate * o.duration ≤ s.buf.hot.cur ∧
      s.buf.coldHasCapacityFor (o.rate * o.duration) = true := by
  cases hp : s.proc? pid with
  | none => rw [resume_none s pid orc hp] at ha; exact absurd ha hn
  | some p =>
    cases hal : p.alive with
    | false => rw [resume_dead s pid orc p hp hal] at ha; exact absurd ha hn
    | true =>
      have hcore := resume_core s pid orc p hp hal
      rw [hcore.admitted, updProc_admitted] at ha
      by_cases hk : p.k = .telescope
      · rw [block_telescope orc hk] at ha
        exact transit_telescopeBlock_admission s p.wake oid hn ha
      · rw [transit_block_admitted s p orc hpre hk] at ha
        exact absurd ha hn

/-! ### in transit ≤ the slot -/

theorem transit_left_zero {b : Proc} (h : transitLiveH2C b = false) : transitLeft b = 0 := by
  unfold transitLiveH2C at h
  unfold transitLeft
  by_cases hb : b.alive = true
  · rw [hb] at h
    simp only [Bool.true_and] at h
    rw [if_pos hb]
    cases hk : b.k <;> simp [hk, PK.transitH2C, transitLeftK] at h ⊢
  · simp [hb]

theorem transit_inTransit_cases {s : Sys} (hq : LiveH2C s ≤ 1) (hts : TransitSlotCold s) (hca : CA s) :
    s.inTransitToCold = 0 ∨
    ∃ p ∈ s.procs, p.alive = true ∧ ∃ o l, p.k = .hot2cold (some (o, l)) ∧ 0 < l ∧
      s.inTransitToCold = l ∧ l ≤ s.buf.sizeOf o ∧ s.buf.cold.transfer = some o := by
  by_cases hex : ∃ p ∈ s.procs, p.alive = true ∧ ∃ o l, p.k = .hot2cold (some (o, l)) ∧ 0 < l
  · obtain ⟨p, hp, ha, o, l, hk, hl⟩ := hex
    right
    refine ⟨p, hp, ha, o, l, hk, hl, ?_, ?_, hts p hp ha o l hk hl⟩
    · have hlive : transitLiveH2C p = true := by
        unfold transitLiveH2C; rw [ha, hk]; rfl
      have := transit_sum_unique s.procs transitLiveH2C transitLeft (fun b _ hb => transit_left_zero hb)
        hq p hp hlive
      unfold inTransitToCold
      rw [this]
      simp [transitLeft, ha, hk, transitLeftK, hl]
    · have := hca.left p hp ha
      rw [hk] at this
      exact (this hl).1
  · left
    unfold inTransitToCold
    apply sum_map_zero
    intro b hb
    unfold transitLeft
    by_cases hba : b.alive = true
    · rw [if_pos hba]
      cases hk : b.k with
      | hot2cold cur =>
        cases cur with
        | none => rfl
        | some ol =>
          obtain ⟨o, l⟩ := ol
          by_cases hl : 0 < l
          · exact absurd ⟨b, hb, hba, o, l, hk, hl⟩ hex
          · simp [transitLeftK, hl]
      | _ => rfl
    · simp [hba]

/-- with at most one hot→cold move alive, and the slot invariant: wherever the cold tier's
`has_capacity_for` holds of a size, that size fits ON TOP OF what is still in transit -/
theorem transit_cold_room {s : Sys} (hq : LiveH2C s ≤ 1) (hts : TransitSlotCold s) (hca : CA s)
    (hsn : ∀ o, 0 ≤ s.buf.sizeOf o) (sz : Int) (hcap : s.buf.coldHasCapacityFor sz = true) :
    sz + s.inTransitToCold ≤ s.buf.cold.cur := by
  unfold Buffer.coldHasCapacityFor at hcap
  rcases transit_inTransit_cases hq hts hca with h0 | ⟨p, _, _, o, l, _, _, hsum, hle, hslot⟩
  · rw [h0]
    cases htr : s.buf.cold.transfer with
    | none =>
      simp only [htr, decide_eq_true_eq] at hcap
      omega
    | some t =>
      simp only [htr, decide_eq_true_eq] at hcap
      have := hsn t
      omega
  · rw [hsum]
    simp only [hslot, decide_eq_true_eq] at hcap
    omega

/-! ### the slot is the move -/

theorem transit_coldTok_zero {s : Sys} (hc0 : LiveC2H s = 0) {b : Proc} (hb : b ∈ s.procs)
    (h : transitLiveH2C b = false) : coldTok s.buf b = 0 := by
  unfold coldTok
  by_cases hba : b.alive = true
  · rw [if_pos hba]
    have h1 : b.k.tag ≠ "hot2cold" := by
      intro e
      unfold transitLiveH2C at h
      rw [hba, transit_h2c_tag.mpr e] at h
      cases h
    have h2 : b.k.tag ≠ "cold2hot" := by
      intro e
      have := transit_filter_zero s.procs transitLiveC2H hc0 hb
      unfold transitLiveC2H at this
      rw [hba, transit_c2h_tag.mpr e] at this
      cases this
    exact (coldTokK_of_tag s.buf h1 h2).1
  · simp [hba]

/-- **The slot is the move.**  While a hot→cold move is in flight and is the only tier move alive:
the cold tier's transfer slot holds the observation it moves; its residual is within the size of
that observation and is all that is in transit; and the cold tier's free space plus what the move
has delivered is the free space the observations stored in the cold tier leave. -/
theorem transit_slot_move {s : Sys} (hq : TransitOneCold s) (hts : TransitSlotCold s) (hca : CA s)
    {p : Proc} (hp : p ∈ s.procs) (ha : p.alive = true) {o : Oid} {l : Int}
    (hk : p.k = .hot2cold (some (o, l))) (hl : 0 < l) :
    s.buf.cold.transfer = some o ∧ l ≤ s.buf.sizeOf o ∧ s.inTransitToCold = l ∧
    s.buf.cold.cur + (s.buf.sizeOf o - l) = s.buf.cold.total - sumSz s.buf s.buf.cold.stored := by
  have hlive : transitLiveH2C p = true := by
    unfold transitLiveH2C; rw [ha, hk]; rfl
  have hc0 : LiveC2H s = 0 := hq.2 (transit_filter_pos s.procs transitLiveH2C hp hlive)
  have hleft : l ≤ s.buf.sizeOf o := by
    have := hca.left p hp ha
    rw [hk] at this
    exact (this hl).1
  have hsum : s.inTransitToCold = l := by
    have := transit_sum_unique s.procs transitLiveH2C transitLeft (fun b _ hb => transit_left_zero hb)
      hq.1 p hp hlive
    unfold inTransitToCold
    rw [this]
    simp [transitLeft, ha, hk, transitLeftK, hl]
  refine ⟨hts p hp ha o l hk hl, hleft, hsum, ?_⟩
  have hacct := hca.acct
  have := transit_sum_unique s.procs transitLiveH2C (coldTok s.buf)
    (fun b hb h => transit_coldTok_zero hc0 hb h) hq.1 p hp hlive
  rw [this] at hacct
  have hp' : coldTok s.buf p = s.buf.sizeOf o - l := by
    simp [coldTok, ha, hk, coldTokK, hl]
  rw [hp'] at hacct
  unfold cs at hacct
  omega

/-! ### along trajectories -/

/-- **Room in the cold tier on top of what is in transit**, at every admission step of every run
that keeps at most one hot→cold move alive (and no cold→hot move beside it) and has not raised. -/
theorem transit_admission_cold_room (s0 s : Sys) (hw : WFConfig s0) (hbuf : bufList s0.buf = [])
    (hfull : s0.buf.size = [] ∧ s0.buf.hot.cur = s0.buf.hot.total ∧ s0.buf.cold.cur = s0.buf.cold.total)
    (hrate : ∀ o ∈ s0.obs, 0 < o.rate) (h : TransitReach TransitOneCold s0 s) (hc : s.crashed = none)
    (pid : Nat) (orc : Oracle) (hpre : s.alg = .oracle → orc.preOk) (oid : Oid)
    (hn : oid ∉ s.admitted) (ha : oid ∈ (s.resume pid orc).1.admitted) :
    ∃ o, s.obs? oid = some o ∧ o.rate * o.duration + s.inTransitToCold ≤ s.buf.cold.cur := by
  obtain ⟨o, ho, _, hcap⟩ := transit_resume_admission s pid orc hpre oid hn ha
  obtain ⟨_, hca, _, hsi⟩ := reachOk_bufFacts s0 s hw hbuf hfull hrate h.toOk hc
  exact ⟨o, ho, transit_cold_room h.holds.1 (transit_slotCold_reach s0 s hw h) hca hsi.sn _ hcap⟩

end Sys
end Topsim
