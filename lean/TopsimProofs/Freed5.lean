/-
  Freed5 — C07, the WHEN of the release: the block theorems in reachable states (where the
  invariants supply "no leftover proposal", "resident as scheduled", "plan not marked FINISHED"),
  and the evaluated witnesses (non-vacuity on `c04W1`; two UNREACHABLE model states that refute the
  any-state forms without those hypotheses).
-/
import TopsimProofs.Freed4

namespace Topsim

open KState Sys

namespace Sys

/-! ### (1) and its converse in reachable states -/

/-- In a state of a run of a shipped algorithm that has not raised, a live `allocate_tasks` process
of `o` whose plan has only FINISHED tasks left carries no leftover proposal, and `o` is resident as
scheduled; so its block (if it does not raise) frees `o`. -/
theorem freed_block_reach (s0 s : Sys) (hw : WFConfig s0) (hbuf : bufList s0.buf = [])
    (halg : FreedShipped s0.alg) (h : ReachOk s0 s) (pid : Nat) (orc : Oracle) (p : Proc)
    (o : Oid) (sc pa : List (Tid × Mid)) (po : List Tid) (pl : Plan)
    (hp : s.proc? pid = some p) (ha : p.alive = true) (hk : p.k = .allocTasks o sc pa po false)
    (hpl : s.plan? o = some pl) (hfin : ∀ t ∈ pl.tasks, tstat s t = .finished)
    (hnr : ∀ e, (s.resume pid orc).2 ≠ .raised e) :
    sc = [] ∧ o ∈ s.buf.hot.scheduled ∧ s.queue.Nodup ∧
    (s.resume pid orc).2 = .timeout 1 ∧
    (s.resume pid orc).1.buf = (s.buf.remove o).1 ∧
    (s.resume pid orc).1.queue = s.queue.erase o ∧ o ∈ s.queue ∧
    ∃ po', (s.resume pid orc).1.proc? pid =
      some { p with k := .allocTasks o [] pa po' true, pc := p.pc + 1, wake := p.wake + 1 } := by
  have hri := freed_reach_ri s0 s hw hbuf halg h.toReach
  have hati := reachOk_ati s0 s hw hbuf h
  have hno : s.alg ≠ .oracle := by rw [reach_alg h.toReach]; exact halg.noOracle
  obtain ⟨hpm, _⟩ := proc?_some hp
  have hin := hati.sched p hpm ha o sc pa po hk
  have hsc : sc = [] := by
    cases sc with
    | nil => rfl
    | cons x rest =>
      exfalso
      obtain ⟨h1, h2⟩ := (hri.sl p hpm ha o _ pa po hk).2 x.1 (by simp [dictKeys])
      unfold planTasks at h1
      rw [hpl] at h1
      rw [hfin x.1 h1] at h2
      cases h2
  subst hsc
  exact ⟨rfl, hin, hri.qNodup,
    freed_resume_complete s pid orc p o pa po pl hp ha hk hpl hfin (fun e => absurd e hno) hin hnr⟩

/-- In a state of a run that has not raised, while some task of the plan of `o` has no FINISHED
record, no block moves `o` to the removed observations, and the block of `o`'s own
`allocate_tasks` process leaves buffer and queue as they are. -/
theorem freed_running_reach (s0 s : Sys) (hw : WFConfig s0) (hbuf : bufList s0.buf = [])
    (h : ReachOk s0 s) (hc : s.crashed = none) (pid : Nat) (orc : Oracle) (o : Oid) (pl : Plan)
    (hpl : s.plan? o = some pl) (hun : ∃ t ∈ pl.tasks, tstat s t ≠ .finished) :
    (o ∈ (s.resume pid orc).1.buf.hot.finished → o ∈ s.buf.hot.finished) ∧
    (∀ p sc pa po fn, s.proc? pid = some p → p.k = .allocTasks o sc pa po fn →
      (s.resume pid orc).1.buf = s.buf ∧ (s.resume pid orc).1.queue = s.queue) := by
  have hwi := reachOk_wi s0 s hw hbuf h hc
  have hst : pl.status ≠ .finished := by
    intro e
    obtain ⟨t, ht, _⟩ := hun
    rw [hwi.pf pl (plan?_mem hpl).1 e] at ht
    simp at ht
  exact freed_resume_running s pid orc o pl hpl hun hst

/-! ### evaluation helpers -/

/-- the entry of an `allocate_tasks` process, as data with decidable equality (the kind type `PK`
has none) -/
structure FreedView where
  alive : Bool
  o : Oid
  sc : List (Tid × Mid)
  pa : List (Tid × Mid)
  po : List Tid
  fn : Bool
  deriving DecidableEq, Repr

def freedATs (alive : Bool) : PK → Option FreedView
  | .allocTasks o sc pa po fn => some ⟨alive, o, sc, pa, po, fn⟩
  | _ => none

/-- 0: timeout, 1: done, 2: raised -/
def freedYTag : Yield → Nat
  | .timeout _ => 0
  | .done => 1
  | .raised _ => 2

theorem freedYTag_noraise {y : Yield} (h : freedYTag y = 0) : ∀ e, y ≠ .raised e := by
  intro e he; subst he; simp [freedYTag] at h

/-- the entry of process `pid`, when it is an `allocate_tasks` process -/
def freedProcView (s : Sys) (pid : Nat) : Option FreedView :=
  (s.proc? pid).bind (fun p => freedATs p.alive p.k)

theorem freedProcView_spec {s : Sys} {pid : Nat} {o : Oid} {sc pa : List (Tid × Mid)} {po : List Tid}
    {fn : Bool} (h : freedProcView s pid = some ⟨true, o, sc, pa, po, fn⟩) :
    ∃ p, s.proc? pid = some p ∧ p.alive = true ∧ p.k = .allocTasks o sc pa po fn := by
  unfold freedProcView at h
  cases hp : s.proc? pid with
  | none => rw [hp] at h; cases h
  | some p =>
    rw [hp] at h
    simp only [Option.bind_some] at h
    refine ⟨p, rfl, ?_⟩
    cases hk : p.k <;> rw [hk] at h <;> simp [freedATs] at h
    obtain ⟨h1, rfl, rfl, rfl, rfl, rfl⟩ := h
    exact ⟨h1, rfl⟩

/-! ### the witness: `c04W1` just before t = 7 -/

/-- `c04W1` (one observation, workflow chain `0 → 1`, queue algorithm) after every event before
t = 7: the cluster has marked the last task FINISHED at t = 6 (after `allocate_tasks` ran at 6);
the plan still lists that task (not pruned yet); the observation is resident as scheduled and
queued; process 10 is its `allocate_tasks` process, with no leftover proposal, due at t = 7. -/
def freedS7 : Sys := (witRun c04W1 7 200).st

theorem freedS7_chk :
    (!freedS7.halted && decide (freedS7.crashed = none) &&
      decide (freedProcView freedS7 10 =
        some ⟨true, 0, [], [(.wf 0 1 0, 0), (.wf 0 1 1, 0)], [], false⟩) &&
      decide (freedS7.plans.map (fun p => (p.obs, p.tasks)) = [(0, [.wf 0 1 1])]) &&
      decide (freedS7.tasks.map (fun r => (r.id, r.status)) =
        [(.ingest 0 0, .finished), (.wf 0 1 0, .finished), (.wf 0 1 1, .finished)]) &&
      decide (freedS7.buf.hot.scheduled = [0]) && decide (freedS7.buf.hot.finished = []) &&
      decide (freedS7.buf.hot.cur = 99) && decide (freedS7.buf.sizeOf 0 = 1) &&
      decide (freedS7.queue = [0]) &&
      -- … and what the block of process 10 does
      decide (freedYTag (freedS7.resume 10 {}).2 = 0) &&
      decide ((freedS7.resume 10 {}).1.buf.hot.finished = [0]) &&
      decide ((freedS7.resume 10 {}).1.buf.hot.scheduled = []) &&
      decide ((freedS7.resume 10 {}).1.buf.hot.cur = 100) &&
      decide ((freedS7.resume 10 {}).1.queue = []) &&
      decide (freedProcView (freedS7.resume 10 {}).1 10 =
        some ⟨true, 0, [], [(.wf 0 1 0, 0), (.wf 0 1 1, 0)], [], true⟩)) = true := by
  decide +kernel

theorem freedS7_reach : ReachOk c04W1 freedS7 := by
  have h := freedS7_chk
  simp only [Bool.and_eq_true, Bool.not_eq_true', decide_eq_true_eq] at h
  exact witRun_reachOk c04W1_wf 7 200 h.1.1.1.1.1.1.1.1.1.1.1.1.1.1.1

/-! ### two UNREACHABLE states that refute the any-state forms -/

/-- `freedS7` with the observation taken out of `hot.scheduled` by hand (no run produces this: a live
`allocate_tasks` process has its observation in `scheduled`, `LcATI.sched`) -/
def freedSA : Sys :=
  { freedS7 with buf := { freedS7.buf with hot := { freedS7.buf.hot with scheduled := [] } } }

theorem freedSA_chk :
    (decide (freedProcView freedSA 10 =
        some ⟨true, 0, [], [(.wf 0 1 0, 0), (.wf 0 1 1, 0)], [], false⟩) &&
      decide (freedSA.plans.map (fun p => (p.obs, p.tasks)) = [(0, [.wf 0 1 1])]) &&
      decide (tstat freedSA (.wf 0 1 1) = .finished) &&
      decide (freedYTag (freedSA.resume 10 {}).2 = 0) &&
      decide ((freedSA.resume 10 {}).1.buf.hot.finished = [])) = true := by
  decide +kernel

/-- `c04W1` just before t = 6 (task `0_1_1` RUNNING) with the plan marked FINISHED by hand (no run
produces this: a plan marked FINISHED is empty, `WI.pf`) -/
def freedSB : Sys :=
  { (witRun c04W1 6 200).st with
    plans := (witRun c04W1 6 200).st.plans.map (fun p => { p with status := .finished }) }

theorem freedSB_chk :
    (decide (freedProcView freedSB 10 =
        some ⟨true, 0, [], [(.wf 0 1 0, 0), (.wf 0 1 1, 0)], [], false⟩) &&
      decide (freedSB.plans.map (fun p => (p.obs, p.tasks)) = [(0, [.wf 0 1 1])]) &&
      decide (tstat freedSB (.wf 0 1 1) = .running) &&
      decide (freedSB.buf.hot.finished = []) &&
      decide ((freedSB.resume 10 {}).1.buf.hot.finished = [0])) = true := by
  decide +kernel

/-! ### the witness of the timed form: kernel steps 53 → 54 of `c04W1` -/

/-- At index 53 the kernel pops the event of process 13 (the allocation process of task `0_1_1`)
at time 6; after its block (index 54) every workflow record of observation 0 is FINISHED and the
observation is resident as scheduled; after `env.run(until=8)` from there every pending event is
at time 8 and the observation has been removed. -/
theorem freedW3_chk :
    (decide ((simAt {} c04W1 54).st.crashed = none) && !(simAt {} c04W1 54).st.halted &&
      decide ((simAt {} c04W1 53).peek.map (fun e => (e.time, e.pid)) = some (6, 13)) &&
      decide ((simAt {} c04W1 53).st.tasks.map (fun r => (r.id, r.status)) =
        [(.ingest 0 0, .finished), (.wf 0 1 0, .finished), (.wf 0 1 1, .running)]) &&
      decide ((simAt {} c04W1 54).st.tasks.map (fun r => (r.id, r.status)) =
        [(.ingest 0 0, .finished), (.wf 0 1 0, .finished), (.wf 0 1 1, .finished)]) &&
      decide ((simAt {} c04W1 54).st.buf.hot.scheduled = [0]) &&
      decide ((SimState.runUntil {} 8 200 (simAt {} c04W1 54)).st.crashed = none) &&
      (SimState.runUntil {} 8 200 (simAt {} c04W1 54)).heap.all (fun x => decide ((6 : Time) + 1 < x.time)) &&
      decide ((SimState.runUntil {} 8 200 (simAt {} c04W1 54)).st.buf.hot.finished = [0])) = true := by
  decide +kernel

end Sys

end Topsim
