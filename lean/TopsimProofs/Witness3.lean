/-
  Witness3 — a concrete finished run of the deterministic simulator with the
  batch algorithm: a reservation is made, used, and released before `is_finished()`.

  Configuration `c04W3`: `c04W1` (one machine, one observation with the chain workflow `0 → 1`,
  ingest rate 1) with `BatchProcessing` (one partition, at least one machine per partition,
  no split table).  `allocate_tasks` reserves machine 0 for the observation at t = 2; between the
  two workflow tasks (after every event before t = 5) the reservation holds the machine idle;
  it is released when the observation is removed, at t = 7.
-/
import TopsimProofs.Witness1

namespace Topsim
namespace Sys

def c04W3 : Sys := { c04W1 with alg := .batch 1 1 none }

theorem c04W3_wf : WFConfig c04W3 := by
  refine ⟨by decide, rfl, by decide, ?_, ⟨rfl, rfl, rfl, rfl, rfl, rfl, rfl, rfl, rfl, rfl, rfl, rfl, rfl,
    rfl, rfl, rfl, rfl⟩⟩
  intro o ho
  simp only [c04W3, c04W1, List.mem_cons, List.not_mem_nil, or_false] at ho
  subst ho
  exact ⟨rfl, rfl, by decide, by decide⟩

theorem c04W3_buf : c04W3.buf.hot.stored = [] ∧ c04W3.buf.hot.scheduled = [] ∧
    c04W3.buf.hot.finished = [] ∧ c04W3.buf.cold.stored = [] := ⟨rfl, rfl, rfl, rfl⟩

theorem c04W3_size : c04W3.buf.size = [] ∧ c04W3.buf.hot.cur ≤ c04W3.buf.hot.total ∧
    c04W3.buf.cold.cur ≤ c04W3.buf.cold.total := ⟨rfl, by decide, by decide⟩

theorem c04W3_rate : ∀ o ∈ c04W3.obs, 0 < o.rate := by
  intro o ho
  simp only [c04W3, c04W1, List.mem_cons, List.not_mem_nil, or_false] at ho
  subst ho
  decide

theorem c04W3_alg : c04W3.alg ≠ .oracle := by simp [c04W3]

/-- the simulator after every event before t = 5: node 0 is finished, node 1 not yet proposed,
machine 0 is reserved for the observation and idle -/
def c04K3mid : SimState := witRun c04W3 5 200

/-- … and, from there, after every event before t = 8 -/
def c04K3 : SimState := SimState.runUntil {} (8 : Nat) 200 c04K3mid

def c04S3 : Sys := c04K3.st

theorem c04K3mid_run : SimRun {} c04W3 c04K3mid := witRun_simRun c04W3 5 200

theorem c04K3_run : SimRun {} c04W3 c04K3 := SimRun.runUntil _ _ c04K3mid_run

theorem c04K3mid_chk :
    (!c04K3mid.st.halted && decide (c04K3mid.st.crashed = none) &&
      decide (c04K3mid.st.cl.idle = [(0, [0])]) && decide (c04K3mid.st.cl.available = []) &&
      !c04K3mid.st.isFinished) = true := by
  decide +kernel

theorem c04S3_chk : witChk c04S3 [0]
    [(.ingest 0 0, .finished), (.wf 0 1 0, .finished), (.wf 0 1 1, .finished)]
    [.ingest 0 0, .wf 0 1 0, .wf 0 1 1] = true := by
  decide +kernel

theorem c04S3_avail : c04S3.cl.available = [0] := by decide +kernel

theorem c04S3_reach : ReachOk c04W3 c04S3 :=
  simRun_reachOk c04W3_wf c04K3_run (witChk_spec c04S3_chk).2.2.1

theorem c04K3mid_reach : ReachOk c04W3 c04K3mid.st :=
  simRun_reachOk c04W3_wf c04K3mid_run (by
    have h := c04K3mid_chk
    simp only [Bool.and_eq_true, Bool.not_eq_true'] at h
    exact h.1.1.1.1)

end Sys
end Topsim
