/-
  Frame facts, part 3: from blocks to `resume`, and the reachability invariant
  behind "one row per timestep".
-/
import TopsimProofs.BlockLemmas2

namespace Topsim
namespace Sys

instance decPKTelescope (k : PK) : Decidable (k = PK.telescope) := by
  cases k <;> first | exact isTrue rfl | exact isFalse (fun h => by cases h)

instance decPKSchedLoop (k : PK) : Decidable (k = PK.schedLoop) := by
  cases k <;> first | exact isTrue rfl | exact isFalse (fun h => by cases h)

/-! ### `preClear` -/

@[simp] theorem preClear_rows (s : Sys) (k : PK) : (s.preClear k).rows = s.rows := by
  unfold preClear; split <;> rfl
@[simp] theorem preClear_log (s : Sys) (k : PK) : (s.preClear k).log = s.log := by
  unfold preClear; split <;> rfl
@[simp] theorem preClear_buf (s : Sys) (k : PK) : (s.preClear k).bufEvents = s.bufEvents := by
  unfold preClear; split <;> rfl
@[simp] theorem preClear_obs (s : Sys) (k : PK) : (s.preClear k).obs = s.obs := by
  unfold preClear; split <;> rfl
@[simp] theorem preClear_procs (s : Sys) (k : PK) : (s.preClear k).procs = s.procs := by
  unfold preClear; split <;> rfl
theorem preClear_tel (s : Sys) (k : PK) :
    (s.preClear k).telEvents = if k = .telescope then [] else s.telEvents := by
  unfold preClear; cases k <;> simp
theorem preClear_sch (s : Sys) (k : PK) :
    (s.preClear k).schEvents = if k = .schedLoop then [] else s.schEvents := by
  unfold preClear; cases k <;> simp

/-! ### `resume` in terms of `block` -/

/-- what `resume` does to the process records with the resumed pid -/
def afterBlock (p : Proc) (k : PK) (y : Yield) (q : Proc) : Proc :=
  match y with
  | .timeout d => { q with k := k, pc := q.pc + 1, wake := p.wake + d }
  | _ => { q with k := k, pc := q.pc + 1, alive := false }

@[simp] theorem afterBlock_pid (p k y q) : (afterBlock p k y q).pid = q.pid := by
  unfold afterBlock; split <;> rfl
@[simp] theorem afterBlock_k (p k y q) : (afterBlock p k y q).k = k := by
  unfold afterBlock; split <;> rfl

theorem resume_none (s : Sys) (pid : Nat) (orc : Oracle) (hp : s.proc? pid = none) :
    (s.resume pid orc).1 = s := by
  simp [resume, hp]

theorem resume_dead (s : Sys) (pid : Nat) (orc : Oracle) (p : Proc) (hp : s.proc? pid = some p)
    (ha : p.alive = false) : (s.resume pid orc).1 = s := by
  simp [resume, hp, ha]

theorem resume_alive (s : Sys) (pid : Nat) (orc : Oracle) (p : Proc) (hp : s.proc? pid = some p)
    (ha : p.alive = true) :
    let r := (s.resume pid orc).1
    let b := s.block p orc
    r.rows = b.1.rows ∧ r.log = b.1.log ∧ r.telEvents = b.1.telEvents ∧
    r.schEvents = b.1.schEvents ∧ r.bufEvents = b.1.bufEvents ∧ r.obs = b.1.obs ∧
    r.procs = b.1.procs.map (fun q => if q.pid = pid then afterBlock p b.2.1 b.2.2 q else q) := by
  simp only [resume, hp, ha]
  generalize s.block p orc = b
  obtain ⟨s1, k, y⟩ := b
  cases y <;> simp [afterBlock]

/-! ### consequences for the event lists -/

theorem Frame.ev_sub {n : Nat} {a b : Sys} (h : Frame n a b) :
    ∀ e ∈ a.log ++ a.telEvents ++ a.schEvents ++ a.bufEvents,
      e ∈ b.log ++ b.telEvents ++ b.schEvents ++ b.bufEvents := by
  obtain ⟨l1, e1, _⟩ := h.tel
  obtain ⟨l2, e2, _⟩ := h.sch
  obtain ⟨l3, e3, _⟩ := h.buf
  intro e he
  simp only [h.log, e1, e2, e3, List.mem_append] at he ⊢
  rcases he with ((he | he) | he) | he <;> simp [he]

theorem Frame.ev_new {n : Nat} {a b : Sys} (h : Frame n a b) :
    ∀ e ∈ b.log ++ b.telEvents ++ b.schEvents ++ b.bufEvents,
      e ∈ a.log ++ a.telEvents ++ a.schEvents ++ a.bufEvents ∨ e.time = n := by
  obtain ⟨l1, e1, p1⟩ := h.tel
  obtain ⟨l2, e2, p2⟩ := h.sch
  obtain ⟨l3, e3, p3⟩ := h.buf
  intro e he
  simp only [h.log, e1, e2, e3, List.mem_append] at he ⊢
  rcases he with ((he | he | he) | he | he) | he | he
  · simp [he]
  · simp [he]
  · exact Or.inr (p1 e he)
  · simp [he]
  · exact Or.inr (p2 e he)
  · simp [he]
  · exact Or.inr (p3 e he)

theorem preClear_ev_sub (s : Sys) (k : PK) :
    ∀ e ∈ (s.preClear k).log ++ (s.preClear k).telEvents ++ (s.preClear k).schEvents ++
        (s.preClear k).bufEvents,
      e ∈ s.log ++ s.telEvents ++ s.schEvents ++ s.bufEvents := by
  intro e he
  simp only [preClear_log, preClear_tel, preClear_sch, preClear_buf, List.mem_append] at he ⊢
  rcases he with ((he | he) | he) | he
  · simp [he]
  · split at he
    · simp at he
    · simp [he]
  · split at he
    · simp at he
    · simp [he]
  · simp [he]

theorem resume_monitor (s : Sys) (pid : Nat) (orc : Oracle) (p : Proc) (hp : s.proc? pid = some p)
    (ha : p.alive = true) (hk : p.k = .monitor) :
    let r := (s.resume pid orc).1
    r.rows = s.rows ++ [s.mkRow (natNow p.wake)] ∧
    r.log = s.log ++ s.telEvents ++ s.schEvents ++ s.bufEvents ∧ r.telEvents = [] ∧
    r.schEvents = [] ∧ r.bufEvents = [] ∧ r.obs = s.obs ∧
    r.procs = s.procs.map (fun q => if q.pid = pid then
      { q with k := .monitor, pc := q.pc + 1, wake := p.wake + 1 } else q) := by
  have h := resume_alive s pid orc p hp ha
  simp only [block, hk, monitorBlock, collate, afterBlock] at h
  exact h

theorem rows_only_monitor (s : Sys) (pid : Nat) (orc : Oracle) (p : Proc)
    (hp : s.proc? pid = some p) (hk : p.k ≠ .monitor) :
    (s.resume pid orc).1.rows = s.rows := by
  cases ha : p.alive with
  | false => rw [resume_dead s pid orc p hp ha]
  | true =>
    rw [(resume_alive s pid orc p hp ha).1, (frame_block s p orc hk).1.rows, preClear_rows]

theorem status_monotone (s : Sys) (pid : Nat) (orc : Oracle) (oid : Oid) (o : Obs)
    (ho : s.obs? oid = some o) :
    ∃ o', (s.resume pid orc).1.obs? oid = some o' ∧ obsRank o.status ≤ obsRank o'.status ∧
      o'.duration = o.duration ∧ o'.est = o.est ∧ o'.demand = o.demand := by
  suffices h : ObsMono s (s.resume pid orc).1 from h oid o ho
  cases hp : s.proc? pid with
  | none => rw [resume_none s pid orc hp]; exact ObsMono.refl s
  | some p =>
    cases ha : p.alive with
    | false => rw [resume_dead s pid orc p hp ha]; exact ObsMono.refl s
    | true =>
      by_cases hk : p.k = .monitor
      · exact ObsMono.of_eq (resume_monitor s pid orc p hp ha hk).2.2.2.2.2.1
      · exact ((frame_block s p orc hk).1.obs).congr (preClear_obs s p.k).symm
          (resume_alive s pid orc p hp ha).2.2.2.2.2.1

theorem events_no_loss (s : Sys) (pid : Nat) (orc : Oracle) (p : Proc) (hp : s.proc? pid = some p)
    (hk : p.k ≠ .telescope ∧ p.k ≠ .schedLoop) :
    ∀ e ∈ s.log ++ s.telEvents ++ s.schEvents ++ s.bufEvents,
      e ∈ (s.resume pid orc).1.log ++ (s.resume pid orc).1.telEvents ++
        (s.resume pid orc).1.schEvents ++ (s.resume pid orc).1.bufEvents := by
  cases ha : p.alive with
  | false => rw [resume_dead s pid orc p hp ha]; exact fun e he => he
  | true =>
    by_cases hm : p.k = .monitor
    · obtain ⟨_, h2, h3, h4, h5, _⟩ := resume_monitor s pid orc p hp ha hm
      intro e he
      rw [h2, h3, h4, h5]
      simpa using he
    · obtain ⟨_, h2, h3, h4, h5, _⟩ := resume_alive s pid orc p hp ha
      have hf := (frame_block s p orc hm).1
      have hpc : s.preClear p.k = s := by
        unfold preClear; split <;> simp_all
      rw [hpc] at hf
      intro e he
      rw [h2, h3, h4, h5]
      exact hf.ev_sub e he

theorem events_loop_clear (s : Sys) (pid : Nat) (orc : Oracle) (p : Proc) (hp : s.proc? pid = some p)
    (hk : p.k = .telescope ∨ p.k = .schedLoop) :
    ∀ e ∈ s.log ++ (if p.k = .telescope then [] else s.telEvents) ++
            (if p.k = .schedLoop then [] else s.schEvents) ++ s.bufEvents,
      e ∈ (s.resume pid orc).1.log ++ (s.resume pid orc).1.telEvents ++
        (s.resume pid orc).1.schEvents ++ (s.resume pid orc).1.bufEvents := by
  cases ha : p.alive with
  | false =>
    rw [resume_dead s pid orc p hp ha]
    intro e he
    simp only [List.mem_append] at he ⊢
    rcases he with ((he | he) | he) | he
    · simp [he]
    · split at he
      · simp at he
      · simp [he]
    · split at he
      · simp at he
      · simp [he]
    · simp [he]
  | true =>
    have hm : p.k ≠ .monitor := by rcases hk with hk | hk <;> simp [hk]
    obtain ⟨_, h2, h3, h4, h5, _⟩ := resume_alive s pid orc p hp ha
    have hf := (frame_block s p orc hm).1
    intro e he
    rw [h2, h3, h4, h5]
    apply hf.ev_sub e
    rw [preClear_log, preClear_tel, preClear_sch, preClear_buf]
    exact he

theorem events_stamped (s : Sys) (pid : Nat) (orc : Oracle) (p : Proc) (hp : s.proc? pid = some p)
    (_hint : p.wake = ((natNow p.wake : Nat) : Rat)) :
    ∀ e ∈ (s.resume pid orc).1.log ++ (s.resume pid orc).1.telEvents ++
        (s.resume pid orc).1.schEvents ++ (s.resume pid orc).1.bufEvents,
      e ∉ s.log ++ s.telEvents ++ s.schEvents ++ s.bufEvents → e.time = natNow p.wake := by
  cases ha : p.alive with
  | false => rw [resume_dead s pid orc p hp ha]; exact fun e he hn => absurd he hn
  | true =>
    by_cases hm : p.k = .monitor
    · obtain ⟨_, h2, h3, h4, h5, _⟩ := resume_monitor s pid orc p hp ha hm
      intro e he hn
      rw [h2, h3, h4, h5] at he
      exact absurd (by simpa using he) hn
    · obtain ⟨_, h2, h3, h4, h5, _⟩ := resume_alive s pid orc p hp ha
      have hf := (frame_block s p orc hm).1
      intro e he hn
      rw [h2, h3, h4, h5] at he
      rcases hf.ev_new e he with h | h
      · exact absurd (preClear_ev_sub s p.k e h) hn
      · exact h

/-! ### one row per timestep -/

/-- process 0 is the monitor, alive, has run as many blocks as there are rows and
is due at that time; no other process is a monitor -/
structure RowsInv (s : Sys) : Prop where
  mon : ∃ p, s.proc? 0 = some p ∧ p.k = .monitor ∧ p.alive = true ∧
      s.rows.length = p.pc ∧ p.wake = (p.pc : Rat)
  only : ∀ q ∈ s.procs, q.k = .monitor → q.pid = 0

theorem rowsInv_start (s0 : Sys) (hw : WFConfig s0) : RowsInv s0.start := by
  obtain ⟨h1, h2, _, _, _, _, _, _, _, _, _, h3, _⟩ := hw.fresh
  constructor
  · refine ⟨{ pid := 0, k := .monitor, wake := 0 }, ?_, rfl, rfl, ?_, ?_⟩
    · simp [start, spawn, proc?, h1, h2]
    · simp [start, spawn, h3]
    · simp
  · intro q hq
    simp only [start, spawn, h1, h2, List.foldl_cons, List.foldl_nil, List.nil_append,
      List.cons_append, List.mem_cons, List.not_mem_nil, or_false] at hq
    rcases hq with hq | hq | hq | hq | hq <;> subst hq <;> simp

theorem proc?_mem {s : Sys} {pid : Nat} {p : Proc} (h : s.proc? pid = some p) :
    p ∈ s.procs ∧ p.pid = pid := by
  unfold proc? at h
  exact ⟨List.mem_of_find?_eq_some h, by simpa using List.find?_some h⟩

theorem rowsInv_step (s : Sys) (pid : Nat) (orc : Oracle) (hi : RowsInv s) (he : s.enabled pid) :
    RowsInv (s.resume pid orc).1 := by
  obtain ⟨p, hp, ha, _⟩ := he
  obtain ⟨p0, hp0, hk0, ha0, hr0, hw0⟩ := hi.mon
  obtain ⟨hpm, hpp⟩ := proc?_mem hp
  by_cases hk : p.k = .monitor
  · have hpid : pid = 0 := by rw [← hpp]; exact hi.only p hpm hk
    subst hpid
    have hpe : p0 = p := by rw [hp0] at hp; exact Option.some.inj hp
    subst hpe
    obtain ⟨h1, _, _, _, _, _, h7⟩ := resume_monitor s 0 orc p0 hp ha hk
    constructor
    · refine ⟨{ p0 with k := .monitor, pc := p0.pc + 1, wake := p0.wake + 1 }, ?_, rfl, ha, ?_, ?_⟩
      · have hc : (s.resume 0 orc).1.procs = (s.updProc 0 (fun q =>
            { q with k := .monitor, pc := q.pc + 1, wake := p0.wake + 1 })).procs := h7
        rw [proc?_congr hc, updProc_proc?, if_pos rfl, hp]
        · rfl
        · intro _; rfl
      · rw [h1]; simp [hr0]
      · simp only [hw0]; simp
    · intro q hq hqk
      rw [h7] at hq
      obtain ⟨q0, hq0, rfl⟩ := List.mem_map.mp hq
      split
      · assumption
      · rename_i hne
        simp only [hne, if_false] at hqk
        exact absurd (hi.only q0 hq0 hqk) hne
  · have hpid : pid ≠ 0 := by
      intro e
      subst e
      rw [hp0] at hp
      exact hk (Option.some.inj hp ▸ hk0)
    obtain ⟨h1, _, _, _, _, _, h7⟩ := resume_alive s pid orc p hp ha
    obtain ⟨hf, hbk⟩ := frame_block s p orc hk
    obtain ⟨l, hl, hlk⟩ := hf.procs
    rw [preClear_procs] at hl
    have hrows := hf.rows
    rw [preClear_rows] at hrows
    constructor
    · refine ⟨p0, ?_, hk0, ha0, ?_, hw0⟩
      · have hc : (s.resume pid orc).1.procs = ((s.block p orc).1.updProc pid
            (afterBlock p (s.block p orc).2.1 (s.block p orc).2.2)).procs := h7
        rw [proc?_congr hc, updProc_proc?, if_neg (fun e => hpid e.symm)]
        · unfold proc? at hp0 ⊢
          rw [hl, List.find?_append, hp0]
          rfl
        · intro _; exact afterBlock_pid _ _ _ _
      · rw [h1, hrows]; exact hr0
    · intro q hq hqk
      rw [h7] at hq
      obtain ⟨q0, hq0, rfl⟩ := List.mem_map.mp hq
      by_cases hqp : q0.pid = pid
      · simp only [hqp, if_true, afterBlock_k] at hqk
        exact absurd hqk hbk
      · simp only [hqp, if_false] at hqk ⊢
        rw [hl] at hq0
        rcases List.mem_append.mp hq0 with hq0 | hq0
        · exact hi.only q0 hq0 hqk
        · exact absurd hqk (hlk q0 hq0)

theorem reach_rows_count (s0 s : Sys) (hw : WFConfig s0) (h : Reach s0 s) :
    ∃ p, s.proc? 0 = some p ∧ p.k = .monitor ∧ p.alive = true ∧
      s.rows.length = p.pc ∧ p.wake = (p.pc : Rat) := by
  suffices hi : RowsInv s from hi.mon
  induction h with
  | start => exact rowsInv_start s0 hw
  | step s pid orc _ he ih => exact rowsInv_step s pid orc ih he

end Sys
end Topsim
