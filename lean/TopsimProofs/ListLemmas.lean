/-
  Helper lemmas on lists and association lists used by the invariant proofs.
-/
import TopsimModel.Basic

namespace Topsim

theorem count_erase_of_mem {α} [DecidableEq α] (l : List α) (a b : α) (h : a ∈ l) :
    (l.erase a).count b = if b = a then l.count b - 1 else l.count b := by
  by_cases hb : b = a
  · subst hb; simp [List.count_erase_self]
  · simp [hb, List.count_erase_of_ne hb]

theorem count_pos_of_mem {α} [DecidableEq α] {l : List α} {a : α} (h : a ∈ l) : 0 < l.count a :=
  List.count_pos_iff.mpr h

/-- flattening the values of a dict after replacing the value of key `k` -/
theorem count_flatten_dictSet {κ α} [DecidableEq κ] [DecidableEq α] (d : List (κ × List α)) (k : κ)
    (l l' : List α) (m : α) (hk : dictGet d k = some l) :
    ((dictSet d k l').map (·.2)).flatten.count m + l.count m
      = ((d.map (·.2)).flatten).count m + l'.count m := by
  induction d with
  | nil => simp [dictGet] at hk
  | cons p r ih =>
    obtain ⟨k', v'⟩ := p
    by_cases h : k' = k
    · subst h
      simp [dictGet] at hk
      subst hk
      simp [dictSet, List.count_append]; omega
    · simp [dictGet, h] at hk
      have := ih hk
      simp [dictSet, h, List.count_append]; omega

theorem dictGet_some_mem {κ α} [DecidableEq κ] {d : List (κ × α)} {k : κ} {v : α}
    (h : dictGet d k = some v) : (k, v) ∈ d := by
  induction d with
  | nil => simp [dictGet] at h
  | cons p r ih =>
    obtain ⟨k', v'⟩ := p
    by_cases hk : k' = k
    · subst hk; simp [dictGet] at h; subst h; simp
    · simp [dictGet, hk] at h; exact List.mem_cons_of_mem _ (ih h)

@[simp] theorem dictKeys_nil {κ α} : dictKeys ([] : List (κ × α)) = [] := rfl
@[simp] theorem dictKeys_cons {κ α} (p : κ × α) (r : List (κ × α)) : dictKeys (p :: r) = p.1 :: dictKeys r := rfl

theorem dictGet_none_iff {κ α} [DecidableEq κ] (d : List (κ × α)) (k : κ) :
    dictGet d k = none ↔ k ∉ dictKeys d := by
  induction d with
  | nil => simp [dictGet]
  | cons p r ih =>
    obtain ⟨k', v'⟩ := p
    by_cases hk : k' = k
    · subst hk; simp [dictGet]
    · simp only [dictGet, hk, if_false, dictKeys_cons, List.mem_cons, not_or]
      constructor
      · intro h; exact ⟨fun e => hk e.symm, ih.mp h⟩
      · intro h; exact ih.mpr h.2

theorem dictKeys_dictSet_of_mem {κ α} [DecidableEq κ] (d : List (κ × α)) (k : κ) (v : α)
    (h : k ∈ dictKeys d) : dictKeys (dictSet d k v) = dictKeys d := by
  induction d with
  | nil => simp at h
  | cons p r ih =>
    obtain ⟨k', v'⟩ := p
    by_cases hk : k' = k
    · subst hk; simp [dictSet]
    · simp only [dictKeys_cons, List.mem_cons] at h
      have h' : k ∈ dictKeys r := by
        rcases h with h | h
        · exact absurd h.symm hk
        · exact h
      simp [dictSet, hk, ih h']

theorem dictKeys_dictSet_of_not_mem {κ α} [DecidableEq κ] (d : List (κ × α)) (k : κ) (v : α)
    (h : k ∉ dictKeys d) : dictKeys (dictSet d k v) = dictKeys d ++ [k] := by
  induction d with
  | nil => simp [dictSet]
  | cons p r ih =>
    obtain ⟨k', v'⟩ := p
    simp only [dictKeys_cons, List.mem_cons, not_or] at h
    have hk : ¬ k' = k := fun e => h.1 e.symm
    simp [dictSet, hk, ih h.2]

theorem dictGet_dictSet {κ α} [DecidableEq κ] (d : List (κ × α)) (k k' : κ) (v : α) :
    dictGet (dictSet d k v) k' = if k = k' then some v else dictGet d k' := by
  induction d with
  | nil => simp [dictSet, dictGet]
  | cons p r ih =>
    obtain ⟨k0, v0⟩ := p
    by_cases h : k0 = k
    · subst h; by_cases h2 : k0 = k' <;> simp [dictSet, dictGet, h2]
    · by_cases h2 : k0 = k'
      · subst h2; simp [dictSet, dictGet, h]; intro e; exact absurd e.symm h
      · simp [dictSet, dictGet, h, h2, ih]

theorem mem_dictKeys_dictSet {κ α} [DecidableEq κ] (d : List (κ × α)) (k t : κ) (v : α)
    (h : t ∈ dictKeys (dictSet d k v)) : t = k ∨ t ∈ dictKeys d := by
  by_cases hk : k ∈ dictKeys d
  · rw [dictKeys_dictSet_of_mem d k v hk] at h; exact Or.inr h
  · rw [dictKeys_dictSet_of_not_mem d k v hk] at h
    simp at h; rcases h with h | h
    · exact Or.inr h
    · exact Or.inl h

theorem dictKeys_nodup_dictSet {κ α} [DecidableEq κ] (d : List (κ × α)) (k : κ) (v : α)
    (h : (dictKeys d).Nodup) : (dictKeys (dictSet d k v)).Nodup := by
  by_cases hk : k ∈ dictKeys d
  · rw [dictKeys_dictSet_of_mem d k v hk]; exact h
  · rw [dictKeys_dictSet_of_not_mem d k v hk]
    rw [List.nodup_append]; simp; exact ⟨h, fun a ha e => hk (e ▸ ha)⟩

/-- number of `true` entries after an assignment -/
theorem filter_dictSet_length {κ} [DecidableEq κ] (d : List (κ × Bool)) (k : κ) (v : Bool) :
    ((dictSet d k v).filter (·.2)).length + (if dictGet d k = some true then 1 else 0)
      = (d.filter (·.2)).length + (if v then 1 else 0) := by
  induction d with
  | nil => cases v <;> simp [dictSet, dictGet]
  | cons p r ih =>
    obtain ⟨k0, v0⟩ := p
    by_cases h : k0 = k
    · subst h; cases v <;> cases v0 <;> simp [dictSet, dictGet]
    · cases v0 <;> simp [dictSet, dictGet, h] <;> omega

theorem count_flatten_dictErase {κ α} [DecidableEq κ] [DecidableEq α] (d : List (κ × List α)) (k : κ)
    (l : List α) (m : α) (hk : dictGet d k = some l) :
    ((dictErase d k).map (·.2)).flatten.count m + l.count m = ((d.map (·.2)).flatten).count m := by
  induction d with
  | nil => simp [dictGet] at hk
  | cons p r ih =>
    obtain ⟨k', v'⟩ := p
    by_cases h : k' = k
    · subst h
      simp [dictGet] at hk
      subst hk
      simp [dictErase, List.count_append]; omega
    · simp [dictGet, h] at hk
      have := ih hk
      simp [dictErase, h, List.count_append]; omega

theorem dictKeys_dictErase_sublist {κ α} [DecidableEq κ] (d : List (κ × α)) (k : κ) :
    (dictKeys (dictErase d k)).Sublist (dictKeys d) := by
  induction d with
  | nil => simp [dictErase]
  | cons p r ih =>
    obtain ⟨k', v'⟩ := p
    by_cases h : k' = k
    · simp [dictErase, h]
    · simp [dictErase, h, ih]

theorem count_flatten_two {κ α} [DecidableEq κ] [DecidableEq α] (d : List (κ × List α)) (k₁ k₂ : κ)
    (l₁ l₂ : List α) (m : α) (h₁ : dictGet d k₁ = some l₁) (h₂ : dictGet d k₂ = some l₂)
    (hne : k₁ ≠ k₂) : l₁.count m + l₂.count m ≤ ((d.map (·.2)).flatten).count m := by
  have := count_flatten_dictErase d k₁ l₁ m h₁
  have h3 : dictGet (dictErase d k₁) k₂ = some l₂ := by
    clear this
    induction d with
    | nil => simp [dictGet] at h₂
    | cons p r ih =>
      obtain ⟨k', v'⟩ := p
      by_cases h : k' = k₁
      · subst h; simp [dictGet, hne] at h₂; simp [dictErase, h₂]
      · by_cases h' : k' = k₂
        · subst h'; simp [dictGet] at h₂; simp [dictErase, h, dictGet, h₂]
        · simp [dictGet, h, h'] at h₁ h₂; simp [dictErase, dictGet, h, h', ih h₁ h₂]
  have h4 : l₂.count m ≤ (((dictErase d k₁).map (·.2)).flatten).count m := by
    have := dictGet_some_mem h3
    apply List.Sublist.count_le
    apply List.sublist_flatten_of_mem
    exact List.mem_map.mpr ⟨_, this, rfl⟩
  omega

theorem dictGet_append_new {κ α} [DecidableEq κ] (d : List (κ × α)) (k k' : κ) (v : α) :
    dictGet (d ++ [(k, v)]) k' = match dictGet d k' with
      | some x => some x
      | none => if k = k' then some v else none := by
  induction d with
  | nil => simp [dictGet]
  | cons p r ih =>
    obtain ⟨k0, v0⟩ := p
    by_cases h : k0 = k' <;> simp [dictGet, h, ih]

/-- erasing an element whose key is unique commutes with mapping the key -/
theorem map_erase_of_nodup {α β} [DecidableEq α] [DecidableEq β] (f : α → β) (l : List α) (e : α)
    (he : e ∈ l) (hn : (l.map f).Nodup) : (l.erase e).map f = (l.map f).erase (f e) := by
  induction l with
  | nil => simp at he
  | cons a r ih =>
    by_cases h : a = e
    · subst h; simp
    · have he' : e ∈ r := by simpa [Ne.symm h] using he
      have hfa : f a ≠ f e := by
        intro hh
        simp only [List.map_cons, List.nodup_cons] at hn
        exact hn.1 (hh ▸ List.mem_map_of_mem he')
      simp only [List.map_cons, List.nodup_cons] at hn
      rw [List.erase_cons_tail (by simpa using h), List.map_cons, List.map_cons,
        List.erase_cons_tail (by simpa using hfa), ih he' hn.2]

theorem count_filter_map_erase {α β} [DecidableEq α] [DecidableEq β] (f : α → β) (p : α → Bool)
    (l : List α) (e : α) (he : e ∈ l) (b : β) :
    (((l.erase e).filter p).map f).count b + (if p e = true ∧ f e = b then 1 else 0)
      = ((l.filter p).map f).count b := by
  have h := ((List.perm_cons_erase he).filter p).map f
  rw [h.count_eq b]
  by_cases hp : p e = true
  · by_cases hb : f e = b
    · simp [hp, hb]
    · simp [hp, hb]
  · simp [hp]

theorem length_filter_erase {α} [DecidableEq α] (p : α → Bool)
    (l : List α) (e : α) (he : e ∈ l) :
    ((l.erase e).filter p).length + (if p e = true then 1 else 0) = (l.filter p).length := by
  have h := ((List.perm_cons_erase he).filter p)
  rw [h.length_eq]
  by_cases hp : p e = true <;> simp [hp]

theorem count_map_split {α β} [DecidableEq β] (f : α → β) (p : α → Bool) (l : List α) (b : β) :
    (l.map f).count b = ((l.filter p).map f).count b + ((l.filter (fun x => !p x)).map f).count b := by
  induction l with
  | nil => simp
  | cons a r ih =>
    cases hp : p a <;> simp [hp, List.count_cons, ih] <;> omega

theorem length_eq_of_count_eq {α} [DecidableEq α] {l₁ l₂ : List α}
    (h : ∀ a, l₁.count a = l₂.count a) : l₁.length = l₂.length :=
  (List.perm_iff_count.mpr h).length_eq

theorem count_append_singleton {α} [DecidableEq α] (l : List α) (a b : α) :
    (l ++ [a]).count b = l.count b + if b = a then 1 else 0 := by
  by_cases h : b = a
  · subst h; simp
  · have : ¬ (a == b) = true := by simpa using fun e => h e.symm
    simp [h, List.count_cons, this]

theorem nodup_map_of_inj {α β} (f : α → β) (hf : ∀ a b, f a = f b → a = b) {l : List α}
    (h : l.Nodup) : (l.map f).Nodup := by
  unfold List.Nodup at *
  rw [List.pairwise_map]
  exact h.imp (fun hne e => hne (hf _ _ e))

theorem count_map_erase {α β} [DecidableEq α] [DecidableEq β] (f : α → β)
    (l : List α) (e : α) (he : e ∈ l) (b : β) :
    ((l.erase e).map f).count b + (if f e = b then 1 else 0) = (l.map f).count b := by
  have h := (List.perm_cons_erase he).map f
  rw [h.count_eq b]
  by_cases hb : f e = b <;> simp [hb]

theorem mem_erase_map_ne {α β} [DecidableEq α] [DecidableEq β] (f : α → β) (l : List α) (e x : α)
    (he : e ∈ l) (hn : (l.map f).Nodup) (hx : x ∈ l.erase e) : f x ≠ f e := by
  have : f x ∈ (l.erase e).map f := List.mem_map_of_mem hx
  rw [map_erase_of_nodup f l e he hn] at this
  exact ((List.Nodup.mem_erase_iff hn).mp this).1

theorem nodup_map_erase {α β} [DecidableEq α] (f : α → β) (l : List α) (e : α)
    (hn : (l.map f).Nodup) : ((l.erase e).map f).Nodup :=
  (List.erase_sublist.map f).nodup hn

theorem length_filter_bool_split {α} (f : α → Bool) (l : List α) :
    (l.filter (fun x => f x == true)).length + (l.filter (fun x => f x == false)).length = l.length := by
  induction l with
  | nil => rfl
  | cons a r ih =>
    cases h : f a <;> simp only [List.filter_cons, h, beq_iff_eq, Bool.false_eq_true, Bool.true_eq_false,
      if_true, if_false, List.length_cons] <;> omega

end Topsim
