/-
  TopsimProofs.TierLemmas — lemmas about the hot/cold tier moves of the buffer
  model cited by TopsimProps.C18.
-/
import TopsimModel.Buffer

namespace Topsim
namespace Buffer

/-! ### arithmetic of one step -/

/-- when the two residuals agree, what the receiver takes is what the sender gives -/
theorem amounts_agree (rate left sz : Int)
    (h : (recvAmount rate left sz).2 = (sendAmount rate left sz).2) :
    (recvAmount rate left sz).1 = (sendAmount rate left sz).1 := by
  unfold recvAmount sendAmount at *
  repeat' split at h
  all_goals (repeat' split)
  all_goals simp at *
  all_goals omega

theorem sendAmount_pos (rate left sz : Int) (hr : 0 < rate) :
    sendAmount rate left sz = (min left rate, left - min left rate) := by
  unfold sendAmount
  have h1 : ¬ rate < 0 := by omega
  rw [if_neg h1]
  split
  · rw [Int.min_eq_left (by omega)]; simp
  · rw [Int.min_eq_right (by omega)]

/-! ### projections of one hot→cold step -/

theorem h2c_step_hot_cur (b : Buffer) (o : Oid) (left : Int) :
    (b.hot2coldStep o left).1.hot.cur =
      b.hot.cur + (sendAmount b.moveRate left (b.sizeOf o)).1 := by
  unfold hot2coldStep
  simp only
  repeat' split
  all_goals simp

theorem h2c_step_cold_cur (b : Buffer) (o : Oid) (left : Int) :
    (b.hot2coldStep o left).1.cold.cur =
      b.cold.cur - (recvAmount b.moveRate left (b.sizeOf o)).1 := by
  unfold hot2coldStep
  simp only
  repeat' split
  all_goals simp

theorem h2c_step_ok (b : Buffer) (o : Oid) (left left' : Int)
    (h : (b.hot2coldStep o left).2 = .ok left') :
    (recvAmount b.moveRate left (b.sizeOf o)).2 = left' ∧
    (sendAmount b.moveRate left (b.sizeOf o)).2 = left' := by
  unfold hot2coldStep at h
  simp only at h
  split at h
  · cases h
  · rename_i hc
    simp only [Except.ok.injEq] at h
    simp only [ne_eq, Decidable.not_not] at hc
    exact ⟨hc.trans h, h⟩

theorem h2c_step_conserves (b b' : Buffer) (o : Oid) (left left' : Int)
    (h : b.hot2coldStep o left = (b', .ok left')) :
    b'.hot.cur + b'.cold.cur = b.hot.cur + b.cold.cur := by
  have hb : (b.hot2coldStep o left).1 = b' := by rw [h]
  have hr : (b.hot2coldStep o left).2 = .ok left' := by rw [h]
  obtain ⟨h1, h2⟩ := h2c_step_ok b o left left' hr
  have hag := amounts_agree b.moveRate left (b.sizeOf o) (h1.trans h2.symm)
  rw [← hb, h2c_step_hot_cur, h2c_step_cold_cur, hag]
  omega

theorem h2c_step_amount (b b' : Buffer) (o : Oid) (left left' : Int)
    (hr : 0 < b.moveRate) (_hl : 0 < left)
    (h : b.hot2coldStep o left = (b', .ok left')) :
    b.moveRate = min b.hot.maxRate b.cold.maxRate ∧
    left - left' = min left b.moveRate ∧ b'.hot.cur = b.hot.cur + min left b.moveRate := by
  have hb : (b.hot2coldStep o left).1 = b' := by rw [h]
  have hok : (b.hot2coldStep o left).2 = .ok left' := by rw [h]
  obtain ⟨_, h2⟩ := h2c_step_ok b o left left' hok
  rw [sendAmount_pos _ _ _ hr] at h2
  simp only at h2
  refine ⟨rfl, by omega, ?_⟩
  rw [← hb, h2c_step_hot_cur, sendAmount_pos _ _ _ hr]

/-! ### projections of one cold→hot step -/

theorem c2h_step_cold_cur (b : Buffer) (o : Oid) (left : Int) :
    (b.cold2hotStep o left).1.cold.cur =
      b.cold.cur + (sendAmount b.moveRate left (b.sizeOf o)).1 := by
  unfold cold2hotStep
  simp only
  repeat' split
  all_goals simp

theorem c2h_step_hot_cur (b : Buffer) (o : Oid) (left : Int) :
    (b.cold2hotStep o left).1.hot.cur =
      b.hot.cur - (recvAmount b.moveRate left (b.sizeOf o)).1 := by
  unfold cold2hotStep
  simp only
  repeat' split
  all_goals simp

theorem c2h_step_ok (b : Buffer) (o : Oid) (left left' : Int)
    (h : (b.cold2hotStep o left).2 = .ok left') :
    (recvAmount b.moveRate left (b.sizeOf o)).2 = left' ∧
    (sendAmount b.moveRate left (b.sizeOf o)).2 = left' := by
  unfold cold2hotStep at h
  simp only at h
  split at h
  · cases h
  · rename_i hc
    simp only [Except.ok.injEq] at h
    simp only [ne_eq, Decidable.not_not] at hc
    exact ⟨hc.trans h, h⟩

theorem c2h_step_conserves (b b' : Buffer) (o : Oid) (left left' : Int)
    (h : b.cold2hotStep o left = (b', .ok left')) :
    b'.hot.cur + b'.cold.cur = b.hot.cur + b.cold.cur := by
  have hb : (b.cold2hotStep o left).1 = b' := by rw [h]
  have hr : (b.cold2hotStep o left).2 = .ok left' := by rw [h]
  obtain ⟨h1, h2⟩ := c2h_step_ok b o left left' hr
  have hag := amounts_agree b.moveRate left (b.sizeOf o) (h1.trans h2.symm)
  rw [← hb, c2h_step_hot_cur, c2h_step_cold_cur, hag]
  omega

/-! ### the two shapes of a step at a positive rate -/

/-- the last step (`left ≤ rate`): everything that is left moves, the
observation is stored in the cold tier and both transfer slots are cleared -/
theorem h2c_step_last (b : Buffer) (o : Oid) (left : Int)
    (hr : 0 < b.moveRate) (_hl : 0 < left) (hle : left ≤ b.moveRate) :
    ∃ b', b.hot2coldStep o left = (b', .ok 0) ∧
      b'.hot.cur = b.hot.cur + left ∧ b'.cold.cur = b.cold.cur - left ∧
      b'.cold.stored = b.cold.stored ++ [o] ∧ b'.hot.stored = b.hot.stored ∧
      b'.hot.transfer = none ∧ b'.cold.transfer = none := by
  have h1 : ¬ b.moveRate < 0 := by omega
  rcases Int.lt_or_eq_of_le hle with hlt | heq
  · simp [hot2coldStep, recvAmount, sendAmount, hr, hlt, h1]
    split <;> simp
  · subst heq
    simp [hot2coldStep, recvAmount, sendAmount, hr, h1]
    split <;> simp

/-- any earlier step (`rate < left`): exactly `rate` moves, the lists and the
rates are untouched -/
theorem h2c_step_mid (b : Buffer) (o : Oid) (left : Int)
    (hr : 0 < b.moveRate) (hgt : b.moveRate < left) :
    ∃ b', b.hot2coldStep o left = (b', .ok (left - b.moveRate)) ∧
      b'.hot.cur = b.hot.cur + b.moveRate ∧ b'.cold.cur = b.cold.cur - b.moveRate ∧
      b'.cold.stored = b.cold.stored ∧ b'.hot.stored = b.hot.stored ∧
      b'.moveRate = b.moveRate := by
  have h1 : ¬ b.moveRate < 0 := by omega
  have h2 : ¬ left < b.moveRate := by omega
  have h3 : ¬ (left - b.moveRate = 0) := by omega
  simp [hot2coldStep, recvAmount, sendAmount, hr, h1, h2, h3]
  split <;> simp [moveRate]

theorem c2h_step_last (b : Buffer) (o : Oid) (left : Int)
    (hr : 0 < b.moveRate) (_hl : 0 < left) (hle : left ≤ b.moveRate) :
    ∃ b', b.cold2hotStep o left = (b', .ok 0) ∧
      b'.cold.cur = b.cold.cur + left ∧ b'.hot.cur = b.hot.cur - left ∧
      b'.hot.stored = b.hot.stored ++ [o] ∧ b'.cold.stored = b.cold.stored ∧
      b'.hot.transfer = none ∧ b'.cold.transfer = none := by
  have h1 : ¬ b.moveRate < 0 := by omega
  rcases Int.lt_or_eq_of_le hle with hlt | heq
  · simp [cold2hotStep, recvAmount, sendAmount, hr, hlt, h1]
    split <;> simp
  · subst heq
    simp [cold2hotStep, recvAmount, sendAmount, hr, h1]
    split <;> simp

theorem c2h_step_mid (b : Buffer) (o : Oid) (left : Int)
    (hr : 0 < b.moveRate) (hgt : b.moveRate < left) :
    ∃ b', b.cold2hotStep o left = (b', .ok (left - b.moveRate)) ∧
      b'.cold.cur = b.cold.cur + b.moveRate ∧ b'.hot.cur = b.hot.cur - b.moveRate ∧
      b'.hot.stored = b.hot.stored ∧ b'.cold.stored = b.cold.stored ∧
      b'.moveRate = b.moveRate := by
  have h1 : ¬ b.moveRate < 0 := by omega
  have h2 : ¬ left < b.moveRate := by omega
  have h3 : ¬ (left - b.moveRate = 0) := by omega
  simp [cold2hotStep, recvAmount, sendAmount, hr, h1, h2, h3]
  split <;> simp [moveRate]

/-! ### ⌈left / rate⌉ -/

theorem ceil_last (left rate : Int) (hl : 0 < left) (hle : left ≤ rate) :
    (left + rate - 1) / rate = 1 := by
  have hne : rate ≠ 0 := by omega
  have e : left + rate - 1 = (left - 1) + 1 * rate := by omega
  rw [e, Int.add_mul_ediv_right _ _ hne, Int.ediv_eq_zero_of_lt (by omega) (by omega)]
  rfl

theorem ceil_mid (left rate : Int) (hr : 0 < rate) :
    (left + rate - 1) / rate = (left - rate + rate - 1) / rate + 1 := by
  have hne : rate ≠ 0 := by omega
  have e : left + rate - 1 = (left - rate + rate - 1) + 1 * rate := by omega
  rw [e, Int.add_mul_ediv_right _ _ hne]

theorem ceil_nonneg (left rate : Int) (hr : 0 < rate) (hl : 0 < left) :
    0 ≤ (left + rate - 1) / rate :=
  Int.ediv_nonneg (by omega) (by omega)

/-! ### whole runs -/

theorem h2c_run (o : Oid) : ∀ (fuel : Nat) (b : Buffer) (left : Int) (steps : Nat),
    0 < b.moveRate → 0 < left →
    ((left + b.moveRate - 1) / b.moveRate).toNat < fuel →
    ∃ b', hot2coldRun fuel b o left steps =
        (b', .ok (steps + ((left + b.moveRate - 1) / b.moveRate).toNat)) ∧
      b'.hot.cur = b.hot.cur + left ∧ b'.cold.cur = b.cold.cur - left ∧
      b'.cold.stored = b.cold.stored ++ [o] ∧ b'.hot.stored = b.hot.stored ∧
      b'.hot.transfer = none ∧ b'.cold.transfer = none := by
  intro fuel
  induction fuel with
  | zero => intro b left steps _ _ hf; omega
  | succ fuel ih =>
    intro b left steps hr hl hf
    have hnle : ¬ left ≤ 0 := by omega
    by_cases hle : left ≤ b.moveRate
    · obtain ⟨b1, hstep, hh, hc, hcs, hhs, hht, hct⟩ := h2c_step_last b o left hr hl hle
      have hceil := ceil_last left b.moveRate hl hle
      rw [hceil] at hf ⊢
      have hf1 : 1 < fuel + 1 := hf
      obtain ⟨f, rfl⟩ : ∃ f, fuel = f + 1 := ⟨fuel - 1, by omega⟩
      refine ⟨b1, ?_, hh, hc, hcs, hhs, hht, hct⟩
      rw [hot2coldRun, if_neg hnle, hstep]
      simp only
      rw [hot2coldRun, if_pos (Int.le_refl 0)]
      rfl
    · have hgt : b.moveRate < left := by omega
      obtain ⟨b1, hstep, hh, hc, hcs, hhs, hmr⟩ := h2c_step_mid b o left hr hgt
      have hceil := ceil_mid left b.moveRate hr
      have hnn := ceil_nonneg (left - b.moveRate) b.moveRate hr (by omega)
      have hf' : ((left - b.moveRate + b1.moveRate - 1) / b1.moveRate).toNat < fuel := by
        rw [hmr]; omega
      obtain ⟨b2, hrun, hh2, hc2, hcs2, hhs2, hht2, hct2⟩ :=
        ih b1 (left - b.moveRate) (steps + 1) (by rw [hmr]; exact hr) (by omega) hf'
      refine ⟨b2, ?_, by omega, by omega, by rw [hcs2, hcs], by rw [hhs2, hhs], hht2, hct2⟩
      rw [hot2coldRun, if_neg hnle, hstep]
      simp only
      rw [hrun, hmr]
      have : steps + 1 + ((left - b.moveRate + b.moveRate - 1) / b.moveRate).toNat
          = steps + ((left + b.moveRate - 1) / b.moveRate).toNat := by
        rw [hceil]; omega
      rw [this]

theorem c2h_run (o : Oid) : ∀ (fuel : Nat) (b : Buffer) (left : Int) (steps : Nat),
    0 < b.moveRate → 0 < left →
    ((left + b.moveRate - 1) / b.moveRate).toNat < fuel →
    ∃ b', cold2hotRun fuel b o left steps =
        (b', .ok (steps + ((left + b.moveRate - 1) / b.moveRate).toNat)) ∧
      b'.cold.cur = b.cold.cur + left ∧ b'.hot.cur = b.hot.cur - left ∧
      b'.hot.stored = b.hot.stored ++ [o] ∧ b'.cold.stored = b.cold.stored ∧
      b'.hot.transfer = none ∧ b'.cold.transfer = none := by
  intro fuel
  induction fuel with
  | zero => intro b left steps _ _ hf; omega
  | succ fuel ih =>
    intro b left steps hr hl hf
    have hnle : ¬ left ≤ 0 := by omega
    by_cases hle : left ≤ b.moveRate
    · obtain ⟨b1, hstep, hh, hc, hcs, hhs, hht, hct⟩ := c2h_step_last b o left hr hl hle
      have hceil := ceil_last left b.moveRate hl hle
      rw [hceil] at hf ⊢
      have hf1 : 1 < fuel + 1 := hf
      obtain ⟨f, rfl⟩ : ∃ f, fuel = f + 1 := ⟨fuel - 1, by omega⟩
      refine ⟨b1, ?_, hh, hc, hcs, hhs, hht, hct⟩
      rw [cold2hotRun, if_neg hnle, hstep]
      simp only
      rw [cold2hotRun, if_pos (Int.le_refl 0)]
      rfl
    · have hgt : b.moveRate < left := by omega
      obtain ⟨b1, hstep, hh, hc, hcs, hhs, hmr⟩ := c2h_step_mid b o left hr hgt
      have hceil := ceil_mid left b.moveRate hr
      have hnn := ceil_nonneg (left - b.moveRate) b.moveRate hr (by omega)
      have hf' : ((left - b.moveRate + b1.moveRate - 1) / b1.moveRate).toNat < fuel := by
        rw [hmr]; omega
      obtain ⟨b2, hrun, hh2, hc2, hcs2, hhs2, hht2, hct2⟩ :=
        ih b1 (left - b.moveRate) (steps + 1) (by rw [hmr]; exact hr) (by omega) hf'
      refine ⟨b2, ?_, by omega, by omega, by rw [hcs2, hcs], by rw [hhs2, hhs], hht2, hct2⟩
      rw [cold2hotRun, if_neg hnle, hstep]
      simp only
      rw [hrun, hmr]
      have : steps + 1 + ((left - b.moveRate + b.moveRate - 1) / b.moveRate).toNat
          = steps + ((left + b.moveRate - 1) / b.moveRate).toNat := by
        rw [hceil]; omega
      rw [this]

theorem h2c_completes (b : Buffer) (o : Oid) (size : Int) (fuel : Nat)
    (hr : 0 < b.moveRate) (hs : 0 < size) (_hsz : b.sizeOf o = size)
    (hfuel : ((size + b.moveRate - 1) / b.moveRate).toNat < fuel)
    (_ht : b.hot.transfer = some o) :
    ∃ b', hot2coldRun fuel b o size 0 = (b', .ok ((size + b.moveRate - 1) / b.moveRate).toNat) ∧
      b'.hot.cur = b.hot.cur + size ∧ b'.cold.cur = b.cold.cur - size ∧
      b'.cold.stored = b.cold.stored ++ [o] ∧ b'.hot.stored = b.hot.stored ∧
      b'.hot.transfer = none ∧ b'.cold.transfer = none := by
  have := h2c_run o fuel b size 0 hr hs hfuel
  simpa using this

theorem c2h_completes (b : Buffer) (o : Oid) (size : Int) (fuel : Nat)
    (hr : 0 < b.moveRate) (hs : 0 < size) (_hsz : b.sizeOf o = size)
    (hfuel : ((size + b.moveRate - 1) / b.moveRate).toNat < fuel)
    (_ht : b.cold.transfer = some o) :
    ∃ b', cold2hotRun fuel b o size 0 = (b', .ok ((size + b.moveRate - 1) / b.moveRate).toNat) ∧
      b'.cold.cur = b.cold.cur + size ∧ b'.hot.cur = b.hot.cur - size ∧
      b'.hot.stored = b.hot.stored ++ [o] ∧ b'.cold.stored = b.cold.stored ∧
      b'.hot.transfer = none ∧ b'.cold.transfer = none := by
  have := c2h_run o fuel b size 0 hr hs hfuel
  simpa using this

/-! ### the first block of a move -/

theorem dropLast_append_of_getLast? {α} {l : List α} {o : α} (h : l.getLast? = some o) :
    l.dropLast ++ [o] = l := by
  have hne : l ≠ [] := by intro e; subst e; simp at h
  have h2 : l.getLast hne = o := by
    rw [List.getLast?_eq_some_getLast hne] at h
    exact Option.some.inj h
  rw [← h2]
  exact List.dropLast_concat_getLast hne

/-- general form of a refused hot→cold move: everything is as it was, except
that the hot tier's transfer slot is cleared (whatever it held before) -/
theorem h2c_refused_general (b b' : Buffer) (h : b.hot2coldBegin = (b', .ok none)) :
    b'.hot = { b.hot with transfer := none } ∧ b'.cold = b.cold ∧ b'.size = b.size := by
  unfold hot2coldBegin at h
  split at h
  · cases h
  · rename_i o ho
    simp only at h
    split at h
    · injection h with h1 h2
      subst h1
      simp [dropLast_append_of_getLast? ho]
    · injection h with h1 h2
      cases h2

/-- a refused hot→cold move that found the hot transfer slot free leaves both
tiers exactly as they were -/
theorem h2c_refused (b b' : Buffer) (ht : b.hot.transfer = none)
    (h : b.hot2coldBegin = (b', .ok none)) :
    b'.hot = b.hot ∧ b'.cold = b.cold ∧ b'.size = b.size := by
  obtain ⟨h1, h2, h3⟩ := h2c_refused_general b b' h
  refine ⟨?_, h2, h3⟩
  rw [h1, ← ht]

theorem c2h_refused_general (b b' : Buffer) (h : b.cold2hotBegin = (b', .ok none)) :
    b'.hot = b.hot ∧ b'.cold = { b.cold with transfer := none } ∧ b'.size = b.size ∧
    b'.dltt = b.dltt := by
  unfold cold2hotBegin at h
  split at h
  · cases h
  · rename_i o ho
    simp only at h
    split at h
    · injection h with h1 h2
      subst h1
      simp [dropLast_append_of_getLast? ho]
    · injection h with h1 h2
      cases h2

theorem c2h_refused (b b' : Buffer) (ht : b.cold.transfer = none)
    (h : b.cold2hotBegin = (b', .ok none)) :
    b'.hot = b.hot ∧ b'.cold = b.cold ∧ b'.size = b.size ∧ b'.dltt = b.dltt := by
  obtain ⟨h1, h2, h3, h4⟩ := c2h_refused_general b b' h
  refine ⟨h1, ?_, h3, h4⟩
  rw [h2, ← ht]

/-- the statements as first written (without the free-slot hypothesis) are false -/
theorem h2c_refused_unconditional_false :
    ¬ (∀ (b b' : Buffer), b.hot2coldBegin = (b', .ok none) →
        b'.hot = b.hot ∧ b'.cold = b.cold ∧ b'.size = b.size) := by
  intro h
  let cx : Buffer := { (init 100 2 5 5) with
    hot := { (init 100 2 5 5).hot with cur := 90, stored := [7], transfer := some 3 },
    size := [(7, 10)] }
  have := (h cx _ rfl).1
  revert this
  decide

theorem c2h_refused_unconditional_false :
    ¬ (∀ (b b' : Buffer), b.cold2hotBegin = (b', .ok none) →
        b'.hot = b.hot ∧ b'.cold = b.cold ∧ b'.size = b.size ∧ b'.dltt = b.dltt) := by
  intro h
  let cy : Buffer := { (init 100 2 100 5) with
    hot := { (init 100 2 100 5).hot with cur := 5 },
    cold := { (init 100 2 100 5).cold with cur := 90, stored := [7], transfer := some 3 },
    size := [(7, 10)] }
  have := (h cy _ rfl).2.1
  revert this
  decide

theorem h2c_started (b b' : Buffer) (o : Oid) (left : Int)
    (h : b.hot2coldBegin = (b', .ok (some (o, left)))) :
    left = b.sizeOf o ∧ b.hot.stored.getLast? = some o ∧ b'.hot.transfer = some o ∧
    b.cold.cur - (left + (match b.cold.transfer with | some t => b.sizeOf t | none => 0)) ≥ 0 := by
  unfold hot2coldBegin at h
  split at h
  · cases h
  · rename_i o' ho
    simp only at h
    split at h
    · injection h with h1 h2
      cases h2
    · rename_i hcap
      injection h with h1 h2
      injection h2 with h2
      injection h2 with h2
      injection h2 with h3 h4
      subst h1 h3 h4
      refine ⟨rfl, ho, rfl, ?_⟩
      simp only [Bool.not_eq_true, Bool.not_eq_false', coldHasCapacityFor, sizeOf] at hcap ⊢
      cases hct : b.cold.transfer <;> simp [hct] at hcap ⊢ <;> omega

end Buffer
end Topsim
