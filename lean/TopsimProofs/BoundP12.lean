/-
  BoundP12 — a configuration in which workflows COMPETE for one planned machine, meeting every
  hypothesis of the bound theorems (non-vacuity; every node carries work, so the original serial
  bound applies).

  Configuration `boundP_nvW alg`: two machines (id 0: 1 flop/step, bandwidth 1; id 1: 5 flops/step,
  bandwidth 2), two arrays, ingest limit 2, hot / cold buffer 100 / 100 (rates 10 / 10), two
  observations with the same planned start 0:
    * observation 0: duration 2, 1 array, 1 ingest machine, rate 1; workflow `0 → 1`, nodes
      (comp 3, task_data 1), (comp 2, task_data 0), edge `0 → 1` with transfer_data 2;
    * observation 1: duration 3, 1 array, 1 ingest machine, rate 1; workflow `0 → 1`, nodes
      (comp 4, task_data 0), (comp 1, task_data 2), edge `0 → 1` with transfer_data 3.
  Static plans `boundP_nvEnv`: ALL FOUR tasks on the slow machine 0 — observation 0: node 0 `[0, 3)`,
  node 1 `[3, 5)`; observation 1 (rows listed in non-topological order): node 1 `[9, 10)`, node 0
  `[5, 9)`.  Both ingests run at once and take both machines; then the tasks of the two workflows
  queue for machine 0 while machine 1 idles (dynamic), or fall back to machine 1 (greedy).

  By evaluation in the kernel: under DynamicSchedulingFromPlan the run is first at `is_finished()`
  after 150 kernel steps with the clock at 16, under GreedySchedulingFromPlan after 116 steps with
  the clock at 11; the serial bound is 43, the sharp bound 31.
-/
import TopsimProofs.BoundP11

namespace Topsim

open KState Sys

def boundP_nvObs0 : Obs :=
  { id := 0, est := 0, duration := 2, demand := 1, rate := 1, ingestDemand := 1,
    wf := ⟨[(0, 3, 1), (1, 2, 0)], [(0, 1, 2)], [0, 1]⟩ }

def boundP_nvObs1 : Obs :=
  { id := 1, est := 0, duration := 3, demand := 1, rate := 1, ingestDemand := 1,
    wf := ⟨[(0, 4, 0), (1, 1, 2)], [(0, 1, 3)], [0, 1]⟩ }

def boundP_nvW (alg : AlgKind) : Sys :=
  { machines := [⟨0, 1, 1⟩, ⟨1, 5, 2⟩], totalArrays := 2, maxIngest := 2, alg := alg, staticPlan := true,
    cl := Cluster.init [0, 1], buf := Buffer.init 100 10 100 10, obs := [boundP_nvObs0, boundP_nvObs1] }

def boundP_nvEnv : SimEnv :=
  { staticPlans := [(0, [(0, 0, 0, 3), (1, 0, 3, 5)]), (1, [(1, 0, 9, 10), (0, 0, 5, 9)])] }

theorem boundP_nv_wf (alg : AlgKind) : Sys.WFConfig (boundP_nvW alg) := by
  refine ⟨?_, rfl, ?_, ?_, ⟨rfl, rfl, rfl, rfl, rfl, rfl, rfl, rfl, rfl, rfl, rfl, rfl, rfl,
    rfl, rfl, rfl, rfl⟩⟩
  · show ([0, 1] : List Mid).Nodup
    decide
  · show ([0, 1] : List Oid).Nodup
    decide
  intro o ho
  simp only [boundP_nvW, List.mem_cons, List.not_mem_nil, or_false] at ho
  rcases ho with rfl | rfl <;> exact ⟨rfl, rfl, by decide, by decide⟩

theorem boundP_nv_feasible_dynamic : Sys.Feasible (boundP_nvW .dynamic) := by
  simp [Sys.Feasible, boundP_nvW, boundP_nvObs0, boundP_nvObs1, Buffer.init]

theorem boundP_nv_feasible_greedy : Sys.Feasible (boundP_nvW .greedy) := by
  simp [Sys.Feasible, boundP_nvW, boundP_nvObs0, boundP_nvObs1, Buffer.init]

theorem boundP_nv_h1 (alg : AlgKind) : Sys.NoTierCfg (boundP_nvW alg) := by
  unfold Sys.NoTierCfg
  show 5 * ((([boundP_nvObs0, boundP_nvObs1] : List Obs).map (fun o => o.rate * (o.duration : Int))).sum) ≤
    3 * (Buffer.init 100 10 100 10).hot.total
  decide

theorem boundP_nv_topo (alg : AlgKind) : ∀ o ∈ (boundP_nvW alg).obs, IsTopo o.wf := by
  intro o ho
  simp only [boundP_nvW, List.mem_cons, List.not_mem_nil, or_false] at ho
  rcases ho with rfl | rfl
  · exact ⟨by decide, by intro n; simp [boundP_nvObs0], by decide⟩
  · exact ⟨by decide, by intro n; simp [boundP_nvObs1], by decide⟩

theorem boundP_nv_planOk (alg : AlgKind) : PlanOk boundP_nvEnv (boundP_nvW alg) := by
  constructor
  · intro o ho n hn
    simp only [boundP_nvW, List.mem_cons, List.not_mem_nil, or_false] at ho
    rcases ho with rfl | rfl <;> (revert n hn; decide)
  · intro o ho x hx
    simp only [boundP_nvW, List.mem_cons, List.not_mem_nil, or_false] at ho
    rcases ho with rfl | rfl <;> (revert x hx; decide)
  · intro o ho x hx
    simp only [boundP_nvW, List.mem_cons, List.not_mem_nil, or_false] at ho
    rcases ho with rfl | rfl
    · have : ∀ x ∈ boundP_nvEnv.rowsOf boundP_nvObs0.id,
          ∃ mm ∈ ([⟨0, 1, 1⟩, ⟨1, 5, 2⟩] : List Machine), mm.id = x.2.1 := by decide
      exact this x hx
    · have : ∀ x ∈ boundP_nvEnv.rowsOf boundP_nvObs1.id,
          ∃ mm ∈ ([⟨0, 1, 1⟩, ⟨1, 5, 2⟩] : List Machine), mm.id = x.2.1 := by decide
      exact this x hx

theorem boundP_nv_nc_dynamic : NcPCfg boundP_nvEnv (boundP_nvW .dynamic) :=
  ⟨boundP_nv_wf _, boundP_nv_feasible_dynamic, ⟨rfl, rfl, rfl, rfl⟩, ⟨rfl, rfl, rfl⟩, rfl, boundP_nv_h1 _,
    Or.inl rfl, rfl, boundP_nv_topo _, boundP_nv_planOk _, rfl⟩

theorem boundP_nv_nc_greedy : NcPCfg boundP_nvEnv (boundP_nvW .greedy) :=
  ⟨boundP_nv_wf _, boundP_nv_feasible_greedy, ⟨rfl, rfl, rfl, rfl⟩, ⟨rfl, rfl, rfl⟩, rfl, boundP_nv_h1 _,
    Or.inr rfl, rfl, boundP_nv_topo _, boundP_nv_planOk _, rfl⟩

/-- every node carries work: no plan row is constrained -/
theorem boundP_nv_durOk (alg : AlgKind) : BoundPDurOk boundP_nvEnv (boundP_nvW alg) := by
  intro o ho n hn h1 h2
  simp only [boundP_nvW, List.mem_cons, List.not_mem_nil, or_false] at ho
  rcases ho with rfl | rfl
  · exfalso
    have : ∀ n ∈ boundP_nvObs0.wf.nodes, ¬ (n.2.1 = 0 ∧ n.2.2 = 0) := by decide
    exact this n hn ⟨h1, h2⟩
  · exfalso
    have : ∀ n ∈ boundP_nvObs1.wf.nodes, ¬ (n.2.1 = 0 ∧ n.2.2 = 0) := by decide
    exact this n hn ⟨h1, h2⟩

theorem boundP_nv_numbers :
    (Sys.serialBound (boundP_nvW .dynamic) = 43 ∧ boundP_serial boundP_nvEnv (boundP_nvW .dynamic) = 43 ∧
      boundLatest (boundP_nvW .dynamic) + boundP_VTotal boundP_nvEnv (boundP_nvW .dynamic) = 31) ∧
    (Sys.serialBound (boundP_nvW .greedy) = 43 ∧ boundP_serial boundP_nvEnv (boundP_nvW .greedy) = 43 ∧
      boundLatest (boundP_nvW .greedy) + boundP_VTotal boundP_nvEnv (boundP_nvW .greedy) = 31) := by
  decide

set_option maxRecDepth 100000 in
unseal Rat.add in
/-- dynamic: first at `is_finished()` at index 150, clock 16 (the four tasks run one after the other
on machine 0) -/
theorem boundP_nv_first_dynamic :
    boundP_firstFin boundP_nvEnv 200 (SimState.start (boundP_nvW .dynamic)) 0 0 = some (150, 16) := by
  decide +kernel

set_option maxRecDepth 100000 in
unseal Rat.add in
/-- greedy: first at `is_finished()` at index 116, clock 11 (the fallback uses machine 1) -/
theorem boundP_nv_first_greedy :
    boundP_firstFin boundP_nvEnv 200 (SimState.start (boundP_nvW .greedy)) 0 0 = some (116, 11) := by
  decide +kernel

/-- the runs of the two algorithms on this configuration: the index and the clock of the first
`is_finished()` state -/
theorem boundP_nv_runs :
    ((simAt boundP_nvEnv (boundP_nvW .dynamic) 150).st.isFinished = true ∧
      boundClock boundP_nvEnv (boundP_nvW .dynamic) 150 = 16 ∧
      ∀ j, j < 150 → (simAt boundP_nvEnv (boundP_nvW .dynamic) j).st.isFinished = false) ∧
    ((simAt boundP_nvEnv (boundP_nvW .greedy) 116).st.isFinished = true ∧
      boundClock boundP_nvEnv (boundP_nvW .greedy) 116 = 11 ∧
      ∀ j, j < 116 → (simAt boundP_nvEnv (boundP_nvW .greedy) j).st.isFinished = false) := by
  obtain ⟨_, a2, a3, a4⟩ := boundP_firstFin_spec _ _ _ 0 _ _ boundP_nv_first_dynamic
  obtain ⟨_, b2, b3, b4⟩ := boundP_firstFin_spec _ _ _ 0 _ _ boundP_nv_first_greedy
  exact ⟨⟨a2, a3.symm, fun j hj => a4 j (Nat.zero_le _) hj⟩, ⟨b2, b3.symm, fun j hj => b4 j (Nat.zero_le _) hj⟩⟩

end Topsim
