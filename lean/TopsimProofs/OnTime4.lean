/-
  OnTime4 — "on time when idle" along the runs of the simulator: the assembly of
  `OtAst` (OnTime2), the telescope's block at the planned start (`sim_telHist`)
  and the block-level admission (`ot_block_on_time`).
-/
import TopsimProofs.OnTime3

namespace Topsim

open KState Sys

/-- the system is completely idle: what `Simulation.is_finished()` asks of the buffer, the cluster
and the scheduler's queue (`Buffer.is_empty`, `Cluster.is_idle`, empty queue), no array in use, no
machine reserved for a batch, nothing promised to ingest -/
structure Sys.Quiet (s : Sys) : Prop where
  tel : s.telUse = 0
  cluster : s.cl.isIdle = true
  noBatch : s.cl.idleAll = []
  counter : s.provIngest = 0
  buffer : s.buf.isEmpty = true
  queue : s.queue = []

/-- the observation fits the empty system -/
structure Sys.Fits (s : Sys) (ob : Obs) : Prop where
  arrays : ob.demand ≤ s.totalArrays
  machines : ob.ingestDemand ≤ s.cl.machines.length
  limit : ob.ingestDemand ≤ s.maxIngest
  hot : ob.rate * ob.duration < s.buf.hot.total
  cold : s.buf.coldHasCapacityFor (ob.rate * ob.duration) = true

namespace Sys

/-- in a completely idle system everything an observation that fits needs is free -/
theorem ot_free_of_quiet {s : Sys} {U : List Tid} (hU : Cluster.Inv s.cl U) {ob : Obs} (hq : s.Quiet)
    (hf : s.Fits ob) : s.FreeFor ob := by
  obtain ⟨_, h2, h3⟩ := (cluster_isIdle_iff s.cl).mp hq.cluster
  obtain ⟨b1, _⟩ := (buffer_isEmpty_iff s.buf).mp hq.buffer
  have hlen : s.cl.available.length = s.cl.machines.length := by
    have := hU.perm.length_eq
    rw [h2, h3, hq.noBatch] at this
    simpa using this
  refine ⟨?_, ?_, by rw [h3]; simpa using hf.limit, ?_, ?_, hf.hot, hf.cold⟩
  · rw [hq.tel]
    have := hf.arrays
    omega
  · rw [hlen, hq.counter]
    have := hf.machines
    omega
  · rw [hq.counter]
    have := hf.limit
    omega
  · rw [b1]; exact Int.le_of_lt hf.hot

end Sys

/-- the machines of the cluster are those of the configuration, all along -/
theorem sim_machines (env : SimEnv) (s0 : Sys) (hw : WFConfig s0) (k : SimState) (h : SimReach env s0 k) :
    k.st.cl.machines = s0.machines.map (·.id) := by
  refine SimReach.sys_induct hw (fun s => s.cl.machines = s0.machines.map (·.id)) ?_ (fun _ hs => hs)
    (fun _ hs => hs) ?_ k h
  · have : s0.start.cl = s0.cl := by simp [start, spawn]
    rw [this, hw.clInit]; rfl
  · intro k _ ih pid p _ _ _
    show (k.st.resume pid (env.oracle k.st)).1.cl.machines = _
    rw [resume_clm]; exact ih

/-- **On time when free.**  For an observation with recorded start `a`, in any state `k'` of any
run of the simulator: `a` is not before the planned start; and the run contains the kernel step
`k0 → k1` in which the telescope's loop ran its block at the planned start `est`.  Before that
block the observation was WAITING with no recorded start.  If, in `k0`, everything it needs was
free (`FreeFor`) and every observation listed before it in the configuration was FINISHED, or
WAITING with a later planned start, then `a = est`. -/
theorem sim_on_time (env : SimEnv) (s0 : Sys) (hw : WFConfig s0) (k' : SimState) (h' : SimReach env s0 k')
    (oid : Oid) (ob' : Obs) (a : Nat) (hob' : k'.st.obs? oid = some ob') (hast : ob'.ast = some a) :
    ob'.est ≤ a ∧
    ∃ k0 k1 ob, SimReach env s0 k0 ∧ TelDue k0 ob'.est ∧ k0.step (simHandler env) = some k1 ∧
      SimPath env k1 k' ∧ k0.st.obs? oid = some ob ∧ ob.stat = ob'.stat ∧ ob.status = .waiting ∧
      ob.ast = none ∧
      (k0.st.FreeFor ob →
        (∀ pre post, k0.st.obs = pre ++ ob :: post →
          ∀ o ∈ pre, o.status = .finished ∨ (o.status = .waiting ∧ ob.est < o.est)) →
        a = ob'.est) := by
  have hA' := sim_otAst env s0 hw k' h'
  have hearly := hA'.early oid ob' a hob' hast
  refine ⟨hearly, ?_⟩
  -- the telescope's loop has passed the planned start
  obtain ⟨t, ht, htk⟩ := (h'.l3inv hw).heap.telEx
  have hpassed : ((ob'.est : Nat) : Time) < t.wake ∨ (((ob'.est : Nat) : Time) = t.wake ∧ t.alive = false) := by
    rcases Nat.lt_or_ge ob'.est a with hlt | hge
    · left
      have h1 : ((ob'.est : Nat) : Time) < ((a : Nat) : Time) := by exact_mod_cast hlt
      rcases hA'.tel oid ob' a hob' hast t ht htk with h2 | ⟨h2, _⟩
      · grind
      · rw [← h2]; exact h1
    · have : ob'.est = a := by omega
      rw [this]
      exact hA'.tel oid ob' a hob' hast t ht htk
  obtain ⟨k0, k1, hr0, hdue, hs, hpath⟩ := sim_telHist env s0 hw k' h' t ht htk ob'.est hpassed
  have hpath0 : SimPath env k0 k' := (SimPath.step k0 k0 k1 (SimPath.refl k0) hs).trans hpath
  obtain ⟨ob, hob, hst⟩ := (SimPath.keep hw hr0 hpath0).bwd hob'
  have hest : ob.est = ob'.est := ((ot_stat_fields hst).2.1).symm
  have hA0 := sim_otAst env s0 hw k0 hr0
  have hinv0 := hr0.l3inv hw
  obtain ⟨e, p, hpk, hpp, ha, hk, hwn⟩ := hdue
  obtain ⟨hpm, hpid⟩ := proc?_some hpp
  -- no start time is recorded yet when the telescope is due at the planned start
  have hnoast : ∀ o r, k0.st.obs? o = some r → ob'.est ≤ r.est → r.ast = none := by
    intro o r hr hle
    cases hra : r.ast with
    | none => rfl
    | some a0 =>
      exfalso
      have h1 := hA0.early o r a0 hr hra
      rcases hA0.tel o r a0 hr hra p hpm hk with h2 | ⟨_, h2⟩
      · rw [hwn] at h2
        have : a0 < ob'.est := by exact_mod_cast h2
        omega
      · rw [ha] at h2; cases h2
  have hnone : ob.ast = none := hnoast oid ob hob (by omega)
  refine ⟨k0, k1, ob, hr0, ⟨e, p, hpk, hpp, ha, hk, hwn⟩, hs, hpath, hob, hst.symm, hA0.wait oid ob hob hnone,
    hnone, ?_⟩
  intro hfree hpre
  -- the step is the telescope's block
  obtain ⟨e', hpk', hc⟩ := ot_step_cases hw hr0 hs
  rw [hpk] at hpk'; cases hpk'
  rcases hc with ⟨_, hdead⟩ | ⟨p', hpp', _, _, _, hc⟩
  · rw [hdead p hpp] at ha; cases ha
  · rw [hpp] at hpp'; cases hpp'
    have hobm := (obs_mem_of_obs? hob).1
    have hoid := (obs_mem_of_obs? hob).2
    obtain ⟨pre, post, hsplit⟩ := List.append_of_mem hobm
    have hnd := hinv0.sinv.eg.obsNodup
    have hpre' : ∀ o ∈ pre, o.status = .finished ∨ (o.status = .waiting ∧ ob'.est < o.est ∧ o.ast = none) := by
      intro o ho
      rcases hpre pre post hsplit o ho with hf | ⟨hw1, hlt⟩
      · exact Or.inl hf
      · right
        have hom : o ∈ k0.st.obs := by rw [hsplit]; exact List.mem_append_left _ ho
        exact ⟨hw1, by omega, hnoast o.id o (obs?_of_mem hnd hom) (by omega)⟩
    obtain ⟨ob1, hob1, hast1⟩ := ot_block_on_time k0.st p (env.oracle k0.st) hk ob'.est hwn hnd pre post ob hsplit
      hpre' (by omega) (hA0.wait oid ob hob hnone) hfree (hinv0.ti.durPos ob hobm)
    have hobsEq : (k0.st.resume e.pid (env.oracle k0.st)).1.obs = (k0.st.block p (env.oracle k0.st)).1.obs :=
      (il_resume_fields k0.st e.pid (env.oracle k0.st) p hpp ha).1
    have hob1' : k1.st.obs? oid = some ob1 := by
      rw [hc, obs?_congr hobsEq, ← hoid]; exact hob1
    obtain ⟨ob2, hob2, hast2, _⟩ := SimPath.ast_persist hw (SimReach.step k0 k1 hr0 hs) hpath hob1' hast1
    rw [hob'] at hob2; cases hob2
    rw [hast] at hast2; cases hast2
    rfl

end Topsim
