/-
  LiveP8e — the declarations of Live8e.lean that depend on the configuration structures, restated for
  the plan-following configurations (`LivePCfg`, `NcPCfg`, `L7PLib`); the proofs are those of Live8e.lean.
-/
import TopsimProofs.LiveP8d

namespace Topsim

open KState Sys

namespace Sys

end Sys

section

variable {env : SimEnv} {s0 : Sys}

/-- an observation record of the run and the record of the configuration it comes from -/
theorem l8_obs_cfg_P (C : LivePCfg env s0) (n : Nat) {ob : Obs} (hob : ob ∈ (simAt env s0 n).st.obs) :
    ∃ o0 ∈ s0.obs, o0.id = ob.id ∧ o0.est = ob.est ∧ o0.duration = ob.duration ∧ o0.demand = ob.demand ∧
      o0.rate = ob.rate ∧ o0.ingestDemand = ob.ingestDemand := by
  have hm : ob.stat ∈ s0.obs.map Obs.stat := by rw [← live_keep0_P C n]; exact List.mem_map_of_mem hob
  obtain ⟨o0, ho0, hst⟩ := List.mem_map.mp hm
  exact ⟨o0, ho0, Sys.ot_stat_fields hst⟩

/-- in an idle system everything a WAITING observation needs is free -/
theorem live_freeFor_P (C : LivePCfg env s0) (K : LiveKernel env s0) (n : Nat)
    (hq : ∀ q ∈ (simAt env s0 n).st.procs, q.alive = true →
      q.k.tag ≠ "allocIngest" ∧ q.k.tag ≠ "provIngest" ∧ q.k.tag ≠ "ingestStream" ∧
      q.k.tag ≠ "allocTask" ∧ q.k.tag ≠ "doWork")
    (hfin : ∀ ob ∈ (simAt env s0 n).st.obs, ob.ast ≠ none → ob.status = .finished)
    {ob : Obs} (hob : ob ∈ (simAt env s0 n).st.obs) (hw : ob.status = .waiting) :
    (simAt env s0 n).st.FreeFor ob := by
  obtain ⟨_, f2, _, f4, f5, f6, _⟩ := live_free_P C K n hq hfin
  obtain ⟨o0, ho0, _, _, edur, edem, erate, eing⟩ := l8_obs_cfg_P C n hob
  obtain ⟨g1, _, g3, _, g5, g6, g7, g8⟩ := C.feas.1 o0 ho0
  rw [edem] at g1
  rw [eing] at g3
  rw [erate, edur] at g5 g6
  rw [erate] at g8
  rw [edur] at g7
  have hmax := reach_maxIngest s0 _ C.hw (l8_reachOk_P C K n)
  have htot := Sys.l8_reach_totalArrays (l8_reach_P C K n)
  obtain ⟨_, hcold⟩ := live_noTier_P C K n
  obtain ⟨_, ht, hused, hcnn⟩ := live_not_over env s0 C.hw C.hb0 C.hfull (l8_rate_P C) C.h1 _ (K.run n).1 (C.nr n)
  have hvpos : 0 < ob.rate * (ob.duration : Int) := Int.mul_pos g8 (by omega)
  refine ⟨?_, ?_, ?_, ?_, ?_, ?_, ?_⟩
  · rw [f6, htot]; omega
  · rw [f4]; omega
  · rw [f2, hmax]; simp only [List.length_nil]; omega
  · rw [f5, hmax]; omega
  · -- the hot tier
    have hpos : ∀ x ∈ (simAt env s0 n).st.obs, 0 ≤ x.rate * (x.duration : Int) := by
      intro x hx
      obtain ⟨x0, hx0, _, _, xdur, _, xrate, _⟩ := l8_obs_cfg_P C n hx
      have := l8_rate_P C x0 hx0
      rw [← xrate, ← xdur]
      exact Int.mul_nonneg (by omega) (by omega)
    have hP : (fun o : Obs => o.status != .waiting && !(simAt env s0 n).st.buf.hot.finished.contains o.id) ob
        = false := by
      simp [hw]
    have hadd := Sys.l8_sum_filter_add (simAt env s0 n).st.obs
      (fun o : Obs => o.status != .waiting && !(simAt env s0 n).st.buf.hot.finished.contains o.id)
      (fun o => o.rate * (o.duration : Int)) hpos hob hP
    have hall := Sys.live_vol_stat s0.obs (simAt env s0 n).st.obs (live_keep0_P C n)
    have hH1 := C.h1
    unfold Sys.NoTierCfg at hH1
    rw [hall] at hadd
    rw [ht] at hused
    omega
  · rw [ht]; exact g5
  · unfold Buffer.coldHasCapacityFor
    rw [hcold, C.hct]
    simp only [decide_eq_true_eq]
    rw [C.hfull.2.2]
    omega

/-- **ADM.**  In an idle system whose observations without a recorded start are all due, the
telescope's block records the start of one of them. -/
theorem live_admit_P (C : LivePCfg env s0) (K : LiveKernel env s0) (n : Nat) {e : HEntry} {p : Proc}
    (hpk : (simAt env s0 n).peek = some e) (hpp : (simAt env s0 n).st.proc? e.pid = some p)
    (ha : p.alive = true) (hk : p.k = .telescope)
    (hq : ∀ q ∈ (simAt env s0 n).st.procs, q.alive = true →
      q.k.tag ≠ "allocIngest" ∧ q.k.tag ≠ "provIngest" ∧ q.k.tag ≠ "ingestStream" ∧
      q.k.tag ≠ "allocTask" ∧ q.k.tag ≠ "doWork")
    (hfin : ∀ ob ∈ (simAt env s0 n).st.obs, ob.ast ≠ none → ob.status = .finished)
    (hex : ∃ ob ∈ (simAt env s0 n).st.obs, ob.ast = none)
    (hdue : ∀ ob ∈ (simAt env s0 n).st.obs, ob.ast = none → ((ob.est : Nat) : Time) ≤ p.wake) :
    ∃ o ob0 ob1 a, (simAt env s0 n).st.obs? o = some ob0 ∧ ob0.ast = none ∧
      (simAt env s0 (n + 1)).st.obs? o = some ob1 ∧ ob1.ast = some a := by
  obtain ⟨e', p', hpk', hpp', _, _, _, _, hst⟩ := l8_step_P C K n
  rw [hpk] at hpk'; cases hpk'
  rw [hpp] at hpp'; cases hpp'
  obtain ⟨hpm, _⟩ := proc?_some hpp
  have hinv := (K.reach n).l3inv C.hw
  have hnd := hinv.sinv.eg.obsNodup
  have hA := sim_otAst env s0 C.hw _ (K.reach n)
  obtain ⟨m, hwm⟩ := hinv.heap.telInt p hpm hk
  obtain ⟨pre, ob, post, hsplit, hnone, hpre⟩ := Sys.l8_first_none _ hex
  have hobm : ob ∈ (simAt env s0 n).st.obs := by rw [hsplit]; simp
  have hob := obs?_of_mem hnd hobm
  have hw : ob.status = .waiting := hA.wait ob.id ob hob hnone
  have hfree := live_freeFor_P C K n hq hfin hobm hw
  have hd : ob.est ≤ m := by
    have := hdue ob hobm hnone
    rw [hwm] at this
    exact_mod_cast this
  have hpre' : ∀ o ∈ pre, o.status = .finished ∨ (o.status = .waiting ∧ m < o.est ∧ o.ast = none) := by
    intro o ho
    left
    exact hfin o (by rw [hsplit]; exact List.mem_append_left _ ho) (hpre o ho)
  obtain ⟨ob1, hob1, hast1⟩ := Sys.ot_block_on_time (simAt env s0 n).st p (env.oracle (simAt env s0 n).st) hk m
    hwm hnd pre post ob hsplit hpre' hd hw hfree (hinv.ti.durPos ob hobm)
  have hobsEq := (Sys.il_resume_fields (simAt env s0 n).st e.pid (env.oracle (simAt env s0 n).st) p hpp ha).1
  refine ⟨ob.id, ob, ob1, m, hob, hnone, ?_, hast1⟩
  rw [hst, obs?_congr hobsEq]
  exact hob1

end

end Topsim

