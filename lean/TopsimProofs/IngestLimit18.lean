/-
  IngestLimit18 — the ingest timing invariant across a block of the ingest
  supervisor (`allocate_ingest`).  Its last block runs at `ast + duration` at the
  earliest; the bodies of the observation's ingest tasks have ended strictly
  before, so every allocation process still holding a machine polls now or has
  polled, and — the telescope having run already at this instant — strictly before
  the telescope's next block.
-/
import TopsimProofs.IngestLimit17

namespace Topsim
namespace Sys

open Cluster

theorem il_obs?_mem {s : Sys} {o : Oid} {ob : Obs} (h : s.obs? o = some ob) : ob ∈ s.obs ∧ ob.id = o := by
  unfold obs? at h
  exact ⟨List.mem_of_find?_eq_some h, by simpa using List.find?_some h⟩

/-- re-stamping the start time an observation already has changes nothing -/
theorem il_updObs_ast_same {s : Sys} (hnd : (s.obs.map (·.id)).Nodup) {o : Oid} {ob : Obs} {n : Nat}
    (hob : s.obs? o = some ob) (hast : ob.ast = some n) :
    s.updObs o (fun r => { r with ast := some n }) = s := by
  obtain ⟨hm, hid⟩ := il_obs?_mem hob
  have : s.obs.map (fun r => if r.id = o then { r with ast := some n } else r) = s.obs := by
    conv => rhs; rw [← List.map_id s.obs]
    apply List.map_congr_left
    intro r hr
    by_cases e : r.id = o
    · have : r = ob := eq_of_map_nodup hnd hr hm (e.trans hid.symm)
      subst this
      rw [if_pos e]
      cases r
      simp only at hast
      simp [hast]
    · rw [if_neg e]; rfl
  unfold Sys.updObs
  rw [this]

/-- the table after a block of `p` that appends `new` -/
theorem il_resume_procs_new {s : Sys} (hpw : PW s) {pid : Nat} {p : Proc} (hp : s.proc? pid = some p)
    (ha : p.alive = true) (orc : Oracle) {new : List Proc}
    (hnew : (s.block p orc).1.procs = s.procs ++ new) (hge : ∀ q ∈ new, s.nextPid ≤ q.pid) :
    (∀ q' ∈ (s.resume pid orc).1.procs,
      q' = fin (s.block p orc).2.1 (s.block p orc).2.2 p.wake p ∨ (q' ∈ s.procs ∧ q'.pid ≠ pid) ∨ q' ∈ new) ∧
    fin (s.block p orc).2.1 (s.block p orc).2.2 p.wake p ∈ (s.resume pid orc).1.procs ∧
    (∀ q ∈ s.procs, q.pid ≠ pid → q ∈ (s.resume pid orc).1.procs) ∧
    (∀ q ∈ new, q ∈ (s.resume pid orc).1.procs) := by
  obtain ⟨hpm, hpid⟩ := proc?_some hp
  obtain ⟨e1, _, _⟩ := il_resume_procs_eq s pid orc p hp ha
  rw [e1]
  have hplt := hpw.lt p hpm
  refine ⟨?_, ?_, ?_, ?_⟩
  · intro q' hq'
    obtain ⟨q, hq, rfl⟩ := mem_updProc.mp hq'
    rw [hnew, List.mem_append] at hq
    rcases hq with hold | hn
    · by_cases e : q.pid = pid
      · have : q = p := hpw.eq_of_pid hold hpm (e.trans hpid.symm)
        subst this
        rw [if_pos e]; exact Or.inl rfl
      · rw [if_neg e]; exact Or.inr (Or.inl ⟨hold, e⟩)
    · have := hge q hn
      rw [if_neg (by omega)]
      exact Or.inr (Or.inr hn)
  · exact mem_updProc.mpr ⟨p, by rw [hnew]; exact List.mem_append_left _ hpm, by rw [if_pos hpid]⟩
  · intro q hq hne
    exact mem_updProc.mpr ⟨q, by rw [hnew]; exact List.mem_append_left _ hq, by rw [if_neg hne]⟩
  · intro q hq
    have := hge q hq
    exact mem_updProc.mpr ⟨q, by rw [hnew]; exact List.mem_append_right _ hq, by rw [if_neg (by omega)]⟩

/-- the generic part of a supervisor's step: everything but the facts about the supervisor's own
new entry, the provisioning process it may create, and the allocation processes it may leave
behind -/
theorem ILTI.aiStep {s s' : Sys} (h : ILTI s) (hs : SInv s) (hil : ILInv s) (hpw : PW s) {p p' : Proc} {o : Oid} {new : List Proc}
    (hpm : p ∈ s.procs) (hpk : p.k.aiObs = some o) (hp'pid : p'.pid = p.pid) (hp'in : p' ∈ s'.procs)
    (hp'k : ∃ tl', p'.k = .allocIngest o tl') (hp'pc : p'.pc ≠ 0)
    (hothers : ∀ q ∈ s.procs, q.pid ≠ p.pid → q.k.aiObs ≠ some o)
    (hok : IlObsKeep s s') (hobsother : ∀ o', o' ≠ o → s'.obs? o' = s.obs? o')
    (hpend : s'.cl.pending = s.cl.pending) (hrunOn : s'.cl.runOn = s.cl.runOn)
    (htasks : s'.tasks = s.tasks)
    (hmem : ∀ q' ∈ s'.procs, q' = p' ∨ (q' ∈ s.procs ∧ q'.pid ≠ p.pid) ∨ q' ∈ new)
    (hkeep : ∀ q ∈ s.procs, q.pid ≠ p.pid → q ∈ s'.procs)
    (hnewk : ∀ q ∈ new, q.k.aiObs = none ∧ q.k.ilAtTel = false ∧ s.nextPid ≤ q.pid)
    (hnewPI : ∀ q ∈ new, ∀ o' d', q.k = .provIngest o' d' →
      ∃ ob a, s'.obs? o' = some ob ∧ ob.ast = some a ∧ q.wake = ((a : Nat) : Time))
    (hP'run : p'.alive = true → ∀ tl', p'.k = .allocIngest o tl' →
      ∃ ob a j, s'.obs? o = some ob ∧ ob.ast = some a ∧ 1 ≤ j ∧ p'.wake = ((a + j : Nat) : Time) ∧
        tl' = (ob.duration : Int) - (j : Int))
    (hP'fin : p'.alive = true → ∀ ob a, s'.obs? o = some ob → ob.status = .finished → ob.ast = some a →
      ((a + ob.duration : Nat) : Time) ≤ p'.wake)
    (hstaleO : p'.alive = false → ∀ e ∈ s.cl.ilEntries, e.obs = some o →
      ∃ q ∈ s.procs, q.pid ≠ p.pid ∧ q.alive = true ∧ 1 ≤ q.pc ∧
        (∃ preds ret, q.k = .allocTask e.task e.mach preds (some o) true ret ∧
          ∀ r ∈ s.procs, r.pid = ret → r.alive = false ∧ r.wake + 1 ≤ q.wake) ∧
        ∀ t ∈ s.procs, t.k = .telescope → t.alive = true → q.wake < t.wake) : ILTI s' := by
  obtain ⟨tl', hp'k⟩ := hp'k
  have hpnotDW : p.k.isDoWork = false ∧ p.k.ilAtIng = false := by
    cases hk : p.k <;> simp [hk, PK.aiObs] at hpk <;> exact ⟨rfl, rfl⟩
  have hold : ∀ q ∈ s.procs, (q.k.ilAtIng = true ∨ q.k.isDoWork = true) → q ∈ s'.procs := by
    intro q hq hrel
    apply hkeep q hq
    intro e
    have : q = p := hpw.eq_of_pid hq hpm e
    rw [this, hpnotDW.1, hpnotDW.2] at hrel
    simp at hrel
  have hnewAT : ∀ q' ∈ s'.procs, ∀ t m preds obs ret, q'.k = .allocTask t m preds obs true ret → q' ∈ s.procs := by
    intro q' hq' t m preds obs ret hqk
    rcases hmem q' hq' with rfl | ⟨hh, _⟩ | hh
    · rw [hp'k] at hqk; exact absurd hqk (by simp)
    · exact hh
    · have := (hnewk q' hh).2.1
      rw [hqk] at this; simp [PK.ilAtTel] at this
  have hdwpid : ∀ r' ∈ s'.procs, r' ∈ s.procs ∨ ∀ r ∈ s.procs, r.k.isDoWork = true → r.pid ≠ r'.pid := by
    intro r' hr'
    rcases hmem r' hr' with rfl | ⟨hh, _⟩ | hh
    · right
      intro r hr hrk e
      have : r = p := hpw.eq_of_pid hr hpm (e.trans hp'pid)
      rw [this, hpnotDW.1] at hrk; exact absurd hrk (by simp)
    · exact Or.inl hh
    · right
      intro r hr _ e
      have := hpw.lt r hr
      have := (hnewk r' hh).2.2
      omega
  have htel : ∀ t' ∈ s'.procs, t'.k = .telescope → t'.alive = true →
      ∃ t ∈ s.procs, t.k = .telescope ∧ t.alive = true ∧ t.wake ≤ t'.wake := by
    intro t' ht' htk hta
    rcases hmem t' ht' with rfl | ⟨hh, _⟩ | hh
    · rw [hp'k] at htk; exact absurd htk (by simp)
    · exact ⟨t', hh, htk, hta, Rat.le_refl⟩
    · have := (hnewk t' hh).2.1
      rw [htk] at this; simp [PK.ilAtTel] at this
  obtain ⟨t1, t2, t3, t4, t5, t6, t7⟩ := h.tail hs hil hok hpend hrunOn (IlTaskK.of_eq htasks) hold hnewAT
  -- a supervisor in the new table, other than the one that ran, is an old one, of another observation
  have hAIold : ∀ q' ∈ s'.procs, ∀ o' tl, q'.k = .allocIngest o' tl → q' ≠ p' → q' ∈ s.procs ∧ o' ≠ o := by
    intro q' hq' o' tl hqk hne
    rcases hmem q' hq' with rfl | ⟨hh, hpid⟩ | hh
    · exact absurd rfl hne
    · refine ⟨hh, ?_⟩
      intro e
      exact hothers q' hh hpid (by rw [hqk, e]; rfl)
    · have := (hnewk q' hh).1
      rw [hqk] at this; simp [PK.aiObs] at this
  refine ⟨t1, t2, ?_, ?_, ?_, ?_, t3, t4, t7, t5, t6, ?_⟩
  · intro q hq o' tl hqk hqc
    by_cases hqp : q = p'
    · rw [hqp] at hqc; exact absurd hqc hp'pc
    · obtain ⟨hqo, hne⟩ := hAIold q hq o' tl hqk hqp
      obtain ⟨n, ob, h1, h2, h3⟩ := h.aiNew q hqo o' tl hqk hqc
      exact ⟨n, ob, h1, by rw [hobsother o' hne]; exact h2, h3⟩
  · intro q hq hqa hqc o' tl hqk
    by_cases hqp : q = p'
    · subst hqp
      rw [hp'k] at hqk
      injection hqk with e1 e2
      subst e1 e2
      exact hP'run hqa _ hp'k
    · obtain ⟨hqo, hne⟩ := hAIold q hq o' tl hqk hqp
      obtain ⟨ob, a, j, h1, r⟩ := h.aiRun q hqo hqa hqc o' tl hqk
      exact ⟨ob, a, j, by rw [hobsother o' hne]; exact h1, r⟩
  · intro q hq hqa o' tl hqk ob a hob
    by_cases hqp : q = p'
    · subst hqp
      rw [hp'k] at hqk
      injection hqk with e1 e2
      subst e1
      exact hP'fin hqa ob a hob
    · obtain ⟨hqo, hne⟩ := hAIold q hq o' tl hqk hqp
      rw [hobsother o' hne] at hob
      exact h.aiFin q hqo hqa o' tl hqk ob a hob
  · intro q hq hqa hqc o' d' hqk
    rcases hmem q hq with rfl | ⟨hh, _⟩ | hh
    · rw [hp'k] at hqk; exact absurd hqk (by simp)
    · obtain ⟨ob, a, h1, h2, h3⟩ := h.piW q hh hqa hqc o' d' hqk
      obtain ⟨ob', hob', ha', _⟩ := hok.2 o' ob h1
      have hilc : ILC s.procs s.ilDemand s.cl.ilEntries s.provIngest s.maxIngest s.admitted := hil
      obtain ⟨_, w, hw, _, _, hwk, _⟩ := hilc.piLive q hh hqa hqc o' d' hqk
      exact ⟨ob', a, hob', by rw [ha' (hilc.aiAdm w hw o' hwk)]; exact h2, h3⟩
    · exact hnewPI q hh o' d' hqk
  · -- stale allocation processes
    intro e he o' heo hno
    have he' : e ∈ s.cl.ilEntries := by
      rcases mem_ilEntries.mp he with hh | ⟨hh, hi⟩
      · exact mem_ilEntries.mpr (Or.inl (hpend ▸ hh))
      · exact mem_ilEntries.mpr (Or.inr ⟨hrunOn ▸ hh, hi⟩)
    by_cases hin : o' ∈ ilLiveAI s.procs
    · -- the supervisor that has just ended
      obtain ⟨q, hq, hqa, hqk⟩ := mem_ilLiveAI.mp hin
      have hqp : q = p := by
        apply Classical.byContradiction
        intro hne
        have hpid : q.pid ≠ p.pid := fun e => hne (hpw.eq_of_pid hq hpm e)
        exact hno (mem_ilLiveAI.mpr ⟨q, hkeep q hq hpid, hqa, hqk⟩)
      subst hqp
      rw [hpk] at hqk
      injection hqk with hqk
      subst hqk
      have hdead : p'.alive = false := by
        cases hpa : p'.alive with
        | false => rfl
        | true =>
          exfalso
          apply hno
          exact mem_ilLiveAI.mpr ⟨p', hp'in, hpa, by rw [hp'k]; rfl⟩
      obtain ⟨q, hq, hqne, hqa', hqc, ⟨preds, ret, hqk, hdd⟩, hlt⟩ := hstaleO hdead e he' heo
      refine ⟨q, hkeep q hq hqne, hqa', hqc, ⟨preds, ret, hqk, ?_⟩, ?_⟩
      · intro r' hr' hrp
        rcases hdwpid r' hr' with hh | hh
        · exact hdd r' hh hrp
        · exfalso
          obtain ⟨_, r, hr, hrpid, _, ph, tot, hrk, _⟩ := h.atRun q hq hqa' hqc _ _ _ _ _ hqk
          exact hh r hr (by rw [hrk]; rfl) (hrpid.trans hrp.symm)
      · intro t' ht' htk hta
        obtain ⟨t, ht, htk0, hta0, hle⟩ := htel t' ht' htk hta
        have := hlt t ht htk0 hta0
        grind
    · exact h.staleKeep hpw he' heo hin hold hdwpid htel

end Sys
end Topsim
