/-
  Pause points are step boundaries: the state in which `run(until=u)` (`u` a
  whole number) returns — started from `SimState.start s` — satisfies `Bdy`.

  Needs two more invariants: process ids are never reused (`nextPid` only
  grows, so pid 0 is never spawned again) and the monitor's wake-ups are at
  whole instants not after `u`.
-/
import TopsimProofs.PauseLemmas

namespace Topsim
namespace Sys

/-! ### `nextPid` only grows -/

def NP (s s' : Sys) : Prop := s.nextPid ≤ s'.nextPid

theorem NP.refl (s : Sys) : NP s s := Nat.le_refl _

theorem NP.trans {a b c : Sys} (h1 : NP a b) (h2 : NP b c) : NP a c := Nat.le_trans h1 h2

theorem NP.of_eq {s s' : Sys} (h : s'.nextPid = s.nextPid) : NP s s' := by
  unfold NP; rw [h]; exact Nat.le_refl _

theorem NP.foldl {α : Type} (f : Sys → α → Sys) (hf : ∀ s a, NP s (f s a)) (l : List α)
    (s : Sys) : NP s (l.foldl f s) := by
  induction l generalizing s with
  | nil => exact NP.refl _
  | cons a rest ih => exact (hf s a).trans (ih _)

theorem foldl_nextPid_eq {α : Type} (f : Sys → α → Sys)
    (hf : ∀ s a, (f s a).nextPid = s.nextPid) (l : List α) (s : Sys) :
    (l.foldl f s).nextPid = s.nextPid := by
  induction l generalizing s with
  | nil => rfl
  | cons a rest ih => simp only [List.foldl_cons]; rw [ih, hf]

macro "np_leaf" : tactic =>
  `(tactic| first
    | (simp [NP, spawn, updTask, updObs, updPlan, addTel, addSch, addBuf, collate]; done)
    | (simp [NP, spawn, updTask, updObs, updPlan, addTel, addSch, addBuf, collate]; omega))

macro "np" : tactic => `(tactic| ((repeat' split) <;> np_leaf))

theorem checkIngestCapacity_nextPid (s : Sys) (o : Obs) (s1 : Sys) (b : Bool)
    (h : s.checkIngestCapacity o = .ok (s1, b)) : s1.nextPid = s.nextPid := by
  unfold checkIngestCapacity at h
  split at h
  · simp at h
  · split at h
    · split at h
      · simp only [Except.ok.injEq, Prod.mk.injEq] at h
        obtain ⟨h1, h2⟩ := h
        subst h1
        split <;> rfl
      · simp only [Except.ok.injEq, Prod.mk.injEq] at h
        rw [← h.1]
    · simp only [Except.ok.injEq, Prod.mk.injEq] at h
      rw [← h.1]

theorem telescopeVisit_np (n : Nat) (acc : Sys × Option Err) (oid : Oid) :
    NP acc.1 (telescopeVisit n acc oid).1 := by
  unfold telescopeVisit
  split
  · exact NP.refl _
  · split
    · exact NP.refl _
    · simp only
      split
      · split
        · exact NP.refl _
        · rename_i s1 hc
          exact NP.of_eq (checkIngestCapacity_nextPid _ _ _ _ hc)
        · rename_i s1 hc
          have := checkIngestCapacity_nextPid _ _ _ _ hc
          simp [NP, spawn, updObs, addTel, this]
      · split
        · np_leaf
        · exact NP.refl _

theorem telescopeFold_np (n : Nat) (l : List Oid) (acc : Sys × Option Err) :
    NP acc.1 (l.foldl (telescopeVisit n) acc).1 := by
  induction l generalizing acc with
  | nil => exact NP.refl _
  | cons a rest ih => exact (telescopeVisit_np n acc a).trans (ih _)

theorem telescopeBlock_np (s : Sys) (now : Time) : NP s (s.telescopeBlock now).1 := by
  unfold telescopeBlock
  split
  · np_leaf
  · simp only
    split
    all_goals
      rename_i heq
      have h := congrArg Prod.fst heq
      simp only at h
      rw [← h]
      refine NP.trans ?_ (telescopeFold_np _ _ _)
      np_leaf

theorem schedLoopBlock_np (s : Sys) (now : Time) (orc : Oracle) :
    NP s (s.schedLoopBlock now orc).1 := by
  unfold schedLoopBlock
  simp only
  np

theorem bufferLoopBlock_np (s : Sys) (now : Time) : NP s (s.bufferLoopBlock now).1 := by
  unfold bufferLoopBlock
  simp only
  np

theorem hot2coldIter_np (s : Sys) (now : Time) (o : Oid) (left : Int) :
    NP s (s.hot2coldIter now o left).1 := by
  unfold hot2coldIter
  np

theorem hot2coldBlock_np (s : Sys) (now : Time) (cur : Option (Oid × Int)) :
    NP s (s.hot2coldBlock now cur).1 := by
  unfold hot2coldBlock
  split
  · exact hot2coldIter_np _ _ _ _
  · split
    · np_leaf
    · np_leaf
    · refine NP.trans ?_ (hot2coldIter_np _ _ _ _)
      np_leaf

theorem cold2hotIter_np (s : Sys) (now : Time) (o : Oid) (left : Int) :
    NP s (s.cold2hotIter now o left).1 := by
  unfold cold2hotIter
  np

theorem cold2hotBlock_np (s : Sys) (now : Time) (cur : Option (Oid × Int)) :
    NP s (s.cold2hotBlock now cur).1 := by
  unfold cold2hotBlock
  split
  · exact cold2hotIter_np _ _ _ _
  · split
    · np_leaf
    · np_leaf
    · refine NP.trans ?_ (cold2hotIter_np _ _ _ _)
      np_leaf

theorem allocIngestIter_np (s : Sys) (now : Time) (oid : Oid) (tl : Int) :
    NP s (s.allocIngestIter now oid tl).1 := by
  unfold allocIngestIter
  simp only
  np

theorem allocIngestBlock_np (s : Sys) (now : Time) (pc : Nat) (oid : Oid) (tl : Int) :
    NP s (s.allocIngestBlock now pc oid tl).1 := by
  unfold allocIngestBlock
  split
  · simp only
    refine NP.trans ?_ (allocIngestIter_np _ _ _ _)
    np_leaf
  · exact allocIngestIter_np _ _ _ _

theorem provIngestBlock_np (s : Sys) (now : Time) (pc : Nat) (oid : Oid) (d : Nat) :
    NP s (s.provIngestBlock now pc oid d).1 := by
  unfold provIngestBlock
  split
  · simp only
    split
    · np_leaf
    · refine NP.trans ?_ (NP.foldl _ ?_ _ _)
      · np_leaf
      · intro s a; np_leaf
  · np_leaf

theorem ingestStreamIter_np (s : Sys) (now : Time) (oid : Oid) (tl : Int) :
    NP s (s.ingestStreamIter now oid tl).1 := by
  unfold ingestStreamIter
  np

theorem ingestStreamBlock_np (s : Sys) (now : Time) (pc : Nat) (oid : Oid) (tl : Int) :
    NP s (s.ingestStreamBlock now pc oid tl).1 := by
  unfold ingestStreamBlock
  split
  · split
    · np_leaf
    · split
      · np_leaf
      · simp only
        refine NP.trans ?_ (ingestStreamIter_np _ _ _ _)
        np_leaf
  · exact ingestStreamIter_np _ _ _ _

theorem allocTaskBlock_np (s : Sys) (now : Time) (t : Tid) (m : Mid) (preds : List Tid)
    (obs : Option Oid) (ing : Bool) (ret : Nat) :
    NP s (s.allocTaskBlock now t m preds obs ing ret).1 := by
  unfold allocTaskBlock
  simp only
  np

theorem updateCurrentPlan_nextPid (s : Sys) (oid : Oid) :
    (s.updateCurrentPlan oid).nextPid = s.nextPid := by
  unfold updateCurrentPlan
  split
  · rfl
  · simp only [updPlan]
    apply foldl_nextPid_eq
    intro s a
    repeat' split
    all_goals rfl

theorem processOne_np (now : Time) (oid : Oid) (st : PcsSt) (t : Tid) :
    NP st.s (processOne now oid st t).s := by
  unfold processOne
  simp only
  np

theorem processFold_np (now : Time) (oid : Oid) (l : List Tid) (st : PcsSt) :
    NP st.s (l.foldl (processOne now oid) st).s := by
  induction l generalizing st with
  | nil => exact NP.refl _
  | cons a rest ih => exact (processOne_np now oid st a).trans (ih _)

theorem processCurrentSchedule_np (s : Sys) (now : Time) (oid : Oid)
    (schedule pairs : List (Tid × Mid)) :
    NP s (processCurrentSchedule s now oid schedule pairs).s := by
  unfold processCurrentSchedule
  exact processFold_np now oid _ { s := s, schedule := schedule, pairs := pairs, curr := [] }

theorem allocTasksIter_np (s : Sys) (now : Time) (orc : Oracle) (oid : Oid)
    (schedule pairs : List (Tid × Mid)) (pool : List Tid) :
    NP s (s.allocTasksIter now orc oid schedule pairs pool).1 := by
  unfold allocTasksIter
  have hu := updateCurrentPlan_nextPid s oid
  simp only
  repeat' split
  all_goals first
    | (simp [NP, updPlan, addSch, addBuf, hu]; done)
    | (refine NP.trans ?_ (processCurrentSchedule_np _ _ _ _ _)
       simp [NP, updPlan, hu])

theorem allocTasksBlock_np (s : Sys) (now : Time) (orc : Oracle) (pc : Nat) (oid : Oid)
    (schedule pairs : List (Tid × Mid)) (pool : List Tid) (fin : Bool) :
    NP s (s.allocTasksBlock now orc pc oid schedule pairs pool fin).1 := by
  unfold allocTasksBlock
  split
  · np_leaf
  · split
    · simp only
      refine NP.trans ?_ (allocTasksIter_np _ _ _ _ _ _ _)
      apply NP.of_eq
      simp only [addSch]
      refine Eq.trans (foldl_nextPid_eq _ ?_ _ _) rfl
      intro s a; rfl
    · exact allocTasksIter_np _ _ _ _ _ _ _

theorem block_np (s : Sys) (p : Proc) (orc : Oracle) : NP s (s.block p orc).1 := by
  unfold block
  simp only
  split
  · exact NP.of_eq rfl
  · exact telescopeBlock_np _ _
  · exact NP.of_eq rfl
  · exact schedLoopBlock_np _ _ _
  · exact bufferLoopBlock_np _ _
  · exact allocIngestBlock_np _ _ _ _ _
  · exact provIngestBlock_np _ _ _ _ _
  · exact ingestStreamBlock_np _ _ _ _ _
  · exact allocTaskBlock_np _ _ _ _ _ _ _ _
  · exact NP.of_eq (doWorkBlock_spec _ _ _ _ _ _ _ _).2.1
  · exact allocTasksBlock_np _ _ _ _ _ _ _ _ _
  · exact hot2coldBlock_np _ _ _
  · exact cold2hotBlock_np _ _ _

theorem resume_np (s : Sys) (pid : Nat) (orc : Oracle) : NP s (s.resume pid orc).1 := by
  rcases resume_cases s pid orc with ⟨h1, _⟩ | ⟨q, _, _, _, f, _, hs⟩
  · rw [h1]; exact NP.refl s
  · have hb := block_np s q orc
    rcases hs with hs | ⟨e, hs⟩
    · rw [hs]; exact hb
    · rw [hs]; unfold NP; rw [nextPid_crash]; exact hb

end Sys

theorem simHandler_np (env : SimEnv) (s : Sys) (pid : Nat) (now : Time) :
    s.nextPid ≤ (simHandler env s pid now).1.nextPid := by
  rcases simHandler_cases env s pid now with ⟨hc, _⟩ | ⟨hc, _, _⟩
  · rw [hc]; exact Nat.le_refl _
  · rw [hc]; exact Sys.resume_np s pid _

theorem simHandler_spawned_ge (env : SimEnv) (s : Sys) (pid : Nat) (now : Time) :
    ∀ x ∈ (simHandler env s pid now).2.1, s.nextPid ≤ x := by
  rcases simHandler_cases env s pid now with ⟨hc, _⟩ | ⟨_, hc, _⟩
  · rw [hc]; simp
  · rw [hc]
    intro x hx
    simp only [List.mem_map, List.mem_range] at hx
    obtain ⟨i, _, rfl⟩ := hx
    omega

/-! ### the monitor's wake-ups are whole instants -/

namespace KState

variable {σ : Type}

theorem next_mem_time (r : σ × List Nat × Option Time) (heap : List HEntry) (eid : Nat)
    (e x : HEntry) (hx : x ∈ (next r heap eid e).heap) :
    x ∈ heap.erase e ∨ x.pid ∈ r.2.1 ∨
      ∃ d, r.2.2 = some d ∧ x.time = e.time + d ∧ x.pid = e.pid := by
  unfold next at hx
  split at hx
  · rename_i d hd
    rcases List.mem_append.mp hx with hx | hx
    · rcases pushInits_mem _ _ _ _ _ hx with h1 | ⟨_, _, h1⟩
      · exact Or.inl h1
      · exact Or.inr (Or.inl h1)
    · simp only [List.mem_singleton] at hx
      subst hx
      exact Or.inr (Or.inr ⟨d, hd, rfl, rfl⟩)
  · rcases pushInits_mem _ _ _ _ _ hx with h1 | ⟨_, _, h1⟩
    · exact Or.inl h1
    · exact Or.inr (Or.inl h1)

/-- a run until `u` followed, from the start again, by a run until `v ≥ u`:
the second passes through the end of the first -/
theorem runsTo_split (h : Handler σ) (u v : Time) (k ku k2 : KState σ) (huv : u ≤ v)
    (h1 : RunsTo h u k ku) (h2 : RunsTo h v k k2) : RunsTo h v ku k2 := by
  induction h1 with
  | idle k hp => exact h2
  | stop k e hp hu => exact h2
  | step k k' k'' e hp hlt hs _ ih =>
    cases h2 with
    | idle _ hp' => rw [hp] at hp'; cases hp'
    | stop _ e' hp' hv =>
      rw [hp] at hp'; cases hp'
      exact absurd hlt (by grind)
    | step _ k1 _ e' _ _ hs' hr' =>
      rw [hs] at hs'; cases hs'
      exact ih hr'

end KState

open KState

/-- process ids are not reused and every wake-up of pid 0 is at a whole
instant not after `u` -/
def MonTimes (u : Nat) (k : SimState) : Prop :=
  1 ≤ k.st.nextPid ∧ ∀ x ∈ k.heap, x.pid = 0 → ∃ n : Nat, x.time = (n : Time) ∧ n ≤ u

theorem MonTimes.step (env : SimEnv) (u : Nat) (k k' : SimState) (mt : MonTimes u k)
    (hmon : k.st.isMon) (e : HEntry) (hp : k.peek = some e) (hlt : e.time < (u : Time))
    (hs : k.step (simHandler env) = some k') : MonTimes u k' := by
  obtain ⟨hnp, htimes⟩ := mt
  obtain ⟨he, _⟩ := peek_spec k e hp
  rw [step_next _ _ e hp] at hs
  cases hs
  refine ⟨?_, ?_⟩
  · rw [next_st]
    exact Nat.le_trans hnp (simHandler_np env _ _ _)
  · intro x hx hx0
    rcases next_mem_time _ _ _ _ _ hx with h1 | h1 | ⟨d, hd, hxt, hxp⟩
    · exact htimes x (List.mem_of_mem_erase h1) hx0
    · exfalso
      have := simHandler_spawned_ge env k.st e.pid e.time x.pid h1
      omega
    · have he0 : e.pid = 0 := by rw [← hxp]; exact hx0
      obtain ⟨n, hn, _⟩ := htimes e he he0
      rw [he0, (simHandler_mon env k.st e.time hmon).2] at hd
      cases hd
      have hnu : n < u := by
        rw [hn] at hlt
        exact_mod_cast hlt
      refine ⟨n + 1, ?_, hnu⟩
      rw [hxt, hn]
      push_cast
      rfl

theorem MonTimes.start (u : Nat) (s : Sys) : MonTimes u (SimState.start s) := by
  refine ⟨?_, ?_⟩
  · simp [SimState.start, Sys.start, Sys.spawn]
  · intro x hx _
    rw [(SimState.start_heap s).1] at hx
    simp only [List.mem_cons, List.not_mem_nil, or_false] at hx
    refine ⟨0, ?_, Nat.zero_le _⟩
    rcases hx with rfl | rfl | rfl | rfl | rfl <;> simp

theorem MonTimes.runsTo (env : SimEnv) (u : Nat) (k k' : SimState) (inv : MonFirst k)
    (mt : MonTimes u k) (hr : RunsTo (simHandler env) (u : Time) k k') :
    MonFirst k' ∧ MonTimes u k' := by
  induction hr with
  | idle k _ => exact ⟨inv, mt⟩
  | stop k e _ _ => exact ⟨inv, mt⟩
  | step k k1 k2 e hp hlt hs _ ih =>
    exact ih (MonFirst.step env k k1 inv hs) (MonTimes.step env u k k1 mt inv.mon e hp hlt hs)

theorem MonTimes.runUntil (env : SimEnv) (u : Nat) (fuel : Nat) (k : SimState)
    (inv : MonFirst k) (mt : MonTimes u k) :
    MonTimes u (SimState.runUntil env (u : Time) fuel k) := by
  induction fuel generalizing k with
  | zero => exact mt
  | succ n ih =>
    cases hhal : k.st.halted with
    | true => rw [SimState.runUntil_halted env _ n k hhal]; exact mt
    | false =>
      cases hp : k.peek with
      | none => rw [SimState.runUntil_none env _ n k hhal hp]; exact mt
      | some e =>
        by_cases hu : e.time < (u : Time)
        · obtain ⟨k1, hs⟩ := step_isSome (simHandler env) k e hp
          rw [SimState.runUntil_step env _ n k k1 e hhal hp hu hs]
          exact ih k1 (MonFirst.step env k k1 inv hs) (MonTimes.step env u k k1 mt inv.mon e hp hu hs)
        · rw [SimState.runUntil_stop env _ n k e hhal hp hu]; exact mt

/-- a state in which every event before `u` has been processed, with the two
invariants, is a step boundary -/
theorem Bdy.of_stopped (u : Nat) (k : SimState) (inv : MonFirst k) (mt : MonTimes u k)
    (hstop : ∀ e, k.peek = some e → (u : Time) ≤ e.time) : Bdy k := by
  obtain ⟨m, hm, _⟩ := inv.first
  cases hp : k.peek with
  | none =>
    rw [peek_none_iff] at hp
    rw [hp] at hm
    cases hm
  | some e =>
    have hue := hstop e hp
    obtain ⟨_, hleast⟩ := peek_spec k e hp
    apply Bdy.of_monFirst k inv (u : Time)
    · intro x hx
      have := hleast x hx
      rw [lt_false_iff] at this
      grind
    · intro x hx hx0
      obtain ⟨n, hn, hnu⟩ := mt.2 x hx hx0
      rw [hn]
      exact_mod_cast hnu

/-- the state in which `run(until=u)` returns is a step boundary -/
theorem Bdy.of_runsTo (env : SimEnv) (s : Sys) (h1 : s.procs = []) (h2 : s.nextPid = 0)
    (u : Nat) (ku : SimState) (hr : RunsTo (simHandler env) (u : Time) (SimState.start s) ku) :
    Bdy ku := by
  obtain ⟨inv, mt⟩ := MonTimes.runsTo env u _ ku (MonFirst.init s h1 h2) (MonTimes.start u s) hr
  apply Bdy.of_stopped u ku inv mt
  intro e hp
  rcases runsTo_stops _ _ _ _ hr with h | ⟨e', he', hu⟩
  · rw [h] at hp; cases hp
  · rw [he'] at hp; cases hp; exact hu

/-- … also for the executable loop, when it stopped because nothing before `u`
was left (not for lack of fuel, not because the run halted) -/
theorem Bdy.of_runUntil (env : SimEnv) (s : Sys) (h1 : s.procs = []) (h2 : s.nextPid = 0)
    (u fuel : Nat)
    (hstop : ∀ e, (SimState.runUntil env (u : Time) fuel (SimState.start s)).peek = some e →
      (u : Time) ≤ e.time) :
    Bdy (SimState.runUntil env (u : Time) fuel (SimState.start s)) :=
  Bdy.of_stopped u _ (MonFirst.runUntil env _ fuel _ (MonFirst.init s h1 h2))
    (MonTimes.runUntil env u fuel _ (MonFirst.init s h1 h2) (MonTimes.start u s)) hstop

/-! ### end to end -/

/-- `start(runtime=u)`, hand-over, `resume(until=v)` against the uninterrupted
`start(runtime=v)` -/
theorem pause_end_to_end (env : SimEnv) (s : Sys) (h1 : s.procs = []) (h2 : s.nextPid = 0)
    (u : Nat) (v : Time) (huv : (u : Time) ≤ v) (ku k1 k2 : SimState)
    (hu : RunsTo (simHandler env) (u : Time) (SimState.start s) ku)
    (hr : RunsTo (simHandler env) v { ku with st := ku.st.collate } k1)
    (hd : RunsTo (simHandler env) v (SimState.start s) k2) : PauseEq k1 k2 :=
  pause_runsTo_eq env v ku k1 k2 (Bdy.of_runsTo env s h1 h2 u ku hu) hr
    (runsTo_split _ _ _ _ _ _ huv hu hd)

/-- the executable form: `resume(until=v)` after `start(runtime=u)` — which
hands over at the pause — against `resume(until=v)` from the very state in
which the first run stopped -/
theorem pause_startUntil_resumeUntil (env : SimEnv) (s : Sys) (h1 : s.procs = [])
    (h2 : s.nextPid = 0) (u v fuel fuel' : Nat)
    (hstop : ∀ e, (SimState.runUntil env (u : Time) fuel (SimState.start s)).peek = some e →
      (u : Time) ≤ e.time) :
    PauseEq (SimState.resumeUntil env (SimState.startUntil env s u fuel) v fuel')
        (SimState.resumeUntil env (SimState.runUntil env (u : Time) fuel (SimState.start s)) v fuel') ∧
    ((SimState.resumeUntil env (SimState.runUntil env (u : Time) fuel (SimState.start s))
        v fuel').st.halted = false →
      SimState.resumeUntil env (SimState.startUntil env s u fuel) v fuel' =
        SimState.resumeUntil env (SimState.runUntil env (u : Time) fuel (SimState.start s)) v fuel') := by
  have hb := Bdy.of_runUntil env s h1 h2 u fuel hstop
  unfold SimState.startUntil
  simp only
  by_cases hhal : (SimState.runUntil env (u : Time) fuel (SimState.start s)).st.halted = true
  · simp only [hhal, if_true]
    refine ⟨PauseEq.of_eq rfl, ?_⟩
    intro _
    trivial
  · simp only [hhal]
    exact pause_resumeUntil env _ hb v fuel'

end Topsim
