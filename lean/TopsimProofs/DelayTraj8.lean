/-
  DelayTraj8 — the scheduler's delay report along a run:
  * `sched_sticky`: once DELAYED always DELAYED, whatever block runs;
  * `DI`: a FINISHED, flagged workflow task that has left its plan has been reported
    (shipped algorithms, run that has not raised, initial buffer empty);
  * `DJ`: a report has a source — a FINISHED flagged workflow task, or a plan-following
    algorithm returning the plan status DELAYED;
  * `DK`: the offset is non-negative and zero while nothing is reported.
-/
import TopsimProofs.DelayTraj7

namespace Topsim
namespace Sys

/-! ### sticky -/

theorem block_sched_sticky (s : Sys) (p : Proc) (orc : Oracle) (h : s.schedDelayed = true) :
    (s.block p orc).1.schedDelayed = true := by
  by_cases htag : p.k.tag = "allocTasks"
  · cases hk : p.k with
    | allocTasks o sc pa po fn =>
      rw [block_allocTasks orc hk]
      cases fn with
      | true => rw [allocTasksBlock_fin]; exact h
      | false =>
        rw [allocTasksBlock_eq, (allocTasksIter_sd _ _ _ _ _ _ _).2]
        left
        have h1 : (atStart s p.wake p.pc o).schedDelayed = true := by
          have := congrArg Prod.fst (atStart_sd s p.wake p.pc o)
          exact this.trans h
        have h2 := congrArg Prod.fst (updateCurrentPlan_sd (atStart s p.wake p.pc o) o)
        have h3 : ((atStart s p.wake p.pc o).updateCurrentPlan o).schedDelayed =
            (ucpFold (atStart s p.wake p.pc o) (ucpFin (atStart s p.wake p.pc o) o)).schedDelayed := h2
        rw [h3, (ucpFold_sd _ _).1]
        exact Or.inl h1
    | _ => rw [hk] at htag; simp [PK.tag] at htag
  · have := congrArg Prod.fst (block_sd s p orc htag)
    exact this.trans h

/-- **Once DELAYED always DELAYED**: no block of any process resets the report. -/
theorem sched_sticky (s : Sys) (pid : Nat) (orc : Oracle) (h : s.schedDelayed = true) :
    (s.resume pid orc).1.schedDelayed = true := by
  cases hp : s.proc? pid with
  | none => unfold resume; rw [hp]; exact h
  | some p =>
    cases ha : p.alive with
    | false => unfold resume; rw [hp]; simp only [ha, Bool.not_false, if_true]; exact h
    | true =>
      have := congrArg Prod.fst (resume_sd s pid orc p hp ha)
      exact this.trans (block_sched_sticky s p orc h)

/-! ### the invariants -/

/-- every FINISHED, flagged workflow task that has left the plan of its observation has been
reported -/
def DI (s : Sys) : Prop :=
  ∀ o c n r, s.task? (Tid.wf o c n) = some r → r.status = .finished → r.delayFlag = true →
    Tid.wf o c n ∉ planTasks s o → s.schedDelayed = true

structure DJ (s : Sys) : Prop where
  /-- a report has a source -/
  src : s.schedDelayed = true →
    (∃ t r, s.task? t = some r ∧ IsWf t ∧ r.status = .finished ∧ r.delayFlag = true) ∨
    s.alg = .dynamic ∨ s.alg = .greedy
  /-- only the plan-following algorithms mark a plan DELAYED -/
  plans : s.alg ≠ .dynamic → s.alg ≠ .greedy → ∀ pl ∈ s.plans, pl.status ≠ .delayed

def DK (s : Sys) : Prop := 0 ≤ s.delayOffset ∧ (s.schedDelayed = false → s.delayOffset = 0)

theorem DI.map {s X : Sys} (h : DI s) (g : TaskRec → TaskRec)
    (hg : ∀ r, (g r).id = r.id ∧ (g r).status = r.status ∧ (g r).delayFlag = r.delayFlag)
    (ht : X.tasks = s.tasks.map g) (hp : ∀ o, planTasks X o = planTasks s o)
    (hsd : s.schedDelayed = true → X.schedDelayed = true) : DI X := by
  intro o c n r' hr' hf hfl hnot
  rw [task?_map_of g (fun r => (hg r).1) ht] at hr'
  cases h0 : s.task? (Tid.wf o c n) with
  | none => rw [h0] at hr'; cases hr'
  | some r =>
    rw [h0] at hr'
    injection hr' with hr'
    subst hr'
    exact hsd (h o c n r h0 (by rw [← (hg r).2.1]; exact hf) (by rw [← (hg r).2.2]; exact hfl)
      (by rw [← hp]; exact hnot))

theorem DI.same {s X : Sys} (h : DI s) (ht : X.tasks = s.tasks) (hp : ∀ o, planTasks X o = planTasks s o)
    (hsd : s.schedDelayed = true → X.schedDelayed = true) : DI X :=
  h.map id (fun _ => ⟨rfl, rfl, rfl⟩) (by rw [ht, List.map_id]) hp hsd

/-- `_update_current_plan` reports what it removes -/
theorem DI.ucp {a : Sys} (h : DI a) (oid : Oid) : DI (a.updateCurrentPlan oid) := by
  intro o c n r hr hf hfl hnot
  have htq : (a.updateCurrentPlan oid).task? (Tid.wf o c n) = a.task? (Tid.wf o c n) := by
    unfold task?; rw [(updateCurrentPlan_core a oid).tasks]
  rw [htq] at hr
  have hsd : (a.updateCurrentPlan oid).schedDelayed =
      (ucpFold a (ucpFin a oid)).schedDelayed := congrArg Prod.fst (updateCurrentPlan_sd a oid)
  rw [hsd, (ucpFold_sd a _).1]
  by_cases hin : Tid.wf o c n ∈ planTasks a o
  · rcases planTasks_ucp a oid o _ hin with h1 | ⟨_, h1⟩
    · exact absurd h1 hnot
    · exact Or.inr ⟨_, h1, r, hr, hfl⟩
  · exact Or.inl (h o c n r hr hf hfl hin)

/-! ### one step -/

theorem resume_task? (s : Sys) (pid : Nat) (orc : Oracle) (p : Proc) (hp : s.proc? pid = some p)
    (ha : p.alive = true) (t : Tid) : (s.resume pid orc).1.task? t = (s.block p orc).1.task? t := by
  unfold task?
  rw [(resume_core s pid orc p hp ha).tasks]; rfl

theorem resume_planTasks (s : Sys) (pid : Nat) (orc : Oracle) (p : Proc) (hp : s.proc? pid = some p)
    (ha : p.alive = true) (o : Oid) : planTasks (s.resume pid orc).1 o = planTasks (s.block p orc).1 o :=
  planTasks_of_plans (resume_plans s pid orc p hp ha) o

/-- the outcomes of an `allocate_tasks` block that does not raise: the state `X` it leaves, with the
state `a3` after the algorithm's status has been recorded -/
inductive ATOk (s : Sys) (p : Proc) (orc : Oracle) (o0 : Oid) (sc0 pa0 : List (Tid × Mid)) (po0 : List Tid) :
    Sys → Prop
  | quiet (plan : Plan) (out : AlgOut) (X : Sys) :
      ((atStart s p.wake p.pc o0).updateCurrentPlan o0).plan? o0 = some plan →
      ((atStart s p.wake p.pc o0).updateCurrentPlan o0).runAlgorithm orc plan sc0 po0 = .ok out →
      X.tasks = (atS3 ((atStart s p.wake p.pc o0).updateCurrentPlan o0) out o0).tasks →
      X.plans = (atS3 ((atStart s p.wake p.pc o0).updateCurrentPlan o0) out o0).plans →
      sdOf X = sdOf (atS3 ((atStart s p.wake p.pc o0).updateCurrentPlan o0) out o0) →
      ATOk s p orc o0 sc0 pa0 po0 X
  | alloc (plan : Plan) (out : AlgOut) :
      ((atStart s p.wake p.pc o0).updateCurrentPlan o0).plan? o0 = some plan →
      ((atStart s p.wake p.pc o0).updateCurrentPlan o0).runAlgorithm orc plan sc0 po0 = .ok out →
      ATOk s p orc o0 sc0 pa0 po0
        (processCurrentSchedule (atS3 ((atStart s p.wake p.pc o0).updateCurrentPlan o0) out o0)
          p.wake o0 out.schedule pa0).s

theorem allocTasks_ok (s : Sys) (p : Proc) (orc : Oracle) {o0 : Oid} {sc0 pa0 : List (Tid × Mid)}
    {po0 : List Tid} (hk : p.k = .allocTasks o0 sc0 pa0 po0 false)
    (hnr : ∀ e, (s.block p orc).2.2 ≠ .raised e) : ATOk s p orc o0 sc0 pa0 po0 (s.block p orc).1 := by
  rw [block_allocTasks orc hk, allocTasksBlock_eq] at hnr ⊢
  have hout := allocTasksIter_out (atStart s p.wake p.pc o0) p.wake orc o0 sc0 pa0 po0
  generalize (atStart s p.wake p.pc o0).allocTasksIter p.wake orc o0 sc0 pa0 po0 = r at hout hnr
  cases hout with
  | noPlan _ => exact absurd rfl (hnr _)
  | algErr plan e _ _ => exact absurd rfl (hnr _)
  | finish plan out hplan hrun _ _ _ _ => exact ATOk.quiet plan out _ hplan hrun rfl rfl rfl
  | finishBad plan out _ _ _ _ _ _ => exact absurd rfl (hnr _)
  | finishWait plan out hplan hrun _ _ _ => exact ATOk.quiet plan out _ hplan hrun rfl rfl rfl
  | idle plan out hplan hrun _ _ => exact ATOk.quiet plan out _ hplan hrun rfl rfl rfl
  | alloc plan out y hplan hrun _ _ => exact ATOk.alloc plan out hplan hrun

/-- (A2) one step of a run that does not raise, shipped algorithm -/
theorem di_step {s : Sys} (hs : SInv s) (hwi : WI s) (hb : BufI s) (hno : s.alg ≠ .oracle) (hsu : SU s)
    (h : DI s) {pid : Nat} (hen : s.enabled pid) (orc : Oracle)
    (hc : (s.resume pid orc).1.crashed = none) : DI (s.resume pid orc).1 := by
  obtain ⟨p, hp, ha, _⟩ := hen
  obtain ⟨hpm, _⟩ := proc?_some hp
  obtain ⟨_, hnr⟩ := resume_nocrash s pid orc p hp ha hc
  have hsd : (s.resume pid orc).1.schedDelayed = (s.block p orc).1.schedDelayed :=
    congrArg Prod.fst (resume_sd s pid orc p hp ha)
  suffices hX : DI (s.block p orc).1 by
    intro o c n r hr hf hfl hnot
    rw [resume_task? s pid orc p hp ha] at hr
    rw [resume_planTasks s pid orc p hp ha] at hnot
    rw [hsd]; exact hX o c n r hr hf hfl hnot
  by_cases htag : p.k.tag = "allocTasks"
  · cases hk : p.k with
    | allocTasks o0 sc0 pa0 po0 fn0 =>
      cases fn0 with
      | true =>
        rw [block_allocTasks orc hk, allocTasksBlock_fin]; exact h
      | false =>
        -- the state before the algorithm runs
        obtain ⟨g, hg, hgt⟩ := atStart_rec s p.wake p.pc o0
        have ha0 : DI (atStart s p.wake p.pc o0) :=
          h.map g (fun r => ⟨(hg r).1, (hg r).2.1, (hg r).2.2.1⟩) hgt
            (fun o => atStart_planTasks_eq s p.wake p.pc o0 o)
            (fun hd => (congrArg Prod.fst (atStart_sd s p.wake p.pc o0)).trans hd)
        have ha1 := ha0.ucp o0
        have ha3 : ∀ out, DI (atS3 ((atStart s p.wake p.pc o0).updateCurrentPlan o0) out o0) := fun out =>
          ha1.same (atS3_tasks _ out o0) (fun o => atS3_planTasks _ out o0 o)
            (fun hd => (atS3_sd _ out o0).2.mpr (Or.inl hd))
        have hok := allocTasks_ok s p orc hk hnr
        generalize (s.block p orc).1 = X at hok
        cases hok with
        | quiet plan out X _ _ e1 e2 e3 =>
          exact (ha3 out).same e1 (fun o => planTasks_of_plans e2 o)
            (fun hd => (congrArg Prod.fst e3).trans hd)
        | alloc plan out hplan hrun =>
          obtain ⟨hnd, hsk⟩ := alloc_sched_keys hwi hno hsu hpm ha hk orc hplan hrun
          obtain ⟨new', hpcs⟩ := processCurrentSchedule_pcs
            (atS3 ((atStart s p.wake p.pc o0).updateCurrentPlan o0) out o0) p.wake o0 out.schedule pa0 hnd
          have hpl := processCurrentSchedule_plans
            (atS3 ((atStart s p.wake p.pc o0).updateCurrentPlan o0) out o0) p.wake o0 out.schedule pa0
          have hsdX := processCurrentSchedule_sd
            (atS3 ((atStart s p.wake p.pc o0).updateCurrentPlan o0) out o0) p.wake o0 out.schedule pa0
          have hnotin := @processCurrentSchedule_task?_notin
            (atS3 ((atStart s p.wake p.pc o0).updateCurrentPlan o0) out o0) p.wake o0 out.schedule pa0
          generalize processCurrentSchedule (atS3 ((atStart s p.wake p.pc o0).updateCurrentPlan o0) out o0)
            p.wake o0 out.schedule pa0 = st at hpcs hpl hsdX hnotin
          intro o c n r hr hf hfl hnot
          by_cases hin : Tid.wf o c n ∈ dictKeys out.schedule
          · exfalso
            have hts : tstat st.s (Tid.wf o c n) = .finished := by rw [tstat_eq, hr]; exact hf
            rcases hpcs.stat (Tid.wf o c n) with e | ⟨_, e, _⟩
            · rw [hts, (hsk _ hin).2] at e; cases e
            · rw [hts] at e; cases e
          · rw [hnotin hin] at hr
            rw [planTasks_of_plans hpl] at hnot
            have := ha3 out o c n r hr hf hfl hnot
            exact (congrArg Prod.fst hsdX).trans this
    | _ => rw [hk] at htag; simp [PK.tag] at htag
  · intro o c n r' hr' hf hfl hnot
    have hsdb : (s.block p orc).1.schedDelayed = s.schedDelayed := congrArg Prod.fst (block_sd s p orc htag)
    rw [hsdb]
    rcases block_fin_bwd hs hwi hb hpm ha orc htag hr' hf with ⟨r, hr, hrf, hrfl, hpt⟩ | hin
    · exact h o c n r hr hrf (by rw [hrfl]; exact hfl) (by rw [← hpt]; exact hnot)
    · exact absurd hin hnot

/-- (A3) one step of a run that does not raise, any algorithm -/
theorem dj_step {s : Sys} (hs : SInv s) (hwi : WI s) (h : DJ s)
    {pid : Nat} (hen : s.enabled pid) (orc : Oracle)
    (hc : (s.resume pid orc).1.crashed = none) : DJ (s.resume pid orc).1 := by
  obtain ⟨p, hp, ha, _⟩ := hen
  obtain ⟨hpm, _⟩ := proc?_some hp
  obtain ⟨_, hnr⟩ := resume_nocrash s pid orc p hp ha hc
  have hsd : (s.resume pid orc).1.schedDelayed = (s.block p orc).1.schedDelayed :=
    congrArg Prod.fst (resume_sd s pid orc p hp ha)
  have halg : (s.resume pid orc).1.alg = s.alg := resume_alg s pid orc
  have hplans : (s.resume pid orc).1.plans = (s.block p orc).1.plans := resume_plans s pid orc p hp ha
  -- it is enough to look at the state the block leaves
  suffices hX : (((s.block p orc).1.schedDelayed = true →
      (∃ t r, (s.block p orc).1.task? t = some r ∧ IsWf t ∧ r.status = .finished ∧ r.delayFlag = true) ∨
      s.alg = .dynamic ∨ s.alg = .greedy) ∧
      (s.alg ≠ .dynamic → s.alg ≠ .greedy → ∀ pl ∈ (s.block p orc).1.plans, pl.status ≠ .delayed)) by
    constructor
    · intro hd
      rw [hsd] at hd
      rw [halg]
      rcases hX.1 hd with ⟨t, r, hr, hw, hf, hfl⟩ | h2
      · exact Or.inl ⟨t, r, by rw [resume_task? s pid orc p hp ha]; exact hr, hw, hf, hfl⟩
      · exact Or.inr h2
    · rw [halg, hplans]; exact hX.2
  by_cases htag : p.k.tag = "allocTasks"
  · cases hk : p.k with
    | allocTasks o0 sc0 pa0 po0 fn0 =>
      cases fn0 with
      | true =>
        rw [block_allocTasks orc hk, allocTasksBlock_fin]; exact ⟨h.src, h.plans⟩
      | false =>
        obtain ⟨g, hg, hgt⟩ := atStart_rec s p.wake p.pc o0
        have hwi0 : WI (atStart s p.wake p.pc o0) := hwi.started p.wake p.pc o0
        -- a witness in `s` is a witness after the plan stamp
        have hwit0 : ∀ t r, s.task? t = some r → r.status = .finished → r.delayFlag = true →
            ∃ r', (atStart s p.wake p.pc o0).task? t = some r' ∧ r'.status = .finished ∧ r'.delayFlag = true := by
          intro t r hr hf hfl
          refine ⟨g r, by rw [task?_map_of g (fun r => (hg r).1) hgt, hr]; rfl, ?_, ?_⟩
          · rw [(hg r).2.1]; exact hf
          · rw [(hg r).2.2.1]; exact hfl
        have htq1 : ∀ t, ((atStart s p.wake p.pc o0).updateCurrentPlan o0).task? t =
            (atStart s p.wake p.pc o0).task? t := fun t => by
          unfold task?; rw [(updateCurrentPlan_core _ o0).tasks]
        have htq3 : ∀ out t, (atS3 ((atStart s p.wake p.pc o0).updateCurrentPlan o0) out o0).task? t =
            (atStart s p.wake p.pc o0).task? t := fun out t => by
          rw [← htq1 t]; unfold task?; rw [atS3_tasks]
        -- the report after the pruning has a source in the state after the plan stamp
        have hsrc1 : ((atStart s p.wake p.pc o0).updateCurrentPlan o0).schedDelayed = true →
            (∃ t r, (atStart s p.wake p.pc o0).task? t = some r ∧ IsWf t ∧ r.status = .finished ∧
              r.delayFlag = true) ∨ s.alg = .dynamic ∨ s.alg = .greedy := by
          intro hd
          have e : ((atStart s p.wake p.pc o0).updateCurrentPlan o0).schedDelayed =
              (ucpFold (atStart s p.wake p.pc o0) (ucpFin (atStart s p.wake p.pc o0) o0)).schedDelayed :=
            congrArg Prod.fst (updateCurrentPlan_sd _ o0)
          rw [e, (ucpFold_sd _ _).1] at hd
          rcases hd with hd | ⟨t, ht, r, hr, hfl⟩
          · have : s.schedDelayed = true := (congrArg Prod.fst (atStart_sd s p.wake p.pc o0)).symm.trans hd
            rcases h.src this with ⟨t, r, hr, hw, hf, hfl⟩ | h2
            · obtain ⟨r', g1, g2, g3⟩ := hwit0 t r hr hf hfl
              exact Or.inl ⟨t, r', g1, hw, g2, g3⟩
            · exact Or.inr h2
          · obtain ⟨hin, hfin⟩ := ucpFin_spec ht
            obtain ⟨c, n, e⟩ := planTasks_wf hwi0.pt hin
            rw [tstat_eq, hr] at hfin
            exact Or.inl ⟨t, r, hr, ⟨o0, c, n, e⟩, hfin, hfl⟩
        -- plan statuses before the algorithm runs
        have hst1 : s.alg ≠ .dynamic → s.alg ≠ .greedy →
            ∀ pl ∈ ((atStart s p.wake p.pc o0).updateCurrentPlan o0).plans, pl.status ≠ .delayed := by
          intro h1 h2 pl hpl
          obtain ⟨pl1, hm1, e1⟩ := ucp_plan_status _ o0 pl hpl
          obtain ⟨pl0, hm0, e0⟩ := atStart_plan_status s p.wake p.pc o0 pl1 hm1
          rw [e1, e0]; exact h.plans h1 h2 pl0 hm0
        have halg1 : ((atStart s p.wake p.pc o0).updateCurrentPlan o0).alg = s.alg := by
          rw [updateCurrentPlan_alg, atStart_alg]
        -- the algorithm's status
        have hout : ∀ plan out, ((atStart s p.wake p.pc o0).updateCurrentPlan o0).plan? o0 = some plan →
            ((atStart s p.wake p.pc o0).updateCurrentPlan o0).runAlgorithm orc plan sc0 po0 = .ok out →
            out.status = .delayed → s.alg = .dynamic ∨ s.alg = .greedy := by
          intro plan out hplan hrun hd
          rcases runAlgorithm_delayed _ orc plan sc0 po0 out hrun hd with h1 | h1
          · by_cases hdy : s.alg = .dynamic
            · exact Or.inl hdy
            · by_cases hgr : s.alg = .greedy
              · exact Or.inr hgr
              · exact absurd h1 (hst1 hdy hgr plan (plan?_mem hplan).1)
          · rw [halg1] at h1; exact h1
        have hsrc3 : ∀ plan out, ((atStart s p.wake p.pc o0).updateCurrentPlan o0).plan? o0 = some plan →
            ((atStart s p.wake p.pc o0).updateCurrentPlan o0).runAlgorithm orc plan sc0 po0 = .ok out →
            (atS3 ((atStart s p.wake p.pc o0).updateCurrentPlan o0) out o0).schedDelayed = true →
            (∃ t r, (atStart s p.wake p.pc o0).task? t = some r ∧ IsWf t ∧ r.status = .finished ∧
              r.delayFlag = true) ∨ s.alg = .dynamic ∨ s.alg = .greedy := by
          intro plan out hplan hrun hd
          rcases (atS3_sd _ out o0).2.mp hd with h1 | h1
          · exact hsrc1 h1
          · exact Or.inr (hout plan out hplan hrun h1)
        have hst3 : ∀ plan out, ((atStart s p.wake p.pc o0).updateCurrentPlan o0).plan? o0 = some plan →
            ((atStart s p.wake p.pc o0).updateCurrentPlan o0).runAlgorithm orc plan sc0 po0 = .ok out →
            s.alg ≠ .dynamic → s.alg ≠ .greedy →
            ∀ pl ∈ (atS3 ((atStart s p.wake p.pc o0).updateCurrentPlan o0) out o0).plans, pl.status ≠ .delayed := by
          intro plan out hplan hrun h1 h2 pl hpl
          rcases atS3_plan_status _ out o0 pl hpl with ⟨pl1, hm1, e1⟩ | e1
          · rw [e1]; exact hst1 h1 h2 pl1 hm1
          · rw [e1]
            intro hd
            rcases hout plan out hplan hrun hd with h3 | h3
            · exact h1 h3
            · exact h2 h3
        have hok := allocTasks_ok s p orc hk hnr
        generalize (s.block p orc).1 = X at hok
        cases hok with
        | quiet plan out X hplan hrun e1 e2 e3 =>
          refine ⟨fun hd => ?_, fun h1 h2 => by rw [e2]; exact hst3 plan out hplan hrun h1 h2⟩
          have hd' : (atS3 ((atStart s p.wake p.pc o0).updateCurrentPlan o0) out o0).schedDelayed = true :=
            (congrArg Prod.fst e3).symm.trans hd
          rcases hsrc3 plan out hplan hrun hd' with ⟨t, r, hr, hw, hf, hfl⟩ | h2
          · refine Or.inl ⟨t, r, ?_, hw, hf, hfl⟩
            have : X.task? t = (atS3 ((atStart s p.wake p.pc o0).updateCurrentPlan o0) out o0).task? t := by
              unfold task?; rw [e1]
            rw [this, htq3]; exact hr
          · exact Or.inr h2
        | alloc plan out hplan hrun =>
          refine ⟨fun hd => ?_, fun h1 h2 => by
            rw [processCurrentSchedule_plans]; exact hst3 plan out hplan hrun h1 h2⟩
          have hd' : (atS3 ((atStart s p.wake p.pc o0).updateCurrentPlan o0) out o0).schedDelayed = true :=
            (congrArg Prod.fst (processCurrentSchedule_sd _ p.wake o0 out.schedule pa0)).symm.trans hd
          rcases hsrc3 plan out hplan hrun hd' with ⟨t, r, hr, hw, hf, hfl⟩ | h2
          · rw [← htq3 out t] at hr
            obtain ⟨r', g1, g2, g3⟩ := processCurrentSchedule_keep_fin _ p.wake o0 out.schedule pa0 hr hf hfl
            exact Or.inl ⟨t, r', g1, hw, g2, g3⟩
          · exact Or.inr h2
    | _ => rw [hk] at htag; simp [PK.tag] at htag
  · have hsdb : (s.block p orc).1.schedDelayed = s.schedDelayed := congrArg Prod.fst (block_sd s p orc htag)
    constructor
    · intro hd
      rw [hsdb] at hd
      rcases h.src hd with ⟨t, r, hr, hw, hf, hfl⟩ | h2
      · exact Or.inl ⟨t, r, block_fin_fwd hs hwi hpm ha orc htag hw hr hf, hw, hf, hfl⟩
      · exact Or.inr h2
    · intro h1 h2 pl hpl
      by_cases hsl : p.k.tag = "schedLoop"
      · cases hk : p.k with
        | schedLoop =>
          rw [block_schedLoop orc hk] at hpl
          rcases schedLoopBlock_buf s p.wake orc with ⟨_, hpl', _, _, _⟩ |
            ⟨oid, o1, recs, plan, _, _, hrp, _, hpl', _, _⟩
          · rw [hpl'] at hpl; exact h.plans h1 h2 pl hpl
          · rw [hpl'] at hpl
            rcases List.mem_append.mp hpl with hm | hm
            · exact h.plans h1 h2 pl (List.mem_filter.mp hm).1
            · simp only [List.mem_singleton] at hm
              subst hm
              rw [(planOf_facts o1 (natNow p.wake) s.staticPlan orc.plan recs pl hrp).2.1]; simp
        | _ => rw [hk] at hsl; simp [PK.tag] at hsl
      · rw [block_plans s p orc hsl htag] at hpl
        exact h.plans h1 h2 pl hpl

/-- the offset: one step (any run) -/
theorem dk_step {s : Sys} (hrec : ∀ t r, s.task? t = some r → 0 ≤ r.delayOffset) (h : DK s)
    {pid : Nat} (hen : s.enabled pid) (orc : Oracle) : DK (s.resume pid orc).1 := by
  obtain ⟨p, hp, ha, _⟩ := hen
  have hsd := resume_sd s pid orc p hp ha
  have e1 : (s.resume pid orc).1.schedDelayed = (s.block p orc).1.schedDelayed := congrArg Prod.fst hsd
  have e2 : (s.resume pid orc).1.delayOffset = (s.block p orc).1.delayOffset := congrArg Prod.snd hsd
  unfold DK
  rw [e1, e2]
  by_cases htag : p.k.tag = "allocTasks"
  · cases hk : p.k with
    | allocTasks o0 sc0 pa0 po0 fn0 =>
      rw [block_allocTasks orc hk]
      cases fn0 with
      | true => rw [allocTasksBlock_fin]; exact h
      | false =>
        rw [allocTasksBlock_eq]
        obtain ⟨g1, g2⟩ := allocTasksIter_sd (atStart s p.wake p.pc o0) p.wake orc o0 sc0 pa0 po0
        obtain ⟨g, hg, hgt⟩ := atStart_rec s p.wake p.pc o0
        have hrec0 : ∀ t r, (atStart s p.wake p.pc o0).task? t = some r → 0 ≤ r.delayOffset := by
          intro t r hr
          rw [task?_map_of g (fun r => (hg r).1) hgt] at hr
          cases h0 : s.task? t with
          | none => rw [h0] at hr; cases hr
          | some r0 =>
            rw [h0] at hr
            injection hr with hr
            rw [← hr, (hg r0).2.2.2]; exact hrec t r0 h0
        have hsd0 : sdOf (atStart s p.wake p.pc o0) = sdOf s := atStart_sd s p.wake p.pc o0
        have hsd1 : sdOf ((atStart s p.wake p.pc o0).updateCurrentPlan o0) =
            sdOf (ucpFold (atStart s p.wake p.pc o0) (ucpFin (atStart s p.wake p.pc o0) o0)) :=
          updateCurrentPlan_sd _ o0
        obtain ⟨f1, f2, f3⟩ := ucpFold_sd (atStart s p.wake p.pc o0) (ucpFin (atStart s p.wake p.pc o0) o0)
        have k1 : ((atStart s p.wake p.pc o0).updateCurrentPlan o0).delayOffset =
            (ucpFold (atStart s p.wake p.pc o0) (ucpFin (atStart s p.wake p.pc o0) o0)).delayOffset :=
          congrArg Prod.snd hsd1
        have k2 : ((atStart s p.wake p.pc o0).updateCurrentPlan o0).schedDelayed =
            (ucpFold (atStart s p.wake p.pc o0) (ucpFin (atStart s p.wake p.pc o0) o0)).schedDelayed :=
          congrArg Prod.fst hsd1
        have k3 : (atStart s p.wake p.pc o0).delayOffset = s.delayOffset := congrArg Prod.snd hsd0
        have k4 : (atStart s p.wake p.pc o0).schedDelayed = s.schedDelayed := congrArg Prod.fst hsd0
        rw [g1, k1]
        constructor
        · have := f2 hrec0
          rw [k3] at this
          exact Int.le_trans h.1 this
        · intro hfalse
          have hn1 : ((atStart s p.wake p.pc o0).updateCurrentPlan o0).schedDelayed ≠ true := by
            intro ht
            have := g2.mpr (Or.inl ht)
            rw [hfalse] at this; cases this
          rw [k2] at hn1
          have hn1 := fun hx => hn1 (f1.mpr hx)
          have hno : ∀ t ∈ ucpFin (atStart s p.wake p.pc o0) o0, ∀ r,
              (atStart s p.wake p.pc o0).task? t = some r → r.delayFlag = false := by
            intro t ht r hr
            cases hb : r.delayFlag with
            | false => rfl
            | true => exact absurd (Or.inr ⟨t, ht, r, hr, hb⟩) hn1
          have k5 : (ucpFold (atStart s p.wake p.pc o0) (ucpFin (atStart s p.wake p.pc o0) o0)).delayOffset =
              (atStart s p.wake p.pc o0).delayOffset := congrArg Prod.snd (f3 hno)
          rw [k5, k3]
          apply h.2
          cases hb : s.schedDelayed with
          | false => rfl
          | true =>
            exfalso
            apply hn1
            exact Or.inl (k4.trans hb)
    | _ => rw [hk] at htag; simp [PK.tag] at htag
  · have hb := block_sd s p orc htag
    have k1 : (s.block p orc).1.schedDelayed = s.schedDelayed := congrArg Prod.fst hb
    have k2 : (s.block p orc).1.delayOffset = s.delayOffset := congrArg Prod.snd hb
    rw [k1, k2]
    exact h

/-! ### along a run -/

theorem di_start (s0 : Sys) (hw : WFConfig s0) : DI s0.start := by
  intro o c n r hr
  have ht : s0.start.tasks = [] := by rw [← hw.fresh.2.2.1]; simp [start, spawn]
  unfold task? at hr
  rw [ht] at hr; simp at hr

theorem reachOk_di (s0 s : Sys) (hw : WFConfig s0) (hbuf : bufList s0.buf = []) (hno : s0.alg ≠ .oracle)
    (h : ReachOk s0 s) : s.crashed = none → DI s := by
  induction h with
  | start => exact fun _ => di_start s0 hw
  | step s pid orc hr hen _ ih =>
    intro hc
    obtain ⟨p, hp, ha, hmin⟩ := hen
    obtain ⟨hc0, _⟩ := resume_nocrash s pid orc p hp ha hc
    exact di_step (reach_inv s0 s hw hr) (reachOk_wi s0 s hw hbuf hr hc0) (reachOk_bufi s0 s hw hbuf hr)
      (by rw [reach_alg hr.toReach]; exact hno) (reachOk_su s0 s hw hbuf hno hr hc0) (ih hc0)
      ⟨p, hp, ha, hmin⟩ orc hc

theorem dj_start (s0 : Sys) (hw : WFConfig s0) (hsd0 : s0.schedDelayed = false) : DJ s0.start := by
  constructor
  · intro hd
    have : s0.start.schedDelayed = s0.schedDelayed := congrArg Prod.fst (start_sd s0)
    rw [this, hsd0] at hd; cases hd
  · intro _ _ pl hpl
    have : s0.start.plans = [] := by rw [← hw.fresh.2.2.2.1]; simp [start, spawn]
    rw [this] at hpl; simp at hpl

theorem reachOk_dj (s0 s : Sys) (hw : WFConfig s0) (hbuf : bufList s0.buf = [])
    (hsd0 : s0.schedDelayed = false) (h : ReachOk s0 s) : s.crashed = none → DJ s := by
  induction h with
  | start => exact fun _ => dj_start s0 hw hsd0
  | step s pid orc hr hen _ ih =>
    intro hc
    obtain ⟨p, hp, ha, hmin⟩ := hen
    obtain ⟨hc0, _⟩ := resume_nocrash s pid orc p hp ha hc
    exact dj_step (reach_inv s0 s hw hr) (reachOk_wi s0 s hw hbuf hr hc0) (ih hc0) ⟨p, hp, ha, hmin⟩ orc hc

theorem reachOk_dk (s0 s : Sys) (hw : WFConfig s0) (hoff0 : s0.delayOffset = 0) (h : ReachOk s0 s) : DK s := by
  induction h with
  | start =>
    have : s0.start.delayOffset = s0.delayOffset := congrArg Prod.snd (start_sd s0)
    unfold DK
    rw [this, hoff0]
    exact ⟨Int.le_refl _, fun _ => rfl⟩
  | step s pid orc hr hen _ ih =>
    exact dk_step (fun t r hr' => ((reachD_delInv s0 s hw hr.toD).recs t r hr').nonneg) ih hen orc

end Sys
end Topsim
