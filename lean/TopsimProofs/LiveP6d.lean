/-
  LiveP6d — the declarations of Live6d.lean that depend on the configuration structures, restated for
  the plan-following configurations (`LivePCfg`, `NcPCfg`, `L7PLib`); the proofs are those of Live6d.lean.
-/
import TopsimProofs.LiveP6c

namespace Topsim

open KState Sys

namespace Sys

end Sys

section

variable {env : SimEnv} {s0 : Sys}

/-- a property of the kind of a process that every block keeps holds along the run -/
theorem live_kind_inv_P (C : LivePCfg env s0) (K : LiveKernel env s0) (Q : PK → Prop)
    (hQ : ∀ (s : Sys) (p : Proc) (orc : Oracle), Q p.k → Q (s.block p orc).2.1) {n pid : Nat} {a : Proc}
    (hp : (simAt env s0 n).st.proc? pid = some a) (hq : Q a.k) :
    ∀ j, n ≤ j → ∃ a', (simAt env s0 j).st.proc? pid = some a' ∧ Q a'.k := by
  intro j
  induction j with
  | zero =>
    intro h
    have : n = 0 := by omega
    subst this
    exact ⟨a, hp, hq⟩
  | succ j ih =>
    intro h
    by_cases e : n = j + 1
    · subst e; exact ⟨a, hp, hq⟩
    · obtain ⟨a', hp', hq'⟩ := ih (by omega)
      obtain ⟨e, p, hpk, hpp, _, _, _, _⟩ := live_blk_P C K j
      by_cases hne : pid = e.pid
      · subst hne
        rw [hp'] at hpp; cases hpp
        refine ⟨_, live_blk_self_P C K hpk hp', ?_⟩
        rw [fin_k]
        exact hQ _ _ _ hq'
      · exact ⟨a', live_blk_other_P C K hpk hp' hne, hq'⟩

/-- FINISHED is final -/
theorem live_fin_mono_P (C : LivePCfg env s0) (K : LiveKernel env s0) {n j : Nat} (h : n ≤ j) {o : Oid}
    {ob : Obs} (hob : (simAt env s0 n).st.obs? o = some ob) (hf : ob.status = .finished) :
    ∃ ob', (simAt env s0 j).st.obs? o = some ob' ∧ ob'.status = .finished := by
  obtain ⟨ob', hob', hr, _⟩ := SimPath.status_mono C.hw (K.reach n) (simAt_path env s0 n j h) hob
  refine ⟨ob', hob', ?_⟩
  rw [hf] at hr
  revert hr
  cases ob'.status <;> simp [obsRank]

/-- a process whose next block, once its observation is FINISHED, is its last one, ends -/
theorem live_ends_of_fin_P (C : LivePCfg env s0) (K : LiveKernel env s0) (Q : PK → Prop)
    (hQ : ∀ (s : Sys) (p : Proc) (orc : Oracle), Q p.k → Q (s.block p orc).2.1) {o : Oid}
    (hlast : ∀ (j : Nat) (p : Proc) (ob : Obs), (simAt env s0 j).st.proc? p.pid = some p → p.alive = true →
      Q p.k → (simAt env s0 j).st.obs? o = some ob → ob.status = .finished →
      ((simAt env s0 j).st.block p (env.oracle (simAt env s0 j).st)).2.2 = .done)
    {n pid : Nat} {p : Proc} (hp : (simAt env s0 n).st.proc? pid = some p) (hq : Q p.k)
    {ob : Obs} {a : Nat} (hob : (simAt env s0 n).st.obs? o = some ob) (hast : ob.ast = some a) :
    ∃ n', n ≤ n' ∧ ∃ p', (simAt env s0 n').st.proc? pid = some p' ∧ p'.alive = false := by
  obtain ⟨n1, hle1, ob1, hob1, hf1⟩ := live_obs_finishes_P C K hob hast
  obtain ⟨p1, hp1, hq1⟩ := live_kind_inv_P C K Q hQ hp hq n1 hle1
  cases ha1 : p1.alive with
  | false => exact ⟨n1, hle1, p1, hp1, ha1⟩
  | true =>
    obtain ⟨n2, hle2, hpp, _, _, _, _, hself⟩ := live_next_blk_P C K hp1 ha1
    obtain ⟨ob2, hob2, hf2⟩ := live_fin_mono_P C K hle2 hob1 hf1
    have hpid : p1.pid = pid := proc?_pid _ _ _ hp1
    have hdone := hlast n2 p1 ob2 (by rw [hpid]; exact hpp) ha1 hq1 hob2 hf2
    refine ⟨n2 + 1, by omega, _, hself, ?_⟩
    rw [hdone]
    rfl

/-- the record of the observation of an ingest stream has a recorded start -/
theorem live_stream_obs_P (C : LivePCfg env s0) (K : LiveKernel env s0) {n pid : Nat} {p : Proc}
    (hp : (simAt env s0 n).st.proc? pid = some p) {o tl} (hk : p.k = .ingestStream o tl) :
    ∃ ob a, (simAt env s0 n).st.obs? o = some ob ∧ ob.ast = some a := by
  have hstr := reach_strI s0 _ C.hw (live_reachOk_P C K n).toReach
  obtain ⟨ob, hob, hnw⟩ := hstr.begun p (proc?_some hp).1 o tl hk
  have hob' : (simAt env s0 n).st.obs? o = some ob := hob
  have hA := sim_otAst env s0 C.hw _ (K.reach n)
  cases hast : ob.ast with
  | none => exact absurd (hA.wait o ob hob' hast) hnw
  | some a => exact ⟨ob, a, hob', hast⟩

/-- **P6.** the ingest stream of an observation ends -/
theorem live_ingestStream_ends_P (C : LivePCfg env s0) (K : LiveKernel env s0) {n pid : Nat} {p : Proc}
    (hp : (simAt env s0 n).st.proc? pid = some p) (_ha : p.alive = true) {o tl}
    (hk : p.k = .ingestStream o tl) :
    ∃ n', n ≤ n' ∧ ∃ p', (simAt env s0 n').st.proc? pid = some p' ∧ p'.alive = false := by
  obtain ⟨ob, a, hob, hast⟩ := live_stream_obs_P C K hp hk
  refine live_ends_of_fin_P C K (fun k => ∃ tl, k = .ingestStream o tl) ?_ ?_ hp ⟨tl, hk⟩ hob hast
  · rintro s p orc ⟨tl0, hk0⟩
    rw [block_ingestStream _ hk0]
    exact ingestStreamBlock_k _ _ _ _ _
  · rintro j p1 ob1 _ _ ⟨tl1, hk1⟩ hob1 hf1
    rw [block_ingestStream _ hk1]
    exact ingestStreamBlock_fin _ _ _ _ _ hob1 hf1

/-- **P6.** the ingest supervisor of an observation ends -/
theorem live_allocIngest_ends_P (C : LivePCfg env s0) (K : LiveKernel env s0) {n pid : Nat} {p : Proc}
    (hp : (simAt env s0 n).st.proc? pid = some p) (ha : p.alive = true) {o tl}
    (hk : p.k = .allocIngest o tl) :
    ∃ n', n ≤ n' ∧ ∃ p', (simAt env s0 n').st.proc? pid = some p' ∧ p'.alive = false := by
  have hti := fun j => ((K.reach j).l3inv C.hw).ti
  have hrec : ∃ ob a, (simAt env s0 n).st.obs? o = some ob ∧ ob.ast = some a := by
    by_cases hpc : p.pc = 0
    · obtain ⟨a, ob, _, hob, hast, _⟩ := (hti n).aiNew p (proc?_some hp).1 o tl hk hpc
      exact ⟨ob, a, hob, hast⟩
    · obtain ⟨ob, a, _, hob, hast, _⟩ := (hti n).aiRun p (proc?_some hp).1 ha (by omega) o tl hk
      exact ⟨ob, a, hob, hast⟩
  obtain ⟨ob, a, hob, hast⟩ := hrec
  refine live_ends_of_fin_P C K (fun k => ∃ tl, k = .allocIngest o tl) ?_ ?_ hp ⟨tl, hk⟩ hob hast
  · rintro s p orc ⟨tl0, hk0⟩
    rw [block_allocIngest _ hk0]
    exact (allocIngestBlock_E _ _ _ _ _).2.1
  · rintro j p1 ob1 hp1 ha1 ⟨tl1, hk1⟩ hob1 hf1
    rw [block_allocIngest _ hk1]
    unfold allocIngestBlock
    by_cases hpc : p1.pc = 0
    · -- a supervisor that has not run yet finds its observation WAITING
      exfalso
      obtain ⟨_, ob2, _, hob2, _, hw⟩ := (hti j).aiNew p1 (proc?_some hp1).1 o tl1 hk1 hpc
      rw [hob1] at hob2; cases hob2
      rw [hw ha1] at hf1; cases hf1
    · rw [if_neg hpc]
      exact allocIngestIter_fin _ _ _ _ hob1 hf1

/-- **P6.** the provisioner of an observation ends -/
theorem live_provIngest_ends_P (C : LivePCfg env s0) (K : LiveKernel env s0) {n pid : Nat} {p : Proc}
    (hp : (simAt env s0 n).st.proc? pid = some p) (ha : p.alive = true) {o d}
    (hk : p.k = .provIngest o d) :
    ∃ n', n ≤ n' ∧ ∃ p', (simAt env s0 n').st.proc? pid = some p' ∧ p'.alive = false := by
  have second : ∀ n (p : Proc), (simAt env s0 n).st.proc? pid = some p → p.alive = true →
      p.k = .provIngest o d → p.pc ≠ 0 →
      ∃ n', n ≤ n' ∧ ∃ p', (simAt env s0 n').st.proc? pid = some p' ∧ p'.alive = false := by
    intro n p hp ha hk hpc
    obtain ⟨n', hle, _, _, _, _, _, hself⟩ := live_next_blk_P C K hp ha
    refine ⟨n' + 1, by omega, _, hself, ?_⟩
    rw [block_provIngest _ hk, provIngestBlock_done _ _ _ _ _ hpc]
    rfl
  by_cases hpc : p.pc = 0
  · obtain ⟨n', hle, _, _, _, _, _, hself⟩ := live_next_blk_P C K hp ha
    cases hal : (fin ((simAt env s0 n').st.block p (env.oracle (simAt env s0 n').st)).2.1
        ((simAt env s0 n').st.block p (env.oracle (simAt env s0 n').st)).2.2 p.wake p).alive with
    | false => exact ⟨n' + 1, by omega, _, hself, hal⟩
    | true =>
      obtain ⟨n'', hle', r⟩ := second (n' + 1) _ hself hal
        (by rw [fin_k, block_provIngest _ hk]; exact provIngestBlock_k _ _ _ _ _)
        (by rw [fin_pc]; omega)
      exact ⟨n'', by omega, r⟩
  · exact second n p hp ha hk hpc

/-- **P7.** every worker process of the run ends -/
theorem live_worker_ends_P (C : LivePCfg env s0) (K : LiveKernel env s0) {n pid : Nat} {p : Proc}
    (hp : (simAt env s0 n).st.proc? pid = some p) (ha : p.alive = true)
    (hk : p.k.tag = "allocIngest" ∨ p.k.tag = "provIngest" ∨ p.k.tag = "ingestStream" ∨
      p.k.tag = "allocTask" ∨ p.k.tag = "doWork") :
    ∃ n', n ≤ n' ∧ ∃ p', (simAt env s0 n').st.proc? pid = some p' ∧ p'.alive = false := by
  cases hkk : p.k with
  | allocIngest o tl => exact live_allocIngest_ends_P C K hp ha hkk
  | provIngest o d => exact live_provIngest_ends_P C K hp ha hkk
  | ingestStream o tl => exact live_ingestStream_ends_P C K hp ha hkk
  | allocTask t m preds obs ing ret => exact live_allocTask_ends_P C K hp ha hkk
  | doWork t m preds ph tot => exact live_doWork_ends_P C K hp ha hkk
  | _ => rw [hkk] at hk; simp [PK.tag] at hk

end

end Topsim

