/-
  BufTraj9 — `SP` under the blocks that are not the stream's own: the quiet
  blocks, the telescope (a RUNNING observation whose stream is still alive is not
  yet marked FINISHED: the stream's last block is due before `ast + duration`),
  the ingest supervisor (which creates the stream).
-/
import TopsimProofs.BufTraj8

namespace Topsim
namespace Sys

/-- every block but the stream's keeps the recorded sizes, when it does not raise -/
theorem block_size (s : Sys) (p : Proc) (orc : Oracle) (hnr : ∀ e, (s.block p orc).2.2 ≠ .raised e)
    (htag : p.k.tag ≠ "ingestStream") : (s.block p orc).1.buf.size = s.buf.size := by
  have quiet : p.k.tag ≠ "schedLoop" → p.k.tag ≠ "allocTasks" → p.k.tag ≠ "hot2cold" → p.k.tag ≠ "cold2hot" →
      (s.block p orc).1.buf.size = s.buf.size :=
    fun h1 h3 h4 h5 => by rw [block_buf s p orc h1 htag h3 h4 h5]
  cases hk : p.k with
  | monitor => exact quiet (by simp [hk, PK.tag]) (by simp [hk, PK.tag]) (by simp [hk, PK.tag]) (by simp [hk, PK.tag])
  | telescope => exact quiet (by simp [hk, PK.tag]) (by simp [hk, PK.tag]) (by simp [hk, PK.tag]) (by simp [hk, PK.tag])
  | clusterLoop => exact quiet (by simp [hk, PK.tag]) (by simp [hk, PK.tag]) (by simp [hk, PK.tag]) (by simp [hk, PK.tag])
  | bufferLoop => exact quiet (by simp [hk, PK.tag]) (by simp [hk, PK.tag]) (by simp [hk, PK.tag]) (by simp [hk, PK.tag])
  | allocIngest o tl => exact quiet (by simp [hk, PK.tag]) (by simp [hk, PK.tag]) (by simp [hk, PK.tag]) (by simp [hk, PK.tag])
  | provIngest o d => exact quiet (by simp [hk, PK.tag]) (by simp [hk, PK.tag]) (by simp [hk, PK.tag]) (by simp [hk, PK.tag])
  | allocTask t m preds obs ing ret => exact quiet (by simp [hk, PK.tag]) (by simp [hk, PK.tag]) (by simp [hk, PK.tag]) (by simp [hk, PK.tag])
  | doWork t m preds ph tot => exact quiet (by simp [hk, PK.tag]) (by simp [hk, PK.tag]) (by simp [hk, PK.tag]) (by simp [hk, PK.tag])
  | ingestStream o tl => exact absurd (by rw [hk]; rfl) htag
  | schedLoop =>
    have hb' : s.block p orc = ((s.schedLoopBlock p.wake orc).1, p.k, (s.schedLoopBlock p.wake orc).2) := by
      unfold block; simp only [hk]
    rw [hb']; exact congrArg (·.2.2.1) (schedLoopBlock_bq s p.wake orc)
  | allocTasks o sc pa po fn =>
    have hb' : s.block p orc = s.allocTasksBlock p.wake orc p.pc o sc pa po fn := by
      unfold block; simp only [hk]
    rw [hb']
    rcases allocTasksBlock_bufCases s p.wake orc p.pc o sc pa po fn with e | e
    · rw [e]
    · rw [e]
      rcases remove_full s.buf o with e' | ⟨_, _, _, _, _, _, _, _, _, h10, _⟩
      · rw [e']
      · exact h10
  | hot2cold cur =>
    have hb' : s.block p orc = s.hot2coldBlock p.wake cur := by
      unfold block; simp only [hk]
    rw [hb'] at hnr ⊢
    rcases hot2coldBlock_acct s p.wake cur with ⟨e, he⟩ | hacct
    · exact absurd he (hnr e)
    · exact hacct.1
  | cold2hot cur =>
    have hb' : s.block p orc = s.cold2hotBlock p.wake cur := by
      unfold block; simp only [hk]
    rw [hb'] at hnr ⊢
    rcases cold2hotBlock_acct s p.wake cur with ⟨e, he⟩ | hacct
    · exact absurd he (hnr e)
    · exact hacct.1

/-- blocks that leave observation records, recorded sizes and the streams alone -/
theorem sp_quiet {s : Sys} (hs : SInv s) (hb : BufI s) (h : SP s) {p : Proc} (hp : p ∈ s.procs) (orc : Oracle)
    (hobs : (s.block p orc).1.obs = s.obs) (hsize : (s.block p orc).1.buf.size = s.buf.size)
    (htag : p.k.tag ≠ "ingestStream") (new : List Proc) (hprocs : (s.block p orc).1.procs = s.procs ++ new)
    (hpwX : PW (s.block p orc).1) (hnew : ∀ q ∈ new, q.k.tag ≠ "ingestStream") :
    SP ((s.block p orc).1.updProc p.pid (fin (s.block p orc).2.1 (s.block p orc).2.2 p.wake)) := by
  have hpw := hs.pw
  have htag' := block_tag s hpw p orc
  have hm := memSpec_updProc hpw hp new hprocs hpwX (fin (s.block p orc).2.1 (s.block p orc).2.2 p.wake)
  have hobs? : ∀ o, ((s.block p orc).1.updProc p.pid (fin (s.block p orc).2.1 (s.block p orc).2.2 p.wake)).obs? o
      = s.obs? o := by
    intro o; unfold obs?; rw [updProc_obs, hobs]
  refine h.stepP hb hpw hp hm ?_ ?_ ?_ ?_ ?_
  · intro o _
    show (s.block p orc).1.buf.sizeOf o = _
    exact sizeOf_congr hsize o
  · intro q _ _ o tl _ ob hob
    exact ⟨ob, by rw [hobs?]; exact hob, rfl, rfl, fun _ _ hr => ⟨rfl, hr⟩⟩
  · intro q hq o tl e; exact absurd (stream_tag e) (hnew q hq)
  · intro o tl e
    simp only [fin_k] at e
    rw [e] at htag'; exact absurd htag'.symm htag
  · intro o tl e; exact absurd (stream_tag e) htag

/-! ### the telescope -/

theorem sp_telescope {s : Sys} (hs : SInv s) (hfi : FI s) (hb : BufI s) (h : SP s) {p : Proc} (hp : p ∈ s.procs)
    (ha : p.alive = true) (hmin : ∀ q ∈ s.procs, q.alive = true → p.wake ≤ q.wake)
    (hk : p.k = .telescope) (orc : Oracle) :
    SP ((s.block p orc).1.updProc p.pid (fin (s.block p orc).2.1 (s.block p orc).2.2 p.wake)) := by
  have hpw := hs.pw
  have heg := hs.eg
  have hnd := heg.obsNodup
  have hbk : s.block p orc = ((s.telescopeBlock p.wake).1, .telescope, (s.telescopeBlock p.wake).2) := by
    unfold block; simp only [hk]
  have hwake0 := heg.telWake p hp hk
  have hn : ((natNow p.wake : Nat) : Time) ≤ p.wake := natNow_le p.wake hwake0
  have hrel := telescopeBlock_orel s p.wake hnd hfi.obs.durPos
  obtain ⟨new, hprocs, hnewk⟩ := telescopeBlock_procs s p.wake
  have hpwX : PW (s.telescopeBlock p.wake).1 := (telescope_key heg hp ha hmin hk).1.pw hpw
  have hbuf : (s.block p orc).1.buf = s.buf :=
    block_buf s p orc (by simp [hk, PK.tag]) (by simp [hk, PK.tag]) (by simp [hk, PK.tag]) (by simp [hk, PK.tag])
      (by simp [hk, PK.tag])
  rw [hbk] at hbuf ⊢
  simp only at hbuf ⊢
  have hm := memSpec_updProc hpw hp new hprocs hpwX (fin .telescope (s.telescopeBlock p.wake).2 p.wake)
  have hobsY : ∀ o, (((s.telescopeBlock p.wake).1).updProc p.pid
      (fin .telescope (s.telescopeBlock p.wake).2 p.wake)).obs? o
      = (s.telescopeBlock p.wake).1.obs.find? (fun r => decide (r.id = o)) := fun o => rfl
  refine h.stepP hb hpw hp hm ?_ ?_ ?_ ?_ ?_
  · intro o _
    show (s.telescopeBlock p.wake).1.buf.sizeOf o = _
    rw [hbuf]
  · intro q hq _ o tl hqk ob hob
    obtain ⟨ob', e1, r, d, st, w, f⟩ := hrel.fwd2 hnd (o := o) hob
    refine ⟨ob', by rw [hobsY]; exact e1, r, d, fun h1 hqa hrun => ?_⟩
    have hnw : ob.status ≠ .waiting := by rw [hrun]; simp
    obtain ⟨_, w2⟩ := w hnw
    refine ⟨w2, ?_⟩
    rcases st with e | e
    · exact e.trans hrun
    · exfalso
      rcases f e with g | ⟨x, gx, gle⟩
      · rw [hrun] at g; exact absurd g (by simp)
      · obtain ⟨ob2, hob2, _, a1, _⟩ := h.str q hq o tl hqk
        rw [hob] at hob2; injection hob2 with hob2
        subst hob2
        obtain ⟨a, g1, _, g3, g4, g5, _⟩ := a1 h1 hqa
        rw [gx] at g1; injection g1 with g1
        subst g1
        have h2 := hmin q hq hqa
        rw [g3] at h2
        have h3 : ((natNow p.wake : Nat) : Rat) ≤ ((x + q.pc : Nat) : Rat) := Rat.le_trans hn h2
        have h4 := Rat.natCast_le_natCast.mp h3
        omega
  · intro q hq o tl e
    have := hnewk q hq; rw [e] at this; simp [PK.tag] at this
  · intro o tl e; simp at e
  · intro o tl e; rw [hk] at e; simp at e

/-! ### the ingest supervisor -/

theorem sp_allocIngest {s : Sys} (hs : SInv s) (hfi : FI s) (hb : BufI s) (h : SP s) {p : Proc} (hp : p ∈ s.procs)
    {oid tl} (hk : p.k = .allocIngest oid tl) (orc : Oracle) :
    SP ((s.block p orc).1.updProc p.pid (fin (s.block p orc).2.1 (s.block p orc).2.2 p.wake)) := by
  have hpw := hs.pw
  have hbk : s.block p orc = s.allocIngestBlock p.wake p.pc oid tl := by
    unfold block; simp only [hk]
  have hbuf : (s.block p orc).1.buf = s.buf :=
    block_buf s p orc (by simp [hk, PK.tag]) (by simp [hk, PK.tag]) (by simp [hk, PK.tag]) (by simp [hk, PK.tag])
      (by simp [hk, PK.tag])
  by_cases hpc : p.pc = 0
  · obtain ⟨ob0, hob, hw, n, hwake⟩ := (hfi.ok p hp).aiWait _ _ hk hpc
    have hoid : ob0.id = oid := (obs_mem_of_obs? hob).2
    rw [hbk] at hbuf ⊢
    rw [hpc, allocIngestBlock_first s p.wake oid tl ob0 hob hw] at hbuf ⊢
    simp only at hbuf ⊢
    generalize hX : ((((s.updObs oid (fun r => { r with ast := some (natNow p.wake) })).spawn
            (.provIngest oid ob0.ingestDemand) p.wake).1.spawn (.ingestStream oid 0) p.wake).1.updObs oid
            (fun r => { r with status := .running })) = X at hbuf ⊢
    have hXprocs : X.procs = s.procs ++ [{ pid := s.nextPid, k := .provIngest oid ob0.ingestDemand, wake := p.wake },
        { pid := s.nextPid + 1, k := .ingestStream oid 0, wake := p.wake }] := by
      subst hX; simp
    have hpwX : PW X := by
      subst hX
      have h1 : PW (s.updObs oid (fun r => { r with ast := some (natNow p.wake) })) := ⟨hpw.nodup, hpw.lt⟩
      have h2 := (h1.spawn (.provIngest oid ob0.ingestDemand) p.wake).spawn (.ingestStream oid 0) p.wake
      exact ⟨h2.nodup, h2.lt⟩
    have hupd : ObsUpd s X oid (fun r => { r with ast := some (natNow p.wake), status := .running }) := by
      refine ⟨?_, fun _ => rfl⟩
      subst hX
      simp only [Sys.updObs, Sys.spawn, List.map_map]
      apply List.map_congr_left
      intro r _
      simp only [Function.comp]
      by_cases e : r.id = oid <;> simp [e]
    have hXoid : X.obs? oid = some { ob0 with ast := some (natNow p.wake), status := .running } := by
      rw [hupd.obs? oid, hob]; simp [hoid]
    have hm := memSpec_updProc hpw hp _ hXprocs hpwX
      (fin (.allocIngest oid ((ob0.duration : Int) - 1)) (.timeout 1) p.wake)
    have hnoStr : ∀ q ∈ s.procs, ∀ tl', q.k ≠ .ingestStream oid tl' := by
      intro q hq tl' hqk
      obtain ⟨r, hr, hrs⟩ := hb.strObs q hq oid tl' hqk
      have h1 : s.obs.find? (fun r => decide (r.id = oid)) = some ob0 := hob
      rw [h1] at hr; injection hr with e
      subst e; exact hrs hw
    refine h.stepP hb hpw hp hm ?_ ?_ ?_ ?_ ?_
    · intro o _
      show X.buf.sizeOf o = _
      rw [hbuf]
    · intro q hq _ o tl' hqk ob hob'
      have hne : o ≠ oid := fun e => hnoStr q hq tl' (e ▸ hqk)
      exact ⟨ob, hupd.other hne hob', rfl, rfl, fun _ _ hr => ⟨rfl, hr⟩⟩
    · intro q hq o tl' e
      simp only [List.mem_cons, List.not_mem_nil, or_false] at hq
      rcases hq with rfl | rfl
      · simp at e
      · simp only [PK.ingestStream.injEq] at e
        obtain ⟨rfl, _⟩ := e
        exact ⟨rfl, ⟨_, hXoid⟩, hnoStr⟩
    · intro o tl' e; simp at e
    · intro o tl' e; rw [hk] at e; simp at e
  · obtain ⟨ob, hob, hst⟩ := (hfi.ok p hp).aiRun _ _ hk (by omega)
    obtain ⟨e1, e2, e3⟩ := allocIngestBlock_later s p.wake p.pc oid tl hpc ob hob hst
    exact sp_quiet hs hb h hp orc (by rw [hbk]; exact e1) (by rw [hbuf]) (by simp [hk, PK.tag]) []
      (by rw [hbk]; simpa using e2) (by rw [hbk]; exact ⟨by rw [e2]; exact hpw.nodup, by rw [e2, e3]; exact hpw.lt⟩)
      (by simp)

end Sys
end Topsim
