/-
  SpanTraj3 — the span invariant along the runs of the block system whose oracles
  obey a delay discipline `R` (`ReachD R`), and along every run of the
  deterministic simulator (pauses and the `halted` flag included).
-/
import TopsimProofs.SpanTraj2

namespace Topsim

open KState Sys

namespace Sys

/-- `ReachOk` in which the oracle of every step obeys the delay discipline `R`: whatever total
duration it hands to the body of task `t` for the nominal duration `dur` satisfies `R t dur total` -/
inductive ReachD (R : Tid → Nat → Nat → Prop) (s0 : Sys) : Sys → Prop
  | start : ReachD R s0 s0.start
  | step (s : Sys) (pid : Nat) (orc : Oracle) :
      ReachD R s0 s → s.enabled pid → (s.alg = .oracle → orc.preOk) → orc.Obeys R →
      ReachD R s0 (s.resume pid orc).1

theorem ReachD.toOk {R} {s0 s : Sys} (h : ReachD R s0 s) : ReachOk s0 s := by
  induction h with
  | start => exact ReachOk.start
  | step s pid orc _ hen hpre _ ih => exact ReachOk.step s pid orc ih hen hpre

/-- no discipline at all -/
theorem ReachOk.toD {s0 s : Sys} (h : ReachOk s0 s) : ReachD (fun _ _ _ => True) s0 s := by
  induction h with
  | start => exact ReachD.start
  | step s pid orc _ hen hpre ih => exact ReachD.step s pid orc ih hen hpre (fun _ _ _ => trivial)

theorem ReachD.mono {R R' : Tid → Nat → Nat → Prop} (hRR : ∀ t d tot, R t d tot → R' t d tot) {s0 s : Sys}
    (h : ReachD R s0 s) : ReachD R' s0 s := by
  induction h with
  | start => exact ReachD.start
  | step s pid orc _ hen hpre hob ih =>
    exact ReachD.step s pid orc ih hen hpre (fun t k d => hRR _ _ _ (hob t k d))

/-- an oracle that does not override the delay model hands an ingest task its nominal duration -/
theorem obeys_ingest_of_total_none {orc : Oracle} (h : orc.total = none) :
    orc.Obeys (fun t d tot => t.isIngest = true → tot = d) := by
  intro t k d hi
  unfold Oracle.bodyTotal
  rw [h]
  simp [hi]

theorem ReachOrd.toD {s0 s : Sys} (h : ReachOrd s0 s) :
    ReachD (fun t d tot => t.isIngest = true → tot = d) s0 s := by
  induction h with
  | start => exact ReachD.start
  | step s pid orc _ hen hpre htot _ ih =>
    exact ReachD.step s pid orc ih hen hpre (obeys_ingest_of_total_none htot)

theorem reachD_spanInv {R} (s0 s : Sys) (hw : WFConfig s0) (h : ReachD R s0 s) : SpanInv R s := by
  induction h with
  | start => exact spanInv_start0 s0 hw
  | step s pid orc hr hen _ hob ih => exact spanInv_step (reach_inv s0 s hw hr.toOk) ih hen orc hob

theorem SpanInv.congr {R} {s s' : Sys} (h : SpanInv R s) (h1 : s'.tasks = s.tasks) (h2 : s'.procs = s.procs)
    (h3 : s'.machines = s.machines) : SpanInv R s' := by
  have ht : ∀ x, s'.task? x = s.task? x := fun x => by unfold task?; rw [h1]
  have hn : ∀ {t m tot r}, Nom R s t m tot r → Nom R s' t m tot r :=
    fun hn => hn.transfer rfl rfl (fun _ _ => rfl) h3
  constructor
  · rw [h2]; exact h.phase
  · rw [h2]; intro d hd hda t m c tot hk
    obtain ⟨r, a, g1, g2, g3, g4⟩ := h.run d hd hda t m c tot hk
    exact ⟨r, a, by rw [ht]; exact g1, g2, g3, hn g4⟩
  · rw [h2]; intro d hd t m c tot hk
    obtain ⟨r, a, g1, g2, g3, g4⟩ := h.done d hd t m c tot hk
    exact ⟨r, a, by rw [ht]; exact g1, g2, g3, hn g4⟩
  · rw [h2]; intro t r f hr hf
    rw [ht] at hr
    exact h.stamped t r f hr hf

end Sys

/-! ### the simulator -/

/-- the total duration the simulator hands to the body of `t` for the nominal duration `dur`, when
`k` bodies of workflow tasks have started before: an ingest task gets `dur`; otherwise the entry of
the delay table for `dur` if there is one; otherwise `dur` plus the `k`-th entry (cyclically) of the
delay script, `dur` itself when the script is empty -/
def SimEnv.bodyTotal (env : SimEnv) (t : Tid) (k dur : Nat) : Nat :=
  if t.isIngest then dur
  else match dictGet env.delayTable dur with
    | some x => x
    | none =>
      if env.delayScript.isEmpty then dur
      else dur + env.delayScript.getD (k % env.delayScript.length) 0

/-- the delay discipline of the simulator's oracle -/
def SimEnv.Rel (env : SimEnv) : Tid → Nat → Nat → Prop :=
  fun t dur tot => ∃ k, tot = env.bodyTotal t k dur

theorem env_oracle_bodyTotal (env : SimEnv) (s : Sys) (t : Tid) (k dur : Nat) :
    (env.oracle s).bodyTotal t k dur = env.bodyTotal t k dur := rfl

theorem env_oracle_obeys (env : SimEnv) (s : Sys) : (env.oracle s).Obeys env.Rel :=
  fun t k dur => ⟨k, env_oracle_bodyTotal env s t k dur⟩

theorem env_rel_ingest {env : SimEnv} {t : Tid} {dur tot : Nat} (h : env.Rel t dur tot)
    (hi : t.isIngest = true) : tot = dur := by
  obtain ⟨k, rfl⟩ := h
  unfold SimEnv.bodyTotal
  simp [hi]

/-- no delay table, no delay script: the total is the nominal duration -/
theorem env_rel_nodelay {env : SimEnv} (h1 : env.delayTable = []) (h2 : env.delayScript = [])
    {t : Tid} {dur tot : Nat} (h : env.Rel t dur tot) : tot = dur := by
  obtain ⟨k, rfl⟩ := h
  unfold SimEnv.bodyTotal
  rw [h1, h2]
  simp [dictGet]

/-- no table entry for this nominal duration, and no script: the total is the nominal duration -/
theorem env_rel_noentry {env : SimEnv} {t : Tid} {dur tot : Nat} (h1 : dictGet env.delayTable dur = none)
    (h2 : env.delayScript = []) (h : env.Rel t dur tot) : tot = dur := by
  obtain ⟨k, rfl⟩ := h
  unfold SimEnv.bodyTotal
  rw [h1, h2]
  simp

/-- a delay table that only lengthens (every entry maps a duration to one not smaller): the total
is at least the nominal duration -/
theorem env_rel_lengthens {env : SimEnv} (hl : ∀ kv ∈ env.delayTable, kv.1 ≤ kv.2)
    {t : Tid} {dur tot : Nat} (h : env.Rel t dur tot) : dur ≤ tot := by
  obtain ⟨k, rfl⟩ := h
  unfold SimEnv.bodyTotal
  split
  · exact Nat.le_refl _
  · split
    · rename_i x hx
      exact hl _ (dictGet_some_mem hx)
    · split
      · exact Nat.le_refl _
      · omega

/-- the span invariant in every state of every run of the simulator -/
theorem sim_spanInv (env : SimEnv) (s0 : Sys) (hw : WFConfig s0) (k : SimState) (h : SimReach env s0 k) :
    SpanInv env.Rel k.st := by
  induction h with
  | start => exact spanInv_start0 s0 hw
  | step k k1 hr hs ih =>
    obtain ⟨hsinv, hheap⟩ := hr.inv hw
    obtain ⟨_, _, e, _, hc⟩ := il_l3_step env k k1 hsinv hheap hs
    rcases hc with ⟨hc, _⟩ | ⟨hen, _, hc⟩
    · rw [hc]; exact ih.congr rfl rfl rfl
    · rw [hc]; exact spanInv_step hsinv ih hen (env.oracle k.st) (env_oracle_obeys env k.st)
  | collate k _ ih => exact ih.congr rfl rfl rfl

/-- the simulator's uninterrupted runs are `ReachD env.Rel` runs of the block system (up to the
`halted` flag) -/
theorem l3_refines_reachD (env : SimEnv) (s0 : Sys) (hw : WFConfig s0) (k : SimState)
    (h : SimRun env s0 k) :
    ∃ s, ReachD env.Rel s0 s ∧ (k.st = s ∨ (k.st = { s with halted := true } ∧ k.st.halted = true)) := by
  induction h with
  | start => exact ⟨_, ReachD.start, Or.inl rfl⟩
  | step k k1 hr hh hs ih =>
    obtain ⟨s, hrs, hks⟩ := ih
    rcases hks with hks | ⟨_, hks⟩
    · obtain ⟨hsinv, hheap⟩ := hr.toReach.inv hw
      obtain ⟨_, _, e, _, hc⟩ := il_l3_step env k k1 hsinv hheap hs
      rcases hc with ⟨hc, _⟩ | ⟨hen, _, hc⟩
      · exact ⟨s, hrs, Or.inr ⟨by rw [hc, hks], by rw [hc]⟩⟩
      · refine ⟨_, ReachD.step s e.pid (env.oracle s) hrs (by rw [← hks]; exact hen)
          (fun _ => il_oracle_preOk env s) (env_oracle_obeys env s), Or.inl ?_⟩
        rw [hc, hks]
    · rw [hks] at hh; exact absurd hh (by simp)

end Topsim
