/-
  BoundP6b — (plan-following algorithms; the counterpart of Bound6b) timed liveness of the
  workflow-task workers (part 2): the record-level facts.
  * `BoundPTwDur`: a record of a workflow task without work has a planned duration that is the
    `eft - est` of a row of the static plan naming its node, so at most `boundP_planDur` (static
    planning; under batch planning it is 0), along the run — greedy's `update_allocation` does not
    change it (the runtime of no work is 0 on every machine);
  * `BoundPTwCtx`: the invariants of the other developments the step lemma uses, at an index;
  * `boundP_tw_wait_le`: the transfer wait of a body is at most `bound_tw_W` of its task;
  * `boundP_tw_occ_le`: the occupancy of a body is at most `boundP_tw_R` of its task.
-/
import TopsimProofs.BoundP6

namespace Topsim

open KState Sys

/-! ### records without work -/

/-- a record of a workflow task that carries no work has a planned duration within the largest
`eft - est` of the rows of the static plan that name its node -/
def Sys.BoundPTwDur (env : SimEnv) (s : Sys) : Prop :=
  ∀ t r, s.task? t = some r → r.flops = 0 → r.data = 0 →
    ∀ (ob : Obs) (c node : Nat), t = .wf ob.id c node → r.duration ≤ boundP_planDur env ob node

theorem boundP_tw_staticPlan_dur (o : Obs) (c : Nat) (rows : List (Nat × Mid × Nat × Nat)) :
    ∀ r ∈ (Sys.staticPlanOf o c rows).1, ∃ x ∈ rows, r.id = .wf o.id c x.1 ∧ r.duration = x.2.2.2 - x.2.2.1 := by
  intro r hr
  simp only [Sys.staticPlanOf, List.mem_map] at hr
  obtain ⟨⟨n, mid, est, eft⟩, hx, rfl⟩ := hr
  exact ⟨(n, mid, est, eft), hx, rfl, rfl⟩

/-- one `resume` of a live process of the simulator keeps `BoundPTwDur` (static planning) -/
theorem boundP_tw_dur_step {env : SimEnv} {s : Sys} (hpw : PW s) (hstat : s.staticPlan = true)
    (h : s.BoundPTwDur env)
    {pid : Nat} {p : Proc} (hp : s.proc? pid = some p) (ha : p.alive = true) :
    (s.resume pid (env.oracle s)).1.BoundPTwDur env := by
  generalize horc : env.oracle s = orc
  have htk : (s.resume pid orc).1.tasks = (s.block p orc).1.tasks := (il_resume_fields s pid orc p hp ha).2.2
  have hq : ∀ t, (s.resume pid orc).1.task? t = (s.block p orc).1.task? t := fun t => by
    unfold Sys.task?; rw [htk]
  intro t r' hr' h0 h0' ob c node htid
  rw [hq] at hr'
  by_cases h3 : p.k.tag = "doWork"
  · cases hk : p.k with
    | doWork t1 m preds ph tot =>
      rw [block_doWork orc hk] at hr'
      have hsh := doWorkBlock_shape2 s p.wake orc t1 m preds ph tot
      generalize s.doWorkBlock p.wake orc t1 m preds ph tot = X at hsh hr'
      cases hsh with
      | raised ph' e _ => exact h t r' hr' h0 h0' ob c node htid
      | wait w => exact h t r' hr' h0 h0' ob c node htid
      | start r mm dur hr hmm hdur =>
        have hr2 : (s.updTask t1 (dwStartF p.wake dur)).task? t = some r' := hr'
        rw [task?_updTask s t1 t (dwStartF p.wake dur) (fun _ => rfl)] at hr2
        cases hr0 : s.task? t with
        | none => rw [hr0] at hr2; simp at hr2
        | some r0 =>
          rw [hr0] at hr2
          simp only [Option.map_some, Option.some.injEq] at hr2
          by_cases e : r0.id = t1
          · rw [if_pos e] at hr2
            have et : t = t1 := (task?_id hr0).symm.trans e
            subst et
            rw [hr] at hr0
            cases hr0
            rw [← hr2] at h0 h0' ⊢
            have f0 : r.flops = 0 := h0
            have d0 : r.data = 0 := h0'
            show dur ≤ _
            unfold nominalDuration at hdur
            rw [f0, d0] at hdur
            simp only [Nat.lt_irrefl, or_self, if_false] at hdur
            injection hdur with hdur
            rw [← hdur]
            exact h t r hr f0 d0 ob c node htid
          · rw [if_neg e] at hr2
            rw [← hr2] at h0 h0' ⊢
            exact h t r0 hr0 h0 h0' ob c node htid
      | finish hph =>
        have hr2 : (s.updTask t1 (dwEndF p.wake tot)).task? t = some r' := hr'
        rw [task?_updTask s t1 t (dwEndF p.wake tot) (fun r => (dwEndF_spec p.wake tot r).1)] at hr2
        cases hr0 : s.task? t with
        | none => rw [hr0] at hr2; simp at hr2
        | some r0 =>
          rw [hr0] at hr2
          simp only [Option.map_some, Option.some.injEq] at hr2
          by_cases e : r0.id = t1
          · rw [if_pos e] at hr2
            obtain ⟨w1, w2, w3⟩ := dwEndF_work p.wake tot r0
            rw [← hr2] at h0 h0' ⊢
            rw [w3]
            exact h t r0 hr0 (w1 ▸ h0) (w2 ▸ h0') ob c node htid
          · rw [if_neg e] at hr2
            rw [← hr2] at h0 h0' ⊢
            exact h t r0 hr0 h0 h0' ob c node htid
    | _ => rw [hk] at h3; simp [PK.tag] at h3
  · have hS := block_spanStep s hpw p orc h3
    rcases hS.bwd hr' with ⟨r, hr, hk⟩ | ⟨hn, _⟩
    · rw [hk.dur (hk.flops ▸ h0) (hk.data ▸ h0')]
      exact h t r hr (hk.flops ▸ h0) (hk.data ▸ h0') ob c node htid
    · -- a new record
      rw [← hq] at hr'
      rcases resume_shape s hpw pid orc with ⟨_, hM⟩ | ⟨_, p1, o, d, recs, _, _, _, _, ht, _, hid⟩ |
          ⟨p1, _, _, _, oid, o, recs, plan, hnx, hob, hrp, ht, _⟩
      · rw [bound_tw_task?_none_of_ids hM.ids hn] at hr'
        exact absurd hr' (by simp)
      · rw [task?_append s _ recs ht t, hn] at hr'
        obtain ⟨i, _, e⟩ := hid r' (List.mem_of_find?_eq_some hr')
        have e2 : r'.id = t := by simpa using List.find?_some hr'
        rw [← e2, e] at htid
        cases htid
      · rw [task?_append s _ recs ht t, hn] at hr'
        rw [hstat] at hrp
        simp only [if_true] at hrp
        have hrecs : recs = (Sys.staticPlanOf o (natNow p1.wake) orc.plan).1 := congrArg Prod.fst hrp
        have hmem := List.mem_of_find?_eq_some hr'
        rw [hrecs] at hmem
        obtain ⟨x, hx, hxid, hxd⟩ := boundP_tw_staticPlan_dur o _ _ r' hmem
        have e2 : r'.id = t := by simpa using List.find?_some hr'
        rw [hxid, htid] at e2
        injection e2 with e3 e4 e5
        have hoid : o.id = oid := (obs_mem_of_obs? hob).2
        have hrows : orc.plan = env.rowsOf ob.id := by
          rw [← horc, env.oracle_plan s hnx, ← e3, hoid]
        rw [hxd]
        unfold boundP_planDur
        rw [← hrows]
        refine (bound_tw_foldl_max_ge _ 0).2 _ (List.mem_map_of_mem (f := fun (x : Nat × Mid × Nat × Nat) => x.2.2.2 - x.2.2.1) ?_)
        exact List.mem_filter.mpr ⟨hx, by simpa using e5⟩

section
variable {env : SimEnv} {s0 : Sys}

theorem boundP_tw_reach (C : LivePCfg env s0) (K : LiveKernel env s0) (n : Nat) :
    Sys.Reach s0 (simAt env s0 n).st := (live_reachOk_P C K n).toReach

theorem boundP_tw_dur (C : LivePCfg env s0) (K : LiveKernel env s0) (n : Nat) :
    (simAt env s0 n).st.BoundPTwDur env := by
  induction n with
  | zero =>
    intro t r hr
    obtain ⟨_, _, htasks, _⟩ := C.hw.fresh
    have ht : (simAt env s0 0).st.tasks = [] := by
      show s0.start.tasks = []
      rw [← htasks]; simp [Sys.start, Sys.spawn]
    unfold Sys.task? at hr
    rw [ht] at hr
    simp at hr
  | succ n ih =>
    obtain ⟨e, p, _, hpp, ha, _, _, _, hst⟩ := live_step_P C K n
    rw [hst]
    exact boundP_tw_dur_step (live_sinv_P C K n).pw
      ((Sys.reach_stat (boundP_tw_reach C K n)).trans C.stat) ih hpp ha

end

/-! ### the invariants of the other developments, at a state -/

structure BoundPTwCtx (env : SimEnv) (s0 s : Sys) : Prop where
  hw : Sys.WFConfig s0
  mpos : ∀ m ∈ s0.machines, 0 < m.cpu ∧ 0 < m.bw
  mach : s.machines = s0.machines
  sinv : Sys.SInv s
  fi : Sys.FI s
  gi : Sys.GI s0 s
  reci : Sys.RecI s
  px : Sys.PX s
  ph : Sys.PH s
  span : Sys.SpanInv env.Rel s
  nn : ∀ q ∈ s.procs, 0 ≤ q.wake
  dur : s.BoundPTwDur env

section
variable {env : SimEnv} {s0 : Sys}

theorem boundP_tw_ctx (C : LivePCfg env s0) (K : LiveKernel env s0) (n : Nat) :
    BoundPTwCtx env s0 (simAt env s0 n).st := by
  have hr := boundP_tw_reach C K n
  have hno : s0.alg ≠ .oracle := C.alg.noOracle
  have hbuf := hb0_bufList C.hb0
  exact
    { hw := C.hw
      mpos := C.feas.2.1
      mach := Sys.reach_sys_machines hr
      sinv := live_sinv_P C K n
      fi := live_fi_P C K n
      gi := Sys.reach_gi s0 _ C.hw hr
      reci := Sys.reachOk_reci s0 _ C.hw (live_reachOk_P C K n)
      px := Sys.reach_px s0 _ C.hw hbuf hno hr (C.crashed n)
      ph := Sys.reach_ph s0 _ C.hw hbuf hno hr (C.crashed n)
      span := sim_spanInv env s0 C.hw _ (K.reach n)
      nn := Sys.reach_wake_nonneg C.hw hr
      dur := boundP_tw_dur C K n }

end

/-! ### the record of a workflow task -/

/-- the record of a task that is not an ingest task is the record of a node of a configured
observation -/
theorem BoundPTwCtx.node {env : SimEnv} {s0 s : Sys} (X : BoundPTwCtx env s0 s) {t : Tid} {r : TaskRec}
    (hr : s.task? t = some r) (hti : t.isIngest = false) :
    ∃ ob ∈ s0.obs, ∃ c node, t = .wf ob.id c node ∧ s0.obs? ob.id = some ob ∧
      Sys.NodeRec ob.wf ob.id c node r := by
  have hrm : r ∈ s.tasks := List.mem_of_find?_eq_some hr
  have hid : r.id = t := task?_id hr
  cases t with
  | ingest o i => exact absurd hti (by simp [Tid.isIngest])
  | raw k => exact absurd hid (X.reci.noRaw r hrm k)
  | wf o c node =>
    obtain ⟨ob, hob, e, hn⟩ := X.gi.recs r hrm o c node hid
    subst e
    exact ⟨ob, hob, c, node, rfl, obs?_of_mem X.hw.obsNodup hob, hn⟩

theorem BoundPTwCtx.machine {env : SimEnv} {s0 s : Sys} (X : BoundPTwCtx env s0 s) {m : Mid} {mm : Machine}
    (h : s.machine? m = some mm) : mm ∈ s0.machines := by
  rw [← X.mach]
  exact List.mem_of_find?_eq_some h

theorem BoundPTwCtx.isWf {env : SimEnv} {s0 s : Sys} (X : BoundPTwCtx env s0 s) {t : Tid} {r : TaskRec}
    (hr : s.task? t = some r) (hti : t.isIngest = false) : Sys.IsWf t := by
  obtain ⟨ob, _, c, node, e, _⟩ := X.node hr hti
  exact ⟨_, _, _, e⟩

/-! ### the transfer wait of a body -/

theorem boundP_tw_wait_le {env : SimEnv} {s0 s : Sys} (X : BoundPTwCtx env s0 s) {d : Proc}
    (hd : d ∈ s.procs) (hda : d.alive = true) {t : Tid} {m : Mid} {preds : List Tid} {tot : Nat}
    (hk : d.k = .doWork t m preds 0 tot) (hti : t.isIngest = false) {w : Time}
    (hw : s.transferWait d.wake t m preds = .ok w) : w ≤ ((bound_tw_W s0 t : Nat) : Time) := by
  obtain ⟨r, mm, hr, hmm, hwe⟩ := Sys.transferWait_ok hw
  obtain ⟨ob, hob, c, node, et, hobs, hn⟩ := X.node hr hti
  subst et
  have hwf : Sys.IsWf (.wf ob.id c node) := ⟨_, _, _, rfl⟩
  have hmem := X.machine hmm
  have hne : s0.machines ≠ [] := fun e => by rw [e] at hmem; simp at hmem
  rw [bound_tw_W_wf hobs, hwe]
  apply bound_tw_waitForTransfer_le
  · exact Rat.natCast_nonneg
  · intro x hx
    unfold Sys.crossArr at hx
    obtain ⟨q, hq, rfl⟩ := List.mem_map.mp hx
    obtain ⟨_, _, r', hr', hqp⟩ := X.ph.dwCross d hd _ m preds 0 tot hk hwf q hq
    rw [hr] at hr'
    cases hr'
    constructor
    · -- the predecessor has finished by now
      show Sys.aftOf s q ≤ d.wake
      have h0 : (-1 : Time) ≤ d.wake := Rat.le_trans (by decide) (X.nn d hd)
      unfold Sys.aftOf
      cases hrq : s.task? q with
      | none => exact h0
      | some rq =>
        simp only
        cases hf : rq.aft with
        | none => exact h0
        | some f =>
          exact X.px.dwT d hd hda _ m preds 0 tot hk (by omega) hwf r hr q hqp rq f hrq hf
    · -- its volume is the volume of an edge into the node
      show (((dictGet r.io q).getD 0 : Nat) : Rat) / (mm.bw : Rat) ≤ _
      have hv : (dictGet r.io q).getD 0 ≤
          ((ob.wf.edges.filter (fun e => e.2.1 = node)).map (·.2.2)).foldl max 0 := by
        cases hg : dictGet r.io q with
        | none => exact Nat.zero_le _
        | some v =>
          have hm := dictGet_some_mem hg
          rw [hn.io] at hm
          obtain ⟨e, he, ee⟩ := List.mem_map.mp hm
          have : v = e.2.2 := (congrArg Prod.snd ee).symm
          rw [this]
          exact (bound_tw_foldl_max_ge _ 0).2 _ (List.mem_map_of_mem (f := (·.2.2)) he)
      exact bound_tw_div_le_ceil hv (bound_tw_slowBw_pos s0 X.mpos hne) (bound_tw_slowBw_le s0 hmem)

/-! ### the occupancy of a body -/

theorem boundP_tw_occ_le {env : SimEnv} {s0 s : Sys} (X : BoundPTwCtx env s0 s) {t : Tid} {m : Mid}
    {r : TaskRec} {mm : Machine} {dur : Nat} (hr : s.task? t = some r) (hmm : s.machine? m = some mm)
    (hti : t.isIngest = false)
    (hd : nominalDuration r.flops r.data mm.cpu mm.bw r.duration = .ok dur) :
    bodyWait dur + 1 ≤ boundP_tw_R env s0 t := by
  obtain ⟨ob, hob, c, node, et, hobs, hn⟩ := X.node hr hti
  subst et
  have hmem := X.machine hmm
  have hne : s0.machines ≠ [] := fun e => by rw [e] at hmem; simp at hmem
  rw [boundP_tw_R_wf hobs]
  have h1 := boundP_tw_nominal_le (D := boundP_planDur env ob node)
    (bound_tw_slowCpu_pos s0 X.mpos hne) (bound_tw_slowBw_pos s0 X.mpos hne)
    (bound_tw_slowCpu_le s0 hmem) (bound_tw_slowBw_le s0 hmem)
    (fun f0 d0 => X.dur _ r hr f0 d0 ob c node rfl) hd
  apply bound_tw_bodyWait_le
  · unfold boundP_Rt boundP_zdur boundRt boundAttrs
    rw [← hn.flops, ← hn.data]
    omega
  · unfold boundP_Rt boundRt; omega

end Topsim
