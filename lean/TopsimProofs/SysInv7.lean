/-
  SysInv7 — the allocation process (`allocate_task_to_cluster`): shape of its
  block and preservation of the cluster group `CI`.
-/
import TopsimProofs.SysInv6

namespace Topsim
namespace Sys

open Cluster

theorem mem_updProc_iff {s : Sys} (hpw : PW s) {p : Proc} (hp : p ∈ s.procs) (g : Proc → Proc)
    (q : Proc) : q ∈ (s.updProc p.pid g).procs ↔ q = g p ∨ (q ∈ s.procs ∧ q.pid ≠ p.pid) := by
  rw [mem_updProc]
  constructor
  · rintro ⟨q0, hq0, rfl⟩
    by_cases e : q0.pid = p.pid
    · have : q0 = p := hpw.eq_of_pid hq0 hp e
      subst this
      rw [if_pos rfl]; exact Or.inl rfl
    · rw [if_neg e]; exact Or.inr ⟨hq0, e⟩
  · rintro (rfl | ⟨hq, hne⟩)
    · exact ⟨p, hp, by rw [if_pos rfl]⟩
    · exact ⟨q, hq, by rw [if_neg hne]⟩

theorem updProc_spawn_procs (s : Sys) (k : PK) (now : Time) (pid : Nat) (g : Proc → Proc)
    (hlt : pid < s.nextPid) :
    ((s.spawn k now).1.updProc pid g).procs
      = (s.updProc pid g).procs ++ [{ pid := s.nextPid, k := k, wake := now }] := by
  simp only [Sys.updProc, spawn_procs, List.map_append, List.map_cons, List.map_nil]
  have : ¬ s.nextPid = pid := by omega
  simp [this]

/-! ### shape of the block -/

theorem procTriggered_spawn (s : Sys) (hpw : PW s) (k : PK) (now : Time) :
    (s.spawn k now).1.procTriggered s.nextPid = false := by
  unfold procTriggered proc?
  simp only [spawn_procs, List.find?_append]
  have : s.procs.find? (fun x => decide (x.pid = s.nextPid)) = none := by
    rw [List.find?_eq_none]
    intro x hx
    have := hpw.lt x hx
    simp; omega
  rw [this]
  simp

/-- F13: `now < task.aft` -/
theorem aftReached_eq_false {s : Sys} {now : Time} {t : Tid} (h : s.aftReached now t = false) :
    ∃ rec f, s.task? t = some rec ∧ rec.aft = some f ∧ now < f := by
  unfold aftReached at h
  cases hr : s.task? t with
  | none => rw [hr] at h; exact absurd h (by simp)
  | some rec =>
    rw [hr] at h
    simp only at h
    cases hf : rec.aft with
    | none => rw [hf] at h; exact absurd h (by simp)
    | some f =>
      rw [hf] at h
      simp only [decide_eq_false_iff_not] at h
      exact ⟨rec, f, rfl, hf, Rat.not_le.mp h⟩

/-- F13: `now ≥ task.aft` -/
theorem aftReached_eq_true {s : Sys} {now : Time} {t : Tid} (h : s.aftReached now t = true) :
    ∀ rec f, s.task? t = some rec → rec.aft = some f → f ≤ now := by
  intro rec f hr hf
  unfold aftReached at h
  rw [hr] at h
  simp only [hf, decide_eq_true_eq] at h
  exact h

theorem aftReached_of_le {s : Sys} {now : Time} {t : Tid}
    (h : ∀ rec f, s.task? t = some rec → rec.aft = some f → f ≤ now) : s.aftReached now t = true := by
  unfold aftReached
  cases hr : s.task? t with
  | none => rfl
  | some rec =>
    simp only
    cases hf : rec.aft with
    | none => rfl
    | some f => simp only [decide_eq_true_eq]; exact h rec f hr hf

/-- F13: the full case analysis, with the `now ≥ aft` test of the repaired poller -/
theorem allocTaskBlock_cases' (s : Sys) (hpw : PW s) (now : Time) (t : Tid) (m : Mid) (preds : List Tid)
    (obs : Option Oid) (ing : Bool) (ret : Nat) :
    (t ∉ s.cl.running ∧ ∃ e, (s.cl.allocBegin t m obs ing).2 = some e ∧
      s.allocTaskBlock now t m preds obs ing ret
        = ({ s with cl := (s.cl.allocBegin t m obs ing).1 }, .allocTask t m preds obs ing ret, .raised e)) ∨
    (t ∉ s.cl.running ∧ (s.cl.allocBegin t m obs ing).2 = none ∧
      s.allocTaskBlock now t m preds obs ing ret
        = (((({ s with cl := (s.cl.allocBegin t m obs ing).1 }).updTask t
              (fun r => { r with status := .scheduled })).spawn (.doWork t m preds 0 0) now).1,
            .allocTask t m preds obs ing s.nextPid, .timeout 1)) ∨
    (t ∈ s.cl.running ∧ (s.procTriggered ret && s.aftReached now t) = false ∧
      s.allocTaskBlock now t m preds obs ing ret = (s, .allocTask t m preds obs ing ret, .timeout 1)) ∨
    (t ∈ s.cl.running ∧ (s.procTriggered ret = true ∧ s.aftReached now t = true) ∧
      ∃ e, (s.cl.allocEnd t m obs ing).2 = some e ∧
      s.allocTaskBlock now t m preds obs ing ret
        = ({ s with cl := (s.cl.allocEnd t m obs ing).1 }, .allocTask t m preds obs ing ret, .raised e)) ∨
    (t ∈ s.cl.running ∧ (s.procTriggered ret = true ∧ s.aftReached now t = true) ∧
      (s.cl.allocEnd t m obs ing).2 = none ∧
      s.allocTaskBlock now t m preds obs ing ret
        = (({ s with cl := (s.cl.allocEnd t m obs ing).1 }).updTask t
              (fun r => { r with status := .finished }),
            .allocTask t m preds obs ing ret, .done)) := by
  unfold allocTaskBlock
  by_cases hr : t ∈ s.cl.running
  · simp only [hr, not_true_eq_false, if_false]
    right; right
    cases htr : (s.procTriggered ret && s.aftReached now t) with
    | false => left; exact ⟨trivial, rfl, by simp⟩
    | true =>
      right
      have htr' : s.procTriggered ret = true ∧ s.aftReached now t = true := by
        simpa [Bool.and_eq_true] using htr
      simp only [if_true]
      generalize hc : s.cl.allocEnd t m obs ing = r
      obtain ⟨cl1, e1⟩ := r
      cases e1 with
      | some e => left; exact ⟨trivial, htr', e, rfl, rfl⟩
      | none => right; exact ⟨trivial, htr', rfl, rfl⟩
  · simp only [hr, not_false_eq_true, if_true]
    generalize hc : s.cl.allocBegin t m obs ing = r
    obtain ⟨cl1, e1⟩ := r
    cases e1 with
    | some e => left; exact ⟨trivial, e, rfl, rfl⟩
    | none =>
      right; left
      refine ⟨trivial, rfl, ?_⟩
      simp only
      cases ing with
      | false => simp
      | true =>
        simp only [if_true]
        have := procTriggered_spawn (({ s with cl := cl1 }).updTask t
          (fun r => { r with status := .scheduled })) ⟨hpw.nodup, hpw.lt⟩ (.doWork t m preds 0 0) now
        simp only [updTask_nextPid] at this
        simp [this]

/-- F13: third case now reads "the body has not ended OR `now < aft`" -/
theorem allocTaskBlock_cases (s : Sys) (hpw : PW s) (now : Time) (t : Tid) (m : Mid) (preds : List Tid)
    (obs : Option Oid) (ing : Bool) (ret : Nat) :
    (t ∉ s.cl.running ∧ ∃ e, (s.cl.allocBegin t m obs ing).2 = some e ∧
      s.allocTaskBlock now t m preds obs ing ret
        = ({ s with cl := (s.cl.allocBegin t m obs ing).1 }, .allocTask t m preds obs ing ret, .raised e)) ∨
    (t ∉ s.cl.running ∧ (s.cl.allocBegin t m obs ing).2 = none ∧
      s.allocTaskBlock now t m preds obs ing ret
        = (((({ s with cl := (s.cl.allocBegin t m obs ing).1 }).updTask t
              (fun r => { r with status := .scheduled })).spawn (.doWork t m preds 0 0) now).1,
            .allocTask t m preds obs ing s.nextPid, .timeout 1)) ∨
    (t ∈ s.cl.running ∧ (s.procTriggered ret && s.aftReached now t) = false ∧
      s.allocTaskBlock now t m preds obs ing ret = (s, .allocTask t m preds obs ing ret, .timeout 1)) ∨
    (t ∈ s.cl.running ∧ s.procTriggered ret = true ∧ ∃ e, (s.cl.allocEnd t m obs ing).2 = some e ∧
      s.allocTaskBlock now t m preds obs ing ret
        = ({ s with cl := (s.cl.allocEnd t m obs ing).1 }, .allocTask t m preds obs ing ret, .raised e)) ∨
    (t ∈ s.cl.running ∧ s.procTriggered ret = true ∧ (s.cl.allocEnd t m obs ing).2 = none ∧
      s.allocTaskBlock now t m preds obs ing ret
        = (({ s with cl := (s.cl.allocEnd t m obs ing).1 }).updTask t
              (fun r => { r with status := .finished }),
            .allocTask t m preds obs ing ret, .done)) := by
  rcases allocTaskBlock_cases' s hpw now t m preds obs ing ret with
    h | h | h | ⟨hr, ⟨htr, _⟩, h⟩ | ⟨hr, ⟨htr, _⟩, h⟩
  · exact Or.inl h
  · exact Or.inr (Or.inl h)
  · exact Or.inr (Or.inr (Or.inl h))
  · exact Or.inr (Or.inr (Or.inr (Or.inl ⟨hr, htr, h⟩)))
  · exact Or.inr (Or.inr (Or.inr (Or.inr ⟨hr, htr, h⟩)))

/-! ### replacing the entry of an allocation process -/

theorem CI.replaceAT {s : Sys} {U : List Tid} (h : CI s U) (hpw : PW s) {p : Proc} (hp : p ∈ s.procs)
    {t : Tid} {m : Mid} {preds : List Tid} {obs : Option Oid} {ing : Bool} {ret : Nat}
    (hk : p.k = .allocTask t m preds obs ing ret) (g : Proc → Proc) (hgp : (g p).pid = p.pid)
    (ret' : Nat) (hgk : (g p).k = .allocTask t m preds obs ing ret')
    (hal : (g p).alive = true → p.alive = true) (cl' : Cluster) (U' : List Tid)
    (hinv : Inv cl' U')
    (hrunOn : ∀ q ∈ ({ s with cl := cl' }.updProc p.pid g).procs, q.alive = true →
      ∀ t m preds obs ing ret, q.k = .allocTask t m preds obs ing ret → 1 ≤ q.pc →
        (⟨t, m, obs, ing⟩ : RunEntry) ∈ cl'.runOn)
    (hpend : ∀ q ∈ ({ s with cl := cl' }.updProc p.pid g).procs, q.alive = true →
      ∀ t m preds obs ret, q.k = .allocTask t m preds obs true ret → q.pc = 0 →
        (⟨t, m, obs, true⟩ : RunEntry) ∈ cl'.pending)
    (hnewT : ∀ q ∈ ({ s with cl := cl' }.updProc p.pid g).procs, q.alive = true →
      ∀ t m preds obs ret, q.k = .allocTask t m preds obs false ret → q.pc = 0 →
        t ∉ U' ∧ t.isIngest = false)
    (hused : ∀ x ∈ U', Sched s.tasks x)
    (hprov : ∀ o i, Tid.ingest o i ∈ U' → Tid.ingest o i ∈ U) :
    CI ({ s with cl := cl' }.updProc p.pid g) U' := by
  have hpw' : PW { s with cl := cl' } := ⟨hpw.nodup, hpw.lt⟩
  have hmem := fun q => mem_updProc_iff hpw' (p := p) hp g q
  -- every new entry stands for an old one with the same pid, liveness and task
  have back : ∀ q ∈ ({ s with cl := cl' }.updProc p.pid g).procs, ∃ q0 ∈ s.procs, q0.pid = q.pid ∧
      (q.alive = true → q0.alive = true) ∧
      (∀ t m preds obs ing ret, q.k = .allocTask t m preds obs ing ret →
        ∃ ret0, q0.k = .allocTask t m preds obs ing ret0) ∧
      (∀ o d, q.k = .provIngest o d → q0 = q) := by
    intro q hq
    rcases (hmem q).mp hq with rfl | ⟨hq, _⟩
    · refine ⟨p, hp, hgp.symm, hal, ?_, ?_⟩
      · intro t1 m1 preds1 obs1 ing1 ret1 hk1
        rw [hgk] at hk1
        injection hk1 with e1 e2 e3 e4 e5 e6
        subst e1 e2 e3 e4 e5
        exact ⟨ret, hk⟩
      · intro o d hk1; rw [hgk] at hk1; exact absurd hk1 (by simp)
    · exact ⟨q, hq, rfl, fun h => h, fun t1 m1 preds1 obs1 ing1 ret1 hk1 => ⟨ret1, hk1⟩, fun _ _ _ => rfl⟩
  constructor
  · exact hinv
  · exact hrunOn
  · exact hpend
  · exact hnewT
  · intro q1 hq1 q2 hq2 ha1 ha2 t1 m1 preds1 obs1 ing1 ret1 m2 preds2 obs2 ing2 ret2 hk1 hk2
    obtain ⟨a, ha, hap, haa, hak, _⟩ := back q1 hq1
    obtain ⟨b, hb, hbp, hba, hbk, _⟩ := back q2 hq2
    obtain ⟨r1, hak⟩ := hak _ _ _ _ _ _ hk1
    obtain ⟨r2, hbk⟩ := hbk _ _ _ _ _ _ hk2
    rw [← hap, ← hbp]
    exact h.uniq a ha b hb (haa ha1) (hba ha2) _ _ _ _ _ _ _ _ _ _ _ hak hbk
  · intro q hq t1 m1 preds1 obs1 ing1 ret1 hk1
    obtain ⟨a, ha, _, _, hak, _⟩ := back q hq
    obtain ⟨r1, hak⟩ := hak _ _ _ _ _ _ hk1
    exact h.hasRec a ha _ _ _ _ _ _ hak
  · exact h.ingRec
  · exact hused
  · intro o i hoi
    obtain ⟨q, hq, d, hqk, hpc⟩ := h.provOnce o i (hprov o i hoi)
    refine ⟨q, (hmem q).mpr (Or.inr ⟨hq, ?_⟩), d, hqk, hpc⟩
    intro e
    have : q = p := hpw.eq_of_pid hq hp e
    subst this
    rw [hk] at hqk; exact absurd hqk (by simp)
  · intro q1 hq1 q2 hq2 o d d' hk1 hk2
    obtain ⟨a, ha, _, _, _, hae⟩ := back q1 hq1
    obtain ⟨b, hb, _, _, _, hbe⟩ := back q2 hq2
    have := hae o d hk1; subst this
    have := hbe o d' hk2; subst this
    exact h.provUniq a ha b hb o d d' hk1 hk2
  · intro q hq o d hk1
    obtain ⟨a, ha, _, _, _, hae⟩ := back q hq
    have := hae o d hk1; subst this
    exact h.provObs a ha o d hk1

end Sys
end Topsim
