/-
  Preced16 — `PX` under the harmless kinds, `allocate_tasks`, the allocation process.
-/
import TopsimProofs.Preced15

namespace Topsim
namespace Sys

open Cluster

/-! ### the scheduler loop: the new plan's observation had no records -/

theorem schedLoop_facts {s : Sys} (hwi : WI s) (hb : BufI s) (now : Time) (orc : Oracle) :
    (∀ t r', s.task? t = none → (s.schedLoopBlock now orc).1.task? t = some r' → ∀ o c n, t = Tid.wf o c n →
      ∀ q ∈ r'.preds, ∃ u, q = Tid.wf o c u) ∧
    (∀ q ∈ (s.schedLoopBlock now orc).1.procs, q ∉ s.procs →
      ∃ oid, q.k = .allocTasks oid [] [] [] false ∧ ∀ c n, s.task? (Tid.wf oid c n) = none) := by
  rcases schedLoopBlock_buf s now orc with ⟨_, _, htasks, _, hprocs⟩ |
    ⟨oid, o, recs, plan, hnx, hob, hrp, _, _, htasks, hq⟩
  · refine ⟨fun t r' h0 h1 => ?_, fun q hq hn => ?_⟩
    · have := NoNew.of_eq htasks t h0; rw [this] at h1; exact absurd h1 (by simp)
    · rw [hprocs] at hq; exact absurd hq hn
  · have hoid : o.id = oid := (obs_mem_of_obs? hob).2
    obtain ⟨_, _, _, g4⟩ := planOf_shape o (natNow now) s.staticPlan orc.plan recs plan hrp
    rw [hoid] at g4
    obtain ⟨_, hst, _, _⟩ := bufList_next s.buf oid hnx
    have hnoplan : ∀ pl ∈ s.plans, pl.obs ≠ oid := by
      intro pl hpl' e
      have h1 := hb.planLoc pl hpl'
      rw [e] at h1
      have h2 := hb.cnt oid
      have c1 := count_pos_of_mem hst
      have c2 := count_pos_of_mem h1
      unfold locCount bufList at h2
      simp only [List.count_append] at h2 c2
      omega
    have hplanNone : s.plan? oid = none := by
      unfold plan?
      rw [List.find?_eq_none]
      intro pl hpl'; simpa using hnoplan pl hpl'
    have hold : ∀ c n, s.task? (.wf oid c n) = none := by
      intro c n
      cases h0 : s.task? (.wf oid c n) with
      | none => rfl
      | some r =>
        have hm : r ∈ s.tasks := List.mem_of_find?_eq_some h0
        have := hwi.pr r hm oid c n (task?_id h0)
        rw [hplanNone] at this; simp at this
    refine ⟨?_, ?_⟩
    · intro t r' h0 h1 o' c n e q hq'
      rw [task?_append s _ recs htasks, h0] at h1
      have hm := List.mem_of_find?_eq_some h1
      have hid : r'.id = t := by simpa using List.find?_some h1
      obtain ⟨n', e', p', _⟩ := g4 r' hm
      rw [hid, e] at e'
      injection e' with e1 e2 e3
      subst e1 e2 e3
      rw [p'] at hq'
      obtain ⟨x, _, rfl⟩ := List.mem_map.mp hq'
      exact ⟨_, rfl⟩
    · intro q hq' hn
      rcases hq with ⟨_, _, hprocs⟩ | ⟨_, _, hprocs⟩
      · rw [hprocs] at hq'; exact absurd hq' hn
      · have := mem_new_of_append hprocs hq' hn
        simp only [List.mem_singleton] at this
        subst this
        exact ⟨oid, rfl, hold⟩

/-- a block of a harmless kind other than the scheduler loop creates no `allocate_tasks` process -/
theorem block_new_notSched (s : Sys) (p : Proc) (orc : Oracle) (h1 : p.k.tag ≠ "schedLoop")
    (h2 : p.k.tag ≠ "allocTask") (h3 : p.k.tag ≠ "doWork") (h4 : p.k.tag ≠ "allocTasks") :
    ∀ q ∈ (s.block p orc).1.procs, q ∉ s.procs → q.k.tag ≠ "allocTasks" := by
  have hsame : ∀ X : Sys, X.procs = s.procs → ∀ q ∈ X.procs, q ∉ s.procs → q.k.tag ≠ "allocTasks" := by
    intro X e q hq hn; rw [e] at hq; exact absurd hq hn
  cases hk : p.k with
  | monitor =>
    have hb : s.block p orc = ((s.monitorBlock p.wake).1, p.k, (s.monitorBlock p.wake).2) := by
      unfold block; simp only [hk]
    rw [hb]; exact hsame _ (monitorBlock_procsq s p.wake)
  | telescope =>
    have hb : s.block p orc = ((s.telescopeBlock p.wake).1, .telescope, (s.telescopeBlock p.wake).2) := by
      unfold block; simp only [hk]
    rw [hb]
    obtain ⟨new, hprocs, hnewk⟩ := telescopeBlock_procs s p.wake
    intro q hq hn
    rw [hnewk q (mem_new_of_append hprocs hq hn)]; decide
  | clusterLoop =>
    have hb : s.block p orc = ({ s with cl := s.cl.loopTick }, p.k, .timeout 1) := by
      unfold block; simp only [hk]
    rw [hb]; exact hsame _ rfl
  | schedLoop => rw [hk] at h1; exact absurd rfl h1
  | bufferLoop =>
    have hb : s.block p orc = ((s.bufferLoopBlock p.wake).1, p.k, (s.bufferLoopBlock p.wake).2) := by
      unfold block; simp only [hk]
    rw [hb]
    obtain ⟨new, hprocs, hnewk⟩ := bufferLoopBlock_newprocs s p.wake
    intro q hq hn
    rcases hnewk q (mem_new_of_append hprocs hq hn) with e | e <;> (rw [e]; decide)
  | allocIngest o tl =>
    have hb : s.block p orc = s.allocIngestBlock p.wake p.pc o tl := by
      unfold block; simp only [hk]
    rw [hb]
    rcases allocIngestBlock_procs s p.wake p.pc o tl with hsm | ⟨ob, d, _, _, hprocs, _⟩
    · exact hsame _ hsm
    · intro q hq hn
      have := mem_new_of_append hprocs hq hn
      simp only [List.mem_cons, List.not_mem_nil, or_false] at this
      rcases this with rfl | rfl <;> simp [PK.tag]
  | provIngest o d =>
    have hb : s.block p orc = s.provIngestBlock p.wake p.pc o d := by
      unfold block; simp only [hk]
    rw [hb]
    obtain ⟨new, hprocs, hnew⟩ := provIngestBlock_procs s p.wake p.pc o d
    intro q hq hn
    rw [hnew q (mem_new_of_append hprocs hq hn)]; decide
  | ingestStream o tl =>
    have hb : s.block p orc = s.ingestStreamBlock p.wake p.pc o tl := by
      unfold block; simp only [hk]
    rw [hb]; exact hsame _ (ingestStreamBlock_procsq s p.wake p.pc o tl)
  | allocTask t m preds obs ing ret => rw [hk] at h2; exact absurd rfl h2
  | doWork t m preds ph tot => rw [hk] at h3; exact absurd rfl h3
  | allocTasks o sc pa po fn => rw [hk] at h4; exact absurd rfl h4
  | hot2cold cur =>
    have hb : s.block p orc = s.hot2coldBlock p.wake cur := by
      unfold block; simp only [hk]
    rw [hb]; exact hsame _ (hot2coldBlock_procsq s p.wake cur)
  | cold2hot cur =>
    have hb : s.block p orc = s.cold2hotBlock p.wake cur := by
      unfold block; simp only [hk]
    rw [hb]; exact hsame _ (cold2hotBlock_procsq s p.wake cur)

/-! ### the steps -/

/-- monitor, telescope, cluster loop, scheduler loop, buffer loop, ingest chain, tier moves -/
theorem px_harmless {s : Sys} (h : PX s) (hpr : PR s) (hs : SInv s) (hwi : WI s) (hbf : BufI s)
    (hno : s.alg ≠ .oracle) {p : Proc} (hp : p ∈ s.procs)
    (ha : p.alive = true) (hmin : ∀ q ∈ s.procs, q.alive = true → p.wake ≤ q.wake) (orc : Oracle)
    (h2 : p.k.tag ≠ "allocTask") (h3 : p.k.tag ≠ "doWork") (h4 : p.k.tag ≠ "allocTasks") :
    PX ((s.block p orc).1.updProc p.pid (fin (s.block p orc).2.1 (s.block p orc).2.2 p.wake)) := by
  obtain ⟨hT, hF⟩ := block_taskStep s p orc hno h2 h3
  have htag := block_tag s hs.pw p orc
  have hfin : ∀ q, FinT (s.block p orc).1 q → FinT s q := fun q hq => (finT_congr hF q).mp hq
  refine px_step_quiet h hs hp ha hmin orc hT h3 (fun o c n hq => Or.inl (hfin _ hq)) ?_ ?_ ?_ ?_
  · -- fresh records
    intro t r' h0 h1 o c n e q hq
    by_cases h1' : p.k.tag = "schedLoop"
    · cases hk : p.k with
      | schedLoop =>
        have hb : s.block p orc = ((s.schedLoopBlock p.wake orc).1, p.k, (s.schedLoopBlock p.wake orc).2) := by
          unfold block; simp only [hk]
        rw [hb] at h1
        exact (schedLoop_facts hwi hbf p.wake orc).1 t r' h0 h1 o c n e q hq
      | _ => rw [hk] at h1'; simp [PK.tag] at h1'
    · have := (block_quietB s p orc hno h1' h2 h3).newIng t r' h0 h1
      rw [e] at this; simp [Tid.isIngest] at this
  · intro o sc pa po fn e; rw [e] at htag; exact absurd htag.symm h4
  · intro t m cross obs ret e; rw [e] at htag; exact absurd htag.symm h2
  · intro q hq hn
    left
    have hh := block_new_harmless s p orc h2 h3 h4 q hq hn
    refine ⟨hh.2.1, hh.2.2.2, ?_⟩
    intro o sc pa po fn hqk
    refine ⟨hh.2.2.1 o sc pa po fn hqk, ?_⟩
    by_cases h1' : p.k.tag = "schedLoop"
    · cases hk : p.k with
      | schedLoop =>
        have hb : s.block p orc = ((s.schedLoopBlock p.wake orc).1, p.k, (s.schedLoopBlock p.wake orc).2) := by
          unfold block; simp only [hk]
        rw [hb] at hq
        obtain ⟨oid, e, hold⟩ := (schedLoop_facts hwi hbf p.wake orc).2 q hq hn
        rw [e] at hqk
        simp only [PK.allocTasks.injEq] at hqk
        obtain ⟨e1, _⟩ := hqk
        subst e1
        intro c n hfq
        obtain ⟨rq, g1, _⟩ := hpr.finRec _ ⟨_, _, _, rfl⟩ (hfin _ hfq)
        rw [hold c n] at g1; exact absurd g1 (by simp)
      | _ => rw [hk] at h1'; simp [PK.tag] at h1'
    · exact absurd (by rw [hqk]; rfl) (block_new_notSched s p orc h1' h2 h3 h4 q hq hn)

/-- `allocate_tasks` -/
theorem px_allocTasks {s : Sys} (h : PX s) (hpr : PR s) (hs : SInv s) (hst : ST s) (hno : s.alg ≠ .oracle)
    {p : Proc} (hp : p ∈ s.procs) (ha : p.alive = true)
    (hmin : ∀ q ∈ s.procs, q.alive = true → p.wake ≤ q.wake)
    (orc : Oracle) {o sc pa po fn} (hk : p.k = .allocTasks o sc pa po fn) :
    PX ((s.block p orc).1.updProc p.pid (fin (s.block p orc).2.1 (s.block p orc).2.2 p.wake)) := by
  have hb : s.block p orc = s.allocTasksBlock p.wake orc p.pc o sc pa po fn := by
    unfold block; simp only [hk]
  have hq := quietB_allocTasksBlock s hno p.wake orc p.pc o sc pa po fn
  obtain ⟨sc', pa', po', fn', g1, g2, g3⟩ := allocTasksBlock_sum hst hno p.wake orc p.pc o sc pa po fn
  rw [← hb] at hq g1 g2 g3
  have hfin : ∀ q, FinT (s.block p orc).1 q → FinT s q := fun q hq' => (finT_congr hq.fin q).mp hq'
  have hobs : ∀ t, (t ∈ dictKeys sc ∨ NewRdy (s.block p orc).1 o t) → ∃ c n, t = Tid.wf o c n := by
    intro t ht
    rcases ht with h1 | h1
    · exact h.schedObs p hp o sc pa po fn hk t h1
    · exact h1.2
  have hrdy : ∀ t, (t ∈ dictKeys sc ∨ NewRdy (s.block p orc).1 o t) → Rdy (s.block p orc).1 t := by
    intro t ht
    rcases ht with h1 | h1
    · exact hq.rdy (hpr.schedRdy p hp o sc pa po fn hk t h1)
    · exact h1.1
  refine px_step_quiet h hs hp ha hmin orc hq.task (by rw [hk]; simp [PK.tag])
    (fun o' c n hq' => Or.inl (hfin _ hq')) ?_ ?_ ?_ ?_
  · intro t r' h0 h1 o' c n e
    have := hq.newIng t r' h0 h1
    rw [e] at this; simp [Tid.isIngest] at this
  · intro o' sc'' pa'' po'' fn'' e
    rw [g1] at e
    simp only [PK.allocTasks.injEq] at e
    obtain ⟨e1, e2, _⟩ := e
    subst e1 e2
    exact ⟨fun t ht => hobs t (g2 t ht), sc, pa, po, fn, hk⟩
  · intro t m cross obs ret e; rw [g1] at e; exact absurd e (by simp)
  · intro q hq' hn
    rcases g3 q hq' with h1 | ⟨t, m, cross, e, ht, _⟩
    · exact absurd h1 hn
    · right; left
      obtain ⟨c, n, et⟩ := hobs t ht
      refine ⟨t, m, cross, some o, 0, e, ⟨o, c, n, rfl, et⟩, ?_⟩
      intro r' hr' x hx rq' f h3 h4
      -- the record of `t` and of its predecessor were there before the block, with the same stamps
      obtain ⟨rr, hrr, hxq⟩ := hrdy t ht
      rw [hr'] at hrr
      injection hrr with e'
      subst e'
      obtain ⟨_, hfx⟩ := hxq x hx
      rcases hq.task.bwd hr' with ⟨r, hr, hkk⟩ | ⟨h0, _⟩
      · rw [hkk.shape.preds] at hx
        obtain ⟨u, eu⟩ := h.predObs t r hr o c n et x hx
        subst eu
        rcases hq.task.bwd h3 with ⟨rq, h5, hk5⟩ | ⟨_, hfr⟩
        · exact h.finSched o c u (hfin _ hfx) rq f h5 (by rw [← hk5.aft]; exact h4) p hp ha sc pa po fn hk
        · rw [hfr.aft] at h4; exact absurd h4 (by simp)
      · have := hq.newIng t r' h0 hr'
        rw [et] at this; simp [Tid.isIngest] at this

/-- the allocation process -/
theorem px_allocTask {s : Sys} (h : PX s) (_hpr : PR s) (hs : SInv s) (hwi : WI s) {p : Proc}
    (hp : p ∈ s.procs) (ha : p.alive = true) (hmin : ∀ q ∈ s.procs, q.alive = true → p.wake ≤ q.wake)
    (orc : Oracle) {t m preds obs ing ret} (hk : p.k = .allocTask t m preds obs ing ret)
    (hnr : ∀ e, (s.block p orc).2.2 ≠ .raised e) :
    PX ((s.block p orc).1.updProc p.pid (fin (s.block p orc).2.1 (s.block p orc).2.2 p.wake)) := by
  have hpw := hs.pw
  obtain ⟨U, hU⟩ := hs.ci
  have hb : s.block p orc = s.allocTaskBlock p.wake t m preds obs ing ret := by
    unfold block; simp only [hk]
  have hndw : p.k.tag ≠ "doWork" := by rw [hk]; simp [PK.tag]
  have hkind : ∃ ret', (s.block p orc).2.1 = .allocTask t m preds obs ing ret' := by
    rw [hb]
    rcases allocTaskBlock_cases s hpw p.wake t m preds obs ing ret with
      ⟨_, e, _, heq⟩ | ⟨_, _, heq⟩ | ⟨_, _, heq⟩ | ⟨_, _, e, _, heq⟩ | ⟨_, _, _, heq⟩ <;> rw [heq] <;>
      exact ⟨_, rfl⟩
  obtain ⟨ret', hk'⟩ := hkind
  have hown1 : ∀ o sc pa po fn, (s.block p orc).2.1 = .allocTasks o sc pa po fn →
      (∀ t ∈ dictKeys sc, ∃ c n, t = Tid.wf o c n) ∧ ∃ sc0 pa0 po0 fn0, p.k = .allocTasks o sc0 pa0 po0 fn0 := by
    intro o sc pa po fn e; rw [hk'] at e; exact absurd e (by simp)
  have hown2 : ∀ t1 m1 cross obs1 ret1, (s.block p orc).2.1 = .allocTask t1 m1 cross obs1 false ret1 →
      ∃ o c n, obs1 = some o ∧ t1 = Tid.wf o c n := by
    intro t1 m1 cross obs1 ret1 e
    rw [hk'] at e
    simp only [PK.allocTask.injEq] at e
    obtain ⟨e1, _, _, e4, e5, _⟩ := e
    subst e1 e4 e5
    exact h.atObs p hp t m preds obs ret hk
  have hnfp : IsWf t → ∀ r, s.task? t = some r → r.status ≠ .finished := by
    intro hw r hr
    exact hwi.ast p hp ha _ _ _ _ _ _ hk hw r (List.mem_of_find?_eq_some hr) (task?_id hr)
  rw [hb] at hnr
  rcases allocTaskBlock_cases' s hpw p.wake t m preds obs ing ret with
    ⟨_, e, _, heq⟩ | ⟨hnr', hok, heq⟩ | ⟨_, _, heq⟩ | ⟨_, _, e, _, heq⟩ | ⟨hr, ⟨htr, haft⟩, hok, heq⟩
  · rw [heq] at hnr; exact absurd rfl (hnr e)
  · -- first block
    have hfin := allocBegin_finished s.cl t m obs ing hok
    have hX : (s.block p orc).1 = ((({ s with cl := (s.cl.allocBegin t m obs ing).1 }).updTask t
        (fun r => { r with status := .scheduled })).spawn (.doWork t m preds 0 0) p.wake).1 := by
      rw [hb, heq]
    have hpc0 := hU.pc_zero hp ha hk hnr'
    have hting : ing = true → t.isIngest = true := by
      intro e
      subst e
      exact hU.inv.pendTask _ (hU.pend p hp ha t m preds obs ret hk hpc0)
    have hfq : ∀ q, IsWf q → (FinT (s.block p orc).1 q ↔ FinT s q) := by
      intro q hw
      rw [hX]
      show dictGet (s.cl.allocBegin t m obs ing).1.finished q = some true ↔ _
      rw [hfin]
      cases hi : ing with
      | false => exact Iff.rfl
      | true =>
        simp only [if_true]
        have hne : t ≠ q := by
          intro e
          have := hting hi
          rw [e, isWf_not_ingest hw] at this
          exact absurd this (by simp)
        rw [dictGet_dictSet_ne _ _ hne]
        exact Iff.rfl
    have hT : TaskStep s (s.block p orc).1 := by
      rw [hX]
      have x := TaskStepR.updTask1 (R := TKeep) TKeep.refl
        ({ s with cl := (s.cl.allocBegin t m obs ing).1 } : Sys) t
        (fun r => { r with status := .scheduled }) (fun _ => rfl) (by
          intro r hr
          have hr' : s.task? t = some r := hr
          exact ⟨⟨rfl, rfl, rfl⟩, rfl, rfl, fun hw hf =>
            absurd hf (hnfp (by rw [← task?_id hr']; exact hw) r hr')⟩)
      have y := TaskStepR.of_src_eq (s := s) x rfl
      exact TaskStepR.of_tasks_eq y rfl
    have hnn : ∀ x, s.task? x = none → (s.block p orc).1.task? x = none := by
      intro x h0
      rw [hX]
      exact NoNew.updTask ({ s with cl := (s.cl.allocBegin t m obs ing).1 } : Sys) t
        (fun r => { r with status := .scheduled }) (fun _ => rfl) x h0
    refine px_step_quiet h hs hp ha hmin orc hT hndw
      (fun o c n hq => Or.inl ((hfq _ ⟨_, _, _, rfl⟩).mp hq)) ?_ hown1 hown2 ?_
    · intro x r' h0 h1; rw [hnn x h0] at h1; exact absurd h1 (by simp)
    · intro q hq hn
      right; right
      obtain ⟨new, hprocs, _⟩ := allocTaskBlock_procs s hpw p.wake t m preds obs ing ret
      have hq1 : q ∈ (s.block p orc).1.procs := hq
      rw [hX] at hq1
      simp only [spawn_procs, updTask_procs, List.mem_append, List.mem_singleton] at hq1
      rcases hq1 with h1 | h1
      · exact absurd h1 hn
      · subst h1
        refine ⟨t, m, preds, rfl, ?_⟩
        intro hw r' hr' x hx rq' f h3 h4
        have hif : ing = false := by
          cases hi : ing with
          | false => rfl
          | true =>
            have := hting hi
            rw [isWf_not_ingest hw] at this
            exact absurd this (by simp)
        subst hif
        rcases hT.bwd hr' with ⟨r, hr0, hkk⟩ | ⟨h0, _⟩
        · rw [hkk.shape.preds] at hx
          rcases hT.bwd h3 with ⟨rq, h5, hk5⟩ | ⟨_, hfr⟩
          · exact h.atT p hp ha hpc0 t m preds obs ret hk r hr0 x hx rq f h5 (by rw [← hk5.aft]; exact h4)
          · rw [hfr.aft] at h4; exact absurd h4 (by simp)
        · rw [hnn t h0] at hr'; exact absurd hr' (by simp)
  · -- polling
    have hX : (s.block p orc).1 = s := by rw [hb, heq]
    refine px_step_quiet h hs hp ha hmin orc (by rw [hX]; exact TaskStep.refl s) hndw
      (fun o c n hq => Or.inl (by rw [hX] at hq; exact hq)) ?_ hown1 hown2 ?_
    · intro x r' h0 h1; rw [hX, h0] at h1; exact absurd h1 (by simp)
    · intro q hq hn; rw [hX] at hq; exact absurd hq hn
  · rw [heq] at hnr; exact absurd rfl (hnr e)
  · -- completion
    have hfin := (allocEnd_fields s.cl t m obs ing hok).2.2.2
    have hX : (s.block p orc).1 = ({ s with cl := (s.cl.allocEnd t m obs ing).1 } : Sys).updTask t
        (fun r => { r with status := .finished }) := by
      rw [hb, heq]
    have hfq : ∀ q, FinT (s.block p orc).1 q ↔ (q = t ∨ FinT s q) := by
      intro q
      rw [hX]
      show dictGet (s.cl.allocEnd t m obs ing).1.finished q = some true ↔ _
      rw [hfin, dictGet_dictSet]
      by_cases e : t = q
      · rw [if_pos e]; simp [e]
      · rw [if_neg e]
        constructor
        · exact fun hq => Or.inr hq
        · rintro (h1 | h1)
          · exact absurd h1.symm e
          · exact h1
    have hT : TaskStep s (s.block p orc).1 := by
      rw [hX]
      have x := TaskStepR.updTask1 (R := TKeep) TKeep.refl ({ s with cl := (s.cl.allocEnd t m obs ing).1 } : Sys) t
        (fun r => { r with status := .finished }) (fun _ => rfl)
        (fun r _ => ⟨⟨rfl, rfl, rfl⟩, rfl, rfl, fun _ _ => rfl⟩)
      exact TaskStepR.of_src_eq (s := s) x rfl
    have hnn : ∀ x, s.task? x = none → (s.block p orc).1.task? x = none := by
      intro x h0
      rw [hX]
      exact NoNew.updTask ({ s with cl := (s.cl.allocEnd t m obs ing).1 } : Sys) t
        (fun r => { r with status := .finished }) (fun _ => rfl) x h0
    refine px_step_quiet h hs hp ha hmin orc hT hndw ?_ ?_ hown1 hown2 ?_
    · intro o c n hq
      rcases (hfq _).mp hq with e | h1
      · right
        intro rq' f h3 h4 q hq' hqa sc pa po fn hqk
        -- F13: the task is reported finished at a time `≥ aft`, and no live process is due earlier
        rcases hT.bwd h3 with ⟨rq, h6, hk6⟩ | ⟨_, hfr⟩
        · rw [e] at h6
          have h7 := aftReached_eq_true haft rq f h6 (by rw [← hk6.aft]; exact h4)
          exact Rat.le_trans h7 (hmin q hq' hqa)
        · rw [hfr.aft] at h4; exact absurd h4 (by simp)
      · exact Or.inl h1
    · intro x r' h0 h1; rw [hnn x h0] at h1; exact absurd h1 (by simp)
    · intro q hq hn
      have hq1 : q ∈ (s.block p orc).1.procs := hq
      rw [hX] at hq1
      exact absurd hq1 hn

end Sys
end Topsim
