/-
  OnTime3 — the telescope's block at a given instant: it exists for every
  instant the telescope's loop has passed (`sim_telHist`), and it admits an
  observation that is due, WAITING and finds everything free, provided the
  visits of the observations listed before it do nothing (`ot_block_on_time`).
-/
import TopsimProofs.OnTime2

namespace Topsim

open KState Sys

/-- the kernel is about to resume the telescope's loop, due at time `n` -/
def TelDue (k : SimState) (n : Nat) : Prop :=
  ∃ e p, k.peek = some e ∧ k.st.proc? e.pid = some p ∧ p.alive = true ∧ p.k = .telescope ∧
    p.wake = ((n : Nat) : Time)

/-- everything the observation `ob` needs is free in state `s` (the tests of
`Telescope.run` / `Scheduler.check_ingest_capacity`) -/
structure Sys.FreeFor (s : Sys) (ob : Obs) : Prop where
  arrays : (ob.demand : Int) ≤ (s.totalArrays : Int) - s.telUse
  -- F14: the machines available cover the demand and what the reservation counter promises
  -- beyond the ingest pool (was: `ob.ingestDemand ≤ s.cl.available.length`)
  machines : (ob.ingestDemand : Int) + max 0 (s.provIngest - (s.cl.ingest.length : Int)) ≤
    (s.cl.available.length : Int)
  pool : s.cl.ingest.length + ob.ingestDemand ≤ s.maxIngest
  counter : s.provIngest + ob.ingestDemand ≤ s.maxIngest
  hot : ob.rate * ob.duration ≤ s.buf.hot.cur
  hotTotal : ob.rate * ob.duration < s.buf.hot.total
  cold : s.buf.coldHasCapacityFor (ob.rate * ob.duration) = true

namespace Sys

/-! ### the visits that do nothing -/

/-- the visit of an observation that is FINISHED, or WAITING, not yet due and without a recorded
start, does nothing -/
theorem ot_visit_skip (n : Nat) (s : Sys) (o : Oid)
    (h : ∀ r, s.obs? o = some r →
      r.status = .finished ∨ (r.status = .waiting ∧ n < r.est ∧ r.ast = none)) :
    telescopeVisit n (s, none) o = (s, none) := by
  unfold telescopeVisit
  simp only
  cases hob : s.obs? o with
  | none => rfl
  | some r =>
    simp only
    rcases h r hob with hf | ⟨hw, hlt, hast⟩
    · have h1 : r.isReady n ((s.totalArrays : Int) - s.telUse) = false := by
        simp [Obs.isReady, hf]
      have h2 : r.isFinishedAt n s.telStatus = false := by
        unfold Obs.isFinishedAt
        split
        · rfl
        · simp [hf]
      simp [h1, h2]
    · have h1 : r.isReady n ((s.totalArrays : Int) - s.telUse) = false := by
        have : ¬ r.est ≤ n := by omega
        simp [Obs.isReady, this]
      have h2 : r.isFinishedAt n s.telStatus = false := by
        unfold Obs.isFinishedAt
        rw [hast]
      simp [h1, h2]

theorem ot_fold_skip (n : Nat) (s : Sys) (l : List Oid)
    (h : ∀ o ∈ l, ∀ r, s.obs? o = some r →
      r.status = .finished ∨ (r.status = .waiting ∧ n < r.est ∧ r.ast = none)) :
    l.foldl (telescopeVisit n) (s, none) = (s, none) := by
  induction l with
  | nil => rfl
  | cons o l ih =>
    rw [List.foldl_cons, ot_visit_skip n s o (h o (by simp))]
    exact ih (fun o' ho' => h o' (List.mem_cons_of_mem _ ho'))

/-- **The telescope's block admits on time.**  In the telescope's block at time `n`: an
observation that is due, WAITING, finds everything free (`FreeFor`), and is preceded in the
configuration's list only by observations whose visit does nothing (FINISHED, or WAITING and not
yet due) has `n` as its recorded start after the block. -/
theorem ot_block_on_time (s : Sys) (p : Proc) (orc : Oracle) (hk : p.k = .telescope) (n : Nat)
    (hwn : p.wake = ((n : Nat) : Time)) (hnd : (s.obs.map (·.id)).Nodup)
    (pre post : List Obs) (ob : Obs) (hsplit : s.obs = pre ++ ob :: post)
    (hpre : ∀ o ∈ pre, o.status = .finished ∨ (o.status = .waiting ∧ n < o.est ∧ o.ast = none))
    (hdue : ob.est ≤ n) (hw : ob.status = .waiting) (hfree : s.FreeFor ob) (hdur : 1 ≤ ob.duration) :
    ∃ ob', (s.block p orc).1.obs? ob.id = some ob' ∧ ob'.ast = some n := by
  have hnat : natNow p.wake = n := by rw [hwn]; exact natNow_natCast n
  have hobm : ob ∈ s.obs := by rw [hsplit]; simp
  rw [block_telescope orc hk]
  show ∃ ob', (s.telescopeBlock p.wake).1.obs? ob.id = some ob' ∧ ob'.ast = some n
  unfold telescopeBlock
  have hall : s.obs.all (fun o => o.status == .finished) = false := by
    rw [Bool.eq_false_iff]
    intro hall
    rw [List.all_eq_true] at hall
    have := hall ob hobm
    rw [hw] at this
    simp at this
  rw [hall]
  simp only [Bool.false_eq_true, if_false, hnat]
  -- the state the loop starts from
  generalize hs00 : ({ s with telEvents := [], telDelayed := if s.schedDelayed ∧ !s.telDelayed then true else s.telDelayed } : Sys) = s00
  have hobs00 : s00.obs = s.obs := by rw [← hs00]
  have hfree00 : s00.FreeFor ob := by
    rw [← hs00]
    exact ⟨hfree.arrays, hfree.machines, hfree.pool, hfree.counter, hfree.hot, hfree.hotTotal, hfree.cold⟩
  have hids : s.obs.map (·.id) = pre.map (·.id) ++ ob.id :: post.map (·.id) := by
    rw [hsplit]; simp
  rw [hids, List.foldl_append, List.foldl_cons]
  -- the visits before `ob` do nothing
  have hskip : (pre.map (·.id)).foldl (telescopeVisit n) (s00, none) = (s00, none) := by
    apply ot_fold_skip
    intro o ho r hr
    obtain ⟨r0, hr0, rfl⟩ := List.mem_map.mp ho
    have hr0m : r0 ∈ s.obs := by rw [hsplit]; exact List.mem_append_left _ hr0
    have := obs?_of_mem hnd hr0m
    rw [obs?_congr hobs00] at hr
    rw [this] at hr
    have hrr : r = r0 := (Option.some.inj hr).symm
    rw [hrr]
    exact hpre r0 hr0
  rw [hskip]
  -- the visit of `ob` admits it
  have hob00 : s00.obs? ob.id = some ob := by
    rw [obs?_congr hobs00]; exact obs?_of_mem hnd hobm
  have hlim : ob.ingestDemand ≤ s00.maxIngest := by
    have := hfree00.pool; omega
  obtain ⟨s', hvis, _, hast'⟩ := admission_on_time n s00 ob.id ob hob00 hdue hw hfree00.arrays hfree00.machines
    hlim hfree00.pool hfree00.counter hdur hfree00.hot hfree00.hotTotal hfree00.cold
  rw [hvis]
  -- the rest of the loop keeps the start time
  obtain ⟨L, hrun⟩ := telescopeFold_run n (post.map (·.id)) (s', none)
  generalize (post.map (·.id)).foldl (telescopeVisit n) (s', none) = r at hrun ⊢
  cases hob1 : s'.obs? ob.id with
  | none => rw [hob1] at hast'; simp at hast'
  | some ob1 =>
    rw [hob1] at hast'
    simp only [Option.map_some, Option.some.injEq] at hast'
    obtain ⟨ob2, hob2, _⟩ := (telRun_keep hrun).fwd hob1
    obtain ⟨ob1', hob1', _, a1, _⟩ := telRun_tobs hrun ob.id ob2 hob2
    rw [hob1] at hob1'; cases hob1'
    have hres : ob2.ast = some n := by
      rcases a1 with e | ⟨e, _⟩
      · rw [e]; exact hast'
      · exact e
    obtain ⟨s1, e1⟩ := r
    cases e1 with
    | none => exact ⟨ob2, hob2, hres⟩
    | some x => exact ⟨ob2, hob2, hres⟩

end Sys

/-! ### the telescope's loop runs a block at every instant it has passed -/

theorem ot_cast_lt_succ_cases {n m : Nat} (h : ((n : Nat) : Time) < ((m : Nat) : Time) + 1) :
    ((n : Nat) : Time) < ((m : Nat) : Time) ∨ n = m := by
  rw [lcCast_succ] at h
  have h1 : n < m + 1 := by exact_mod_cast h
  rcases Nat.lt_or_ge n m with h2 | h2
  · left; exact_mod_cast h2
  · right; omega

theorem ot_cast_inj {n m : Nat} (h : ((n : Nat) : Time) = ((m : Nat) : Time)) : n = m := by
  exact_mod_cast h

/-- For every instant `n` the telescope's loop has passed (it is due later, or it ended in its
block at `n`), the run contains the kernel step `k0 → k1` that is the telescope's block at `n`. -/
theorem sim_telHist (env : SimEnv) (s0 : Sys) (hw : WFConfig s0) (k : SimState) (h : SimReach env s0 k) :
    ∀ t ∈ k.st.procs, t.k = .telescope → ∀ n : Nat,
      (((n : Nat) : Time) < t.wake ∨ (((n : Nat) : Time) = t.wake ∧ t.alive = false)) →
      ∃ k0 k1, SimReach env s0 k0 ∧ TelDue k0 n ∧ k0.step (simHandler env) = some k1 ∧ SimPath env k1 k := by
  induction h with
  | start =>
    intro t ht htk n hn
    have hp := start_procs s0 hw
    have hst : (SimState.start s0).st = s0.start := rfl
    rw [hst, hp] at ht
    simp only [List.mem_cons, List.not_mem_nil, or_false] at ht
    rcases ht with rfl | rfl | rfl | rfl | rfl <;> simp at htk
    exfalso
    rcases hn with h1 | ⟨_, h1⟩
    · have : ((n : Nat) : Time) < ((0 : Nat) : Time) := by simpa using h1
      have : n < 0 := by exact_mod_cast this
      omega
    · simp at h1
  | step k k1 hr hs ih =>
    intro t ht htk n hn
    have ext : (∃ k0 k1', SimReach env s0 k0 ∧ TelDue k0 n ∧ k0.step (simHandler env) = some k1' ∧ SimPath env k1' k) →
        ∃ k0 k1', SimReach env s0 k0 ∧ TelDue k0 n ∧ k0.step (simHandler env) = some k1' ∧ SimPath env k1' k1 := by
      rintro ⟨k0, k1', a, b, c, d⟩
      exact ⟨k0, k1', a, b, c, SimPath.step _ k k1 d hs⟩
    obtain ⟨e, hpk, hc⟩ := ot_step_cases hw hr hs
    rcases hc with ⟨hc, _⟩ | ⟨p, hpp, ha, _, hen, hc⟩
    · rw [hc] at ht
      exact ext (ih t ht htk n hn)
    · have hinv := hr.l3inv hw
      obtain ⟨hpm, hpid⟩ := proc?_some hpp
      obtain ⟨p', hp', _, hmin⟩ := hen
      rw [hpp] at hp'; cases hp'
      obtain ⟨new, hm, _, hnewp⟩ := ot_step_table hinv.sinv hpp ha hmin (env.oracle k.st)
      rw [hc] at ht
      rcases (hm t).mp ht with rfl | ⟨ht0, _⟩ | htn
      · -- the telescope has just run
        simp only [fin_k] at htk
        have hk := ot_block_tel hinv.sinv.pw p (env.oracle k.st) htk
        obtain ⟨m, hwm⟩ := hinv.heap.telInt p hpm hk
        have hdue : TelDue k m := ⟨e, p, hpk, hpp, ha, hk, hwm⟩
        have hnew : n = m → ∃ k0 k1', SimReach env s0 k0 ∧ TelDue k0 n ∧
            k0.step (simHandler env) = some k1' ∧ SimPath env k1' k1 := by
          rintro rfl
          exact ⟨k, k1, hr, hdue, hs, SimPath.refl _⟩
        have hu := block_unit k.st p (env.oracle k.st) (by rw [hk]; rfl)
        cases hy : (k.st.block p (env.oracle k.st)).2.2 with
        | timeout d =>
          rw [hy] at hu hn
          simp only [Yield.unit] at hu
          subst hu
          rw [fin_timeout] at hn
          simp only at hn
          rcases hn with h1 | ⟨_, h1⟩
          · rw [hwm] at h1
            rcases ot_cast_lt_succ_cases h1 with h2 | h2
            · exact ext (ih p hpm hk n (Or.inl (by rw [hwm]; exact h2)))
            · exact hnew h2
          · rw [ha] at h1; cases h1
        | done =>
          rw [hy] at hn
          rcases hn with h1 | ⟨h1, _⟩
          · exact ext (ih p hpm hk n (Or.inl h1))
          · have h2 : ((n : Nat) : Time) = ((m : Nat) : Time) := by rw [← hwm]; exact h1
            exact hnew (ot_cast_inj h2)
        | raised x =>
          rw [hy] at hn
          rcases hn with h1 | ⟨h1, _⟩
          · exact ext (ih p hpm hk n (Or.inl h1))
          · have h2 : ((n : Nat) : Time) = ((m : Nat) : Time) := by rw [← hwm]; exact h1
            exact hnew (ot_cast_inj h2)
      · exact ext (ih t ht0 htk n hn)
      · exact absurd htk (ot_new_not_tel (hnewp t htn).2.2.2)
  | collate k _ ih =>
    intro t ht htk n hn
    obtain ⟨k0, k1', a, b, c, d⟩ := ih t ht htk n hn
    exact ⟨k0, k1', a, b, c, SimPath.collate _ k d⟩

end Topsim
