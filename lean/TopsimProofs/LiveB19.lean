/-
  LiveB19 — BatchProcessing: the declarations of Live19 that depend on the configuration hypotheses,
  for `LiveCfgB` / `NcCfgB` (`s0.alg = .batch …`).  Generated from Live19.lean by renaming (suffix `_B`);
  the algorithm-dependent ones are rewritten (see the comments).
-/
import TopsimProofs.Live19
import TopsimProofs.LiveB5
import TopsimProofs.LiveB6
import TopsimProofs.LiveB6b
import TopsimProofs.LiveB6c
import TopsimProofs.LiveB6d
import TopsimProofs.LiveB7
import TopsimProofs.LiveB7c
import TopsimProofs.LiveB7d
import TopsimProofs.LiveB7e
import TopsimProofs.LiveB7g
import TopsimProofs.LiveB7h
import TopsimProofs.LiveB7i
import TopsimProofs.LiveB8
import TopsimProofs.LiveB8b
import TopsimProofs.LiveB8c
import TopsimProofs.LiveB8d
import TopsimProofs.LiveB8e
import TopsimProofs.LiveB8f
import TopsimProofs.LiveB8g
import TopsimProofs.LiveB8h
import TopsimProofs.LiveB9
import TopsimProofs.LiveB10
import TopsimProofs.LiveB11
import TopsimProofs.LiveB12
import TopsimProofs.LiveB13
import TopsimProofs.LiveB18

namespace Topsim
open KState Sys

/-- **No silent hang.**  BatchProcessing, batch planning, feasible and well-formed configuration,
initially empty full-free buffer, H1 (`NoTierCfg`), topologically ordered workflows, ANY delay
table / delay script: after some number of kernel steps the run has raised an exception, or it is
at `is_finished()` with no exception raised. -/
theorem live_no_silent_hang_B (env : SimEnv) (s0 : Sys) (hw : Sys.WFConfig s0) (hfe : Sys.Feasible s0)
    (hb0 : s0.buf.hot.stored = [] ∧ s0.buf.hot.scheduled = [] ∧ s0.buf.hot.finished = [] ∧
      s0.buf.cold.stored = [])
    (hfull : s0.buf.size = [] ∧ s0.buf.hot.cur = s0.buf.hot.total ∧ s0.buf.cold.cur = s0.buf.cold.total)
    (hct : s0.buf.cold.transfer = none) (hh0 : s0.halted = false)
    (hH1 : Sys.NoTierCfg s0) (halg : s0.BatchAlg) (hmin : Sys.BatchMinOk s0) (hstat : s0.staticPlan = false)
    (htopo : ∀ o ∈ s0.obs, IsTopo o.wf) :
    ∃ n, (ilSimSteps env n (SimState.start s0)).st.crashed ≠ none ∨
      ((ilSimSteps env n (SimState.start s0)).st.isFinished = true ∧
        (ilSimSteps env n (SimState.start s0)).st.crashed = none ∧
        SimRun env s0 (ilSimSteps env n (SimState.start s0))) := by
  by_cases hnr : NoRaise env s0
  · have C : LiveCfgB env s0 := ⟨hw, hfe, hb0, hfull, hct, hH1, halg, hstat, htopo, hnr, hmin⟩
    obtain ⟨n, h1, h2, h3⟩ := live_terminates_noRaise_B C hh0
    refine ⟨n, Or.inr ?_⟩
    rw [← simAt_eq_ilSimSteps]
    exact ⟨h1, h2, h3⟩
  · have : ∃ n, (simAt env s0 n).st.crashed ≠ none := by
      apply Classical.byContradiction
      intro hno
      apply hnr
      intro n
      cases h : (simAt env s0 n).st.crashed with
      | none => rfl
      | some e => exact absurd ⟨n, by rw [h]; simp⟩ hno
    obtain ⟨n, hn⟩ := this
    refine ⟨n, Or.inl ?_⟩
    rw [← simAt_eq_ilSimSteps]
    exact hn
end Topsim
