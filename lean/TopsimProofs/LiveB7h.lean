/-
  LiveB7h — BatchProcessing: the declarations of Live7h that depend on the configuration hypotheses,
  for `LiveCfgB` / `NcCfgB` (`s0.alg = .batch …`).  Generated from Live7h.lean by renaming (suffix `_B`);
  the algorithm-dependent ones are rewritten (see the comments).
-/
import TopsimProofs.Live7h
import TopsimProofs.LiveB5
import TopsimProofs.LiveB7
import TopsimProofs.LiveB7c
import TopsimProofs.LiveB7d
import TopsimProofs.LiveB7e
import TopsimProofs.LiveB7g
import TopsimProofs.LiveB3

namespace Topsim
open KState Sys
section
variable {env : SimEnv} {s0 : Sys}

/-- the step at index `n`, for the entry and the process the caller names -/
theorem l7_step_at_B (C : LiveCfgB env s0) (K : LiveKernel env s0) (n : Nat) {e : HEntry} {p : Proc}
    (hpk : (simAt env s0 n).peek = some e) (hpp : (simAt env s0 n).st.proc? e.pid = some p) :
    L7Step (simAt env s0 n).st (simAt env s0 (n + 1)).st p (env.oracle (simAt env s0 n).st) := by
  obtain ⟨e', p', hpk', hpp', _, hstep⟩ := l7_step_B C K n
  rw [hpk] at hpk'
  injection hpk' with he
  subst he
  rw [hpp] at hpp'
  injection hpp' with hp
  subst hp
  exact hstep

/-- `PSch` is monotone along the run -/
theorem live_PSch_mono_B (C : LiveCfgB env s0) (K : LiveKernel env s0) (n : Nat) {o : Oid} {node : Nat}
    (h : Sys.PSch o node (simAt env s0 n).st) : Sys.PSch o node (simAt env s0 (n + 1)).st := by
  obtain ⟨e, p, _, _, _, hstep⟩ := l7_step_B C K n
  exact l7_psch_step_B (l7_lib_B C K n) hstep h

/-- SF, strengthened: the allocation process that was created, and none for that node before -/
theorem live_allocTasks_spawn_flips_B' (C : LiveCfgB env s0) (K : LiveKernel env s0) (n : Nat) {e : HEntry}
    {p : Proc} (hpk : (simAt env s0 n).peek = some e) (hpp : (simAt env s0 n).st.proc? e.pid = some p)
    (_ha : p.alive = true) {o : Oid} {sc pa : List (Tid × Mid)} {po : List Tid} {fn : Bool}
    (hk : p.k = .allocTasks o sc pa po fn)
    (hsp : (simAt env s0 n).st.nextPid < (simAt env s0 (n + 1)).st.nextPid) :
    ∃ ob ∈ s0.obs, ob.id = o ∧ ∃ node ∈ ob.wf.topo,
      ¬ Sys.PSch o node (simAt env s0 n).st ∧ Sys.PSch o node (simAt env s0 (n + 1)).st ∧
      (∃ q ∈ (simAt env s0 (n + 1)).st.procs, ∃ c m preds obs ing ret,
        q.k = .allocTask (.wf o c node) m preds obs ing ret) ∧
      (∀ q ∈ (simAt env s0 n).st.procs, ∀ c m preds obs ing ret,
        q.k ≠ .allocTask (.wf o c node) m preds obs ing ret) := by
  have hstep := l7_step_at_B C K n hpk hpp
  obtain ⟨new, hnewe, _⟩ := block_newp (simAt env s0 n).st p (env.oracle (simAt env s0 n).st)
  have hlen : (simAt env s0 (n + 1)).st.procs.length = (simAt env s0 n).st.procs.length + new.length := by
    rw [hstep.eq]
    simp only [Sys.updProc, List.length_map]
    rw [hnewe, List.length_append]
  rw [l7_procs_length K, l7_procs_length K] at hlen
  have hne : new ≠ [] := by
    intro e0
    rw [e0] at hlen
    simp at hlen
    omega
  obtain ⟨q, hq⟩ := List.exists_mem_of_ne_nil _ hne
  exact l7_spawn_flips_B (l7_lib_B C K n) (l7_lib_B C K (n + 1)) (live_l7a_B C K (n + 1)) C.stat hstep hk hnewe hq

/-- **SF.**  Whenever a block of an `allocate_tasks` process creates a process, the record of some
workflow node of that observation goes from UNSCHEDULED to not UNSCHEDULED in that block. -/
theorem live_allocTasks_spawn_flips_B (C : LiveCfgB env s0) (K : LiveKernel env s0) (n : Nat) {e : HEntry}
    {p : Proc} (hpk : (simAt env s0 n).peek = some e) (hpp : (simAt env s0 n).st.proc? e.pid = some p)
    (ha : p.alive = true) {o : Oid} {sc pa : List (Tid × Mid)} {po : List Tid} {fn : Bool}
    (hk : p.k = .allocTasks o sc pa po fn)
    (hsp : (simAt env s0 n).st.nextPid < (simAt env s0 (n + 1)).st.nextPid) :
    ∃ ob ∈ s0.obs, ob.id = o ∧ ∃ node ∈ ob.wf.topo,
      ¬ Sys.PSch o node (simAt env s0 n).st ∧ Sys.PSch o node (simAt env s0 (n + 1)).st := by
  obtain ⟨ob, hob, hoid, node, hnode, h1, h2, _⟩ := live_allocTasks_spawn_flips_B' C K n hpk hpp ha hk hsp
  exact ⟨ob, hob, hoid, node, hnode, h1, h2⟩

/-- E2 for BatchProcessing, strengthened: the block removes the observation, or starts one more task
of its workflow (the allocation process that was created is named, none carried that node before),
or the observation holds no reservation, `_provision_resources` refuses one, and the cluster is left
as it is. -/
theorem live_allocTasks_progress_B' (C : LiveCfgB env s0) (K : LiveKernel env s0) (n : Nat) {e : HEntry}
    {p : Proc} (hpk : (simAt env s0 n).peek = some e) (hpp : (simAt env s0 n).st.proc? e.pid = some p)
    (_ha : p.alive = true) {o : Oid} {sc pa : List (Tid × Mid)} {po : List Tid}
    (hk : p.k = .allocTasks o sc pa po false) (_hrm : o ∉ (simAt env s0 n).st.buf.hot.finished)
    (hocc : (simAt env s0 n).st.cl.occupied = [] ∧ (simAt env s0 n).st.cl.ingest = [])
    (hq : ∀ q ∈ (simAt env s0 n).st.procs, q.alive = true → q.k.tag ≠ "allocTask" ∧ q.k.tag ≠ "doWork")
    {parts minPer : Nat} {split : Option (List (Oid × Nat × Nat))} (halg : s0.alg = .batch parts minPer split) :
    o ∈ (simAt env s0 (n + 1)).st.buf.hot.finished ∨
    (∃ ob ∈ s0.obs, ob.id = o ∧ ∃ node ∈ ob.wf.topo,
      ¬ Sys.PSch o node (simAt env s0 n).st ∧ Sys.PSch o node (simAt env s0 (n + 1)).st ∧
      (∃ q ∈ (simAt env s0 (n + 1)).st.procs, ∃ c m preds obs ing ret,
        q.k = .allocTask (.wf o c node) m preds obs ing ret) ∧
      (∀ q ∈ (simAt env s0 n).st.procs, ∀ c m preds obs ing ret,
        q.k ≠ .allocTask (.wf o c node) m preds obs ing ret)) ∨
    (Alg.provisionResources (simAt env s0 n).st.cl parts minPer split o = .ok ((simAt env s0 n).st.cl, false) ∧
      (simAt env s0 (n + 1)).st.cl = (simAt env s0 n).st.cl) := by
  have hstep := l7_step_at_B C K n hpk hpp
  have L := l7_lib_B C K n
  have hres : ∀ l, dictGet (simAt env s0 n).st.cl.idle o = some l → l ≠ [] :=
    fun l hl => live_res_idle_B C K n (fun q hq1 hq2 => (hq q hq1 hq2).1) hl
  have halgn : (simAt env s0 n).st.alg = .batch parts minPer split := (reach_alg (l8_reach_B C K n)).trans halg
  rcases l7_progress_B L (live_l7a_B C K n) (live_l7pool_B C K n) C.stat C.topo hstep hk hocc hq hres halgn with
    h1 | ⟨q, hq1, hpid⟩ | h3
  · exact Or.inl h1
  · right; left
    obtain ⟨new, hnewe, _⟩ := block_newp (simAt env s0 n).st p (env.oracle (simAt env s0 n).st)
    have hqn : q ∈ new := by
      rw [hnewe] at hq1
      rcases List.mem_append.mp hq1 with h2 | h2
      · exfalso
        have := L.sinv.pw.lt q h2
        omega
      · exact h2
    exact l7_spawn_flips_B L (l7_lib_B C K (n + 1)) (live_l7a_B C K (n + 1)) C.stat hstep hk hnewe hqn
  · exact Or.inr (Or.inr h3)

/-- **E2, BatchProcessing.**  When the kernel resumes the live `allocate_tasks` process of an
observation not yet removed, in a state where no allocation process / task body is alive and no
machine is occupied or ingesting, this block removes the observation from the hot buffer, or starts
at least one more task of its workflow, or — the observation holds no reservation and none can be
made (`_provision_resources` returns False: all partitions are taken, or too few machines are
available) — leaves the cluster as it is. -/
theorem live_allocTasks_progress_B (C : LiveCfgB env s0) (K : LiveKernel env s0) (n : Nat) {e : HEntry}
    {p : Proc} (hpk : (simAt env s0 n).peek = some e) (hpp : (simAt env s0 n).st.proc? e.pid = some p)
    (ha : p.alive = true) {o : Oid} {sc pa : List (Tid × Mid)} {po : List Tid}
    (hk : p.k = .allocTasks o sc pa po false) (hrm : o ∉ (simAt env s0 n).st.buf.hot.finished)
    (hocc : (simAt env s0 n).st.cl.occupied = [] ∧ (simAt env s0 n).st.cl.ingest = [])
    (hq : ∀ q ∈ (simAt env s0 n).st.procs, q.alive = true → q.k.tag ≠ "allocTask" ∧ q.k.tag ≠ "doWork")
    {parts minPer : Nat} {split : Option (List (Oid × Nat × Nat))} (halg : s0.alg = .batch parts minPer split) :
    o ∈ (simAt env s0 (n + 1)).st.buf.hot.finished ∨
    (∃ ob ∈ s0.obs, ob.id = o ∧ ∃ node ∈ ob.wf.topo,
      ¬ Sys.PSch o node (simAt env s0 n).st ∧ Sys.PSch o node (simAt env s0 (n + 1)).st) ∨
    (Alg.provisionResources (simAt env s0 n).st.cl parts minPer split o = .ok ((simAt env s0 n).st.cl, false) ∧
      (simAt env s0 (n + 1)).st.cl = (simAt env s0 n).st.cl) := by
  rcases live_allocTasks_progress_B' C K n hpk hpp ha hk hrm hocc hq halg with h1 |
    ⟨ob, hob, hoid, node, hnode, h1, h2, _⟩ | h3
  · exact Or.inl h1
  · exact Or.inr (Or.inl ⟨ob, hob, hoid, node, hnode, h1, h2⟩)
  · exact Or.inr (Or.inr h3)
end
end Topsim
