/-
  LiveP18 — the declarations of Live18.lean that depend on the configuration structures, restated for
  the plan-following configurations (`LivePCfg`, `NcPCfg`, `L7PLib`); the proofs are those of Live18.lean.
-/
import TopsimProofs.LiveP13

namespace Topsim

open KState Sys

section

variable {env : SimEnv} {s0 : Sys}

theorem liveParts_P (C : LivePCfg env s0) (K : LiveKernel env s0) : LiveParts env s0 where
  worker_ends := fun hp ha hk => live_worker_ends_P C K hp ha hk
  tel_alive := fun n h => live_telescope_alive_P C K n h
  sched_alive := fun n => live_schedLoop_alive_P C K n
  obs_finishes := fun hob hast => live_obs_finishes_P C K hob hast
  ats_progress := by
    intro n e p hpk hpp ha o sc pa po hk hrm hav hocc hq
    rcases live_allocTasks_progress'_P C K n hpk hpp ha hk hrm hav hocc hq with h |
      ⟨ob, hob, hid, node, hnode, _, _, ⟨q, hq1, c, m, preds, obs, ing, ret, hqk⟩, hnone⟩
    · exact Or.inl h
    · refine Or.inr ⟨ob, hob, hid, node, hnode, ?_, ⟨q, hq1, c, m, preds, obs, ing, ret, hqk⟩⟩
      rintro ⟨q0, hq0, c0, m0, preds0, obs0, ing0, ret0, hk0⟩
      exact hnone q0 hq0 c0 m0 preds0 obs0 ing0 ret0 hk0
  ats_spawn := by
    intro n e p hpk hpp ha o sc pa po fn hk hsp
    obtain ⟨ob, hob, hid, node, hnode, _, _, ⟨q, hq1, c, m, preds, obs, ing, ret, hqk⟩, hnone⟩ :=
      live_allocTasks_spawn_flips'_P C K n hpk hpp ha hk hsp
    refine ⟨ob, hob, hid, node, hnode, ?_, ⟨q, hq1, c, m, preds, obs, ing, ret, hqk⟩⟩
    rintro ⟨q0, hq0, c0, m0, preds0, obs0, ing0, ret0, hk0⟩
    exact hnone q0 hq0 c0 m0 preds0 obs0 ing0 ret0 hk0
  sched_has_proc := fun n _ ho => live_sched_has_proc_P C K n ho
  queue_sched := fun n _ ho => live_queue_sched_P C K n ho
  noTier := fun n => live_noTier_P C K n
  schedLoop_pops := fun n _ _ hpk hpp ha hk hst => live_schedLoop_pops_P C K n hpk hpp ha hk hst
  finished_stored := fun n _ hob hfin hns => live_finished_stored_P C K n hob hfin hns
  free := fun n hq hfin => live_free_P C K n hq hfin
  admits := fun n _ _ hpk hpp ha hk hq hfin hex hdue => live_admit_P C K n hpk hpp ha hk hq hfin hex hdue
  finished := fun n hq hall hqueue => live_finished_P C K n hq hall hqueue
  schedLoop_spawn := fun n _ _ hpk hpp ha hk hsp => live_schedLoop_spawn_flips_P C K n hpk hpp ha hk hsp
  tel_spawn := fun n _ _ hpk hpp ha hk hsp => live_telescope_spawn_flips_P C K n hpk hpp ha hk hsp
  bufferLoop_no_spawn := fun n _ _ hpk hpp ha hk => live_bufferLoop_no_spawn_P C K n hpk hpp ha hk

/-- **Liveness of a run that never raises** (queue algorithm, H1, topologically ordered workflows):
it reaches `is_finished()`. -/
theorem live_terminates_noRaise_P (C : LivePCfg env s0) (hh0 : s0.halted = false) :
    ∃ n, (simAt env s0 n).st.isFinished = true ∧ (simAt env s0 n).st.crashed = none ∧
      SimRun env s0 (simAt env s0 n) := by
  have K := liveKernel_P C hh0
  obtain ⟨n, hn⟩ := live_terminates_P C K (liveParts_P C K)
  exact ⟨n, hn, C.nr n, (K.run n).1⟩

end

end Topsim

