/-
  SysInv12 — `provision_ingest_resources`: its block and the step theorem.
-/
import TopsimProofs.SysInv11

namespace Topsim
namespace Sys

open Cluster

theorem updProc_spawn_comm (s : Sys) (k : PK) (now : Time) (pid : Nat) (g : Proc → Proc)
    (hlt : pid < s.nextPid) :
    (s.spawn k now).1.updProc pid g = ((s.updProc pid g).spawn k now).1 := by
  have h := updProc_spawn_procs s k now pid g hlt
  simp only [Sys.updProc, Sys.spawn] at h ⊢
  rw [h]

theorem foldSpawn_comm {α} (K : α → PK) (now : Time) (pid : Nat) (g : Proc → Proc) (l : List α)
    (s : Sys) (hlt : pid < s.nextPid) :
    (l.foldl (fun s p => (s.spawn (K p) now).1) s).updProc pid g
      = l.foldl (fun s p => (s.spawn (K p) now).1) (s.updProc pid g) := by
  induction l generalizing s with
  | nil => rfl
  | cons x r ih =>
    simp only [List.foldl_cons]
    rw [ih _ (by simp; omega), updProc_spawn_comm _ _ _ _ _ hlt]

theorem foldSpawn_spec {α} (K : α → PK) (now : Time) (l : List α) (s1 : Sys) :
    (∃ new, (l.foldl (fun s p => (s.spawn (K p) now).1) s1).procs = s1.procs ++ new ∧
      ∀ q ∈ new, ∃ p ∈ l, q.k = K p) ∧
    (PW s1 → PW (l.foldl (fun s p => (s.spawn (K p) now).1) s1)) ∧
    (l.foldl (fun s p => (s.spawn (K p) now).1) s1).cl = s1.cl ∧
    (l.foldl (fun s p => (s.spawn (K p) now).1) s1).tasks = s1.tasks ∧
    (l.foldl (fun s p => (s.spawn (K p) now).1) s1).obs = s1.obs ∧
    (l.foldl (fun s p => (s.spawn (K p) now).1) s1).starts = s1.starts ∧
    (l.foldl (fun s p => (s.spawn (K p) now).1) s1).active = s1.active ∧
    (l.foldl (fun s p => (s.spawn (K p) now).1) s1).admitted = s1.admitted := by
  induction l generalizing s1 with
  | nil => exact ⟨⟨[], by simp, by simp⟩, fun h => h, rfl, rfl, rfl, rfl, rfl, rfl⟩
  | cons x r ih =>
    simp only [List.foldl_cons]
    obtain ⟨⟨new, h1, h2⟩, h3, h4, h5, h6, h7, h8, h9⟩ := ih (s1.spawn (K x) now).1
    refine ⟨⟨{ pid := s1.nextPid, k := K x, wake := now } :: new, ?_, ?_⟩, fun h => h3 (h.spawn _ _),
      h4, h5, h6, h7, h8, h9⟩
    · rw [h1]; simp
    · intro q hq
      rcases List.mem_cons.mp hq with rfl | hq
      · exact ⟨x, by simp, rfl⟩
      · obtain ⟨p, hp, hk⟩ := h2 q hq
        exact ⟨p, List.mem_cons_of_mem _ hp, hk⟩

/-! ### `CI`: bumping a provisioning process, the cluster step, the new processes -/

theorem CI.bumpPI {s : Sys} {U} (h : CI s U) (hpw : PW s) {p : Proc} (hp : p ∈ s.procs)
    {o d} (hk : p.k = .provIngest o d) (g : Proc → Proc) (hgp : (g p).pid = p.pid)
    (hgk : (g p).k = p.k) (hgc : p.pc ≤ (g p).pc) : CI (s.updProc p.pid g) U := by
  have hmem := fun q => mem_updProc_iff hpw (p := p) hp g q
  have hat : ∀ q, q.k.isAT = true → (q ∈ (s.updProc p.pid g).procs ↔ q ∈ s.procs) :=
    mem_updProc_irrel hpw hp rfl (fun k => k.isAT = true) (by rw [hk]; simp [PK.isAT])
      (by rw [hgk, hk]; simp [PK.isAT])
  have hat1 : ∀ {q : Proc} {t m preds obs ing ret}, q ∈ (s.updProc p.pid g).procs →
      q.k = .allocTask t m preds obs ing ret → q ∈ s.procs := fun hq hk => (hat _ (by rw [hk]; rfl)).mp hq
  have back : ∀ q ∈ (s.updProc p.pid g).procs, ∃ q0 ∈ s.procs, q0.pid = q.pid ∧ q0.k = q.k ∧ q0.pc ≤ q.pc := by
    intro q hq
    rcases (hmem q).mp hq with rfl | ⟨hq, _⟩
    · exact ⟨p, hp, hgp.symm, hgk.symm, hgc⟩
    · exact ⟨q, hq, rfl, rfl, Nat.le_refl _⟩
  constructor
  · exact h.inv
  · intro q hq hqa t m preds obs ing ret hqk; exact h.runOn q (hat1 hq hqk) hqa t m preds obs ing ret hqk
  · intro q hq hqa t m preds obs ret hqk; exact h.pend q (hat1 hq hqk) hqa t m preds obs ret hqk
  · intro q hq hqa t m preds obs ret hqk; exact h.newT q (hat1 hq hqk) hqa t m preds obs ret hqk
  · intro q1 hq1 q2 hq2 ha1 ha2 t m1 preds1 obs1 ing1 ret1 m2 preds2 obs2 ing2 ret2 hk1 hk2
    exact h.uniq q1 (hat1 hq1 hk1) q2 (hat1 hq2 hk2) ha1 ha2 _ _ _ _ _ _ _ _ _ _ _ hk1 hk2
  · intro q hq t m preds obs ing ret hqk; exact h.hasRec q (hat1 hq hqk) t m preds obs ing ret hqk
  · exact h.ingRec
  · exact h.usedRec
  · intro o' i hoi
    obtain ⟨q, hq, d', hqk, hpc⟩ := h.provOnce o' i hoi
    by_cases e : q.pid = p.pid
    · have : q = p := hpw.eq_of_pid hq hp e
      subst this
      exact ⟨g q, (hmem _).mpr (Or.inl rfl), d', by rw [hgk, hqk], by omega⟩
    · exact ⟨q, (hmem q).mpr (Or.inr ⟨hq, e⟩), d', hqk, hpc⟩
  · intro q1 hq1 q2 hq2 o' d1 d2 hk1 hk2
    obtain ⟨a, ha, hap, hak, _⟩ := back q1 hq1
    obtain ⟨b, hb, hbp, hbk, _⟩ := back q2 hq2
    rw [← hap, ← hbp]
    exact h.provUniq a ha b hb o' d1 d2 (hak.trans hk1) (hbk.trans hk2)
  · intro q hq o' d' hqk
    obtain ⟨a, ha, _, hak, _⟩ := back q hq
    exact h.provObs a ha o' d' (hak.trans hqk)

theorem sched_append_new (ts : List TaskRec) (pairs : List (Mid × Tid)) (F : Mid × Tid → TaskRec)
    (hF : ∀ p, (F p).id = p.2 ∧ (F p).status = .scheduled) (hing : IngRecs ts) (x : Tid)
    (hx : x ∈ pairs.map (·.2)) (hxi : x.isIngest = true) : Sched (ts ++ pairs.map F) x := by
  unfold Sched
  rw [List.find?_append]
  cases hf : ts.find? (fun r => decide (r.id = x)) with
  | some r =>
    refine ⟨r, rfl, ?_⟩
    have h1 := List.mem_of_find?_eq_some hf
    have h2 : r.id = x := by simpa using List.find?_some hf
    exact hing r h1 (by rw [h2]; exact hxi)
  | none =>
    simp only [Option.none_or]
    obtain ⟨p, hp, rfl⟩ := List.mem_map.mp hx
    have : ((pairs.map F).find? (fun r => decide (r.id = p.2))).isSome := by
      rw [List.find?_isSome]
      exact ⟨F p, List.mem_map_of_mem hp, by simp [(hF p).1]⟩
    obtain ⟨r, hr⟩ := Option.isSome_iff_exists.mp this
    refine ⟨r, hr, ?_⟩
    obtain ⟨p', _, rfl⟩ := List.mem_map.mp (List.mem_of_find?_eq_some hr)
    rw [(hF p').2]; simp

theorem CI.provStep {s : Sys} {U} (h : CI s U) {p : Proc} (hp : p ∈ s.procs) {o d}
    (hk : p.k = .provIngest o d) (hpc : 1 ≤ p.pc) (hfresh : ∀ i, Tid.ingest o i ∉ U) (d' : Nat)
    (hok : (s.cl.provisionIngest d' o).2.1 = none) (F : Mid × Tid → TaskRec)
    (hF : ∀ p, (F p).id = p.2 ∧ (F p).status = .scheduled) :
    CI { s with cl := (s.cl.provisionIngest d' o).1,
                tasks := s.tasks ++ (s.cl.provisionIngest d' o).2.2.map F }
      ((s.cl.provisionIngest d' o).2.2.map (·.2) ++ U) := by
  obtain ⟨hinv, f1, f2, _, _, _, hids⟩ := provisionIngest_sharp h.inv d' o hfresh hok
  have hrecs : IngRecs ((s.cl.provisionIngest d' o).2.2.map F) := by
    intro r hr _
    obtain ⟨p', _, rfl⟩ := List.mem_map.mp hr
    rw [(hF p').2]; simp
  have htm := TaskMono.append s.tasks _ hrecs
  have hnewIng : ∀ x ∈ (s.cl.provisionIngest d' o).2.2.map (·.2), ∃ i, x = Tid.ingest o i := by
    intro x hx
    obtain ⟨p', hp', rfl⟩ := List.mem_map.mp hx
    exact hids p' hp'
  constructor
  · exact hinv
  · intro q hq hqa t m preds obs ing ret hqk hqc
    show _ ∈ (s.cl.provisionIngest d' o).1.runOn
    rw [f2]; exact h.runOn q hq hqa t m preds obs ing ret hqk hqc
  · intro q hq hqa t m preds obs ret hqk hqc
    show _ ∈ (s.cl.provisionIngest d' o).1.pending
    rw [f1]; exact List.mem_append_left _ (h.pend q hq hqa t m preds obs ret hqk hqc)
  · intro q hq hqa t m preds obs ret hqk hqc
    have h1 := h.newT q hq hqa t m preds obs ret hqk hqc
    refine ⟨fun hx => ?_, h1.2⟩
    rcases List.mem_append.mp hx with hx | hx
    · obtain ⟨i, rfl⟩ := hnewIng t hx
      simp [Tid.isIngest] at h1
    · exact h1.1 hx
  · exact h.uniq
  · intro q hq t m preds obs ing ret hqk
    exact htm.sched t (h.hasRec q hq t m preds obs ing ret hqk)
  · exact htm.ing h.ingRec
  · intro x hx
    rcases List.mem_append.mp hx with hx | hx
    · obtain ⟨i, hi⟩ := hnewIng x hx
      exact sched_append_new s.tasks _ F hF h.ingRec x hx (by rw [hi]; rfl)
    · exact htm.sched x (h.usedRec x hx)
  · intro o' i hoi
    rcases List.mem_append.mp hoi with hx | hx
    · obtain ⟨j, hj⟩ := hnewIng _ hx
      injection hj with e1 _
      subst e1
      exact ⟨p, hp, d, hk, hpc⟩
    · exact h.provOnce o' i hx
  · exact h.provUniq
  · exact h.provObs

theorem CI.spawnIngAT {s : Sys} {U : List Tid} (h : CI s U) (t : Tid) (m : Mid) (obs : Option Oid)
    (now : Time) (hs : Sched s.tasks t) (hpend : (⟨t, m, obs, true⟩ : RunEntry) ∈ s.cl.pending)
    (hno : ∀ q ∈ s.procs, q.alive = true → ∀ m preds obs ing ret, q.k ≠ .allocTask t m preds obs ing ret) :
    CI (s.spawn (.allocTask t m [] obs true 0) now).1 U := by
  constructor
  · exact h.inv
  · intro p hp ha t' m' preds' obs' ing' ret' hk hpc
    simp only [spawn_procs, List.mem_append, List.mem_singleton] at hp
    rcases hp with hp | rfl
    · exact h.runOn p hp ha t' m' preds' obs' ing' ret' hk hpc
    · simp at hpc
  · intro p hp ha t' m' preds' obs' ret' hk hpc
    simp only [spawn_procs, List.mem_append, List.mem_singleton] at hp
    rcases hp with hp | rfl
    · exact h.pend p hp ha t' m' preds' obs' ret' hk hpc
    · simp only [PK.allocTask.injEq] at hk
      obtain ⟨rfl, rfl, _, rfl, _⟩ := hk
      exact hpend
  · intro p hp ha t' m' preds' obs' ret' hk hpc
    simp only [spawn_procs, List.mem_append, List.mem_singleton] at hp
    rcases hp with hp | rfl
    · exact h.newT p hp ha t' m' preds' obs' ret' hk hpc
    · simp at hk
  · intro p hp q hq ha hb t' m1 preds1 obs1 ing1 ret1 m2 preds2 obs2 ing2 ret2 hk hk'
    simp only [spawn_procs, List.mem_append, List.mem_singleton] at hp hq
    rcases hp with hp | rfl <;> rcases hq with hq | rfl
    · exact h.uniq p hp q hq ha hb t' m1 preds1 obs1 ing1 ret1 m2 preds2 obs2 ing2 ret2 hk hk'
    · simp only [PK.allocTask.injEq] at hk'
      obtain ⟨rfl, _⟩ := hk'
      exact absurd hk (hno p hp ha _ _ _ _ _)
    · simp only [PK.allocTask.injEq] at hk
      obtain ⟨rfl, _⟩ := hk
      exact absurd hk' (hno q hq hb _ _ _ _ _)
    · rfl
  · intro p hp t' m' preds' obs' ing' ret' hk
    simp only [spawn_procs, List.mem_append, List.mem_singleton] at hp
    rcases hp with hp | rfl
    · exact h.hasRec p hp t' m' preds' obs' ing' ret' hk
    · simp only [PK.allocTask.injEq] at hk
      obtain ⟨rfl, _⟩ := hk
      exact hs
  · exact h.ingRec
  · exact h.usedRec
  · intro o i hoi
    obtain ⟨p, hp, d, hk, hpc⟩ := h.provOnce o i hoi
    exact ⟨p, by simp [hp], d, hk, hpc⟩
  · intro p hp q hq o d d' hk hk'
    simp only [spawn_procs, List.mem_append, List.mem_singleton] at hp hq
    rcases hp with hp | rfl
    · rcases hq with hq | rfl
      · exact h.provUniq p hp q hq o d d' hk hk'
      · simp at hk'
    · simp at hk
  · intro p hp o d hk
    simp only [spawn_procs, List.mem_append, List.mem_singleton] at hp
    rcases hp with hp | rfl
    · exact h.provObs p hp o d hk
    · simp at hk

theorem CI.foldSpawnIng {U : List Tid} (obs : Option Oid) (now : Time) (pairs : List (Mid × Tid))
    (hnd : (pairs.map (·.2)).Nodup) (s : Sys) (h : CI s U)
    (hside : ∀ p ∈ pairs, Sched s.tasks p.2 ∧ (⟨p.2, p.1, obs, true⟩ : RunEntry) ∈ s.cl.pending ∧
      ∀ q ∈ s.procs, q.alive = true → ∀ m preds obs ing ret, q.k ≠ .allocTask p.2 m preds obs ing ret) :
    CI (pairs.foldl (fun (s : Sys) (p : Mid × Tid) => (s.spawn (.allocTask p.2 p.1 [] obs true 0) now).1) s) U := by
  induction pairs generalizing s with
  | nil => exact h
  | cons x r ih =>
    simp only [List.foldl_cons]
    simp only [List.map_cons, List.nodup_cons] at hnd
    obtain ⟨h1, h2, h3⟩ := hside x (by simp)
    apply ih hnd.2 _ (h.spawnIngAT x.2 x.1 obs now h1 h2 h3)
    intro p hp
    obtain ⟨g1, g2, g3⟩ := hside p (List.mem_cons_of_mem _ hp)
    refine ⟨g1, g2, ?_⟩
    intro q hq hqa m preds obs' ing ret hqk
    simp only [spawn_procs, List.mem_append, List.mem_singleton] at hq
    rcases hq with hq | rfl
    · exact g3 q hq hqa _ _ _ _ _ hqk
    · simp only [PK.allocTask.injEq] at hqk
      exact hnd.1 (hqk.1 ▸ List.mem_map_of_mem (f := (·.2)) hp)

end Sys
end Topsim
