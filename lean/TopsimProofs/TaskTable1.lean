/-
  TaskTable1 — the planning mode (`Sys.staticPlan`: BatchPlanning or the static
  planner) of a simulation never changes.  (The proof is that of Preced12 for the
  machine table, field by field.)
-/
import TopsimProofs.Preced12

namespace Topsim
namespace Sys

theorem foldl_stat {α} (f : Sys → α → Sys) (hf : ∀ s x, (f s x).staticPlan = s.staticPlan) (l : List α) (s : Sys) :
    (l.foldl f s).staticPlan = s.staticPlan := by
  induction l generalizing s with
  | nil => rfl
  | cons x r ih => exact (ih _).trans (hf s x)

theorem updateCurrentPlan_stat (s : Sys) (oid : Oid) : (s.updateCurrentPlan oid).staticPlan = s.staticPlan := by
  unfold updateCurrentPlan
  split
  · rfl
  · simp only
    show (List.foldl _ s _).staticPlan = s.staticPlan
    apply foldl_stat
    intro s x
    split
    · split <;> rfl
    · rfl

syntax "stat_fields" : tactic
macro_rules
  | `(tactic| stat_fields) =>
    `(tactic| first
      | rfl
      | (split <;> stat_fields))

theorem monitorBlock_stat (s : Sys) (now : Time) : (s.monitorBlock now).1.staticPlan = s.staticPlan := rfl

theorem checkIngestCapacity_stat (s : Sys) (o : Obs) (s' : Sys) (b : Bool)
    (h : s.checkIngestCapacity o = .ok (s', b)) : s'.staticPlan = s.staticPlan := by
  unfold checkIngestCapacity at h
  split at h
  · exact absurd h (by simp)
  · split at h
    · split at h
      · injection h with h; injection h with h1 _
        subst h1
        split <;> rfl
      · injection h with h; injection h with h1 _; subst h1; rfl
    · injection h with h; injection h with h1 _; subst h1; rfl

theorem telescopeVisit_stat (n : Nat) (acc : Sys × Option Err) (oid : Oid) :
    (telescopeVisit n acc oid).1.staticPlan = acc.1.staticPlan := by
  obtain ⟨s1, err⟩ := acc
  unfold telescopeVisit
  cases err with
  | some e => rfl
  | none =>
    simp only
    split
    · rfl
    · rename_i o _
      split
      · cases hc : s1.checkIngestCapacity o with
        | error e => rfl
        | ok r =>
          obtain ⟨s', b⟩ := r
          have := checkIngestCapacity_stat s1 o s' b hc
          cases b with
          | false => exact this
          | true => simp only; exact this
      · split <;> rfl

theorem foldl_stat' {α β} (f : Sys × β → α → Sys × β) (hf : ∀ acc x, (f acc x).1.staticPlan = acc.1.staticPlan)
    (l : List α) (acc : Sys × β) : (l.foldl f acc).1.staticPlan = acc.1.staticPlan := by
  induction l generalizing acc with
  | nil => rfl
  | cons x r ih => exact (ih _).trans (hf acc x)

theorem telescopeBlock_stat (s : Sys) (now : Time) : (s.telescopeBlock now).1.staticPlan = s.staticPlan := by
  unfold telescopeBlock
  split
  · rfl
  · simp only
    have := foldl_stat' (telescopeVisit (natNow now)) (telescopeVisit_stat (natNow now))
      (s.obs.map (·.id))
      ({ s with telEvents := [], telDelayed := if s.schedDelayed = true ∧ (!s.telDelayed) = true then true else s.telDelayed }, none)
    generalize (List.foldl (telescopeVisit (natNow now)) ({ s with telEvents := [], telDelayed := if s.schedDelayed = true ∧ (!s.telDelayed) = true then true else s.telDelayed }, none) (s.obs.map (·.id))) = r at this ⊢
    obtain ⟨s1, e1⟩ := r
    cases e1 <;> exact this

theorem schedLoopBlock_stat (s : Sys) (now : Time) (orc : Oracle) :
    (s.schedLoopBlock now orc).1.staticPlan = s.staticPlan := by
  unfold schedLoopBlock
  simp only
  split
  · split
    · rfl
    · split
      · rfl
      · split <;> split <;> rfl
  · rfl

theorem bufferLoopBlock_stat (s : Sys) (now : Time) : (s.bufferLoopBlock now).1.staticPlan = s.staticPlan := by
  unfold bufferLoopBlock
  split
  · rfl
  · simp only; split <;> split <;> rfl

theorem allocIngestIter_stat (s : Sys) (now : Time) (oid : Oid) (tl : Int) :
    (s.allocIngestIter now oid tl).1.staticPlan = s.staticPlan := by
  unfold allocIngestIter; simp only; stat_fields

theorem allocIngestBlock_stat (s : Sys) (now : Time) (pc : Nat) (oid : Oid) (tl : Int) :
    (s.allocIngestBlock now pc oid tl).1.staticPlan = s.staticPlan := by
  unfold allocIngestBlock
  split
  · exact allocIngestIter_stat _ _ _ _
  · exact allocIngestIter_stat _ _ _ _

theorem provIngestBlock_stat (s : Sys) (now : Time) (pc : Nat) (oid : Oid) (d : Nat) :
    (s.provIngestBlock now pc oid d).1.staticPlan = s.staticPlan := by
  unfold provIngestBlock
  split
  · simp only
    split
    · rfl
    · refine Eq.trans (foldl_stat _ ?_ _ _) rfl
      intro s x; rfl
  · rfl

theorem ingestStreamIter_stat (s : Sys) (now : Time) (oid : Oid) (tl : Int) :
    (s.ingestStreamIter now oid tl).1.staticPlan = s.staticPlan := by
  unfold ingestStreamIter; stat_fields

theorem ingestStreamBlock_stat (s : Sys) (now : Time) (pc : Nat) (oid : Oid) (tl : Int) :
    (s.ingestStreamBlock now pc oid tl).1.staticPlan = s.staticPlan := by
  unfold ingestStreamBlock
  split
  · split
    · rfl
    · split
      · rfl
      · exact ingestStreamIter_stat _ _ _ _
  · exact ingestStreamIter_stat _ _ _ _

theorem allocTaskBlock_stat (s : Sys) (now : Time) (t : Tid) (m : Mid) (preds : List Tid)
    (obs : Option Oid) (ing : Bool) (ret : Nat) :
    (s.allocTaskBlock now t m preds obs ing ret).1.staticPlan = s.staticPlan := by
  unfold allocTaskBlock; simp only; stat_fields

theorem doWorkBlock_stat (s : Sys) (now : Time) (orc : Oracle) (t : Tid) (m : Mid) (preds : List Tid)
    (ph tot : Nat) : (s.doWorkBlock now orc t m preds ph tot).1.staticPlan = s.staticPlan := by
  rcases doWorkBlock_out s now orc t m preds ph tot with
    ⟨_, _, _, _, heq⟩ | ⟨_, _, _, _, _, heq⟩ | ⟨_, _, _, heq⟩ <;> rw [heq] <;> rfl

theorem processOne_stat (now : Time) (oid : Oid) (st : PcsSt) (t : Tid) :
    (processOne now oid st t).s.staticPlan = st.s.staticPlan := by
  unfold processOne
  cases hok : st.err with
  | some e => rfl
  | none =>
    simp only
    cases hm : dictGet st.schedule t with
    | none => rfl
    | some m =>
      cases hr : st.s.task? t with
      | none => rfl
      | some r =>
        simp only []
        cases hmm : st.s.machine? m with
        | none => rfl
        | some mm =>
          simp only []
          by_cases hz : ((r.allocObj || r.planned != some m) = true ∧ (mm.cpu = 0 ∨ mm.bw = 0))
          · rw [if_pos hz]
          · simp only [hz, if_false]
            generalize hs1 : (if (r.allocObj || r.planned != some m) = true then
              st.s.updTask t (fun r => updateAllocation r mm) else st.s) = s1
            have h1 : s1.staticPlan = st.s.staticPlan := by subst hs1; split <;> rfl
            by_cases hocc : (st.curr.contains m = true ∨ s1.cl.isOccupied m = true)
            · simp only [hocc, if_true]; exact h1
            · simp only [hocc, if_false]
              by_cases hmiss : (r.preds.any fun p => !dictHas (dictSet st.pairs t m) p) = true
              · simp only [hmiss, if_true]; exact h1
              · simp only [hmiss]
                by_cases hst : r.status ≠ TStatus.unscheduled
                · rw [if_pos hst]; exact h1
                · rw [if_neg hst]; exact h1

theorem processCurrentSchedule_stat (s : Sys) (now : Time) (oid : Oid)
    (schedule pairs : List (Tid × Mid)) : (processCurrentSchedule s now oid schedule pairs).s.staticPlan = s.staticPlan := by
  unfold processCurrentSchedule
  simp only
  generalize ((dictKeys schedule).mergeSort _) = l
  have : ∀ (l : List Tid) (st : PcsSt), (l.foldl (processOne now oid) st).s.staticPlan = st.s.staticPlan := by
    intro l
    induction l with
    | nil => intro st; rfl
    | cons x r ih => intro st; exact (ih _).trans (processOne_stat now oid st x)
  exact this l { s := s, schedule := schedule, pairs := pairs, curr := [] }

theorem allocTasksIter_stat (s : Sys) (now : Time) (orc : Oracle) (oid : Oid)
    (schedule pairs : List (Tid × Mid)) (pool : List Tid) :
    (s.allocTasksIter now orc oid schedule pairs pool).1.staticPlan = s.staticPlan := by
  unfold allocTasksIter
  simp only
  have h1 := updateCurrentPlan_stat s oid
  generalize s.updateCurrentPlan oid = s1 at h1
  split
  · exact h1
  · split
    · exact h1
    · rename_i out _
      have h3 : (if out.status = WStatus.delayed then { (({ s1 with cl := out.cl }).updPlan oid (fun p => { p with status := out.status })) with schedDelayed := true } else (({ s1 with cl := out.cl }).updPlan oid (fun p => { p with status := out.status }))).staticPlan = s.staticPlan := by
        split <;> exact h1
      generalize (if out.status = WStatus.delayed then { (({ s1 with cl := out.cl }).updPlan oid (fun p => { p with status := out.status })) with schedDelayed := true } else (({ s1 with cl := out.cl }).updPlan oid (fun p => { p with status := out.status }))) = s3 at h3
      split
      · split
        · split <;> exact h3
        · exact h3
      · split
        · exact h3
        · have h4 := processCurrentSchedule_stat s3 now oid out.schedule pairs
          split <;> exact h4.trans h3

theorem allocTasksBlock_stat (s : Sys) (now : Time) (orc : Oracle) (pc : Nat) (oid : Oid)
    (schedule pairs : List (Tid × Mid)) (pool : List Tid) (fin : Bool) :
    (s.allocTasksBlock now orc pc oid schedule pairs pool fin).1.staticPlan = s.staticPlan := by
  unfold allocTasksBlock
  split
  · rfl
  · split
    · simp only
      rw [allocTasksIter_stat]
      refine Eq.trans (foldl_stat _ ?_ _ _) rfl
      intro s x; rfl
    · exact allocTasksIter_stat _ _ _ _ _ _ _

theorem hot2coldIter_stat (s : Sys) (now : Time) (o : Oid) (left : Int) :
    (s.hot2coldIter now o left).1.staticPlan = s.staticPlan := by
  unfold hot2coldIter; stat_fields

theorem hot2coldBlock_stat (s : Sys) (now : Time) (cur : Option (Oid × Int)) :
    (s.hot2coldBlock now cur).1.staticPlan = s.staticPlan := by
  unfold hot2coldBlock
  split
  · exact hot2coldIter_stat _ _ _ _
  · split
    · rfl
    · rfl
    · rw [hot2coldIter_stat]; rfl

theorem cold2hotIter_stat (s : Sys) (now : Time) (o : Oid) (left : Int) :
    (s.cold2hotIter now o left).1.staticPlan = s.staticPlan := by
  unfold cold2hotIter; stat_fields

theorem cold2hotBlock_stat (s : Sys) (now : Time) (cur : Option (Oid × Int)) :
    (s.cold2hotBlock now cur).1.staticPlan = s.staticPlan := by
  unfold cold2hotBlock
  split
  · exact cold2hotIter_stat _ _ _ _
  · split
    · rfl
    · rfl
    · rw [cold2hotIter_stat]; rfl

theorem block_stat (s : Sys) (p : Proc) (orc : Oracle) : (s.block p orc).1.staticPlan = s.staticPlan := by
  unfold block
  split
  · exact monitorBlock_stat _ _
  · exact telescopeBlock_stat _ _
  · rfl
  · exact schedLoopBlock_stat _ _ _
  · exact bufferLoopBlock_stat _ _
  · exact allocIngestBlock_stat _ _ _ _ _
  · exact provIngestBlock_stat _ _ _ _ _
  · exact ingestStreamBlock_stat _ _ _ _ _
  · exact allocTaskBlock_stat _ _ _ _ _ _ _ _
  · exact doWorkBlock_stat _ _ _ _ _ _ _ _
  · exact allocTasksBlock_stat _ _ _ _ _ _ _ _ _
  · exact hot2coldBlock_stat _ _ _
  · exact cold2hotBlock_stat _ _ _

theorem crash_stat (s : Sys) (e : Err) : (s.crash e).staticPlan = s.staticPlan := by unfold crash; split <;> rfl

theorem resume_stat (s : Sys) (pid : Nat) (orc : Oracle) : (s.resume pid orc).1.staticPlan = s.staticPlan := by
  unfold resume
  split
  · rfl
  · split
    · rfl
    · rename_i p _ _
      have := block_stat s p orc
      generalize s.block p orc = r at this
      obtain ⟨s1, k, y⟩ := r
      cases y with
      | timeout d => exact this
      | done => exact this
      | raised e => simp only; rw [crash_stat]; exact this

theorem start_stat (s0 : Sys) : s0.start.staticPlan = s0.staticPlan := by simp [start, spawn]

/-- the planning mode along every run -/
theorem reach_stat {s0 s : Sys} (h : Reach s0 s) : s.staticPlan = s0.staticPlan := by
  induction h with
  | start => exact start_stat s0
  | step s pid orc _ _ ih => rw [resume_stat]; exact ih

end Sys
end Topsim
