/-
  BoundP8 — (plan-following algorithms; the counterpart of Bound8, same proofs) C05, the numeric clause: a block of another process in which no stage happens
  (`boundP_V` unchanged) leaves an enabled poller in the table, with the same record, and enabled
  (`BoundPParts.enabled_persists`).
-/
import TopsimProofs.BoundP2

namespace Topsim

open KState Sys

section
variable {env : SimEnv} {s0 : Sys}

/-- along the run an id of `hot.stored` stays in one of the hot buffer's lists -/
theorem boundP_ep_stored_step (C : LivePCfg env s0) (K : LiveKernel env s0) (n : Nat) {o : Oid}
    (ho : o ∈ (simAt env s0 n).st.buf.hot.stored) :
    o ∈ (simAt env s0 (n + 1)).st.buf.hot.stored ∨ o ∈ (simAt env s0 (n + 1)).st.buf.hot.scheduled ∨
      o ∈ (simAt env s0 (n + 1)).st.buf.hot.finished := by
  obtain ⟨e, p, hpk, hpp, ha, het, hen, hs, hst⟩ := live_step_P C K n
  have hb := resume_buf (simAt env s0 n).st e.pid (env.oracle (simAt env s0 n).st) p hpp ha
  obtain ⟨hpm, _⟩ := proc?_some hpp
  have hnt := (live_noTier_P C K n).1 p hpm
  rw [hst, hb]
  exact bound_ep_block_stored _ p _ hnt.1 hnt.2 o ho

/-- a block of another process in which no stage happens leaves an enabled poller enabled -/
theorem boundP_enabled_persists (C : LivePCfg env s0) (K : LiveKernel env s0) (n : Nat)
    {e : HEntry} {p : Proc}
    (hpk : (simAt env s0 n).peek = some e) (hp : p ∈ (simAt env s0 n).st.procs) (hne : p.pid ≠ e.pid)
    (hen : (simAt env s0 n).st.BoundEn p)
    (hV : boundP_V env s0 (simAt env s0 (n + 1)).st = boundP_V env s0 (simAt env s0 n).st) :
    p ∈ (simAt env s0 (n + 1)).st.procs ∧ (simAt env s0 (n + 1)).st.BoundEn p := by
  obtain ⟨e', p', hpk', hpp, ha, _, _, _, hst⟩ := live_step_P C K n
  have hee : e' = e := by rw [hpk] at hpk'; exact (Option.some.inj hpk').symm
  subst hee
  have hpw := (live_sinv_P C K n).pw
  obtain ⟨_, _, m3⟩ := il_resume_procs_mem hpw hpp ha (env.oracle (simAt env s0 n).st)
  have hmem : p ∈ (simAt env s0 (n + 1)).st.procs := by rw [hst]; exact m3 p hp hne
  have hnf := boundP_v_eq_noflip (boundP_run_mono C K (Nat.le_succ n)) hV
  refine ⟨hmem, hen.1, ?_⟩
  rcases hen.2 with ⟨hk, ob, hob, hast⟩ | ⟨hk, hsto⟩ | ⟨o, sc, pa, po, hk, hfin⟩
  · -- the telescope: an observation without a recorded start
    left
    obtain ⟨hobs, hid⟩ := live_obs?_mem_P C K n hob
    obtain ⟨ob', hob', _, hobs'⟩ := live_obs_rec_P C K (n + 1) hid
    refine ⟨hk, ob', hob', ?_⟩
    cases hast' : ob'.ast with
    | none => rfl
    | some a =>
      exfalso
      obtain ⟨o0, ho0, hid0⟩ := bound_ep_obs_of_id hid
      have h1 : Sys.PAst o0.id (simAt env s0 (n + 1)).st := by
        rw [hid0]; exact ⟨ob', a, hobs', hast'⟩
      obtain ⟨ob2, a2, hobs2, hast2⟩ := (hnf o0 ho0).1 h1
      rw [hid0, hobs] at hobs2
      have : ob = ob2 := Option.some.inj hobs2
      subst this
      rw [hast] at hast2
      cases hast2
  · -- the scheduling loop: a stored observation
    right; left
    refine ⟨hk, ?_⟩
    obtain ⟨o, ho⟩ := List.exists_mem_of_ne_nil _ hsto
    have hid := live_buf_ids_P C K n (Or.inl ho)
    obtain ⟨o0, ho0, hid0⟩ := bound_ep_obs_of_id hid
    have hnq : ¬ Sys.PQ o (simAt env s0 n).st := by
      intro hq
      have hcnt := (live_bufi_P C K n).cnt o
      unfold locCount bufList at hcnt
      simp only [List.count_append] at hcnt
      have c1 := List.count_pos_iff.mpr ho
      rcases hq with hq | hq
      · have c2 := List.count_pos_iff.mpr hq
        omega
      · have c2 := List.count_pos_iff.mpr hq
        omega
    have hnq' : ¬ Sys.PQ o (simAt env s0 (n + 1)).st := by
      intro hq
      apply hnq
      have := (hnf o0 ho0).2.1 (by rw [hid0]; exact hq)
      rw [hid0] at this
      exact this
    rcases boundP_ep_stored_step C K n ho with h | h | h
    · exact List.ne_nil_of_mem h
    · exact absurd (Or.inl h) hnq'
    · exact absurd (Or.inr h) hnq'
  · -- the allocation loop of an observation that has not been removed
    right; right
    refine ⟨o, sc, pa, po, hk, ?_⟩
    intro hfin'
    have hid := live_buf_ids_P C K (n + 1) (Or.inr (Or.inr hfin'))
    obtain ⟨o0, ho0, hid0⟩ := bound_ep_obs_of_id hid
    have := (hnf o0 ho0).2.2.1 (by rw [hid0]; exact hfin')
    rw [hid0] at this
    exact hfin this

end

end Topsim
