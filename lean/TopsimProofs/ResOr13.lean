/-
  ResOr13 — ADVERSARIAL proposals: the side condition `ResOrAdv` (weaker than `ResOrOk`: nothing
  is asked of proposed tasks that are not UNSCHEDULED any more), the relation `ReachResvAdv`,
  `ResOrRI` along every such run, and no reservation at `is_finished()`.
-/
import TopsimProofs.ResOr12

namespace Topsim
namespace Sys

open Cluster

/-! ### the side condition -/

/-- What the user algorithm may do in one `allocate_tasks` block (process `pid`, observation `oid`):
* as in `ResOrOk`: its own cluster calls are `provision_batch_resources(size, o)` with `o` in the
  scheduler's queue at that moment (the block's own observation is), or
  `release_batch_resources(o)` for any `o`;
* its proposals are ARBITRARY pairs (task id, machine id) — tasks already scheduled, running or
  finished, tasks of other workflows, ingest tasks, on machines that are busy, reserved for
  somebody else or do not exist — except that it does not propose a task of ANOTHER workflow (or a
  task id without a record) that is still UNSCHEDULED: a proposed task that
  `_process_current_schedule` could start is a task of the plan the block is scheduling. -/
def ResOrAdv (s : Sys) (pid : Nat) (orc : Oracle) : Prop :=
  ∀ p, s.proc? pid = some p → ∀ oid sc pa po, p.k = .allocTasks oid sc pa po false →
    (∀ op ∈ orc.pre, (∃ size o, op = .provBatch size o ∧ o ∈ s.queue) ∨ ∃ o, op = .relBatch o) ∧
    (∀ pr ∈ orc.proposals, tstat s pr.1 = .unscheduled → pr.1 ∈ planTasks s oid)

theorem ResOrOk.toAdv {s : Sys} {pid : Nat} {orc : Oracle} (h : ResOrOk s pid orc) : ResOrAdv s pid orc :=
  fun p hp oid sc pa po hk => ⟨(h p hp oid sc pa po hk).1, fun pr hpr _ => ((h p hp oid sc pa po hk).2 pr hpr).1⟩

inductive ReachResvAdv (s0 : Sys) : Sys → Prop
  | start : ReachResvAdv s0 s0.start
  | step (s : Sys) (pid : Nat) (orc : Oracle) :
      ReachResvAdv s0 s → s.enabled pid → (s.alg = .oracle → ResOrAdv s pid orc) →
      ReachResvAdv s0 (s.resume pid orc).1

theorem ReachResv.toAdv {s0 s : Sys} (h : ReachResv s0 s) : ReachResvAdv s0 s := by
  induction h with
  | start => exact ReachResvAdv.start
  | step s pid orc _ hen hok ih => exact ReachResvAdv.step s pid orc ih hen (fun ha => (hok ha).toAdv)

theorem ReachResvAdv.toReach {s0 s : Sys} (h : ReachResvAdv s0 s) : Reach s0 s := by
  induction h with
  | start => exact Reach.start
  | step s pid orc _ hen _ ih => exact Reach.step s pid orc ih hen

theorem ReachResvAdv.toOk {s0 s : Sys} (h : ReachResvAdv s0 s) : ReachOk s0 s := by
  induction h with
  | start => exact ReachOk.start
  | step s pid orc _ hen hok ih =>
    by_cases hat : ∃ p oid sc pa po, s.proc? pid = some p ∧ p.k = .allocTasks oid sc pa po false
    · obtain ⟨p, oid, sc, pa, po, hp, hk⟩ := hat
      refine ReachOk.step s pid orc ih hen (fun ha op hop => ?_)
      rcases (hok ha p hp oid sc pa po hk).1 op hop with ⟨n, o, rfl, _⟩ | ⟨o, rfl⟩ <;> trivial
    · have hno : ∀ p, s.proc? pid = some p → ∀ oid sc pa po, p.k ≠ .allocTasks oid sc pa po false :=
        fun p hp oid sc pa po hk => hat ⟨p, oid, sc, pa, po, hp, hk⟩
      rw [resOr_resume_pre s pid orc hno]
      exact ReachOk.step s pid _ ih hen (fun _ op hop => by simp at hop)

/-! ### one step -/

theorem ResOrRI.congr {a b : Sys} (h : ResOrRI a) (hq : b.queue = a.queue) (hp : b.procs = a.procs)
    (hpl : b.plans = a.plans) (ht : b.tasks = a.tasks) (hc : b.cl = a.cl) : ResOrRI b := by
  have hts : ∀ t, tstat b t = tstat a t := tstat_of_tasks ht
  have hplT : ∀ o, planTasks b o = planTasks a o := planTasks_of_plans hpl
  constructor
  · rw [hq]; exact h.qNodup
  · rw [hp, hq]; unfold plan?; rw [hpl]; exact h.atsQ
  · rw [hp]; exact h.atsUniq
  · intro q hq' hqa o sc pa po hqk
    rw [hp] at hq'
    obtain ⟨g1, g2⟩ := h.sl q hq' hqa o sc pa po hqk
    exact ⟨g1, fun t ht' hu => by rw [hplT]; exact g2 t ht' (by rw [hts] at hu; exact hu)⟩
  · rw [hpl]; exact h.pt
  · rw [hpl]; exact h.pf
  · rw [hpl]; exact h.pn
  · intro q hq' hqa t m preds o ret hqk
    rw [hp] at hq'
    obtain ⟨g1, g2⟩ := h.st q hq' hqa t m preds o ret hqk
    exact ⟨by rw [hts]; exact g1, by rw [hplT]; exact g2⟩
  · rw [hc, hp]; exact h.rc
  · rw [hc, hq]; exact h.keyQ
  · rw [hc]; exact h.keyNE

/-- one step of a run whose algorithm is the oracle and whose oracle inputs keep to `ResOrOk`
(`ResOrAdv`: adversarial proposals; the counterpart of `ri_step` for `ResOrRI`) -/
theorem resOr_riw_step {s : Sys} (hs : SInv s) (h : ResOrRI s) (hbuf : BufI s) {pid : Nat} (hen : s.enabled pid)
    (orc : Oracle) (halg : s.alg = .oracle) (hok : ResOrAdv s pid orc) : ResOrRI (s.resume pid orc).1 := by
  obtain ⟨p, hp, ha, hmin⟩ := hen
  obtain ⟨hpm, hpid⟩ := proc?_some hp
  subst hpid
  have hcore := resume_core s p.pid orc p hp ha
  have hpw := hs.pw
  refine ResOrRI.congr (a := (s.block p orc).1.updProc p.pid (fin (s.block p orc).2.1 (s.block p orc).2.2 p.wake)) ?_
    (resume_queue s p.pid orc p hp ha) hcore.procs (resume_plans s p.pid orc p hp ha) hcore.tasks hcore.cl
  cases hk : p.k with
  | monitor =>
    have hb : s.block p orc = ((s.monitorBlock p.wake).1, p.k, (s.monitorBlock p.wake).2) := by
      unfold block; simp only [hk]
    exact resOr_ri_quiet hs h hpm orc (by simp [hk, PK.tag]) (by simp [hk, PK.tag]) (by simp [hk, PK.tag])
      (by simp [hk, PK.tag]) (by simp [hk, PK.tag]) [] (by rw [hb]; simpa using monitorBlock_procsq s p.wake)
      (by rw [hb]; exact (monitorBlock_pres s p.wake).pw hpw) (by simp)
  | telescope =>
    have hb : s.block p orc = ((s.telescopeBlock p.wake).1, .telescope, (s.telescopeBlock p.wake).2) := by
      unfold block; simp only [hk]
    obtain ⟨hc, _, _⟩ := telescope_key hs.eg hpm ha hmin hk
    obtain ⟨new, hprocs, hnewk⟩ := telescopeBlock_procs s p.wake
    exact resOr_ri_quiet hs h hpm orc (by simp [hk, PK.tag]) (by simp [hk, PK.tag]) (by simp [hk, PK.tag])
      (by simp [hk, PK.tag]) (by simp [hk, PK.tag]) new (by rw [hb]; exact hprocs) (by rw [hb]; exact hc.pw hpw)
      (fun q hq => by rw [hnewk q hq]; exact ⟨by decide, by decide⟩)
  | clusterLoop =>
    have hb : s.block p orc = ({ s with cl := s.cl.loopTick }, p.k, .timeout 1) := by
      unfold block; simp only [hk]
    exact resOr_ri_quiet hs h hpm orc (by simp [hk, PK.tag]) (by simp [hk, PK.tag]) (by simp [hk, PK.tag])
      (by simp [hk, PK.tag]) (by simp [hk, PK.tag]) [] (by rw [hb]; simp)
      (by rw [hb]; exact (clusterLoop_pres s).pw hpw) (by simp)
  | schedLoop =>
    have hb : s.block p orc = ((s.schedLoopBlock p.wake orc).1, p.k, (s.schedLoopBlock p.wake orc).2) := by
      unfold block; simp only [hk]
    rw [hb]
    simp only
    rw [hk]
    exact resOr_ri_schedLoop hs h hbuf hpm orc hk
  | bufferLoop =>
    have hb : s.block p orc = ((s.bufferLoopBlock p.wake).1, p.k, (s.bufferLoopBlock p.wake).2) := by
      unfold block; simp only [hk]
    obtain ⟨new, hprocs, hnewk⟩ := bufferLoopBlock_newprocs s p.wake
    exact resOr_ri_quiet hs h hpm orc (by simp [hk, PK.tag]) (by simp [hk, PK.tag]) (by simp [hk, PK.tag])
      (by simp [hk, PK.tag]) (by simp [hk, PK.tag]) new (by rw [hb]; exact hprocs)
      (by rw [hb]; exact (bufferLoopBlock_pres s p.wake).pw hpw)
      (fun q hq => by rcases hnewk q hq with e | e <;> rw [e] <;> exact ⟨by decide, by decide⟩)
  | allocIngest o tl =>
    have hb : s.block p orc = s.allocIngestBlock p.wake p.pc o tl := by
      unfold block; simp only [hk]
    have hpwX : PW (s.block p orc).1 := by rw [hb]; exact (allocIngestBlock_E s p.wake p.pc o tl).1.pw hpw
    rcases allocIngestBlock_procs s p.wake p.pc o tl with hsame | ⟨ob, d, _, _, hprocs, _⟩
    · exact resOr_ri_quiet hs h hpm orc (by simp [hk, PK.tag]) (by simp [hk, PK.tag]) (by simp [hk, PK.tag])
        (by simp [hk, PK.tag]) (by simp [hk, PK.tag]) [] (by rw [hb]; simpa using hsame) hpwX (by simp)
    · exact resOr_ri_quiet hs h hpm orc (by simp [hk, PK.tag]) (by simp [hk, PK.tag]) (by simp [hk, PK.tag])
        (by simp [hk, PK.tag]) (by simp [hk, PK.tag]) _ (by rw [hb]; exact hprocs) hpwX (by simp [PK.tag])
  | provIngest o d => exact resOr_ri_provIngest hs h hpm orc hk
  | ingestStream o tl =>
    have hb : s.block p orc = s.ingestStreamBlock p.wake p.pc o tl := by
      unfold block; simp only [hk]
    exact resOr_ri_quiet hs h hpm orc (by simp [hk, PK.tag]) (by simp [hk, PK.tag]) (by simp [hk, PK.tag])
      (by simp [hk, PK.tag]) (by simp [hk, PK.tag]) [] (by rw [hb]; simpa using ingestStreamBlock_procsq s p.wake p.pc o tl)
      (by rw [hb]; exact (ingestStreamBlock_pres s p.wake p.pc o tl).pw hpw) (by simp)
  | allocTask t m preds obs ing ret => exact resOr_ri_allocTask hs h hpm ha orc hk
  | doWork t m preds ph tot => exact resOr_ri_doWork hs h hpm ha orc hk
  | allocTasks o sc pa po fn =>
    refine resOr_riw_allocTasks hs h hpm ha orc hk halg (fun hfn => ?_)
    subst hfn
    exact hok p hp o sc pa po hk
  | hot2cold cur =>
    have hb : s.block p orc = s.hot2coldBlock p.wake cur := by
      unfold block; simp only [hk]
    exact resOr_ri_quiet hs h hpm orc (by simp [hk, PK.tag]) (by simp [hk, PK.tag]) (by simp [hk, PK.tag])
      (by simp [hk, PK.tag]) (by simp [hk, PK.tag]) [] (by rw [hb]; simpa using hot2coldBlock_procsq s p.wake cur)
      (by rw [hb]; exact (hot2coldBlock_pres s p.wake cur).pw hpw) (by simp)
  | cold2hot cur =>
    have hb : s.block p orc = s.cold2hotBlock p.wake cur := by
      unfold block; simp only [hk]
    exact resOr_ri_quiet hs h hpm orc (by simp [hk, PK.tag]) (by simp [hk, PK.tag]) (by simp [hk, PK.tag])
      (by simp [hk, PK.tag]) (by simp [hk, PK.tag]) [] (by rw [hb]; simpa using cold2hotBlock_procsq s p.wake cur)
      (by rw [hb]; exact (cold2hotBlock_pres s p.wake cur).pw hpw) (by simp)

theorem resOr_reach_riw (s0 s : Sys) (hw : WFConfig s0) (hbuf : bufList s0.buf = [])
    (halg : s0.alg = .oracle) (h : ReachResvAdv s0 s) : ResOrRI s := by
  induction h with
  | start => exact resOr_of_RI (start_ri s0 hw)
  | step s pid orc hr hen hok ih =>
    have ha : s.alg = .oracle := by rw [reach_alg hr.toReach]; exact halg
    exact resOr_riw_step (reach_inv s0 s hw hr.toOk) ih (reachOk_bufi s0 s hw hbuf hr.toOk) hen orc ha (hok ha)

/-- every reservation belongs to an observation that is still in the scheduler's queue -/
theorem resOr_keys_in_queue_adv (s0 s : Sys) (hw : WFConfig s0) (hbuf : bufList s0.buf = [])
    (halg : s0.alg = .oracle) (h : ReachResvAdv s0 s) : ∀ o ∈ dictKeys s.cl.idle, o ∈ s.queue :=
  (resOr_reach_riw s0 s hw hbuf halg h).keyQ

/-- a finished simulation holds no reservation -/
theorem resOr_finished_no_reservation_adv (s0 s : Sys) (hw : WFConfig s0) (hbuf : bufList s0.buf = [])
    (halg : s0.alg = .oracle) (h : ReachResvAdv s0 s) (hf : s.isFinished = true) : s.cl.idle = [] := by
  have hri := resOr_reach_riw s0 s hw hbuf halg h
  obtain ⟨_, _, hq, _⟩ := (sim_isFinished_iff s).mp hf
  cases hi : s.cl.idle with
  | nil => rfl
  | cons x r =>
    have := hri.keyQ x.1 (by rw [hi]; simp [dictKeys])
    rw [hq] at this; simp at this

end Sys
end Topsim
