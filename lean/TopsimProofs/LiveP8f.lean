/-
  LiveP8f — the declarations of Live8f.lean that depend on the configuration structures, restated for
  the plan-following configurations (`LivePCfg`, `NcPCfg`, `L7PLib`); the proofs are those of Live8f.lean.
-/
import TopsimProofs.LiveP8e

namespace Topsim

open KState Sys

namespace Sys

end Sys

section

variable {env : SimEnv} {s0 : Sys}

theorem l8_bufi_P (C : LivePCfg env s0) (K : LiveKernel env s0) (n : Nat) : BufI (simAt env s0 n).st :=
  reachOk_bufi s0 _ C.hw (l8_bufList_P C) (l8_reachOk_P C K n)

theorem l8_over_P (C : LivePCfg env s0) (K : LiveKernel env s0) (n : Nat) :
    (simAt env s0 n).st.buf.overThreshold = false :=
  (live_not_over env s0 C.hw C.hb0 C.hfull (l8_rate_P C) C.h1 _ (K.run n).1 (C.nr n)).1

/-- **E1.**  With something stored, the scheduler loop's block pops the last stored observation
into `scheduled`. -/
theorem live_schedLoop_pops_P (C : LivePCfg env s0) (K : LiveKernel env s0) (n : Nat) {e : HEntry} {p : Proc}
    (hpk : (simAt env s0 n).peek = some e) (hpp : (simAt env s0 n).st.proc? e.pid = some p)
    (ha : p.alive = true) (hk : p.k = .schedLoop) (hst : (simAt env s0 n).st.buf.hot.stored ≠ []) :
    ∃ o ∈ (simAt env s0 n).st.buf.hot.stored, ¬ Sys.PQ o (simAt env s0 n).st ∧
      Sys.PQ o (simAt env s0 (n + 1)).st := by
  obtain ⟨e', p', hpk', hpp', _, _, _, hnr, hstep⟩ := l8_step_P C K n
  rw [hpk] at hpk'; cases hpk'
  rw [hpp] at hpp'; cases hpp'
  have hbuf : (simAt env s0 (n + 1)).st.buf
      = ((simAt env s0 n).st.schedLoopBlock p.wake (env.oracle (simAt env s0 n).st)).1.buf := by
    rw [hstep, resume_buf _ _ _ p hpp ha, block_schedLoop _ hk]
  have hready := Sys.l8_hasReady (l8_over_P C K n) hst
  obtain ⟨o, hl⟩ : ∃ o, (simAt env s0 n).st.buf.hot.stored.getLast? = some o := by
    cases h : (simAt env s0 n).st.buf.hot.stored.getLast? with
    | none => exact absurd (List.getLast?_eq_none_iff.mp h) hst
    | some o => exact ⟨o, rfl⟩
  rcases Sys.l8_schedLoop_out (simAt env s0 n).st p.wake (env.oracle (simAt env s0 n).st) with
    ⟨_, h2⟩ | ⟨o', ob, _, hl', _, hX⟩
  · obtain ⟨err, herr⟩ := h2 hready o hl
    exact absurd (by rw [block_schedLoop _ hk]; exact herr) (hnr err)
  · rw [hl] at hl'; cases hl'
    obtain ⟨h1, h2, h3⟩ := Sys.l8_pop_flips (l8_bufi_P C K n) hl (hbuf.trans hX)
    exact ⟨o, h1, h2, h3⟩

/-- **SF1.**  The scheduler loop creates a process only in the branch that pops the last stored
observation into `scheduled`. -/
theorem live_schedLoop_spawn_flips_P (C : LivePCfg env s0) (K : LiveKernel env s0) (n : Nat) {e : HEntry}
    {p : Proc} (hpk : (simAt env s0 n).peek = some e) (hpp : (simAt env s0 n).st.proc? e.pid = some p)
    (ha : p.alive = true) (hk : p.k = .schedLoop)
    (hsp : (simAt env s0 n).st.nextPid < (simAt env s0 (n + 1)).st.nextPid) :
    ∃ o, (∃ ob, (simAt env s0 n).st.obs? o = some ob) ∧ ¬ Sys.PQ o (simAt env s0 n).st ∧
      Sys.PQ o (simAt env s0 (n + 1)).st := by
  obtain ⟨e', p', hpk', hpp', _, _, _, hnr, hstep⟩ := l8_step_P C K n
  rw [hpk] at hpk'; cases hpk'
  rw [hpp] at hpp'; cases hpp'
  have hcore := resume_core (simAt env s0 n).st e.pid (env.oracle (simAt env s0 n).st) p hpp ha
  have hbuf : (simAt env s0 (n + 1)).st.buf
      = ((simAt env s0 n).st.schedLoopBlock p.wake (env.oracle (simAt env s0 n).st)).1.buf := by
    rw [hstep, resume_buf _ _ _ p hpp ha, block_schedLoop _ hk]
  have hnp : (simAt env s0 (n + 1)).st.nextPid
      = ((simAt env s0 n).st.schedLoopBlock p.wake (env.oracle (simAt env s0 n).st)).1.nextPid := by
    rw [hstep, hcore.nextPid, updProc_nextPid, block_schedLoop _ hk]
  rcases Sys.l8_schedLoop_out (simAt env s0 n).st p.wake (env.oracle (simAt env s0 n).st) with
    ⟨h1, _⟩ | ⟨o, ob, _, hl, hob, hX⟩
  · rw [hnp, h1] at hsp; omega
  · obtain ⟨_, h2, h3⟩ := Sys.l8_pop_flips (l8_bufi_P C K n) hl (hbuf.trans hX)
    exact ⟨o, ⟨ob, hob⟩, h2, h3⟩

/-- **SF3.**  The buffer loop never creates a process. -/
theorem live_bufferLoop_no_spawn_P (C : LivePCfg env s0) (K : LiveKernel env s0) (n : Nat) {e : HEntry}
    {p : Proc} (hpk : (simAt env s0 n).peek = some e) (hpp : (simAt env s0 n).st.proc? e.pid = some p)
    (ha : p.alive = true) (hk : p.k = .bufferLoop) :
    (simAt env s0 (n + 1)).st.nextPid = (simAt env s0 n).st.nextPid := by
  obtain ⟨e', p', hpk', hpp', _, _, _, _, hstep⟩ := l8_step_P C K n
  rw [hpk] at hpk'; cases hpk'
  rw [hpp] at hpp'; cases hpp'
  have hcore := resume_core (simAt env s0 n).st e.pid (env.oracle (simAt env s0 n).st) p hpp ha
  have hcs : (simAt env s0 n).st.buf.cold.stored = [] := by
    rw [(live_noTier_P C K n).2]; exact C.hb0.2.2.2
  rw [hstep, hcore.nextPid, updProc_nextPid, block_bufferLoop _ hk,
    Sys.l8_bufferLoop_quiet _ p.wake (l8_over_P C K n) hcs]

end

end Topsim

