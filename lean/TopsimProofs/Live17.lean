/-
  Live17 — no block of the run raises (part 1): the order hypotheses `NcOrder`, one index of the run
  as one `resume` while nothing has raised (`nc_step`), the invariants available at an index that
  has not crashed, and the blocks of the telescope, the buffer loop, the tier moves, the ingest
  supervisor, the ingest stream and the scheduler loop.
-/
import TopsimProofs.Live14
import TopsimProofs.Live8g
import TopsimProofs.FinishInv8
import TopsimProofs.FinishWf3

namespace Topsim

open KState Sys

/-- the two order-dependent facts (proved elsewhere): when its first block runs, a provisioner finds
enough free machines, and a scheduler-side allocation process finds its machine still free -/
structure NcOrder (env : SimEnv) (s0 : Sys) : Prop where
  prov : ∀ (n : Nat), (simAt env s0 n).st.crashed = none → ∀ {e : HEntry} {p : Proc},
    (simAt env s0 n).peek = some e → (simAt env s0 n).st.proc? e.pid = some p → p.alive = true →
    ∀ {o : Oid} {d : Nat}, p.k = .provIngest o d → p.pc = 0 → d ≤ (simAt env s0 n).st.cl.available.length
  alloc : ∀ (n : Nat), (simAt env s0 n).st.crashed = none → ∀ {e : HEntry} {p : Proc},
    (simAt env s0 n).peek = some e → (simAt env s0 n).st.proc? e.pid = some p → p.alive = true →
    ∀ {t : Tid} {m : Mid} {preds : List Tid} {obs : Option Oid} {ret : Nat},
    p.k = .allocTask t m preds obs false ret → p.pc = 0 → m ∈ (simAt env s0 n).st.cl.available

section
variable {env : SimEnv} {s0 : Sys}

/-- **One index of the run, while nothing has raised.** -/
theorem nc_step (N : NcCfg env s0) (n : Nat) (hc : (simAt env s0 n).st.crashed = none) :
    ∃ e p, (simAt env s0 n).peek = some e ∧ (simAt env s0 n).st.proc? e.pid = some p ∧
      p.alive = true ∧ e.time = p.wake ∧ (simAt env s0 n).st.enabled e.pid ∧
      (simAt env s0 (n + 1)).st =
        ((simAt env s0 n).st.resume e.pid (env.oracle (simAt env s0 n).st)).1 := by
  obtain ⟨_, _, k1, hs⟩ := live_simRun env s0 N.hw N.hh0 n hc
  obtain ⟨e, p, hpk, hpp, ha, het, hen, hst⟩ := live_step_resume N.hw (simAt_reach env s0 n) hc hs
  exact ⟨e, p, hpk, hpp, ha, het, hen, by rw [simAt_succ_of_step hs]; exact hst⟩

/-- the exception flag after a block that does not raise -/
theorem Sys.nc_resume_crashed (s : Sys) (pid : Nat) (orc : Oracle) (p : Proc) (hp : s.proc? pid = some p)
    (ha : p.alive = true) (hc : s.crashed = none) (hnr : ∀ err, (s.block p orc).2.2 ≠ .raised err) :
    (s.resume pid orc).1.crashed = none := by
  unfold Sys.resume
  simp only [hp, ha, Bool.not_true, Bool.false_eq_true, if_false]
  have hb := block_crashed s p orc
  generalize s.block p orc = r at hb hnr
  obtain ⟨s1, k, y⟩ := r
  cases y with
  | timeout d => exact hb.trans hc
  | done => exact hb.trans hc
  | raised e => exact absurd rfl (hnr e)

/-! ### what is known at an index that has not crashed -/

theorem nc_run (N : NcCfg env s0) (n : Nat) (hc : (simAt env s0 n).st.crashed = none) :
    SimRun env s0 (simAt env s0 n) ∧ (simAt env s0 n).st.halted = false :=
  ⟨(live_simRun env s0 N.hw N.hh0 n hc).1, (live_simRun env s0 N.hw N.hh0 n hc).2.1⟩

theorem nc_reachOk (N : NcCfg env s0) (n : Nat) (hc : (simAt env s0 n).st.crashed = none) :
    ReachOk s0 (simAt env s0 n).st :=
  simRun_reachOk N.hw (nc_run N n hc).1 (nc_run N n hc).2

theorem nc_reach (N : NcCfg env s0) (n : Nat) (hc : (simAt env s0 n).st.crashed = none) :
    Reach s0 (simAt env s0 n).st := (nc_reachOk N n hc).toReach

theorem nc_sinv (N : NcCfg env s0) (n : Nat) : SInv (simAt env s0 n).st :=
  ((simAt_reach env s0 n).l3inv N.hw).sinv

theorem nc_bufList (N : NcCfg env s0) : bufList s0.buf = [] := hb0_bufList N.hb0

theorem nc_noOracle (N : NcCfg env s0) : s0.alg ≠ .oracle := by rw [N.alg]; simp

theorem nc_rate (N : NcCfg env s0) : ∀ o ∈ s0.obs, 0 < o.rate :=
  fun o ho => (N.feas.1 o ho).2.2.2.2.2.2.2

theorem nc_hsz0 (N : NcCfg env s0) : s0.buf.size = [] ∧ s0.buf.hot.cur ≤ s0.buf.hot.total ∧
    s0.buf.cold.cur ≤ s0.buf.cold.total :=
  ⟨N.hfull.1, by rw [N.hfull.2.1]; exact Int.le_refl _, by rw [N.hfull.2.2]; exact Int.le_refl _⟩

theorem nc_alg (N : NcCfg env s0) (n : Nat) (hc : (simAt env s0 n).st.crashed = none) :
    (simAt env s0 n).st.alg = .queue := by
  rw [reach_alg (nc_reach N n hc)]; exact N.alg

theorem nc_over (N : NcCfg env s0) (n : Nat) (hc : (simAt env s0 n).st.crashed = none) :
    (simAt env s0 n).st.buf.overThreshold = false ∧
      (simAt env s0 n).st.buf.hot.total = s0.buf.hot.total :=
  ⟨(live_not_over env s0 N.hw N.hb0 N.hfull (nc_rate N) N.h1 _ (nc_run N n hc).1 hc).1,
   (live_not_over env s0 N.hw N.hb0 N.hfull (nc_rate N) N.h1 _ (nc_run N n hc).1 hc).2.1⟩

theorem nc_bufi (N : NcCfg env s0) (n : Nat) (hc : (simAt env s0 n).st.crashed = none) :
    BufI (simAt env s0 n).st :=
  reachOk_bufi s0 _ N.hw (nc_bufList N) (nc_reachOk N n hc)

theorem nc_si (N : NcCfg env s0) (n : Nat) (hc : (simAt env s0 n).st.crashed = none) :
    SI (simAt env s0 n).st :=
  (reachOk_sh2 s0 _ N.hw (nc_bufList N) (nc_hsz0 N) (nc_rate N) (nc_reachOk N n hc) hc).1

theorem nc_sp (N : NcCfg env s0) (n : Nat) (hc : (simAt env s0 n).st.crashed = none) :
    SP (simAt env s0 n).st :=
  reachOk_sp s0 _ N.hw (nc_bufList N) (nc_hsz0 N) (nc_rate N) (nc_reachOk N n hc) hc

theorem nc_fi (N : NcCfg env s0) (n : Nat) (hc : (simAt env s0 n).st.crashed = none) :
    FI (simAt env s0 n).st :=
  reach_finv s0 _ N.hw (nc_reachOk N n hc) hc

theorem nc_wi (N : NcCfg env s0) (n : Nat) (hc : (simAt env s0 n).st.crashed = none) :
    WI (simAt env s0 n).st :=
  reachOk_wi s0 _ N.hw (nc_bufList N) (nc_reachOk N n hc) hc

/-- the record of an observation at index `n` carries the static attributes of the configuration -/
theorem nc_obs_cfg (N : NcCfg env s0) (n : Nat) {ob : Obs} (hob : ob ∈ (simAt env s0 n).st.obs) :
    ∃ o0 ∈ s0.obs, ob.stat = o0.stat := by
  have hkeep := (simAt_reach env s0 n).keep0 N.hw
  have hm : ob.stat ∈ s0.obs.map Obs.stat := by rw [← hkeep]; exact List.mem_map_of_mem hob
  obtain ⟨o0, ho0, hst⟩ := List.mem_map.mp hm
  exact ⟨o0, ho0, hst.symm⟩

/-- the process whose entry is the least of the heap is in the table -/
theorem nc_mem {s : Sys} {pid : Nat} {p : Proc} (hpp : s.proc? pid = some p) : p ∈ s.procs :=
  (proc?_some hpp).1

/-! ### T9: the buffer loop -/

theorem Sys.nc_bufferLoop_nr (s : Sys) (now : Time) (hover : s.buf.overThreshold = false) :
    ∀ err, (s.bufferLoopBlock now).2 ≠ .raised err := by
  intro err
  unfold Sys.bufferLoopBlock Buffer.loopDecide
  simp [hover]

theorem nc_block_bufferLoop_ok (N : NcCfg env s0) (n : Nat) (hc : (simAt env s0 n).st.crashed = none)
    {p : Proc} (hk : p.k = .bufferLoop) (orc : Oracle) :
    ∀ err, ((simAt env s0 n).st.block p orc).2.2 ≠ .raised err := by
  rw [block_bufferLoop orc hk]
  exact Sys.nc_bufferLoop_nr _ _ (nc_over N n hc).1

/-! ### T10: no tier move -/

theorem nc_noTier (N : NcCfg env s0) (n : Nat) (hc : (simAt env s0 n).st.crashed = none) :
    Sys.NoTier (simAt env s0 n).st ∧ (simAt env s0 n).st.buf.cold = s0.buf.cold := by
  induction n with
  | zero =>
    have hst : (simAt env s0 0).st = s0.start := rfl
    rw [hst]
    refine ⟨?_, by rw [start_buf]⟩
    intro q hq
    rw [start_procs s0 N.hw] at hq
    simp only [List.mem_cons, List.not_mem_nil, or_false] at hq
    rcases hq with rfl | rfl | rfl | rfl | rfl <;> simp [PK.tag]
  | succ n ih =>
    have hcn := live_crashed_mono env s0 N.hw (Nat.le_succ n) hc
    obtain ⟨e, p, _, _, _, _, hen, hst⟩ := nc_step N n hcn
    have ih' := ih hcn
    have hover := (nc_over N n hcn).1
    have hcs : (simAt env s0 n).st.buf.cold.stored = [] := by rw [ih'.2]; exact N.hb0.2.2.2
    obtain ⟨h1, h2⟩ := Sys.l8_noTier_step (nc_sinv N n) hen (env.oracle (simAt env s0 n).st) ih'.1 hover hcs
    rw [hst]
    exact ⟨h1, h2.trans ih'.2⟩

theorem nc_block_hot2cold_ok (N : NcCfg env s0) (n : Nat) (hc : (simAt env s0 n).st.crashed = none)
    {p : Proc} (hp : p ∈ (simAt env s0 n).st.procs) {cur : Option (Oid × Int)} (hk : p.k = .hot2cold cur)
    (orc : Oracle) : ∀ err, ((simAt env s0 n).st.block p orc).2.2 ≠ .raised err := by
  exfalso
  have := ((nc_noTier N n hc).1 p hp).1
  rw [hk] at this
  exact this rfl

theorem nc_block_cold2hot_ok (N : NcCfg env s0) (n : Nat) (hc : (simAt env s0 n).st.crashed = none)
    {p : Proc} (hp : p ∈ (simAt env s0 n).st.procs) {cur : Option (Oid × Int)} (hk : p.k = .cold2hot cur)
    (orc : Oracle) : ∀ err, ((simAt env s0 n).st.block p orc).2.2 ≠ .raised err := by
  exfalso
  have := ((nc_noTier N n hc).1 p hp).2
  rw [hk] at this
  exact this rfl

/-! ### T1: the telescope -/

/-- every record fits the hot buffer on its own and lasts at least one timestep -/
def Sys.ncFit (b : Buffer) (l : List Obs) : Prop :=
  ∀ ob ∈ l, 1 ≤ ob.duration ∧ ob.rate * (ob.duration : Int) < b.hot.total

theorem Sys.nc_checkIngest_ok (s : Sys) (o : Obs) (hd : 1 ≤ o.duration)
    (hr : o.rate * (o.duration : Int) < s.buf.hot.total) :
    ∃ s1 b, s.checkIngestCapacity o = .ok (s1, b) ∧ s1.buf = s.buf ∧ s1.obs = s.obs := by
  unfold Sys.checkIngestCapacity Buffer.checkCapacity
  have h1 : ¬ ((o.duration : Int) < 1) := by omega
  have h2 : ¬ (s.buf.hot.total ≤ o.rate * (o.duration : Int)) := by omega
  simp only [h1, h2, if_false]
  repeat' split
  all_goals first
    | exact ⟨_, _, rfl, rfl, rfl⟩
    | (rename_i h; split at h <;> cases h)

theorem Sys.nc_visit (n : Nat) (b : Buffer) (acc : Sys × Option Err) (oid : Oid) (h2 : acc.2 = none)
    (hb : acc.1.buf = b) (hg : Sys.ncFit b acc.1.obs) :
    (telescopeVisit n acc oid).2 = none ∧ (telescopeVisit n acc oid).1.buf = b ∧
      Sys.ncFit b (telescopeVisit n acc oid).1.obs := by
  obtain ⟨s, e⟩ := acc
  simp only at h2 hb hg
  subst h2
  have hupd : ∀ (f : Obs → Obs), (∀ r, (f r).duration = r.duration ∧ (f r).rate = r.rate) →
      ∀ l : List Obs, Sys.ncFit b l → Sys.ncFit b (l.map (fun r => if r.id = oid then f r else r)) := by
    intro f hf l hl ob hob
    obtain ⟨r, hr, rfl⟩ := List.mem_map.mp hob
    split
    · rw [(hf r).1, (hf r).2]; exact hl r hr
    · exact hl r hr
  unfold telescopeVisit
  simp only
  cases hob : s.obs? oid with
  | none => exact ⟨rfl, hb, hg⟩
  | some o =>
    simp only
    obtain ⟨hd, hr⟩ := hg o (obs_mem_of_obs? hob).1
    split
    · obtain ⟨s1, bc, hc, hb1, ho1⟩ := Sys.nc_checkIngest_ok s o hd (by rw [hb]; exact hr)
      rw [hc]
      cases bc with
      | false => exact ⟨rfl, hb1.trans hb, by rw [ho1]; exact hg⟩
      | true =>
        refine ⟨rfl, hb1.trans hb, ?_⟩
        show Sys.ncFit b (s1.obs.map _)
        rw [ho1]
        exact hupd (fun r => { r with ast := some n }) (fun _ => ⟨rfl, rfl⟩) _ hg
    · split
      · refine ⟨rfl, hb, ?_⟩
        show Sys.ncFit b (s.obs.map _)
        exact hupd (fun r => { r with status := .finished }) (fun _ => ⟨rfl, rfl⟩) _ hg
      · exact ⟨rfl, hb, hg⟩

theorem Sys.nc_fold (n : Nat) (b : Buffer) (l : List Oid) (acc : Sys × Option Err) (h2 : acc.2 = none)
    (hb : acc.1.buf = b) (hg : Sys.ncFit b acc.1.obs) : (l.foldl (telescopeVisit n) acc).2 = none := by
  induction l generalizing acc with
  | nil => exact h2
  | cons x r ih =>
    obtain ⟨g1, g2, g3⟩ := Sys.nc_visit n b acc x h2 hb hg
    exact ih _ g1 g2 g3

theorem Sys.nc_telescope_nr (s : Sys) (now : Time) (hg : Sys.ncFit s.buf s.obs) :
    ∀ err, (s.telescopeBlock now).2 ≠ .raised err := by
  intro err
  unfold Sys.telescopeBlock
  split
  · simp
  · simp only
    have := Sys.nc_fold (natNow now) s.buf (s.obs.map (·.id))
      ({ s with telEvents := [],
                telDelayed := if s.schedDelayed ∧ !s.telDelayed then true else s.telDelayed }, none) rfl rfl hg
    split
    · rename_i heq
      rw [heq] at this
      cases this
    · simp

theorem nc_fit (N : NcCfg env s0) (n : Nat) (hc : (simAt env s0 n).st.crashed = none) :
    Sys.ncFit (simAt env s0 n).st.buf (simAt env s0 n).st.obs := by
  intro ob hob
  obtain ⟨o0, ho0, hst⟩ := nc_obs_cfg N n hob
  obtain ⟨_, _, hd, _, hr, _⟩ := Sys.ot_stat_fields hst
  obtain ⟨_, _, _, _, f5, _, f7, _⟩ := N.feas.1 o0 ho0
  rw [hd, hr, (nc_over N n hc).2]
  exact ⟨f7, f5⟩

theorem nc_block_telescope_ok (N : NcCfg env s0) (n : Nat) (hc : (simAt env s0 n).st.crashed = none)
    {p : Proc} (hk : p.k = .telescope) (orc : Oracle) :
    ∀ err, ((simAt env s0 n).st.block p orc).2.2 ≠ .raised err := by
  rw [block_telescope orc hk]
  exact Sys.nc_telescope_nr _ _ (nc_fit N n hc)

/-! ### T2: the ingest supervisor -/

theorem Sys.nc_allocIngestIter_nr (s : Sys) (now : Time) (oid : Oid) (tl : Int) {ob : Obs}
    (h : s.obs? oid = some ob) : ∀ err, (s.allocIngestIter now oid tl).2.2 ≠ .raised err := by
  intro err
  unfold Sys.allocIngestIter
  rw [h]
  simp only
  repeat' split
  all_goals simp

theorem Sys.nc_allocIngest_nr (s : Sys) (now : Time) (pc : Nat) (oid : Oid) (tl : Int) {ob : Obs}
    (h : s.obs? oid = some ob) : ∀ err, (s.allocIngestBlock now pc oid tl).2.2 ≠ .raised err := by
  unfold Sys.allocIngestBlock
  split
  · simp only
    have : (s.updObs oid (fun r => { r with ast := some (natNow now) })).obs? oid =
        some (if ob.id = oid then { ob with ast := some (natNow now) } else ob) := by
      rw [obs?_updObs s oid oid (fun r => { r with ast := some (natNow now) }) (fun _ => rfl), h]; rfl
    exact Sys.nc_allocIngestIter_nr _ _ _ _ this
  · exact Sys.nc_allocIngestIter_nr _ _ _ _ h

theorem nc_block_allocIngest_ok (N : NcCfg env s0) (n : Nat) (hc : (simAt env s0 n).st.crashed = none)
    {p : Proc} (hp : p ∈ (simAt env s0 n).st.procs) {o : Oid} {tl : Int} (hk : p.k = .allocIngest o tl)
    (orc : Oracle) : ∀ err, ((simAt env s0 n).st.block p orc).2.2 ≠ .raised err := by
  rw [block_allocIngest orc hk]
  have hadm := ((nc_fi N n hc).ok p hp).aiAdm o tl hk
  obtain ⟨ob, hob, _⟩ := (nc_sinv N n).eg.adm o hadm
  exact Sys.nc_allocIngest_nr _ _ _ _ _ hob

/-! ### T4: the ingest stream -/

theorem Sys.nc_ingestStreamIter_nr (s : Sys) (now : Time) (oid : Oid) (tl : Int) {ob : Obs}
    (h : s.obs? oid = some ob) (hr : ob.rate ≤ s.buf.hot.maxRate) :
    ∀ err, (s.ingestStreamIter now oid tl).2.2 ≠ .raised err := by
  intro err
  unfold Sys.ingestStreamIter
  rw [h]
  simp only
  have hd : s.buf.deposit oid ob.rate =
      ({ s.buf with hot := { s.buf.hot with cur := s.buf.hot.cur - ob.rate },
                    size := dictSet s.buf.size oid (s.buf.sizeOf oid + ob.rate) }, none) := by
    unfold Buffer.deposit
    rw [if_neg (by omega)]
  rw [hd]
  simp only []
  repeat' split
  all_goals simp

theorem Sys.nc_ingestStream_nr (s : Sys) (now : Time) (pc : Nat) (oid : Oid) (tl : Int) {ob : Obs}
    (h : s.obs? oid = some ob) (hst : ob.status = .running) (hr : ob.rate ≤ s.buf.hot.maxRate) :
    ∀ err, (s.ingestStreamBlock now pc oid tl).2.2 ≠ .raised err := by
  unfold Sys.ingestStreamBlock
  split
  · rw [h]
    simp only
    rw [if_neg (by rw [hst]; simp)]
    exact Sys.nc_ingestStreamIter_nr (s.addBuf ⟨natNow now, oid, .bufAdded⟩) _ _ _ (ob := ob) h hr
  · exact Sys.nc_ingestStreamIter_nr _ _ _ _ h hr

theorem nc_maxRate (N : NcCfg env s0) (n : Nat) (hc : (simAt env s0 n).st.crashed = none) :
    (simAt env s0 n).st.buf.hot.maxRate = s0.buf.hot.maxRate :=
  (reachOk_ref s0 _ N.hw (nc_bufList N) (nc_reachOk N n hc) hc).maxRate.1

theorem nc_block_ingestStream_ok (N : NcCfg env s0) (n : Nat) (hc : (simAt env s0 n).st.crashed = none)
    {p : Proc} (hp : p ∈ (simAt env s0 n).st.procs) (ha : p.alive = true) {o : Oid} {tl : Int}
    (hk : p.k = .ingestStream o tl) (orc : Oracle) :
    ∀ err, ((simAt env s0 n).st.block p orc).2.2 ≠ .raised err := by
  rw [block_ingestStream orc hk]
  obtain ⟨ob, hob, hrun⟩ := Sys.l8_stream_running (nc_sinv N n) (nc_bufi N n hc) (nc_si N n hc) (nc_sp N n hc)
    hp ha hk
  obtain ⟨o0, ho0, hst⟩ := nc_obs_cfg N n (obs_mem_of_obs? hob).1
  obtain ⟨_, _, _, _, hr, _⟩ := Sys.ot_stat_fields hst
  refine Sys.nc_ingestStream_nr _ _ _ _ _ hob hrun ?_
  rw [hr, nc_maxRate N n hc]
  exact (N.feas.1 o0 ho0).2.2.2.1

/-! ### T7: the scheduler loop -/

theorem Sys.nc_schedLoop_nr (s : Sys) (now : Time) (orc : Oracle)
    (h : ∀ o, s.buf.hot.stored.getLast? = some o → ∃ ob, s.obs? o = some ob) :
    ∀ err, (s.schedLoopBlock now orc).2 ≠ .raised err := by
  intro err
  unfold Sys.schedLoopBlock
  simp only
  split
  · cases hl : s.buf.hot.stored.getLast? with
    | none =>
      have : s.buf.nextForProcessing = (s.buf, none) := by unfold Buffer.nextForProcessing; rw [hl]
      rw [this]; simp
    | some o =>
      have hn : s.buf.nextForProcessing = (s.buf.nextForProcessing.1, some o) := by
        unfold Buffer.nextForProcessing; rw [hl]
      rw [hn]
      simp only
      obtain ⟨ob, hob⟩ := h o hl
      have e1 : ({ s with schEvents := [] } : Sys).obs? o = some ob := hob
      rw [e1]
      simp only
      repeat' split
      all_goals simp
  · simp

theorem nc_block_schedLoop_ok (N : NcCfg env s0) (n : Nat) (hc : (simAt env s0 n).st.crashed = none)
    {p : Proc} (hk : p.k = .schedLoop) (orc : Oracle) :
    ∀ err, ((simAt env s0 n).st.block p orc).2.2 ≠ .raised err := by
  rw [block_schedLoop orc hk]
  apply Sys.nc_schedLoop_nr
  intro o hl
  obtain ⟨ys, hys⟩ := List.getLast?_eq_some_iff.mp hl
  have hmem : o ∈ (simAt env s0 n).st.buf.hot.stored := by rw [hys]; simp
  have hpos : 0 < locCount (simAt env s0 n).st o := by
    unfold locCount bufList
    simp only [List.count_append]
    have := List.count_pos_iff.mpr hmem
    omega
  obtain ⟨ob, hob, _⟩ := (nc_bufi N n hc).locObs o hpos
  exact ⟨ob, hob⟩

end

end Topsim
