/-
  Preced5 — the blocks that neither stamp a task record nor touch the finished-task
  map (`QuietB`): every block except those of the scheduler loop, the allocation
  process and the task body.
-/
import TopsimProofs.Preced4

namespace Topsim
namespace Sys

/-! ### record updates seen through `task?` -/

/-- `updTask` when only the record `task?` finds needs to be in relation `R` with its image -/
theorem TaskStepR.updTask1 {R} (hrefl : ∀ r, R r r) (s : Sys) (t0 : Tid) (f : TaskRec → TaskRec)
    (hid : ∀ r, (f r).id = r.id) (hR : ∀ r, s.task? t0 = some r → R r (f r)) :
    TaskStepR R s (s.updTask t0 f) := by
  constructor
  · intro t r hr
    rw [task?_updTask s t0 t f hid, hr]
    refine ⟨_, rfl, ?_⟩
    simp only
    split
    · rename_i e
      have : t = t0 := by rw [← task?_id hr]; exact e
      subst this
      exact hR r hr
    · exact hrefl r
  · intro t r' h0 h1
    rw [task?_updTask s t0 t f hid, h0] at h1
    exact absurd h1 (by simp)

/-- no record of a new id appears -/
def NoNew (s X : Sys) : Prop := ∀ t, s.task? t = none → X.task? t = none

theorem NoNew.refl (s : Sys) : NoNew s s := fun _ h => h
theorem NoNew.trans {a b c : Sys} (h1 : NoNew a b) (h2 : NoNew b c) : NoNew a c := fun t h => h2 t (h1 t h)
theorem NoNew.of_eq {s X : Sys} (h : X.tasks = s.tasks) : NoNew s X := by
  intro t h0; unfold task? at h0 ⊢; rw [h]; exact h0
theorem NoNew.updTask (s : Sys) (t0 : Tid) (f : TaskRec → TaskRec) (hid : ∀ r, (f r).id = r.id) :
    NoNew s (s.updTask t0 f) := by
  intro t h0; rw [task?_updTask s t0 t f hid, h0]; rfl
theorem NoNew.foldl {α} (f : Sys → α → Sys) (hf : ∀ s a, NoNew s (f s a)) (l : List α) (s : Sys) :
    NoNew s (l.foldl f s) := by
  induction l generalizing s with
  | nil => exact NoNew.refl s
  | cons a r ih => exact (hf s a).trans (ih _)

/-! ### quiet blocks -/

structure QuietB (s X : Sys) : Prop where
  task : TaskStep s X
  plan : PlanStep s X
  newIng : ∀ t r', s.task? t = none → X.task? t = some r' → t.isIngest = true
  fin : X.cl.finished = s.cl.finished

theorem QuietB.refl (s : Sys) : QuietB s s :=
  ⟨TaskStep.refl s, PlanStep.refl s, fun t r' h0 h1 => by rw [h0] at h1; exact absurd h1 (by simp), rfl⟩

theorem QuietB.trans {a b c : Sys} (h1 : QuietB a b) (h2 : QuietB b c) : QuietB a c := by
  refine ⟨h1.task.trans h2.task, h1.plan.trans h2.plan, ?_, h2.fin.trans h1.fin⟩
  intro t r' h0 hc
  cases hb : b.task? t with
  | none => exact h2.newIng t r' hb hc
  | some r1 => exact h1.newIng t r1 h0 hb

/-- tasks, plans and finished-task map untouched -/
theorem QuietB.of_eq {s X : Sys} (ht : X.tasks = s.tasks) (hp : X.plans = s.plans)
    (hf : X.cl.finished = s.cl.finished) : QuietB s X :=
  ⟨TaskStep.of_eq ht, PlanStep.of_eq hp, fun t r' h0 h1 => by
    have := NoNew.of_eq ht t h0; rw [this] at h1; exact absurd h1 (by simp), hf⟩

/-- no new record -/
theorem QuietB.of_noNew {s X : Sys} (ht : TaskStep s X) (hn : NoNew s X) (hp : PlanStep s X)
    (hf : X.cl.finished = s.cl.finished) : QuietB s X :=
  ⟨ht, hp, fun t r' h0 h1 => by rw [hn t h0] at h1; exact absurd h1 (by simp), hf⟩

theorem QuietB.foldl {α} (f : Sys → α → Sys) (hf : ∀ s a, QuietB s (f s a)) (l : List α) (s : Sys) :
    QuietB s (l.foldl f s) := by
  induction l generalizing s with
  | nil => exact QuietB.refl s
  | cons a r ih => exact (hf s a).trans (ih _)

theorem QuietB.updTask (s : Sys) (t0 : Tid) (f : TaskRec → TaskRec) (hid : ∀ r, (f r).id = r.id)
    (hR : ∀ r, s.task? t0 = some r → TKeep r (f r)) : QuietB s (s.updTask t0 f) :=
  QuietB.of_noNew (TaskStepR.updTask1 TKeep.refl s t0 f hid hR) (NoNew.updTask s t0 f hid)
    (PlanStep.of_eq rfl) rfl

theorem QuietB.updPlan (s : Sys) (oid : Oid) (F : Plan → Plan) (hobs : ∀ pl, (F pl).obs = pl.obs)
    (hed : ∀ pl, (F pl).edges = pl.edges) (hts : ∀ pl, ∀ t ∈ (F pl).tasks, t ∈ pl.tasks) :
    QuietB s (s.updPlan oid F) :=
  QuietB.of_noNew (TaskStep.of_eq rfl) (NoNew.of_eq rfl) (PlanStep.updPlan s oid F hobs hed hts) rfl

/-! ### `allocate_tasks` -/

theorem updateAllocation_keep (r : TaskRec) (mm : Machine) : TKeep r (updateAllocation r mm) := by
  unfold updateAllocation
  simp only
  split <;> exact ⟨⟨rfl, rfl, rfl⟩, rfl, rfl, fun _ h => h⟩

theorem quietB_atStart (s : Sys) (now : Time) (pc : Nat) (oid : Oid) : QuietB s (atStart s now pc oid) := by
  unfold atStart
  split
  · have h1 : QuietB s (s.updPlan oid (fun p => { p with ast := some (natNow now) })) :=
      QuietB.updPlan s oid _ (fun _ => rfl) (fun _ => rfl) (fun _ _ h => h)
    refine h1.trans ?_
    have h2 : ∀ S : Sys, ∀ l : List Tid, QuietB S (l.foldl
        (fun (s : Sys) t => s.updTask t (fun r => { r with offset := natNow now })) S) := by
      intro S l
      apply QuietB.foldl
      intro s1 t
      exact QuietB.updTask s1 t _ (fun _ => rfl) (fun r _ => ⟨⟨rfl, rfl, rfl⟩, rfl, rfl, fun _ h => h⟩)
    exact (h2 _ _).trans (QuietB.of_eq rfl rfl rfl)
  · exact QuietB.refl s

theorem quietB_updateCurrentPlan (s : Sys) (oid : Oid) : QuietB s (s.updateCurrentPlan oid) := by
  have hc := updateCurrentPlan_core s oid
  refine QuietB.of_noNew (TaskStep.of_eq hc.tasks) (NoNew.of_eq hc.tasks) ?_ (by rw [hc.cl])
  intro pl' hpl
  rw [updateCurrentPlan_plans] at hpl
  split at hpl
  · exact ⟨pl', hpl, rfl, rfl, fun _ h => h⟩
  · exact PlanStep.updPlan s oid
      (fun p => { p with tasks := p.tasks.filter (fun t => (s.taskView t).status ≠ .finished) })
      (fun _ => rfl) (fun _ => rfl) (fun _ t ht => (List.mem_filter.mp ht).1) pl' hpl

theorem quietB_atS3 (s1 : Sys) (out : AlgOut) (oid : Oid) (hf : out.cl.finished = s1.cl.finished) :
    QuietB s1 (atS3 s1 out oid) := by
  refine QuietB.of_noNew (TaskStep.of_eq (atS3_tasks s1 out oid)) (NoNew.of_eq (atS3_tasks s1 out oid)) ?_
    (by rw [atS3_cl]; exact hf)
  intro pl' hpl
  rw [atS3_plans] at hpl
  obtain ⟨pl, hm, rfl⟩ := List.mem_map.mp hpl
  refine ⟨pl, hm, ?_⟩
  split
  · exact ⟨rfl, rfl, fun _ h => h⟩
  · exact ⟨rfl, rfl, fun _ h => h⟩

theorem quietB_processOne (now : Time) (oid : Oid) (st : PcsSt) (t : Tid) :
    QuietB st.s (processOne now oid st t).s := by
  have hua : ∀ s1, UA st.s t s1 → QuietB st.s s1 := by
    intro s1 h
    rcases h with rfl | ⟨mm, rfl⟩
    · exact QuietB.refl _
    · exact QuietB.updTask st.s t _ (fun r => updateAllocation_id r mm) (fun r _ => updateAllocation_keep r mm)
  rcases processOne_cases now oid st t with ⟨s1, h1, hs, _⟩ | ⟨s1, m, r, cross, h1, _, hr, hst, hs, _⟩
  · rw [hs]; exact hua s1 h1
  · rw [hs]
    refine (hua s1 h1).trans ?_
    have h2 : QuietB s1 (s1.spawn (.allocTask t m cross (some oid) false 0) now).1 := QuietB.of_eq rfl rfl rfl
    refine h2.trans (QuietB.updTask _ t _ (fun _ => rfl) ?_)
    intro r1 hr1
    have hr1' : s1.task? t = some r1 := hr1
    have hs1 : r1.status = .unscheduled := by
      rcases h1 with rfl | ⟨mm, rfl⟩
      · rw [hr] at hr1'; injection hr1' with e; rw [← e]; exact hst
      · rw [task?_updTask st.s t t _ (fun r => updateAllocation_id r mm), hr] at hr1'
        simp only [Option.map_some, task?_id hr, if_true] at hr1'
        injection hr1' with e
        rw [← e, updateAllocation_status]; exact hst
    exact ⟨⟨rfl, rfl, rfl⟩, rfl, rfl, fun _ hf => by rw [hs1] at hf; exact absurd hf (by simp)⟩

theorem quietB_processCurrentSchedule (a : Sys) (now : Time) (oid : Oid) (sched pairs : List (Tid × Mid)) :
    QuietB a (processCurrentSchedule a now oid sched pairs).s := by
  unfold processCurrentSchedule
  simp only
  generalize ((dictKeys sched).mergeSort _) = l
  have : ∀ (l : List Tid) (st : PcsSt), QuietB st.s (l.foldl (processOne now oid) st).s := by
    intro l
    induction l with
    | nil => intro st; exact QuietB.refl _
    | cons x r ih => intro st; exact (quietB_processOne now oid st x).trans (ih _)
  exact this l { s := a, schedule := sched, pairs := pairs, curr := [] }

theorem quietB_allocTasksIter (a : Sys) (ha : a.alg ≠ .oracle) (now : Time) (orc : Oracle) (oid : Oid)
    (sc pa : List (Tid × Mid)) (po : List Tid) : QuietB a (a.allocTasksIter now orc oid sc pa po).1 := by
  have h1 := quietB_updateCurrentPlan a oid
  have ha1 : (a.updateCurrentPlan oid).alg ≠ .oracle := by rw [updateCurrentPlan_alg]; exact ha
  have h3 : ∀ plan out, (a.updateCurrentPlan oid).runAlgorithm orc plan sc po = .ok out →
      QuietB a (atS3 (a.updateCurrentPlan oid) out oid) := fun plan out hrun =>
    h1.trans (quietB_atS3 _ out oid (runAlgorithm_finished_eq _ orc plan sc po out ha1 hrun))
  have hout := allocTasksIter_out a now orc oid sc pa po
  generalize a.allocTasksIter now orc oid sc pa po = r at hout ⊢
  cases hout with
  | noPlan _ => exact h1
  | algErr _ _ _ _ => exact h1
  | finish plan out _ hrun _ _ _ _ =>
    exact (h3 plan out hrun).trans (QuietB.of_eq rfl rfl (releaseBatch_finished _ _))
  | finishBad plan out _ hrun _ _ _ _ =>
    exact (h3 plan out hrun).trans (QuietB.of_eq rfl rfl (releaseBatch_finished _ _))
  | finishWait plan out _ hrun _ _ _ => exact (h3 plan out hrun).trans (QuietB.of_eq rfl rfl rfl)
  | idle plan out _ hrun _ _ => exact h3 plan out hrun
  | alloc plan out y _ hrun _ _ =>
    exact (h3 plan out hrun).trans (quietB_processCurrentSchedule _ now oid _ _)

theorem quietB_allocTasksBlock (s : Sys) (ha : s.alg ≠ .oracle) (now : Time) (orc : Oracle) (pc : Nat)
    (oid : Oid) (sc pa : List (Tid × Mid)) (po : List Tid) (fn : Bool) :
    QuietB s (s.allocTasksBlock now orc pc oid sc pa po fn).1 := by
  cases fn with
  | true => rw [allocTasksBlock_fin]; exact QuietB.refl s
  | false =>
    rw [allocTasksBlock_eq]
    exact (quietB_atStart s now pc oid).trans
      (quietB_allocTasksIter _ (by rw [atStart_alg]; exact ha) now orc oid sc pa po)

/-! ### the ingest provisioner -/

theorem quietB_provIngest (s : Sys) (now : Time) (pc : Nat) (oid : Oid) (d : Nat) :
    QuietB s (s.provIngestBlock now pc oid d).1 := by
  unfold provIngestBlock
  split
  · simp only
    have hfin := provisionIngest_finished s.cl d oid
    generalize hr : s.cl.provisionIngest d oid = r at hfin
    obtain ⟨cl1, e1, pairs⟩ := r
    cases e1 with
    | some e => exact QuietB.of_eq rfl rfl hfin
    | none =>
      simp only
      have hing : ∀ x ∈ pairs, x.2.isIngest = true := by
        intro x hx
        have : (s.cl.provisionIngest d oid).2.2 = pairs := by rw [hr]
        have hx' : x ∈ (s.cl.provisionIngest d oid).2.2 := by rw [this]; exact hx
        unfold Cluster.provisionIngest at hx'
        split at hx'
        · simp at hx'
        · simp only at hx'
          obtain ⟨⟨m', i⟩, _, rfl⟩ := List.mem_map.mp hx'
          rfl
      generalize hrecs : List.map (fun x : Mid × Tid => ({ id := x.2, duration := (match s.obs? oid with | some o => o.duration | none => 0), status := TStatus.scheduled } : TaskRec)) pairs = recs
      have hrec : ∀ r ∈ recs, Fresh r ∧ r.id.isIngest = true := by
        intro r hr'
        rw [← hrecs] at hr'
        obtain ⟨x, hx, rfl⟩ := List.mem_map.mp hr'
        exact ⟨⟨rfl, rfl, by simp⟩, hing x hx⟩
      generalize hs1 : ({ s with cl := cl1, tasks := s.tasks ++ recs } : Sys) = s1
      have e3 : s1.tasks = s.tasks ++ recs := by subst hs1; rfl
      have e4 : s1.plans = s.plans := by subst hs1; rfl
      have e5 : s1.cl.finished = s.cl.finished := by subst hs1; exact hfin
      have h1 : QuietB s s1 := by
        refine ⟨TaskStepR.append TKeep.refl s s1 recs e3 (fun r hr' => (hrec r hr').1), PlanStep.of_eq e4, ?_, e5⟩
        intro t r' h0 h1
        rw [task?_append s s1 recs e3, h0] at h1
        have hm := List.mem_of_find?_eq_some h1
        have hid : r'.id = t := by simpa using List.find?_some h1
        rw [← hid]; exact (hrec r' hm).2
      refine h1.trans ?_
      apply QuietB.foldl
      intro s2 x
      exact QuietB.of_eq rfl rfl rfl
  · exact QuietB.refl s

/-! ### every block but three -/

theorem block_quietB (s : Sys) (p : Proc) (orc : Oracle) (ha : s.alg ≠ .oracle)
    (h1 : p.k.tag ≠ "schedLoop") (h2 : p.k.tag ≠ "allocTask") (h3 : p.k.tag ≠ "doWork") :
    QuietB s (s.block p orc).1 := by
  have hq : ∀ X : Sys, X.tasks = s.tasks → X.plans = s.plans → X.cl = s.cl → QuietB s X :=
    fun X a b c => QuietB.of_eq a b (by rw [c])
  cases hk : p.k with
  | monitor =>
    have hb : s.block p orc = ((s.monitorBlock p.wake).1, p.k, (s.monitorBlock p.wake).2) := by
      unfold block; simp only [hk]
    rw [hb]; exact hq _ (monitorBlock_tasks _ _) (monitorBlock_plans _ _) (monitorBlock_clq _ _)
  | telescope =>
    have hb : s.block p orc = ((s.telescopeBlock p.wake).1, .telescope, (s.telescopeBlock p.wake).2) := by
      unfold block; simp only [hk]
    rw [hb]; exact hq _ (telescopeBlock_tasks _ _) (telescopeBlock_plans _ _) (telescopeBlock_clq _ _)
  | clusterLoop =>
    have hb : s.block p orc = ({ s with cl := s.cl.loopTick }, p.k, .timeout 1) := by
      unfold block; simp only [hk]
    rw [hb]
    refine QuietB.of_eq rfl rfl ?_
    show s.cl.loopTick.finished = s.cl.finished
    unfold Cluster.loopTick; split <;> rfl
  | schedLoop => rw [hk] at h1; exact absurd rfl h1
  | bufferLoop =>
    have hb : s.block p orc = ((s.bufferLoopBlock p.wake).1, p.k, (s.bufferLoopBlock p.wake).2) := by
      unfold block; simp only [hk]
    rw [hb]; exact hq _ (bufferLoopBlock_tasks _ _) (bufferLoopBlock_plans _ _) (bufferLoopBlock_clq _ _)
  | allocIngest o tl =>
    have hb : s.block p orc = s.allocIngestBlock p.wake p.pc o tl := by
      unfold block; simp only [hk]
    rw [hb]
    refine QuietB.of_eq (allocIngestBlock_tasks _ _ _ _ _) (allocIngestBlock_plans _ _ _ _ _) ?_
    rcases allocIngestBlock_clq s p.wake p.pc o tl with e | e <;> rw [e]
    rfl
  | provIngest o d =>
    have hb : s.block p orc = s.provIngestBlock p.wake p.pc o d := by
      unfold block; simp only [hk]
    rw [hb]; exact quietB_provIngest _ _ _ _ _
  | ingestStream o tl =>
    have hb : s.block p orc = s.ingestStreamBlock p.wake p.pc o tl := by
      unfold block; simp only [hk]
    rw [hb]
    exact hq _ (ingestStreamBlock_tasks _ _ _ _ _) (ingestStreamBlock_plans _ _ _ _ _)
      (ingestStreamBlock_clq _ _ _ _ _)
  | allocTask t m preds obs ing ret => rw [hk] at h2; exact absurd rfl h2
  | doWork t m preds ph tot => rw [hk] at h3; exact absurd rfl h3
  | allocTasks o sc pa po fn =>
    have hb : s.block p orc = s.allocTasksBlock p.wake orc p.pc o sc pa po fn := by
      unfold block; simp only [hk]
    rw [hb]; exact quietB_allocTasksBlock s ha _ _ _ _ _ _ _ _
  | hot2cold cur =>
    have hb : s.block p orc = s.hot2coldBlock p.wake cur := by
      unfold block; simp only [hk]
    rw [hb]; exact hq _ (hot2coldBlock_tasks _ _ _) (hot2coldBlock_plans _ _ _) (hot2coldBlock_clq _ _ _)
  | cold2hot cur =>
    have hb : s.block p orc = s.cold2hotBlock p.wake cur := by
      unfold block; simp only [hk]
    rw [hb]; exact hq _ (cold2hotBlock_tasks _ _ _) (cold2hotBlock_plans _ _ _) (cold2hotBlock_clq _ _ _)

end Sys
end Topsim
