/-
  Preced13 — the recorded start: invariant `PH` (the cross-machine list handed to a
  task body holds finished predecessors; a body that waits for its inputs is due at
  `startTime alloc bw arrivals`; a started body recorded `ast = startTime alloc bw
  arrivals`) and its preservation by the blocks other than those of a task body.
-/
import TopsimProofs.Preced12

namespace Topsim
namespace Sys

open Cluster

/-! ### the arrivals `_wait_for_transfer` reads -/

/-- `pred.aft` as `_wait_for_transfer` reads it off the records (`-1` when there is no stamp) -/
def aftOf (s : Sys) (q : Tid) : Time :=
  match s.task? q with
  | some pr => pr.aft.getD (-1)
  | none => -1

/-- (recorded finish, edge volume) of the tasks of the cross-machine list -/
def crossArr (s : Sys) (r : TaskRec) (cross : List Tid) : List (Time × Nat) :=
  cross.map (fun q => (aftOf s q, (dictGet r.io q).getD 0))

theorem transferWait_ok {s : Sys} {now : Time} {t : Tid} {m : Mid} {preds : List Tid} {w : Time}
    (h : s.transferWait now t m preds = .ok w) :
    ∃ r mm, s.task? t = some r ∧ s.machine? m = some mm ∧
      w = waitForTransfer now mm.bw (crossArr s r preds) := by
  unfold transferWait at h
  split at h
  · rename_i r mm hr hmm
    split at h
    · exact absurd h (by simp)
    · injection h with h
      exact ⟨r, mm, hr, hmm, h.symm⟩
  · exact absurd h (by simp)

theorem crossArr_nil (s : Sys) (r : TaskRec) : crossArr s r [] = [] := rfl

theorem startTime_cross (s : Sys) (r : TaskRec) (cross : List Tid) (hne : cross ≠ []) (alloc : Time) (bw : Nat) :
    startTime alloc bw (crossArr s r cross) = alloc + waitForTransfer alloc bw (crossArr s r cross) := by
  unfold startTime
  have : (crossArr s r cross).isEmpty = false := by
    cases cross with
    | nil => exact absurd rfl hne
    | cons x l => rfl
  rw [this]; rfl

theorem aftOf_step {s Y : Sys} (hT : TaskStep s Y) (q : Tid) : aftOf Y q = aftOf s q := by
  unfold aftOf
  cases h0 : s.task? q with
  | some rq =>
    obtain ⟨rq', h1, hk⟩ := hT.fwd q rq h0
    rw [h1]; simp only; rw [hk.aft]
  | none =>
    cases h1 : Y.task? q with
    | none => rfl
    | some r' =>
      have := hT.fresh q r' h0 h1
      simp only; rw [this.aft]; rfl

theorem crossArr_step {s Y : Sys} (hT : TaskStep s Y) {r r' : TaskRec} (hk : TKeep r r') (cross : List Tid) :
    crossArr Y r' cross = crossArr s r cross := by
  unfold crossArr
  apply List.map_congr_left
  intro q _
  rw [aftOf_step hT q, hk.shape.io]

theorem machine?_congr {s Y : Sys} (h : Y.machines = s.machines) (m : Mid) : Y.machine? m = s.machine? m := by
  unfold machine?; rw [h]

/-! ### the invariant -/

/-- the cross-machine list handed over for task `t`: workflow tasks the cluster reports finished,
all of them in the predecessor list of `t`'s record -/
def CrossOk (s : Sys) (t : Tid) (cross : List Tid) : Prop :=
  ∀ x ∈ cross, IsWf x ∧ FinT s x ∧ ∃ r, s.task? t = some r ∧ x ∈ r.preds

theorem CrossOk.mono {s Y : Sys} {t : Tid} {cross : List Tid} (h : CrossOk s t cross) (hT : TaskStepS s Y)
    (hF : FinMono s Y) : CrossOk Y t cross := by
  intro x hx
  obtain ⟨g1, g2, r, hr, hp⟩ := h x hx
  obtain ⟨r', hr', hk⟩ := hT.fwd t r hr
  exact ⟨g1, hF x g1 g2, r', hr', by rw [hk.preds]; exact hp⟩

theorem CrossOk.congr {a b : Sys} {t : Tid} {cross : List Tid} (h : CrossOk a t cross) (ht : b.tasks = a.tasks)
    (hc : b.cl.finished = a.cl.finished) : CrossOk b t cross :=
  h.mono (TaskStepR.of_eq TShape.refl ht) (FinMono.of_eq hc)

structure PH (s : Sys) : Prop where
  /-- the cross-machine list of a scheduler-side allocation process holds finished workflow tasks -/
  atCross : ∀ p ∈ s.procs, ∀ t m cross obs ret, p.k = .allocTask t m cross obs false ret →
    CrossOk s t cross
  /-- … and so does the list of the body of a workflow task -/
  dwCross : ∀ d ∈ s.procs, ∀ t m cross ph tot, d.k = .doWork t m cross ph tot → IsWf t →
    CrossOk s t cross
  /-- a body waiting for its inputs is due at `startTime alloc bw arrivals` -/
  waiting : ∀ d ∈ s.procs, d.alive = true → ∀ t m cross tot, d.k = .doWork t m cross 1 tot → IsWf t →
    ∃ r mm alloc, s.task? t = some r ∧ s.machine? m = some mm ∧ cross ≠ [] ∧ alloc ≤ d.wake ∧
      d.wake = startTime alloc mm.bw (crossArr s r cross)
  /-- a body that has started recorded `ast = startTime alloc bw arrivals` -/
  startedAt : ∀ d ∈ s.procs, ∀ t m cross ph tot, d.k = .doWork t m cross ph tot → 2 ≤ ph → IsWf t →
    ∃ r mm alloc, s.task? t = some r ∧ s.machine? m = some mm ∧
      r.ast = some (startTime alloc mm.bw (crossArr s r cross))

theorem PH.core {a b : Sys} (h : PH a) (e : Core8 a b) (hm : b.machines = a.machines) : PH b := by
  have ht : ∀ t, b.task? t = a.task? t := fun t => by unfold task?; rw [e.tasks]
  have hT : TaskStep a b := TaskStep.of_eq e.tasks
  have hc : ∀ r cross, crossArr b r cross = crossArr a r cross := fun r cross => crossArr_step hT (TKeep.refl r) cross
  constructor
  · rw [e.procs]; intro p hp t m cross obs ret hk
    exact (h.atCross p hp t m cross obs ret hk).congr e.tasks (by rw [e.cl])
  · rw [e.procs]; intro d hd t m cross ph tot hk hw
    exact (h.dwCross d hd t m cross ph tot hk hw).congr e.tasks (by rw [e.cl])
  · rw [e.procs]; intro d hd hda t m cross tot hk hw
    obtain ⟨r, mm, alloc, g1, g2, g3, g4, g5⟩ := h.waiting d hd hda t m cross tot hk hw
    exact ⟨r, mm, alloc, by rw [ht]; exact g1, by rw [machine?_congr hm]; exact g2, g3, g4, by rw [hc]; exact g5⟩
  · rw [e.procs]; intro d hd t m cross ph tot hk hph hw
    obtain ⟨r, mm, alloc, g1, g2, g3⟩ := h.startedAt d hd t m cross ph tot hk hph hw
    exact ⟨r, mm, alloc, by rw [ht]; exact g1, by rw [machine?_congr hm]; exact g2, by rw [hc]; exact g3⟩

/-- the generic step: records kept, no task body moves -/
theorem PH.quiet {s Y : Sys} (h : PH s) (hT : TaskStep s Y) (hM : Y.machines = s.machines)
    (hAT : ∀ q ∈ Y.procs, ∀ t m cross obs ret, q.k = .allocTask t m cross obs false ret → CrossOk Y t cross)
    (hDW : ∀ d ∈ Y.procs, ∀ t m cross ph tot, d.k = .doWork t m cross ph tot → IsWf t → CrossOk Y t cross)
    (hW : ∀ d ∈ Y.procs, d.alive = true → ∀ t m cross tot, d.k = .doWork t m cross 1 tot → d ∈ s.procs)
    (hS : ∀ d ∈ Y.procs, ∀ t m cross ph tot, d.k = .doWork t m cross ph tot → 2 ≤ ph →
      ∃ d0 ∈ s.procs, ∃ ph0 tot0, d0.k = .doWork t m cross ph0 tot0 ∧ 2 ≤ ph0) : PH Y := by
  refine ⟨hAT, hDW, ?_, ?_⟩
  · intro d hd hda t m cross tot hk hw
    obtain ⟨r, mm, alloc, g1, g2, g3, g4, g5⟩ := h.waiting d (hW d hd hda t m cross tot hk) hda t m cross tot hk hw
    obtain ⟨r', h1, hkk⟩ := hT.fwd t r g1
    exact ⟨r', mm, alloc, h1, by rw [machine?_congr hM]; exact g2, g3, g4, by rw [crossArr_step hT hkk]; exact g5⟩
  · intro d hd t m cross ph tot hk hph hw
    obtain ⟨d0, hd0, ph0, tot0, hk0, hph0⟩ := hS d hd t m cross ph tot hk hph
    obtain ⟨r, mm, alloc, g1, g2, g3⟩ := h.startedAt d0 hd0 t m cross ph0 tot0 hk0 hph0 hw
    obtain ⟨r', h1, hkk⟩ := hT.fwd t r g1
    exact ⟨r', mm, alloc, h1, by rw [machine?_congr hM]; exact g2,
      by rw [hkk.ast, crossArr_step hT hkk]; exact g3⟩

/-- a block of a process that is not a task body -/
theorem ph_step_quiet {s : Sys} (h : PH s) (hs : SInv s) {p : Proc} (hp : p ∈ s.procs) (ha : p.alive = true)
    (hmin : ∀ q ∈ s.procs, q.alive = true → p.wake ≤ q.wake) (orc : Oracle)
    (htel : p.k = .telescope → ((natNow p.wake : Nat) : Time) = p.wake)
    (hT : TaskStep s (s.block p orc).1) (hFm : FinMono s (s.block p orc).1)
    (hndw : p.k.tag ≠ "doWork")
    (hown : ∀ t m cross obs ret, (s.block p orc).2.1 = .allocTask t m cross obs false ret →
      CrossOk (s.block p orc).1 t cross)
    (hnew : ∀ q ∈ (s.block p orc).1.procs, q ∉ s.procs → Harmless q.k ∨
      (∃ t m cross obs ret, q.k = .allocTask t m cross obs false ret ∧ CrossOk (s.block p orc).1 t cross) ∨
      (∃ t m cross, q.k = .doWork t m cross 0 0 ∧ (IsWf t → CrossOk (s.block p orc).1 t cross))) :
    PH ((s.block p orc).1.updProc p.pid (fin (s.block p orc).2.1 (s.block p orc).2.2 p.wake)) := by
  have hpc := resume_procs hs hp ha hmin orc htel
  have htag := block_tag s hs.pw p orc
  have hfy : ∀ t cross, CrossOk (s.block p orc).1 t cross →
      CrossOk ((s.block p orc).1.updProc p.pid (fin (s.block p orc).2.1 (s.block p orc).2.2 p.wake)) t cross :=
    fun t cross hx => hx.congr rfl rfl
  have hold : ∀ t cross, CrossOk s t cross →
      CrossOk ((s.block p orc).1.updProc p.pid (fin (s.block p orc).2.1 (s.block p orc).2.2 p.wake)) t cross :=
    fun t cross hx => hfy t cross (hx.mono hT.toS hFm)
  have hk'dw : ∀ t m cross ph tot, (s.block p orc).2.1 ≠ .doWork t m cross ph tot := by
    intro t m cross ph tot e
    rw [e] at htag; exact hndw htag.symm
  refine h.quiet (hT.of_tasks_eq rfl) (by show (s.block p orc).1.machines = _; exact block_machs s p orc) ?_ ?_ ?_ ?_
  · intro q hq t m cross obs ret hqk
    rcases hpc q hq with rfl | ⟨h1, _⟩ | ⟨h1, h2, _⟩
    · simp only [fin_k] at hqk
      exact hfy t cross (hown t m cross obs ret hqk)
    · exact hold t cross (h.atCross q h1 t m cross obs ret hqk)
    · rcases hnew q h1 h2 with hh | ⟨t', m', cross', obs', ret', e, hc⟩ | ⟨t', m', cross', e, _⟩
      · exact absurd hqk (hh.2.2.2 t m cross obs ret)
      · rw [e] at hqk
        simp only [PK.allocTask.injEq] at hqk
        obtain ⟨e1, _, e3, _⟩ := hqk
        subst e1 e3
        exact hfy _ _ hc
      · rw [e] at hqk; exact absurd hqk (by simp)
  · intro d hd t m cross ph tot hdk hw
    rcases hpc d hd with rfl | ⟨h1, _⟩ | ⟨h1, h2, _⟩
    · simp only [fin_k] at hdk; exact absurd hdk (hk'dw t m cross ph tot)
    · exact hold t cross (h.dwCross d h1 t m cross ph tot hdk hw)
    · rcases hnew d h1 h2 with hh | ⟨t', m', cross', obs', ret', e, _⟩ | ⟨t', m', cross', e, hc⟩
      · exact absurd (by rw [hdk]; rfl) hh.2.1
      · rw [e] at hdk; exact absurd hdk (by simp)
      · rw [e] at hdk
        simp only [PK.doWork.injEq] at hdk
        obtain ⟨e1, _, e3, _⟩ := hdk
        subst e1 e3
        exact hfy _ _ (hc hw)
  · intro d hd hda t m cross tot hdk
    rcases hpc d hd with rfl | ⟨h1, _⟩ | ⟨h1, h2, _⟩
    · simp only [fin_k] at hdk; exact absurd hdk (hk'dw t m cross 1 tot)
    · exact h1
    · rcases hnew d h1 h2 with hh | ⟨t', m', cross', obs', ret', e, _⟩ | ⟨t', m', cross', e, _⟩
      · exact absurd (by rw [hdk]; rfl) hh.2.1
      · rw [e] at hdk; exact absurd hdk (by simp)
      · rw [e] at hdk; simp at hdk
  · intro d hd t m cross ph tot hdk hph
    rcases hpc d hd with rfl | ⟨h1, _⟩ | ⟨h1, h2, _⟩
    · simp only [fin_k] at hdk; exact absurd hdk (hk'dw t m cross ph tot)
    · exact ⟨d, h1, ph, tot, hdk, hph⟩
    · rcases hnew d h1 h2 with hh | ⟨t', m', cross', obs', ret', e, _⟩ | ⟨t', m', cross', e, _⟩
      · exact absurd (by rw [hdk]; rfl) hh.2.1
      · rw [e] at hdk; exact absurd hdk (by simp)
      · rw [e] at hdk
        simp only [PK.doWork.injEq] at hdk
        omega

end Sys
end Topsim
