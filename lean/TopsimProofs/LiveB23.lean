/-
  LiveB23 — NC-A3 for BatchProcessing: in its first block a scheduler-side allocation process finds its
  machine idle in the reservation of its observation (`nc_allocTask_idle_B`).

  `AtInvB` (the counterpart of `AtInv`, Live15c2): the live scheduler-side allocation processes that have
  not run their first block ask for pairwise different machines, each idle in the reservation of the
  observation the task is allocated for; while one of them (or an `allocate_tasks` process before its
  first block) exists, every live process before its first block is an `allocate_tasks` process, a
  scheduler-side allocation process or a task body.  `ScNil`: a live `allocate_tasks` process has an empty
  leftover schedule (BatchProcessing never leaves a proposal behind, LiveB21).  A NORMAL block cannot run
  while a pending allocation process exists (`UrgInv`); one block of `allocate_tasks` creates them for
  pairwise different machines idle in the reservation after the block (`nco_allocTasksBlock_B`); the
  first block of each takes its own machine out of that idle list and no other.
-/
import TopsimProofs.LiveB22
import TopsimProofs.LiveB15b2
import TopsimProofs.Live15c2

namespace Topsim

open KState Sys

namespace Cluster

theorem lb_idleOf_congr {c c' : Cluster} (h : c'.idle = c.idle) (o' : Option Oid) : c'.idleOf o' = c.idleOf o' := by
  unfold idleOf; rw [h]

/-- the idle list of `o1` after the idle list of `o` has been replaced by `l'` -/
theorem lb_mem_idleOf_dictSet {c c' : Cluster} {o o1 : Oid} {l l' : List Mid} {x : Mid}
    (hg : dictGet c.idle o = some l) (hi : c'.idle = dictSet c.idle o l') (hx : x ∈ c.idleOf (some o1))
    (hl : x ∈ l → x ∈ l') : x ∈ c'.idleOf (some o1) := by
  unfold idleOf at hx ⊢
  simp only at hx ⊢
  rw [hi, dictGet_dictSet]
  by_cases e : o = o1
  · subst e
    rw [if_pos rfl]
    rw [hg] at hx
    simp only [Option.getD_some] at hx ⊢
    exact hl hx
  · rw [if_neg e]; exact hx

/-- `allocBegin` for machine `m` keeps every other idle machine of every reservation -/
theorem lb_allocBegin_idle (c : Cluster) (t : Tid) (m : Mid) (obs : Option Oid) (ing : Bool) (o' : Option Oid)
    (x : Mid) (hx : x ∈ c.idleOf o') (hne : x ≠ m) : x ∈ (c.allocBegin t m obs ing).1.idleOf o' := by
  cases o' with
  | none => simp [idleOf] at hx
  | some o1 =>
    cases hok : (c.allocBegin t m obs ing).2 with
    | some e => rw [allocBegin_err_unchanged c t m obs ing e hok]; exact hx
    | none =>
      rcases (Sys.allocBegin_spec c t m obs ing hok).2 with ⟨_, hi, _⟩ | ⟨_, _, hi, _⟩ | ⟨_, _, o, l, _, hg, _, hi, _⟩
      · rw [lb_idleOf_congr hi]; exact hx
      · rw [lb_idleOf_congr hi]; exact hx
      · exact lb_mem_idleOf_dictSet hg hi hx (fun h => (List.mem_erase_of_ne hne).mpr h)

theorem lb_allocEnd_err_idle (c : Cluster) (t : Tid) (m : Mid) (obs : Option Oid) (ing : Bool) (e : Err)
    (he : (c.allocEnd t m obs ing).2 = some e) : (c.allocEnd t m obs ing).1.idle = c.idle := by
  unfold allocEnd at he ⊢
  by_cases ht : t ∈ c.running
  · simp only [ht, if_true] at he ⊢
    cases ing with
    | true =>
      simp only [if_true] at he ⊢
      by_cases hm : m ∈ c.ingest
      · simp [hm] at he
      · simp [hm]
    | false =>
      simp only [Bool.false_eq_true, if_false] at he ⊢
      unfold setMachineAvailable at he ⊢
      by_cases hm : m ∈ c.occupied
      · simp only [hm, if_true] at he ⊢
        cases obs with
        | none => simp at he
        | some o =>
          simp only at he ⊢
          cases hg : dictGet c.idle o <;> simp [hg] at he
      · simp [hm]
  · simp [ht]

/-- `allocEnd` keeps every idle machine of every reservation -/
theorem lb_allocEnd_idle (c : Cluster) (t : Tid) (m : Mid) (obs : Option Oid) (ing : Bool) (o' : Option Oid)
    (x : Mid) (hx : x ∈ c.idleOf o') : x ∈ (c.allocEnd t m obs ing).1.idleOf o' := by
  cases o' with
  | none => simp [idleOf] at hx
  | some o1 =>
    cases hok : (c.allocEnd t m obs ing).2 with
    | some e => rw [lb_idleOf_congr (lb_allocEnd_err_idle c t m obs ing e hok)]; exact hx
    | none =>
      rcases (Sys.allocEnd_spec c t m obs ing hok).2 with ⟨_, hi, _⟩ | ⟨_, o, l, _, hg, hi, _⟩ | ⟨_, _, hi, _⟩
      · rw [lb_idleOf_congr hi]; exact hx
      · exact lb_mem_idleOf_dictSet hg hi hx (fun h => List.mem_append_left _ h)
      · rw [lb_idleOf_congr hi]; exact hx

end Cluster

namespace Sys

open Cluster

theorem lb_allocTaskBlock_idle (s : Sys) (now : Time) (t : Tid) (m : Mid) (preds : List Tid)
    (obs : Option Oid) (ing : Bool) (ret : Nat) (o' : Option Oid) (x : Mid) (hx : x ∈ s.cl.idleOf o')
    (hne : x ≠ m) : x ∈ (s.allocTaskBlock now t m preds obs ing ret).1.cl.idleOf o' := by
  rcases allocTaskBlock_cl s now t m preds obs ing ret with he | he | he | he <;> rw [he]
  · exact hx
  · exact lb_allocBegin_idle _ _ _ _ _ _ x hx hne
  · exact lb_allocEnd_idle _ _ _ _ _ _ x (lb_allocBegin_idle _ _ _ _ _ _ x hx hne)
  · exact lb_allocEnd_idle _ _ _ _ _ _ x hx

/-- a live `allocate_tasks` process has an empty leftover schedule -/
def ScNil (s : Sys) : Prop :=
  ∀ q ∈ s.procs, q.alive = true → ∀ o sc pa po fn, q.k = .allocTasks o sc pa po fn → sc = []

structure AtInvB (s : Sys) : Prop where
  avail : ∀ q ∈ s.procs, q.alive = true → q.pc = 0 → ∀ t m preds obs ret,
    q.k = .allocTask t m preds obs false ret → m ∈ s.cl.idleOf obs
  dist : ∀ q ∈ s.procs, ∀ q' ∈ s.procs, q.alive = true → q.pc = 0 → q'.alive = true → q'.pc = 0 →
    ∀ m, q.k.ncoB = some m → q'.k.ncoB = some m → q.pid = q'.pid
  ok : ∀ q ∈ s.procs, q.alive = true → q.pc = 0 → q.k.ncoSched = true →
    ∀ q' ∈ s.procs, q'.alive = true → q'.pc = 0 → q'.k.ncoOk3 = true
  one : ∀ q ∈ s.procs, ∀ q' ∈ s.procs, q.alive = true → q.pc = 0 → q'.alive = true → q'.pc = 0 →
    q.k.ncoIsATs = true → q'.k.ncoSched = true → q.pid = q'.pid

theorem lb_ncoB_of_kind {k : PK} {t : Tid} {m : Mid} {preds : List Tid} {obs : Option Oid} {ret : Nat}
    (h : k = .allocTask t m preds obs false ret) : k.ncoB = some m := by
  rw [h]; rfl

theorem AtInvB.of_noTrig {s : Sys}
    (h : ∀ q ∈ s.procs, q.alive = true → q.pc = 0 → q.k.ncoSched = false) : AtInvB s := by
  refine ⟨?_, ?_, ?_, ?_⟩
  · intro q hq ha h0 t m preds obs ret hk
    have := h q hq ha h0
    rw [PK.ncoB_sched (lb_ncoB_of_kind hk)] at this; cases this
  · intro q hq _ _ ha h0 _ _ m hm _
    have := h q hq ha h0
    rw [PK.ncoB_sched hm] at this; cases this
  · intro q hq ha h0 ht
    have := h q hq ha h0
    rw [ht] at this; cases this
  · intro q hq _ _ ha h0 _ _ ht _
    have := h q hq ha h0
    rw [PK.ncoIsATs_sched ht] at this; cases this

theorem AtInvB.mono {s s' : Sys} (inv : AtInvB s)
    (hsub : ∀ q' ∈ s'.procs, q'.alive = true → q'.pc = 0 →
      q' ∈ s.procs ∨ (q'.k.ncoSched = false ∧ q'.k.ncoOk3 = true))
    (hav : ∀ q' ∈ s'.procs, q'.alive = true → q'.pc = 0 → q' ∈ s.procs →
      ∀ t m preds obs ret, q'.k = .allocTask t m preds obs false ret → m ∈ s.cl.idleOf obs →
        m ∈ s'.cl.idleOf obs) : AtInvB s' := by
  refine ⟨?_, ?_, ?_, ?_⟩
  · intro q hq ha h0 t m preds obs ret hk
    rcases hsub q hq ha h0 with h | ⟨h, _⟩
    · exact hav q hq ha h0 h t m preds obs ret hk (inv.avail q h ha h0 t m preds obs ret hk)
    · rw [PK.ncoB_sched (lb_ncoB_of_kind hk)] at h; cases h
  · intro q hq q' hq' ha h0 ha' h0' m hm hm'
    rcases hsub q hq ha h0 with h | ⟨h, _⟩
    · rcases hsub q' hq' ha' h0' with h' | ⟨h', _⟩
      · exact inv.dist q h q' h' ha h0 ha' h0' m hm hm'
      · rw [PK.ncoB_sched hm'] at h'; cases h'
    · rw [PK.ncoB_sched hm] at h; cases h
  · intro q hq ha h0 ht q' hq' ha' h0'
    rcases hsub q hq ha h0 with h | ⟨h, _⟩
    · rcases hsub q' hq' ha' h0' with h' | ⟨_, h'⟩
      · exact inv.ok q h ha h0 ht q' h' ha' h0'
      · exact h'
    · rw [ht] at h; cases h
  · intro q hq q' hq' ha h0 ha' h0' ht ht'
    rcases hsub q hq ha h0 with h | ⟨h, _⟩
    · rcases hsub q' hq' ha' h0' with h' | ⟨h', _⟩
      · exact inv.one q h q' h' ha h0 ha' h0' ht ht'
      · rw [ht'] at h'; cases h'
    · rw [PK.ncoIsATs_sched ht] at h; cases h

theorem AtInvB.init (s0 : Sys) (hw : WFConfig s0) : AtInvB s0.start := by
  apply AtInvB.of_noTrig
  intro q hq _ _
  rw [(nco_start_procs s0 hw).1] at hq
  simp only [List.mem_cons, List.not_mem_nil, or_false] at hq
  rcases hq with rfl | rfl | rfl | rfl | rfl <;> rfl

theorem ScNil.init (s0 : Sys) (hw : WFConfig s0) : ScNil s0.start := by
  intro q hq _ o sc pa po fn hk
  rw [(nco_start_procs s0 hw).1] at hq
  simp only [List.mem_cons, List.not_mem_nil, or_false] at hq
  rcases hq with rfl | rfl | rfl | rfl | rfl <;> simp at hk

end Sys

variable {env : SimEnv} {s0 : Sys}

/-- one kernel step (a block of the live process `p`) keeps `ScNil` -/
theorem Sys.ScNil.step_B (N : NcCfgB env s0) {k k1 : SimState} (hr : SimReach env s0 k)
    (hreach : ReachOk s0 k.st) (inv : ScNil k.st) {e : HEntry} {p : Proc}
    (hpp : k.st.proc? e.pid = some p) (ha : p.alive = true)
    (hst : k1.st = (k.st.resume e.pid (env.oracle k.st)).1) : ScNil k1.st := by
  have hw := N.hw
  have hs := (hr.l3inv hw).sinv
  have hpw := hs.pw
  obtain ⟨hpm, hpid⟩ := proc?_some hpp
  obtain ⟨parts, minPer, split, halg0⟩ := N.alg
  have halg : k.st.alg = .batch parts minPer split := (reach_alg hreach.toReach).trans halg0
  rw [hst]
  generalize env.oracle k.st = orc
  have hm := nco_resume_procs hpw hpp ha orc
  have htag := block_tag k.st hpw p orc
  obtain ⟨U, hU⟩ := hs.ci
  intro q' hq' hqa o sc pa po fn hqk
  rcases hm q' hq' with rfl | ⟨hold, _⟩ | ⟨_, _, _, w, _⟩
  · -- the process that ran
    simp only [fin_k] at hqk
    have htag' : p.k.tag = "allocTasks" := by rw [← htag, hqk]; rfl
    cases hk : p.k <;> rw [hk] at htag' <;> simp [PK.tag] at htag'
    rename_i o0 sc0 pa0 po0 fn0
    have hsc0 : sc0 = [] := inv p hpm ha o0 sc0 pa0 po0 fn0 hk
    subst hsc0
    obtain ⟨d, hd⟩ := (fin_alive _ _ _ _ hqa).2
    rw [block_allocTasks orc hk] at hqk hd
    obtain ⟨_, _, _, _, h4⟩ := nco_allocTasksBlock_B k.st p.wake orc p.pc o0 pa0 po0 fn0 hU.inv halg
    obtain ⟨pa', po', fn', hk'⟩ := h4 d hd
    rw [hk'] at hqk
    injection hqk with _ e2 _ _ _
    exact e2.symm
  · exact inv q' hold hqa o sc pa po fn hqk
  · rw [hqk] at w
    exact (nc_newKind_allocTasks w).2

/-- one kernel step (a block of the live process `p`) keeps `AtInvB` -/
theorem Sys.AtInvB.step_B (N : NcCfgB env s0) {k k1 : SimState} (hr : SimReach env s0 k)
    (hreach : ReachOk s0 k.st) (inv : AtInvB k.st) (hsn : ScNil k.st) {e : HEntry} {p : Proc}
    (hpk : k.peek = some e) (hpp : k.st.proc? e.pid = some p) (ha : p.alive = true)
    (hst : k1.st = (k.st.resume e.pid (env.oracle k.st)).1) : AtInvB k1.st := by
  have hw := N.hw
  have hinv := hr.l3inv hw
  have hs := hinv.sinv
  have hpw := hs.pw
  have hu := hr.urg hw
  have hsi := hr.startInv hw N.hb0.1
  obtain ⟨hpm, hpid⟩ := proc?_some hpp
  obtain ⟨parts, minPer, split, halg0⟩ := N.alg
  have halg : k.st.alg = .batch parts minPer split := (reach_alg hreach.toReach).trans halg0
  rw [hst]
  generalize env.oracle k.st = orc
  have hm := nco_resume_procs hpw hpp ha orc
  obtain ⟨_, hcl', _⟩ := il_resume_fields k.st e.pid orc p hpp ha
  have hP0 : ∀ q' ∈ (k.st.resume e.pid orc).1.procs, q'.pc = 0 →
      (q' ∈ k.st.procs ∧ q'.pid ≠ e.pid) ∨
      (k.st.nextPid ≤ q'.pid ∧ NewKind p.k q'.k ∧ q' ∈ (k.st.block p orc).1.procs ∧ q' ∉ k.st.procs) := by
    intro q' hq' h0
    rcases hm q' hq' with rfl | h | ⟨_, _, w1, w2, w3, w4⟩
    · simp at h0
    · exact Or.inl h
    · exact Or.inr ⟨w1, w2, w3, w4⟩
  have hnormal : 1 ≤ p.pc → ∀ q ∈ k.st.procs, q.alive = true → q.pc = 0 → False := by
    intro hpc q hq hqa hq0
    have := hu.normal hinv.heap hpk hpp ha hpc q hq hqa
    omega
  -- if an old scheduler-side process is pending, `p` is before its first block and of such a kind
  have hT : ∀ q ∈ k.st.procs, q.alive = true → q.pc = 0 → q.k.ncoSched = true →
      p.pc = 0 ∧ p.k.ncoOk3 = true := by
    intro q hq hqa hq0 hqt
    have hp0 := hu.first hinv.heap hpk hpp ha hq hqa hq0
    exact ⟨hp0, inv.ok q hq hqa hq0 hqt p hpm ha hp0⟩
  -- old pending processes when `p` is of another kind
  have holdBad : p.k.ncoOk3 = false →
      ∀ q ∈ k.st.procs, q.alive = true → q.pc = 0 → q.k.ncoSched = false := by
    intro hbad q hq hqa hq0
    cases hn : q.k.ncoSched with
    | false => rfl
    | true =>
      have := (hT q hq hqa hq0 hn).2
      rw [hbad] at this; cases this
  -- a generic case: no scheduler-side process is pending afterwards
  have hnone : (∀ q ∈ k.st.procs, q.alive = true → q.pc = 0 → q.pid ≠ e.pid → q.k.ncoSched = false) →
      (∀ c, NewKind p.k c → c.ncoSched = false) → AtInvB (k.st.resume e.pid orc).1 := by
    intro hold hnew
    apply AtInvB.of_noTrig
    intro q' hq' hqa h0
    rcases hP0 q' hq' h0 with ⟨h, hne⟩ | ⟨_, w, _, _⟩
    · exact hold q' h hqa h0 hne
    · exact hnew _ w
  have hbad : p.k.ncoOk3 = false → (∀ c, NewKind p.k c → c.ncoSched = false) →
      AtInvB (k.st.resume e.pid orc).1 :=
    fun h1 h2 => hnone (fun q hq hqa hq0 _ => holdBad h1 q hq hqa hq0) h2
  cases hk : p.k with
  | monitor => exact hbad (by rw [hk]; rfl) (fun c w => by rw [hk] at w; simp [NewKind] at w)
  | clusterLoop => exact hbad (by rw [hk]; rfl) (fun c w => by rw [hk] at w; simp [NewKind] at w)
  | ingestStream o tl => exact hbad (by rw [hk]; rfl) (fun c w => by rw [hk] at w; simp [NewKind] at w)
  | hot2cold cur => exact hbad (by rw [hk]; rfl) (fun c w => by rw [hk] at w; simp [NewKind] at w)
  | cold2hot cur => exact hbad (by rw [hk]; rfl) (fun c w => by rw [hk] at w; simp [NewKind] at w)
  | telescope =>
    refine hbad (by rw [hk]; rfl) (fun c w => ?_)
    rw [hk] at w; simp only [NewKind] at w
    obtain ⟨o, rfl⟩ := w; rfl
  | bufferLoop =>
    refine hbad (by rw [hk]; rfl) (fun c w => ?_)
    rw [hk] at w; simp only [NewKind] at w
    rcases w with rfl | rfl <;> rfl
  | allocIngest o tl =>
    refine hbad (by rw [hk]; rfl) (fun c w => ?_)
    rw [hk] at w; simp only [NewKind] at w
    rcases w with ⟨d, rfl⟩ | rfl <;> rfl
  | provIngest o d =>
    refine hbad (by rw [hk]; rfl) (fun c w => ?_)
    rw [hk] at w; simp only [NewKind] at w
    obtain ⟨t, m, rfl⟩ := w; rfl
  | doWork t m preds ph tot =>
    -- a task body: the cluster is not touched, nothing is created
    have hclq : (k.st.resume e.pid orc).1.cl = k.st.cl := by
      rw [hcl', block_doWork orc hk, doWorkBlock_clq]
    refine inv.mono ?_ ?_
    · intro q' hq' _ h0
      rcases hP0 q' hq' h0 with ⟨h, _⟩ | ⟨_, w, _, _⟩
      · exact Or.inl h
      · rw [hk] at w; simp [NewKind] at w
    · intro q' _ _ _ _ t' m' preds' obs' ret' _ hm'
      rw [hclq]; exact hm'
  | schedLoop =>
    have hold := holdBad (by rw [hk]; rfl)
    rcases blockEvents_schedLoop (s := k.st) orc hk with ⟨_, hprocs, _⟩ | ⟨oid, ob, _, hnext, _, _, _, hprocs⟩
    · -- nothing created
      apply AtInvB.of_noTrig
      intro q' hq' hqa h0
      rcases hP0 q' hq' h0 with ⟨h, _⟩ | ⟨_, _, w3, w4⟩
      · exact hold q' h hqa h0
      · rw [hprocs] at w3; exact absurd w3 w4
    · -- an `allocate_tasks` process is created: the loop is past its first block
      have hpc1 : 1 ≤ p.pc := by
        cases hpc : p.pc with
        | succ j => omega
        | zero =>
          exfalso
          have hstored := hsi.sch0 p hpm ha hpc hk
          unfold Buffer.nextForProcessing at hnext
          rw [hstored] at hnext
          simp at hnext
      have hnewq : ∀ q' ∈ (k.st.block p orc).1.procs, q' ∉ k.st.procs →
          q' = { pid := k.st.nextPid, k := .allocTasks oid [] [] [] false, wake := p.wake } := by
        intro q' hq' hnot
        rw [hprocs] at hq'
        rcases List.mem_append.mp hq' with h | h
        · exact absurd h hnot
        · simpa using h
      have hall : ∀ q' ∈ (k.st.resume e.pid orc).1.procs, q'.alive = true → q'.pc = 0 →
          q' = { pid := k.st.nextPid, k := .allocTasks oid [] [] [] false, wake := p.wake } := by
        intro q' hq' hqa h0
        rcases hP0 q' hq' h0 with ⟨h, _⟩ | ⟨_, _, w3, w4⟩
        · exact absurd h0 (fun h0 => hnormal hpc1 q' h hqa h0)
        · exact hnewq q' w3 w4
      refine ⟨?_, ?_, ?_, ?_⟩
      · intro q hq hqa h0 t m preds obs ret hqk
        rw [hall q hq hqa h0] at hqk; cases hqk
      · intro q hq q' hq' hqa h0 hqa' h0' m hm _
        rw [hall q hq hqa h0] at hm; cases hm
      · intro q hq hqa h0 _ q' hq' hqa' h0'
        rw [hall q' hq' hqa' h0']; rfl
      · intro q hq q' hq' hqa h0 hqa' h0' _ _
        rw [hall q hq hqa h0, hall q' hq' hqa' h0']
  | allocTask t m preds obs ing ret =>
    cases ing with
    | true =>
      refine hbad (by rw [hk]; rfl) (fun c w => ?_)
      rw [hk] at w; simp only [NewKind] at w
      rw [w]; rfl
    | false =>
      -- a scheduler-side allocation process: it takes its own machine only
      refine inv.mono ?_ ?_
      · intro q' hq' _ h0
        rcases hP0 q' hq' h0 with ⟨h, _⟩ | ⟨_, w, _, _⟩
        · exact Or.inl h
        · rw [hk] at w; simp only [NewKind] at w
          rw [w]; exact Or.inr ⟨rfl, rfl⟩
      · intro q' hq' hqa h0 hold t' m' preds' obs' ret' hqk' hav
        have hne : q'.pid ≠ e.pid := by
          rcases hP0 q' hq' h0 with ⟨_, h⟩ | ⟨_, _, _, w4⟩
          · exact h
          · exact absurd hold w4
        have hp0 : p.pc = 0 := hu.first hinv.heap hpk hpp ha hold hqa h0
        have hmm : m' ≠ m := by
          intro hmm
          apply hne
          have := inv.dist q' hold p hpm hqa h0 ha hp0 m' (lb_ncoB_of_kind hqk') (by rw [hk, hmm]; rfl)
          omega
        rw [hcl', block_allocTask orc hk]
        exact lb_allocTaskBlock_idle k.st p.wake t m preds obs false ret obs' m' hav hmm
  | allocTasks o sc pa po fin =>
    obtain ⟨U, hU⟩ := hs.ci
    have hsc : sc = [] := hsn p hpm ha o sc pa po fin hk
    subst hsc
    obtain ⟨new, hprocs, hnd, hnew, _⟩ :=
      nco_allocTasksBlock_B k.st p.wake orc p.pc o pa po fin hU.inv halg
    rw [← block_allocTasks orc hk] at hprocs hnew
    have hpT : p.k.ncoIsATs = true := by rw [hk]; rfl
    -- the other old pending processes are task bodies
    have hold : ∀ q ∈ k.st.procs, q.alive = true → q.pc = 0 → q.pid ≠ e.pid →
        q.k.ncoSched = false ∧ q.k.ncoOk3 = true := by
      intro q hq hqa hq0 hne
      have hp0 : p.pc = 0 := hu.first hinv.heap hpk hpp ha hq hqa hq0
      constructor
      · cases hn : q.k.ncoSched with
        | false => rfl
        | true =>
          exfalso
          apply hne
          have := inv.one p hpm q hq ha hp0 hqa hq0 hpT hn
          omega
      · exact inv.ok p hpm ha hp0 (PK.ncoIsATs_sched hpT) q hq hqa hq0
    have hnewq : ∀ q' ∈ (k.st.block p orc).1.procs, q' ∉ k.st.procs → q' ∈ new := by
      intro q' hq' hnot
      rw [hprocs] at hq'
      rcases List.mem_append.mp hq' with h | h
      · exact absurd h hnot
      · exact h
    refine ⟨?_, ?_, ?_, ?_⟩
    · intro q hq hqa h0 t' m' preds' obs' ret' hqk
      rcases hP0 q hq h0 with ⟨h, hne⟩ | ⟨_, _, w3, w4⟩
      · have := (hold q h hqa h0 hne).1
        rw [PK.ncoB_sched (lb_ncoB_of_kind hqk)] at this; cases this
      · obtain ⟨t2, m2, cross, hk2, hidle⟩ := hnew q (hnewq q w3 w4)
        rw [hk2] at hqk
        injection hqk with _ e2 _ e4 _ _
        rw [hcl', ← e2, ← e4]
        exact hidle
    · intro q hq q' hq' hqa h0 hqa' h0' m hm hm'
      rcases hP0 q hq h0 with ⟨h, hne⟩ | ⟨_, _, w3, w4⟩
      · have := (hold q h hqa h0 hne).1
        rw [PK.ncoB_sched hm] at this; cases this
      · rcases hP0 q' hq' h0' with ⟨h', hne'⟩ | ⟨_, _, w3', w4'⟩
        · have := (hold q' h' hqa' h0' hne').1
          rw [PK.ncoB_sched hm'] at this; cases this
        · have hq1 := hnewq q w3 w4
          have hq2 := hnewq q' w3' w4'
          obtain ⟨t1, m1, c1, hk1, _⟩ := hnew q hq1
          obtain ⟨t2, m2, c2, hk2, _⟩ := hnew q' hq2
          have e1 : q.k.ncoMach = q'.k.ncoMach := by
            rw [hk1] at hm; rw [hk2] at hm'
            simp only [PK.ncoB, Bool.false_eq_true, if_false, Option.some.injEq] at hm hm'
            rw [hk1, hk2]
            simp only [PK.ncoMach, Option.some.injEq]
            rw [hm, hm']
          have := nodup_map_inj (fun q : Proc => q.k.ncoMach) new hnd q q' hq1 hq2 e1
          rw [this]
    · intro q hq hqa h0 _ q' hq' hqa' h0'
      rcases hP0 q' hq' h0' with ⟨h', hne'⟩ | ⟨_, _, w3', w4'⟩
      · exact (hold q' h' hqa' h0' hne').2
      · obtain ⟨t2, m2, c2, hk2, _⟩ := hnew q' (hnewq q' w3' w4')
        rw [hk2]; rfl
    · intro q hq q' hq' hqa h0 hqa' h0' ht _
      rcases hP0 q hq h0 with ⟨h, hne⟩ | ⟨_, _, w3, w4⟩
      · have := (hold q h hqa h0 hne).1
        rw [PK.ncoIsATs_sched ht] at this; cases this
      · obtain ⟨t1, m1, c1, hk1, _⟩ := hnew q (hnewq q w3 w4)
        rw [hk1] at ht; cases ht

theorem nco_atInv_B (N : NcCfgB env s0) (n : Nat) (hc : (simAt env s0 n).st.crashed = none) :
    AtInvB (simAt env s0 n).st ∧ ScNil (simAt env s0 n).st := by
  induction n with
  | zero => exact ⟨AtInvB.init s0 N.hw, ScNil.init s0 N.hw⟩
  | succ n ih =>
    obtain ⟨hcn, hreach, e, p, hpk, hpp, ha, hst⟩ := nco_step_ctx_B N n hc
    obtain ⟨i1, i2⟩ := ih hcn
    exact ⟨i1.step_B N (simAt_reach env s0 n) hreach i2 hpk hpp ha hst,
      i2.step_B N (simAt_reach env s0 n) hreach hpp ha hst⟩

/-- **NC-A3, BatchProcessing.**  In a run that has not raised, the first block of a scheduler-side
allocation process finds its machine idle in the reservation of the observation the task is allocated
for: `allocate_task_to_cluster` finds the machine eligible. -/
theorem nc_allocTask_idle_B (N : NcCfgB env s0) (n : Nat) (hc : (simAt env s0 n).st.crashed = none)
    {e : HEntry} {p : Proc} (hpk : (simAt env s0 n).peek = some e)
    (hpp : (simAt env s0 n).st.proc? e.pid = some p) (ha : p.alive = true) {t : Tid} {m : Mid}
    {preds : List Tid} {obs : Option Oid} {ret : Nat} (hk : p.k = .allocTask t m preds obs false ret)
    (hpc : p.pc = 0) : m ∈ (simAt env s0 n).st.cl.idleOf obs := by
  have _ := hpk
  obtain ⟨hpm, _⟩ := proc?_some hpp
  exact (nco_atInv_B N n hc).1.avail p hpm ha hpc t m preds obs ret hk

end Topsim
