/-
  Cross5 — the allocation time in the recorded start.  `CrossSeg b t m cross now s`:
  process `b` is the body of `t` on `m` with cross-machine list `cross`; while it has not
  run it is due at `now`; while it waits for its inputs it is due at
  `startTime now bw arrivals`; once it has started the record of `t` carries
  `ast = startTime now bw arrivals`.  Preserved by every block of a run that has not
  crashed — so `now`, the time at which the body was created, is the `alloc` of
  `reach_recorded_start`.
-/
import TopsimProofs.Cross4

namespace Topsim
namespace Sys

open Cluster

/-! ### the stamps the start formula reads -/

/-- for the tasks in `S`: recorded finishes as `_wait_for_transfer` reads them, recorded start and
edge volumes are the same in `Y` as in `s` -/
structure CrossStamps (S : Tid → Prop) (s Y : Sys) : Prop where
  aft : ∀ q, S q → aftOf Y q = aftOf s q
  keepRec : ∀ t r, S t → s.task? t = some r → ∃ r', Y.task? t = some r' ∧ r'.ast = r.ast ∧ r'.io = r.io

theorem CrossStamps.of_taskStep {s Y : Sys} (S : Tid → Prop) (hT : TaskStep s Y) : CrossStamps S s Y :=
  ⟨fun q _ => aftOf_step hT q, fun t r _ hr => by
    obtain ⟨r', h1, hk⟩ := hT.fwd t r hr
    exact ⟨r', h1, hk.ast, hk.shape.io⟩⟩

theorem CrossStamps.of_eq {s Y : Sys} (S : Tid → Prop) (h : Y.tasks = s.tasks) : CrossStamps S s Y :=
  CrossStamps.of_taskStep S (TaskStep.of_eq h)

/-- one record rewritten: every other task keeps its stamps -/
theorem CrossStamps.updTask_other (s : Sys) (t1 : Tid) (f : TaskRec → TaskRec) (hid : ∀ r, (f r).id = r.id)
    (Y : Sys) (hY : Y.tasks = (s.updTask t1 f).tasks) : CrossStamps (· ≠ t1) s Y := by
  have hq : ∀ q, q ≠ t1 → Y.task? q = s.task? q := by
    intro q hq
    have : Y.task? q = (s.updTask t1 f).task? q := by unfold task?; rw [hY]
    rw [this]; exact task?_updTask_ne s f hid hq
  constructor
  · intro q hq'; unfold aftOf; rw [hq q hq']
  · intro t r ht hr; exact ⟨r, by rw [hq t ht]; exact hr, rfl, rfl⟩

/-- one record rewritten without touching its stamps -/
theorem CrossStamps.updTask_keep (s : Sys) (t1 : Tid) (f : TaskRec → TaskRec)
    (hf : ∀ r, (f r).id = r.id ∧ (f r).ast = r.ast ∧ (f r).aft = r.aft ∧ (f r).io = r.io)
    (Y : Sys) (hY : Y.tasks = (s.updTask t1 f).tasks) (S : Tid → Prop) : CrossStamps S s Y := by
  have hq : ∀ q, Y.task? q = (s.task? q).map (fun r => if r.id = t1 then f r else r) := by
    intro q
    have : Y.task? q = (s.updTask t1 f).task? q := by unfold task?; rw [hY]
    rw [this]; exact task?_updTask s t1 q f (fun r => (hf r).1)
  constructor
  · intro q _
    unfold aftOf
    rw [hq q]
    cases s.task? q with
    | none => rfl
    | some r =>
      simp only [Option.map_some]
      split
      · rw [(hf r).2.2.1]
      · rfl
  · intro t r _ hr
    rw [hq t, hr]
    simp only [Option.map_some]
    refine ⟨_, rfl, ?_⟩
    split
    · exact ⟨(hf r).2.1, (hf r).2.2.2⟩
    · exact ⟨rfl, rfl⟩

/-! ### the segment invariant -/

/-- process `b` is the body of `t` on `m`, created at `now` -/
def CrossSeg (b : Nat) (t : Tid) (m : Mid) (cross : List Tid) (now : Time) (s : Sys) : Prop :=
  ∃ d ∈ s.procs, d.pid = b ∧ ∃ ph tot, d.k = .doWork t m cross ph tot ∧
    (ph = 0 → d.wake = now) ∧
    (ph = 1 → ∃ r mm, s.task? t = some r ∧ s.machine? m = some mm ∧
      d.wake = startTime now mm.bw (crossArr s r cross)) ∧
    (2 ≤ ph → ∃ r mm, s.task? t = some r ∧ s.machine? m = some mm ∧
      r.ast = some (startTime now mm.bw (crossArr s r cross)))

theorem CrossSeg.core {b : Nat} {t : Tid} {m : Mid} {cross : List Tid} {now : Time} {a c : Sys}
    (h : CrossSeg b t m cross now a) (e : Core8 a c) (hm : c.machines = a.machines) :
    CrossSeg b t m cross now c := by
  have ht : ∀ x, c.task? x = a.task? x := fun x => by unfold task?; rw [e.tasks]
  have hc : ∀ r, crossArr c r cross = crossArr a r cross :=
    fun r => crossArr_step (TaskStep.of_eq e.tasks) (TKeep.refl r) cross
  obtain ⟨d, hd, hdb, ph, tot, hdk, h0, h1, h2⟩ := h
  refine ⟨d, by rw [e.procs]; exact hd, hdb, ph, tot, hdk, h0, ?_, ?_⟩
  · intro hp1
    obtain ⟨r, mm, g1, g2, g3⟩ := h1 hp1
    exact ⟨r, mm, by rw [ht]; exact g1, by rw [machine?_congr hm]; exact g2, by rw [hc]; exact g3⟩
  · intro hp2
    obtain ⟨r, mm, g1, g2, g3⟩ := h2 hp2
    exact ⟨r, mm, by rw [ht]; exact g1, by rw [machine?_congr hm]; exact g2, by rw [hc]; exact g3⟩

/-- a block of another process that keeps the stamps of `t` and of the tasks of `cross` -/
theorem cross_seg_keep {s Y : Sys} {S : Tid → Prop} (hst : CrossStamps S s Y) (hm : Y.machines = s.machines)
    {b : Nat} {t : Tid} {m : Mid} {cross : List Tid} {now : Time} (hSt : S t) (hSc : ∀ x ∈ cross, S x)
    {d : Proc} (_hd : d ∈ s.procs) (hdY : d ∈ Y.procs) (hdb : d.pid = b) {ph tot : Nat}
    (hdk : d.k = .doWork t m cross ph tot)
    (h0 : ph = 0 → d.wake = now)
    (h1 : ph = 1 → ∃ r mm, s.task? t = some r ∧ s.machine? m = some mm ∧
      d.wake = startTime now mm.bw (crossArr s r cross))
    (h2 : 2 ≤ ph → ∃ r mm, s.task? t = some r ∧ s.machine? m = some mm ∧
      r.ast = some (startTime now mm.bw (crossArr s r cross))) :
    CrossSeg b t m cross now Y := by
  have harr : ∀ r r' : TaskRec, r'.io = r.io → crossArr Y r' cross = crossArr s r cross :=
    fun r r' hio => crossArr_congr hio cross (fun x hx => hst.aft x (hSc x hx))
  refine ⟨d, hdY, hdb, ph, tot, hdk, h0, ?_, ?_⟩
  · intro hp1
    obtain ⟨r, mm, g1, g2, g3⟩ := h1 hp1
    obtain ⟨r', k1, _, k3⟩ := hst.keepRec t r hSt g1
    exact ⟨r', mm, k1, by rw [machine?_congr hm]; exact g2, by rw [harr r r' k3]; exact g3⟩
  · intro hp2
    obtain ⟨r, mm, g1, g2, g3⟩ := h2 hp2
    obtain ⟨r', k1, k2, k3⟩ := hst.keepRec t r hSt g1
    exact ⟨r', mm, k1, by rw [machine?_congr hm]; exact g2, by rw [k2, harr r r' k3]; exact g3⟩

/-- the body's own block -/
theorem cross_seg_own {s : Sys} (hs : SInv s) (hph : PH s) {p : Proc} (hp : p ∈ s.procs) (ha : p.alive = true)
    {t : Tid} {m : Mid} {cross : List Tid} {ph tot : Nat} {now : Time}
    (hk : p.k = .doWork t m cross ph tot) (hw : IsWf t)
    (h0 : ph = 0 → p.wake = now)
    (h1 : ph = 1 → ∃ r mm, s.task? t = some r ∧ s.machine? m = some mm ∧
      p.wake = startTime now mm.bw (crossArr s r cross))
    (h2 : 2 ≤ ph → ∃ r mm, s.task? t = some r ∧ s.machine? m = some mm ∧
      r.ast = some (startTime now mm.bw (crossArr s r cross)))
    (X : Sys × PK × Yield) (hsh : DwShape s p.wake t m cross ph tot X) (hnr : ∀ e, X.2.2 ≠ .raised e) :
    ∃ ph' tot', X.2.1 = .doWork t m cross ph' tot' ∧
      (ph' = 0 → (fin X.2.1 X.2.2 p.wake p).wake = now) ∧
      (ph' = 1 → ∃ r mm, X.1.task? t = some r ∧ X.1.machine? m = some mm ∧
        (fin X.2.1 X.2.2 p.wake p).wake = startTime now mm.bw (crossArr X.1 r cross)) ∧
      (2 ≤ ph' → ∃ r mm, X.1.task? t = some r ∧ X.1.machine? m = some mm ∧
        r.ast = some (startTime now mm.bw (crossArr X.1 r cross))) := by
  have hnofin : ¬ FinT s t := finT_no_dw hs hp ha hk
  have hcok := hph.dwCross p hp t m cross ph tot hk hw
  have hxt : ∀ x ∈ cross, x ≠ t := fun x hx e => hnofin (e ▸ (hcok x hx).2.1)
  -- arrivals after the record of `t` has been rewritten
  have harr : ∀ (f : TaskRec → TaskRec) (hid : ∀ r, (f r).id = r.id) (Y : Sys)
      (hY : Y.tasks = (s.updTask t f).tasks) (r r' : TaskRec), r'.io = r.io →
      crossArr Y r' cross = crossArr s r cross := by
    intro f hid Y hY r r' hio
    have hst := CrossStamps.updTask_other s t f hid Y hY
    exact crossArr_congr hio cross (fun x hx => hst.aft x (hxt x hx))
  cases hsh with
  | raised ph' e => exact absurd rfl (hnr e)
  | wait w hph0 hne hw' =>
    obtain ⟨r, mm, hr, hmm, hwe⟩ := transferWait_ok hw'
    refine ⟨1, tot, rfl, fun e => absurd e (by simp), fun _ => ⟨r, mm, hr, hmm, ?_⟩, fun e => absurd e (by simp)⟩
    show p.wake + w = startTime now mm.bw (crossArr s r cross)
    rw [← h0 hph0, startTime_cross s r cross hne, hwe]
  | start r mm dur tot' hph' hr hmm =>
    refine ⟨2, tot', rfl, fun e => absurd e (by simp), fun e => absurd e (by simp), fun _ => ?_⟩
    refine ⟨dwStartF p.wake dur r, mm, ?_, hmm, ?_⟩
    · show (s.updTask t (dwStartF p.wake dur)).task? t = some _
      exact task?_updTask_eq s (dwStartF p.wake dur) (fun _ => rfl) hr
    · have hA := harr (dwStartF p.wake dur) (fun _ => rfl)
        ({ (s.updTask t (dwStartF p.wake dur)) with starts := s.starts ++ [t], active := s.active ++ [(m, t)] } : Sys)
        rfl r (dwStartF p.wake dur r) rfl
      show some p.wake = some (startTime now mm.bw (crossArr
        ({ (s.updTask t (dwStartF p.wake dur)) with starts := s.starts ++ [t], active := s.active ++ [(m, t)] } : Sys)
        (dwStartF p.wake dur r) cross))
      rw [hA]
      rcases hph' with e | ⟨e, hc0⟩
      · obtain ⟨r0, mm0, g1, g2, g3⟩ := h1 e
        rw [hr] at g1; injection g1 with g1; subst g1
        rw [hmm] at g2; injection g2 with g2; subst g2
        rw [g3]
      · subst hc0
        rw [crossArr_nil, h0 e]
        simp [startTime]
  | finish hph2 =>
    refine ⟨3, tot, rfl, fun e => absurd e (by simp), fun e => absurd e (by simp), fun _ => ?_⟩
    obtain ⟨r, mm, g1, g2, g3⟩ := h2 hph2
    have hspec := dwEndF_spec p.wake tot r
    refine ⟨dwEndF p.wake tot r, mm, ?_, g2, ?_⟩
    · show (s.updTask t (dwEndF p.wake tot)).task? t = some _
      exact task?_updTask_eq s (dwEndF p.wake tot) (fun r => (dwEndF_spec p.wake tot r).1) g1
    · have hA := harr (dwEndF p.wake tot) (fun r => (dwEndF_spec p.wake tot r).1)
        ({ (s.updTask t (dwEndF p.wake tot)) with active := s.active.erase (m, t) } : Sys)
        rfl r (dwEndF p.wake tot r) hspec.2.2.1
      show (dwEndF p.wake tot r).ast = some (startTime now mm.bw (crossArr
        ({ (s.updTask t (dwEndF p.wake tot)) with active := s.active.erase (m, t) } : Sys)
        (dwEndF p.wake tot r) cross))
      rw [hA, hspec.2.2.2.1]
      exact g3

/-- one step of a run that does not crash -/
theorem cross_seg_step {s : Sys} (hs : SInv s) (hph : PH s) (hno : s.alg ≠ .oracle)
    {b : Nat} {t : Tid} {m : Mid} {cross : List Tid} {now : Time} (hw : IsWf t)
    (h : CrossSeg b t m cross now s) {pid : Nat} (hen : s.enabled pid) (orc : Oracle)
    (hc : (s.resume pid orc).1.crashed = none) : CrossSeg b t m cross now (s.resume pid orc).1 := by
  obtain ⟨p, hp, ha, hmin⟩ := hen
  obtain ⟨_, hnr⟩ := resume_nocrash s pid orc p hp ha hc
  obtain ⟨hpm, hpid⟩ := proc?_some hp
  subst hpid
  have hmX : (s.block p orc).1.machines = s.machines := block_machs s p orc
  refine CrossSeg.core ?_ (resume_core s p.pid orc p hp ha)
    ((resume_machs s p.pid orc).trans hmX.symm)
  obtain ⟨d, hd, hdb, ph, tot, hdk, h0, h1, h2⟩ := h
  have hself := cross_self_mem hs hpm ha hmin orc (fin (s.block p orc).2.1 (s.block p orc).2.2 p.wake)
  by_cases e : d.pid = p.pid
  · -- the body itself runs
    have : d = p := hs.pw.eq_of_pid hd hpm e
    subst this
    have hb : s.block d orc = s.doWorkBlock d.wake orc t m cross ph tot := by
      unfold block; simp only [hdk]
    have hsh := doWorkBlock_shape s d.wake orc t m cross ph tot
    rw [← hb] at hsh
    obtain ⟨ph', tot', hk', g0, g1, g2⟩ := cross_seg_own hs hph hpm ha hdk hw h0 h1 h2 (s.block d orc) hsh hnr
    exact ⟨_, hself, by rw [fin_pid]; exact hdb, ph', tot', by rw [fin_k]; exact hk', g0, g1, g2⟩
  · -- another process runs
    have hdY := cross_old_mem hs hpm ha hmin orc (fin (s.block p orc).2.1 (s.block p orc).2.2 p.wake) hd e
    have hcok := hph.dwCross d hd t m cross ph tot hdk hw
    have fromStamps : ∀ (S : Tid → Prop), CrossStamps S s (s.block p orc).1 → S t → (∀ x ∈ cross, S x) →
        CrossSeg b t m cross now
          ((s.block p orc).1.updProc p.pid (fin (s.block p orc).2.1 (s.block p orc).2.2 p.wake)) := by
      intro S hst hSt hSc
      have hst' : CrossStamps S s
          ((s.block p orc).1.updProc p.pid (fin (s.block p orc).2.1 (s.block p orc).2.2 p.wake)) :=
        ⟨hst.aft, hst.keepRec⟩
      exact cross_seg_keep hst' hmX hSt hSc hd hdY hdb hdk h0 h1 h2
    by_cases k2 : p.k.tag = "allocTask"
    · cases hk : p.k with
      | allocTask t1 m1 preds obs ing ret =>
        have hb : s.block p orc = s.allocTaskBlock p.wake t1 m1 preds obs ing ret := by
          unfold block; simp only [hk]
        refine fromStamps (fun _ => True) ?_ trivial (fun _ _ => trivial)
        rw [hb]
        rcases allocTaskBlock_cases s hs.pw p.wake t1 m1 preds obs ing ret with
          ⟨_, e, _, heq⟩ | ⟨_, _, heq⟩ | ⟨_, _, heq⟩ | ⟨_, _, e, _, heq⟩ | ⟨_, _, _, heq⟩ <;> rw [heq]
        · exact CrossStamps.of_eq _ rfl
        · refine CrossStamps.updTask_keep s t1 (fun r => { r with status := .scheduled })
            (fun _ => ⟨rfl, rfl, rfl, rfl⟩) _ ?_ _
          rfl
        · exact CrossStamps.of_eq _ rfl
        · exact CrossStamps.of_eq _ rfl
        · refine CrossStamps.updTask_keep s t1 (fun r => { r with status := .finished })
            (fun _ => ⟨rfl, rfl, rfl, rfl⟩) _ ?_ _
          rfl
      | _ => rw [hk] at k2; simp [PK.tag] at k2
    · by_cases k3 : p.k.tag = "doWork"
      · cases hk : p.k with
        | doWork t1 m1 preds ph1 tot1 =>
          have hb : s.block p orc = s.doWorkBlock p.wake orc t1 m1 preds ph1 tot1 := by
            unfold block; simp only [hk]
          have hne : t ≠ t1 := by
            intro e1
            subst e1
            exact e (hs.dg.dwUniq d hd p hpm _ _ _ _ _ _ _ _ _ hdk hk)
          have hnofin : ¬ FinT s t1 := finT_no_dw hs hpm ha hk
          refine fromStamps (· ≠ t1) ?_ hne (fun x hx e1 => hnofin (e1 ▸ (hcok x hx).2.1))
          rw [hb]
          rcases doWorkBlock_tasks s p.wake orc t1 m1 preds ph1 tot1 with h3 | ⟨f, hid, _, h3⟩
          · exact CrossStamps.of_eq _ h3
          · exact CrossStamps.updTask_other s t1 f hid _ h3
        | _ => rw [hk] at k3; simp [PK.tag] at k3
      · by_cases k4 : p.k.tag = "allocTasks"
        · cases hk : p.k with
          | allocTasks o sc pa po fn =>
            have hb : s.block p orc = s.allocTasksBlock p.wake orc p.pc o sc pa po fn := by
              unfold block; simp only [hk]
            have hq := quietB_allocTasksBlock s hno p.wake orc p.pc o sc pa po fn
            rw [← hb] at hq
            exact fromStamps (fun _ => True) (CrossStamps.of_taskStep _ hq.task) trivial (fun _ _ => trivial)
          | _ => rw [hk] at k4; simp [PK.tag] at k4
        · obtain ⟨hT, _⟩ := block_taskStep s p orc hno k2 k3
          exact fromStamps (fun _ => True) (CrossStamps.of_taskStep _ hT) trivial (fun _ _ => trivial)

end Sys
end Topsim
