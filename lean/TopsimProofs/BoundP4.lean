/-
  BoundP4 — (plan-following algorithms; the counterpart of Bound4) the arithmetic of the weights.
    * `boundP_serial env s0`     : the CORRECTED serial bound: `Sys.serialBound` in which the occupancy
                                    term of a node without work (`comp = 0`, `task_data = 0`) is the
                                    largest planned duration `eft - est` of its rows in the static plan
                                    (when that exceeds 1);
    * `boundP_v_le_total`        : the weight of the stages that have happened is at most the total weight;
    * `boundP_total_le_serial`   : latest planned start + total weight ≤ the corrected serial bound;
    * `boundP_serial_eq`         : the corrected bound IS `Sys.serialBound` when every row of a node
                                    without work plans at most one time step (`BoundPDurOk`);
    * `boundP_serial_ge`         : it is never smaller.
-/
import TopsimProofs.BoundP1

namespace Topsim

open KState Sys

/-- the serial bound for a run that follows the static plans of `env`: `Sys.serialBound` (same
constant `c`, same terms) except that the occupancy of a node WITHOUT work is its planned duration -/
def boundP_serial (env : SimEnv) (s0 : Sys) (c : Nat := 3) : Nat :=
  let slowCpu := (s0.machines.map (·.cpu)).foldl min (s0.machines.headD default).cpu
  let slowBw := (s0.machines.map (·.bw)).foldl min (s0.machines.headD default).bw
  let rate := (min s0.buf.hot.maxRate s0.buf.cold.maxRate).toNat
  let latest := (s0.obs.map (·.est)).foldl max 0
  latest + (s0.obs.map (fun o =>
    o.duration + 2 * Sys.ceilDiv (o.rate * o.duration).toNat rate + c +
    (o.wf.nodes.map (fun n =>
      max (max 1 (max (n.2.1 / slowCpu) (n.2.2 / slowBw)))
        (if n.2.1 = 0 ∧ n.2.2 = 0 then boundP_planDur env o n.1 else 0) +
      Sys.ceilDiv ((o.wf.edges.filter (fun e => e.2.1 = n.1)).map (·.2.2) |>.foldl max 0) slowBw + c)).foldl (· + ·) 0)).foldl (· + ·) 0

/-- every row of the static plans that names a node listed without work plans at most one time step
(what the harness's `StaticPlanning` does with `slack ≤ 1`; in particular true when every node
carries work) -/
def BoundPDurOk (env : SimEnv) (s0 : Sys) : Prop :=
  ∀ o ∈ s0.obs, ∀ n ∈ o.wf.nodes, n.2.1 = 0 → n.2.2 = 0 →
    ∀ x ∈ env.rowsOf o.id, x.1 = n.1 → x.2.2.2 - x.2.2.1 ≤ 1

open Classical in
theorem boundP_v_le_total (env : SimEnv) (s0 s : Sys) : boundP_V env s0 s ≤ boundP_VTotal env s0 := by
  unfold boundP_V boundP_VTotal
  apply bound_ar_sum_map_le
  intro o _
  have h : (o.wf.topo.map (fun node => if Sys.PAT o.id node s then boundP_WAT env s0 o node else 0)).sum ≤
      (o.wf.topo.map (fun node => boundP_WAT env s0 o node)).sum := by
    apply bound_ar_sum_map_le
    intro n _
    exact bound_ar_ite_le _ _
  have h1 := bound_ar_ite_le (Sys.PAst o.id s) (o.duration + 1)
  have h2 := bound_ar_ite_le (Sys.PQ o.id s) 1
  have h3 := bound_ar_ite_le (Sys.PRm o.id s) 1
  omega

theorem boundP_total_le_serial (env : SimEnv) (s0 : Sys) (htopo : ∀ o ∈ s0.obs, IsTopo o.wf) :
    boundLatest s0 + boundP_VTotal env s0 ≤ boundP_serial env s0 := by
  unfold boundP_serial boundP_VTotal
  simp only [bound_ar_foldl_sum]
  show boundLatest s0 + _ ≤ boundLatest s0 + _
  apply Nat.add_le_add_left
  apply bound_ar_sum_map_le
  intro o ho
  have ht := htopo o ho
  have h1 : (o.wf.topo.map (fun node => boundP_WAT env s0 o node)).sum ≤
      (o.wf.topo.map (fun node => (fun n : Nat × Nat × Nat =>
        max (max 1 (max (n.2.1 / boundSlowCpu s0) (n.2.2 / boundSlowBw s0)))
          (if n.2.1 = 0 ∧ n.2.2 = 0 then boundP_planDur env o n.1 else 0) +
        Sys.ceilDiv (((o.wf.edges.filter (fun e => e.2.1 = n.1)).map (·.2.2)).foldl max 0)
          (boundSlowBw s0) + 3)
        ((o.wf.nodes.find? (·.1 = node)).getD (node, 0, 0)))).sum := by
    apply bound_ar_sum_map_le
    intro node _
    have hf := bound_ar_attrs_fst o node
    unfold boundAttrs at hf
    beta_reduce
    rw [hf]
    unfold boundP_WAT boundP_Rt boundP_zdur boundRt boundWait boundAttrs
    omega
  have h2 := bound_ar_topo_sum (fun n : Nat × Nat × Nat =>
        max (max 1 (max (n.2.1 / boundSlowCpu s0) (n.2.2 / boundSlowBw s0)))
          (if n.2.1 = 0 ∧ n.2.2 = 0 then boundP_planDur env o n.1 else 0) +
        Sys.ceilDiv (((o.wf.edges.filter (fun e => e.2.1 = n.1)).map (·.2.2)).foldl max 0)
          (boundSlowBw s0) + 3) o.wf.nodes o.wf.topo ht.nodup (fun x hx => (ht.nodes x).1 hx)
  have h3 := Nat.le_trans h1 h2
  beta_reduce at h3
  unfold boundSlowCpu boundSlowBw at h3
  omega

/-! ### the corrected bound and `Sys.serialBound` -/

theorem boundP_foldl_max_le (l : List Nat) (a b : Nat) (ha : a ≤ b) (h : ∀ x ∈ l, x ≤ b) :
    l.foldl max a ≤ b := by
  induction l generalizing a with
  | nil => exact ha
  | cons x l ih =>
    simp only [List.foldl_cons]
    apply ih
    · have := h x List.mem_cons_self
      omega
    · exact fun y hy => h y (List.mem_cons_of_mem _ hy)

theorem boundP_planDur_le_one {env : SimEnv} {s0 : Sys} (h : BoundPDurOk env s0) {o : Obs} (ho : o ∈ s0.obs)
    {n : Nat × Nat × Nat} (hn : n ∈ o.wf.nodes) (h1 : n.2.1 = 0) (h2 : n.2.2 = 0) :
    boundP_planDur env o n.1 ≤ 1 := by
  unfold boundP_planDur
  apply boundP_foldl_max_le _ _ _ (by omega)
  intro x hx
  obtain ⟨y, hy, rfl⟩ := List.mem_map.mp hx
  obtain ⟨hy1, hy2⟩ := List.mem_filter.mp hy
  exact h o ho n hn h1 h2 y hy1 (by simpa using hy2)

/-- the corrected bound is `Sys.serialBound` when no row of a node without work plans more than one
time step -/
theorem boundP_serial_eq {env : SimEnv} {s0 : Sys} (h : BoundPDurOk env s0) (c : Nat) :
    boundP_serial env s0 c = Sys.serialBound s0 c := by
  unfold boundP_serial Sys.serialBound
  simp only
  congr 2
  apply List.map_congr_left
  intro o ho
  congr 2
  apply List.map_congr_left
  intro n hn
  congr 2
  by_cases hz : n.2.1 = 0 ∧ n.2.2 = 0
  · rw [if_pos hz]
    have := boundP_planDur_le_one h ho hn hz.1 hz.2
    omega
  · rw [if_neg hz]
    omega

/-- the corrected bound is never smaller than `Sys.serialBound` -/
theorem boundP_serial_ge (env : SimEnv) (s0 : Sys) (c : Nat) :
    Sys.serialBound s0 c ≤ boundP_serial env s0 c := by
  unfold boundP_serial Sys.serialBound
  simp only [bound_ar_foldl_sum]
  apply Nat.add_le_add_left
  apply bound_ar_sum_map_le
  intro o _
  apply Nat.add_le_add_left
  apply bound_ar_sum_map_le
  intro n _
  omega

end Topsim
