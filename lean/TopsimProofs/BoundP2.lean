/-
  BoundP2 — (plan-following algorithms; the counterpart of Bound2, same proofs) the algebra of the weight `boundP_V`: it only grows along a run, a stage that happens adds
  its weight, and if the weight did not change no stage happened.
-/
import TopsimProofs.BoundP1

namespace Topsim

open KState Sys

/-! ### the order on states -/

open Classical in
/-- the weight of one observation -/
noncomputable def boundP_VObs (env : SimEnv) (s0 s : Sys) (o : Obs) : Nat :=
  (if Sys.PAst o.id s then o.duration + 1 else 0) + (if Sys.PQ o.id s then 1 else 0) +
    (if Sys.PRm o.id s then 1 else 0) +
    (o.wf.topo.map (fun node => if Sys.PAT o.id node s then boundP_WAT env s0 o node else 0)).sum

theorem boundP_V_eq (env : SimEnv) (s0 s : Sys) : boundP_V env s0 s = (s0.obs.map (boundP_VObs env s0 s)).sum := rfl

open Classical in
theorem boundP_vobs_le {env : SimEnv} {s0 s s' : Sys} (h : BoundMono s0 s s') {o : Obs} (ho : o ∈ s0.obs) :
    boundP_VObs env s0 s o ≤ boundP_VObs env s0 s' o := by
  obtain ⟨h1, h2, h3, h4⟩ := h o ho
  unfold boundP_VObs
  have a1 := bound_ite_le h1 (o.duration + 1)
  have a2 := bound_ite_le h2 1
  have a3 := bound_ite_le h3 1
  have a4 := bound_sum_le o.wf.topo
    (fun node => if Sys.PAT o.id node s then boundP_WAT env s0 o node else 0)
    (fun node => if Sys.PAT o.id node s' then boundP_WAT env s0 o node else 0)
    (fun node hn => bound_ite_le (h4 node hn) _)
  omega

theorem boundP_v_mono_of {env : SimEnv} {s0 s s' : Sys} (h : BoundMono s0 s s') : boundP_V env s0 s ≤ boundP_V env s0 s' := by
  rw [boundP_V_eq, boundP_V_eq]
  exact bound_sum_le _ _ _ (fun o ho => boundP_vobs_le h ho)

open Classical in
/-- an admission adds `duration + 1` -/
theorem boundP_v_add_ast {env : SimEnv} {s0 s s' : Sys} (h : BoundMono s0 s s') {o : Obs} (ho : o ∈ s0.obs)
    (hn : ¬ Sys.PAst o.id s) (hy : Sys.PAst o.id s') : boundP_V env s0 s + (o.duration + 1) ≤ boundP_V env s0 s' := by
  rw [boundP_V_eq, boundP_V_eq]
  refine bound_sum_add_le _ _ _ (fun o ho => boundP_vobs_le h ho) ho ?_
  obtain ⟨_, h2, h3, h4⟩ := h o ho
  unfold boundP_VObs
  have a1 := bound_ite_flip hn hy (o.duration + 1)
  have a2 := bound_ite_le h2 1
  have a3 := bound_ite_le h3 1
  have a4 := bound_sum_le o.wf.topo
    (fun node => if Sys.PAT o.id node s then boundP_WAT env s0 o node else 0)
    (fun node => if Sys.PAT o.id node s' then boundP_WAT env s0 o node else 0)
    (fun node hn => bound_ite_le (h4 node hn) _)
  omega

open Classical in
/-- a hand-over adds 1 -/
theorem boundP_v_add_q {env : SimEnv} {s0 s s' : Sys} (h : BoundMono s0 s s') {o : Obs} (ho : o ∈ s0.obs)
    (hn : ¬ Sys.PQ o.id s) (hy : Sys.PQ o.id s') : boundP_V env s0 s + 1 ≤ boundP_V env s0 s' := by
  rw [boundP_V_eq, boundP_V_eq]
  refine bound_sum_add_le _ _ _ (fun o ho => boundP_vobs_le h ho) ho ?_
  obtain ⟨h1, _, h3, h4⟩ := h o ho
  unfold boundP_VObs
  have a1 := bound_ite_le h1 (o.duration + 1)
  have a2 := bound_ite_flip hn hy 1
  have a3 := bound_ite_le h3 1
  have a4 := bound_sum_le o.wf.topo
    (fun node => if Sys.PAT o.id node s then boundP_WAT env s0 o node else 0)
    (fun node => if Sys.PAT o.id node s' then boundP_WAT env s0 o node else 0)
    (fun node hn => bound_ite_le (h4 node hn) _)
  omega

open Classical in
/-- a removal adds 1 -/
theorem boundP_v_add_rm {env : SimEnv} {s0 s s' : Sys} (h : BoundMono s0 s s') {o : Obs} (ho : o ∈ s0.obs)
    (hn : ¬ Sys.PRm o.id s) (hy : Sys.PRm o.id s') : boundP_V env s0 s + 1 ≤ boundP_V env s0 s' := by
  rw [boundP_V_eq, boundP_V_eq]
  refine bound_sum_add_le _ _ _ (fun o ho => boundP_vobs_le h ho) ho ?_
  obtain ⟨h1, h2, _, h4⟩ := h o ho
  unfold boundP_VObs
  have a1 := bound_ite_le h1 (o.duration + 1)
  have a2 := bound_ite_le h2 1
  have a3 := bound_ite_flip hn hy 1
  have a4 := bound_sum_le o.wf.topo
    (fun node => if Sys.PAT o.id node s then boundP_WAT env s0 o node else 0)
    (fun node => if Sys.PAT o.id node s' then boundP_WAT env s0 o node else 0)
    (fun node hn => bound_ite_le (h4 node hn) _)
  omega

open Classical in
/-- the start of a workflow task adds `boundP_WAT` -/
theorem boundP_v_add_at {env : SimEnv} {s0 s s' : Sys} (h : BoundMono s0 s s') {o : Obs} (ho : o ∈ s0.obs) {node : Nat}
    (hnode : node ∈ o.wf.topo) (hn : ¬ Sys.PAT o.id node s) (hy : Sys.PAT o.id node s') :
    boundP_V env s0 s + boundP_WAT env s0 o node ≤ boundP_V env s0 s' := by
  rw [boundP_V_eq, boundP_V_eq]
  refine bound_sum_add_le _ _ _ (fun o ho => boundP_vobs_le h ho) ho ?_
  obtain ⟨h1, h2, h3, h4⟩ := h o ho
  unfold boundP_VObs
  have a1 := bound_ite_le h1 (o.duration + 1)
  have a2 := bound_ite_le h2 1
  have a3 := bound_ite_le h3 1
  have a4 := bound_sum_add_le o.wf.topo
    (fun node => if Sys.PAT o.id node s then boundP_WAT env s0 o node else 0)
    (fun node => if Sys.PAT o.id node s' then boundP_WAT env s0 o node else 0)
    (fun node hn => bound_ite_le (h4 node hn) _) hnode
    (w := boundP_WAT env s0 o node) (by rw [if_neg hn, if_pos hy]; omega)
  omega

theorem boundP_WAT_pos (env : SimEnv) (s0 : Sys) (o : Obs) (node : Nat) : 1 ≤ boundP_WAT env s0 o node := by
  unfold boundP_WAT; omega

/-- if the weight did not change, no stage happened -/
theorem boundP_v_eq_noflip {env : SimEnv} {s0 s s' : Sys} (h : BoundMono s0 s s') (he : boundP_V env s0 s' = boundP_V env s0 s) :
    ∀ o ∈ s0.obs, (Sys.PAst o.id s' → Sys.PAst o.id s) ∧ (Sys.PQ o.id s' → Sys.PQ o.id s) ∧
      (Sys.PRm o.id s' → Sys.PRm o.id s) ∧
      ∀ node ∈ o.wf.topo, Sys.PAT o.id node s' → Sys.PAT o.id node s := by
  intro o ho
  refine ⟨fun hy => ?_, fun hy => ?_, fun hy => ?_, fun node hnode hy => ?_⟩
  · apply Classical.byContradiction
    intro hn
    have := boundP_v_add_ast (env := env) h ho hn hy
    omega
  · apply Classical.byContradiction
    intro hn
    have := boundP_v_add_q (env := env) h ho hn hy
    omega
  · apply Classical.byContradiction
    intro hn
    have := boundP_v_add_rm (env := env) h ho hn hy
    omega
  · apply Classical.byContradiction
    intro hn
    have := boundP_v_add_at (env := env) h ho hnode hn hy
    have := boundP_WAT_pos env s0 o node
    omega

/-! ### along the run -/

section
variable {env : SimEnv} {s0 : Sys}

theorem boundP_run_mono (C : LivePCfg env s0) (K : LiveKernel env s0) {n m : Nat} (h : n ≤ m) :
    BoundMono s0 (simAt env s0 n).st (simAt env s0 m).st :=
  fun _ _ => ⟨fun hp => live_PAst_mono_P C K h hp, fun hp => live_PQ_mono_P C K h hp,
    fun hp => live_PRm_mono_P C K h hp, fun _ _ hp => live_PAT_mono_P C K h hp⟩

theorem boundP_v_mono (C : LivePCfg env s0) (K : LiveKernel env s0) {n m : Nat} (h : n ≤ m) :
    boundP_V env s0 (simAt env s0 n).st ≤ boundP_V env s0 (simAt env s0 m).st :=
  boundP_v_mono_of (boundP_run_mono C K h)

theorem boundP_lv_mono (C : LivePCfg env s0) (K : LiveKernel env s0) {n m : Nat} (h : n ≤ m) :
    boundP_LV env s0 n ≤ boundP_LV env s0 m := by
  unfold boundP_LV
  have := boundP_v_mono C K h
  exact_mod_cast Nat.add_le_add_left this _

end

end Topsim
