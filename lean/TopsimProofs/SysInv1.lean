/-
  SysInv1 — the two per-block facts (`allocTask_rejected`, `processOne_guard`)
  and the basic lemmas on the record/process tables of `Sys`.
-/
import TopsimModel.Reach
import TopsimProofs.ClusterSteps

namespace Topsim
namespace Sys

/-! ### field projections of the elementary state transformers -/

@[simp] theorem updTask_cl (s : Sys) (t f) : (s.updTask t f).cl = s.cl := rfl
@[simp] theorem updTask_procs (s : Sys) (t f) : (s.updTask t f).procs = s.procs := rfl
@[simp] theorem updTask_nextPid (s : Sys) (t f) : (s.updTask t f).nextPid = s.nextPid := rfl
@[simp] theorem updTask_obs (s : Sys) (t f) : (s.updTask t f).obs = s.obs := rfl
@[simp] theorem updTask_starts (s : Sys) (t f) : (s.updTask t f).starts = s.starts := rfl
@[simp] theorem updTask_active (s : Sys) (t f) : (s.updTask t f).active = s.active := rfl
@[simp] theorem updTask_admitted (s : Sys) (t f) : (s.updTask t f).admitted = s.admitted := rfl
@[simp] theorem updTask_alg (s : Sys) (t f) : (s.updTask t f).alg = s.alg := rfl
@[simp] theorem updTask_machines (s : Sys) (t f) : (s.updTask t f).machines = s.machines := rfl

@[simp] theorem spawn_cl (s : Sys) (k now) : (s.spawn k now).1.cl = s.cl := rfl
@[simp] theorem spawn_tasks (s : Sys) (k now) : (s.spawn k now).1.tasks = s.tasks := rfl
@[simp] theorem spawn_obs (s : Sys) (k now) : (s.spawn k now).1.obs = s.obs := rfl
@[simp] theorem spawn_starts (s : Sys) (k now) : (s.spawn k now).1.starts = s.starts := rfl
@[simp] theorem spawn_active (s : Sys) (k now) : (s.spawn k now).1.active = s.active := rfl
@[simp] theorem spawn_admitted (s : Sys) (k now) : (s.spawn k now).1.admitted = s.admitted := rfl
@[simp] theorem spawn_nextPid (s : Sys) (k now) : (s.spawn k now).1.nextPid = s.nextPid + 1 := rfl
@[simp] theorem spawn_procs (s : Sys) (k now) :
    (s.spawn k now).1.procs = s.procs ++ [{ pid := s.nextPid, k := k, wake := now }] := rfl
@[simp] theorem spawn_snd (s : Sys) (k now) : (s.spawn k now).2 = s.nextPid := rfl
@[simp] theorem spawn_machines (s : Sys) (k now) : (s.spawn k now).1.machines = s.machines := rfl

/-! ### `allocTask_rejected` -/

theorem allocEnd_after_ingestBegin (c : Cluster) (t : Tid) (m : Mid) (obs : Option Oid)
    (h : (c.allocBegin t m obs true).2 = none) :
    ((c.allocBegin t m obs true).1.allocEnd t m obs true).2 = none := by
  unfold Cluster.allocBegin at h ⊢
  by_cases ht : t ∈ c.running
  · simp [ht] at h
  · simp only [ht, if_false, if_true] at h ⊢
    by_cases hm : m ∈ c.ingest
    · simp [hm, Cluster.allocEnd]
    · simp [hm] at h

theorem allocTask_rejected (s : Sys) (now : Time) (t : Tid) (m : Mid) (preds : List Tid)
    (obs : Option Oid) (ing : Bool) (ret : Nat) (e : Err) (hnr : t ∉ s.cl.running)
    (h : (s.allocTaskBlock now t m preds obs ing ret).2.2 = .raised e)
    (_hU : ∃ U, Cluster.Inv s.cl U) :
    let s' := (s.allocTaskBlock now t m preds obs ing ret).1
    s'.starts = s.starts ∧ s'.active = s.active ∧ s'.cl = s.cl ∧ s'.procs = s.procs := by
  intro s'
  have hun := Cluster.allocBegin_err_unchanged s.cl t m obs ing
  have hend := allocEnd_after_ingestBegin s.cl t m obs
  revert s'
  unfold allocTaskBlock at h ⊢
  simp only [hnr, not_false_eq_true, if_true] at h ⊢
  generalize hr : s.cl.allocBegin t m obs ing = r at h hun hend ⊢
  obtain ⟨cl1, e1⟩ := r
  cases e1 with
  | some e' =>
    simp only at h ⊢
    have := hun e' rfl
    simp only at this
    subst this
    refine ⟨?_, ?_, ?_, ?_⟩ <;> first | rfl | trivial
  | none =>
    exfalso
    simp only at h
    cases ing with
    | false => simp at h
    | true =>
      simp only [if_true] at h
      rw [hr] at hend
      have hend' := hend rfl
      simp only at hend'
      split at h
      · simp only [spawn_cl, updTask_cl] at h
        generalize hr2 : cl1.allocEnd t m obs true = r2 at h hend'
        obtain ⟨cl2, e2⟩ := r2
        simp only at hend'
        subst hend'
        simp at h
      · simp at h

/-! ### `processOne_guard` -/

theorem processOne_guard (now : Time) (oid : Oid) (st : PcsSt) (t : Tid) (hok : st.err = none)
    (hsp : (processOne now oid st t).s.nextPid = st.s.nextPid + 1) :
    ∃ m r, dictGet st.schedule t = some m ∧ st.s.task? t = some r ∧ r.status = .unscheduled ∧
      m ∉ st.curr ∧ st.s.cl.isOccupied m = false ∧ (processOne now oid st t).curr = st.curr ++ [m] := by
  revert hsp
  unfold processOne
  simp only [hok]
  cases hm : dictGet st.schedule t with
  | none => simp
  | some m =>
    cases hr : st.s.task? t with
    | none => simp
    | some r =>
      simp only []
      cases hmm : st.s.machine? m with
      | none => simp
      | some mm =>
        simp only []
        by_cases hz : ((r.allocObj || r.planned != some m) = true ∧ (mm.cpu = 0 ∨ mm.bw = 0))
        · simp only [hz, if_true]; simp
        · simp only [hz, if_false]
          generalize hs1 : (if (r.allocObj || r.planned != some m) = true then
            st.s.updTask t (fun r => updateAllocation r mm) else st.s) = s1
          have h1 : s1.nextPid = st.s.nextPid := by subst hs1; split <;> rfl
          have h2 : s1.cl = st.s.cl := by subst hs1; split <;> rfl
          by_cases hocc : (st.curr.contains m = true ∨ s1.cl.isOccupied m = true)
          · simp only [hocc, if_true]; simp [h1]
          · simp only [hocc, if_false]
            by_cases hmiss : (r.preds.any fun p => !dictHas (dictSet st.pairs t m) p) = true
            · simp only [hmiss, if_true]; simp [h1]
            · simp only [hmiss]
              by_cases hst : r.status ≠ TStatus.unscheduled
              · rw [if_pos hst]; simp [h1]
              · rw [if_neg hst]
                intro _
                refine ⟨m, r, rfl, rfl, by simpa using hst, ?_, ?_, rfl⟩
                · intro hc; apply hocc; left; simpa using hc
                · rw [← h2]
                  cases hx : s1.cl.isOccupied m with
                  | false => rfl
                  | true => exact absurd (Or.inr hx) hocc

end Sys
end Topsim
