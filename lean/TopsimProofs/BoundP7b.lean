/-
  BoundP7b — (plan-following algorithms; the counterpart of Bound7b, same proofs) idle states (no worker process alive), part 2:
    * `boundP_idle_enabled`: an idle state that is not at `is_finished()` has an enabled poller;
    * `boundP_enabled_fires`: the block of an enabled poller in an idle state, due at or after the
      latest planned start, makes a stage happen (the weight `boundP_V` grows).
  The case analysis is that of `live_terminates` (Live13), at a single index; the fact that every
  admitted observation is FINISHED comes from `boundP_id_fin` (Bound7).
-/
import TopsimProofs.BoundP7

namespace Topsim

open KState Sys

section
variable {env : SimEnv} {s0 : Sys}

/-- **An idle state that is not at `is_finished()` has an enabled poller.** -/
theorem boundP_idle_enabled (C : LivePCfg env s0) (K : LiveKernel env s0) (n : Nat)
    (hq : (simAt env s0 n).st.NoWorker) (hnf : (simAt env s0 n).st.isFinished = false) :
    ∃ p ∈ (simAt env s0 n).st.procs, (simAt env s0 n).st.BoundEn p := by
  have Pt := liveParts_P C K
  have hfin := boundP_id_fin C K n hq
  by_cases hA : ∃ ob ∈ (simAt env s0 n).st.obs, ob.ast = none
  · -- (A) some observation has not been admitted: the telescope is alive
    obtain ⟨obA, hobA, hastA⟩ := hA
    obtain ⟨hobA?, _⟩ := live_obs?_mem_P C K n hobA
    have hw := (sim_otAst env s0 C.hw _ (K.reach n)).wait obA.id obA hobA? hastA
    obtain ⟨q, hqm, hqk, hqa⟩ := Pt.tel_alive n ⟨obA, hobA, by rw [hw]; simp⟩
    exact ⟨q, hqm, hqa, Or.inl ⟨hqk, obA, hobA, hastA⟩⟩
  · have hall : ∀ ob ∈ (simAt env s0 n).st.obs, ob.status = .finished :=
      fun ob hob => hfin ob hob (fun h => hA ⟨ob, hob, h⟩)
    by_cases hB1 : ∃ ob ∈ (simAt env s0 n).st.obs, ¬ Sys.PQ ob.id (simAt env s0 n).st
    · -- (B1) some observation has not been handed over: it is stored, the scheduler loop is alive
      obtain ⟨obB, hobB, hnq⟩ := hB1
      have hstored : obB.id ∈ (simAt env s0 n).st.buf.hot.stored := by
        rcases Pt.finished_stored n hobB (hall obB hobB) (fun q' hq' hqa' tl hk' =>
          (hq q' hq' hqa').2.2.1 (by rw [hk']; rfl)) with h | h
        · exact h
        · exact absurd h hnq
      obtain ⟨q, hq?, hqk, hqa⟩ := Pt.sched_alive n
      exact ⟨q, (proc?_some hq?).1, hqa, Or.inr (Or.inl ⟨hqk, List.ne_nil_of_mem hstored⟩)⟩
    · by_cases hB2 : ∃ ob ∈ (simAt env s0 n).st.obs, ¬ Sys.PRm ob.id (simAt env s0 n).st
      · -- (B2) some observation has not been removed: its `allocate_tasks` process is alive
        obtain ⟨obB, hobB, hnr⟩ := hB2
        have hpq : Sys.PQ obB.id (simAt env s0 n).st :=
          Classical.byContradiction (fun h => hB1 ⟨obB, hobB, h⟩)
        have hsch : obB.id ∈ (simAt env s0 n).st.buf.hot.scheduled := by
          rcases hpq with h | h
          · exact h
          · exact absurd h hnr
        obtain ⟨q, hqm, hqa, sc, pa, po, hqk⟩ := Pt.sched_has_proc n hsch
        exact ⟨q, hqm, hqa, Or.inr (Or.inr ⟨obB.id, sc, pa, po, hqk, hnr⟩)⟩
      · -- (B3) everything removed: the run is at `is_finished()`
        exfalso
        have hrm : ∀ ob ∈ (simAt env s0 n).st.obs, ob.id ∈ (simAt env s0 n).st.buf.hot.finished := by
          intro ob hob
          exact Classical.byContradiction (fun h => hB2 ⟨ob, hob, h⟩)
        have hqueue : (simAt env s0 n).st.queue = [] := by
          cases hqe : (simAt env s0 n).st.queue with
          | nil => rfl
          | cons o rest =>
            exfalso
            have hoq : o ∈ (simAt env s0 n).st.queue := by rw [hqe]; simp
            have hsch := Pt.queue_sched n hoq
            have hid := live_buf_ids_P C K n (Or.inr (Or.inl hsch))
            obtain ⟨ob, hob, hido, _⟩ := live_obs_rec_P C K n hid
            have hf := hrm ob hob
            rw [hido] at hf
            have hcnt := (live_bufi_P C K n).cnt o
            unfold locCount bufList at hcnt
            have c1 : 0 < (simAt env s0 n).st.buf.hot.scheduled.count o := List.count_pos_iff.mpr hsch
            have c2 : 0 < (simAt env s0 n).st.buf.hot.finished.count o := List.count_pos_iff.mpr hf
            simp only [List.count_append] at hcnt
            omega
        have := Pt.finished n hq (fun ob hob => ⟨hall ob hob, hrm ob hob⟩) hqueue
        rw [hnf] at this
        cases this

/-- **The block of an enabled poller in an idle state, after the latest planned start, makes a
stage happen.** -/
theorem boundP_enabled_fires (C : LivePCfg env s0) (K : LiveKernel env s0) (n : Nat)
    {e : HEntry} {p : Proc}
    (hpk : (simAt env s0 n).peek = some e) (hpp : (simAt env s0 n).st.proc? e.pid = some p)
    (hen : (simAt env s0 n).st.BoundEn p) (hq : (simAt env s0 n).st.NoWorker)
    (hdue : ((boundLatest s0 : Nat) : Time) ≤ p.wake) :
    boundP_V env s0 (simAt env s0 n).st < boundP_V env s0 (simAt env s0 (n + 1)).st := by
  have Pt := liveParts_P C K
  have hfin := boundP_id_fin C K n hq
  have hmono : BoundMono s0 (simAt env s0 n).st (simAt env s0 (n + 1)).st :=
    boundP_run_mono C K (Nat.le_succ n)
  obtain ⟨ha, hdis⟩ := hen
  rcases hdis with ⟨hk, hex⟩ | ⟨hk, hst⟩ | ⟨o, sc, pa, po, hk, hnr⟩
  · -- the telescope admits an observation
    have hdue' : ∀ ob ∈ (simAt env s0 n).st.obs, ob.ast = none → ((ob.est : Nat) : Time) ≤ p.wake := by
      intro ob hob _
      have hm : ob.stat ∈ s0.obs.map Obs.stat := by
        rw [← live_keep0_P C n]; exact List.mem_map_of_mem hob
      obtain ⟨o0, ho0, hst⟩ := List.mem_map.mp hm
      have hest : ob.est = o0.est := ((Sys.ot_stat_fields hst).2.1).symm
      have hle : ob.est ≤ boundLatest s0 := by rw [hest]; exact bound_id_le_latest ho0
      have : ((ob.est : Nat) : Time) ≤ ((boundLatest s0 : Nat) : Time) := by exact_mod_cast hle
      exact Rat.le_trans this hdue
    obtain ⟨o', ob0, ob1, a, h0, h0n, h1, h1a⟩ := Pt.admits n hpk hpp ha hk hq hfin hex hdue'
    have hid' := live_obs?_ids_P C n h0
    obtain ⟨obc, hobc, hidc⟩ := List.mem_map.mp hid'
    have hidc' : obc.id = o' := hidc
    have hflip : Sys.PAst obc.id (simAt env s0 (n + 1)).st := by
      rw [hidc']; exact ⟨ob1, a, h1, h1a⟩
    have hbefore : ¬ Sys.PAst obc.id (simAt env s0 n).st := by
      rw [hidc']
      rintro ⟨ob2, a2, h2, h3⟩
      rw [h0] at h2
      cases h2
      rw [h0n] at h3
      cases h3
    have := boundP_v_add_ast (env := env) hmono hobc hbefore hflip
    omega
  · -- the scheduler loop hands an observation over
    obtain ⟨o', ho', h1, h2⟩ := Pt.schedLoop_pops n hpk hpp ha hk hst
    have hid' := live_buf_ids_P C K n (Or.inl ho')
    obtain ⟨obc, hobc, hidc⟩ := List.mem_map.mp hid'
    have hidc' : obc.id = o' := hidc
    have := boundP_v_add_q (env := env) hmono hobc (by rw [hidc']; exact h1) (by rw [hidc']; exact h2)
    omega
  · -- the `allocate_tasks` process removes its observation or starts a task
    obtain ⟨f1, f2, _, f4, _⟩ := Pt.free n hq hfin
    have hav : (simAt env s0 n).st.cl.available ≠ [] := by
      intro h
      rw [h] at f4
      have := C.feas.2.2.1
      simp at f4
      omega
    have hq' : ∀ q' ∈ (simAt env s0 n).st.procs, q'.alive = true →
        q'.k.tag ≠ "allocTask" ∧ q'.k.tag ≠ "doWork" :=
      fun q' hq1 hq2 => ⟨(hq q' hq1 hq2).2.2.2.1, (hq q' hq1 hq2).2.2.2.2⟩
    rcases Pt.ats_progress n hpk hpp ha hk hnr hav ⟨f1, f2⟩ hq' with h | ⟨ob, hob, hid, node, hnode, h1, h2⟩
    · have hid' := live_buf_ids_P C K (n + 1) (Or.inr (Or.inr h))
      obtain ⟨obc, hobc, hidc⟩ := List.mem_map.mp hid'
      have hidc' : obc.id = o := hidc
      have hb : ¬ Sys.PRm obc.id (simAt env s0 n).st := by rw [hidc']; exact hnr
      have hy : Sys.PRm obc.id (simAt env s0 (n + 1)).st := by rw [hidc']; exact h
      have := boundP_v_add_rm (env := env) hmono hobc hb hy
      omega
    · have := boundP_v_add_at (env := env) hmono hob hnode (by rw [hid]; exact h1) (by rw [hid]; exact h2)
      have := boundP_WAT_pos env s0 ob node
      omega

end

end Topsim
