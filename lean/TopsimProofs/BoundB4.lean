/-
  BoundB4 — C05, the numeric clause for BatchProcessing: idle states (no worker process alive), part 1.
  Bound7 for `LiveCfgB`: with no worker process alive, every observation with a recorded start is
  FINISHED (`boundB_id_fin`); and Bound8's `boundB_ep_stored_step`.
-/
import TopsimProofs.BoundB1

namespace Topsim

open KState Sys

section
variable {env : SimEnv} {s0 : Sys}

theorem boundB_id_obs_rec (C : LiveCfgB env s0) (K : LiveKernel env s0) (n : Nat) {o : Oid}
    (ho : o ∈ s0.obs.map (·.id)) :
    ∃ ob, ob ∈ (simAt env s0 n).st.obs ∧ ob.id = o ∧ (simAt env s0 n).st.obs? o = some ob := by
  rw [← live_ids_B C n] at ho
  obtain ⟨ob, hob, hid⟩ := List.mem_map.mp ho
  refine ⟨ob, hob, hid, ?_⟩
  rw [← hid]
  exact obs?_of_mem (live_sinv_B C K n).eg.obsNodup hob

theorem boundB_id_sup (C : LiveCfgB env s0) (K : LiveKernel env s0) (n : Nat) :
    BoundIdSup (simAt env s0 n).st := by
  induction n with
  | zero =>
    intro ob hob hr
    have hst : (simAt env s0 0).st = s0.start := rfl
    rw [hst, start_obs s0] at hob
    rw [(C.hw.obsWaiting ob hob).1] at hr
    cases hr
  | succ n ih =>
    intro ob1 hob1 hr1
    have hob1? : (simAt env s0 (n + 1)).st.obs? ob1.id = some ob1 :=
      obs?_of_mem (live_sinv_B C K (n + 1)).eg.obsNodup hob1
    have hid := live_obs?_ids_B C (n + 1) hob1?
    obtain ⟨ob, hob, _, hob?⟩ := boundB_id_obs_rec C K n hid
    obtain ⟨e, p, hpk, hpp, ha, het, _, _⟩ := live_blk_B C K n
    by_cases hr : ob.status = .running
    · obtain ⟨pid, q, tl, hq?, hqa, hqk⟩ := ih ob hob hr
      rw [(obs_mem_of_obs? hob?).2] at hqk
      by_cases hne : pid = e.pid
      · subst hne
        rw [hpp] at hq?
        cases hq?
        have hself := live_blk_self_B C K hpk hpp
        rw [block_allocIngest _ hqk] at hself
        have hinv := (K.reach n).l3inv C.hw
        have hpm := (proc?_some hpp).1
        have hpc : p.pc ≠ 0 := by
          intro hpc
          obtain ⟨_, ob2, _, hob2, _, hw2⟩ := hinv.ti.aiNew p hpm ob1.id tl hqk hpc
          rw [hob?] at hob2
          cases hob2
          rw [hw2 ha] at hr
          cases hr
        have eb : (simAt env s0 n).st.allocIngestBlock p.wake p.pc ob1.id tl =
            (simAt env s0 n).st.allocIngestIter p.wake ob1.id tl := by
          unfold allocIngestBlock
          rw [if_neg hpc]
        rw [eb] at hself
        by_cases htl : tl > 0
        · obtain ⟨h1, h2⟩ := bound_id_iter_running _ p.wake ob1.id tl hob? hr htl
          refine ⟨e.pid, _, tl - 1, hself, ?_, ?_⟩
          · rw [h2]
            exact ha
          · rw [fin_k, h1]
        · exfalso
          obtain ⟨ob', a, j, hob', hast, hj, hwk, htle⟩ :=
            hinv.ti.aiRun p hpm ha (by omega) ob1.id tl hqk
          rw [hob?] at hob'
          cases hob'
          obtain ⟨t, ht, htk, hta⟩ := live_telescope_alive_B C K n ⟨ob, hob, by rw [hr]; simp⟩
          have hpol := il_l3_policy hinv.sinv hinv.heap hinv.mon.mon hinv.tel hpk hpp het
            (by rw [hqk]; simp [PK.aiObs]) t ht htk hta
          have hdue := (simRun_telDisc env s0 C.hw _ (K.run n).1).due t ht htk hta ob hob a hast
            (by rw [hr]; simp)
          have h3 : p.wake + 1 ≤ (((a + ob.duration : Nat) : Nat) : Time) := Rat.le_trans hpol hdue
          rw [hwk] at h3
          have h4 : (((a + j + 1 : Nat) : Nat) : Time) ≤ (((a + ob.duration : Nat) : Nat) : Time) := by
            have e1 : (((a + j + 1 : Nat) : Nat) : Time) = (((a + j : Nat) : Nat) : Time) + 1 := by
              push_cast
              rfl
            rw [e1]
            exact h3
          rw [lcCast_le] at h4
          omega
      · exact ⟨pid, q, tl, live_blk_other_B C K hpk hq? hne, hqa, hqk⟩
    · have hne : ob1.status ≠ ob.status := by
        rw [hr1]
        exact fun h => hr h.symm
      obtain ⟨_, _, _, _, _, _, _, hstep, _⟩ := live_step_B C K n
      obtain ⟨e', p', a, hpk', hpp', _, _, _, _, hor⟩ :=
        sim_status_step env s0 C.hw (K.run n).1 hstep hob? hob1? hne
      rw [hpk] at hpk'
      cases hpk'
      rw [hpp] at hpp'
      cases hpp'
      rcases hor with ⟨hw0, _, ⟨tl, hk⟩, hpc, _⟩ | ⟨_, hf, _⟩
      · have hself := live_blk_self_B C K hpk hpp
        rw [block_allocIngest _ hk, hpc] at hself
        obtain ⟨tl', h1, h2⟩ := bound_id_block_first _ p.wake ob1.id tl hob? hw0
        refine ⟨e.pid, _, tl', hself, ?_, ?_⟩
        · rw [h2]
          exact ha
        · rw [fin_k, h1]
      · rw [hf] at hr1
        cases hr1

/-- **With no worker process alive, every observation with a recorded start is FINISHED.** -/
theorem boundB_id_fin (C : LiveCfgB env s0) (K : LiveKernel env s0) (n : Nat)
    (hq : (simAt env s0 n).st.NoWorker) :
    ∀ ob ∈ (simAt env s0 n).st.obs, ob.ast ≠ none → ob.status = .finished := by
  intro ob hob hast
  have hob? : (simAt env s0 n).st.obs? ob.id = some ob :=
    obs?_of_mem (live_sinv_B C K n).eg.obsNodup hob
  cases hs : ob.status with
  | finished => rfl
  | running =>
    exfalso
    obtain ⟨pid, q, tl, hq?, hqa, hqk⟩ := boundB_id_sup C K n ob hob hs
    exact (hq q (proc?_some hq?).1 hqa).1 (by rw [hqk]; rfl)
  | waiting =>
    exfalso
    have hA := sim_otAst env s0 C.hw _ (K.reach n)
    have hadm := hA.adm ob.id ob hob? hast
    obtain ⟨ob2, hob2, hsup⟩ := (live_sinv_B C K n).eg.adm ob.id hadm
    rw [hob?] at hob2
    cases hob2
    obtain ⟨q, hq', hqa, _, ⟨tl, hqk⟩, _⟩ := hsup hs
    exact (hq q hq' hqa).1 (by rw [hqk]; rfl)

/-- along the run an id of `hot.stored` stays in one of the hot buffer's lists -/
theorem boundB_ep_stored_step (C : LiveCfgB env s0) (K : LiveKernel env s0) (n : Nat) {o : Oid}
    (ho : o ∈ (simAt env s0 n).st.buf.hot.stored) :
    o ∈ (simAt env s0 (n + 1)).st.buf.hot.stored ∨ o ∈ (simAt env s0 (n + 1)).st.buf.hot.scheduled ∨
      o ∈ (simAt env s0 (n + 1)).st.buf.hot.finished := by
  obtain ⟨e, p, hpk, hpp, ha, het, hen, hs, hst⟩ := live_step_B C K n
  have hb := resume_buf (simAt env s0 n).st e.pid (env.oracle (simAt env s0 n).st) p hpp ha
  obtain ⟨hpm, _⟩ := proc?_some hpp
  have hnt := (live_noTier_B C K n).1 p hpm
  rw [hst, hb]
  exact bound_ep_block_stored _ p _ hnt.1 hnt.2 o ho

end

end Topsim
