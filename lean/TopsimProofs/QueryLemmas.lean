/-
  The idle / empty / finished queries (C19).
-/
import TopsimModel.Sys
import TopsimProofs.ClusterSteps

namespace Topsim

theorem cluster_isIdle_iff (c : Cluster) :
    c.isIdle = true ↔ c.running = [] ∧ c.occupied = [] ∧ c.ingest = [] := by
  simp [Cluster.isIdle, List.length_eq_zero_iff]

theorem list_eq_nil_of_count {α} [DecidableEq α] (l : List α) (h : ∀ a, l.count a = 0) : l = [] := by
  cases l with
  | nil => rfl
  | cons a r =>
    have := h a
    simp at this

theorem cluster_idle_truth (ms : List Mid) (hms : ms.Nodup) (ops : List ClOp)
    (hf : Cluster.FreshHist ops) :
    let c := (Cluster.init ms).run ops
    c.isIdle = true → c.runOn = [] ∧ c.pending = [] := by
  intro c
  obtain ⟨U, h⟩ : ∃ U, Cluster.Inv c U := Cluster.run_inv ms hms ops hf
  clear_value c
  intro hi
  obtain ⟨hr, _, hg⟩ := (cluster_isIdle_iff c).mp hi
  refine ⟨?_, ?_⟩
  · have := h.runOnTasks
    rw [hr] at this
    exact List.map_eq_nil_iff.mp this
  · have : c.pending.map (·.mach) = [] := by
      apply list_eq_nil_of_count
      intro m
      have := h.ingm m
      rw [hg] at this
      simp only [List.count_nil] at this
      omega
    exact List.map_eq_nil_iff.mp this

theorem buffer_isEmpty_iff (b : Buffer) :
    b.isEmpty = true ↔ b.hot.cur = b.hot.total ∧ b.cold.cur = b.cold.total := by
  simp only [Buffer.isEmpty, Bool.and_eq_true, decide_eq_true_eq]
  constructor <;> intro h <;> exact ⟨h.1.symm, h.2.symm⟩

theorem telescope_isIdle_iff (s : Sys) :
    s.telIsIdle = true ↔ (∀ o ∈ s.obs, o.status = .finished) ∧ s.telStatus = false ∧ s.telUse = 0 := by
  simp [Sys.telIsIdle]

theorem sim_isFinished_iff (s : Sys) :
    s.isFinished = true ↔
      s.buf.isEmpty = true ∧ s.cl.isIdle = true ∧ s.queue = [] ∧ s.telIsIdle = true := by
  simp only [Sys.isFinished, Bool.and_eq_true, List.isEmpty_iff]
  constructor
  · rintro ⟨⟨⟨a, b⟩, c⟩, d⟩; exact ⟨a, b, c, d⟩
  · rintro ⟨a, b, c, d⟩; exact ⟨⟨⟨a, b⟩, c⟩, d⟩

end Topsim
