/-
  FinishRes8 — `RI` through the first half of an `allocate_tasks` iteration:
  plan stamp, pruning of finished tasks, the algorithm's reservation calls.
-/
import TopsimProofs.FinishRes7

namespace Topsim
namespace Sys

open Cluster

theorem dictKeys_dictErase_sublist_or (c : Cluster) (o : Oid) :
    (dictKeys (c.releaseBatch o).idle).Sublist (dictKeys c.idle) := by
  unfold Cluster.releaseBatch
  split
  · exact List.Sublist.refl _
  · simp only
    split
    · exact dictKeys_dictErase_sublist _ _
    · exact List.Sublist.refl _

theorem plan?_map (s s' : Sys) (oid : Oid) (F : Plan → Plan) (hF : ∀ pl, (F pl).obs = pl.obs)
    (hpl : s'.plans = s.plans.map (fun pl => if pl.obs = oid then F pl else pl)) (o : Oid) :
    s'.plan? o = (s.plan? o).map (fun pl => if pl.obs = oid then F pl else pl) := by
  unfold plan?
  rw [hpl]
  exact find?_map_upd (fun pl : Plan => pl.obs) s.plans oid o F hF

/-- a per-plan update of observation `oid` that keeps status and only drops FINISHED tasks -/
theorem RI.planMap {s s' : Sys} (h : RI s) (hprocs : s'.procs = s.procs) (hqu : s'.queue = s.queue)
    (hcl : s'.cl = s.cl) (hts : ∀ t, tstat s' t = tstat s t) (oid : Oid) (F : Plan → Plan)
    (hpl : s'.plans = s.plans.map (fun pl => if pl.obs = oid then F pl else pl))
    (hF : ∀ pl, (F pl).obs = pl.obs ∧ (F pl).status = pl.status ∧ (∀ t ∈ (F pl).tasks, t ∈ pl.tasks) ∧
      (∀ t ∈ pl.tasks, tstat s t ≠ .finished → t ∈ (F pl).tasks)) : RI s' := by
  have hp? := plan?_map s s' oid F (fun pl => (hF pl).1) hpl
  have hkeep : ∀ o t, t ∈ planTasks s o → tstat s t ≠ .finished → t ∈ planTasks s' o := by
    intro o t ht hne
    unfold planTasks at ht ⊢
    rw [hp? o]
    cases hpo : s.plan? o with
    | none => rw [hpo] at ht; simp at ht
    | some pl =>
      rw [hpo] at ht
      simp only [Option.map_some]
      split
      · exact (hF pl).2.2.2 t ht hne
      · exact ht
  have hback : ∀ pl' ∈ s'.plans, ∃ pl ∈ s.plans, pl'.obs = pl.obs ∧ pl'.status = pl.status ∧
      ∀ t ∈ pl'.tasks, t ∈ pl.tasks := by
    intro pl' hpl'
    rw [hpl] at hpl'
    obtain ⟨pl, hpl0, rfl⟩ := List.mem_map.mp hpl'
    refine ⟨pl, hpl0, ?_⟩
    split
    · exact ⟨(hF pl).1, (hF pl).2.1, (hF pl).2.2.1⟩
    · exact ⟨rfl, rfl, fun _ h => h⟩
  constructor
  · rw [hqu]; exact h.qNodup
  · intro q hq hqa o sc pa po hqk
    rw [hprocs] at hq
    obtain ⟨a1, a2⟩ := h.atsQ q hq hqa o sc pa po hqk
    refine ⟨by rw [hqu]; exact a1, ?_⟩
    rw [hp? o]
    cases hpo : s.plan? o with
    | none => rw [hpo] at a2; simp at a2
    | some pl => rfl
  · rw [hprocs]; exact h.atsUniq
  · intro q hq hqa o sc pa po hqk
    rw [hprocs] at hq
    obtain ⟨a1, a2⟩ := h.sl q hq hqa o sc pa po hqk
    refine ⟨a1, fun t ht => ?_⟩
    obtain ⟨b1, b2⟩ := a2 t ht
    exact ⟨hkeep o t b1 (by rw [b2]; simp), by rw [hts]; exact b2⟩
  · intro pl' hpl' t ht
    obtain ⟨pl, hpl0, e1, _, e3⟩ := hback pl' hpl'
    rw [e1]; exact h.pt pl hpl0 t (e3 t ht)
  · intro pl' hpl' hfin
    obtain ⟨pl, hpl0, _, e2, e3⟩ := hback pl' hpl'
    have := h.pf pl hpl0 (by rw [← e2]; exact hfin)
    cases htk : pl'.tasks with
    | nil => rfl
    | cons x r =>
      have := e3 x (by rw [htk]; simp)
      rw [‹pl.tasks = []›] at this; simp at this
  · rw [hpl, List.map_map]
    have : (fun pl : Plan => pl.obs) ∘ (fun pl => if pl.obs = oid then F pl else pl) = fun pl => pl.obs := by
      funext pl
      simp only [Function.comp]
      split
      · exact (hF pl).1
      · rfl
    rw [this]; exact h.pn
  · intro q hq hqa t m preds o ret hqk
    rw [hprocs] at hq
    obtain ⟨a1, a2⟩ := h.st q hq hqa t m preds o ret hqk
    exact ⟨by rw [hts]; exact a1, hkeep o t a2 a1⟩
  · rw [hcl, hprocs]; exact h.rc
  · rw [hcl, hqu]; exact h.keyQ
  · rw [hcl]; exact h.keyNE

theorem atStart_procs (s : Sys) (now : Time) (pc : Nat) (oid : Oid) : (atStart s now pc oid).procs = s.procs := by
  unfold atStart; split
  · refine Eq.trans (?_ : _ = (s.updPlan oid (fun p => { p with ast := some (natNow now) })).procs) rfl
    have : ∀ (l : List Tid) (s1 : Sys), (l.foldl (fun (s : Sys) t =>
        s.updTask t (fun r => { r with offset := natNow now })) s1).procs = s1.procs := by
      intro l; induction l with
      | nil => intro s1; rfl
      | cons x r ih => intro s1; exact (ih _).trans rfl
    exact this _ _
  · rfl

theorem atStart_tstat (s : Sys) (now : Time) (pc : Nat) (oid : Oid) (t : Tid) :
    tstat (atStart s now pc oid) t = tstat s t := by
  unfold atStart; split
  · have : ∀ (l : List Tid) (s1 : Sys), tstat (l.foldl (fun (s : Sys) t =>
        s.updTask t (fun r => { r with offset := natNow now })) s1) t = tstat s1 t := by
      intro l; induction l with
      | nil => intro s1; rfl
      | cons x r ih =>
        intro s1
        exact (ih _).trans (tstat_updTask_keep s1 x t _ (fun _ => rfl) (fun _ => rfl))
    exact (tstat_of_tasks rfl t).trans ((this _ _).trans (tstat_of_tasks rfl t))
  · rfl

theorem RI.started {s : Sys} (h : RI s) (now : Time) (pc : Nat) (oid : Oid) : RI (atStart s now pc oid) := by
  rcases atStart_plans s now pc oid with hpl | hpl
  · refine h.planMap (atStart_procs _ _ _ _) (atStart_queue _ _ _ _) (atStart_cl _ _ _ _)
      (atStart_tstat _ _ _ _) oid id ?_ (fun pl => ⟨rfl, rfl, fun _ h => h, fun _ h _ => h⟩)
    rw [hpl]; simp
  · exact h.planMap (atStart_procs _ _ _ _) (atStart_queue _ _ _ _) (atStart_cl _ _ _ _)
      (atStart_tstat _ _ _ _) oid (fun p => { p with ast := some (natNow now) }) hpl
      (fun pl => ⟨rfl, rfl, fun _ h => h, fun _ h _ => h⟩)

theorem updateCurrentPlan_tstat (a : Sys) (oid : Oid) (t : Tid) : tstat (a.updateCurrentPlan oid) t = tstat a t :=
  tstat_of_tasks (updateCurrentPlan_core a oid).tasks t

theorem RI.prune {a : Sys} (h : RI a) (oid : Oid) : RI (a.updateCurrentPlan oid) := by
  have hc := updateCurrentPlan_core a oid
  have hpl := updateCurrentPlan_plans a oid
  cases hpo : a.plan? oid with
  | none =>
    rw [hpo] at hpl
    refine h.planMap hc.procs (updateCurrentPlan_queue a oid) hc.cl (updateCurrentPlan_tstat a oid) oid id ?_
      (fun pl => ⟨rfl, rfl, fun _ h => h, fun _ h _ => h⟩)
    rw [hpl]; simp
  | some pl0 =>
    rw [hpo] at hpl
    refine h.planMap hc.procs (updateCurrentPlan_queue a oid) hc.cl (updateCurrentPlan_tstat a oid) oid
      (fun p => { p with tasks := p.tasks.filter (fun t => (a.taskView t).status ≠ .finished) }) hpl ?_
    intro pl
    refine ⟨rfl, rfl, fun t ht => (List.mem_filter.mp ht).1, fun t ht hne => ?_⟩
    exact List.mem_filter.mpr ⟨ht, by simpa [tstat] using hne⟩

/-- the state in which the algorithm runs -/
theorem RI.pruned {s : Sys} (h : RI s) (now : Time) (pc : Nat) (oid : Oid) :
    RI ((atStart s now pc oid).updateCurrentPlan oid) ∧
    ((atStart s now pc oid).updateCurrentPlan oid).procs = s.procs ∧
    ((atStart s now pc oid).updateCurrentPlan oid).nextPid = s.nextPid ∧
    ((atStart s now pc oid).updateCurrentPlan oid).queue = s.queue ∧
    ((atStart s now pc oid).updateCurrentPlan oid).cl = s.cl ∧
    ((atStart s now pc oid).updateCurrentPlan oid).alg = s.alg ∧
    (∀ t, tstat ((atStart s now pc oid).updateCurrentPlan oid) t = tstat s t) := by
  have hc := updateCurrentPlan_core (atStart s now pc oid) oid
  refine ⟨(h.started now pc oid).prune oid, hc.procs.trans (atStart_procs _ _ _ _), ?_,
    (updateCurrentPlan_queue _ oid).trans (atStart_queue _ _ _ _), hc.cl.trans (atStart_cl _ _ _ _),
    (updateCurrentPlan_alg _ oid).trans (atStart_alg _ _ _ _),
    fun t => (updateCurrentPlan_tstat _ oid t).trans (atStart_tstat _ _ _ _ t)⟩
  rw [hc.nextPid]
  unfold Sys.atStart
  split
  · refine Eq.trans (?_ : _ = (s.updPlan oid (fun p => { p with ast := some (natNow now) })).nextPid) rfl
    have : ∀ (l : List Tid) (s1 : Sys), (l.foldl (fun (s : Sys) t =>
        s.updTask t (fun r => { r with offset := natNow now })) s1).nextPid = s1.nextPid := by
      intro l; induction l with
      | nil => intro s1; rfl
      | cons x r ih => intro s1; exact (ih _).trans rfl
    exact this _ _
  · rfl

theorem atS3_planTasks (s1 : Sys) (out : AlgOut) (oid o : Oid) :
    planTasks (atS3 s1 out oid) o = planTasks s1 o := by
  unfold planTasks
  rw [plan?_map s1 (atS3 s1 out oid) oid (fun p => { p with status := out.status }) (fun _ => rfl)
    (atS3_plans s1 out oid) o]
  cases s1.plan? o with
  | none => rfl
  | some pl => simp only [Option.map_some]; split <;> rfl

theorem atS3_tstat (s1 : Sys) (out : AlgOut) (oid : Oid) (t : Tid) : tstat (atS3 s1 out oid) t = tstat s1 t :=
  tstat_of_tasks (atS3_tasks s1 out oid) t

/-- after `BatchProcessing.run`: its reservation calls and the plan status it returns -/
theorem RI.afterBatch {s1 : Sys} (h : RI s1) {U : List Tid} (hinv : Cluster.Inv s1.cl U) {p : Proc}
    (hp : p ∈ s1.procs) (ha : p.alive = true) {oid : Oid} {sc pa : List (Tid × Mid)} {po : List Tid}
    (hk : p.k = .allocTasks oid sc pa po false) (plan : Plan) (hplan : s1.plan? oid = some plan)
    (parts minPer : Nat) (split : Option (List (Oid × Nat × Nat))) (out : AlgOut)
    (hrun : Alg.batchRun s1.cl plan s1.taskView parts minPer split sc po = .ok out) :
    RI (atS3 s1 out oid) ∧ (atS3 s1 out oid).cl.runOn = s1.cl.runOn ∧
    (out.status = .finished → plan.tasks = []) ∧
    (dictKeys out.schedule).Nodup ∧
    (∀ t ∈ dictKeys out.schedule, t ∈ planTasks s1 oid ∧ tstat s1 t = .unscheduled) ∧
    (dictKeys (atS3 s1 out oid).cl.idle).Nodup := by
  obtain ⟨hkeys, hnd, hstat, c1, hc1, hout⟩ := batchRun_facts _ _ _ _ _ _ _ _ _ hrun
  obtain ⟨hplm, hpobs⟩ := plan?_mem hplan
  obtain ⟨slnd, slk⟩ := h.sl p hp ha oid sc pa po hk
  obtain ⟨hoq, _⟩ := h.atsQ p hp ha oid sc pa po hk
  have hPT : planTasks s1 oid = plan.tasks := by unfold planTasks; rw [hplan]
  -- the cluster after the reservation calls
  have hc1' : KeyNE c1 ∧ c1.runOn = s1.cl.runOn ∧ (∀ x ∈ dictKeys c1.idle, x = oid ∨ x ∈ dictKeys s1.cl.idle) ∧
      (dictKeys c1.idle).Nodup := by
    rcases hc1 with rfl | ⟨n, rfl, hok⟩
    · exact ⟨h.keyNE, rfl, fun x hx => Or.inr hx, hinv.keys⟩
    · obtain ⟨a1, a2, a3⟩ := provisionBatch_key s1.cl n plan.obs h.keyNE hok
      exact ⟨a1, a2, fun x hx => by rw [← hpobs]; exact a3 x hx, (provisionBatch_ok hinv n plan.obs).1.keys⟩
  obtain ⟨k1, k2, k3, k4⟩ := hc1'
  have hcl : KeyNE out.cl ∧ out.cl.runOn = s1.cl.runOn ∧
      (∀ x ∈ dictKeys out.cl.idle, x = oid ∨ x ∈ dictKeys s1.cl.idle) ∧ (dictKeys out.cl.idle).Nodup := by
    rcases hout with e | ⟨_, e⟩
    · rw [e]; exact ⟨k1, k2, k3, k4⟩
    · obtain ⟨b1, b2, b3, _⟩ := releaseBatch_key c1 plan.obs k1 k4
      rw [e]
      exact ⟨b1, b2.trans k2, fun x hx => k3 x (b3 x hx),
        (dictKeys_dictErase_sublist_or c1 plan.obs).nodup k4⟩
  obtain ⟨l1, l2, l3, l4⟩ := hcl
  have hfin : out.status = .finished → plan.tasks = [] := by
    intro hf
    rw [hstat] at hf
    unfold Alg.finishStatus at hf
    split at hf
    · rename_i h0; exact List.length_eq_zero_iff.mp h0
    · exact h.pf plan hplm hf
  have hsk : ∀ t ∈ dictKeys out.schedule, t ∈ planTasks s1 oid ∧ tstat s1 t = .unscheduled := by
    intro t ht
    rcases hkeys t ht with h1 | ⟨h1, h2⟩
    · exact slk t h1
    · exact ⟨by rw [hPT]; exact h1, h2⟩
  refine ⟨?_, by rw [atS3_cl]; exact l2, hfin, hnd slnd, hsk, by rw [atS3_cl]; exact l4⟩
  constructor
  · rw [atS3_queue]; exact h.qNodup
  · intro q hq hqa o sc' pa' po' hqk
    rw [atS3_procs] at hq
    obtain ⟨a1, a2⟩ := h.atsQ q hq hqa o sc' pa' po' hqk
    refine ⟨by rw [atS3_queue]; exact a1, ?_⟩
    rw [plan?_map s1 (atS3 s1 out oid) oid (fun p => { p with status := out.status }) (fun _ => rfl)
      (atS3_plans s1 out oid) o]
    cases hpo : s1.plan? o with
    | none => rw [hpo] at a2; simp at a2
    | some pl => rfl
  · rw [atS3_procs]; exact h.atsUniq
  · intro q hq hqa o sc' pa' po' hqk
    rw [atS3_procs] at hq
    obtain ⟨a1, a2⟩ := h.sl q hq hqa o sc' pa' po' hqk
    exact ⟨a1, fun t ht => ⟨by rw [atS3_planTasks]; exact (a2 t ht).1, by rw [atS3_tstat]; exact (a2 t ht).2⟩⟩
  · intro pl' hpl' t ht
    rw [atS3_plans] at hpl'
    obtain ⟨pl, hpl0, rfl⟩ := List.mem_map.mp hpl'
    have : ∃ c n, t = Tid.wf pl.obs c n := by
      apply h.pt pl hpl0 t
      split at ht <;> exact ht
    split <;> exact this
  · intro pl' hpl' hf
    rw [atS3_plans] at hpl'
    obtain ⟨pl, hpl0, rfl⟩ := List.mem_map.mp hpl'
    by_cases e : pl.obs = oid
    · simp only [e, if_true] at hf ⊢
      -- this is the plan the algorithm ran on
      have : pl = plan := eq_of_map_nodup h.pn hpl0 hplm (e.trans hpobs.symm)
      rw [this]; exact hfin hf
    · simp only [e, if_false] at hf ⊢
      exact h.pf pl hpl0 hf
  · rw [atS3_plans, List.map_map]
    have : (fun pl : Plan => pl.obs) ∘ (fun pl => if pl.obs = oid then { pl with status := out.status } else pl)
        = fun pl => pl.obs := by
      funext pl; simp only [Function.comp]; split <;> rfl
    rw [this]; exact h.pn
  · intro q hq hqa t m preds o ret hqk
    rw [atS3_procs] at hq
    obtain ⟨a1, a2⟩ := h.st q hq hqa t m preds o ret hqk
    exact ⟨by rw [atS3_tstat]; exact a1, by rw [atS3_planTasks]; exact a2⟩
  · rw [atS3_cl, atS3_procs, l2]; exact h.rc
  · intro o ho
    rw [atS3_cl] at ho
    rw [atS3_queue]
    rcases l3 o ho with e | e
    · rw [e]; exact hoq
    · exact h.keyQ o e
  · rw [atS3_cl]; exact l1

end Sys
end Topsim
