/-
  Preced12 — the machine table (`Sys.machines`: speeds and bandwidths) of a
  simulation never changes.
-/
import TopsimProofs.Preced11

namespace Topsim
namespace Sys

theorem foldl_machs {α} (f : Sys → α → Sys) (hf : ∀ s x, (f s x).machines = s.machines) (l : List α) (s : Sys) :
    (l.foldl f s).machines = s.machines := by
  induction l generalizing s with
  | nil => rfl
  | cons x r ih => exact (ih _).trans (hf s x)

theorem updateCurrentPlan_machs (s : Sys) (oid : Oid) : (s.updateCurrentPlan oid).machines = s.machines := by
  unfold updateCurrentPlan
  split
  · rfl
  · simp only
    show (List.foldl _ s _).machines = s.machines
    apply foldl_machs
    intro s x
    split
    · split <;> rfl
    · rfl

syntax "mach_fields" : tactic
macro_rules
  | `(tactic| mach_fields) =>
    `(tactic| first
      | rfl
      | (split <;> mach_fields))

theorem monitorBlock_machs (s : Sys) (now : Time) : (s.monitorBlock now).1.machines = s.machines := rfl

theorem checkIngestCapacity_machs (s : Sys) (o : Obs) (s' : Sys) (b : Bool)
    (h : s.checkIngestCapacity o = .ok (s', b)) : s'.machines = s.machines := by
  unfold checkIngestCapacity at h
  split at h
  · exact absurd h (by simp)
  · split at h
    · split at h
      · injection h with h; injection h with h1 _
        subst h1
        split <;> rfl
      · injection h with h; injection h with h1 _; subst h1; rfl
    · injection h with h; injection h with h1 _; subst h1; rfl

theorem telescopeVisit_machs (n : Nat) (acc : Sys × Option Err) (oid : Oid) :
    (telescopeVisit n acc oid).1.machines = acc.1.machines := by
  obtain ⟨s1, err⟩ := acc
  unfold telescopeVisit
  cases err with
  | some e => rfl
  | none =>
    simp only
    split
    · rfl
    · rename_i o _
      split
      · cases hc : s1.checkIngestCapacity o with
        | error e => rfl
        | ok r =>
          obtain ⟨s', b⟩ := r
          have := checkIngestCapacity_machs s1 o s' b hc
          cases b with
          | false => exact this
          | true => simp only; exact this
      · split <;> rfl

theorem foldl_machs' {α β} (f : Sys × β → α → Sys × β) (hf : ∀ acc x, (f acc x).1.machines = acc.1.machines)
    (l : List α) (acc : Sys × β) : (l.foldl f acc).1.machines = acc.1.machines := by
  induction l generalizing acc with
  | nil => rfl
  | cons x r ih => exact (ih _).trans (hf acc x)

theorem telescopeBlock_machs (s : Sys) (now : Time) : (s.telescopeBlock now).1.machines = s.machines := by
  unfold telescopeBlock
  split
  · rfl
  · simp only
    have := foldl_machs' (telescopeVisit (natNow now)) (telescopeVisit_machs (natNow now))
      (s.obs.map (·.id))
      ({ s with telEvents := [], telDelayed := if s.schedDelayed = true ∧ (!s.telDelayed) = true then true else s.telDelayed }, none)
    generalize (List.foldl (telescopeVisit (natNow now)) ({ s with telEvents := [], telDelayed := if s.schedDelayed = true ∧ (!s.telDelayed) = true then true else s.telDelayed }, none) (s.obs.map (·.id))) = r at this ⊢
    obtain ⟨s1, e1⟩ := r
    cases e1 <;> exact this

theorem schedLoopBlock_machs (s : Sys) (now : Time) (orc : Oracle) :
    (s.schedLoopBlock now orc).1.machines = s.machines := by
  unfold schedLoopBlock
  simp only
  split
  · split
    · rfl
    · split
      · rfl
      · split <;> split <;> rfl
  · rfl

theorem bufferLoopBlock_machs (s : Sys) (now : Time) : (s.bufferLoopBlock now).1.machines = s.machines := by
  unfold bufferLoopBlock
  split
  · rfl
  · simp only; split <;> split <;> rfl

theorem allocIngestIter_machs (s : Sys) (now : Time) (oid : Oid) (tl : Int) :
    (s.allocIngestIter now oid tl).1.machines = s.machines := by
  unfold allocIngestIter; simp only; mach_fields

theorem allocIngestBlock_machs (s : Sys) (now : Time) (pc : Nat) (oid : Oid) (tl : Int) :
    (s.allocIngestBlock now pc oid tl).1.machines = s.machines := by
  unfold allocIngestBlock
  split
  · exact allocIngestIter_machs _ _ _ _
  · exact allocIngestIter_machs _ _ _ _

theorem provIngestBlock_machs (s : Sys) (now : Time) (pc : Nat) (oid : Oid) (d : Nat) :
    (s.provIngestBlock now pc oid d).1.machines = s.machines := by
  unfold provIngestBlock
  split
  · simp only
    split
    · rfl
    · refine Eq.trans (foldl_machs _ ?_ _ _) rfl
      intro s x; rfl
  · rfl

theorem ingestStreamIter_machs (s : Sys) (now : Time) (oid : Oid) (tl : Int) :
    (s.ingestStreamIter now oid tl).1.machines = s.machines := by
  unfold ingestStreamIter; mach_fields

theorem ingestStreamBlock_machs (s : Sys) (now : Time) (pc : Nat) (oid : Oid) (tl : Int) :
    (s.ingestStreamBlock now pc oid tl).1.machines = s.machines := by
  unfold ingestStreamBlock
  split
  · split
    · rfl
    · split
      · rfl
      · exact ingestStreamIter_machs _ _ _ _
  · exact ingestStreamIter_machs _ _ _ _

theorem allocTaskBlock_machs (s : Sys) (now : Time) (t : Tid) (m : Mid) (preds : List Tid)
    (obs : Option Oid) (ing : Bool) (ret : Nat) :
    (s.allocTaskBlock now t m preds obs ing ret).1.machines = s.machines := by
  unfold allocTaskBlock; simp only; mach_fields

theorem doWorkBlock_machs (s : Sys) (now : Time) (orc : Oracle) (t : Tid) (m : Mid) (preds : List Tid)
    (ph tot : Nat) : (s.doWorkBlock now orc t m preds ph tot).1.machines = s.machines := by
  rcases doWorkBlock_out s now orc t m preds ph tot with
    ⟨_, _, _, _, heq⟩ | ⟨_, _, _, _, _, heq⟩ | ⟨_, _, _, heq⟩ <;> rw [heq] <;> rfl

theorem processOne_machs (now : Time) (oid : Oid) (st : PcsSt) (t : Tid) :
    (processOne now oid st t).s.machines = st.s.machines := by
  unfold processOne
  cases hok : st.err with
  | some e => rfl
  | none =>
    simp only
    cases hm : dictGet st.schedule t with
    | none => rfl
    | some m =>
      cases hr : st.s.task? t with
      | none => rfl
      | some r =>
        simp only []
        cases hmm : st.s.machine? m with
        | none => rfl
        | some mm =>
          simp only []
          by_cases hz : ((r.allocObj || r.planned != some m) = true ∧ (mm.cpu = 0 ∨ mm.bw = 0))
          · rw [if_pos hz]
          · simp only [hz, if_false]
            generalize hs1 : (if (r.allocObj || r.planned != some m) = true then
              st.s.updTask t (fun r => updateAllocation r mm) else st.s) = s1
            have h1 : s1.machines = st.s.machines := by subst hs1; split <;> rfl
            by_cases hocc : (st.curr.contains m = true ∨ s1.cl.isOccupied m = true)
            · simp only [hocc, if_true]; exact h1
            · simp only [hocc, if_false]
              by_cases hmiss : (r.preds.any fun p => !dictHas (dictSet st.pairs t m) p) = true
              · simp only [hmiss, if_true]; exact h1
              · simp only [hmiss]
                by_cases hst : r.status ≠ TStatus.unscheduled
                · rw [if_pos hst]; exact h1
                · rw [if_neg hst]; exact h1

theorem processCurrentSchedule_machs (s : Sys) (now : Time) (oid : Oid)
    (schedule pairs : List (Tid × Mid)) : (processCurrentSchedule s now oid schedule pairs).s.machines = s.machines := by
  unfold processCurrentSchedule
  simp only
  generalize ((dictKeys schedule).mergeSort _) = l
  have : ∀ (l : List Tid) (st : PcsSt), (l.foldl (processOne now oid) st).s.machines = st.s.machines := by
    intro l
    induction l with
    | nil => intro st; rfl
    | cons x r ih => intro st; exact (ih _).trans (processOne_machs now oid st x)
  exact this l { s := s, schedule := schedule, pairs := pairs, curr := [] }

theorem allocTasksIter_machs (s : Sys) (now : Time) (orc : Oracle) (oid : Oid)
    (schedule pairs : List (Tid × Mid)) (pool : List Tid) :
    (s.allocTasksIter now orc oid schedule pairs pool).1.machines = s.machines := by
  unfold allocTasksIter
  simp only
  have h1 := updateCurrentPlan_machs s oid
  generalize s.updateCurrentPlan oid = s1 at h1
  split
  · exact h1
  · split
    · exact h1
    · rename_i out _
      have h3 : (if out.status = WStatus.delayed then { (({ s1 with cl := out.cl }).updPlan oid (fun p => { p with status := out.status })) with schedDelayed := true } else (({ s1 with cl := out.cl }).updPlan oid (fun p => { p with status := out.status }))).machines = s.machines := by
        split <;> exact h1
      generalize (if out.status = WStatus.delayed then { (({ s1 with cl := out.cl }).updPlan oid (fun p => { p with status := out.status })) with schedDelayed := true } else (({ s1 with cl := out.cl }).updPlan oid (fun p => { p with status := out.status }))) = s3 at h3
      split
      · split
        · split <;> exact h3
        · exact h3
      · split
        · exact h3
        · have h4 := processCurrentSchedule_machs s3 now oid out.schedule pairs
          split <;> exact h4.trans h3

theorem allocTasksBlock_machs (s : Sys) (now : Time) (orc : Oracle) (pc : Nat) (oid : Oid)
    (schedule pairs : List (Tid × Mid)) (pool : List Tid) (fin : Bool) :
    (s.allocTasksBlock now orc pc oid schedule pairs pool fin).1.machines = s.machines := by
  unfold allocTasksBlock
  split
  · rfl
  · split
    · simp only
      rw [allocTasksIter_machs]
      refine Eq.trans (foldl_machs _ ?_ _ _) rfl
      intro s x; rfl
    · exact allocTasksIter_machs _ _ _ _ _ _ _

theorem hot2coldIter_machs (s : Sys) (now : Time) (o : Oid) (left : Int) :
    (s.hot2coldIter now o left).1.machines = s.machines := by
  unfold hot2coldIter; mach_fields

theorem hot2coldBlock_machs (s : Sys) (now : Time) (cur : Option (Oid × Int)) :
    (s.hot2coldBlock now cur).1.machines = s.machines := by
  unfold hot2coldBlock
  split
  · exact hot2coldIter_machs _ _ _ _
  · split
    · rfl
    · rfl
    · rw [hot2coldIter_machs]; rfl

theorem cold2hotIter_machs (s : Sys) (now : Time) (o : Oid) (left : Int) :
    (s.cold2hotIter now o left).1.machines = s.machines := by
  unfold cold2hotIter; mach_fields

theorem cold2hotBlock_machs (s : Sys) (now : Time) (cur : Option (Oid × Int)) :
    (s.cold2hotBlock now cur).1.machines = s.machines := by
  unfold cold2hotBlock
  split
  · exact cold2hotIter_machs _ _ _ _
  · split
    · rfl
    · rfl
    · rw [cold2hotIter_machs]; rfl

theorem block_machs (s : Sys) (p : Proc) (orc : Oracle) : (s.block p orc).1.machines = s.machines := by
  unfold block
  split
  · exact monitorBlock_machs _ _
  · exact telescopeBlock_machs _ _
  · rfl
  · exact schedLoopBlock_machs _ _ _
  · exact bufferLoopBlock_machs _ _
  · exact allocIngestBlock_machs _ _ _ _ _
  · exact provIngestBlock_machs _ _ _ _ _
  · exact ingestStreamBlock_machs _ _ _ _ _
  · exact allocTaskBlock_machs _ _ _ _ _ _ _ _
  · exact doWorkBlock_machs _ _ _ _ _ _ _ _
  · exact allocTasksBlock_machs _ _ _ _ _ _ _ _ _
  · exact hot2coldBlock_machs _ _ _
  · exact cold2hotBlock_machs _ _ _

theorem crash_machs (s : Sys) (e : Err) : (s.crash e).machines = s.machines := by unfold crash; split <;> rfl

theorem resume_machs (s : Sys) (pid : Nat) (orc : Oracle) : (s.resume pid orc).1.machines = s.machines := by
  unfold resume
  split
  · rfl
  · split
    · rfl
    · rename_i p _ _
      have := block_machs s p orc
      generalize s.block p orc = r at this
      obtain ⟨s1, k, y⟩ := r
      cases y with
      | timeout d => exact this
      | done => exact this
      | raised e => simp only; rw [crash_machs]; exact this

end Sys
end Topsim
