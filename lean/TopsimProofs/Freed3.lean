/-
  Freed3 — C07, the WHEN of the release: persistence of "the workflow is complete" along the run.

  `FreedAllFin s o` (every workflow-task record of `o` is FINISHED) together with
  `o ∈ hot.scheduled` is kept by every block of a run of a shipped algorithm that has not raised,
  except the block of `o`'s own `allocate_tasks` process — and that block frees `o`
  (`freed_done_step`).

  Ingredients: FINISHED workflow records stay FINISHED (`TaskStep`/`TKeep` of the Preced family for
  the quiet kinds; directly for the allocation process and the task body, where the invariants
  `WI.ast`, `DG.dwAlloc`, `CI.hasRec` exclude a live allocation process / task body for a FINISHED
  task); no new record of `o` appears while `o` is in `scheduled` (the scheduler loop plans
  observations it pops from `stored`, and `BufI` keeps the lists disjoint).
-/
import TopsimProofs.Freed2

namespace Topsim

open KState Sys

namespace Sys

/-- in the scheduler's view (the first record of an id): every recorded workflow task of `o` is
FINISHED -/
def FreedFinT (s : Sys) (o : Oid) : Prop :=
  ∀ c n r, s.task? (Tid.wf o c n) = some r → r.status = .finished

theorem FreedAllFin.toT {s : Sys} {o : Oid} (h : FreedAllFin s o) : FreedFinT s o := by
  intro c n r hr
  exact h r (List.mem_of_find?_eq_some hr) ⟨c, n, task?_id hr⟩

theorem FreedFinT.toAll {s : Sys} {o : Oid} (hwi : WI s) (h : FreedFinT s o) : FreedAllFin s o := by
  rintro r hr ⟨c, n, e⟩
  cases h0 : s.task? (Tid.wf o c n) with
  | none =>
    exfalso
    unfold task? at h0
    rw [List.find?_eq_none] at h0
    exact h0 r hr (by simpa using e)
  | some r' =>
    have := hwi.un r hr r' (List.mem_of_find?_eq_some h0) (by rw [e, task?_id h0]) ⟨o, c, n, e⟩
    rw [this]; exact h c n r' h0

theorem FreedFinT.congr {s X : Sys} {o : Oid} (hX : X.tasks = s.tasks) (h : FreedFinT s o) : FreedFinT X o := by
  intro c n r hr
  have : X.task? (Tid.wf o c n) = s.task? (Tid.wf o c n) := by unfold task?; rw [hX]
  rw [this] at hr
  exact h c n r hr

/-- old records keep FINISHED (`TaskStep`), no new record of `o` -/
theorem freed_finT_taskStep {s X : Sys} {o : Oid} (hT : TaskStep s X)
    (hnew : ∀ c n r', s.task? (Tid.wf o c n) = none → X.task? (Tid.wf o c n) = some r' → False)
    (h : FreedFinT s o) : FreedFinT X o := by
  intro c n r' hr'
  rcases hT.bwd hr' with ⟨r, hr, hk⟩ | ⟨h0, _⟩
  · exact hk.status ⟨o, c, n, task?_id hr⟩ (h c n r hr)
  · exact (hnew c n r' h0 hr').elim

/-- the records of one task are rewritten: either the update keeps or sets FINISHED, or the task is
not a workflow task of `o` -/
theorem freed_finT_updTask {s X : Sys} {o : Oid} (t : Tid) (f : TaskRec → TaskRec)
    (hid : ∀ r, (f r).id = r.id) (hX : X.tasks = (s.updTask t f).tasks)
    (hf : (∀ r, (f r).status = .finished ∨ (f r).status = r.status) ∨ (∀ c n, t ≠ Tid.wf o c n))
    (h : FreedFinT s o) : FreedFinT X o := by
  intro c n r' hr'
  have hXt : X.task? (Tid.wf o c n) = (s.updTask t f).task? (Tid.wf o c n) := by unfold task?; rw [hX]
  rw [hXt, task?_updTask s t _ f hid] at hr'
  cases h0 : s.task? (Tid.wf o c n) with
  | none => rw [h0] at hr'; cases hr'
  | some r =>
    rw [h0] at hr'
    simp only [Option.map_some] at hr'
    injection hr' with hr'
    subst hr'
    have hfin := h c n r h0
    split
    · rename_i e
      rcases hf with hf | hf
      · rcases hf r with h1 | h1
        · exact h1
        · rw [h1]; exact hfin
      · exact absurd (e.symm.trans (task?_id h0)) (hf c n)
    · exact hfin

/-- a live allocation process never carries a FINISHED workflow task of `o` … -/
theorem freed_no_alloc {s : Sys} (hs : SInv s) (hwi : WI s) {o : Oid} (h : FreedFinT s o) {a : Proc}
    (ha : a ∈ s.procs) (haa : a.alive = true) {t : Tid} {m : Mid} {preds : List Tid} {obs : Option Oid}
    {ing : Bool} {ret : Nat} (hk : a.k = .allocTask t m preds obs ing ret) : ∀ c n, t ≠ Tid.wf o c n := by
  intro c n e
  obtain ⟨U, hU⟩ := hs.ci
  obtain ⟨r, hr, _⟩ := hU.hasRec a ha t m preds obs ing ret hk
  have hr' : s.task? t = some r := hr
  have hfin : r.status = .finished := by
    rw [e] at hr'; exact h c n r hr'
  exact hwi.ast a ha haa t m preds obs ing ret hk ⟨o, c, n, e⟩ r (List.mem_of_find?_eq_some hr)
    (task?_id hr') hfin

/-- … and neither does a live task body -/
theorem freed_no_body {s : Sys} (hs : SInv s) (hwi : WI s) {o : Oid} (h : FreedFinT s o) {p : Proc}
    (hp : p ∈ s.procs) (ha : p.alive = true) {t : Tid} {m : Mid} {preds : List Tid} {ph tot : Nat}
    (hk : p.k = .doWork t m preds ph tot) : ∀ c n, t ≠ Tid.wf o c n := by
  obtain ⟨a, ha', haa, _, preds', obs, ing, hak⟩ := hs.dg.dwAlloc p hp ha t m preds ph tot hk
  exact freed_no_alloc hs hwi h ha' haa hak

/-- **One block keeps "every recorded workflow task of `o` is FINISHED"** while `o` is in
`scheduled` (shipped algorithm, state of a run that has not raised). -/
theorem freed_finT_block {s : Sys} (hs : SInv s) (hwi : WI s) (hbi : BufI s) (hno : s.alg ≠ .oracle)
    {p : Proc} (hp : p ∈ s.procs) (ha : p.alive = true) (orc : Oracle) {o : Oid}
    (hin : o ∈ s.buf.hot.scheduled) (h : FreedFinT s o) : FreedFinT (s.block p orc).1 o := by
  by_cases h2 : p.k.tag = "allocTask"
  · cases hk : p.k <;> rw [hk] at h2 <;> simp [PK.tag] at h2
    rename_i t m preds obs ing ret
    have hne := freed_no_alloc hs hwi h hp ha hk
    rw [block_allocTask orc hk]
    rcases allocTaskBlock_cases s hs.pw p.wake t m preds obs ing ret with
      ⟨_, e, _, heq⟩ | ⟨_, _, heq⟩ | ⟨_, _, heq⟩ | ⟨_, _, e, _, heq⟩ | ⟨_, _, _, heq⟩ <;> rw [heq]
    · exact h.congr rfl
    · exact freed_finT_updTask t (fun r => { r with status := .scheduled }) (fun _ => rfl) rfl (Or.inr hne) h
    · exact h
    · exact h.congr rfl
    · exact freed_finT_updTask t (fun r => { r with status := .finished }) (fun _ => rfl) rfl
        (Or.inl fun _ => Or.inl rfl) h
  · by_cases h3 : p.k.tag = "doWork"
    · cases hk : p.k <;> rw [hk] at h3 <;> simp [PK.tag] at h3
      rename_i t m preds ph tot
      have hne := freed_no_body hs hwi h hp ha hk
      rw [block_doWork orc hk]
      rcases doWorkBlock_tasks s p.wake orc t m preds ph tot with e | ⟨f, hid, hst, e⟩
      · exact h.congr e
      · rcases hst with hst | hst
        · exact freed_finT_updTask t f hid e (Or.inr hne) h
        · exact freed_finT_updTask t f hid e (Or.inl fun r => Or.inr (hst r)) h
    · obtain ⟨hT, _⟩ := block_taskStep s p orc hno h2 h3
      refine freed_finT_taskStep hT ?_ h
      intro c n r' h0 hr'
      by_cases h1 : p.k.tag = "schedLoop"
      · have hk : p.k = .schedLoop := by cases hk : p.k <;> rw [hk] at h1 <;> simp [PK.tag] at h1
        rw [block_schedLoop orc hk] at hr'
        rcases schedLoopBlock_buf s p.wake orc with ⟨_, _, ht, _, _⟩ |
          ⟨oid, ob, recs, plan, hnx, hob, hrp, _, _, ht, _⟩
        · have : (s.schedLoopBlock p.wake orc).1.task? (Tid.wf o c n) = s.task? (Tid.wf o c n) := by
            unfold task?; rw [ht]
          rw [this, h0] at hr'; cases hr'
        · rw [task?_append s _ recs ht, h0] at hr'
          simp only at hr'
          have hmem : r' ∈ recs := List.mem_of_find?_eq_some hr'
          have hid : r'.id = Tid.wf o c n := by simpa using List.find?_some hr'
          obtain ⟨_, _, _, g4⟩ := planOf_shape ob (natNow p.wake) s.staticPlan orc.plan recs plan hrp
          obtain ⟨n', e', _⟩ := g4 r' hmem
          rw [hid] at e'
          injection e' with e1 _ _
          have hoid : ob.id = oid := (obs_mem_of_obs? hob).2
          obtain ⟨_, hst, _, _⟩ := bufList_next s.buf oid hnx
          rw [← hoid, ← e1] at hst
          exact l7_stored_not_sched hbi hst hin
      · have := (block_quietB s p orc hno h1 h2 h3).newIng _ r' h0 hr'
        simp [Tid.isIngest] at this

/-- **One step of the run.**  `s` is a state of a run of a shipped algorithm, `o` is resident as
scheduled and every workflow record of `o` is FINISHED.  Process `pid` (enabled) runs one block
and the run has still not raised.  If `pid` is `o`'s `allocate_tasks` process, `o` is among the
removed observations after the block; otherwise `o` is still scheduled and its records are still
all FINISHED. -/
theorem freed_done_step (s0 s : Sys) (hw : WFConfig s0) (hbuf : bufList s0.buf = [])
    (halg : FreedShipped s0.alg) (h : ReachOk s0 s) {pid : Nat} {orc : Oracle} (hen : s.enabled pid)
    (hc' : (s.resume pid orc).1.crashed = none) (o : Oid) (hin : o ∈ s.buf.hot.scheduled)
    (hall : FreedAllFin s o) :
    ∃ p, s.proc? pid = some p ∧ p.alive = true ∧
      ((∃ sc pa po, p.k = .allocTasks o sc pa po false) → o ∈ (s.resume pid orc).1.buf.hot.finished) ∧
      ((∀ sc pa po, p.k ≠ .allocTasks o sc pa po false) →
        o ∈ (s.resume pid orc).1.buf.hot.scheduled ∧ FreedAllFin (s.resume pid orc).1 o) := by
  obtain ⟨p, hp, ha, hmin⟩ := hen
  obtain ⟨hc0, hnr⟩ := resume_nocrash s pid orc p hp ha hc'
  obtain ⟨hpm, hpid⟩ := proc?_some hp
  have hno0 := halg.noOracle
  have hno : s.alg ≠ .oracle := by rw [reach_alg h.toReach]; exact hno0
  have hs := reach_inv s0 s hw h
  refine ⟨p, hp, ha, ?_, ?_⟩
  · rintro ⟨sc, pa, po, hk⟩
    obtain ⟨q, pa', po', pl, hq, hqa, hqk, _, hpl, hfin⟩ :=
      freed_traj_state s0 s hw hbuf halg h hc0 o hin hall
    have hri := freed_reach_ri s0 s hw hbuf halg h.toReach
    have hqm := (proc?_some hq).1
    have hpq : p = q := hs.pw.eq_of_pid hpm hqm (hri.atsUniq p hpm q hqm ha hqa o _ _ _ _ _ _ hk hqk)
    subst hpq
    obtain ⟨_, hb, _⟩ := freed_resume_complete s pid orc p o pa' po' pl hp ha hqk hpl hfin
      (fun e => absurd e hno) hin (fun e he => hnr e (by rw [← freed_resume_yield s pid orc p hp ha]; exact he))
    rw [hb, (freed_remove_spec s.buf o hin).2.1]
    simp
  · intro hne
    have hok' : ReachOk s0 (s.resume pid orc).1 :=
      ReachOk.step s pid orc h ⟨p, hp, ha, hmin⟩ (fun e => absurd e hno)
    have hwi' := reachOk_wi s0 _ hw hbuf hok' hc'
    have hwi := reachOk_wi s0 s hw hbuf h hc0
    have hbi := reachOk_bufi s0 s hw hbuf h
    refine ⟨?_, ?_⟩
    · rw [resume_buf s pid orc p hp ha]
      rcases (block_hot s p orc).2.1 o hin with h1 | ⟨sc, pa, po, hk⟩
      · exact h1
      · exact absurd hk (hne sc pa po)
    · have hX := freed_finT_block hs hwi hbi hno hpm ha orc hin hall.toT
      exact (hX.congr (il_resume_fields s pid orc p hp ha).2.2).toAll hwi'

end Sys

end Topsim
