/-
  LiveB22 — one block of `allocate_tasks` under BatchProcessing with an empty leftover schedule
  (`nco_allocTasksBlock_B`): the allocation processes it creates ask for pairwise different machines,
  each idle in the reservation of the observation AFTER the block; and a block that does not raise
  leaves an empty leftover schedule again.
-/
import TopsimProofs.LiveB21
import TopsimProofs.Reserve7

namespace Topsim
namespace Sys

open Cluster

theorem lb_idleOf_nodup {c : Cluster} {U : List Tid} (h : Inv c U) (o : Oid) : (c.idleOf (some o)).Nodup := by
  rw [List.nodup_iff_count]
  intro m
  by_cases hm : m ∈ c.idleOf (some o)
  · rw [(Inv.idle_excl h hm).2.2.2.2]; exact Nat.le_refl 1
  · rw [List.count_eq_zero_of_not_mem hm]; omega

theorem lb_idle_not_occupied {c : Cluster} {U : List Tid} (h : Inv c U) {o : Oid} {m : Mid}
    (hm : m ∈ c.idleOf (some o)) : c.isOccupied m = false := by
  obtain ⟨_, h2, h3, _⟩ := Inv.idle_excl h hm
  unfold isOccupied
  simp [h2, h3]

theorem lb_idle_machine {c : Cluster} {U : List Tid} (h : Inv c U) {o : Oid} {m : Mid}
    (hm : m ∈ c.idleOf (some o)) : m ∈ c.machines := by
  obtain ⟨l, hg, hml⟩ := mem_idleOf_iff.mp hm
  have h1 := idle_count_le hg m
  have h2 := h.part m
  have h3 := count_pos_of_mem hml
  exact List.count_pos_iff.mp (by omega)

/-- a process created by one iteration of `_process_current_schedule` is the allocation process of an
entry of the schedule -/
theorem lb_processOne_new (now : Time) (oid : Oid) (st : PcsSt) (x : Tid) :
    ∃ add, (processOne now oid st x).s.procs = st.s.procs ++ add ∧
      ∀ q ∈ add, ∃ m cross, q.k = .allocTask x m cross (some oid) false 0 ∧ (x, m) ∈ st.schedule := by
  have hsame : ∀ X : Sys, X.procs = st.s.procs → ∃ add, X.procs = st.s.procs ++ add ∧
      ∀ q ∈ add, ∃ m cross, q.k = .allocTask x m cross (some oid) false 0 ∧ (x, m) ∈ st.schedule :=
    fun X h => ⟨[], by simp [h], by simp⟩
  unfold processOne
  cases hok : st.err with
  | some e => exact hsame _ rfl
  | none =>
    simp only
    cases hm : dictGet st.schedule x with
    | none => exact hsame _ rfl
    | some m =>
      cases hr : st.s.task? x with
      | none => exact hsame _ rfl
      | some r =>
        simp only []
        cases hmm : st.s.machine? m with
        | none => exact hsame _ rfl
        | some mm =>
          simp only []
          by_cases hz : ((r.allocObj || r.planned != some m) = true ∧ (mm.cpu = 0 ∨ mm.bw = 0))
          · rw [if_pos hz]; exact hsame _ rfl
          · simp only [hz, if_false]
            generalize hs1 : (if (r.allocObj || r.planned != some m) = true then
              st.s.updTask x (fun r => updateAllocation r mm) else st.s) = s1
            have hp1 : s1.procs = st.s.procs := by
              subst hs1; split <;> rfl
            by_cases hocc : (st.curr.contains m = true ∨ s1.cl.isOccupied m = true)
            · rw [if_pos hocc]
              exact hsame _ hp1
            · rw [if_neg hocc]
              by_cases hmiss : (r.preds.any fun p => !dictHas (dictSet st.pairs x m) p) = true
              · rw [if_pos hmiss]
                exact hsame _ hp1
              · rw [if_neg hmiss]
                by_cases hst : r.status ≠ TStatus.unscheduled
                · rw [if_pos hst]
                  exact hsame _ hp1
                · rw [if_neg hst]
                  refine ⟨[Proc.mk s1.nextPid
                    (.allocTask x m (crossPreds (dictSet st.pairs x m) r.preds m) (some oid) false 0) 0 now true], ?_, ?_⟩
                  · show s1.procs ++ _ = _
                    rw [hp1]
                  · intro q hq
                    simp only [List.mem_singleton] at hq
                    subst hq
                    exact ⟨m, _, rfl, dictGet_some_mem hm⟩

theorem lb_pcs_new (a : Sys) (now : Time) (oid : Oid) (sched0 pairs0 : List (Tid × Mid)) :
    ∃ new, (processCurrentSchedule a now oid sched0 pairs0).s.procs = a.procs ++ new ∧
      ∀ q ∈ new, ∃ t m cross, q.k = .allocTask t m cross (some oid) false 0 ∧ (t, m) ∈ sched0 := by
  unfold processCurrentSchedule
  simp only
  generalize ((dictKeys sched0).mergeSort _) = l
  have key : ∀ (l : List Tid) (st : PcsSt),
      ((∀ y ∈ st.schedule, y ∈ sched0) ∧
       (∃ new, st.s.procs = a.procs ++ new ∧
          ∀ q ∈ new, ∃ t m cross, q.k = .allocTask t m cross (some oid) false 0 ∧ (t, m) ∈ sched0)) →
      (∃ new, (l.foldl (processOne now oid) st).s.procs = a.procs ++ new ∧
          ∀ q ∈ new, ∃ t m cross, q.k = .allocTask t m cross (some oid) false 0 ∧ (t, m) ∈ sched0) := by
    intro l
    induction l with
    | nil => intro st h; exact h.2
    | cons x r ih =>
      intro st h
      obtain ⟨h2, new, e1, h3⟩ := h
      obtain ⟨_, g2, _⟩ := nc_processOne_pairs now oid st x
      obtain ⟨add, e2, h4⟩ := lb_processOne_new now oid st x
      apply ih
      refine ⟨fun y hy => h2 y (g2 y hy), new ++ add, by rw [e2, e1, List.append_assoc], ?_⟩
      intro q hq
      rcases List.mem_append.mp hq with h5 | h5
      · exact h3 q h5
      · obtain ⟨m, cross, hk, hmem⟩ := h4 q h5
        exact ⟨x, m, cross, hk, h2 _ hmem⟩
  exact key l _ ⟨fun _ h => h, [], by simp, by simp⟩

/-- **One block of `allocate_tasks`, BatchProcessing, empty leftover schedule.** -/
theorem nco_allocTasksBlock_B (s : Sys) (now : Time) (orc : Oracle) (pc : Nat) (oid : Oid)
    (pa : List (Tid × Mid)) (po : List Tid) (fin : Bool) {U : List Tid} (hinv : Cluster.Inv s.cl U)
    {parts minPer : Nat} {split : Option (List (Oid × Nat × Nat))} (halg : s.alg = .batch parts minPer split) :
    ∃ new, (s.allocTasksBlock now orc pc oid [] pa po fin).1.procs = s.procs ++ new ∧
      (new.map (fun q => q.k.ncoMach)).Nodup ∧
      (∀ q ∈ new, ∃ t m cross, q.k = .allocTask t m cross (some oid) false 0 ∧
        m ∈ (s.allocTasksBlock now orc pc oid [] pa po fin).1.cl.idleOf (some oid)) ∧
      (∀ d, (s.allocTasksBlock now orc pc oid [] pa po fin).2.2 = .timeout d →
        ∃ pa' po' fn', (s.allocTasksBlock now orc pc oid [] pa po fin).2.1 = .allocTasks oid [] pa' po' fn') := by
  cases fin with
  | true =>
    rw [allocTasksBlock_fin]
    exact ⟨[], by simp, by simp, by simp, fun d hd => by cases hd⟩
  | false =>
    rw [allocTasksBlock_eq]
    have a1 := atStart_cl s now pc oid
    have a2 := atStart_procs s now pc oid
    have a4 := atStart_alg s now pc oid
    generalize atStart s now pc oid = a at a1 a2 a4
    have c := updateCurrentPlan_core a oid
    have b1 : (a.updateCurrentPlan oid).cl = s.cl := c.cl.trans a1
    have b2 : (a.updateCurrentPlan oid).procs = s.procs := c.procs.trans a2
    have b4 : (a.updateCurrentPlan oid).alg = .batch parts minPer split := by
      rw [updateCurrentPlan_alg, a4]; exact halg
    have hbatch : ∀ plan out, (a.updateCurrentPlan oid).runAlgorithm orc plan [] po = .ok out →
        Alg.batchRun s.cl plan (a.updateCurrentPlan oid).taskView parts minPer split [] po = .ok out := by
      intro plan out hrun
      unfold runAlgorithm at hrun
      rw [b4, b1] at hrun
      exact hrun
    have hnil : ∀ out : AlgOut, out.schedule.isEmpty = true → out.schedule = [] := by
      intro out he; simpa using he
    have hp3 : ∀ out, (atS3 (a.updateCurrentPlan oid) out oid).procs = s.procs ++ [] := by
      intro out; rw [atS3_procs, b2]; simp
    have hout := allocTasksIter_out a now orc oid [] pa po
    generalize hr : a.allocTasksIter now orc oid [] pa po = r at hout ⊢
    cases hout with
    | noPlan _ => exact ⟨[], by simp [b2], by simp, by simp, fun d hd => by cases hd⟩
    | algErr plan e _ _ => exact ⟨[], by simp [b2], by simp, by simp, fun d hd => by cases hd⟩
    | finish plan out _ hrun hemp _ _ _ =>
      exact ⟨[], hp3 out, by simp, by simp, fun d _ => ⟨pa, out.pool, true, by rw [hnil out hemp]⟩⟩
    | finishBad plan out _ hrun hemp _ _ _ =>
      exact ⟨[], hp3 out, by simp, by simp, fun d hd => by cases hd⟩
    | finishWait plan out _ hrun hemp _ _ =>
      exact ⟨[], hp3 out, by simp, by simp, fun d _ => ⟨pa, out.pool, false, by rw [hnil out hemp]⟩⟩
    | idle plan out _ hrun hemp _ =>
      exact ⟨[], hp3 out, by simp, by simp, fun d _ => ⟨pa, out.pool, false, by rw [hnil out hemp]⟩⟩
    | alloc plan out y hplan hrun hemp hy =>
      have hpobs : plan.obs = oid := (plan?_mem hplan).2
      have hrun' := hbatch plan out hrun
      have hne : out.schedule ≠ [] := by
        intro e; rw [e] at hemp; simp at hemp
      -- the proposals
      have hnd1 : ∀ cl1 b, Alg.provisionResources s.cl parts minPer split plan.obs = .ok (cl1, b) →
          (cl1.idleOf (some plan.obs)).Nodup := fun cl1 b hpr =>
        lb_idleOf_nodup ((clQuiet_provisionResources _ _ _ _ _ _ _ hpr).inv U hinv) _
      obtain ⟨hvals, cl1, b, hpr, hidl, hcl⟩ := lb_batchRun_fresh s.cl plan _ parts minPer split po out hrun' hnd1
      have hinv1 : Cluster.Inv cl1 U := (clQuiet_provisionResources _ _ _ _ _ _ _ hpr).inv U hinv
      have hcl3 : (atS3 (a.updateCurrentPlan oid) out oid).cl = cl1 := by rw [atS3_cl]; exact hcl hne
      have hkeys : (dictKeys out.schedule).Nodup :=
        (batchRun_facts _ _ _ _ _ _ _ _ _ hrun').2.1 (by simp [dictKeys])
      obtain ⟨h1, new, h2, h3, _⟩ := nco_pcs (atS3 (a.updateCurrentPlan oid) out oid) now oid out.schedule pa
      obtain ⟨new2, h2', hnew⟩ := lb_pcs_new (atS3 (a.updateCurrentPlan oid) out oid) now oid out.schedule pa
      have hnn : new2 = new := List.append_cancel_left (h2'.symm.trans h2)
      subst hnn
      refine ⟨new2, by rw [h2, atS3_procs, b2], h3, ?_, ?_⟩
      · intro q hq
        obtain ⟨t, m, cross, hk, hmem⟩ := hnew q hq
        refine ⟨t, m, cross, hk, ?_⟩
        show m ∈ (processCurrentSchedule (atS3 (a.updateCurrentPlan oid) out oid) now oid out.schedule pa).s.cl.idleOf (some oid)
        rw [h1, hcl3, ← hpobs]
        exact hidl (t, m) hmem
      · intro d hd
        simp only at hd
        have hnr : ∀ e, (a.allocTasksIter now orc oid [] pa po).2.2 ≠ .raised e := by
          intro e he
          rw [hr] at he
          simp only at he
          rw [hd] at he
          cases he
        have herr := l7_iter_alloc_err a now orc oid [] pa po plan out hplan hrun hemp hnr
        have hfree : ∀ x ∈ out.schedule, (atS3 (a.updateCurrentPlan oid) out oid).cl.isOccupied x.2 = false := by
          intro x hx
          rw [hcl3]
          exact lb_idle_not_occupied hinv1 (hidl x hx)
        refine ⟨(processCurrentSchedule (atS3 (a.updateCurrentPlan oid) out oid) now oid out.schedule pa).pairs,
          out.pool, false, ?_⟩
        show PK.allocTasks oid (processCurrentSchedule (atS3 (a.updateCurrentPlan oid) out oid) now oid out.schedule pa).schedule
          _ out.pool false = _
        rw [lb_pcs_nil _ now oid out.schedule pa hkeys hvals hfree herr]

end Sys
end Topsim
