/-
  BoundP6d — (plan-following algorithms; the counterpart of Bound6d, same proofs with the occupancy bound `boundP_tw_R`) timed liveness of the workflow-task workers (part 4): one block of the simulator keeps
  the invariant `BoundPTw` (at a fixed deadline), provided the allocation processes the block creates
  meet it (they do, with the deadline of the next index: Bound6e).
-/
import TopsimProofs.BoundP6c

namespace Topsim

open KState Sys

/-- the setting of one step -/
structure BoundPTwStep (env : SimEnv) (s0 s s' : Sys) (p : Proc) (new : List Proc) : Prop where
  X : BoundPTwCtx env s0 s
  X' : BoundPTwCtx env s0 s'
  step : L7Step s s' p (env.oracle s)
  hnew : (s.block p (env.oracle s)).1.procs = s.procs ++ new
  hnp : ∀ q ∈ new, q.alive = true ∧ q.pc = 0 ∧
    q.wake = (if p.k = .telescope then ((natNow p.wake : Nat) : Time) else p.wake) ∧ Sys.NewKind p.k q.k
  hd1 : env.delayTable = []
  hd2 : env.delayScript = []
  /-- the recorded finish of a task whose body has ended is kept -/
  aft : ∀ d ∈ s.procs, d.alive = false → ∀ t m preds ph tot, d.k = .doWork t m preds ph tot →
    ∀ r, s.task? t = some r → ∃ r', s'.task? t = some r' ∧ r'.aft = r.aft

section
variable {env : SimEnv} {s0 s s' : Sys} {p : Proc} {new : List Proc}

theorem BoundPTwStep.mem (S : BoundPTwStep env s0 s s' p new) :
    Sys.MemSpec s s' p (fin (s.block p (env.oracle s)).2.1 (s.block p (env.oracle s)).2.2 p.wake p) new :=
  S.step.memSpec S.X.sinv S.hnew

theorem BoundPTwStep.task?_eq (S : BoundPTwStep env s0 s s' p new) (t : Tid) :
    s'.task? t = (s.block p (env.oracle s)).1.task? t := by
  unfold Sys.task?; rw [S.step.tasks]

/-! ### the bodies -/

theorem boundP_tw_step_dw (S : BoundPTwStep env s0 s s' p new) {B : Time} (h : BoundPTw env s0 s B) :
    ∀ d ∈ s'.procs, d.alive = true → ∀ t m preds ph tot, d.k = .doWork t m preds ph tot →
    t.isIngest = false →
    (ph = 0 → d.wake + ((bound_tw_W s0 t : Nat) : Time) + ((boundP_tw_R env s0 t : Nat) : Time) + 1 ≤ B) ∧
    (ph = 1 → d.wake + ((boundP_tw_R env s0 t : Nat) : Time) + 1 ≤ B) ∧
    (ph = 2 → d.wake + 2 ≤ B) := by
  have hpm := S.step.mem
  have hpa := S.step.ha
  have hpw := S.X.sinv.pw
  intro d hd hda t m preds ph tot hk hti
  rcases (S.mem d).mp hd with hde | ⟨hold, _⟩ | hnw
  · -- the body that ran
    have hdk : (s.block p (env.oracle s)).2.1 = .doWork t m preds ph tot := by
      rw [← hk, hde, fin_k]
    have htag : p.k.tag = "doWork" := by
      rw [← block_tag s hpw p (env.oracle s), hdk]; rfl
    obtain ⟨t1, m1, preds1, ph1, tot1, hpk⟩ := bound_tw_tag_doWork htag
    have hb := block_doWork (s := s) (p := p) (env.oracle s) hpk
    have hsh := Sys.bound_tw_dwShape s p.wake (env.oracle s) t1 m1 preds1 ph1 tot1
    rw [hde] at hda ⊢
    rw [hb] at hdk hda ⊢
    generalize s.doWorkBlock p.wake (env.oracle s) t1 m1 preds1 ph1 tot1 = Y at hsh hdk hda ⊢
    cases hsh with
    | raised ph' e => exact absurd hda (by simp [fin])
    | wait w h0 hne hw =>
      cases hdk
      subst h0
      refine ⟨fun e => absurd e (by omega), fun _ => ?_, fun e => absurd e (by omega)⟩
      show p.wake + w + _ + 1 ≤ B
      have h1 := boundP_tw_wait_le S.X hpm hpa hpk hti hw
      have h2 := (h.dw p hpm hpa _ _ _ _ _ hpk hti).1 rfl
      grind
    | start r mm dur hph hr hmm hdur =>
      cases hdk
      refine ⟨fun e => absurd e (by omega), fun e => absurd e (by omega), fun _ => ?_⟩
      have htot : (env.oracle s).bodyTotal t (s.starts.filter (fun x => !x.isIngest)).length dur = dur :=
        env_rel_nodelay S.hd1 S.hd2 ⟨_, env_oracle_bodyTotal env s t _ dur⟩
      show p.wake + ((bodyWait ((env.oracle s).bodyTotal t (s.starts.filter (fun x => !x.isIngest)).length dur)
        : Nat) : Rat) + 2 ≤ B
      rw [htot]
      have h1 := boundP_tw_occ_le S.X hr hmm hti hdur
      have h3 : ((bodyWait dur + 1 : Nat) : Rat) ≤ ((boundP_tw_R env s0 t : Nat) : Rat) := by exact_mod_cast h1
      push_cast at h3
      have hW : (0 : Time) ≤ ((bound_tw_W s0 t : Nat) : Time) := Rat.natCast_nonneg
      obtain ⟨g0, g1, _⟩ := h.dw p hpm hpa _ _ _ _ _ hpk hti
      rcases hph with e | ⟨e, _⟩
      · have := g1 e; grind
      · have := g0 e; grind
    | finish hph => exact absurd hda (by simp [fin])
  · exact h.dw d hold hda t m preds ph tot hk hti
  · -- a new body
    obtain ⟨_, _, hwk, hkind⟩ := S.hnp d hnw
    obtain ⟨hph, obs, ing, ret, hpk⟩ := bound_tw_new_dw hkind hk
    subst hph
    rw [hpk] at hwk
    simp only [reduceCtorEq, if_false] at hwk
    have hnew' : (s.allocTaskBlock p.wake t m preds obs ing ret).1.procs = s.procs ++ new := by
      rw [← block_allocTask (env.oracle s) hpk]; exact S.hnew
    obtain ⟨hnr, _, _, _⟩ := Sys.bound_tw_at_spawn s hpw p.wake t m preds obs ing ret hnew' hnw
    obtain ⟨U, hU⟩ := S.X.sinv.ci
    have hpc := hU.pc_zero hpm hpa hpk hnr
    refine ⟨fun _ => ?_, fun e => absurd e (by omega), fun e => absurd e (by omega)⟩
    rw [hwk]
    exact h.at0 p hpm hpa t m preds obs ing ret hpk hti hpc

/-! ### allocation processes before their first block -/

theorem boundP_tw_step_at0 (S : BoundPTwStep env s0 s s' p new) {B : Time} (h : BoundPTw env s0 s B)
    (hats : ∀ o sc pa po fn, p.k = .allocTasks o sc pa po fn → ∀ q ∈ new, ∀ t m preds obs ing ret,
      q.k = .allocTask t m preds obs ing ret → t.isIngest = false →
      q.wake + ((bound_tw_W s0 t : Nat) : Time) + ((boundP_tw_R env s0 t : Nat) : Time) + 1 ≤ B) :
    ∀ a ∈ s'.procs, a.alive = true → ∀ t m preds obs ing ret, a.k = .allocTask t m preds obs ing ret →
    t.isIngest = false → a.pc = 0 →
    a.wake + ((bound_tw_W s0 t : Nat) : Time) + ((boundP_tw_R env s0 t : Nat) : Time) + 1 ≤ B := by
  intro a ha haa t m preds obs ing ret hk hti hpc
  rcases (S.mem a).mp ha with hae | ⟨hold, _⟩ | hnw
  · rw [hae, fin_pc] at hpc
    omega
  · exact h.at0 a hold haa t m preds obs ing ret hk hti hpc
  · obtain ⟨_, _, _, hkind⟩ := S.hnp a hnw
    rcases bound_tw_new_at hkind hk with ⟨hing, _⟩ | ⟨_, o, sc, pa, po, fn, hpk⟩
    · -- created by the provisioner: an ingest task
      exfalso
      subst hing
      obtain ⟨U, hU⟩ := S.X'.sinv.ci
      have := hU.inv.pendTask _ (hU.pend a ha haa t m preds obs ret hk hpc)
      rw [hti] at this
      exact absurd this (by simp)
    · exact hats o sc pa po fn hpk a hnw t m preds obs ing ret hk hti

end

end Topsim
