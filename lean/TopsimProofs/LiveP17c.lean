/-
  LiveP17c — the declarations of Live17c.lean that depend on the configuration structures, restated for
  the plan-following configurations (`LivePCfg`, `NcPCfg`, `L7PLib`); the proofs are those of Live17c.lean.
  `RI.nc_afterQueue_P` uses the facts about the plan-following `run()` (`nc_planRun_facts_P`) instead of `nc_queueRun_facts`.
-/
import TopsimProofs.LiveP17b

namespace Topsim

namespace Sys

open Cluster

-- (the counterpart of `nc_queueRun_facts` is in LiveP2)

/-- after `QueueProcessing.run`: the plan status it returns, the schedule it proposes -/
theorem RI.nc_afterQueue_P {s1 : Sys} (h : RI s1) {U : List Tid} (hinv : Cluster.Inv s1.cl U) {p : Proc}
    (hp : p ∈ s1.procs) (ha : p.alive = true) {oid : Oid} {sc pa : List (Tid × Mid)} {po : List Tid}
    (hk : p.k = .allocTasks oid sc pa po false) (plan : Plan) (hplan : s1.plan? oid = some plan)
    (out : AlgOut) (orc : Oracle) (halg : PlanAlg s1.alg) (hrun : s1.runAlgorithm orc plan sc po = .ok out) :
    RI (atS3 s1 out oid) ∧ (atS3 s1 out oid).cl.runOn = s1.cl.runOn ∧
    (out.status = .finished → plan.tasks = []) ∧
    (dictKeys out.schedule).Nodup ∧
    (∀ t ∈ dictKeys out.schedule, t ∈ planTasks s1 oid ∧ tstat s1 t = .unscheduled) ∧
    (dictKeys (atS3 s1 out oid).cl.idle).Nodup := by
  obtain ⟨hkeys, hnd, hstat, hout⟩ := nc_planRun_facts_P s1 orc plan sc po out halg hrun
  obtain ⟨hplm, hpobs⟩ := plan?_mem hplan
  obtain ⟨slnd, slk⟩ := h.sl p hp ha oid sc pa po hk
  obtain ⟨hoq, _⟩ := h.atsQ p hp ha oid sc pa po hk
  have hPT : planTasks s1 oid = plan.tasks := by unfold planTasks; rw [hplan]
  have hcl : KeyNE out.cl ∧ out.cl.runOn = s1.cl.runOn ∧
      (∀ x ∈ dictKeys out.cl.idle, x = oid ∨ x ∈ dictKeys s1.cl.idle) ∧ (dictKeys out.cl.idle).Nodup := by
    rw [hout]; exact ⟨h.keyNE, rfl, fun x hx => Or.inr hx, hinv.keys⟩
  obtain ⟨l1, l2, l3, l4⟩ := hcl
  have hfin : out.status = .finished → plan.tasks = [] := by
    intro hf
    rcases hstat hf with h0 | h0
    · exact h0
    · exact h.pf plan hplm h0
  have hsk : ∀ t ∈ dictKeys out.schedule, t ∈ planTasks s1 oid ∧ tstat s1 t = .unscheduled := by
    intro t ht
    rcases hkeys t ht with h1 | ⟨h1, h2⟩
    · exact slk t h1
    · exact ⟨by rw [hPT]; exact h1, h2⟩
  refine ⟨?_, by rw [atS3_cl]; exact l2, hfin, hnd slnd, hsk, by rw [atS3_cl]; exact l4⟩
  constructor
  · rw [atS3_queue]; exact h.qNodup
  · intro q hq hqa o sc' pa' po' hqk
    rw [atS3_procs] at hq
    obtain ⟨a1, a2⟩ := h.atsQ q hq hqa o sc' pa' po' hqk
    refine ⟨by rw [atS3_queue]; exact a1, ?_⟩
    rw [plan?_map s1 (atS3 s1 out oid) oid (fun p => { p with status := out.status }) (fun _ => rfl)
      (atS3_plans s1 out oid) o]
    cases hpo : s1.plan? o with
    | none => rw [hpo] at a2; simp at a2
    | some pl => rfl
  · rw [atS3_procs]; exact h.atsUniq
  · intro q hq hqa o sc' pa' po' hqk
    rw [atS3_procs] at hq
    obtain ⟨a1, a2⟩ := h.sl q hq hqa o sc' pa' po' hqk
    exact ⟨a1, fun t ht => ⟨by rw [atS3_planTasks]; exact (a2 t ht).1, by rw [atS3_tstat]; exact (a2 t ht).2⟩⟩
  · intro pl' hpl' t ht
    rw [atS3_plans] at hpl'
    obtain ⟨pl, hpl0, rfl⟩ := List.mem_map.mp hpl'
    have : ∃ c n, t = Tid.wf pl.obs c n := by
      apply h.pt pl hpl0 t
      split at ht <;> exact ht
    split <;> exact this
  · intro pl' hpl' hf
    rw [atS3_plans] at hpl'
    obtain ⟨pl, hpl0, rfl⟩ := List.mem_map.mp hpl'
    by_cases e : pl.obs = oid
    · simp only [e, if_true] at hf ⊢
      have : pl = plan := eq_of_map_nodup h.pn hpl0 hplm (e.trans hpobs.symm)
      rw [this]; exact hfin hf
    · simp only [e, if_false] at hf ⊢
      exact h.pf pl hpl0 hf
  · rw [atS3_plans, List.map_map]
    have : (fun pl : Plan => pl.obs) ∘ (fun pl => if pl.obs = oid then { pl with status := out.status } else pl)
        = fun pl => pl.obs := by
      funext pl; simp only [Function.comp]; split <;> rfl
    rw [this]; exact h.pn
  · intro q hq hqa t m preds o ret hqk
    rw [atS3_procs] at hq
    obtain ⟨a1, a2⟩ := h.st q hq hqa t m preds o ret hqk
    exact ⟨by rw [atS3_tstat]; exact a1, by rw [atS3_planTasks]; exact a2⟩
  · rw [atS3_cl, atS3_procs, l2]; exact h.rc
  · intro o ho
    rw [atS3_cl] at ho
    rw [atS3_queue]
    rcases l3 o ho with e | e
    · rw [e]; exact hoq
    · exact h.keyQ o e
  · rw [atS3_cl]; exact l1

attribute [local irreducible] atS3 atStart Sys.updateCurrentPlan processCurrentSchedule in
theorem nc_ri_allocTasks_queue_P {s : Sys} (hs : SInv s) (h : RI s) {p : Proc} (hp : p ∈ s.procs) (ha : p.alive = true)
    (orc : Oracle) {oid : Oid} {sc pa : List (Tid × Mid)} {po : List Tid} {fn : Bool}
    (hk : p.k = .allocTasks oid sc pa po fn) (halg : PlanAlg s.alg) :
    RI ((s.block p orc).1.updProc p.pid (fin (s.block p orc).2.1 (s.block p orc).2.2 p.wake)) := by
  have hpw := hs.pw
  obtain ⟨U, hU⟩ := hs.ci
  have hb : s.block p orc = s.allocTasksBlock p.wake orc p.pc oid sc pa po fn := by
    unfold block; simp only [hk]
  have hpre : s.alg = .oracle → orc.preOk := fun e => absurd e halg.noOracle
  have hpwX : PW (s.block p orc).1 := by
    rw [hb]; exact (allocTasksBlock_pres _ _ _ hpre _ _ _ _ _ _).pw hpw
  rw [hb] at hpwX ⊢
  cases fn with
  | true =>
    rw [allocTasksBlock_fin] at hpwX ⊢
    simp only at hpwX ⊢
    have hm := memSpec_updProc hpw hp [] (by simp) hpw (fin (.allocTasks oid sc pa po true) .done p.wake)
    refine h.step' hpw hp hm (by simp) rfl rfl ?_ ?_ ?_ ?_ ?_ ?_ ?_ ?_
    · intro q _ _ _ o sc1 pa1 po1 _ t _ hu; exact hu
    · intro o c n hf; exact Or.inl hf
    · intro q hq hqa o sc2 pa2 po2 hqk
      rcases hq with rfl | hq
      · simp at hqa
      · simp at hq
    · intro hqa; simp at hqa
    · intro q hq hqa t m preds o ret hqk
      rcases hq with rfl | hq
      · simp at hqa
      · simp at hq
    · exact rc_quiet h hpw hp hm rfl (by rw [hk]; simp [PK.tag])
    · exact h.keyQ
    · exact h.keyNE
  | false =>
    rw [allocTasksBlock_eq] at hpwX ⊢
    obtain ⟨h1, e_procs, e_np, e_q, e_cl, e_alg, e_ts⟩ := h.pruned p.wake p.pc oid
    have hp1 : p ∈ ((atStart s p.wake p.pc oid).updateCurrentPlan oid).procs := by rw [e_procs]; exact hp
    have hpw1 : PW ((atStart s p.wake p.pc oid).updateCurrentPlan oid) :=
      ⟨by rw [e_procs]; exact hpw.nodup, by rw [e_procs, e_np]; exact hpw.lt⟩
    have hinv1 : Cluster.Inv ((atStart s p.wake p.pc oid).updateCurrentPlan oid).cl U := by rw [e_cl]; exact hU.inv
    have hout := allocTasksIter_out (atStart s p.wake p.pc oid) p.wake orc oid sc pa po
    generalize (atStart s p.wake p.pc oid).allocTasksIter p.wake orc oid sc pa po = r at hout hpwX ⊢
    have halg1 : PlanAlg ((atStart s p.wake p.pc oid).updateCurrentPlan oid).alg := by rw [e_alg]; exact halg
    have hpw3 : ∀ out, PW (atS3 ((atStart s p.wake p.pc oid).updateCurrentPlan oid) out oid) := fun out =>
      ⟨by rw [atS3_procs]; exact hpw1.nodup, by rw [atS3_procs, atS3_nextPid]; exact hpw1.lt⟩
    cases hout with
    | noPlan _ =>
      refine h1.atsSimple hpw1 hp1 ha hk ?_ hpwX ?_ ?_ ?_ ?_ hinv1.keys _ _ rfl (fun hqa => by simp at hqa)
      · rfl
      · rfl
      · rfl
      · exact fun t => tstat_of_tasks rfl t
      · exact Or.inl rfl
    | algErr plan e _ _ =>
      refine h1.atsSimple hpw1 hp1 ha hk ?_ hpwX ?_ ?_ ?_ ?_ hinv1.keys _ _ rfl (fun hqa => by simp at hqa)
      · rfl
      · rfl
      · rfl
      · exact fun t => tstat_of_tasks rfl t
      · exact Or.inl rfl
    | finish plan out hplan hrun hemp hfin hrem hq =>
      obtain ⟨h3, _, g3, _, _, g6⟩ := h1.nc_afterQueue_P hinv1 hp1 ha hk plan hplan out orc halg1 hrun
      have hempty : planTasks (atS3 ((atStart s p.wake p.pc oid).updateCurrentPlan oid) out oid) oid = [] := by
        rw [atS3_planTasks]; unfold planTasks; rw [hplan]; exact g3 hfin
      refine h3.atsFinish (hpw3 out) (by rw [atS3_procs]; exact hp1) ha hk ?_ hpwX ?_ ?_ ?_ ?_ g6
        hempty _ _ ⟨_, _, _, rfl⟩
      · rfl
      · rfl
      · rfl
      · exact fun t => tstat_of_tasks rfl t
      · rfl
    | finishBad plan out hplan hrun hemp hfin hrem hq =>
      obtain ⟨h3, _, _, _, _, g6⟩ := h1.nc_afterQueue_P hinv1 hp1 ha hk plan hplan out orc halg1 hrun
      refine h3.atsSimple (hpw3 out) (by rw [atS3_procs]; exact hp1) ha hk ?_ hpwX ?_ ?_ ?_ ?_ g6 _ _ rfl
        (fun hqa => by simp at hqa)
      · rfl
      · rfl
      · rfl
      · exact fun t => tstat_of_tasks rfl t
      · exact Or.inr rfl
    | finishWait plan out hplan hrun hemp hfin hrem =>
      obtain ⟨h3, _, _, g4, g5, g6⟩ := h1.nc_afterQueue_P hinv1 hp1 ha hk plan hplan out orc halg1 hrun
      refine h3.atsSimple (hpw3 out) (by rw [atS3_procs]; exact hp1) ha hk ?_ hpwX ?_ ?_ ?_ ?_ g6 _ _ rfl ?_
      · rfl
      · rfl
      · rfl
      · exact fun t => tstat_of_tasks rfl t
      · exact Or.inl rfl
      intro _ o sc2 pa2 po2 e
      simp only [PK.allocTasks.injEq] at e
      obtain ⟨rfl, rfl, _⟩ := e
      exact ⟨rfl, g4, fun t ht => ⟨by rw [atS3_planTasks]; exact (g5 t ht).1, by rw [atS3_tstat]; exact (g5 t ht).2⟩⟩
    | idle plan out hplan hrun hemp hnf =>
      obtain ⟨h3, _, _, g4, g5, g6⟩ := h1.nc_afterQueue_P hinv1 hp1 ha hk plan hplan out orc halg1 hrun
      refine h3.atsSimple (hpw3 out) (by rw [atS3_procs]; exact hp1) ha hk ?_ hpwX ?_ ?_ ?_ ?_ g6 _ _ rfl ?_
      · rfl
      · rfl
      · rfl
      · exact fun t => tstat_of_tasks rfl t
      · exact Or.inl rfl
      intro _ o sc2 pa2 po2 e
      simp only [PK.allocTasks.injEq] at e
      obtain ⟨rfl, rfl, _⟩ := e
      exact ⟨rfl, g4, fun t ht => ⟨by rw [atS3_planTasks]; exact (g5 t ht).1, by rw [atS3_tstat]; exact (g5 t ht).2⟩⟩
    | alloc plan out y hplan hrun hemp hy =>
      obtain ⟨h3, _, _, g4, g5, _⟩ := h1.nc_afterQueue_P hinv1 hp1 ha hk plan hplan out orc halg1 hrun
      exact h3.atsAlloc (hpw3 out) (by rw [atS3_procs]; exact hp1) ha hk p.wake out.schedule pa g4
        (fun t ht => ⟨by rw [atS3_planTasks]; exact (g5 t ht).1, by rw [atS3_tstat]; exact (g5 t ht).2⟩)
        hpwX out.pool y

theorem nc_ri_step_queue_P {s : Sys} (hs : SInv s) (h : RI s) (hbuf : BufI s) {pid : Nat} (hen : s.enabled pid)
    (orc : Oracle) (halg : PlanAlg s.alg) : RI (s.resume pid orc).1 := by
  obtain ⟨p, hp, ha, hmin⟩ := hen
  obtain ⟨hpm, hpid⟩ := proc?_some hp
  subst hpid
  have hcore := resume_core s p.pid orc p hp ha
  have hpw := hs.pw
  refine RI.congr (a := (s.block p orc).1.updProc p.pid (fin (s.block p orc).2.1 (s.block p orc).2.2 p.wake)) ?_
    (resume_queue s p.pid orc p hp ha) hcore.procs (resume_plans s p.pid orc p hp ha) hcore.tasks hcore.cl
  cases hk : p.k with
  | monitor =>
    have hb : s.block p orc = ((s.monitorBlock p.wake).1, p.k, (s.monitorBlock p.wake).2) := by
      unfold block; simp only [hk]
    exact ri_quiet hs h hpm orc (by simp [hk, PK.tag]) (by simp [hk, PK.tag]) (by simp [hk, PK.tag])
      (by simp [hk, PK.tag]) (by simp [hk, PK.tag]) [] (by rw [hb]; simpa using monitorBlock_procsq s p.wake)
      (by rw [hb]; exact (monitorBlock_pres s p.wake).pw hpw) (by simp)
  | telescope =>
    have hb : s.block p orc = ((s.telescopeBlock p.wake).1, .telescope, (s.telescopeBlock p.wake).2) := by
      unfold block; simp only [hk]
    obtain ⟨hc, _, _⟩ := telescope_key hs.eg hpm ha hmin hk
    obtain ⟨new, hprocs, hnewk⟩ := telescopeBlock_procs s p.wake
    exact ri_quiet hs h hpm orc (by simp [hk, PK.tag]) (by simp [hk, PK.tag]) (by simp [hk, PK.tag])
      (by simp [hk, PK.tag]) (by simp [hk, PK.tag]) new (by rw [hb]; exact hprocs) (by rw [hb]; exact hc.pw hpw)
      (fun q hq => by rw [hnewk q hq]; exact ⟨by decide, by decide⟩)
  | clusterLoop =>
    have hb : s.block p orc = ({ s with cl := s.cl.loopTick }, p.k, .timeout 1) := by
      unfold block; simp only [hk]
    exact ri_quiet hs h hpm orc (by simp [hk, PK.tag]) (by simp [hk, PK.tag]) (by simp [hk, PK.tag])
      (by simp [hk, PK.tag]) (by simp [hk, PK.tag]) [] (by rw [hb]; simp)
      (by rw [hb]; exact (clusterLoop_pres s).pw hpw) (by simp)
  | schedLoop =>
    have hb : s.block p orc = ((s.schedLoopBlock p.wake orc).1, p.k, (s.schedLoopBlock p.wake orc).2) := by
      unfold block; simp only [hk]
    rw [hb]
    simp only
    rw [hk]
    exact ri_schedLoop hs h hbuf hpm orc hk
  | bufferLoop =>
    have hb : s.block p orc = ((s.bufferLoopBlock p.wake).1, p.k, (s.bufferLoopBlock p.wake).2) := by
      unfold block; simp only [hk]
    obtain ⟨new, hprocs, hnewk⟩ := bufferLoopBlock_newprocs s p.wake
    exact ri_quiet hs h hpm orc (by simp [hk, PK.tag]) (by simp [hk, PK.tag]) (by simp [hk, PK.tag])
      (by simp [hk, PK.tag]) (by simp [hk, PK.tag]) new (by rw [hb]; exact hprocs)
      (by rw [hb]; exact (bufferLoopBlock_pres s p.wake).pw hpw)
      (fun q hq => by rcases hnewk q hq with e | e <;> rw [e] <;> exact ⟨by decide, by decide⟩)
  | allocIngest o tl =>
    have hb : s.block p orc = s.allocIngestBlock p.wake p.pc o tl := by
      unfold block; simp only [hk]
    have hpwX : PW (s.block p orc).1 := by rw [hb]; exact (allocIngestBlock_E s p.wake p.pc o tl).1.pw hpw
    rcases allocIngestBlock_procs s p.wake p.pc o tl with hsame | ⟨ob, d, _, _, hprocs, _⟩
    · exact ri_quiet hs h hpm orc (by simp [hk, PK.tag]) (by simp [hk, PK.tag]) (by simp [hk, PK.tag])
        (by simp [hk, PK.tag]) (by simp [hk, PK.tag]) [] (by rw [hb]; simpa using hsame) hpwX (by simp)
    · exact ri_quiet hs h hpm orc (by simp [hk, PK.tag]) (by simp [hk, PK.tag]) (by simp [hk, PK.tag])
        (by simp [hk, PK.tag]) (by simp [hk, PK.tag]) _ (by rw [hb]; exact hprocs) hpwX (by simp [PK.tag])
  | provIngest o d => exact ri_provIngest hs h hpm orc hk
  | ingestStream o tl =>
    have hb : s.block p orc = s.ingestStreamBlock p.wake p.pc o tl := by
      unfold block; simp only [hk]
    exact ri_quiet hs h hpm orc (by simp [hk, PK.tag]) (by simp [hk, PK.tag]) (by simp [hk, PK.tag])
      (by simp [hk, PK.tag]) (by simp [hk, PK.tag]) [] (by rw [hb]; simpa using ingestStreamBlock_procsq s p.wake p.pc o tl)
      (by rw [hb]; exact (ingestStreamBlock_pres s p.wake p.pc o tl).pw hpw) (by simp)
  | allocTask t m preds obs ing ret => exact ri_allocTask hs h hpm ha orc hk
  | doWork t m preds ph tot => exact ri_doWork hs h hpm ha orc hk
  | allocTasks o sc pa po fn => exact nc_ri_allocTasks_queue_P hs h hpm ha orc hk halg
  | hot2cold cur =>
    have hb : s.block p orc = s.hot2coldBlock p.wake cur := by
      unfold block; simp only [hk]
    exact ri_quiet hs h hpm orc (by simp [hk, PK.tag]) (by simp [hk, PK.tag]) (by simp [hk, PK.tag])
      (by simp [hk, PK.tag]) (by simp [hk, PK.tag]) [] (by rw [hb]; simpa using hot2coldBlock_procsq s p.wake cur)
      (by rw [hb]; exact (hot2coldBlock_pres s p.wake cur).pw hpw) (by simp)
  | cold2hot cur =>
    have hb : s.block p orc = s.cold2hotBlock p.wake cur := by
      unfold block; simp only [hk]
    exact ri_quiet hs h hpm orc (by simp [hk, PK.tag]) (by simp [hk, PK.tag]) (by simp [hk, PK.tag])
      (by simp [hk, PK.tag]) (by simp [hk, PK.tag]) [] (by rw [hb]; simpa using cold2hotBlock_procsq s p.wake cur)
      (by rw [hb]; exact (cold2hotBlock_pres s p.wake cur).pw hpw) (by simp)

/-- `RI` along every run of QueueProcessing -/
theorem nc_reach_ri_queue_P (s0 s : Sys) (hw : WFConfig s0) (hbuf : bufList s0.buf = [])
    (halg : PlanAlg s0.alg) (h : Reach s0 s) : RI s := by
  have hno : s0.alg ≠ .oracle := halg.noOracle
  induction h with
  | start => exact start_ri s0 hw
  | step s pid orc hr hen ih =>
    exact nc_ri_step_queue_P (reach_inv s0 s hw (hr.toOk hno)) ih (reach_bufi s0 s hw hbuf hno hr) hen orc
      (by rw [reach_alg hr]; exact halg)

end Sys

end Topsim

