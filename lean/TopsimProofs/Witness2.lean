/-
  Witness2 — a concrete finished run of the deterministic simulator in which a
  hot→cold and a cold→hot tier move both happen and complete.

  Configuration `c04W2`: three machines (cpu 1, bandwidth 1), three arrays,
  `max_ingest_resources = 3`; hot and cold buffer of capacity 100, rates 50;
  three observations due at t = 0, one array, one ingest machine and one timestep
  each, one workflow task each:
    A (id 0): ingest rate 45, 3 units of work;
    C (id 1): ingest rate 10, 1 unit of work;
    B (id 2): ingest rate 10, 1 unit of work;
  the queue algorithm; no delay.

  t = 0: the three streams deposit 65 (> 60 % of 100) and store A, C, B.
  t = 1: the buffer loop starts `move_hot_to_cold` (process 20): B (last stored) goes to the cold
         buffer in one step (hot free 45, cold free 90).
  t = 2, 3: the scheduler plans C, then A.  C is removed from the hot buffer at t = 4 (usage 45).
  t = 4: usage 45 is above 40 % and 45 + 10 is below 60 %: the buffer loop starts
         `move_cold_to_hot` (process 27): B returns (cold free 100, B stored in hot).
  t = 5: B is planned; A's task (3 units, started at 3) holds its machine until its recorded finish 6
         (F13; before the repair it was given back at 5 and A was removed at t = 6, B at t = 7);
         B and A are both removed at t = 7, B first; `is_finished()` holds.
-/
import TopsimProofs.Witness1

namespace Topsim
namespace Sys

def c04ObsA : Obs :=
  { id := 0, est := 0, duration := 1, demand := 1, rate := 45, ingestDemand := 1,
    wf := ⟨[(0, 3, 0)], [], [0]⟩ }
def c04ObsC : Obs :=
  { id := 1, est := 0, duration := 1, demand := 1, rate := 10, ingestDemand := 1,
    wf := ⟨[(0, 1, 0)], [], [0]⟩ }
def c04ObsB : Obs :=
  { id := 2, est := 0, duration := 1, demand := 1, rate := 10, ingestDemand := 1,
    wf := ⟨[(0, 1, 0)], [], [0]⟩ }

def c04W2 : Sys :=
  { machines := [⟨0, 1, 1⟩, ⟨1, 1, 1⟩, ⟨2, 1, 1⟩], totalArrays := 3, maxIngest := 3, alg := .queue,
    cl := Cluster.init [0, 1, 2], buf := Buffer.init 100 50 100 50,
    obs := [c04ObsA, c04ObsC, c04ObsB] }

theorem c04W2_wf : WFConfig c04W2 := by
  refine ⟨by decide, rfl, by decide, ?_, ⟨rfl, rfl, rfl, rfl, rfl, rfl, rfl, rfl, rfl, rfl, rfl, rfl, rfl,
    rfl, rfl, rfl, rfl⟩⟩
  intro o ho
  simp only [c04W2, List.mem_cons, List.not_mem_nil, or_false] at ho
  rcases ho with rfl | rfl | rfl <;> exact ⟨rfl, rfl, by decide, by decide⟩

theorem c04W2_buf : c04W2.buf.hot.stored = [] ∧ c04W2.buf.hot.scheduled = [] ∧
    c04W2.buf.hot.finished = [] ∧ c04W2.buf.cold.stored = [] := ⟨rfl, rfl, rfl, rfl⟩

theorem c04W2_size : c04W2.buf.size = [] ∧ c04W2.buf.hot.cur ≤ c04W2.buf.hot.total ∧
    c04W2.buf.cold.cur ≤ c04W2.buf.cold.total := ⟨rfl, by decide, by decide⟩

theorem c04W2_rate : ∀ o ∈ c04W2.obs, 0 < o.rate := by
  intro o ho
  simp only [c04W2, List.mem_cons, List.not_mem_nil, or_false] at ho
  rcases ho with rfl | rfl | rfl <;> decide

/-- the simulator after every event before t = 2: B sits in the cold buffer -/
def c04K2mid : SimState := witRun c04W2 2 200

/-- … and, from there, after every event before t = 8 -/
def c04K2 : SimState := SimState.runUntil {} (8 : Nat) 400 c04K2mid

def c04S2 : Sys := c04K2.st

theorem c04K2mid_run : SimRun {} c04W2 c04K2mid := witRun_simRun c04W2 2 200

theorem c04K2_run : SimRun {} c04W2 c04K2 := SimRun.runUntil _ _ c04K2mid_run

/-- in the middle of the run: B (10 units) has left the hot buffer and is stored in the cold one;
the move process exists -/
theorem c04K2mid_chk :
    (!c04K2mid.st.halted && decide (c04K2mid.st.crashed = none) &&
      decide (c04K2mid.st.buf.hot.stored = [0, 1]) && decide (c04K2mid.st.buf.cold.stored = [2]) &&
      decide (c04K2mid.st.buf.hot.cur = 45) && decide (c04K2mid.st.buf.cold.cur = 90) &&
      witHasTag c04K2mid.st "hot2cold" && !witHasTag c04K2mid.st "cold2hot") = true := by
  decide +kernel

theorem c04S2_chk : witChk c04S2 [0, 1, 2]
    [(.ingest 0 0, .finished), (.ingest 1 0, .finished), (.ingest 2 0, .finished),
     (.wf 1 2 0, .finished), (.wf 0 3 0, .finished), (.wf 2 5 0, .finished)]
    [.ingest 0 0, .ingest 1 0, .ingest 2 0, .wf 1 2 0, .wf 0 3 0, .wf 2 5 0] = true := by
  decide +kernel

/-- at the end both move processes are in the process table (ended), B has come back and been
removed from the hot buffer, both tiers are at full free capacity -/
-- F13: order of removal `[1, 2, 0]` (before the repair `[1, 0, 2]`)
theorem c04S2_tier :
    (witHasTag c04S2 "hot2cold" && witHasTag c04S2 "cold2hot" &&
      decide (c04S2.buf.hot.finished = [1, 2, 0]) && decide (c04S2.buf.cold.stored = []) &&
      decide (c04S2.buf.hot.cur = 100) && decide (c04S2.buf.cold.cur = 100)) = true := by
  decide +kernel

theorem c04S2_reach : ReachOk c04W2 c04S2 :=
  simRun_reachOk c04W2_wf c04K2_run (witChk_spec c04S2_chk).2.2.1

theorem c04K2mid_reach : ReachOk c04W2 c04K2mid.st :=
  simRun_reachOk c04W2_wf c04K2mid_run (by
    have h := c04K2mid_chk
    simp only [Bool.and_eq_true, Bool.not_eq_true'] at h
    exact h.1.1.1.1.1.1.1)

end Sys
end Topsim
