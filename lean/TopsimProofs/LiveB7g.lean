/-
  LiveB7g — BatchProcessing: the declarations of Live7g that depend on the configuration hypotheses,
  for `LiveCfgB` / `NcCfgB` (`s0.alg = .batch …`).  Generated from Live7g.lean by renaming (suffix `_B`);
  the algorithm-dependent ones are rewritten (see the comments).
-/
import TopsimProofs.Live7g
import TopsimProofs.LiveB5
import TopsimProofs.LiveB7
import TopsimProofs.LiveB7c
import TopsimProofs.LiveB7d
import TopsimProofs.LiveB7e
import TopsimProofs.LiveB2

namespace Topsim
open Sys
namespace Sys

/-- in a state without allocation process, the first task of the pruned plan of `o` is
UNSCHEDULED, and every predecessor of it has a FINISHED record and is reported finished -/
theorem l7_head_ready_B {s0 s : Sys} (L : L7LibB s0 s) (A : L7A s) (hstat0 : s0.staticPlan = false)
    (htopo : ∀ ob ∈ s0.obs, IsTopo ob.wf)
    (hq : ∀ q ∈ s.procs, q.alive = true → q.k.tag ≠ "allocTask" ∧ q.k.tag ≠ "doWork")
    {o : Oid} {pl0 pl1 : Plan} (hpl0m : pl0 ∈ s.plans) (hpl0 : s.plan? o = some pl0) (hobs0 : pl0.obs = o)
    (e1 : pl1.edges = pl0.edges) (e3 : ∀ t, t ∈ pl1.tasks ↔ t ∈ pl0.tasks ∧ tstat s t ≠ .finished)
    (hsub : pl1.tasks.Sublist pl0.tasks) {T : Tid} {rest : List Tid} (htk : pl1.tasks = T :: rest) :
    tstat s T = .unscheduled ∧ ∀ u ∈ pl1.preds T, tstat s u = .finished ∧ FinT s u := by
  have hT1 : T ∈ pl1.tasks := by rw [htk]; simp
  obtain ⟨hT0, hTnf⟩ := (e3 T).mp hT1
  obtain ⟨ob, hob, c0, g1, g2, g3, g4, g5⟩ := L.gi.plans pl0 hpl0m
  have hoid : ob.id = o := g1.symm.trans hobs0
  have hwf : ∀ t ∈ pl0.tasks, IsWf t := fun t ht => by
    obtain ⟨n, e⟩ := g3 t ht
    exact ⟨_, _, _, e⟩
  constructor
  · -- the status of the head
    cases hst : tstat s T with
    | unscheduled => rfl
    | finished => exact absurd hst hTnf
    | scheduled =>
      exfalso
      obtain ⟨q, hq1, hqa, m, preds, obs, ing, ret, hqk⟩ := A.run T (hwf T hT0) (Or.inl hst)
      exact (hq q hq1 hqa).1 (by rw [hqk]; rfl)
    | running =>
      exfalso
      obtain ⟨q, hq1, hqa, m, preds, obs, ing, ret, hqk⟩ := A.run T (hwf T hT0) (Or.inr hst)
      exact (hq q hq1 hqa).1 (by rw [hqk]; rfl)
  · intro u hu
    rw [l7_preds_congr e1] at hu
    have he := planPreds_mem hu
    rw [g2] at he
    obtain ⟨e0, he0, ee⟩ := List.mem_map.mp he
    injection ee with eu eT
    have hfw := (htopo ob hob).forward e0 he0
    have hnd := (htopo ob hob).nodup
    have hLnd : (ob.wf.topo.map (Tid.wf ob.id c0)).Nodup := nodup_map_of_inj _ (tid_wf_inj _ _) hnd
    have hsubl : pl1.tasks.Sublist (ob.wf.topo.map (Tid.wf ob.id c0)) := hsub.trans (g4 hstat0)
    -- `u` is not in the pruned plan: it comes before the head
    have hnot : u ∉ pl1.tasks := by
      intro hu1
      have hlt : (ob.wf.topo.map (Tid.wf ob.id c0)).idxOf u < (ob.wf.topo.map (Tid.wf ob.id c0)).idxOf T := by
        rw [← eu, ← eT, idxOf_map_inj _ (tid_wf_inj _ _), idxOf_map_inj _ (tid_wf_inj _ _)]
        exact hfw
      have := sublist_idxOf_lt hsubl hLnd hu1 hT1 hlt
      rw [htk, idxOf_cons_self'] at this
      omega
    -- `u` has a record
    have hmem : e0.1 ∈ ob.wf.topo := by
      apply List.idxOf_lt_length_iff.mp
      have := List.idxOf_le_length (a := e0.2.1) (l := ob.wf.topo)
      omega
    obtain ⟨ru, hru⟩ := l7_task?_of_mem (s := s) (t := u) (by
      obtain ⟨r, hr, hid⟩ := g5 hstat0 e0.1 hmem
      exact ⟨r, hr, hid.trans eu⟩)
    have hwu : IsWf u := ⟨_, _, _, eu.symm⟩
    have hfin : tstat s u = .finished := by
      by_cases hfe : tstat s u = .finished
      · exact hfe
      exfalso
      have hne : tstat s u ≠ .finished := hfe
      apply hnot
      refine (e3 u).mpr ⟨?_, hne⟩
      have hst : ru.status ≠ .finished := by
        rw [tstat_eq, hru] at hne; exact hne
      have := L.wi.pc ru (List.mem_of_find?_eq_some hru) o c0 e0.1
        (by rw [task?_id hru, ← eu, hoid]) hst
      unfold planTasks at this
      rw [hpl0, task?_id hru] at this
      exact this
    exact ⟨hfin, A.fin u hwu hfin⟩

attribute [local irreducible] atS3 atStart Sys.updateCurrentPlan processCurrentSchedule in
/-- **Progress of one block of `allocate_tasks` in a quiet state, BatchProcessing.**  The block removes
the observation, or creates an allocation process, or — the observation holds no reservation and
`_provision_resources` refuses one — leaves the cluster as it is.  `hres`: a reservation of the
observation has an idle machine (in a quiet state: the whole reservation, at least one machine). -/
theorem l7_progress_B {s0 s s' : Sys} {p : Proc} {orc : Oracle} (L : L7LibB s0 s) (A : L7A s) (P : L7Pool s)
    (hstat0 : s0.staticPlan = false) (htopo : ∀ ob ∈ s0.obs, IsTopo ob.wf) (h : L7Step s s' p orc)
    {o : Oid} {sc pa : List (Tid × Mid)} {po : List Tid} (hk : p.k = .allocTasks o sc pa po false)
    (hocc : s.cl.occupied = [] ∧ s.cl.ingest = [])
    (hq : ∀ q ∈ s.procs, q.alive = true → q.k.tag ≠ "allocTask" ∧ q.k.tag ≠ "doWork")
    (hres : ∀ l, dictGet s.cl.idle o = some l → l ≠ [])
    {parts minPer : Nat} {split : Option (List (Oid × Nat × Nat))} (halg : s.alg = .batch parts minPer split) :
    o ∈ s'.buf.hot.finished ∨ (∃ q ∈ (s.block p orc).1.procs, q.pid = s.nextPid) ∨
    (Alg.provisionResources s.cl parts minPer split o = .ok (s.cl, false) ∧ s'.cl = s.cl) := by
  have hpm := h.mem
  obtain ⟨U, hU⟩ := L.sinv.ci
  have hsched : o ∈ s.buf.hot.scheduled := L.ati.sched p hpm h.ha o sc pa po hk
  obtain ⟨pl0, hpl0m, hobs0⟩ := L.ati.plan p hpm o sc pa po false hk
  have hpl0 : s.plan? o = some pl0 := by rw [← hobs0]; exact l7_plan?_of_mem L.wi.pn hpl0m
  obtain ⟨pl1, hpl1, e1, eobs, e3, hsub⟩ := l7_s1_plan s p.wake p.pc o hpl0
  have hobs1 : pl1.obs = o := eobs.trans hobs0
  have hts1 : ∀ t, tstat ((atStart s p.wake p.pc o).updateCurrentPlan o) t = tstat s t := fun t =>
    (updateCurrentPlan_tstat _ o t).trans (atStart_tstat s p.wake p.pc o t)
  have halg1 : ((atStart s p.wake p.pc o).updateCurrentPlan o).alg = .batch parts minPer split := by
    rw [updateCurrentPlan_alg, atStart_alg]; exact halg
  have hcl1 : ((atStart s p.wake p.pc o).updateCurrentPlan o).cl = s.cl :=
    (updateCurrentPlan_core _ o).cl.trans (atStart_cl s p.wake p.pc o)
  have hb1 : ((atStart s p.wake p.pc o).updateCurrentPlan o).buf = s.buf :=
    (updateCurrentPlan_buf _ o).trans (atStart_buf s p.wake p.pc o)
  have hnp1 : ((atStart s p.wake p.pc o).updateCurrentPlan o).nextPid = s.nextPid :=
    (updateCurrentPlan_core _ o).nextPid.trans (l7_atStart_nextPid s p.wake p.pc o)
  have hq' : ∀ plan out, ((atStart s p.wake p.pc o).updateCurrentPlan o).runAlgorithm orc plan sc po = .ok out →
      Alg.batchRun s.cl plan
        ((atStart s p.wake p.pc o).updateCurrentPlan o).taskView parts minPer split sc po = .ok out := by
    intro plan out hrun
    unfold runAlgorithm at hrun
    rw [halg1, hcl1] at hrun
    exact hrun
  -- a non-empty pruned plan gives a non-empty schedule, unless no reservation can be made
  have key : ∀ out, Alg.batchRun s.cl pl1
      ((atStart s p.wake p.pc o).updateCurrentPlan o).taskView parts minPer split sc po = .ok out → pl1.tasks ≠ [] →
      out.schedule ≠ [] ∨ Alg.provisionResources s.cl parts minPer split o = .ok (s.cl, false) := by
    intro out hrun hne
    by_cases hsc : sc = []
    · cases htk : pl1.tasks with
      | nil => exact absurd htk hne
      | cons T rest =>
        obtain ⟨hTu, hpreds⟩ := l7_head_ready_B L A hstat0 htopo hq hpl0m hpl0 hobs0 e1 e3 hsub htk
        have hT1 : T ∈ pl1.tasks := by rw [htk]; simp
        have hT0 : T ∈ pl0.tasks := ((e3 T).mp hT1).1
        have hseed : T ∈ Alg.seedPool pl1 po := by
          have fromP : ((∃ u ∈ pl0.preds T, tstat s u ≠ .unscheduled ∨ u ∈ dictKeys sc) ∨
              (pl0.preds T = [] ∧ po ≠ [])) → T ∈ Alg.seedPool pl1 po := by
            intro hc
            rcases P p hpm h.ha o sc pa po hk pl0 hpl0 T hT0 hTu hc with h1 | h1
            · exact l7_mem_seedPool_of_mem pl1 h1
            · rw [hsc] at h1; simp [dictKeys] at h1
          by_cases hr : pl0.preds T = []
          · by_cases hpo : po = []
            · rw [hpo]
              exact l7_mem_seedPool_root pl1 hT1 (by rw [l7_preds_congr e1]; exact hr)
            · exact fromP (Or.inr ⟨hr, hpo⟩)
          · obtain ⟨u, hu⟩ := List.exists_mem_of_ne_nil _ hr
            have hf := (hpreds u (by rw [l7_preds_congr e1]; exact hu)).1
            exact fromP (Or.inl ⟨u, hu, Or.inl (by rw [hf]; simp)⟩)
        have := l7_batch_progress s.cl pl1 _ parts minPer split sc po out T hT1 hseed ?_ ?_
          hU.inv.avail_nodup (by rw [hobs1]; exact hres) hrun
        · rw [hobs1] at this; exact this
        · show tstat ((atStart s p.wake p.pc o).updateCurrentPlan o) T = _
          rw [hts1]; exact hTu
        · unfold Alg.predsFinished
          rw [List.all_eq_true]
          intro u hu
          exact (finT_iff s u).mp (hpreds u hu).2
    · exact Or.inl (l7_batch_leftover _ pl1 _ parts minPer split sc po out hsc hrun)
  have hnr := h.nr
  rw [block_allocTasks orc hk, allocTasksBlock_eq] at hnr
  rw [h.buf, h.cl, block_allocTasks orc hk, allocTasksBlock_eq]
  have herr : ∀ plan out, ((atStart s p.wake p.pc o).updateCurrentPlan o).plan? o = some plan →
      ((atStart s p.wake p.pc o).updateCurrentPlan o).runAlgorithm orc plan sc po = .ok out →
      out.schedule.isEmpty = false →
      (processCurrentSchedule (atS3 ((atStart s p.wake p.pc o).updateCurrentPlan o) out o) p.wake o
        out.schedule pa).err = none :=
    fun plan out h1 h2 h3 => l7_iter_alloc_err (atStart s p.wake p.pc o) p.wake orc o sc pa po plan out h1 h2 h3 hnr
  have hout := allocTasksIter_out (atStart s p.wake p.pc o) p.wake orc o sc pa po
  generalize (atStart s p.wake p.pc o).allocTasksIter p.wake orc o sc pa po = r at hout hnr ⊢
  have hb4 : ∀ out, (atS4 (atS3 ((atStart s p.wake p.pc o).updateCurrentPlan o) out o) (natNow p.wake) o).buf = s.buf :=
    fun out => (atS3_buf _ out o).trans hb1
  cases hout with
  | noPlan _ => exact absurd rfl (hnr _)
  | algErr plan e _ _ => exact absurd rfl (hnr _)
  | finishBad plan out _ _ _ _ _ _ => exact absurd rfl (hnr _)
  | finish plan out _ _ _ _ _ _ =>
    left
    show o ∈ ((atS4 (atS3 ((atStart s p.wake p.pc o).updateCurrentPlan o) out o) (natNow p.wake) o).buf.remove o).1.hot.finished
    rw [hb4]
    exact (remove_lists s.buf o).2.2 hsched
  | finishWait plan out _ _ _ _ hrem =>
    exfalso
    rw [hb4] at hrem
    unfold Buffer.remove at hrem
    simp [hsched] at hrem
  | idle plan out hplan hrun hemp hnf =>
    right; right
    rw [hpl1] at hplan
    injection hplan with hplan
    subst hplan
    have hrun' := hq' _ _ hrun
    obtain ⟨_, _, _, _, _, _, _, hstatus⟩ := l7_batchRun _ _ _ _ _ _ _ _ _ hrun'
    have hne : pl1.tasks ≠ [] := by
      intro e
      apply hnf
      rw [hstatus]
      unfold Alg.finishStatus
      rw [e]; rfl
    have hnil : out.schedule = [] := by simpa using hemp
    rcases key out hrun' hne with h1 | h1
    · exact absurd hnil h1
    · refine ⟨h1, ?_⟩
      show (atS3 ((atStart s p.wake p.pc o).updateCurrentPlan o) out o).cl = s.cl
      rw [atS3_cl]
      exact l7_batchRun_refused _ _ _ _ _ _ _ _ _ hrun' (by rw [hobs1]; exact h1) hne
  | alloc plan out y hplan hrun hemp _ =>
    right; left
    have hrun' := hq' _ _ hrun
    have hne : out.schedule ≠ [] := by
      intro e; rw [e] at hemp; simp at hemp
    have hocc' : (atS3 ((atStart s p.wake p.pc o).updateCurrentPlan o) out o).cl.occupied = [] ∧
        (atS3 ((atStart s p.wake p.pc o).updateCurrentPlan o) out o).cl.ingest = [] := by
      obtain ⟨c1, c2⟩ := l7_batchRun_cl _ _ _ _ _ _ _ _ _ hrun'
      rw [atS3_cl, c1, c2]
      exact hocc
    obtain ⟨q, hq1, hpid⟩ := l7_pcs_spawns (atS3 ((atStart s p.wake p.pc o).updateCurrentPlan o) out o) p.wake o
      out.schedule pa hne hocc' (herr plan out hplan hrun hemp)
    rw [atS3_nextPid, hnp1] at hpid
    exact ⟨q, hq1, hpid⟩

/-- `PSch` is kept by every step of the run -/
theorem l7_psch_step_B {s0 s s' : Sys} {p : Proc} {orc : Oracle} (L : L7LibB s0 s) (h : L7Step s s' p orc)
    {o : Oid} {node : Nat} (hp : PSch o node s) : PSch o node s' := by
  obtain ⟨c, r, hr, hst⟩ := hp
  obtain ⟨new, hnewe, _⟩ := block_newp s p orc
  have h0 : tstat s (.wf o c node) ≠ .unscheduled := by rw [tstat_eq, hr]; exact hst
  have h1 : tstat s' (.wf o c node) ≠ .unscheduled := by
    rcases l7_tstat_step_B L h hnewe (t := .wf o c node) ⟨_, _, _, rfl⟩ with e | ⟨_, e⟩ | ⟨e, _⟩
    · rw [e]; exact h0
    · exact e
    · exact absurd e h0
  obtain ⟨r', hr', hst'⟩ := l7_rec_of_ne_unsched h1
  exact ⟨c, r', hr', hst'⟩

/-- **A process created by a block of `allocate_tasks`** is the allocation process of a node of the
workflow of its observation whose record leaves UNSCHEDULED in that block; no allocation process
carried that node before. -/
theorem l7_spawn_flips_B {s0 s s' : Sys} {p : Proc} {orc : Oracle} (L : L7LibB s0 s) (L' : L7LibB s0 s')
    (A' : L7A s') (hstat0 : s0.staticPlan = false) (h : L7Step s s' p orc)
    {o : Oid} {sc pa : List (Tid × Mid)} {po : List Tid} {fn : Bool} (hk : p.k = .allocTasks o sc pa po fn)
    {new : List Proc} (hnew : (s.block p orc).1.procs = s.procs ++ new) {q : Proc} (hq : q ∈ new) :
    ∃ ob ∈ s0.obs, ob.id = o ∧ ∃ node ∈ ob.wf.topo, ¬ PSch o node s ∧ PSch o node s' ∧
      (∃ q ∈ s'.procs, ∃ c m preds obs ing ret, q.k = .allocTask (.wf o c node) m preds obs ing ret) ∧
      (∀ q ∈ s.procs, ∀ c m preds obs ing ret, q.k ≠ .allocTask (.wf o c node) m preds obs ing ret) := by
  have hpm := h.mem
  have hs := L.sinv
  obtain ⟨U, hU⟩ := hs.ci
  have hno : s.alg ≠ .oracle := L.alg.ne_oracle
  have hm := h.memSpec hs hnew
  have hq' : q ∈ s'.procs := (hm q).mpr (Or.inr (Or.inr hq))
  obtain ⟨t, m, cross, hqk, hu0, hu1⟩ := l7_ats_new L.su hno hpm h.ha orc hk hnew q hq
  rw [← h.tstat] at hu1
  -- the task is a workflow task of `o`
  obtain ⟨o3, c, n, eo, et⟩ := L'.px.atObs q hq' t m cross (some o) 0 hqk
  injection eo with eo
  subst eo
  -- its record after the block, in the plan of `o`
  obtain ⟨r, hr, hrs⟩ := l7_rec_of_ne_unsched (s := s') (t := t) (by rw [hu1]; simp)
  have hrst : r.status = .scheduled := by
    have := hu1; rw [tstat_eq, hr] at this; exact this
  have hrm : r ∈ s'.tasks := List.mem_of_find?_eq_some hr
  have hrid : r.id = t := task?_id hr
  have hpt := L'.wi.pc r hrm o c n (hrid.trans et) (by rw [hrst]; simp)
  unfold planTasks at hpt
  cases hpl : s'.plan? o with
  | none => rw [hpl] at hpt; simp at hpt
  | some pl' =>
    rw [hpl, hrid] at hpt
    obtain ⟨hplm, hplo⟩ := plan?_mem hpl
    obtain ⟨ob, hob, c0, g1, _, _, g4, _⟩ := L'.gi.plans pl' hplm
    have hoid : ob.id = o := g1.symm.trans hplo
    have hmem := (g4 hstat0).subset hpt
    obtain ⟨node, hnode, enode⟩ := List.mem_map.mp hmem
    rw [et, hoid] at enode
    injection enode with _ ec en
    subst ec en
    have hns : ¬ PSch o node s := by
      rintro ⟨c', r', hr', hst'⟩
      -- after the step the record is still there: same clock
      obtain ⟨c2, r2, hr2, _⟩ := l7_psch_step_B L h ⟨c', r', hr', hst'⟩
      have hcc := A'.clk r hrm r2 (List.mem_of_find?_eq_some (show s'.task? _ = some r2 from hr2)) o c0 node c2 node
        (hrid.trans et) (task?_id hr2)
      -- clocks: `c'` of the old record
      have hc' : c' = c0 := by
        -- the record of `wf o c' node` persists with its id; use the clock invariant after the step
        obtain ⟨new0, hnewe0, _⟩ := block_newp s p orc
        have h0 : tstat s (.wf o c' node) ≠ .unscheduled := by rw [tstat_eq, hr']; exact hst'
        have h1 : tstat s' (.wf o c' node) ≠ .unscheduled := by
          rcases l7_tstat_step_B L h hnewe0 (t := .wf o c' node) ⟨_, _, _, rfl⟩ with e | ⟨_, e⟩ | ⟨e, _⟩
          · rw [e]; exact h0
          · exact e
          · exact absurd e h0
        obtain ⟨r3, hr3, _⟩ := l7_rec_of_ne_unsched h1
        exact (A'.clk r hrm r3 (List.mem_of_find?_eq_some hr3) o c0 node c' node (hrid.trans et) (task?_id hr3)).symm
      subst hc'
      rw [et, tstat_eq, hr'] at hu0
      exact hst' hu0
    refine ⟨ob, hob, hoid, node, hnode, hns, ⟨c0, r, by rw [← et]; exact hr, hrs⟩,
      ⟨q, hq', c0, m, cross, some o, false, 0, by rw [← et]; exact hqk⟩, ?_⟩
    intro q0 hq0 c' m' preds' obs' ing' ret' hk0
    obtain ⟨r0, hr0, hst0⟩ := hU.hasRec q0 hq0 _ m' preds' obs' ing' ret' hk0
    exact hns ⟨c', r0, hr0, hst0⟩
end Sys
end Topsim
