/-
  LiveB4 — BatchProcessing, along a run that does not raise:

  * `lb_provision_possible`: with no reservation in existence and every machine available, a feasible
    configuration (and `minPer ≤ machines` for a split) never has `_provision_resources` return False;
  * `live_idle_keep_B`: in a state without live worker process, a block of a process other than a
    running `allocate_tasks` leaves the reservations alone;
  * `live_idle_queue_B`, `live_ats_sched_B`: an observation that holds a reservation is in the
    scheduler's queue; the observation of a running `allocate_tasks` is in `hot.scheduled`.
-/
import TopsimProofs.LiveB7h
import TopsimProofs.LiveB8h
import TopsimProofs.LiveB10
import TopsimProofs.FinishRes11

namespace Topsim

open KState Sys

namespace Sys

theorem lb_maxProv_none (cl : Cluster) (parts : Nat) (o : Oid) (M minPer : Nat) (hav : cl.available.length = M)
    (hM : cl.machines.length = M) (hparts : 0 < parts) (h : max 1 minPer ≤ M / parts) :
    Alg.maxResourceProvision cl parts none o = .ok (M / parts) := by
  have h1 : 1 ≤ M / parts := Nat.le_trans (Nat.le_max_left 1 minPer) h
  have h2 : M / parts ≤ M := Nat.div_le_self M parts
  unfold Alg.maxResourceProvision
  simp only [hav, hM]
  rw [if_neg (by omega), if_neg (by omega), if_neg (by omega)]

theorem lb_maxProv_some (cl : Cluster) (parts : Nat) (sp : List (Oid × Nat × Nat)) (o : Oid) (M lo hi : Nat)
    (hav : cl.available.length = M) (hM : cl.machines.length = M) (hsp : dictGet sp o = some (lo, hi))
    (h1 : 1 ≤ lo) (h2 : lo ≤ M) :
    Alg.maxResourceProvision cl parts (some sp) o = .ok (min M hi) := by
  unfold Alg.maxResourceProvision
  simp only [hav, hM, hsp]
  rw [if_neg (by omega), if_neg (by omega), if_neg (by omega)]

/-- with no reservation in existence and every machine available, `_provision_resources` does not
return False -/
theorem lb_provision_possible (cl : Cluster) (parts minPer : Nat) (split : Option (List (Oid × Nat × Nat)))
    (o : Oid) (M : Nat) (hidle : cl.idle = []) (hnp : cl.numProv = 0) (hav : cl.available.length = M)
    (hM : cl.machines.length = M) (hparts : 0 < parts)
    (hnone : split = none → max 1 minPer ≤ M / parts)
    (hsome : ∀ sp, split = some sp → ∃ lo hi, dictGet sp o = some (lo, hi) ∧ 1 ≤ lo ∧ lo ≤ hi ∧ lo ≤ M ∧
      minPer ≤ hi ∧ minPer ≤ M) :
    Alg.provisionResources cl parts minPer split o ≠ .ok (cl, false) := by
  intro h
  have hprov : ∃ n, Alg.maxResourceProvision cl parts split o = .ok n ∧ 1 ≤ n ∧ minPer ≤ n := by
    cases split with
    | none =>
      have hn := hnone rfl
      refine ⟨M / parts, lb_maxProv_none cl parts o M minPer hav hM hparts hn, ?_, ?_⟩
      · exact Nat.le_trans (Nat.le_max_left 1 minPer) hn
      · exact Nat.le_trans (Nat.le_max_right 1 minPer) hn
    | some sp =>
      obtain ⟨lo, hi, hsp, a1, a2, a3, a4, a5⟩ := hsome sp rfl
      refine ⟨min M hi, lb_maxProv_some cl parts sp o M lo hi hav hM hsp a1 a3, ?_, ?_⟩
      · rw [Nat.le_min]; omega
      · rw [Nat.le_min]; omega
  obtain ⟨n, hmax, hn1, hn2⟩ := hprov
  have hnot : cl.isProvisioned o = false := by
    unfold Cluster.isProvisioned dictHas
    rw [hidle]; rfl
  unfold Alg.provisionResources at h
  rw [hnot] at h
  simp only [Bool.false_eq_true, if_false] at h
  rw [if_pos (by rw [hnp]; exact_mod_cast hparts), hmax] at h
  simp only at h
  rw [if_neg (by omega)] at h
  generalize cl.provisionBatch n o = r at h
  obtain ⟨c2, e2⟩ := r
  cases e2 with
  | some e => cases h
  | none =>
    simp only at h
    injection h with h; injection h with _ h2
    cases h2

/-- the batch clause of `Feasible` (and `BatchMinOk`), unfolded -/
theorem lb_feasible_batch {s0 : Sys} (hfe : s0.Feasible) {parts minPer : Nat}
    {split : Option (List (Oid × Nat × Nat))} (halg : s0.alg = .batch parts minPer split)
    (hmin : s0.BatchMinOk) :
    0 < parts ∧ (split = none → max 1 minPer ≤ s0.machines.length / parts) ∧
    (∀ sp, split = some sp → ∀ o ∈ s0.obs, ∃ lo hi, dictGet sp o.id = some (lo, hi) ∧ 1 ≤ lo ∧ lo ≤ hi ∧
      lo ≤ s0.machines.length ∧ minPer ≤ hi ∧ minPer ≤ s0.machines.length) := by
  have h := hfe.2.2.2
  rw [halg] at h
  cases split with
  | none =>
    simp only at h
    exact ⟨h.1, fun _ => h.2, fun sp e => by cases e⟩
  | some sp =>
    simp only at h
    refine ⟨h.1, ?_, ?_⟩
    · intro e; cases e
    intro sp' e o ho
    injection e with e
    subst e
    obtain ⟨lo, hi, a1, a2, a3, a4, a5⟩ := h.2 o ho
    exact ⟨lo, hi, a1, a2, a3, a4, a5, hmin parts minPer sp halg⟩

end Sys

section
variable {env : SimEnv} {s0 : Sys}

/-- in a state without live worker process, a block of a process other than a running
`allocate_tasks` leaves the reservations alone -/
theorem live_idle_keep_B (C : LiveCfgB env s0) (K : LiveKernel env s0) (n : Nat) {e : HEntry} {p : Proc}
    (hpk : (simAt env s0 n).peek = some e) (hpp : (simAt env s0 n).st.proc? e.pid = some p)
    (ha : p.alive = true) (hq : (simAt env s0 n).st.NoWorker)
    (hk : ∀ o sc pa po, p.k ≠ .allocTasks o sc pa po false) :
    (simAt env s0 (n + 1)).st.cl.idle = (simAt env s0 n).st.cl.idle := by
  obtain ⟨e', p', hpk', hpp', _, _, _, _, hst⟩ := live_step_B C K n
  rw [hpk] at hpk'; cases hpk'
  rw [hpp] at hpp'; cases hpp'
  obtain ⟨hpm, _⟩ := proc?_some hpp
  have hcl := (Sys.il_resume_fields (simAt env s0 n).st e.pid (env.oracle (simAt env s0 n).st) p hpp ha).2.1
  rw [hst, hcl]
  generalize env.oracle (simAt env s0 n).st = orc
  have hw := hq p hpm ha
  have hnt := (live_noTier_B C K n).1 p hpm
  cases hkk : p.k with
  | monitor => rw [block_monitor orc hkk]; rfl
  | telescope =>
    rw [block_telescope orc hkk]
    show ((simAt env s0 n).st.telescopeBlock p.wake).1.cl.idle = _
    rw [telescopeBlock_clq]
  | clusterLoop =>
    rw [block_clusterLoop orc hkk]
    show (simAt env s0 n).st.cl.loopTick.idle = _
    unfold Cluster.loopTick; split <;> rfl
  | schedLoop =>
    rw [block_schedLoop orc hkk]
    show ((simAt env s0 n).st.schedLoopBlock p.wake orc).1.cl.idle = _
    rw [schedLoopBlock_clq]
  | bufferLoop =>
    rw [block_bufferLoop orc hkk]
    show ((simAt env s0 n).st.bufferLoopBlock p.wake).1.cl.idle = _
    rw [bufferLoopBlock_clq]
  | allocIngest o tl => exact absurd (by rw [hkk]; rfl) hw.1
  | provIngest o d => exact absurd (by rw [hkk]; rfl) hw.2.1
  | ingestStream o tl => exact absurd (by rw [hkk]; rfl) hw.2.2.1
  | allocTask t m preds obs ing ret => exact absurd (by rw [hkk]; rfl) hw.2.2.2.1
  | doWork t m preds ph tot => exact absurd (by rw [hkk]; rfl) hw.2.2.2.2
  | allocTasks o sc pa po fn =>
    cases fn with
    | false => exact absurd hkk (hk o sc pa po)
    | true => rw [block_allocTasks orc hkk, allocTasksBlock_fin]
  | hot2cold cur => exact absurd (by rw [hkk]; rfl) hnt.1
  | cold2hot cur => exact absurd (by rw [hkk]; rfl) hnt.2

/-- an observation that holds a reservation is in the scheduler's queue -/
theorem live_idle_queue_B (C : LiveCfgB env s0) (K : LiveKernel env s0) (n : Nat) :
    ∀ o ∈ dictKeys (simAt env s0 n).st.cl.idle, o ∈ (simAt env s0 n).st.queue := by
  obtain ⟨parts, minPer, split, halg⟩ := C.alg
  exact (Sys.reach_ri s0 _ C.hw (l8_bufList_B C) halg (l8_reach_B C K n)).keyQ

/-- the observation of a running `allocate_tasks` process is in `hot.scheduled` -/
theorem live_ats_sched_B (C : LiveCfgB env s0) (K : LiveKernel env s0) (n : Nat) :
    ∀ q ∈ (simAt env s0 n).st.procs, q.alive = true → ∀ o sc pa po, q.k = .allocTasks o sc pa po false →
      o ∈ (simAt env s0 n).st.buf.hot.scheduled :=
  fun q hq hqa o sc pa po hk => (l7_lib_B C K n).ati.sched q hq hqa o sc pa po hk

end

end Topsim
