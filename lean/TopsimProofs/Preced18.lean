/-
  Preced18 — the order condition `pollAfterSched` checked by evaluation, and the
  creation-order run of `precW0` as a run in the restricted order.
-/
import TopsimProofs.Preced17
import TopsimProofs.Preced1

namespace Topsim
namespace Sys

def pollAfterSchedB (s : Sys) (pid : Nat) : Bool :=
  match s.proc? pid with
  | some p =>
    match p.k with
    | .allocTask t _ _ (some o) false ret =>
      !(decide (t ∈ s.cl.running) && s.procTriggered ret) ||
        s.procs.all (fun q => !q.alive ||
          match q.k with
          | .allocTasks o' _ _ _ _ => !(decide (o' = o)) || decide (p.wake < q.wake)
          | _ => true)
    | _ => true
  | none => true

theorem pollAfterSchedB_sound {s : Sys} {pid : Nat} (h : pollAfterSchedB s pid = true) :
    pollAfterSched s pid := by
  intro p hp t m cross o ret hk hr htr q hq hqa sc pa po fn hqk
  unfold pollAfterSchedB at h
  rw [hp] at h
  simp only [hk, hr, htr, decide_true, Bool.and_self, Bool.not_true, Bool.false_or, List.all_eq_true] at h
  have := h q hq
  rw [hqa, hqk] at this
  simpa using this

/-- every listed block is enabled and satisfies the order condition when its turn comes -/
def precSchedFirstAll : List Nat → Sys → Bool
  | [], _ => true
  | pid :: r, s => precEnabledB s pid && pollAfterSchedB s pid && precSchedFirstAll r (s.resume pid {}).1

theorem prec_reach_run_sf {s0 : Sys} (pids : List Nat) (s : Sys) (h : ReachSchedFirst s0 s)
    (hen : precSchedFirstAll pids s = true) : ReachSchedFirst s0 (precRun pids s) := by
  induction pids generalizing s with
  | nil => exact h
  | cons pid r ih =>
    simp only [precSchedFirstAll, Bool.and_eq_true] at hen
    refine ih _ (ReachSchedFirst.step s pid {} h (precEnabledB_sound hen.1.1) ?_
      (pollAfterSchedB_sound hen.1.2)) hen.2
    intro _ op hop
    simp at hop

theorem precSchedPid_schedFirst : precSchedFirstAll precSchedPid precW0.start = true := by decide +kernel

/-- the run of `precW0` in creation order is a run in the restricted order -/
theorem precSchedPid_reachSF : ReachSchedFirst precW0 (precRun precSchedPid precW0.start) :=
  prec_reach_run_sf precSchedPid _ ReachSchedFirst.start precSchedPid_schedFirst

theorem precSchedXfer_schedFirst : precSchedFirstAll precSchedXfer precW1.start = true := by decide +kernel

theorem precSchedXfer_reachSF : ReachSchedFirst precW1 (precRun precSchedXfer precW1.start) :=
  prec_reach_run_sf precSchedXfer _ ReachSchedFirst.start precSchedXfer_schedFirst

/-- … the run that refutes the exact statement is not: its 28th block (allocation process 11
reporting `precA` finished before `allocate_tasks` 10 has run at t = 2) violates the condition -/
theorem precSchedAdv_not_schedFirst : precSchedFirstAll precSchedAdv precW0.start = false := by
  decide +kernel

end Sys
end Topsim
