/-
  SysInv16 — the scheduling algorithm of a simulation never changes.
-/
import TopsimProofs.SysInv15

namespace Topsim
namespace Sys

syntax "alg_split" : tactic
macro_rules
  | `(tactic| alg_split) =>
    `(tactic| first
      | rfl
      | (split <;> alg_split))

theorem monitorBlock_alg (s : Sys) (now : Time) : (s.monitorBlock now).1.alg = s.alg := rfl

theorem checkIngestCapacity_alg (s : Sys) (o : Obs) (s' : Sys) (b : Bool)
    (h : s.checkIngestCapacity o = .ok (s', b)) : s'.alg = s.alg := by
  unfold checkIngestCapacity at h
  split at h
  · exact absurd h (by simp)
  · split at h
    · split at h
      · injection h with h; injection h with h1 _
        subst h1
        split <;> rfl
      · injection h with h; injection h with h1 _; subst h1; rfl
    · injection h with h; injection h with h1 _; subst h1; rfl

theorem telescopeVisit_alg (n : Nat) (acc : Sys × Option Err) (oid : Oid) :
    (telescopeVisit n acc oid).1.alg = acc.1.alg := by
  obtain ⟨s1, err⟩ := acc
  unfold telescopeVisit
  cases err with
  | some e => rfl
  | none =>
    simp only
    split
    · rfl
    · rename_i o _
      split
      · cases hc : s1.checkIngestCapacity o with
        | error e => rfl
        | ok r =>
          obtain ⟨s', b⟩ := r
          have := checkIngestCapacity_alg s1 o s' b hc
          cases b with
          | false => exact this
          | true => simp only; exact this
      · split <;> rfl

theorem foldl_alg' {α β} (f : Sys × β → α → Sys × β) (hf : ∀ acc x, (f acc x).1.alg = acc.1.alg)
    (l : List α) (acc : Sys × β) : (l.foldl f acc).1.alg = acc.1.alg := by
  induction l generalizing acc with
  | nil => rfl
  | cons x r ih => exact (ih _).trans (hf acc x)

theorem telescopeBlock_alg (s : Sys) (now : Time) : (s.telescopeBlock now).1.alg = s.alg := by
  unfold telescopeBlock
  split
  · rfl
  · simp only
    have := foldl_alg' (telescopeVisit (natNow now)) (telescopeVisit_alg (natNow now))
      (s.obs.map (·.id))
      ({ s with telEvents := [], telDelayed := if s.schedDelayed = true ∧ (!s.telDelayed) = true then true else s.telDelayed }, none)
    generalize (List.foldl (telescopeVisit (natNow now)) ({ s with telEvents := [], telDelayed := if s.schedDelayed = true ∧ (!s.telDelayed) = true then true else s.telDelayed }, none) (s.obs.map (·.id))) = r at this ⊢
    obtain ⟨s1, e1⟩ := r
    cases e1 <;> exact this

theorem schedLoopBlock_alg (s : Sys) (now : Time) (orc : Oracle) :
    (s.schedLoopBlock now orc).1.alg = s.alg := by
  unfold schedLoopBlock
  simp only
  split
  · split
    · rfl
    · split
      · rfl
      · split <;> split <;> rfl
  · rfl

theorem bufferLoopBlock_alg (s : Sys) (now : Time) : (s.bufferLoopBlock now).1.alg = s.alg := by
  unfold bufferLoopBlock
  split
  · rfl
  · simp only; split <;> split <;> rfl

theorem allocIngestIter_alg (s : Sys) (now : Time) (oid : Oid) (tl : Int) :
    (s.allocIngestIter now oid tl).1.alg = s.alg := by
  unfold allocIngestIter; simp only; alg_split

theorem allocIngestBlock_alg (s : Sys) (now : Time) (pc : Nat) (oid : Oid) (tl : Int) :
    (s.allocIngestBlock now pc oid tl).1.alg = s.alg := by
  unfold allocIngestBlock
  split
  · exact allocIngestIter_alg _ _ _ _
  · exact allocIngestIter_alg _ _ _ _

theorem provIngestBlock_alg (s : Sys) (now : Time) (pc : Nat) (oid : Oid) (d : Nat) :
    (s.provIngestBlock now pc oid d).1.alg = s.alg := by
  unfold provIngestBlock
  split
  · simp only
    split
    · rfl
    · refine Eq.trans (foldl_alg _ ?_ _ _) rfl
      intro s x; rfl
  · rfl

theorem ingestStreamIter_alg (s : Sys) (now : Time) (oid : Oid) (tl : Int) :
    (s.ingestStreamIter now oid tl).1.alg = s.alg := by
  unfold ingestStreamIter; alg_split

theorem ingestStreamBlock_alg (s : Sys) (now : Time) (pc : Nat) (oid : Oid) (tl : Int) :
    (s.ingestStreamBlock now pc oid tl).1.alg = s.alg := by
  unfold ingestStreamBlock
  split
  · split
    · rfl
    · split
      · rfl
      · exact ingestStreamIter_alg _ _ _ _
  · exact ingestStreamIter_alg _ _ _ _

theorem allocTaskBlock_alg (s : Sys) (now : Time) (t : Tid) (m : Mid) (preds : List Tid)
    (obs : Option Oid) (ing : Bool) (ret : Nat) :
    (s.allocTaskBlock now t m preds obs ing ret).1.alg = s.alg := by
  unfold allocTaskBlock; simp only; alg_split

theorem doWorkBlock_alg (s : Sys) (now : Time) (orc : Oracle) (t : Tid) (m : Mid) (preds : List Tid)
    (ph tot : Nat) : (s.doWorkBlock now orc t m preds ph tot).1.alg = s.alg := by
  rcases doWorkBlock_out s now orc t m preds ph tot with
    ⟨_, _, _, _, heq⟩ | ⟨_, _, _, _, _, heq⟩ | ⟨_, _, _, heq⟩ <;> rw [heq] <;> rfl

theorem processOne_alg (now : Time) (oid : Oid) (st : PcsSt) (t : Tid) :
    (processOne now oid st t).s.alg = st.s.alg := by
  unfold processOne
  cases hok : st.err with
  | some e => rfl
  | none =>
    simp only
    cases hm : dictGet st.schedule t with
    | none => rfl
    | some m =>
      cases hr : st.s.task? t with
      | none => rfl
      | some r =>
        simp only []
        cases hmm : st.s.machine? m with
        | none => rfl
        | some mm =>
          simp only []
          by_cases hz : ((r.allocObj || r.planned != some m) = true ∧ (mm.cpu = 0 ∨ mm.bw = 0))
          · rw [if_pos hz]
          · simp only [hz, if_false]
            generalize hs1 : (if (r.allocObj || r.planned != some m) = true then
              st.s.updTask t (fun r => updateAllocation r mm) else st.s) = s1
            have h1 : s1.alg = st.s.alg := by subst hs1; split <;> rfl
            by_cases hocc : (st.curr.contains m = true ∨ s1.cl.isOccupied m = true)
            · simp only [hocc, if_true]; exact h1
            · simp only [hocc, if_false]
              by_cases hmiss : (r.preds.any fun p => !dictHas (dictSet st.pairs t m) p) = true
              · simp only [hmiss, if_true]; exact h1
              · simp only [hmiss]
                by_cases hst : r.status ≠ TStatus.unscheduled
                · rw [if_pos hst]; exact h1
                · rw [if_neg hst]; exact h1

theorem processCurrentSchedule_alg (s : Sys) (now : Time) (oid : Oid)
    (schedule pairs : List (Tid × Mid)) : (processCurrentSchedule s now oid schedule pairs).s.alg = s.alg := by
  unfold processCurrentSchedule
  simp only
  generalize ((dictKeys schedule).mergeSort _) = l
  have : ∀ (l : List Tid) (st : PcsSt), (l.foldl (processOne now oid) st).s.alg = st.s.alg := by
    intro l
    induction l with
    | nil => intro st; rfl
    | cons x r ih => intro st; exact (ih _).trans (processOne_alg now oid st x)
  exact this l { s := s, schedule := schedule, pairs := pairs, curr := [] }

theorem allocTasksIter_alg (s : Sys) (now : Time) (orc : Oracle) (oid : Oid)
    (schedule pairs : List (Tid × Mid)) (pool : List Tid) :
    (s.allocTasksIter now orc oid schedule pairs pool).1.alg = s.alg := by
  unfold allocTasksIter
  simp only
  have h1 := updateCurrentPlan_alg s oid
  generalize s.updateCurrentPlan oid = s1 at h1
  split
  · exact h1
  · split
    · exact h1
    · rename_i out _
      have h3 : (if out.status = WStatus.delayed then { (({ s1 with cl := out.cl }).updPlan oid (fun p => { p with status := out.status })) with schedDelayed := true } else (({ s1 with cl := out.cl }).updPlan oid (fun p => { p with status := out.status }))).alg = s.alg := by
        split <;> exact h1
      generalize (if out.status = WStatus.delayed then { (({ s1 with cl := out.cl }).updPlan oid (fun p => { p with status := out.status })) with schedDelayed := true } else (({ s1 with cl := out.cl }).updPlan oid (fun p => { p with status := out.status }))) = s3 at h3
      split
      · split
        · split <;> exact h3
        · exact h3
      · split
        · exact h3
        · have h4 := processCurrentSchedule_alg s3 now oid out.schedule pairs
          split <;> exact h4.trans h3

theorem allocTasksBlock_alg (s : Sys) (now : Time) (orc : Oracle) (pc : Nat) (oid : Oid)
    (schedule pairs : List (Tid × Mid)) (pool : List Tid) (fin : Bool) :
    (s.allocTasksBlock now orc pc oid schedule pairs pool fin).1.alg = s.alg := by
  unfold allocTasksBlock
  split
  · rfl
  · split
    · simp only
      rw [allocTasksIter_alg]
      refine Eq.trans (foldl_alg _ ?_ _ _) rfl
      intro s x; rfl
    · exact allocTasksIter_alg _ _ _ _ _ _ _

theorem hot2coldIter_alg (s : Sys) (now : Time) (o : Oid) (left : Int) :
    (s.hot2coldIter now o left).1.alg = s.alg := by
  unfold hot2coldIter; alg_split

theorem hot2coldBlock_alg (s : Sys) (now : Time) (cur : Option (Oid × Int)) :
    (s.hot2coldBlock now cur).1.alg = s.alg := by
  unfold hot2coldBlock
  split
  · exact hot2coldIter_alg _ _ _ _
  · split
    · rfl
    · rfl
    · rw [hot2coldIter_alg]; rfl

theorem cold2hotIter_alg (s : Sys) (now : Time) (o : Oid) (left : Int) :
    (s.cold2hotIter now o left).1.alg = s.alg := by
  unfold cold2hotIter; alg_split

theorem cold2hotBlock_alg (s : Sys) (now : Time) (cur : Option (Oid × Int)) :
    (s.cold2hotBlock now cur).1.alg = s.alg := by
  unfold cold2hotBlock
  split
  · exact cold2hotIter_alg _ _ _ _
  · split
    · rfl
    · rfl
    · rw [cold2hotIter_alg]; rfl

theorem block_alg (s : Sys) (p : Proc) (orc : Oracle) : (s.block p orc).1.alg = s.alg := by
  unfold block
  split
  · exact monitorBlock_alg _ _
  · exact telescopeBlock_alg _ _
  · rfl
  · exact schedLoopBlock_alg _ _ _
  · exact bufferLoopBlock_alg _ _
  · exact allocIngestBlock_alg _ _ _ _ _
  · exact provIngestBlock_alg _ _ _ _ _
  · exact ingestStreamBlock_alg _ _ _ _ _
  · exact allocTaskBlock_alg _ _ _ _ _ _ _ _
  · exact doWorkBlock_alg _ _ _ _ _ _ _ _
  · exact allocTasksBlock_alg _ _ _ _ _ _ _ _ _
  · exact hot2coldBlock_alg _ _ _
  · exact cold2hotBlock_alg _ _ _

theorem crash_alg (s : Sys) (e : Err) : (s.crash e).alg = s.alg := by unfold crash; split <;> rfl

theorem resume_alg (s : Sys) (pid : Nat) (orc : Oracle) : (s.resume pid orc).1.alg = s.alg := by
  unfold resume
  split
  · rfl
  · split
    · rfl
    · rename_i p _ _
      have := block_alg s p orc
      generalize s.block p orc = r at this
      obtain ⟨s1, k, y⟩ := r
      cases y with
      | timeout d => exact this
      | done => exact this
      | raised e => simp only; rw [crash_alg]; exact this

theorem start_alg (s0 : Sys) : s0.start.alg = s0.alg := by simp [start, spawn]

/-! ### kinds returned by the blocks of neutral processes -/

syntax "neutral_kind" : tactic
macro_rules
  | `(tactic| neutral_kind) =>
    `(tactic| first
      | exact ⟨rfl, rfl, rfl, rfl, rfl⟩
      | (split <;> neutral_kind))

theorem ingestStreamIter_kind (s : Sys) (now : Time) (oid : Oid) (tl : Int) :
    (s.ingestStreamIter now oid tl).2.1.neutral := by
  unfold ingestStreamIter; neutral_kind

theorem ingestStreamBlock_kind (s : Sys) (now : Time) (pc : Nat) (oid : Oid) (tl : Int) :
    (s.ingestStreamBlock now pc oid tl).2.1.neutral := by
  unfold ingestStreamBlock
  split
  · split
    · neutral_kind
    · split
      · neutral_kind
      · exact ingestStreamIter_kind _ _ _ _
  · exact ingestStreamIter_kind _ _ _ _

theorem hot2coldIter_kind (s : Sys) (now : Time) (o : Oid) (left : Int) :
    (s.hot2coldIter now o left).2.1.neutral := by
  unfold hot2coldIter; neutral_kind

theorem hot2coldBlock_kind (s : Sys) (now : Time) (cur : Option (Oid × Int)) :
    (s.hot2coldBlock now cur).2.1.neutral := by
  unfold hot2coldBlock
  split
  · exact hot2coldIter_kind _ _ _ _
  · split
    · neutral_kind
    · neutral_kind
    · exact hot2coldIter_kind _ _ _ _

theorem cold2hotIter_kind (s : Sys) (now : Time) (o : Oid) (left : Int) :
    (s.cold2hotIter now o left).2.1.neutral := by
  unfold cold2hotIter; neutral_kind

theorem cold2hotBlock_kind (s : Sys) (now : Time) (cur : Option (Oid × Int)) :
    (s.cold2hotBlock now cur).2.1.neutral := by
  unfold cold2hotBlock
  split
  · exact cold2hotIter_kind _ _ _ _
  · split
    · neutral_kind
    · neutral_kind
    · exact cold2hotIter_kind _ _ _ _

theorem allocTasksIter_kind (s : Sys) (now : Time) (orc : Oracle) (oid : Oid)
    (schedule pairs : List (Tid × Mid)) (pool : List Tid) :
    (s.allocTasksIter now orc oid schedule pairs pool).2.1.neutral := by
  unfold allocTasksIter; simp only; neutral_kind

theorem allocTasksBlock_kind (s : Sys) (now : Time) (orc : Oracle) (pc : Nat) (oid : Oid)
    (schedule pairs : List (Tid × Mid)) (pool : List Tid) (fin : Bool) :
    (s.allocTasksBlock now orc pc oid schedule pairs pool fin).2.1.neutral := by
  unfold allocTasksBlock
  split
  · exact ⟨rfl, rfl, rfl, rfl, rfl⟩
  · split
    · exact allocTasksIter_kind _ _ _ _ _ _ _
    · exact allocTasksIter_kind _ _ _ _ _ _ _

end Sys
end Topsim
