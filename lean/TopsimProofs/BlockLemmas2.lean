/-
  Frame facts, part 2: every block of every process kind other than the monitor.
-/
import TopsimProofs.BlockLemmas1

namespace Topsim
namespace Sys

theorem ObsMono.congr {a a' b b' : Sys} (h : ObsMono a b) (h1 : a'.obs = a.obs)
    (h2 : b'.obs = b.obs) : ObsMono a' b' := by
  intro oid o ho
  rw [obs?_congr h1] at ho
  obtain ⟨o', ho', hle⟩ := h oid o ho
  exact ⟨o', by rw [obs?_congr h2]; exact ho', hle⟩

theorem ObsMono.of_updObs {a b : Sys} (o : Oid) (f : Obs → Obs) (hid : ∀ r, (f r).id = r.id)
    (hle : ∀ r, a.obs? o = some r → ObsLe r (f r)) (h : b.obs = (a.updObs o f).obs) :
    ObsMono a b :=
  (ObsMono.updObs a o f hid hle).congr rfl h

/-- like `frame_simp`, leaving the observation part as a goal -/
macro "frame_obs" : tactic =>
  `(tactic| refine ⟨by simp, by simp, by simp, by simp, by simp, ?_, by simp⟩)

/-- brute force: split every branch, close each one by one of the introduction rules -/
macro "frame_auto" : tactic =>
  `(tactic| ((repeat' split) <;>
      (first
        | exact ⟨Frame.refl _ _, by simp⟩
        | exact ⟨Frame.of_eq rfl rfl rfl rfl rfl rfl rfl, by simp⟩
        | exact ⟨by frame_simp, by simp⟩)))

/-! ### telescope -/

theorem checkIngestCapacity_ok (s : Sys) (o : Obs) (s1 : Sys) (b : Bool)
    (h : s.checkIngestCapacity o = .ok (s1, b)) :
    (s1 = s ∨ (b = true ∧ s1 = { s with provIngest := s.provIngest + o.ingestDemand })) := by
  unfold checkIngestCapacity at h
  split at h
  · simp at h
  · split at h
    · split at h
      · simp only [Except.ok.injEq, Prod.mk.injEq] at h
        obtain ⟨h1, h2⟩ := h
        subst h2
        split at h1
        · right; simp_all
        · left; exact h1.symm
      · simp only [Except.ok.injEq, Prod.mk.injEq] at h
        left; exact h.1.symm
    · simp only [Except.ok.injEq, Prod.mk.injEq] at h
      left; exact h.1.symm

theorem frame_checkIngestCapacity (n : Nat) (s : Sys) (o : Obs) (s1 : Sys) (b : Bool)
    (h : s.checkIngestCapacity o = .ok (s1, b)) : Frame n s s1 := by
  rcases checkIngestCapacity_ok s o s1 b h with h | ⟨_, h⟩ <;> subst h
  · exact Frame.refl _ _
  · exact Frame.of_eq rfl rfl rfl rfl rfl rfl rfl

theorem frame_telescopeVisit (n : Nat) (acc : Sys × Option Err) (oid : Oid) :
    Frame n acc.1 (telescopeVisit n acc oid).1 := by
  unfold telescopeVisit
  split
  · exact Frame.refl _ _
  · split
    · exact Frame.refl _ _
    · rename_i s o ho
      simp only
      split
      · split
        · exact Frame.refl _ _
        · rename_i s1 hc
          exact frame_checkIngestCapacity n _ o s1 false hc
        · rename_i s1 hc
          have h1 := frame_checkIngestCapacity n _ o s1 true hc
          refine h1.trans ?_
          frame_obs
          exact ObsMono.of_updObs oid (fun r => { r with ast := some n }) (fun _ => rfl)
            (fun r _ => ⟨Nat.le_refl _, rfl, rfl, rfl⟩) rfl
      · split
        · frame_obs
          refine ObsMono.of_updObs oid (fun r => { r with status := .finished }) (fun _ => rfl)
            (fun r _ => ⟨?_, rfl, rfl, rfl⟩) rfl
          simp only [obsRank]; cases r.status <;> simp
        · exact Frame.refl _ _

theorem frame_telescopeFold (n : Nat) (l : List Oid) (acc : Sys × Option Err) :
    Frame n acc.1 (l.foldl (telescopeVisit n) acc).1 := by
  induction l generalizing acc with
  | nil => exact Frame.refl _ _
  | cons a rest ih => exact (frame_telescopeVisit n acc a).trans (ih _)

theorem frame_telescopeBlock (s : Sys) (now : Time) :
    Frame (natNow now) { s with telEvents := [] } (s.telescopeBlock now).1 := by
  unfold telescopeBlock
  split
  · exact Frame.refl _ _
  · simp only
    have h := frame_telescopeFold (natNow now) (s.obs.map (·.id))
      ({ s with telEvents := [],
                telDelayed := if s.schedDelayed ∧ !s.telDelayed then true else s.telDelayed }, none)
    have h0 : Frame (natNow now) { s with telEvents := [] }
        { s with telEvents := [],
                 telDelayed := if s.schedDelayed ∧ !s.telDelayed then true else s.telDelayed } :=
      Frame.of_eq rfl rfl rfl rfl rfl rfl rfl
    split <;> rename_i heq <;> rw [heq] at h <;> exact h0.trans h

/-! ### ingest chain -/

theorem frame_allocIngestIter (s : Sys) (now : Time) (oid : Oid) (tl : Int) :
    Frame (natNow now) s (s.allocIngestIter now oid tl).1 ∧
      (s.allocIngestIter now oid tl).2.1 ≠ .monitor := by
  unfold allocIngestIter
  simp only
  split
  · exact ⟨Frame.refl _ _, by simp⟩
  · split
    · exact ⟨Frame.of_eq rfl rfl rfl rfl rfl rfl rfl, by simp⟩
    · split
      · refine ⟨?_, by simp⟩
        frame_obs
        refine ObsMono.of_updObs oid (fun r => { r with status := .running }) (fun _ => rfl)
          (fun r hr => ⟨?_, rfl, rfl, rfl⟩) rfl
        rename_i o ho _ hw
        rw [ho] at hr
        cases hr
        simp [hw, obsRank]
      · split
        · exact ⟨Frame.refl _ _, by simp⟩
        · exact ⟨Frame.of_eq rfl rfl rfl rfl rfl rfl rfl, by simp⟩

theorem frame_allocIngestBlock (s : Sys) (now : Time) (pc : Nat) (oid : Oid) (tl : Int) :
    Frame (natNow now) s (s.allocIngestBlock now pc oid tl).1 ∧
      (s.allocIngestBlock now pc oid tl).2.1 ≠ .monitor := by
  unfold allocIngestBlock
  split
  · simp only
    have h := frame_allocIngestIter (s.updObs oid (fun r => { r with ast := some (natNow now) })) now oid
      ((match s.obs? oid with | some o => (o.duration : Int) | none => 0) - 1)
    refine ⟨Frame.trans ?_ h.1, h.2⟩
    frame_obs
    exact ObsMono.of_updObs oid (fun r => { r with ast := some (natNow now) }) (fun _ => rfl)
      (fun r _ => ⟨Nat.le_refl _, rfl, rfl, rfl⟩) rfl
  · exact frame_allocIngestIter s now oid tl

theorem frame_provIngestBlock (s : Sys) (now : Time) (pc : Nat) (oid : Oid) (d : Nat) :
    Frame (natNow now) s (s.provIngestBlock now pc oid d).1 ∧
      (s.provIngestBlock now pc oid d).2.1 ≠ .monitor := by
  unfold provIngestBlock
  split
  · simp only
    split
    · exact ⟨Frame.of_eq rfl rfl rfl rfl rfl rfl rfl, by simp⟩
    · refine ⟨?_, by simp⟩
      refine Frame.trans ?_ (Frame.foldl _ ?_ _ _)
      · exact Frame.of_eq rfl rfl rfl rfl rfl rfl rfl
      · intro s a
        exact frame_spawn _ _ _ _ (by simp)
  · exact ⟨Frame.refl _ _, by simp⟩

theorem frame_ingestStreamIter (s : Sys) (now : Time) (oid : Oid) (tl : Int) :
    Frame (natNow now) s (s.ingestStreamIter now oid tl).1 ∧
      (s.ingestStreamIter now oid tl).2.1 ≠ .monitor := by
  unfold ingestStreamIter
  split
  · exact ⟨Frame.refl _ _, by simp⟩
  · split
    · split
      · exact ⟨Frame.of_eq rfl rfl rfl rfl rfl rfl rfl, by simp⟩
      · simp only
        split
        · exact ⟨Frame.of_eq rfl rfl rfl rfl rfl rfl rfl, by simp⟩
        · exact ⟨Frame.of_eq rfl rfl rfl rfl rfl rfl rfl, by simp⟩
    · exact ⟨Frame.refl _ _, by simp⟩

theorem frame_ingestStreamBlock (s : Sys) (now : Time) (pc : Nat) (oid : Oid) (tl : Int) :
    Frame (natNow now) s (s.ingestStreamBlock now pc oid tl).1 ∧
      (s.ingestStreamBlock now pc oid tl).2.1 ≠ .monitor := by
  unfold ingestStreamBlock
  split
  · split
    · exact ⟨Frame.refl _ _, by simp⟩
    · split
      · exact ⟨Frame.refl _ _, by simp⟩
      · simp only
        rename_i o _ _
        have h := frame_ingestStreamIter (s.addBuf ⟨natNow now, oid, .bufAdded⟩) now oid
          ((o.duration : Int) - 1)
        exact ⟨(frame_addBuf (natNow now) s _ rfl).trans h.1, h.2⟩
  · exact frame_ingestStreamIter s now oid tl

/-! ### allocate_task_to_cluster / do_work -/

theorem frame_allocTaskBlock (s : Sys) (now : Time) (t : Tid) (m : Mid) (preds : List Tid)
    (obs : Option Oid) (ing : Bool) (ret : Nat) :
    Frame (natNow now) s (s.allocTaskBlock now t m preds obs ing ret).1 ∧
      (s.allocTaskBlock now t m preds obs ing ret).2.1 ≠ .monitor := by
  unfold allocTaskBlock
  simp only
  frame_auto

theorem frame_doWorkBlock (s : Sys) (now : Time) (orc : Oracle) (t : Tid) (m : Mid)
    (preds : List Tid) (phase total : Nat) :
    Frame (natNow now) s (s.doWorkBlock now orc t m preds phase total).1 ∧
      (s.doWorkBlock now orc t m preds phase total).2.1 ≠ .monitor := by
  unfold doWorkBlock
  simp only
  frame_auto

/-! ### scheduler loop -/

theorem frame_schedLoopBlock (s : Sys) (now : Time) (orc : Oracle) :
    Frame (natNow now) { s with schEvents := [] } (s.schedLoopBlock now orc).1 := by
  unfold schedLoopBlock
  simp only
  (repeat' split) <;>
    first
      | exact Frame.refl _ _
      | exact Frame.of_eq rfl rfl rfl rfl rfl rfl rfl
      | frame_simp

/-! ### allocate_tasks -/

theorem frame_updateCurrentPlan (n : Nat) (s : Sys) (oid : Oid) :
    Frame n s (s.updateCurrentPlan oid) := by
  unfold updateCurrentPlan
  split
  · exact Frame.refl _ _
  · simp only
    refine Frame.trans (Frame.foldl _ ?_ _ _) (frame_updPlan _ _ _ _)
    intro s a
    (repeat' split) <;>
      first
        | exact Frame.refl _ _
        | exact Frame.of_eq rfl rfl rfl rfl rfl rfl rfl

theorem frame_processOne (n : Nat) (now : Time) (oid : Oid) (st : PcsSt) (t : Tid) :
    Frame n st.s (processOne now oid st t).s := by
  unfold processOne
  simp only
  (repeat' split) <;>
    first
      | exact Frame.refl _ _
      | exact Frame.of_eq rfl rfl rfl rfl rfl rfl rfl
      | frame_simp

theorem frame_processFold (n : Nat) (now : Time) (oid : Oid) (l : List Tid) (st : PcsSt) :
    Frame n st.s (l.foldl (processOne now oid) st).s := by
  induction l generalizing st with
  | nil => exact Frame.refl _ _
  | cons a rest ih => exact (frame_processOne n now oid st a).trans (ih _)

theorem frame_processCurrentSchedule (n : Nat) (s : Sys) (now : Time) (oid : Oid)
    (schedule pairs : List (Tid × Mid)) :
    Frame n s (processCurrentSchedule s now oid schedule pairs).s := by
  unfold processCurrentSchedule
  exact frame_processFold n now oid _ { s := s, schedule := schedule, pairs := pairs, curr := [] }

theorem frame_allocTasksIter (s : Sys) (now : Time) (orc : Oracle) (oid : Oid)
    (schedule pairs : List (Tid × Mid)) (pool : List Tid) :
    Frame (natNow now) s (s.allocTasksIter now orc oid schedule pairs pool).1 ∧
      (s.allocTasksIter now orc oid schedule pairs pool).2.1 ≠ .monitor := by
  have h1 := frame_updateCurrentPlan (natNow now) s oid
  unfold allocTasksIter
  simp only
  generalize s.updateCurrentPlan oid = s1 at h1 ⊢
  split
  · exact ⟨h1, by simp⟩
  · split
    · exact ⟨h1, by simp⟩
    · rename_i plan _ out _
      generalize hs3 : (if out.status = .delayed then
        { (({ s1 with cl := out.cl }).updPlan oid (fun p => { p with status := out.status })) with
            schedDelayed := true }
        else (({ s1 with cl := out.cl }).updPlan oid (fun p => { p with status := out.status }))) = s3
      have h3 : Frame (natNow now) s1 s3 := by
        subst hs3
        split
        · exact Frame.of_eq rfl rfl rfl rfl rfl rfl rfl
        · exact Frame.of_eq rfl rfl rfl rfl rfl rfl rfl
      have h13 := h1.trans h3
      split
      · split
        · split
          · refine ⟨h13.trans ?_, by simp⟩
            frame_simp
          · refine ⟨h13.trans ?_, by simp⟩
            frame_simp
        · refine ⟨h13.trans ?_, by simp⟩
          frame_simp
      · split
        · exact ⟨h13, by simp⟩
        · have h4 := frame_processCurrentSchedule (natNow now) s3 now oid out.schedule pairs
          split
          · exact ⟨h13.trans h4, by simp⟩
          · exact ⟨h13.trans h4, by simp⟩

theorem frame_allocTasksBlock (s : Sys) (now : Time) (orc : Oracle) (pc : Nat) (oid : Oid)
    (schedule pairs : List (Tid × Mid)) (pool : List Tid) (fin : Bool) :
    Frame (natNow now) s (s.allocTasksBlock now orc pc oid schedule pairs pool fin).1 ∧
      (s.allocTasksBlock now orc pc oid schedule pairs pool fin).2.1 ≠ .monitor := by
  unfold allocTasksBlock
  split
  · exact ⟨Frame.refl _ _, by simp⟩
  · split
    · simp only
      generalize hs2 : List.foldl (fun (s : Sys) t => s.updTask t (fun r => { r with offset := natNow now }))
        (s.updPlan oid (fun p => { p with ast := some (natNow now) })) _ = s2
      have h2 : Frame (natNow now) s s2 := by
        subst hs2
        refine (frame_updPlan _ _ _ _).trans (Frame.foldl _ ?_ _ _)
        intro s a
        exact frame_updTask _ _ _ _
      have h := frame_allocTasksIter (s2.addSch ⟨natNow now, oid, .allocStarted⟩) now orc oid
        schedule pairs pool
      exact ⟨(h2.trans (frame_addSch (natNow now) s2 _ rfl)).trans h.1, h.2⟩
    · exact frame_allocTasksIter s now orc oid schedule pairs pool

/-! ### buffer loop and tier moves -/

theorem frame_bufferLoopBlock (s : Sys) (now : Time) :
    Frame (natNow now) s (s.bufferLoopBlock now).1 := by
  unfold bufferLoopBlock
  simp only
  (repeat' split) <;>
    first
      | exact Frame.refl _ _
      | exact Frame.of_eq rfl rfl rfl rfl rfl rfl rfl
      | frame_simp

theorem frame_hot2coldIter (s : Sys) (now : Time) (o : Oid) (left : Int) :
    Frame (natNow now) s (s.hot2coldIter now o left).1 ∧
      (s.hot2coldIter now o left).2.1 ≠ .monitor := by
  unfold hot2coldIter
  frame_auto

theorem frame_hot2coldBlock (s : Sys) (now : Time) (cur : Option (Oid × Int)) :
    Frame (natNow now) s (s.hot2coldBlock now cur).1 ∧ (s.hot2coldBlock now cur).2.1 ≠ .monitor := by
  unfold hot2coldBlock
  split
  · exact frame_hot2coldIter s now _ _
  · split
    · exact ⟨Frame.of_eq rfl rfl rfl rfl rfl rfl rfl, by simp⟩
    · exact ⟨Frame.of_eq rfl rfl rfl rfl rfl rfl rfl, by simp⟩
    · rename_i b1 o left _
      have h := frame_hot2coldIter (({ s with buf := b1 }).addBuf ⟨natNow now, o, .transferStarted⟩)
        now o left
      refine ⟨Frame.trans ?_ h.1, h.2⟩
      frame_simp

theorem frame_cold2hotIter (s : Sys) (now : Time) (o : Oid) (left : Int) :
    Frame (natNow now) s (s.cold2hotIter now o left).1 ∧
      (s.cold2hotIter now o left).2.1 ≠ .monitor := by
  unfold cold2hotIter
  frame_auto

theorem frame_cold2hotBlock (s : Sys) (now : Time) (cur : Option (Oid × Int)) :
    Frame (natNow now) s (s.cold2hotBlock now cur).1 ∧ (s.cold2hotBlock now cur).2.1 ≠ .monitor := by
  unfold cold2hotBlock
  split
  · exact frame_cold2hotIter s now _ _
  · split
    · exact ⟨Frame.of_eq rfl rfl rfl rfl rfl rfl rfl, by simp⟩
    · exact ⟨Frame.of_eq rfl rfl rfl rfl rfl rfl rfl, by simp⟩
    · rename_i b1 o left _
      have h := frame_cold2hotIter (({ s with buf := b1 }).addBuf ⟨natNow now, o, .transferStarted⟩)
        now o left
      refine ⟨Frame.trans ?_ h.1, h.2⟩
      frame_simp

/-! ### dispatch -/

/-- the state a block starts from, as far as the pending event lists go: the
telescope and scheduler loops begin by dropping their own list -/
def preClear (s : Sys) (k : PK) : Sys :=
  match k with
  | .telescope => { s with telEvents := [] }
  | .schedLoop => { s with schEvents := [] }
  | _ => s

/-- every block of a process other than the monitor -/
theorem frame_block (s : Sys) (p : Proc) (orc : Oracle) (hk : p.k ≠ .monitor) :
    Frame (natNow p.wake) (s.preClear p.k) (s.block p orc).1 ∧
      ((s.block p orc).2.1 = .monitor → False) := by
  unfold block preClear
  simp only
  cases hpk : p.k with
  | monitor => exact absurd hpk hk
  | telescope => exact ⟨frame_telescopeBlock s p.wake, by simp⟩
  | clusterLoop => exact ⟨Frame.of_eq rfl rfl rfl rfl rfl rfl rfl, by simp⟩
  | schedLoop => exact ⟨frame_schedLoopBlock s p.wake orc, by simp⟩
  | bufferLoop => exact ⟨frame_bufferLoopBlock s p.wake, by simp⟩
  | allocIngest o tl => exact frame_allocIngestBlock s p.wake p.pc o tl
  | provIngest o d => exact frame_provIngestBlock s p.wake p.pc o d
  | ingestStream o tl => exact frame_ingestStreamBlock s p.wake p.pc o tl
  | allocTask t m preds obs ing ret => exact frame_allocTaskBlock s p.wake t m preds obs ing ret
  | doWork t m preds phase total => exact frame_doWorkBlock s p.wake orc t m preds phase total
  | allocTasks o sc pa po fin => exact frame_allocTasksBlock s p.wake orc p.pc o sc pa po fin
  | hot2cold cur => exact frame_hot2coldBlock s p.wake cur
  | cold2hot cur => exact frame_cold2hotBlock s p.wake cur

end Sys
end Topsim
