/-
  Preced9 — `PR` under the blocks of every process other than a task body:
  the harmless kinds, `allocate_tasks`, the allocation process.
-/
import TopsimProofs.Preced8

namespace Topsim
namespace Sys

open Cluster

theorem TaskStepR.of_tasks_eq {R} {s X Y : Sys} (h : TaskStepR R s X) (e : Y.tasks = X.tasks) :
    TaskStepR R s Y := by
  have : ∀ t, Y.task? t = X.task? t := fun t => by unfold task?; rw [e]
  exact ⟨fun t r hr => by rw [this]; exact h.fwd t r hr, fun t r' h0 h1 => h.fresh t r' h0 (by rw [← this]; exact h1)⟩

theorem TaskStepR.of_src_eq {R} {s s' X : Sys} (h : TaskStepR R s' X) (e : s.tasks = s'.tasks) :
    TaskStepR R s X := by
  have : ∀ t, s.task? t = s'.task? t := fun t => by unfold task?; rw [e]
  exact ⟨fun t r hr => h.fwd t r (by rw [← this]; exact hr),
    fun t r' h0 h1 => h.fresh t r' (by rw [← this]; exact h0) h1⟩

/-! ### kinds of the processes a block creates -/

/-- a kind no clause of `PR` constrains when it is new -/
def Harmless (k : PK) : Prop :=
  k.tag ≠ "telescope" ∧ k.tag ≠ "doWork" ∧ (∀ o sc pa po fn, k = .allocTasks o sc pa po fn → sc = []) ∧
  (∀ t m cross obs ret, k ≠ .allocTask t m cross obs false ret)

theorem harmless_of_tag {k : PK} (h1 : k.tag ≠ "telescope") (h2 : k.tag ≠ "doWork") (h3 : k.tag ≠ "allocTasks")
    (h4 : k.tag ≠ "allocTask") : Harmless k :=
  ⟨h1, h2, fun o sc pa po fn e => absurd (by rw [e]; rfl) h3,
   fun t m cross obs ret e => h4 (by rw [e]; rfl)⟩

theorem tag_telescope {k : PK} (h : k.tag = "telescope") : k = .telescope := by
  cases k <;> simp [PK.tag] at h ⊢

theorem mem_new_of_append {l new : List Proc} {X : List Proc} (h : X = l ++ new) {q : Proc} (hq : q ∈ X)
    (hn : q ∉ l) : q ∈ new := by
  rw [h] at hq
  rcases List.mem_append.mp hq with h1 | h1
  · exact absurd h1 hn
  · exact h1

theorem block_new_harmless (s : Sys) (p : Proc) (orc : Oracle) (h2 : p.k.tag ≠ "allocTask")
    (h3 : p.k.tag ≠ "doWork") (h4 : p.k.tag ≠ "allocTasks") :
    ∀ q ∈ (s.block p orc).1.procs, q ∉ s.procs → Harmless q.k := by
  have hsame : ∀ X : Sys, X.procs = s.procs → ∀ q ∈ X.procs, q ∉ s.procs → Harmless q.k := by
    intro X e q hq hn; rw [e] at hq; exact absurd hq hn
  cases hk : p.k with
  | monitor =>
    have hb : s.block p orc = ((s.monitorBlock p.wake).1, p.k, (s.monitorBlock p.wake).2) := by
      unfold block; simp only [hk]
    rw [hb]; exact hsame _ (monitorBlock_procsq s p.wake)
  | telescope =>
    have hb : s.block p orc = ((s.telescopeBlock p.wake).1, .telescope, (s.telescopeBlock p.wake).2) := by
      unfold block; simp only [hk]
    rw [hb]
    obtain ⟨new, hprocs, hnewk⟩ := telescopeBlock_procs s p.wake
    intro q hq hn
    have := hnewk q (mem_new_of_append hprocs hq hn)
    exact harmless_of_tag (by rw [this]; decide) (by rw [this]; decide) (by rw [this]; decide) (by rw [this]; decide)
  | clusterLoop =>
    have hb : s.block p orc = ({ s with cl := s.cl.loopTick }, p.k, .timeout 1) := by
      unfold block; simp only [hk]
    rw [hb]; exact hsame _ rfl
  | schedLoop =>
    have hb : s.block p orc = ((s.schedLoopBlock p.wake orc).1, p.k, (s.schedLoopBlock p.wake orc).2) := by
      unfold block; simp only [hk]
    rw [hb]
    rcases schedLoopBlock_buf s p.wake orc with ⟨_, _, _, _, hprocs⟩ |
      ⟨oid, o, recs, plan, _, _, _, _, _, _, hq⟩
    · exact hsame _ hprocs
    · rcases hq with ⟨_, _, hprocs⟩ | ⟨_, _, hprocs⟩
      · exact hsame _ hprocs
      · intro q hq hn
        have := mem_new_of_append hprocs hq hn
        simp only [List.mem_singleton] at this
        subst this
        refine ⟨by simp [PK.tag], by simp [PK.tag], ?_, by simp⟩
        intro o' sc pa po fn e
        simp only [PK.allocTasks.injEq] at e
        exact e.2.1.symm
  | bufferLoop =>
    have hb : s.block p orc = ((s.bufferLoopBlock p.wake).1, p.k, (s.bufferLoopBlock p.wake).2) := by
      unfold block; simp only [hk]
    rw [hb]
    obtain ⟨new, hprocs, hnewk⟩ := bufferLoopBlock_newprocs s p.wake
    intro q hq hn
    rcases hnewk q (mem_new_of_append hprocs hq hn) with e | e <;>
      exact harmless_of_tag (by rw [e]; decide) (by rw [e]; decide) (by rw [e]; decide) (by rw [e]; decide)
  | allocIngest o tl =>
    have hb : s.block p orc = s.allocIngestBlock p.wake p.pc o tl := by
      unfold block; simp only [hk]
    rw [hb]
    rcases allocIngestBlock_procs s p.wake p.pc o tl with hsm | ⟨ob, d, _, _, hprocs, _⟩
    · exact hsame _ hsm
    · intro q hq hn
      have := mem_new_of_append hprocs hq hn
      simp only [List.mem_cons, List.not_mem_nil, or_false] at this
      rcases this with rfl | rfl <;>
        exact harmless_of_tag (by simp [PK.tag]) (by simp [PK.tag]) (by simp [PK.tag]) (by simp [PK.tag])
  | provIngest o d =>
    have hb : s.block p orc = s.provIngestBlock p.wake p.pc o d := by
      unfold block; simp only [hk]
    rw [hb]
    obtain ⟨_, _, _, new, hprocs, hnew⟩ := provIngestBlock_shape2 s p.wake p.pc o d
    intro q hq hn
    obtain ⟨t', m', e, _⟩ := hnew q (mem_new_of_append hprocs hq hn)
    refine ⟨by rw [e]; simp [PK.tag], by rw [e]; simp [PK.tag], ?_, ?_⟩
    · intro o' sc pa po fn e'; rw [e] at e'; simp at e'
    · intro t m cross obs ret e'; rw [e] at e'; simp at e'
  | ingestStream o tl =>
    have hb : s.block p orc = s.ingestStreamBlock p.wake p.pc o tl := by
      unfold block; simp only [hk]
    rw [hb]; exact hsame _ (ingestStreamBlock_procsq s p.wake p.pc o tl)
  | allocTask t m preds obs ing ret => rw [hk] at h2; exact absurd rfl h2
  | doWork t m preds ph tot => rw [hk] at h3; exact absurd rfl h3
  | allocTasks o sc pa po fn => rw [hk] at h4; exact absurd rfl h4
  | hot2cold cur =>
    have hb : s.block p orc = s.hot2coldBlock p.wake cur := by
      unfold block; simp only [hk]
    rw [hb]; exact hsame _ (hot2coldBlock_procsq s p.wake cur)
  | cold2hot cur =>
    have hb : s.block p orc = s.cold2hotBlock p.wake cur := by
      unfold block; simp only [hk]
    rw [hb]; exact hsame _ (cold2hotBlock_procsq s p.wake cur)

/-! ### the scheduler loop, as far as the records go -/

theorem schedLoop_taskStep (s : Sys) (now : Time) (orc : Oracle) :
    TaskStep s (s.schedLoopBlock now orc).1 := by
  rcases schedLoopBlock_buf s now orc with ⟨_, _, htasks, _, _⟩ |
    ⟨oid, o, recs, plan, _, _, hrp, _, _, htasks, _⟩
  · exact TaskStep.of_eq htasks
  · obtain ⟨_, _, _, g4⟩ := planOf_shape o (natNow now) s.staticPlan orc.plan recs plan hrp
    refine TaskStepR.append TKeep.refl s _ recs htasks ?_
    intro r hr
    obtain ⟨n, _, p', _, a1, a2, _⟩ := g4 r hr
    refine ⟨a1, a2, ?_⟩
    intro q hq
    rw [p'] at hq
    obtain ⟨x, _, rfl⟩ := List.mem_map.mp hq
    exact ⟨_, _, _, rfl⟩

/-- records and finished-task map under a block of a harmless kind -/
theorem block_taskStep (s : Sys) (p : Proc) (orc : Oracle) (ha : s.alg ≠ .oracle)
    (h2 : p.k.tag ≠ "allocTask") (h3 : p.k.tag ≠ "doWork") :
    TaskStep s (s.block p orc).1 ∧ (s.block p orc).1.cl.finished = s.cl.finished := by
  by_cases h1 : p.k.tag = "schedLoop"
  · cases hk : p.k with
    | schedLoop =>
      have hb : s.block p orc = ((s.schedLoopBlock p.wake orc).1, p.k, (s.schedLoopBlock p.wake orc).2) := by
        unfold block; simp only [hk]
      rw [hb]
      exact ⟨schedLoop_taskStep s p.wake orc, by rw [schedLoopBlock_clq]⟩
    | _ => rw [hk] at h1; simp [PK.tag] at h1
  · have := block_quietB s p orc ha h1 h2 h3
    exact ⟨this.task, this.fin⟩

/-! ### the steps -/

/-- the common part: records kept, finished-task map as before -/
theorem pr_step_quiet {s : Sys} (h : PR s) (hs : SInv s) {p : Proc} (hp : p ∈ s.procs) (ha : p.alive = true)
    (hmin : ∀ q ∈ s.procs, q.alive = true → p.wake ≤ q.wake) (orc : Oracle)
    (hT : TaskStep s (s.block p orc).1) (hF : (s.block p orc).1.cl.finished = s.cl.finished)
    (hown : (∀ t m preds ph tot, (s.block p orc).2.1 = .doWork t m preds ph tot →
        (fin (s.block p orc).2.1 (s.block p orc).2.2 p.wake p).alive = true) ∧
      (∀ o sc pa po fn, (s.block p orc).2.1 = .allocTasks o sc pa po fn → ∀ t ∈ dictKeys sc,
        Rdy (s.block p orc).1 t) ∧
      (∀ t m cross obs ret, (s.block p orc).2.1 = .allocTask t m cross obs false ret → Rdy (s.block p orc).1 t))
    (hnew : ∀ q ∈ (s.block p orc).1.procs, q ∉ s.procs → Harmless q.k ∨
      ∃ t m cross obs ret, q.k = .allocTask t m cross obs false ret ∧ Rdy (s.block p orc).1 t) :
    PR ((s.block p orc).1.updProc p.pid (fin (s.block p orc).2.1 (s.block p orc).2.2 p.wake)) := by
  have htel : p.k = .telescope → ((natNow p.wake : Nat) : Time) = p.wake := by
    intro hk
    obtain ⟨n, hn⟩ := h.telNat p hp hk
    rw [hn, natNow_natCast]
  have hpc := resume_procs hs hp ha hmin orc htel
  have hFm : FinMono s (s.block p orc).1 := FinMono.of_eq hF
  have hrdy : ∀ t, Rdy s t → Rdy (s.block p orc).1 t := fun t ht => ht.mono hT.toS hFm
  have hYX : ∀ t, Rdy (s.block p orc).1 t →
      Rdy ((s.block p orc).1.updProc p.pid (fin (s.block p orc).2.1 (s.block p orc).2.2 p.wake)) t :=
    fun t ht => ht.congr rfl rfl
  refine h.quiet hs hp ha (hT.of_tasks_eq rfl) hFm (fun q _ hq => Or.inl ((finT_congr hF q).mp hq))
    (resume_wake hs hp ha hmin orc htel) ?_ ?_ ?_ ?_
  · -- telescope
    intro q hq hqk
    rcases hpc q hq with rfl | ⟨h1, _⟩ | ⟨h1, h2, _⟩
    · simp only [fin_k] at hqk
      have hpk : p.k = .telescope := tag_telescope (by rw [← block_tag s hs.pw p orc, hqk]; rfl)
      obtain ⟨n, hn⟩ := h.telNat p hp hpk
      have hu := block_unit s p orc (by rw [hpk]; rfl)
      generalize (s.block p orc).2.2 = y at hu ⊢
      cases y with
      | timeout d =>
        simp only [Yield.unit] at hu
        subst hu
        refine ⟨n + 1, ?_⟩
        show p.wake + 1 = _
        rw [hn]; simp
      | done => exact ⟨n, hn⟩
      | raised e => exact ⟨n, hn⟩
    · exact h.telNat q h1 hqk
    · rcases hnew q h1 h2 with hh | ⟨t, m, cross, obs, ret, e, _⟩
      · exact absurd (by rw [hqk]; rfl) hh.1
      · rw [e] at hqk; exact absurd hqk (by simp)
  · -- ended task bodies
    intro d hd t m preds ph tot hdk hda
    rcases hpc d hd with rfl | ⟨h1, _⟩ | ⟨h1, h2, _, h3, _⟩
    · simp only [fin_k] at hdk
      rw [hown.1 t m preds ph tot hdk] at hda
      exact absurd hda (by simp)
    · exact ⟨d, h1, m, preds, ph, tot, hdk, hda⟩
    · rw [h3] at hda; exact absurd hda (by simp)
  · -- local schedules
    intro q hq o sc pa po fn hqk t ht
    apply hYX
    rcases hpc q hq with rfl | ⟨h1, _⟩ | ⟨h1, h2, _⟩
    · simp only [fin_k] at hqk
      exact hown.2.1 o sc pa po fn hqk t ht
    · exact hrdy t (h.schedRdy q h1 o sc pa po fn hqk t ht)
    · rcases hnew q h1 h2 with hh | ⟨t', m, cross, obs, ret, e, _⟩
      · rw [hh.2.2.1 o sc pa po fn hqk] at ht; simp [dictKeys] at ht
      · rw [e] at hqk; exact absurd hqk (by simp)
  · -- allocation processes
    intro q hq t m cross obs ret hqk
    apply hYX
    rcases hpc q hq with rfl | ⟨h1, _⟩ | ⟨h1, h2, _⟩
    · simp only [fin_k] at hqk
      exact hown.2.2 t m cross obs ret hqk
    · exact hrdy t (h.atRdy q h1 t m cross obs ret hqk)
    · rcases hnew q h1 h2 with hh | ⟨t', m', cross', obs', ret', e, hr⟩
      · exact absurd hqk (hh.2.2.2 t m cross obs ret)
      · rw [e] at hqk
        simp only [PK.allocTask.injEq] at hqk
        rw [← hqk.1]; exact hr

/-- monitor, telescope, cluster loop, scheduler loop, buffer loop, ingest chain, tier moves -/
theorem pr_harmless {s : Sys} (h : PR s) (hs : SInv s) (hno : s.alg ≠ .oracle) {p : Proc} (hp : p ∈ s.procs)
    (ha : p.alive = true) (hmin : ∀ q ∈ s.procs, q.alive = true → p.wake ≤ q.wake) (orc : Oracle)
    (h2 : p.k.tag ≠ "allocTask") (h3 : p.k.tag ≠ "doWork") (h4 : p.k.tag ≠ "allocTasks") :
    PR ((s.block p orc).1.updProc p.pid (fin (s.block p orc).2.1 (s.block p orc).2.2 p.wake)) := by
  obtain ⟨hT, hF⟩ := block_taskStep s p orc hno h2 h3
  have htag := block_tag s hs.pw p orc
  refine pr_step_quiet h hs hp ha hmin orc hT hF ⟨?_, ?_, ?_⟩
    (fun q hq hn => Or.inl (block_new_harmless s p orc h2 h3 h4 q hq hn))
  · intro t m preds ph tot e; rw [e] at htag; exact absurd htag.symm h3
  · intro o sc pa po fn e; rw [e] at htag; exact absurd htag.symm h4
  · intro t m cross obs ret e; rw [e] at htag; exact absurd htag.symm h2

/-- `allocate_tasks` -/
theorem pr_allocTasks {s : Sys} (h : PR s) (hs : SInv s) (hst : ST s) (hno : s.alg ≠ .oracle) {p : Proc}
    (hp : p ∈ s.procs) (ha : p.alive = true) (hmin : ∀ q ∈ s.procs, q.alive = true → p.wake ≤ q.wake)
    (orc : Oracle) {o sc pa po fn} (hk : p.k = .allocTasks o sc pa po fn) :
    PR ((s.block p orc).1.updProc p.pid (fin (s.block p orc).2.1 (s.block p orc).2.2 p.wake)) := by
  have hb : s.block p orc = s.allocTasksBlock p.wake orc p.pc o sc pa po fn := by
    unfold block; simp only [hk]
  have hq := quietB_allocTasksBlock s hno p.wake orc p.pc o sc pa po fn
  obtain ⟨sc', pa', po', fn', g1, g2, g3⟩ := allocTasksBlock_sum hst hno p.wake orc p.pc o sc pa po fn
  rw [← hb] at hq g1 g2 g3
  have hrdy : ∀ t, Rdy s t → Rdy (s.block p orc).1 t := fun t ht => hq.rdy ht
  have hkeys : ∀ t, (t ∈ dictKeys sc ∨ NewRdy (s.block p orc).1 o t) → Rdy (s.block p orc).1 t := by
    intro t ht
    rcases ht with h1 | h1
    · exact hrdy t (h.schedRdy p hp o sc pa po fn hk t h1)
    · exact h1.1
  refine pr_step_quiet h hs hp ha hmin orc hq.task hq.fin ⟨?_, ?_, ?_⟩ ?_
  · intro t m preds ph tot e; rw [g1] at e; exact absurd e (by simp)
  · intro o' sc'' pa'' po'' fn'' e t ht
    rw [g1] at e
    simp only [PK.allocTasks.injEq] at e
    rw [← e.2.1] at ht
    exact hkeys t (g2 t ht)
  · intro t m cross obs ret e; rw [g1] at e; exact absurd e (by simp)
  · intro q hq' hn
    rcases g3 q hq' with h1 | ⟨t, m, cross, e, ht, _⟩
    · exact absurd h1 hn
    · exact Or.inr ⟨t, m, cross, some o, 0, e, hkeys t ht⟩

/-- the allocation process -/
theorem pr_allocTask {s : Sys} (h : PR s) (hs : SInv s) (hfi : FI s) (hwi : WI s) {p : Proc} (hp : p ∈ s.procs)
    (ha : p.alive = true) (hmin : ∀ q ∈ s.procs, q.alive = true → p.wake ≤ q.wake) (orc : Oracle)
    {t m preds obs ing ret} (hk : p.k = .allocTask t m preds obs ing ret)
    (hnr : ∀ e, (s.block p orc).2.2 ≠ .raised e) :
    PR ((s.block p orc).1.updProc p.pid (fin (s.block p orc).2.1 (s.block p orc).2.2 p.wake)) := by
  have hpw := hs.pw
  obtain ⟨U, hU⟩ := hs.ci
  have hb : s.block p orc = s.allocTaskBlock p.wake t m preds obs ing ret := by
    unfold block; simp only [hk]
  have htel : p.k = .telescope → ((natNow p.wake : Nat) : Time) = p.wake := by
    intro e; rw [hk] at e; exact absurd e (by simp)
  have hpc := resume_procs hs hp ha hmin orc htel
  have hwk := resume_wake hs hp ha hmin orc htel
  -- the process keeps its task; new processes are task bodies
  have hkind : ∃ ret', (s.block p orc).2.1 = .allocTask t m preds obs ing ret' := by
    rw [hb]
    rcases allocTaskBlock_cases s hpw p.wake t m preds obs ing ret with
      ⟨_, e, _, heq⟩ | ⟨_, _, heq⟩ | ⟨_, _, heq⟩ | ⟨_, _, e, _, heq⟩ | ⟨_, _, _, heq⟩ <;> rw [heq] <;>
      exact ⟨_, rfl⟩
  obtain ⟨ret', hk'⟩ := hkind
  have hnewdw : ∀ q ∈ (s.block p orc).1.procs, q ∉ s.procs → q.k.tag = "doWork" := by
    intro q hq hn
    obtain ⟨new, hprocs, hnew⟩ := allocTaskBlock_procs s hpw p.wake t m preds obs ing ret
    rw [← hb] at hprocs
    exact hnew q (mem_new_of_append hprocs hq hn)
  -- the process-table clauses, given the record clauses
  have finishUp : ∀ (hT : TaskStep s (s.block p orc).1) (hFm : FinMono s (s.block p orc).1)
      (hFn : ∀ q, IsWf q → FinT (s.block p orc).1 q → FinT s q ∨
        ∃ rq, (s.block p orc).1.task? q = some rq ∧ rq.status = .finished ∧ rq.aft.isSome = true),
      PR ((s.block p orc).1.updProc p.pid (fin (s.block p orc).2.1 (s.block p orc).2.2 p.wake)) := by
    intro hT hFm hFn
    have hrdy : ∀ x, Rdy s x →
        Rdy ((s.block p orc).1.updProc p.pid (fin (s.block p orc).2.1 (s.block p orc).2.2 p.wake)) x :=
      fun x hx => (hx.mono hT.toS hFm).congr rfl rfl
    refine h.quiet hs hp ha (hT.of_tasks_eq rfl) hFm hFn hwk ?_ ?_ ?_ ?_
    · intro q hq hqk
      rcases hpc q hq with rfl | ⟨h1, _⟩ | ⟨h1, h2, _⟩
      · simp only [fin_k] at hqk; rw [hk'] at hqk; exact absurd hqk (by simp)
      · exact h.telNat q h1 hqk
      · have := hnewdw q h1 h2; rw [hqk] at this; simp [PK.tag] at this
    · intro d hd t1 m1 preds1 ph tot hdk hda
      rcases hpc d hd with rfl | ⟨h1, _⟩ | ⟨_, _, _, h3, _⟩
      · simp only [fin_k] at hdk; rw [hk'] at hdk; exact absurd hdk (by simp)
      · exact ⟨d, h1, m1, preds1, ph, tot, hdk, hda⟩
      · rw [h3] at hda; exact absurd hda (by simp)
    · intro q hq o sc pa po fn hqk x hx
      rcases hpc q hq with rfl | ⟨h1, _⟩ | ⟨h1, h2, _⟩
      · simp only [fin_k] at hqk; rw [hk'] at hqk; exact absurd hqk (by simp)
      · exact hrdy x (h.schedRdy q h1 o sc pa po fn hqk x hx)
      · have := hnewdw q h1 h2; rw [hqk] at this; simp [PK.tag] at this
    · intro q hq t1 m1 cross1 obs1 ret1 hqk
      rcases hpc q hq with rfl | ⟨h1, _⟩ | ⟨h1, h2, _⟩
      · simp only [fin_k] at hqk; rw [hk'] at hqk
        simp only [PK.allocTask.injEq] at hqk
        obtain ⟨e1, e2, e3, e4, e5, _⟩ := hqk
        subst e1 e5
        exact hrdy t (h.atRdy p hp t m preds obs ret hk)
      · exact hrdy t1 (h.atRdy q h1 t1 m1 cross1 obs1 ret1 hqk)
      · have := hnewdw q h1 h2; rw [hqk] at this; simp [PK.tag] at this
  have hnfp : IsWf t → ∀ r, s.task? t = some r → r.status ≠ .finished := by
    intro hw r hr
    exact hwi.ast p hp ha _ _ _ _ _ _ hk hw r (List.mem_of_find?_eq_some hr) (task?_id hr)
  rw [hb] at hnr
  rcases allocTaskBlock_cases s hpw p.wake t m preds obs ing ret with
    ⟨_, e, _, heq⟩ | ⟨hnr', hok, heq⟩ | ⟨_, _, heq⟩ | ⟨_, _, e, _, heq⟩ | ⟨hr, htr, hok, heq⟩
  · rw [heq] at hnr; exact absurd rfl (hnr e)
  · -- first block
    have hfin := allocBegin_finished s.cl t m obs ing hok
    have hX : (s.block p orc).1 = ((({ s with cl := (s.cl.allocBegin t m obs ing).1 }).updTask t
        (fun r => { r with status := .scheduled })).spawn (.doWork t m preds 0 0) p.wake).1 := by
      rw [hb, heq]
    have hting : ing = true → t.isIngest = true := by
      intro e
      subst e
      have hpc0 := hU.pc_zero hp ha hk hnr'
      exact hU.inv.pendTask _ (hU.pend p hp ha t m preds obs ret hk hpc0)
    have hfq : ∀ q, IsWf q → (FinT (s.block p orc).1 q ↔ FinT s q) := by
      intro q hw
      rw [hX]
      show dictGet (s.cl.allocBegin t m obs ing).1.finished q = some true ↔ _
      rw [hfin]
      cases hi : ing with
      | false => exact Iff.rfl
      | true =>
        simp only [if_true]
        have hne : t ≠ q := by
          intro e
          have := hting hi
          rw [e, isWf_not_ingest hw] at this
          exact absurd this (by simp)
        rw [dictGet_dictSet_ne _ _ hne]
        exact Iff.rfl
    have hT : TaskStep s (s.block p orc).1 := by
      rw [hX]
      have x := TaskStepR.updTask1 (R := TKeep) TKeep.refl
        ({ s with cl := (s.cl.allocBegin t m obs ing).1 } : Sys) t
        (fun r => { r with status := .scheduled }) (fun _ => rfl) (by
          intro r hr
          have hr' : s.task? t = some r := hr
          exact ⟨⟨rfl, rfl, rfl⟩, rfl, rfl, fun hw hf =>
            absurd hf (hnfp (by rw [← task?_id hr']; exact hw) r hr')⟩)
      have y := TaskStepR.of_src_eq (s := s) x rfl
      exact TaskStepR.of_tasks_eq y rfl
    exact finishUp hT (fun q hw hq => (hfq q hw).mpr hq) (fun q hw hq => Or.inl ((hfq q hw).mp hq))
  · -- polling
    have hX : (s.block p orc).1 = s := by rw [hb, heq]
    exact finishUp (by rw [hX]; exact TaskStep.refl s) (by rw [hX]; exact fun _ _ h => h)
      (by rw [hX]; exact fun _ _ h => Or.inl h)
  · rw [heq] at hnr; exact absurd rfl (hnr e)
  · -- completion
    have hfin := (allocEnd_fields s.cl t m obs ing hok).2.2.2
    have hX : (s.block p orc).1 = ({ s with cl := (s.cl.allocEnd t m obs ing).1 } : Sys).updTask t
        (fun r => { r with status := .finished }) := by
      rw [hb, heq]
    have hfq : ∀ q, FinT (s.block p orc).1 q ↔ (q = t ∨ FinT s q) := by
      intro q
      rw [hX]
      show dictGet (s.cl.allocEnd t m obs ing).1.finished q = some true ↔ _
      rw [hfin, dictGet_dictSet]
      by_cases e : t = q
      · rw [if_pos e]; simp [e]
      · rw [if_neg e]
        constructor
        · exact fun hq => Or.inr hq
        · rintro (h1 | h1)
          · exact absurd h1.symm e
          · exact h1
    have hT : TaskStep s (s.block p orc).1 := by
      rw [hX]
      have x := TaskStepR.updTask1 (R := TKeep) TKeep.refl ({ s with cl := (s.cl.allocEnd t m obs ing).1 } : Sys) t
        (fun r => { r with status := .finished }) (fun _ => rfl)
        (fun r _ => ⟨⟨rfl, rfl, rfl⟩, rfl, rfl, fun _ _ => rfl⟩)
      exact TaskStepR.of_src_eq (s := s) x rfl
    refine finishUp hT (fun q _ hq => (hfq q).mpr (Or.inr hq)) ?_
    intro q hw hq
    rcases (hfq q).mp hq with rfl | h1
    · right
      -- the body of the task has ended: its finish is recorded
      have hpc1 := hU.pc_pos hp ha hk hr
      obtain ⟨d, hd, hdp, m', preds', ph, tot, hdk⟩ := (hfi.ok p hp).atRet _ _ _ _ _ _ hk hpc1
      have hdead : d.alive = false := by
        unfold procTriggered at htr
        rw [← hdp, hpw.proc?_of_mem hd] at htr
        simpa using htr
      obtain ⟨r, hr0, _⟩ := hU.hasRec p hp _ _ _ _ _ _ hk
      have hr' : s.task? q = some r := hr0
      have haft := h.dwDead d hd q m' preds' ph tot hdk hdead hw r hr'
      refine ⟨{ r with status := .finished }, ?_, rfl, haft⟩
      rw [hX]
      exact task?_updTask_eq ({ s with cl := (s.cl.allocEnd q m obs ing).1 } : Sys)
        (fun r => { r with status := .finished }) (fun _ => rfl) hr'
    · exact Or.inl h1

end Sys
end Topsim
