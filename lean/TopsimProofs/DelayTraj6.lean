/-
  DelayTraj6 — the record of a FINISHED workflow task under the blocks of every process other
  than `allocate_tasks`: it is left alone; and a record that is FINISHED after such a block was
  FINISHED before (same delay flag), or became so in this block (the allocation process reporting
  the end of the body) and is then still in its observation's plan.  Runs that have not raised
  (`WI`), initial buffer empty (`BufI`).
-/
import TopsimProofs.DelayTraj5

namespace Topsim
namespace Sys

theorem task?_map_of {s X : Sys} (g : TaskRec → TaskRec) (hid : ∀ r, (g r).id = r.id)
    (h : X.tasks = s.tasks.map g) (t : Tid) : X.task? t = (s.task? t).map g := by
  unfold task?
  rw [h]
  induction s.tasks with
  | nil => rfl
  | cons x r ih =>
    simp only [List.map_cons, List.find?_cons, hid]
    split
    · rfl
    · exact ih

/-- the table of `X` is that of `s` with the records of `t0` rewritten, delay fields kept -/
def RecShape (s X : Sys) (t0 : Tid) : Prop :=
  ∃ g : TaskRec → TaskRec,
    (∀ r, (g r).id = r.id ∧ (g r).delayFlag = r.delayFlag ∧ (g r).delayOffset = r.delayOffset ∧
      (r.id ≠ t0 → g r = r)) ∧ X.tasks = s.tasks.map g

theorem recShape_same (s X : Sys) (t0 : Tid) (h : X.tasks = s.tasks) : RecShape s X t0 :=
  ⟨id, fun _ => ⟨rfl, rfl, rfl, fun _ => rfl⟩, by rw [h, List.map_id]⟩

theorem recShape_upd1 (s : Sys) (t0 : Tid) (st : TStatus) (X : Sys)
    (h : X.tasks = (s.updTask t0 (fun r => { r with status := st })).tasks) : RecShape s X t0 := by
  refine ⟨fun r => if r.id = t0 then { r with status := st } else r, fun r => ?_, h⟩
  dsimp only
  by_cases e : r.id = t0
  · rw [if_pos e]; exact ⟨rfl, rfl, rfl, fun hne => absurd e hne⟩
  · rw [if_neg e]; exact ⟨rfl, rfl, rfl, fun _ => rfl⟩

theorem recShape_upd2 (s : Sys) (t0 : Tid) (st1 st2 : TStatus) (X : Sys)
    (h : X.tasks = ((s.updTask t0 (fun r => { r with status := st1 })).updTask t0
      (fun r => { r with status := st2 })).tasks) : RecShape s X t0 := by
  refine ⟨fun r => if r.id = t0 then { r with status := st2 } else r, fun r => ?_, ?_⟩
  · dsimp only
    by_cases e : r.id = t0
    · rw [if_pos e]; exact ⟨rfl, rfl, rfl, fun hne => absurd e hne⟩
    · rw [if_neg e]; exact ⟨rfl, rfl, rfl, fun _ => rfl⟩
  · rw [h]
    simp only [updTask, List.map_map]
    apply List.map_congr_left
    intro r _
    simp only [Function.comp]
    by_cases e : r.id = t0
    · simp [e]
    · simp [e]

syntax "at_shape" : tactic
macro_rules
  | `(tactic| at_shape) =>
    `(tactic| first
      | exact recShape_same _ _ _ rfl
      | exact recShape_upd1 _ _ _ _ rfl
      | exact recShape_upd2 _ _ _ _ _ rfl
      | (split <;> at_shape))

/-- the allocation process of `t` rewrites the status of the records of `t` only -/
theorem allocTask_recShape (s : Sys) (now : Time) (t : Tid) (m : Mid) (preds : List Tid)
    (obs : Option Oid) (ing : Bool) (ret : Nat) :
    RecShape s (s.allocTaskBlock now t m preds obs ing ret).1 t := by
  unfold allocTaskBlock; simp only; at_shape

/-- no record of the task of a live body is FINISHED -/
theorem body_not_finished {s : Sys} (hs : SInv s) (hwi : WI s) {p : Proc} (hp : p ∈ s.procs)
    (ha : p.alive = true) {t m preds ph tot} (hk : p.k = .doWork t m preds ph tot) (hw : IsWf t) :
    ∀ r ∈ s.tasks, r.id = t → r.status ≠ .finished := by
  obtain ⟨a, ha1, haa, _, preds', obs, ing, hak⟩ := hs.dg.dwAlloc p hp ha _ _ _ _ _ hk
  exact hwi.ast a ha1 haa _ _ _ _ _ _ hak hw

theorem mem_of_task? {s : Sys} {t : Tid} {r : TaskRec} (h : s.task? t = some r) : r ∈ s.tasks ∧ r.id = t :=
  ⟨List.mem_of_find?_eq_some h, task?_id h⟩

/-- what the scheduler loop's block does to records and plans, given that it plans no observation
twice -/
theorem schedLoop_recplan {s : Sys} (hwi : WI s) (hb : BufI s) (now : Time) (orc : Oracle) :
    (∀ t r, s.task? t = some r → (s.schedLoopBlock now orc).1.task? t = some r) ∧
    (∀ t r', (s.schedLoopBlock now orc).1.task? t = some r' → s.task? t = none → r'.status = .unscheduled) ∧
    (∀ o c n r, s.task? (Tid.wf o c n) = some r →
      planTasks (s.schedLoopBlock now orc).1 o = planTasks s o) := by
  rcases schedLoopBlock_buf s now orc with ⟨_, hpl, htasks, _, _⟩ |
    ⟨oid, o0, recs, plan, hnx, hob, hrp, _, hpl, htasks, _⟩
  · have ht : ∀ t, (s.schedLoopBlock now orc).1.task? t = s.task? t := fun t => by unfold task?; rw [htasks]
    refine ⟨fun t r hr => by rw [ht]; exact hr, fun t r' hr' h0 => ?_, fun o c n r _ => planTasks_of_plans hpl o⟩
    rw [ht, h0] at hr'; cases hr'
  · have hoid : o0.id = oid := (obs_mem_of_obs? hob).2
    obtain ⟨g1, _, _, g4⟩ := planOf_facts o0 (natNow now) s.staticPlan orc.plan recs plan hrp
    rw [hoid] at g1
    obtain ⟨_, hst, _, _⟩ := bufList_next s.buf oid hnx
    have hnoplan : ∀ pl ∈ s.plans, pl.obs ≠ oid := by
      intro pl hpl' e
      have h1 := hb.planLoc pl hpl'
      rw [e] at h1
      have h2 := hb.cnt oid
      have c1 := count_pos_of_mem hst
      have c2 := count_pos_of_mem h1
      unfold locCount bufList at h2
      simp only [List.count_append] at h2 c2
      omega
    have hfilter : s.plans.filter (fun pl => decide (pl.obs ≠ oid)) = s.plans := by
      rw [List.filter_eq_self]
      intro pl hpl'; simpa using hnoplan pl hpl'
    rw [hfilter] at hpl
    have hplanNone : s.plan? oid = none := by
      unfold plan?
      rw [List.find?_eq_none]
      intro pl hpl'; simpa using hnoplan pl hpl'
    have hplan? : ∀ o', o' ≠ oid → (s.schedLoopBlock now orc).1.plan? o' = s.plan? o' := by
      intro o' e
      unfold plan?
      rw [hpl, plan?_append]
      cases hf : s.plans.find? (fun p => decide (p.obs = o')) with
      | some pl => rfl
      | none => simp only; rw [if_neg (by rw [g1]; exact fun e' => e e'.symm)]
    refine ⟨fun t r hr => ?_, fun t r' hr' h0 => ?_, fun o c n r hr => ?_⟩
    · rw [task?_append s _ recs htasks, hr]
    · rw [task?_append s _ recs htasks, h0] at hr'
      exact (g4 r' (List.mem_of_find?_eq_some hr')).1
    · have hne : o ≠ oid := by
        intro e
        subst e
        obtain ⟨hm, hid⟩ := mem_of_task? hr
        have := hwi.pr r hm o c n hid
        rw [hplanNone] at this; simp at this
      unfold planTasks
      rw [hplan? o hne]

/-- **Backwards.**  A workflow record that is FINISHED after a block of a process other than
`allocate_tasks` was FINISHED before it, with the same delay flag, and its observation's plan has
the same task list; or the task is (still) in its observation's plan. -/
theorem block_fin_bwd {s : Sys} (hs : SInv s) (hwi : WI s) (hb : BufI s) {p : Proc} (hp : p ∈ s.procs)
    (ha : p.alive = true) (orc : Oracle) (htag : p.k.tag ≠ "allocTasks") {o : Oid} {c n : Nat}
    {r' : TaskRec} (hr' : (s.block p orc).1.task? (Tid.wf o c n) = some r') (hf : r'.status = .finished) :
    (∃ r, s.task? (Tid.wf o c n) = some r ∧ r.status = .finished ∧ r.delayFlag = r'.delayFlag ∧
      planTasks (s.block p orc).1 o = planTasks s o) ∨
    Tid.wf o c n ∈ planTasks (s.block p orc).1 o := by
  have hw : IsWf (Tid.wf o c n) := ⟨o, c, n, rfl⟩
  have hplans : p.k.tag ≠ "schedLoop" → planTasks (s.block p orc).1 o = planTasks s o := fun h1 =>
    planTasks_of_plans (block_plans s p orc h1 htag) o
  cases hk : p.k with
  | schedLoop =>
    rw [block_schedLoop orc hk] at hr' ⊢
    obtain ⟨a1, a2, a3⟩ := schedLoop_recplan hwi hb p.wake orc
    cases h0 : s.task? (Tid.wf o c n) with
    | none => have := a2 _ r' hr' h0; rw [hf] at this; cases this
    | some r =>
      have := a1 _ r h0
      rw [hr'] at this
      injection this with this
      subst this
      exact Or.inl ⟨r', rfl, hf, rfl, a3 o c n r' h0⟩
  | provIngest o1 d =>
    have hpl := hplans (by rw [hk]; simp [PK.tag])
    rw [block_provIngest orc hk] at hr' hpl ⊢
    obtain ⟨recs, hrecs, htasks, _⟩ := provIngestBlock_shape s p.wake p.pc o1 d
    rw [task?_append s _ recs htasks] at hr'
    cases h0 : s.task? (Tid.wf o c n) with
    | none =>
      rw [h0] at hr'
      have hm := List.mem_of_find?_eq_some hr'
      have hid : r'.id = Tid.wf o c n := by simpa using List.find?_some hr'
      have := hrecs r' hm
      rw [hid] at this; simp [Tid.isIngest] at this
    | some r =>
      rw [h0] at hr'
      injection hr' with hr'
      subst hr'
      exact Or.inl ⟨r, rfl, hf, rfl, hpl⟩
  | allocTask t0 m preds obs ing ret =>
    have hpl := hplans (by rw [hk]; simp [PK.tag])
    rw [block_allocTask orc hk] at hr' hpl ⊢
    obtain ⟨g, hg, htasks⟩ := allocTask_recShape s p.wake t0 m preds obs ing ret
    rw [task?_map_of g (fun r => (hg r).1) htasks] at hr'
    cases h0 : s.task? (Tid.wf o c n) with
    | none => rw [h0] at hr'; cases hr'
    | some r =>
      rw [h0] at hr'
      injection hr' with hr'
      obtain ⟨hm, hid⟩ := mem_of_task? h0
      by_cases e : Tid.wf o c n = t0
      · -- the allocation process of this very task: its records were not FINISHED
        have hnf := hwi.ast p hp ha t0 m preds obs ing ret hk (by rw [← e]; exact hw) r hm (by rw [hid, e])
        right
        rw [hpl]
        have := hwi.pc r hm o c n hid hnf
        rw [hid] at this; exact this
      · have : g r = r := (hg r).2.2.2 (by rw [hid]; exact e)
        rw [this] at hr'
        subst hr'
        exact Or.inl ⟨r, rfl, hf, rfl, hpl⟩
  | doWork t0 m preds ph tot =>
    have hpl := hplans (by rw [hk]; simp [PK.tag])
    rw [block_doWork orc hk] at hr' hpl ⊢
    have hnf := body_not_finished hs hwi hp ha hk
    have hsh := doWorkBlock_shape2 s p.wake orc t0 m preds ph tot
    generalize s.doWorkBlock p.wake orc t0 m preds ph tot = X at hsh hr' hpl
    by_cases e : Tid.wf o c n = t0
    · exfalso
      have hnf' := hnf (by rw [← e]; exact hw)
      cases hsh with
      | raised ph' e' _ =>
        obtain ⟨hm, hid⟩ := mem_of_task? hr'
        exact hnf' r' hm (by rw [hid, e]) hf
      | wait w =>
        obtain ⟨hm, hid⟩ := mem_of_task? hr'
        exact hnf' r' hm (by rw [hid, e]) hf
      | start r mm dur hr _ _ =>
        have : (s.updTask t0 (dwStartF p.wake dur)).task? t0 = some (dwStartF p.wake dur r) :=
          task?_updTask_eq s (dwStartF p.wake dur) (fun _ => rfl) hr
        rw [e] at hr'
        have hr'' : (s.updTask t0 (dwStartF p.wake dur)).task? t0 = some r' := hr'
        rw [this] at hr''
        injection hr'' with hr''
        rw [← hr''] at hf
        cases hf
      | finish _ =>
        rw [e] at hr'
        have hr'' : (s.updTask t0 (dwEndF p.wake tot)).task? t0 = some r' := hr'
        rw [task?_updTask s t0 t0 _ (fun r => (dwEndF_spec p.wake tot r).1)] at hr''
        cases h0 : s.task? t0 with
        | none => rw [h0] at hr''; cases hr''
        | some r =>
          rw [h0] at hr''
          obtain ⟨hm, hid⟩ := mem_of_task? h0
          simp only [Option.map_some, hid, if_true] at hr''
          injection hr'' with hr''
          rw [← hr'', (dwEndF_spec p.wake tot r).2.2.2.2.1] at hf
          exact hnf' r hm hid hf
    · have hsame : X.1.task? (Tid.wf o c n) = s.task? (Tid.wf o c n) := by
        cases hsh with
        | raised ph' e' _ => rfl
        | wait w => rfl
        | start r mm dur _ _ _ =>
          exact task?_updTask_ne s (dwStartF p.wake dur) (fun _ => rfl) e
        | finish _ =>
          exact task?_updTask_ne s (dwEndF p.wake tot) (fun r => (dwEndF_spec p.wake tot r).1) e
      rw [hsame] at hr'
      exact Or.inl ⟨r', hr', hf, rfl, hpl⟩
  | allocTasks o1 sc pa po fn => rw [hk] at htag; exact absurd rfl htag
  | _ =>
    have hpl := hplans (by rw [hk]; simp [PK.tag])
    have ht : (s.block p orc).1.tasks = s.tasks := by
      exact block_tasks s p orc (by rw [hk]; simp [PK.tag]) (by rw [hk]; simp [PK.tag])
        (by rw [hk]; simp [PK.tag]) (by rw [hk]; simp [PK.tag]) (by rw [hk]; simp [PK.tag])
    have : (s.block p orc).1.task? (Tid.wf o c n) = s.task? (Tid.wf o c n) := by unfold task?; rw [ht]
    rw [this] at hr'
    exact Or.inl ⟨r', hr', hf, rfl, hpl⟩

/-- **Forwards.**  The record of a FINISHED workflow task is left alone by every block of a process
other than `allocate_tasks`. -/
theorem block_fin_fwd {s : Sys} (hs : SInv s) (hwi : WI s) {p : Proc} (hp : p ∈ s.procs)
    (ha : p.alive = true) (orc : Oracle) (htag : p.k.tag ≠ "allocTasks") {t : Tid} (hw : IsWf t)
    {r : TaskRec} (hr : s.task? t = some r) (hf : r.status = .finished) :
    (s.block p orc).1.task? t = some r := by
  obtain ⟨hm, hid⟩ := mem_of_task? hr
  cases hk : p.k with
  | schedLoop =>
    rw [block_schedLoop orc hk]
    rcases schedLoopBlock_buf s p.wake orc with ⟨_, _, htasks, _, _⟩ |
      ⟨oid, o0, recs, plan, _, _, _, _, _, htasks, _⟩
    · unfold task?; rw [htasks]; exact hr
    · rw [task?_append s _ recs htasks, hr]
  | provIngest o1 d =>
    rw [block_provIngest orc hk]
    obtain ⟨recs, _, htasks, _⟩ := provIngestBlock_shape s p.wake p.pc o1 d
    rw [task?_append s _ recs htasks, hr]
  | allocTask t0 m preds obs ing ret =>
    rw [block_allocTask orc hk]
    obtain ⟨g, hg, htasks⟩ := allocTask_recShape s p.wake t0 m preds obs ing ret
    rw [task?_map_of g (fun r => (hg r).1) htasks, hr]
    have hne : t ≠ t0 := by
      intro e
      subst e
      exact hwi.ast p hp ha t m preds obs ing ret hk hw r hm hid hf
    simp only [Option.map_some]
    rw [(hg r).2.2.2 (by rw [hid]; exact hne)]
  | doWork t0 m preds ph tot =>
    rw [block_doWork orc hk]
    have hne : t ≠ t0 := by
      intro e
      subst e
      exact body_not_finished hs hwi hp ha hk hw r hm hid hf
    have hsh := doWorkBlock_shape2 s p.wake orc t0 m preds ph tot
    generalize s.doWorkBlock p.wake orc t0 m preds ph tot = X at hsh
    cases hsh with
    | raised ph' e' _ => exact hr
    | wait w => exact hr
    | start r0 mm dur _ _ _ =>
      exact (task?_updTask_ne s (dwStartF p.wake dur) (fun _ => rfl) hne).trans hr
    | finish _ =>
      exact (task?_updTask_ne s (dwEndF p.wake tot) (fun r => (dwEndF_spec p.wake tot r).1) hne).trans hr
  | allocTasks o1 sc pa po fn => rw [hk] at htag; exact absurd rfl htag
  | _ =>
    have ht : (s.block p orc).1.tasks = s.tasks := by
      exact block_tasks s p orc (by rw [hk]; simp [PK.tag]) (by rw [hk]; simp [PK.tag])
        (by rw [hk]; simp [PK.tag]) (by rw [hk]; simp [PK.tag]) (by rw [hk]; simp [PK.tag])
    unfold task?; rw [ht]; exact hr

end Sys
end Topsim
