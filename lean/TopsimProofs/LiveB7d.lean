/-
  LiveB7d — BatchProcessing: the declarations of Live7d that depend on the configuration hypotheses,
  for `LiveCfgB` / `NcCfgB` (`s0.alg = .batch …`).  Generated from Live7d.lean by renaming (suffix `_B`);
  the algorithm-dependent ones are rewritten (see the comments).
-/
import TopsimProofs.Live7d
import TopsimProofs.LiveB5
import TopsimProofs.LiveB7
import TopsimProofs.LiveB7c
import TopsimProofs.LiveB2

namespace Topsim
open Sys
namespace Sys

attribute [local irreducible] atS3 atStart Sys.updateCurrentPlan processCurrentSchedule in
/-- a block of the live `allocate_tasks` process of `o` that does not raise and does not finish:
the plan the algorithm ran on, what the algorithm returned, the plan afterwards, the statuses, and
the keys of the new leftover schedule -/
theorem l7_ats_own_B {s : Sys} (hsu : SU s) (halg : s.BatchAlg) {p : Proc} (hp : p ∈ s.procs)
    (ha : p.alive = true) (orc : Oracle) {o : Oid} {sc pa : List (Tid × Mid)} {po : List Tid}
    (hk : p.k = .allocTasks o sc pa po false) (hnr : ∀ e, (s.block p orc).2.2 ≠ .raised e)
    {pl : Plan} (hpl : s.plan? o = some pl) {sc' pa' : List (Tid × Mid)} {po' : List Tid}
    (hk' : (s.block p orc).2.1 = .allocTasks o sc' pa' po' false) :
    ∃ (plan : Plan) (out : AlgOut) (removed added : List Tid),
      plan.edges = pl.edges ∧ (∀ t, t ∈ plan.tasks ↔ t ∈ pl.tasks ∧ tstat s t ≠ .finished) ∧
      (∀ k ∈ dictKeys sc, k ∈ dictKeys out.schedule) ∧
      (∀ t ∈ removed, t ∈ dictKeys out.schedule) ∧
      (∀ t ∈ removed, ∀ x ∈ plan.succs t, x ∈ added) ∧
      (∀ k ∈ dictKeys out.schedule, k ∈ dictKeys sc ∨ k ∈ removed) ∧
      (∀ t, t ∈ out.pool ↔ (t ∈ Alg.seedPool plan po ∧ t ∉ removed) ∨ t ∈ added) ∧
      po' = out.pool ∧
      (s.block p orc).1.plan? o = some { plan with status := out.status } ∧
      (∀ x, tstat (s.block p orc).1 x = tstat s x ∨
        (tstat s x = .unscheduled ∧ tstat (s.block p orc).1 x = .scheduled ∧ x ∈ dictKeys out.schedule)) ∧
      (∀ x ∈ dictKeys out.schedule, x ∈ dictKeys sc' ∨ tstat (s.block p orc).1 x = .scheduled) ∧
      (∀ x ∈ dictKeys sc', x ∈ dictKeys out.schedule) := by
  rw [block_allocTasks orc hk] at hnr hk' ⊢
  rw [allocTasksBlock_eq] at hnr hk' ⊢
  obtain ⟨pl1, hpl1, e1, _, e3, _⟩ := l7_s1_plan s p.wake p.pc o hpl
  have hts1 : ∀ t, tstat ((atStart s p.wake p.pc o).updateCurrentPlan o) t = tstat s t := fun t =>
    (updateCurrentPlan_tstat _ o t).trans (atStart_tstat s p.wake p.pc o t)
  have halg1 : ((atStart s p.wake p.pc o).updateCurrentPlan o).BatchAlg :=
    halg.of_alg (by rw [updateCurrentPlan_alg, atStart_alg])
  have hno1 : ((atStart s p.wake p.pc o).updateCurrentPlan o).alg ≠ .oracle := halg1.ne_oracle
  obtain ⟨hnd0, _⟩ := hsu.sl p hp ha o sc pa po false hk
  have hout := allocTasksIter_out (atStart s p.wake p.pc o) p.wake orc o sc pa po
  generalize (atStart s p.wake p.pc o).allocTasksIter p.wake orc o sc pa po = r at hout hnr hk' ⊢
  -- the algorithm is `BatchProcessing`
  -- the outcomes with an empty new schedule
  have quiet : ∀ (plan : Plan) (out : AlgOut) (X : Sys),
      ((atStart s p.wake p.pc o).updateCurrentPlan o).plan? o = some plan →
      ((atStart s p.wake p.pc o).updateCurrentPlan o).runAlgorithm orc plan sc po = .ok out →
      out.schedule.isEmpty = true → X.plans = (atS3 ((atStart s p.wake p.pc o).updateCurrentPlan o) out o).plans →
      X.tasks = (atS3 ((atStart s p.wake p.pc o).updateCurrentPlan o) out o).tasks →
      sc' = out.schedule → po' = out.pool →
      ∃ (plan : Plan) (out : AlgOut) (removed added : List Tid),
        plan.edges = pl.edges ∧ (∀ t, t ∈ plan.tasks ↔ t ∈ pl.tasks ∧ tstat s t ≠ .finished) ∧
        (∀ k ∈ dictKeys sc, k ∈ dictKeys out.schedule) ∧
        (∀ t ∈ removed, t ∈ dictKeys out.schedule) ∧
        (∀ t ∈ removed, ∀ x ∈ plan.succs t, x ∈ added) ∧
        (∀ k ∈ dictKeys out.schedule, k ∈ dictKeys sc ∨ k ∈ removed) ∧
        (∀ t, t ∈ out.pool ↔ (t ∈ Alg.seedPool plan po ∧ t ∉ removed) ∨ t ∈ added) ∧
        po' = out.pool ∧
        X.plan? o = some { plan with status := out.status } ∧
        (∀ x, tstat X x = tstat s x ∨
          (tstat s x = .unscheduled ∧ tstat X x = .scheduled ∧ x ∈ dictKeys out.schedule)) ∧
        (∀ x ∈ dictKeys out.schedule, x ∈ dictKeys sc' ∨ tstat X x = .scheduled) ∧
        (∀ x ∈ dictKeys sc', x ∈ dictKeys out.schedule) := by
    intro plan out X hplan hrun hemp hXp hXt hsc hpo
    rw [hpl1] at hplan
    injection hplan with hplan
    subst hplan
    obtain ⟨removed, added, q1, q2, q3, q4, q5, _⟩ := l7_runAlg_B halg1 _ _ _ _ _ hrun
    have hnil : dictKeys out.schedule = [] := dictKeys_of_isEmpty hemp
    refine ⟨pl1, out, removed, added, e1, e3, q1, q2, q3, q4, q5, hpo, ?_, ?_, ?_, ?_⟩
    · rw [plan?_of_plans hXp]; exact l7_s3_plan _ out o hpl1
    · intro x
      left
      rw [tstat_of_tasks hXt, atS3_tstat, hts1]
    · intro x hx; rw [hnil] at hx; simp at hx
    · intro x hx; rw [hsc] at hx; exact hx
  cases hout with
  | noPlan _ => exact absurd rfl (hnr _)
  | algErr plan e _ _ => exact absurd rfl (hnr _)
  | finish plan out _ _ _ _ _ _ => simp at hk'
  | finishBad plan out _ _ _ _ _ _ => exact absurd rfl (hnr _)
  | finishWait plan out hplan hrun hemp _ _ =>
    simp only [PK.allocTasks.injEq, and_true, true_and] at hk'
    exact quiet plan out _ hplan hrun hemp rfl rfl hk'.1.symm hk'.2.2.symm
  | idle plan out hplan hrun hemp _ =>
    simp only [PK.allocTasks.injEq, and_true, true_and] at hk'
    exact quiet plan out _ hplan hrun hemp rfl rfl hk'.1.symm hk'.2.2.symm
  | alloc plan out y hplan hrun _ _ =>
    simp only [PK.allocTasks.injEq, and_true, true_and] at hk'
    obtain ⟨hsc, _, hpo⟩ := hk'
    rw [hpl1] at hplan
    injection hplan with hplan
    subst hplan
    obtain ⟨removed, added, q1, q2, q3, q4, q5, _⟩ := l7_runAlg_B halg1 _ _ _ _ _ hrun
    obtain ⟨_, halgn⟩ := runAlgorithm_sched ((atStart s p.wake p.pc o).updateCurrentPlan o) orc pl1 sc po out
      hno1 hrun
    obtain ⟨new', hpcs⟩ := processCurrentSchedule_pcs (atS3 ((atStart s p.wake p.pc o).updateCurrentPlan o) out o)
      p.wake o out.schedule pa (halgn hnd0)
    have hpq := l7_pcs_pq (atS3 ((atStart s p.wake p.pc o).updateCurrentPlan o) out o) p.wake o out.schedule pa
      (halgn hnd0)
    have hXpl := processCurrentSchedule_plans (atS3 ((atStart s p.wake p.pc o).updateCurrentPlan o) out o)
      p.wake o out.schedule pa
    generalize processCurrentSchedule (atS3 ((atStart s p.wake p.pc o).updateCurrentPlan o) out o) p.wake o
      out.schedule pa = st at hpcs hpq hXpl hsc ⊢
    refine ⟨pl1, out, removed, added, e1, e3, q1, q2, q3, q4, q5, hpo.symm, ?_, ?_, ?_, ?_⟩
    · show st.s.plan? o = _
      rw [plan?_of_plans hXpl]; exact l7_s3_plan _ out o hpl1
    · intro x
      show tstat st.s x = _ ∨ (_ ∧ tstat st.s x = _ ∧ _)
      rcases hpcs.stat x with e | ⟨g1, g2, q, hq', m', cross', hqk⟩
      · left; rw [e, atS3_tstat, hts1]
      · right
        rw [atS3_tstat, hts1] at g1
        refine ⟨g1, g2, ?_⟩
        obtain ⟨_, _, t0, m0, c0, e, g3, _⟩ := hpcs.newk q hq'
        rw [hqk] at e
        injection e with e0
        subst e0
        exact g3
    · intro x hx
      show _ ∨ tstat st.s x = _
      rw [← hsc]
      exact hpq.left x hx
    · intro x hx
      rw [← hsc] at hx
      exact hpcs.keys x hx

/-- one step of the run and a workflow task: its status is as before, or it had left UNSCHEDULED
and has not returned, or `allocate_tasks` has just handed it to a new allocation process -/
theorem l7_tstat_step_B {s0 s s' : Sys} {p : Proc} {orc : Oracle} (L : L7LibB s0 s) (h : L7Step s s' p orc)
    {new : List Proc} (hnew : (s.block p orc).1.procs = s.procs ++ new) {t : Tid} (hw : IsWf t) :
    tstat s' t = tstat s t ∨
    (tstat s t ≠ .unscheduled ∧ tstat s' t ≠ .unscheduled) ∨
    (tstat s t = .unscheduled ∧ tstat s' t = .scheduled ∧ ∃ o sc pa po fn, p.k = .allocTasks o sc pa po fn ∧
      ∃ q ∈ new, q.alive = true ∧ ∃ m cross, q.k = .allocTask t m cross (some o) false 0) := by
  have hpm := h.mem
  have hs := L.sinv
  obtain ⟨U, hU⟩ := hs.ci
  have hno : s.alg ≠ .oracle := L.alg.ne_oracle
  rw [h.tstat]
  cases hk : p.k with
  | allocTask t0 m preds obs ing ret =>
    have hnr := h.nr
    rw [block_allocTask orc hk] at hnr ⊢
    by_cases e : t = t0
    · subst e
      have hsch := hU.hasRec p hpm t m preds obs ing ret hk
      have hrec : ∃ r, s.task? t = some r := by
        obtain ⟨r, hr, _⟩ := hsch
        exact ⟨r, hr⟩
      have h0 := tstat_of_sched hsch
      obtain ⟨_, hcase⟩ := l7_allocTask_block s hs.pw p.wake t m preds obs ing ret hnr hrec
      rcases hcase with ⟨_, hsame | hsc, _⟩ | ⟨_, hf, _⟩
      · exact Or.inl hsame
      · exact Or.inr (Or.inl ⟨h0, by rw [hsc]; simp⟩)
      · exact Or.inr (Or.inl ⟨h0, by rw [hf]; simp⟩)
    · exact Or.inl (allocTask_tstat_ne s _ _ _ _ _ _ _ e)
  | doWork t0 m preds ph tot =>
    rw [block_doWork orc hk]
    rcases l7_doWork_tstat s p.wake orc t0 m preds ph tot t with e | ⟨e, e'⟩
    · exact Or.inl e
    · subst e
      obtain ⟨a, ha1, _, _, preds', obs, ing, hak⟩ := hs.dg.dwAlloc p hpm h.ha _ _ _ _ _ hk
      exact Or.inr (Or.inl ⟨tstat_of_sched (hU.hasRec a ha1 t m preds' obs ing p.pid hak), by rw [e']; simp⟩)
  | allocTasks o sc pa po fn =>
    rcases l7_allocTasks_tstat L.su hno hpm h.ha orc hk hnew t with e | ⟨e1, e2, q, hq, hqa, m', cross', hqk⟩
    · exact Or.inl e
    · exact Or.inr (Or.inr ⟨e1, e2, o, sc, pa, po, fn, rfl, q, hq, hqa, m', cross', hqk⟩)
  | _ =>
    exact Or.inl (l7_block_tstat_other s p orc (by rw [hk]; simp [PK.tag]) (by rw [hk]; simp [PK.tag])
      (by rw [hk]; simp [PK.tag]) hw)
end Sys
end Topsim
