/-
  Preced11 — `PR` along every run of a shipped algorithm that has not crashed, and
  what it says about a started task and the predecessors in its plan's graph.
-/
import TopsimProofs.Preced10

namespace Topsim
namespace Sys

open Cluster

def PRInv (s : Sys) : Prop := s.crashed = none → PR s

theorem start_pr (s0 : Sys) (hw : WFConfig s0) : PR s0.start := by
  obtain ⟨hprocs, _, htasks, _⟩ := hw.fresh
  have hp : s0.start.procs = s0.procs ++
      [{ pid := s0.nextPid, k := .monitor, wake := 0 }, { pid := s0.nextPid + 1, k := .telescope, wake := 0 },
       { pid := s0.nextPid + 2, k := .clusterLoop, wake := 0 }, { pid := s0.nextPid + 3, k := .schedLoop, wake := 0 },
       { pid := s0.nextPid + 4, k := .bufferLoop, wake := 0 }] := by
    simp [start, spawn]
  rw [hprocs] at hp
  simp only [List.nil_append] at hp
  have ht : s0.start.tasks = [] := by rw [← htasks]; simp [start, spawn]
  have hcl : s0.start.cl = Cluster.init (s0.machines.map (·.id)) := by rw [← hw.clInit]; simp [start, spawn]
  have hnone : ∀ t, s0.start.task? t = none := by intro t; unfold task?; rw [ht]; rfl
  have hnf : ∀ q, ¬ FinT s0.start q := by
    intro q hq; unfold FinT at hq; rw [hcl] at hq; simp [Cluster.init, dictGet] at hq
  constructor
  · intro p hp' hk
    rw [hp] at hp'
    simp only [List.mem_cons, List.not_mem_nil, or_false] at hp'
    rcases hp' with rfl | rfl | rfl | rfl | rfl <;> first | (exact ⟨0, by simp⟩) | (simp at hk)
  · intro t r f h1; rw [hnone] at h1; exact absurd h1 (by simp)
  · intro d hd t m preds ph tot hk
    rw [hp] at hd
    simp only [List.mem_cons, List.not_mem_nil, or_false] at hd
    rcases hd with rfl | rfl | rfl | rfl | rfl <;> simp at hk
  · intro q _ hq; exact absurd hq (hnf q)
  · intro p hp' o sc pa po fn hk
    rw [hp] at hp'
    simp only [List.mem_cons, List.not_mem_nil, or_false] at hp'
    rcases hp' with rfl | rfl | rfl | rfl | rfl <;> simp at hk
  · intro p hp' t m cross obs ret hk
    rw [hp] at hp'
    simp only [List.mem_cons, List.not_mem_nil, or_false] at hp'
    rcases hp' with rfl | rfl | rfl | rfl | rfl <;> simp at hk
  · intro t r a h1; rw [hnone] at h1; exact absurd h1 (by simp)

theorem pr_step {s : Sys} (hs : SInv s) (hf : FInv s) (hwi : WInv s) (hst : STInv s) (h : PRInv s)
    (hno : s.alg ≠ .oracle) {pid : Nat} (hen : s.enabled pid) (orc : Oracle) :
    PRInv (s.resume pid orc).1 := by
  intro hc
  obtain ⟨p, hp, ha, hmin⟩ := hen
  obtain ⟨hc0, hnr⟩ := resume_nocrash s pid orc p hp ha hc
  have hpr := h hc0
  obtain ⟨hpm, hpid⟩ := proc?_some hp
  subst hpid
  refine PR.core ?_ (resume_core s p.pid orc p hp ha)
  by_cases h2 : p.k.tag = "allocTask"
  · cases hk : p.k with
    | allocTask t m preds obs ing ret => exact pr_allocTask hpr hs (hf hc0) (hwi hc0) hpm ha hmin orc hk hnr
    | _ => rw [hk] at h2; simp [PK.tag] at h2
  · by_cases h3 : p.k.tag = "doWork"
    · cases hk : p.k with
      | doWork t m preds ph tot => exact pr_doWork hpr hs hpm ha hmin orc hk hnr
      | _ => rw [hk] at h3; simp [PK.tag] at h3
    · by_cases h4 : p.k.tag = "allocTasks"
      · cases hk : p.k with
        | allocTasks o sc pa po fn => exact pr_allocTasks hpr hs (hst hc0) hno hpm ha hmin orc hk
        | _ => rw [hk] at h4; simp [PK.tag] at h4
      · exact pr_harmless hpr hs hno hpm ha hmin orc h2 h3 h4

theorem reach_pr (s0 s : Sys) (hw : WFConfig s0) (hbuf : bufList s0.buf = []) (hno : s0.alg ≠ .oracle)
    (h : Reach s0 s) : PRInv s := by
  induction h with
  | start => exact fun _ => start_pr s0 hw
  | step s pid orc hr hen ih =>
    have hok := hr.toOk hno
    exact pr_step (reach_inv s0 s hw hok) (reach_finv s0 s hw hok) (reachOk_wi s0 s hw hbuf hok)
      (reach_st s0 s hw hbuf hno hr) ih (by rw [reach_alg hr]; exact hno) hen orc

/-- a started task and a predecessor in the graph of its observation's plan -/
theorem reach_precedence (s0 s : Sys) (hw : WFConfig s0) (hbuf : bufList s0.buf = []) (hno : s0.alg ≠ .oracle)
    (h : Reach s0 s) (hc : s.crashed = none) :
    ∀ pl ∈ s.plans, ∀ q t, (q, t) ∈ pl.edges → ∀ r a, s.task? t = some r → r.ast = some a →
      s.cl.isTaskFinished q = true ∧
      ∃ rq f, s.task? q = some rq ∧ rq.status = .finished ∧ rq.aft = some f ∧ f ≤ a + 1 := by
  have hst := reach_st s0 s hw hbuf hno h hc
  have hpr := reach_pr s0 s hw hbuf hno h hc
  intro pl hpl q t he r a hr hast
  have hq : q ∈ r.preds := hst.edgeRec pl hpl q t he r hr
  have hw' : IsWf t := by
    obtain ⟨c, u, v, e⟩ := hst.edgeWf pl hpl _ he
    injection e with _ e2
    exact ⟨_, _, _, e2⟩
  obtain ⟨g0, g1, g2⟩ := hpr.started t r a hr hast hw' q hq
  obtain ⟨rq, k1, k2, k3⟩ := hpr.finRec q g0 g1
  cases hf : rq.aft with
  | none => rw [hf] at k3; simp at k3
  | some f => exact ⟨(finT_iff s q).mp g1, rq, f, k1, k2, hf, g2 rq f k1 hf⟩

end Sys
end Topsim
