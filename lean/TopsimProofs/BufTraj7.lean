/-
  BufTraj7 — accounting and bounds along every run that has not crashed:
  used space of both tiers = data of the observations not yet removed; free
  space of neither tier exceeds its capacity; the lower bounds under the
  premise that the resident data fits.
-/
import TopsimProofs.BufTraj6

namespace Topsim
namespace Sys

open Buffer (resSum BInv)

theorem sum_map_nonneg {α} (l : List α) (f : α → Int) (h : ∀ x ∈ l, 0 ≤ f x) : 0 ≤ (l.map f).sum := by
  induction l with
  | nil => simp
  | cons a t ih =>
    rw [List.map_cons, List.sum_cons]
    have := h a (by simp)
    have := ih (fun x hx => h x (by simp [hx]))
    omega

theorem sum_map_le {α} (l : List α) (f g : α → Int) (h : ∀ x ∈ l, f x ≤ g x) : (l.map f).sum ≤ (l.map g).sum := by
  induction l with
  | nil => simp
  | cons a t ih =>
    rw [List.map_cons, List.sum_cons, List.map_cons, List.sum_cons]
    have := h a (by simp)
    have := ih (fun x hx => h x (by simp [hx]))
    omega

/-- the sizes of distinct observations that have not been removed are part of the resident data -/
theorem sizeSum_le_resSum (fin : List Oid) (d : List (Oid × Int)) (hk : (dictKeys d).Nodup)
    (hn : ∀ o, 0 ≤ (dictGet d o).getD 0) (L : List Oid) (hnd : L.Nodup) (hL : ∀ x ∈ L, x ∉ fin) :
    (L.map (fun o => (dictGet d o).getD 0)).sum ≤ resSum fin d := by
  induction d with
  | nil =>
    have : (L.map (fun o => (dictGet ([] : List (Oid × Int)) o).getD 0)).sum = 0 :=
      sum_map_zero _ _ (fun x _ => rfl)
    rw [this]
    exact Int.le_refl _
  | cons p r ih =>
    obtain ⟨k, v⟩ := p
    simp only [dictKeys_cons, List.nodup_cons] at hk
    have hkr : dictGet r k = none := (dictGet_none_iff r k).mpr hk.1
    have hv : 0 ≤ v := by
      have := hn k
      simpa [dictGet] using this
    have hn' : ∀ o, 0 ≤ (dictGet r o).getD 0 := by
      intro o
      by_cases e : k = o
      · subst e; rw [hkr]; simp
      · have := hn o
        simpa [dictGet, e] using this
    have hupd := sum_upd (fun o => (dictGet r o).getD 0) (fun o => (dictGet ((k, v) :: r) o).getD 0) k v (by
      intro x
      by_cases e : x = k
      · subst e; simp [dictGet, hkr]
      · have e' : ¬ k = x := fun h => e h.symm
        simp [dictGet, e, e']) L hnd
    rw [hupd]
    have hih := ih hk.2 hn'
    show _ ≤ (if k ∈ fin then 0 else v) + resSum fin r
    by_cases hkL : k ∈ L
    · rw [if_pos hkL, if_neg (hL k hkL)]; omega
    · rw [if_neg hkL]; split <;> omega

theorem sumSz_le_resident (b : Buffer) (hb : BInv b) (hsn : ∀ o, 0 ≤ b.sizeOf o) (L : List Oid) (hnd : L.Nodup)
    (hL : ∀ x ∈ L, x ∉ b.hot.finished) : sumSz b L ≤ b.residentData := by
  rw [Buffer.residentData_eq]
  exact sizeSum_le_resSum b.hot.finished b.size hb.keys hsn L hnd hL

theorem sumSz_nonneg (b : Buffer) (hsn : ∀ o, 0 ≤ b.sizeOf o) (L : List Oid) : 0 ≤ sumSz b L :=
  sum_map_nonneg L b.sizeOf (fun x _ => hsn x)

theorem sumSz_app (b : Buffer) (L M : List Oid) : sumSz b (L ++ M) = sumSz b L + sumSz b M := by
  unfold sumSz; simp

theorem sumSz_flatMap (b : Buffer) (l : List Proc) :
    sumSz b (l.flatMap tok) = (l.map (fun p => sumSz b (tok p))).sum := by
  induction l with
  | nil => rfl
  | cons a t ih => rw [List.flatMap_cons, sumSz_app, ih, List.map_cons, List.sum_cons]

/-- the cold part of a move lies between 0 and the size of the observation it carries -/
theorem coldTok_bounds (b : Buffer) (p : Proc) (hl : p.alive = true → LeftOk b p.k) (hsn : ∀ o, 0 ≤ b.sizeOf o) :
    0 ≤ coldTok b p ∧ coldTok b p ≤ sumSz b (tok p) := by
  unfold coldTok tok
  by_cases ha : p.alive = true
  · simp only [ha, if_true]
    have hl := hl ha
    cases hk : p.k with
    | hot2cold cur =>
      rw [hk] at hl
      cases cur with
      | none => simp [coldTokK, tokK, sumSz]
      | some ol =>
        obtain ⟨o, l⟩ := ol
        by_cases h0 : 0 < l
        · have := (hl h0).1
          have := hsn o
          simp only [coldTokK, tokK, h0, if_true, sumSz, List.map_cons, List.map_nil, List.sum_cons, List.sum_nil]
          omega
        · simp [coldTokK, tokK, h0, sumSz]
    | cold2hot cur =>
      rw [hk] at hl
      cases cur with
      | none => simp [coldTokK, tokK, sumSz]
      | some ol =>
        obtain ⟨o, l⟩ := ol
        by_cases h0 : 0 < l
        · have := (hl h0).1
          simp only [coldTokK, tokK, h0, if_true, sumSz, List.map_cons, List.map_nil, List.sum_cons, List.sum_nil]
          omega
        · simp [coldTokK, tokK, h0, sumSz]
    | _ => simp [coldTokK, tokK, sumSz]
  · simp [ha, sumSz]

/-- the observations in the cold tier or moving are distinct and have not been removed -/
theorem coldish_nodup {s : Sys} (hb : BufI s) :
    (s.buf.cold.stored ++ toks s).Nodup ∧ ∀ x ∈ s.buf.cold.stored ++ toks s, x ∉ s.buf.hot.finished := by
  constructor
  · rw [List.nodup_iff_count]
    intro a
    have := hb.cnt a
    unfold locCount bufList at this
    simp only [List.count_append] at this ⊢
    omega
  · intro x hx hf
    have := hb.cnt x
    have c := count_pos_of_mem hf
    unfold locCount bufList at this
    simp only [List.count_append] at this
    rcases List.mem_append.mp hx with h | h
    · have := count_pos_of_mem h; omega
    · have := count_pos_of_mem h; omega

/-- used space of the cold tier: between 0 and the resident data -/
theorem cold_used_bounds {s : Sys} (hb : BufI s) (hca : CA s) (hbi : BInv s.buf) (hsn : ∀ o, 0 ≤ s.buf.sizeOf o) :
    0 ≤ s.buf.cold.total - s.buf.cold.cur ∧ s.buf.cold.total - s.buf.cold.cur ≤ s.buf.residentData := by
  have hacct := hca.acct
  unfold cs at hacct
  have h1 := sumSz_nonneg s.buf hsn s.buf.cold.stored
  have hb1 : ∀ p ∈ s.procs, 0 ≤ coldTok s.buf p ∧ coldTok s.buf p ≤ sumSz s.buf (tok p) :=
    fun p hp => coldTok_bounds s.buf p (hca.left p hp) hsn
  have h2 := sum_map_nonneg s.procs (coldTok s.buf) (fun p hp => (hb1 p hp).1)
  have h3 := sum_map_le s.procs (coldTok s.buf) (fun p => sumSz s.buf (tok p)) (fun p hp => (hb1 p hp).2)
  have h4 : sumSz s.buf (toks s) = (s.procs.map (fun p => sumSz s.buf (tok p))).sum := sumSz_flatMap s.buf s.procs
  obtain ⟨n1, n2⟩ := coldish_nodup hb
  have h5 := sumSz_le_resident s.buf hbi hsn _ n1 n2
  rw [sumSz_app] at h5
  constructor <;> omega

theorem binv_of_empty (b : Buffer) (h : b.size = [] ∧ b.hot.cur = b.hot.total ∧ b.cold.cur = b.cold.total) :
    BInv b := by
  obtain ⟨h1, h2, h3⟩ := h
  constructor
  · rw [h1, h2, h3]; simp [resSum]
  · rw [h1]; simp

theorem bufList_nil_cold {b : Buffer} (h : bufList b = []) : b.cold.stored = [] := by
  unfold bufList at h
  exact (List.append_eq_nil_iff.mp h).2

/-- everything the bounds need, along every run that has not crashed -/
theorem reachOk_bufFacts (s0 s : Sys) (hw : WFConfig s0) (hbuf : bufList s0.buf = [])
    (hfull : s0.buf.size = [] ∧ s0.buf.hot.cur = s0.buf.hot.total ∧ s0.buf.cold.cur = s0.buf.cold.total)
    (hrate : ∀ o ∈ s0.obs, 0 < o.rate) (h : ReachOk s0 s) (hc : s.crashed = none) :
    BufI s ∧ CA s ∧ BInv s.buf ∧ SI s := by
  have hsz0 : s0.buf.size = [] ∧ s0.buf.hot.cur ≤ s0.buf.hot.total ∧ s0.buf.cold.cur ≤ s0.buf.cold.total :=
    ⟨hfull.1, by rw [hfull.2.1]; exact Int.le_refl _, by rw [hfull.2.2]; exact Int.le_refl _⟩
  exact ⟨reachOk_bufi s0 s hw hbuf h,
    reachOk_ca s0 s hw hbuf hsz0 ⟨bufList_nil_cold hbuf, hfull.2.2⟩ hrate h hc,
    (reachOk_ref s0 s hw hbuf h hc).binv (binv_of_empty s0.buf hfull),
    (reachOk_sh2 s0 s hw hbuf hsz0 hrate h hc).1⟩

theorem reachOk_accounting (s0 s : Sys) (hw : WFConfig s0) (hbuf : bufList s0.buf = [])
    (hfull : s0.buf.size = [] ∧ s0.buf.hot.cur = s0.buf.hot.total ∧ s0.buf.cold.cur = s0.buf.cold.total)
    (h : ReachOk s0 s) (hc : s.crashed = none) :
    (s.buf.hot.total - s.buf.hot.cur) + (s.buf.cold.total - s.buf.cold.cur) = s.buf.residentData := by
  have := ((reachOk_ref s0 s hw hbuf h hc).binv (binv_of_empty s0.buf hfull)).acct
  rw [Buffer.residentData_eq]; exact this

theorem reachOk_upper_bounds (s0 s : Sys) (hw : WFConfig s0) (hbuf : bufList s0.buf = [])
    (hfull : s0.buf.size = [] ∧ s0.buf.hot.cur = s0.buf.hot.total ∧ s0.buf.cold.cur = s0.buf.cold.total)
    (hrate : ∀ o ∈ s0.obs, 0 < o.rate) (h : ReachOk s0 s) (hc : s.crashed = none) :
    s.buf.hot.cur ≤ s.buf.hot.total ∧ s.buf.cold.cur ≤ s.buf.cold.total ∧
    (s.buf.residentData ≤ s.buf.hot.total → 0 ≤ s.buf.hot.cur) ∧
    (s.buf.residentData ≤ s.buf.cold.total → 0 ≤ s.buf.cold.cur) := by
  obtain ⟨hb, hca, hbi, hsi⟩ := reachOk_bufFacts s0 s hw hbuf hfull hrate h hc
  obtain ⟨c1, c2⟩ := cold_used_bounds hb hca hbi hsi.sn
  have hacct := reachOk_accounting s0 s hw hbuf hfull h hc
  refine ⟨by omega, by omega, fun _ => by omega, fun _ => by omega⟩

end Sys
end Topsim
