/-
  FinishInv3 — the "everything ran" invariant `FI` (stated for runs that have
  not crashed) and the generic lemma for one step.
-/
import TopsimProofs.FinishInv2

namespace Topsim
namespace Sys

/-- what is known of one process -/
structure Ok (s : Sys) (q : Proc) : Prop where
  deadPc : q.alive = false → 1 ≤ q.pc
  /-- a task body that has ended, or has reached its work phase, is recorded in `starts` -/
  dwStarted : ∀ t m preds ph tot, q.k = .doWork t m preds ph tot → (q.alive = false ∨ 2 ≤ ph) →
    t ∈ s.starts
  /-- an allocation process that has begun waits for the body of its task -/
  atRet : ∀ t m preds obs ing ret, q.k = .allocTask t m preds obs ing ret → 1 ≤ q.pc →
    ∃ d ∈ s.procs, d.pid = ret ∧ ∃ m' preds' ph tot, d.k = .doWork t m' preds' ph tot
  /-- an allocation process ends only after its task's body -/
  atDead : ∀ t m preds obs ing ret, q.k = .allocTask t m preds obs ing ret → q.alive = false →
    t ∈ s.starts
  /-- a provisioner that has run created one allocation process per ingest task -/
  provAll : ∀ o d, q.k = .provIngest o d → 1 ≤ q.pc → ∀ i, i < d →
    ∃ a ∈ s.procs, ∃ m preds obs ing ret, a.k = .allocTask (.ingest o i) m preds obs ing ret
  /-- a provisioner that has not run yet is due at the observation's start time -/
  provWake : ∀ o d, q.k = .provIngest o d → q.pc = 0 →
    ∃ ob a, s.obs? o = some ob ∧ ob.ast = some a ∧ q.wake = (a : Time)
  aiWait : ∀ o tl, q.k = .allocIngest o tl → q.pc = 0 →
    ∃ ob, s.obs? o = some ob ∧ ob.status = .waiting ∧ ∃ n : Nat, q.wake = (n : Time)
  aiAdm : ∀ o tl, q.k = .allocIngest o tl → o ∈ s.admitted
  /-- a supervisor that has run has taken its observation out of WAITING -/
  aiRun : ∀ o tl, q.k = .allocIngest o tl → 1 ≤ q.pc → Begun s.obs o

structure ObsOk (s : Sys) : Prop where
  obsProv : ∀ ob ∈ s.obs, ob.status ≠ .waiting →
    ∃ p ∈ s.procs, p.k = .provIngest ob.id ob.ingestDemand
  finProv : ∀ ob ∈ s.obs, ob.status = .finished →
    ∃ p ∈ s.procs, p.k = .provIngest ob.id ob.ingestDemand ∧ 1 ≤ p.pc
  astAdm : ∀ ob ∈ s.obs, ob.ast ≠ none → ob.id ∈ s.admitted
  durPos : ∀ ob ∈ s.obs, 1 ≤ ob.duration

structure FI (s : Sys) : Prop where
  ok : ∀ q ∈ s.procs, Ok s q
  aiUniq : ∀ p ∈ s.procs, ∀ q ∈ s.procs, ∀ o tl tl',
    p.k = .allocIngest o tl → q.k = .allocIngest o tl' → p.pid = q.pid
  obs : ObsOk s
  /-- what the cluster records as finished has been started -/
  finRan : ∀ t, dictGet s.cl.finished t = some true → t ∈ s.starts

/-- the invariant: as long as no block has raised -/
def FInv (s : Sys) : Prop := s.crashed = none → FI s

/-- what a step keeps: recorded starts and admissions, and the processes of
the kinds other processes refer to -/
structure Keeps (s s' : Sys) : Prop where
  starts : ∀ t ∈ s.starts, t ∈ s'.starts
  adm : ∀ o ∈ s.admitted, o ∈ s'.admitted
  dw : ∀ d ∈ s.procs, ∀ t m preds ph tot, d.k = .doWork t m preds ph tot →
    ∃ d' ∈ s'.procs, d'.pid = d.pid ∧ ∃ ph' tot', d'.k = .doWork t m preds ph' tot'
  atk : ∀ a ∈ s.procs, ∀ t m preds obs ing ret, a.k = .allocTask t m preds obs ing ret →
    ∃ a' ∈ s'.procs, ∃ ret', a'.k = .allocTask t m preds obs ing ret'
  pi : ∀ p ∈ s.procs, ∀ o d, p.k = .provIngest o d →
    ∃ p' ∈ s'.procs, p'.k = .provIngest o d ∧ p.pc ≤ p'.pc

/-- the kind of a process after its block, up to its local variables -/
structure SameClass (k k' : PK) : Prop where
  dw : ∀ t m preds ph tot, k = .doWork t m preds ph tot → ∃ ph' tot', k' = .doWork t m preds ph' tot'
  atk : ∀ t m preds obs ing ret, k = .allocTask t m preds obs ing ret →
    ∃ ret', k' = .allocTask t m preds obs ing ret'
  pi : ∀ o d, k = .provIngest o d → k' = .provIngest o d
  ai : ∀ o tl', k' = .allocIngest o tl' → ∃ tl, k = .allocIngest o tl

theorem SameClass.refl (k : PK) : SameClass k k :=
  ⟨fun _ _ _ ph tot h => ⟨ph, tot, h⟩, fun _ _ _ _ _ ret h => ⟨ret, h⟩, fun _ _ h => h,
   fun _ tl h => ⟨tl, h⟩⟩

theorem SameClass.of_neutral {k k' : PK} (h : k.neutral) (h' : k'.neutral) : SameClass k k' := by
  obtain ⟨a1, a2, a3, a4, a5⟩ := h
  obtain ⟨b1, b2, b3, b4, b5⟩ := h'
  constructor
  · intro t m preds ph tot e; rw [e] at a2; simp [PK.isDW] at a2
  · intro t m preds obs ing ret e; rw [e] at a1; simp [PK.isAT] at a1
  · intro o d e; rw [e] at a3; simp [PK.isPI] at a3
  · intro o tl e; rw [e] at b4; simp [PK.isAI] at b4

/-- the process table after a step: the entry that ran, the other old
entries, the new ones -/
def MemSpec (s s' : Sys) (p p' : Proc) (new : List Proc) : Prop :=
  ∀ q, q ∈ s'.procs ↔ q = p' ∨ (q ∈ s.procs ∧ q.pid ≠ p.pid) ∨ q ∈ new

theorem MemSpec.old {s s' : Sys} {p p' : Proc} {new : List Proc} (hm : MemSpec s s' p p' new)
    (hpw : PW s) (hp : p ∈ s.procs) {q : Proc} (hq : q ∈ s.procs) : q = p ∨ q ∈ s'.procs := by
  by_cases e : q.pid = p.pid
  · exact Or.inl (hpw.eq_of_pid hq hp e)
  · exact Or.inr ((hm q).mpr (Or.inr (Or.inl ⟨hq, e⟩)))

theorem Keeps.of_mem {s s' : Sys} (hpw : PW s) {p : Proc} (hp : p ∈ s.procs) {p' : Proc}
    {new : List Proc} (hm : MemSpec s s' p p' new) (hpid : p'.pid = p.pid) (hpc : p.pc ≤ p'.pc)
    (hc : SameClass p.k p'.k) (hs : ∀ t ∈ s.starts, t ∈ s'.starts)
    (ha : ∀ o ∈ s.admitted, o ∈ s'.admitted) : Keeps s s' := by
  have hp' : p' ∈ s'.procs := (hm p').mpr (Or.inl rfl)
  refine ⟨hs, ha, ?_, ?_, ?_⟩
  · intro d hd t m preds ph tot hk
    rcases hm.old hpw hp hd with rfl | hd'
    · obtain ⟨ph', tot', hk'⟩ := hc.dw _ _ _ _ _ hk
      exact ⟨p', hp', hpid, ph', tot', hk'⟩
    · exact ⟨d, hd', rfl, ph, tot, hk⟩
  · intro a ha' t m preds obs ing ret hk
    rcases hm.old hpw hp ha' with rfl | ha''
    · obtain ⟨ret', hk'⟩ := hc.atk _ _ _ _ _ _ hk
      exact ⟨p', hp', ret', hk'⟩
    · exact ⟨a, ha'', ret, hk⟩
  · intro q hq o d hk
    rcases hm.old hpw hp hq with rfl | hq'
    · exact ⟨p', hp', hc.pi _ _ hk, hpc⟩
    · exact ⟨q, hq', hk, Nat.le_refl _⟩

theorem Ok.mono {s s' : Sys} {q : Proc} (h : Ok s q) (hk : Keeps s s')
    (hpi : ∀ o d, q.k = .provIngest o d → q.pc = 0 → ∀ ob a, s.obs? o = some ob → ob.ast = some a →
      ∃ ob', s'.obs? o = some ob' ∧ ob'.ast = some a)
    (hai : ∀ o tl, q.k = .allocIngest o tl → q.pc = 0 → ∀ ob, s.obs? o = some ob →
      ob.status = .waiting → ∃ ob', s'.obs? o = some ob' ∧ ob'.status = .waiting)
    (hgood : ObsMonoS s.obs s'.obs) : Ok s' q := by
  constructor
  · exact h.deadPc
  · intro t m preds ph tot hq hx
    exact hk.starts t (h.dwStarted t m preds ph tot hq hx)
  · intro t m preds obs ing ret hq hpc
    obtain ⟨d, hd, hdp, m', preds', ph, tot, hdk⟩ := h.atRet t m preds obs ing ret hq hpc
    obtain ⟨d', hd', hdp', ph', tot', hdk'⟩ := hk.dw d hd _ _ _ _ _ hdk
    exact ⟨d', hd', hdp'.trans hdp, m', preds', ph', tot', hdk'⟩
  · intro t m preds obs ing ret hq hx
    exact hk.starts t (h.atDead t m preds obs ing ret hq hx)
  · intro o d hq hpc i hi
    obtain ⟨a, ha, m, preds, obs, ing, ret, hak⟩ := h.provAll o d hq hpc i hi
    obtain ⟨a', ha', ret', hak'⟩ := hk.atk a ha _ _ _ _ _ _ hak
    exact ⟨a', ha', m, preds, obs, ing, ret', hak'⟩
  · intro o d hq hpc
    obtain ⟨ob, a, hob, hast, hw⟩ := h.provWake o d hq hpc
    obtain ⟨ob', hob', hast'⟩ := hpi o d hq hpc ob a hob hast
    exact ⟨ob', a, hob', hast', hw⟩
  · intro o tl hq hpc
    obtain ⟨ob, hob, hst, hw⟩ := h.aiWait o tl hq hpc
    obtain ⟨ob', hob', hst'⟩ := hai o tl hq hpc ob hob hst
    exact ⟨ob', hob', hst', hw⟩
  · intro o tl hq
    exact hk.adm o (h.aiAdm o tl hq)
  · intro o tl hq hpc
    exact hgood o (h.aiRun o tl hq hpc)

theorem Ok.mono_obs {s s' : Sys} {q : Proc} (h : Ok s q) (hk : Keeps s s') (ho : s'.obs = s.obs) :
    Ok s' q :=
  h.mono hk (fun _ _ _ _ ob a hob hast => ⟨ob, by unfold obs? at hob ⊢; rw [ho]; exact hob, hast⟩)
    (fun _ _ _ _ ob hob hst => ⟨ob, by unfold obs? at hob ⊢; rw [ho]; exact hob, hst⟩)
    (ObsMonoS.of_eq ho)

theorem ObsOk.mono {s s' : Sys} (h : ObsOk s) (hk : Keeps s s') (ho : s'.obs = s.obs) : ObsOk s' := by
  constructor
  · intro ob hob hst
    rw [ho] at hob
    obtain ⟨p, hp, hpk⟩ := h.obsProv ob hob hst
    obtain ⟨p', hp', hpk', _⟩ := hk.pi p hp _ _ hpk
    exact ⟨p', hp', hpk'⟩
  · intro ob hob hst
    rw [ho] at hob
    obtain ⟨p, hp, hpk, hpc⟩ := h.finProv ob hob hst
    obtain ⟨p', hp', hpk', hpc'⟩ := hk.pi p hp _ _ hpk
    exact ⟨p', hp', hpk', by omega⟩
  · intro ob hob hast
    rw [ho] at hob
    exact hk.adm _ (h.astAdm ob hob hast)
  · intro ob hob
    rw [ho] at hob
    exact h.durPos ob hob

/-- one step: the caller says what holds of the entry that ran and of the new
entries; the old entries are taken care of here -/
theorem FI.step {s s' : Sys} (h : FI s) (hpw : PW s) {p : Proc} (hp : p ∈ s.procs) {p' : Proc}
    {new : List Proc} (hm : MemSpec s s' p p' new) (hpid : p'.pid = p.pid) (hpc : p.pc ≤ p'.pc)
    (hc : SameClass p.k p'.k) (hs : ∀ t ∈ s.starts, t ∈ s'.starts)
    (ha : ∀ o ∈ s.admitted, o ∈ s'.admitted)
    (hpi : ∀ q ∈ s.procs, ∀ o d, q.k = .provIngest o d → q.pc = 0 → ∀ ob a, s.obs? o = some ob →
      ob.ast = some a → ∃ ob', s'.obs? o = some ob' ∧ ob'.ast = some a)
    (hai : ∀ q ∈ s.procs, q.pid ≠ p.pid → ∀ o tl, q.k = .allocIngest o tl → q.pc = 0 →
      ∀ ob, s.obs? o = some ob → ob.status = .waiting → ∃ ob', s'.obs? o = some ob' ∧ ob'.status = .waiting)
    (hgood : ObsMonoS s.obs s'.obs)
    (hp'ok : Keeps s s' → Ok s' p') (hnew : Keeps s s' → ∀ q ∈ new, Ok s' q)
    (hnewAI : ∀ q ∈ new, ∀ o tl, q.k = .allocIngest o tl →
      (∀ q0 ∈ s.procs, ∀ tl0, q0.k ≠ .allocIngest o tl0) ∧
      (∀ q2 ∈ new, ∀ tl2, q2.k = .allocIngest o tl2 → q2.pid = q.pid))
    (hobs : Keeps s s' → ObsOk s')
    (hcf : ∀ t, dictGet s'.cl.finished t = some true →
      dictGet s.cl.finished t = some true ∨ t ∈ s'.starts) : FI s' := by
  have hk := Keeps.of_mem hpw hp hm hpid hpc hc hs ha
  refine ⟨?_, ?_, hobs hk, fun t ht => (hcf t ht).elim (fun h' => hs t (h.finRan t h')) id⟩
  · intro q hq
    rcases (hm q).mp hq with rfl | ⟨hq0, hne⟩ | hqn
    · exact hp'ok hk
    · exact (h.ok q hq0).mono hk (hpi q hq0) (hai q hq0 hne) hgood
    · exact hnew hk q hqn
  · -- each entry of the new table stands for an old entry or is new
    have back : ∀ q ∈ s'.procs, ∀ o tl, q.k = .allocIngest o tl →
        (∃ q0 ∈ s.procs, q0.pid = q.pid ∧ ∃ tl0, q0.k = .allocIngest o tl0) ∨ q ∈ new := by
      intro q hq o tl hqk
      rcases (hm q).mp hq with rfl | ⟨hq0, _⟩ | hqn
      · obtain ⟨tl0, hk0⟩ := hc.ai o tl hqk
        exact Or.inl ⟨p, hp, hpid.symm, tl0, hk0⟩
      · exact Or.inl ⟨q, hq0, rfl, tl, hqk⟩
      · exact Or.inr hqn
    intro q1 hq1 q2 hq2 o tl tl' hk1 hk2
    rcases back q1 hq1 o tl hk1 with ⟨a, ha1, hap, tla, hak⟩ | hn1 <;>
    rcases back q2 hq2 o tl' hk2 with ⟨b, hb1, hbp, tlb, hbk⟩ | hn2
    · rw [← hap, ← hbp]; exact h.aiUniq a ha1 b hb1 o tla tlb hak hbk
    · exact absurd hak ((hnewAI q2 hn2 o tl' hk2).1 a ha1 tla)
    · exact absurd hbk ((hnewAI q1 hn1 o tl hk1).1 b hb1 tlb)
    · exact ((hnewAI q2 hn2 o tl' hk2).2 q1 hn1 tl hk1)

/-- `updProc` after appending new entries -/
theorem memSpec_updProc {s s1 : Sys} (_hpw : PW s) {p : Proc} (hp : p ∈ s.procs) (new : List Proc)
    (hprocs : s1.procs = s.procs ++ new) (hpw1 : PW s1) (g : Proc → Proc) :
    MemSpec s (s1.updProc p.pid g) p (g p) new := by
  have hp1 : p ∈ s1.procs := by rw [hprocs]; exact List.mem_append_left _ hp
  intro q
  rw [mem_updProc_iff hpw1 hp1 g q, hprocs]
  constructor
  · rintro (h | ⟨h, hne⟩)
    · exact Or.inl h
    · rcases List.mem_append.mp h with h | h
      · exact Or.inr (Or.inl ⟨h, hne⟩)
      · exact Or.inr (Or.inr h)
  · rintro (h | ⟨h, hne⟩ | h)
    · exact Or.inl h
    · exact Or.inr ⟨List.mem_append_left _ h, hne⟩
    · refine Or.inr ⟨List.mem_append_right _ h, ?_⟩
      intro e
      have h1 : q ∈ s1.procs := by rw [hprocs]; exact List.mem_append_right _ h
      have : q = p := hpw1.eq_of_pid h1 hp1 e
      subst this
      -- `p` would occur twice in the table
      have hnd := hpw1.nodup
      rw [hprocs, List.map_append, List.nodup_append] at hnd
      exact hnd.2.2 _ (List.mem_map_of_mem hp) _ (List.mem_map_of_mem h) rfl

end Sys
end Topsim
