/-
  FinishBuf3 — tier moves and the buffer lists; the kind a block returns; the
  counting form of one step of `BufI`.
-/
import TopsimProofs.FinishBuf2

namespace Topsim
namespace Sys

/-- the token of the entry that ran, after its block -/
def yTok (k : PK) (y : Yield) : List Oid :=
  match y with
  | .timeout _ => tokK k
  | _ => []

theorem tok_fin (k : PK) (y : Yield) (w : Time) (q : Proc) (ha : q.alive = true) :
    tok (fin k y w q) = yTok k y := by
  unfold tok yTok fin
  cases y <;> simp [ha]

theorem tokK_of_tag {k : PK} (h1 : k.tag ≠ "hot2cold") (h2 : k.tag ≠ "cold2hot") : tokK k = [] := by
  unfold tokK
  split
  · exact absurd rfl h1
  · exact absurd rfl h2
  · rfl

theorem yTok_of_tag {k : PK} (y : Yield) (h1 : k.tag ≠ "hot2cold") (h2 : k.tag ≠ "cold2hot") :
    yTok k y = [] := by
  unfold yTok; split
  · exact tokK_of_tag h1 h2
  · rfl

/-! ### tier moves -/

theorem hot2coldStep_lists (b : Buffer) (o : Oid) (left : Int) :
    (b.hot2coldStep o left).1.hot.stored = b.hot.stored ∧
    (b.hot2coldStep o left).1.hot.scheduled = b.hot.scheduled ∧
    (b.hot2coldStep o left).1.hot.finished = b.hot.finished ∧
    (b.hot2coldStep o left).1.cold.stored
      = (if (Buffer.recvAmount b.moveRate left (b.sizeOf o)).2 = 0 then b.cold.stored ++ [o] else b.cold.stored) ∧
    ∀ l', (b.hot2coldStep o left).2 = .ok l' → l' = (Buffer.recvAmount b.moveRate left (b.sizeOf o)).2 := by
  unfold Buffer.hot2coldStep
  simp only
  generalize Buffer.recvAmount b.moveRate left (b.sizeOf o) = ra
  generalize Buffer.sendAmount b.moveRate left (b.sizeOf o) = sa
  obtain ⟨take, check⟩ := ra
  obtain ⟨give, left'⟩ := sa
  simp only
  by_cases hc : check = 0 <;> by_cases hl : left' = 0 <;> by_cases hn : b.hot.transfer.isNone = true <;>
    by_cases he : check ≠ left' <;> simp_all

theorem cold2hotStep_lists (b : Buffer) (o : Oid) (left : Int) :
    (b.cold2hotStep o left).1.cold.stored = b.cold.stored ∧
    (b.cold2hotStep o left).1.hot.scheduled = b.hot.scheduled ∧
    (b.cold2hotStep o left).1.hot.finished = b.hot.finished ∧
    (b.cold2hotStep o left).1.hot.stored
      = (if (Buffer.recvAmount b.moveRate left (b.sizeOf o)).2 = 0 then b.hot.stored ++ [o] else b.hot.stored) ∧
    ∀ l', (b.cold2hotStep o left).2 = .ok l' → l' = (Buffer.recvAmount b.moveRate left (b.sizeOf o)).2 := by
  unfold Buffer.cold2hotStep
  simp only
  generalize Buffer.recvAmount b.moveRate left (b.sizeOf o) = ra
  generalize Buffer.sendAmount b.moveRate left (b.sizeOf o) = sa
  obtain ⟨take, check⟩ := ra
  obtain ⟨give, left'⟩ := sa
  simp only
  by_cases hc : check = 0 <;> by_cases hl : left' = 0 <;> by_cases hn : b.cold.transfer.isNone = true <;>
    by_cases he : check ≠ left' <;> simp_all

/-- counting form of a transfer step: the observation either stays in flight or lands -/
theorem hot2coldStep_count (b : Buffer) (o : Oid) (left : Int) (x : Oid) :
    (∀ e, (b.hot2coldStep o left).2 = .error e →
      (bufList (b.hot2coldStep o left).1).count x ≤ (bufList b).count x + (if x = o then 1 else 0)) ∧
    (∀ l', (b.hot2coldStep o left).2 = .ok l' →
      (bufList (b.hot2coldStep o left).1).count x + (tokK (.hot2cold (some (o, l')))).count x
        ≤ (bufList b).count x + (if x = o then 1 else 0)) := by
  obtain ⟨h1, h2, h3, h4, h5⟩ := hot2coldStep_lists b o left
  have hB : (bufList (b.hot2coldStep o left).1).count x = (bufList b).count x +
      (if (Buffer.recvAmount b.moveRate left (b.sizeOf o)).2 = 0 then (if x = o then 1 else 0) else 0) := by
    simp only [bufList, h1, h2, h3, h4, List.count_append]
    split
    · simp only [List.count_append, count_single]; omega
    · omega
  refine ⟨fun e _ => ?_, fun l' hl => ?_⟩
  · rw [hB]; split <;> omega
  · have := h5 l' hl
    rw [hB, ← this]
    unfold tokK
    simp only
    by_cases h0 : l' = 0
    · subst h0; simp
    · simp only [h0, if_false]
      split
      · simp only [count_single]; omega
      · simp

theorem cold2hotStep_count (b : Buffer) (o : Oid) (left : Int) (x : Oid) :
    (∀ e, (b.cold2hotStep o left).2 = .error e →
      (bufList (b.cold2hotStep o left).1).count x ≤ (bufList b).count x + (if x = o then 1 else 0)) ∧
    (∀ l', (b.cold2hotStep o left).2 = .ok l' →
      (bufList (b.cold2hotStep o left).1).count x + (tokK (.cold2hot (some (o, l')))).count x
        ≤ (bufList b).count x + (if x = o then 1 else 0)) := by
  obtain ⟨h1, h2, h3, h4, h5⟩ := cold2hotStep_lists b o left
  have hB : (bufList (b.cold2hotStep o left).1).count x = (bufList b).count x +
      (if (Buffer.recvAmount b.moveRate left (b.sizeOf o)).2 = 0 then (if x = o then 1 else 0) else 0) := by
    simp only [bufList, h1, h2, h3, h4, List.count_append]
    split
    · simp only [List.count_append, count_single]; omega
    · omega
  refine ⟨fun e _ => ?_, fun l' hl => ?_⟩
  · rw [hB]; split <;> omega
  · have := h5 l' hl
    rw [hB, ← this]
    unfold tokK
    simp only
    by_cases h0 : l' = 0
    · subst h0; simp
    · simp only [h0, if_false]
      split
      · simp only [count_single]; omega
      · simp

theorem hot2coldBegin_count (b : Buffer) (x : Oid) :
    (∀ e, b.hot2coldBegin.2 = .error e → b.hot2coldBegin.1 = b) ∧
    (b.hot2coldBegin.2 = .ok none → (bufList b.hot2coldBegin.1).count x = (bufList b).count x) ∧
    (∀ o l, b.hot2coldBegin.2 = .ok (some (o, l)) →
      (bufList b.hot2coldBegin.1).count x + (if x = o then 1 else 0) = (bufList b).count x) := by
  unfold Buffer.hot2coldBegin
  cases hl : b.hot.stored.getLast? with
  | none => simp
  | some o =>
    simp only
    have hc := count_dropLast_getLast hl x
    split
    · refine ⟨fun e h => by simp at h, fun _ => ?_, fun o' l h => by simp at h⟩
      simp only [bufList, List.count_append, count_single]; omega
    · refine ⟨fun e h => by simp at h, fun h => by simp at h, fun o' l h => ?_⟩
      simp only [Except.ok.injEq, Option.some.injEq, Prod.mk.injEq] at h
      obtain ⟨rfl, _⟩ := h
      simp only [bufList, List.count_append]; omega

theorem cold2hotBegin_count (b : Buffer) (x : Oid) :
    (∀ e, b.cold2hotBegin.2 = .error e → b.cold2hotBegin.1 = b) ∧
    (b.cold2hotBegin.2 = .ok none → (bufList b.cold2hotBegin.1).count x = (bufList b).count x) ∧
    (∀ o l, b.cold2hotBegin.2 = .ok (some (o, l)) →
      (bufList b.cold2hotBegin.1).count x + (if x = o then 1 else 0) = (bufList b).count x) := by
  unfold Buffer.cold2hotBegin
  cases hl : b.cold.stored.getLast? with
  | none => simp
  | some o =>
    simp only
    have hc := count_dropLast_getLast hl x
    split
    · refine ⟨fun e h => by simp at h, fun _ => ?_, fun o' l h => by simp at h⟩
      simp only [bufList, List.count_append, count_single]; omega
    · refine ⟨fun e h => by simp at h, fun h => by simp at h, fun o' l h => ?_⟩
      simp only [Except.ok.injEq, Option.some.injEq, Prod.mk.injEq] at h
      obtain ⟨rfl, _⟩ := h
      simp only [bufList, List.count_append]; omega

theorem hot2coldIter_count (s : Sys) (now : Time) (o : Oid) (left : Int) (x : Oid) :
    (bufList (s.hot2coldIter now o left).1.buf).count x
        + (yTok (s.hot2coldIter now o left).2.1 (s.hot2coldIter now o left).2.2).count x
      ≤ (bufList s.buf).count x + (if 0 < left ∧ x = o then 1 else 0) := by
  unfold hot2coldIter
  by_cases hl : left ≤ 0
  · simp only [hl, if_true]
    show (bufList s.buf).count x + ([] : List Oid).count x ≤ _
    simp
  · simp only [hl, if_false]
    have hpos : 0 < left := by omega
    obtain ⟨h1, h2⟩ := hot2coldStep_count s.buf o left x
    generalize s.buf.hot2coldStep o left = r at h1 h2
    obtain ⟨b1, res⟩ := r
    cases res with
    | error e =>
      have := h1 e rfl
      show (bufList b1).count x + ([] : List Oid).count x ≤ _
      simp only [hpos, true_and, List.count_nil, Nat.add_zero]
      exact this
    | ok l' =>
      have := h2 l' rfl
      show (bufList b1).count x + (tokK (.hot2cold (some (o, l')))).count x ≤ _
      simp only [hpos, true_and]
      exact this

theorem cold2hotIter_count (s : Sys) (now : Time) (o : Oid) (left : Int) (x : Oid) :
    (bufList (s.cold2hotIter now o left).1.buf).count x
        + (yTok (s.cold2hotIter now o left).2.1 (s.cold2hotIter now o left).2.2).count x
      ≤ (bufList s.buf).count x + (if 0 < left ∧ x = o then 1 else 0) := by
  unfold cold2hotIter
  by_cases hl : left ≤ 0
  · simp only [hl, if_true]
    show (bufList s.buf).count x + ([] : List Oid).count x ≤ _
    simp
  · simp only [hl, if_false]
    have hpos : 0 < left := by omega
    obtain ⟨h1, h2⟩ := cold2hotStep_count s.buf o left x
    generalize s.buf.cold2hotStep o left = r at h1 h2
    obtain ⟨b1, res⟩ := r
    cases res with
    | error e =>
      have := h1 e rfl
      show (bufList b1).count x + ([] : List Oid).count x ≤ _
      simp only [hpos, true_and, List.count_nil, Nat.add_zero]
      exact this
    | ok l' =>
      have := h2 l' rfl
      show (bufList b1).count x + (tokK (.cold2hot (some (o, l')))).count x ≤ _
      simp only [hpos, true_and]
      exact this

theorem hot2coldBlock_count (s : Sys) (now : Time) (cur : Option (Oid × Int)) (x : Oid) :
    (bufList (s.hot2coldBlock now cur).1.buf).count x
        + (yTok (s.hot2coldBlock now cur).2.1 (s.hot2coldBlock now cur).2.2).count x
      ≤ (bufList s.buf).count x + (tokK (.hot2cold cur)).count x := by
  unfold hot2coldBlock
  split
  · rename_i o left
    have := hot2coldIter_count s now o left x
    refine Nat.le_trans this ?_
    unfold tokK
    simp only
    by_cases h0 : 0 < left
    · simp only [h0, true_and, if_true, count_single]; omega
    · simp [h0]
  · obtain ⟨g1, g2, g3⟩ := hot2coldBegin_count s.buf x
    generalize s.buf.hot2coldBegin = r at g1 g2 g3
    obtain ⟨b1, res⟩ := r
    have ht : (tokK (.hot2cold none)).count x = 0 := by simp [tokK]
    rw [ht]
    match res with
    | .error e =>
      have := g1 e rfl
      simp only at this
      subst this
      show (bufList s.buf).count x + ([] : List Oid).count x ≤ _
      simp
    | .ok none =>
      have := g2 rfl
      show (bufList b1).count x + ([] : List Oid).count x ≤ _
      simp only at this
      simp [this]
    | .ok (some (o, left)) =>
      have := g3 o left rfl
      simp only at this
      have h2 := hot2coldIter_count (({ s with buf := b1 }).addBuf ⟨natNow now, o, .transferStarted⟩) now o left x
      have hb : (({ s with buf := b1 }).addBuf ⟨natNow now, o, .transferStarted⟩).buf = b1 := rfl
      rw [hb] at h2
      refine Nat.le_trans h2 ?_
      by_cases e : x = o
      · simp only [e, and_true, if_true] at this ⊢; split <;> omega
      · simp only [e, and_false, if_false] at this ⊢; omega

theorem cold2hotBlock_count (s : Sys) (now : Time) (cur : Option (Oid × Int)) (x : Oid) :
    (bufList (s.cold2hotBlock now cur).1.buf).count x
        + (yTok (s.cold2hotBlock now cur).2.1 (s.cold2hotBlock now cur).2.2).count x
      ≤ (bufList s.buf).count x + (tokK (.cold2hot cur)).count x := by
  unfold cold2hotBlock
  split
  · rename_i o left
    have := cold2hotIter_count s now o left x
    refine Nat.le_trans this ?_
    unfold tokK
    simp only
    by_cases h0 : 0 < left
    · simp only [h0, true_and, if_true, count_single]; omega
    · simp [h0]
  · obtain ⟨g1, g2, g3⟩ := cold2hotBegin_count s.buf x
    generalize s.buf.cold2hotBegin = r at g1 g2 g3
    obtain ⟨b1, res⟩ := r
    have ht : (tokK (.cold2hot none)).count x = 0 := by simp [tokK]
    rw [ht]
    match res with
    | .error e =>
      have := g1 e rfl
      simp only at this
      subst this
      show (bufList s.buf).count x + ([] : List Oid).count x ≤ _
      simp
    | .ok none =>
      have := g2 rfl
      show (bufList b1).count x + ([] : List Oid).count x ≤ _
      simp only at this
      simp [this]
    | .ok (some (o, left)) =>
      have := g3 o left rfl
      simp only at this
      have h2 := cold2hotIter_count (({ s with buf := b1 }).addBuf ⟨natNow now, o, .transferStarted⟩) now o left x
      have hb : (({ s with buf := b1 }).addBuf ⟨natNow now, o, .transferStarted⟩).buf = b1 := rfl
      rw [hb] at h2
      refine Nat.le_trans h2 ?_
      by_cases e : x = o
      · simp only [e, and_true, if_true] at this ⊢; split <;> omega
      · simp only [e, and_false, if_false] at this ⊢; omega

/-! ### the counting form of one step -/

theorem BufI.step_count {s X : Sys} (h : BufI s) (hpw : PW s) (new : List Proc)
    (hprocs : X.procs = s.procs ++ new) (hpwX : PW X) {p : Proc} (hp : p ∈ s.procs)
    (ha : p.alive = true) (k' : PK) (y : Yield)
    (hnew : ∀ q ∈ new, q.k.tag ≠ "ingestStream" ∧ tok q = [])
    (hkstr : ∀ o tl, k' = .ingestStream o tl → ∃ tl0, p.k = .ingestStream o tl0)
    (hbound : ∀ x, (bufList X.buf).count x + (yTok k' y).count x
      ≤ (bufList s.buf).count x + (tokK p.k).count x)
    (hobs : ObsMonoS s.obs X.obs)
    (hplan : ∀ pl ∈ X.plans, pl.obs ∈ X.buf.hot.scheduled ++ X.buf.hot.finished) :
    BufI (X.updProc p.pid (fin k' y p.wake)) := by
  refine h.step hobs (strBack_of_procs hpw new hprocs hpwX hp _ (by simp) (fun _ => ha)
    (fun o tl e => hkstr o tl (by simpa using e)) (fun q hq => (hnew q hq).1)) ?_ hplan
  intro o
  left
  have ht := toks_updProc new hprocs hpwX hp (fin k' y p.wake) o
  have h1 : tok p = tokK p.k := by unfold tok; simp [ha]
  have h2 : tok (fin k' y p.wake p) = yTok k' y := tok_fin k' y p.wake p ha
  have h3 : (new.flatMap tok) = [] := by
    rw [List.flatMap_eq_nil_iff]; exact fun q hq => (hnew q hq).2
  rw [h1, h2, h3] at ht
  have hb := hbound o
  unfold locCount
  show (bufList X.buf).count o + _ ≤ _
  simp only [List.count_nil, Nat.add_zero] at ht
  omega

end Sys
end Topsim
