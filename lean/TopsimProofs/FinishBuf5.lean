/-
  FinishBuf5 — `BufI` along every run.
-/
import TopsimProofs.FinishAT2

namespace Topsim
namespace Sys

/-! ### blocks that leave the observation records alone -/

theorem foldl_obs {α} (f : Sys → α → Sys) (hf : ∀ s x, (f s x).obs = s.obs) (l : List α) (s : Sys) :
    (l.foldl f s).obs = s.obs := by
  induction l generalizing s with
  | nil => rfl
  | cons x r ih => exact (ih _).trans (hf s x)

theorem updateCurrentPlan_obs (s : Sys) (oid : Oid) : (s.updateCurrentPlan oid).obs = s.obs := by
  unfold updateCurrentPlan
  split
  · rfl
  · simp only
    show (List.foldl _ s _).obs = s.obs
    apply foldl_obs
    intro s x
    split
    · split <;> rfl
    · rfl


theorem monitorBlock_obs (s : Sys) (now : Time) : (s.monitorBlock now).1.obs = s.obs := rfl

theorem schedLoopBlock_obs (s : Sys) (now : Time) (orc : Oracle) :
    (s.schedLoopBlock now orc).1.obs = s.obs := by
  unfold schedLoopBlock
  simp only
  split
  · split
    · rfl
    · split
      · rfl
      · split <;> split <;> rfl
  · rfl

theorem bufferLoopBlock_obs (s : Sys) (now : Time) : (s.bufferLoopBlock now).1.obs = s.obs := by
  unfold bufferLoopBlock
  split
  · rfl
  · simp only; split <;> split <;> rfl

theorem provIngestBlock_obs (s : Sys) (now : Time) (pc : Nat) (oid : Oid) (d : Nat) :
    (s.provIngestBlock now pc oid d).1.obs = s.obs := by
  unfold provIngestBlock
  split
  · simp only
    split
    · rfl
    · refine Eq.trans (foldl_obs _ ?_ _ _) rfl
      intro s x; rfl
  · rfl

theorem ingestStreamIter_obs (s : Sys) (now : Time) (oid : Oid) (tl : Int) :
    (s.ingestStreamIter now oid tl).1.obs = s.obs := by
  unfold ingestStreamIter; mach_split

theorem ingestStreamBlock_obs (s : Sys) (now : Time) (pc : Nat) (oid : Oid) (tl : Int) :
    (s.ingestStreamBlock now pc oid tl).1.obs = s.obs := by
  unfold ingestStreamBlock
  split
  · split
    · rfl
    · split
      · rfl
      · exact ingestStreamIter_obs _ _ _ _
  · exact ingestStreamIter_obs _ _ _ _

theorem allocTaskBlock_obs (s : Sys) (now : Time) (t : Tid) (m : Mid) (preds : List Tid)
    (obs : Option Oid) (ing : Bool) (ret : Nat) :
    (s.allocTaskBlock now t m preds obs ing ret).1.obs = s.obs := by
  unfold allocTaskBlock; simp only; mach_split

theorem doWorkBlock_obs (s : Sys) (now : Time) (orc : Oracle) (t : Tid) (m : Mid) (preds : List Tid)
    (ph tot : Nat) : (s.doWorkBlock now orc t m preds ph tot).1.obs = s.obs := by
  rcases doWorkBlock_out s now orc t m preds ph tot with
    ⟨_, _, _, _, heq⟩ | ⟨_, _, _, _, _, heq⟩ | ⟨_, _, _, heq⟩ <;> rw [heq] <;> rfl

theorem processOne_obs (now : Time) (oid : Oid) (st : PcsSt) (t : Tid) :
    (processOne now oid st t).s.obs = st.s.obs := by
  unfold processOne
  cases hok : st.err with
  | some e => rfl
  | none =>
    simp only
    cases hm : dictGet st.schedule t with
    | none => rfl
    | some m =>
      cases hr : st.s.task? t with
      | none => rfl
      | some r =>
        simp only []
        cases hmm : st.s.machine? m with
        | none => rfl
        | some mm =>
          simp only []
          by_cases hz : ((r.allocObj || r.planned != some m) = true ∧ (mm.cpu = 0 ∨ mm.bw = 0))
          · rw [if_pos hz]
          · simp only [hz, if_false]
            generalize hs1 : (if (r.allocObj || r.planned != some m) = true then
              st.s.updTask t (fun r => updateAllocation r mm) else st.s) = s1
            have h1 : s1.obs = st.s.obs := by subst hs1; split <;> rfl
            by_cases hocc : (st.curr.contains m = true ∨ s1.cl.isOccupied m = true)
            · simp only [hocc, if_true]; exact h1
            · simp only [hocc, if_false]
              by_cases hmiss : (r.preds.any fun p => !dictHas (dictSet st.pairs t m) p) = true
              · simp only [hmiss, if_true]; exact h1
              · simp only [hmiss]
                by_cases hst : r.status ≠ TStatus.unscheduled
                · rw [if_pos hst]; exact h1
                · rw [if_neg hst]; exact h1

theorem processCurrentSchedule_obs (s : Sys) (now : Time) (oid : Oid)
    (schedule pairs : List (Tid × Mid)) : (processCurrentSchedule s now oid schedule pairs).s.obs = s.obs := by
  unfold processCurrentSchedule
  simp only
  generalize ((dictKeys schedule).mergeSort _) = l
  have : ∀ (l : List Tid) (st : PcsSt), (l.foldl (processOne now oid) st).s.obs = st.s.obs := by
    intro l
    induction l with
    | nil => intro st; rfl
    | cons x r ih => intro st; exact (ih _).trans (processOne_obs now oid st x)
  exact this l { s := s, schedule := schedule, pairs := pairs, curr := [] }

theorem allocTasksIter_obs (s : Sys) (now : Time) (orc : Oracle) (oid : Oid)
    (schedule pairs : List (Tid × Mid)) (pool : List Tid) :
    (s.allocTasksIter now orc oid schedule pairs pool).1.obs = s.obs := by
  unfold allocTasksIter
  simp only
  have h1 := updateCurrentPlan_obs s oid
  generalize s.updateCurrentPlan oid = s1 at h1
  split
  · exact h1
  · split
    · exact h1
    · rename_i out _
      have h3 : (if out.status = WStatus.delayed then { (({ s1 with cl := out.cl }).updPlan oid (fun p => { p with status := out.status })) with schedDelayed := true } else (({ s1 with cl := out.cl }).updPlan oid (fun p => { p with status := out.status }))).obs = s.obs := by
        split <;> exact h1
      generalize (if out.status = WStatus.delayed then { (({ s1 with cl := out.cl }).updPlan oid (fun p => { p with status := out.status })) with schedDelayed := true } else (({ s1 with cl := out.cl }).updPlan oid (fun p => { p with status := out.status }))) = s3 at h3
      split
      · split
        · split <;> exact h3
        · exact h3
      · split
        · exact h3
        · have h4 := processCurrentSchedule_obs s3 now oid out.schedule pairs
          split <;> exact h4.trans h3

theorem allocTasksBlock_obs (s : Sys) (now : Time) (orc : Oracle) (pc : Nat) (oid : Oid)
    (schedule pairs : List (Tid × Mid)) (pool : List Tid) (fin : Bool) :
    (s.allocTasksBlock now orc pc oid schedule pairs pool fin).1.obs = s.obs := by
  unfold allocTasksBlock
  split
  · rfl
  · split
    · simp only
      rw [allocTasksIter_obs]
      refine Eq.trans (foldl_obs _ ?_ _ _) rfl
      intro s x; rfl
    · exact allocTasksIter_obs _ _ _ _ _ _ _

theorem hot2coldIter_obs (s : Sys) (now : Time) (o : Oid) (left : Int) :
    (s.hot2coldIter now o left).1.obs = s.obs := by
  unfold hot2coldIter; mach_split

theorem hot2coldBlock_obs (s : Sys) (now : Time) (cur : Option (Oid × Int)) :
    (s.hot2coldBlock now cur).1.obs = s.obs := by
  unfold hot2coldBlock
  split
  · exact hot2coldIter_obs _ _ _ _
  · split
    · rfl
    · rfl
    · rw [hot2coldIter_obs]; rfl

theorem cold2hotIter_obs (s : Sys) (now : Time) (o : Oid) (left : Int) :
    (s.cold2hotIter now o left).1.obs = s.obs := by
  unfold cold2hotIter; mach_split

theorem cold2hotBlock_obs (s : Sys) (now : Time) (cur : Option (Oid × Int)) :
    (s.cold2hotBlock now cur).1.obs = s.obs := by
  unfold cold2hotBlock
  split
  · exact cold2hotIter_obs _ _ _ _
  · split
    · rfl
    · rfl
    · rw [cold2hotIter_obs]; rfl

theorem block_obs (s : Sys) (p : Proc) (orc : Oracle) (h1 : p.k.tag ≠ "telescope")
    (h2 : p.k.tag ≠ "allocIngest") : (s.block p orc).1.obs = s.obs := by
  unfold block
  split
  · exact monitorBlock_obs _ _
  · rename_i hk; rw [hk] at h1; exact absurd rfl h1
  · rfl
  · exact schedLoopBlock_obs _ _ _
  · exact bufferLoopBlock_obs _ _
  · rename_i hk; rw [hk] at h2; exact absurd rfl h2
  · exact provIngestBlock_obs _ _ _ _ _
  · exact ingestStreamBlock_obs _ _ _ _ _
  · exact allocTaskBlock_obs _ _ _ _ _ _ _ _
  · exact doWorkBlock_obs _ _ _ _ _ _ _ _
  · exact allocTasksBlock_obs _ _ _ _ _ _ _ _ _
  · exact hot2coldBlock_obs _ _ _
  · exact cold2hotBlock_obs _ _ _

/-! ### blocks that update observation records do it monotonically -/

theorem ObsMonoS.trans {a b c : List Obs} (h1 : ObsMonoS a b) (h2 : ObsMonoS b c) : ObsMonoS a c :=
  fun o h => h2 o (h1 o h)

theorem telescopeVisit_obsMono (n : Nat) (acc : Sys × Option Err) (oid : Oid) :
    ObsMonoS acc.1.obs (telescopeVisit n acc oid).1.obs := by
  obtain ⟨s1, err⟩ := acc
  unfold telescopeVisit
  cases err with
  | some e => exact fun _ h => h
  | none =>
    simp only
    split
    · exact fun _ h => h
    · rename_i o _
      split
      · cases hc : s1.checkIngestCapacity o with
        | error e => exact fun _ h => h
        | ok r =>
          obtain ⟨s', b⟩ := r
          have hcore := checkIngestCapacity_core s1 o s' b hc
          cases b with
          | false => exact ObsMonoS.of_eq hcore.obs
          | true =>
            simp only
            refine (ObsMonoS.of_eq hcore.obs).trans ?_
            exact ObsMonoS.updObs { s' with telUse := s'.telUse + o.demand, telStatus := true, admitted := s'.admitted ++ [oid] }
              oid (fun r => { r with ast := some n }) (fun r => ⟨rfl, fun h => h⟩)
      · split
        · exact ObsMonoS.updObs s1 oid (fun r => { r with status := .finished }) (fun r => ⟨rfl, fun h => by simp at h⟩)
        · exact fun _ h => h

theorem telescopeBlock_obsMono (s : Sys) (now : Time) : ObsMonoS s.obs (s.telescopeBlock now).1.obs := by
  unfold telescopeBlock
  split
  · exact fun _ h => h
  · simp only
    have : ∀ (l : List Oid) (acc : Sys × Option Err),
        ObsMonoS acc.1.obs (l.foldl (telescopeVisit (natNow now)) acc).1.obs := by
      intro l
      induction l with
      | nil => intro acc; exact fun _ h => h
      | cons x r ih => intro acc; exact (telescopeVisit_obsMono _ acc x).trans (ih _)
    have h2 := this (s.obs.map (·.id))
      ({ s with telEvents := [], telDelayed := if s.schedDelayed = true ∧ (!s.telDelayed) = true then true else s.telDelayed }, none)
    generalize (List.foldl (telescopeVisit (natNow now)) ({ s with telEvents := [], telDelayed := if s.schedDelayed = true ∧ (!s.telDelayed) = true then true else s.telDelayed }, none) (s.obs.map (·.id))) = r at h2 ⊢
    obtain ⟨s1, e1⟩ := r
    cases e1 <;> exact h2

theorem allocIngestBlock_obsMono (s : Sys) (now : Time) (pc : Nat) (oid : Oid) (tl : Int) :
    ObsMonoS s.obs (s.allocIngestBlock now pc oid tl).1.obs := by
  have hi : ∀ s : Sys, ∀ tl, ObsMonoS s.obs (s.allocIngestIter now oid tl).1.obs := by
    intro s tl
    unfold allocIngestIter
    simp only
    split
    · exact fun _ h => h
    · split
      · exact fun _ h => h
      · split
        · exact ObsMonoS.updObs _ oid (fun r => { r with status := .running }) (fun r => ⟨rfl, fun h => by simp at h⟩)
        · split <;> exact fun _ h => h
  unfold allocIngestBlock
  split
  · exact (ObsMonoS.updObs s oid (fun r => { r with ast := some (natNow now) }) (fun r => ⟨rfl, fun h => h⟩)).trans (hi _ _)
  · exact hi _ _

theorem block_obsMono (s : Sys) (p : Proc) (orc : Oracle) : ObsMonoS s.obs (s.block p orc).1.obs := by
  by_cases h1 : p.k.tag = "telescope"
  · unfold block
    split <;> first
      | exact telescopeBlock_obsMono _ _
      | (rename_i hk; rw [hk] at h1; exact absurd h1 (by simp [PK.tag]))
  · by_cases h2 : p.k.tag = "allocIngest"
    · unfold block
      split <;> first
        | exact allocIngestBlock_obsMono _ _ _ _ _
        | (rename_i hk; rw [hk] at h2; exact absurd h2 (by simp [PK.tag]))
    · exact ObsMonoS.of_eq (block_obs s p orc h1 h2)

/-! ### `resume` on the fields `Core8` does not list -/

theorem resume_buf (s : Sys) (pid : Nat) (orc : Oracle) (p : Proc) (hp : s.proc? pid = some p)
    (ha : p.alive = true) : (s.resume pid orc).1.buf = (s.block p orc).1.buf := by
  unfold resume
  simp only [hp, ha, Bool.not_true, Bool.false_eq_true, if_false]
  generalize s.block p orc = r
  obtain ⟨s1, k, y⟩ := r
  cases y with
  | timeout d => rfl
  | done => rfl
  | raised e => simp only [Sys.crash]; split <;> rfl

theorem resume_plans (s : Sys) (pid : Nat) (orc : Oracle) (p : Proc) (hp : s.proc? pid = some p)
    (ha : p.alive = true) : (s.resume pid orc).1.plans = (s.block p orc).1.plans := by
  unfold resume
  simp only [hp, ha, Bool.not_true, Bool.false_eq_true, if_false]
  generalize s.block p orc = r
  obtain ⟨s1, k, y⟩ := r
  cases y with
  | timeout d => rfl
  | done => rfl
  | raised e => simp only [Sys.crash]; split <;> rfl

theorem resume_queue (s : Sys) (pid : Nat) (orc : Oracle) (p : Proc) (hp : s.proc? pid = some p)
    (ha : p.alive = true) : (s.resume pid orc).1.queue = (s.block p orc).1.queue := by
  unfold resume
  simp only [hp, ha, Bool.not_true, Bool.false_eq_true, if_false]
  generalize s.block p orc = r
  obtain ⟨s1, k, y⟩ := r
  cases y with
  | timeout d => rfl
  | done => rfl
  | raised e => simp only [Sys.crash]; split <;> rfl

theorem BufI.congr {a b : Sys} (h : BufI a) (hb : b.buf = a.buf) (hp : b.procs = a.procs)
    (ho : b.obs = a.obs) (hl : b.plans = a.plans) : BufI b := by
  have hc : ∀ o, locCount b o = locCount a o := by
    intro o; unfold locCount toks; rw [hb, hp]
  constructor
  · intro o; rw [hc]; exact h.cnt o
  · intro p hp' hpa o tl hk; rw [hc]; rw [hp] at hp'; exact h.strFree p hp' hpa o tl hk
  · rw [hp]; exact h.strUniq
  · rw [hp, ho]; exact h.strObs
  · intro o; rw [hc, ho]; exact h.locObs o
  · rw [hl, hb]; exact h.planLoc

end Sys
end Topsim
