/-
  Bound2 — the algebra of the weight `boundV`: it only grows along a run, a stage that happens adds
  its weight, and if the weight did not change no stage happened.
-/
import TopsimProofs.Bound1

namespace Topsim

open KState Sys

/-! ### sums of maps -/

theorem bound_sum_le {α : Type} (l : List α) (f g : α → Nat) (h : ∀ x ∈ l, f x ≤ g x) :
    (l.map f).sum ≤ (l.map g).sum := by
  induction l with
  | nil => simp
  | cons a l ih =>
    simp only [List.map_cons, List.sum_cons]
    have h1 := h a (by simp)
    have h2 := ih (fun x hx => h x (List.mem_cons_of_mem _ hx))
    omega

theorem bound_sum_add_le {α : Type} (l : List α) (f g : α → Nat) (h : ∀ x ∈ l, f x ≤ g x) {a : α}
    (ha : a ∈ l) {w : Nat} (hw : f a + w ≤ g a) : (l.map f).sum + w ≤ (l.map g).sum := by
  induction l with
  | nil => simp at ha
  | cons b l ih =>
    simp only [List.map_cons, List.sum_cons]
    have h1 := h b (by simp)
    have h2 := bound_sum_le l f g (fun x hx => h x (List.mem_cons_of_mem _ hx))
    rcases List.mem_cons.mp ha with rfl | hal
    · omega
    · have h3 := ih (fun x hx => h x (List.mem_cons_of_mem _ hx)) hal
      omega

/-! ### the order on states -/

/-- every stage that has happened in `s` has happened in `s'` -/
def BoundMono (s0 s s' : Sys) : Prop :=
  ∀ o ∈ s0.obs, (Sys.PAst o.id s → Sys.PAst o.id s') ∧ (Sys.PQ o.id s → Sys.PQ o.id s') ∧
    (Sys.PRm o.id s → Sys.PRm o.id s') ∧
    ∀ node ∈ o.wf.topo, Sys.PAT o.id node s → Sys.PAT o.id node s'

open Classical in
/-- the weight of one observation -/
noncomputable def boundVObs (s0 s : Sys) (o : Obs) : Nat :=
  (if Sys.PAst o.id s then o.duration + 1 else 0) + (if Sys.PQ o.id s then 1 else 0) +
    (if Sys.PRm o.id s then 1 else 0) +
    (o.wf.topo.map (fun node => if Sys.PAT o.id node s then boundWAT s0 o node else 0)).sum

theorem boundV_eq (s0 s : Sys) : boundV s0 s = (s0.obs.map (boundVObs s0 s)).sum := rfl

theorem bound_ite_le {P Q : Prop} [Decidable P] [Decidable Q] (h : P → Q) (w : Nat) :
    (if P then w else 0) ≤ (if Q then w else 0) := by
  by_cases hp : P
  · rw [if_pos hp, if_pos (h hp)]
  · rw [if_neg hp]; exact Nat.zero_le _

theorem bound_ite_flip {P Q : Prop} [Decidable P] [Decidable Q] (hp : ¬ P) (hq : Q) (w : Nat) :
    (if P then w else 0) + w = (if Q then w else 0) := by
  rw [if_neg hp, if_pos hq]; omega

open Classical in
theorem bound_vobs_le {s0 s s' : Sys} (h : BoundMono s0 s s') {o : Obs} (ho : o ∈ s0.obs) :
    boundVObs s0 s o ≤ boundVObs s0 s' o := by
  obtain ⟨h1, h2, h3, h4⟩ := h o ho
  unfold boundVObs
  have a1 := bound_ite_le h1 (o.duration + 1)
  have a2 := bound_ite_le h2 1
  have a3 := bound_ite_le h3 1
  have a4 := bound_sum_le o.wf.topo
    (fun node => if Sys.PAT o.id node s then boundWAT s0 o node else 0)
    (fun node => if Sys.PAT o.id node s' then boundWAT s0 o node else 0)
    (fun node hn => bound_ite_le (h4 node hn) _)
  omega

theorem bound_v_mono_of {s0 s s' : Sys} (h : BoundMono s0 s s') : boundV s0 s ≤ boundV s0 s' := by
  rw [boundV_eq, boundV_eq]
  exact bound_sum_le _ _ _ (fun o ho => bound_vobs_le h ho)

open Classical in
/-- an admission adds `duration + 1` -/
theorem bound_v_add_ast {s0 s s' : Sys} (h : BoundMono s0 s s') {o : Obs} (ho : o ∈ s0.obs)
    (hn : ¬ Sys.PAst o.id s) (hy : Sys.PAst o.id s') : boundV s0 s + (o.duration + 1) ≤ boundV s0 s' := by
  rw [boundV_eq, boundV_eq]
  refine bound_sum_add_le _ _ _ (fun o ho => bound_vobs_le h ho) ho ?_
  obtain ⟨_, h2, h3, h4⟩ := h o ho
  unfold boundVObs
  have a1 := bound_ite_flip hn hy (o.duration + 1)
  have a2 := bound_ite_le h2 1
  have a3 := bound_ite_le h3 1
  have a4 := bound_sum_le o.wf.topo
    (fun node => if Sys.PAT o.id node s then boundWAT s0 o node else 0)
    (fun node => if Sys.PAT o.id node s' then boundWAT s0 o node else 0)
    (fun node hn => bound_ite_le (h4 node hn) _)
  omega

open Classical in
/-- a hand-over adds 1 -/
theorem bound_v_add_q {s0 s s' : Sys} (h : BoundMono s0 s s') {o : Obs} (ho : o ∈ s0.obs)
    (hn : ¬ Sys.PQ o.id s) (hy : Sys.PQ o.id s') : boundV s0 s + 1 ≤ boundV s0 s' := by
  rw [boundV_eq, boundV_eq]
  refine bound_sum_add_le _ _ _ (fun o ho => bound_vobs_le h ho) ho ?_
  obtain ⟨h1, _, h3, h4⟩ := h o ho
  unfold boundVObs
  have a1 := bound_ite_le h1 (o.duration + 1)
  have a2 := bound_ite_flip hn hy 1
  have a3 := bound_ite_le h3 1
  have a4 := bound_sum_le o.wf.topo
    (fun node => if Sys.PAT o.id node s then boundWAT s0 o node else 0)
    (fun node => if Sys.PAT o.id node s' then boundWAT s0 o node else 0)
    (fun node hn => bound_ite_le (h4 node hn) _)
  omega

open Classical in
/-- a removal adds 1 -/
theorem bound_v_add_rm {s0 s s' : Sys} (h : BoundMono s0 s s') {o : Obs} (ho : o ∈ s0.obs)
    (hn : ¬ Sys.PRm o.id s) (hy : Sys.PRm o.id s') : boundV s0 s + 1 ≤ boundV s0 s' := by
  rw [boundV_eq, boundV_eq]
  refine bound_sum_add_le _ _ _ (fun o ho => bound_vobs_le h ho) ho ?_
  obtain ⟨h1, h2, _, h4⟩ := h o ho
  unfold boundVObs
  have a1 := bound_ite_le h1 (o.duration + 1)
  have a2 := bound_ite_le h2 1
  have a3 := bound_ite_flip hn hy 1
  have a4 := bound_sum_le o.wf.topo
    (fun node => if Sys.PAT o.id node s then boundWAT s0 o node else 0)
    (fun node => if Sys.PAT o.id node s' then boundWAT s0 o node else 0)
    (fun node hn => bound_ite_le (h4 node hn) _)
  omega

open Classical in
/-- the start of a workflow task adds `boundWAT` -/
theorem bound_v_add_at {s0 s s' : Sys} (h : BoundMono s0 s s') {o : Obs} (ho : o ∈ s0.obs) {node : Nat}
    (hnode : node ∈ o.wf.topo) (hn : ¬ Sys.PAT o.id node s) (hy : Sys.PAT o.id node s') :
    boundV s0 s + boundWAT s0 o node ≤ boundV s0 s' := by
  rw [boundV_eq, boundV_eq]
  refine bound_sum_add_le _ _ _ (fun o ho => bound_vobs_le h ho) ho ?_
  obtain ⟨h1, h2, h3, h4⟩ := h o ho
  unfold boundVObs
  have a1 := bound_ite_le h1 (o.duration + 1)
  have a2 := bound_ite_le h2 1
  have a3 := bound_ite_le h3 1
  have a4 := bound_sum_add_le o.wf.topo
    (fun node => if Sys.PAT o.id node s then boundWAT s0 o node else 0)
    (fun node => if Sys.PAT o.id node s' then boundWAT s0 o node else 0)
    (fun node hn => bound_ite_le (h4 node hn) _) hnode
    (w := boundWAT s0 o node) (by rw [if_neg hn, if_pos hy]; omega)
  omega

theorem boundWAT_pos (s0 : Sys) (o : Obs) (node : Nat) : 1 ≤ boundWAT s0 o node := by
  unfold boundWAT; omega

/-- if the weight did not change, no stage happened -/
theorem bound_v_eq_noflip {s0 s s' : Sys} (h : BoundMono s0 s s') (he : boundV s0 s' = boundV s0 s) :
    ∀ o ∈ s0.obs, (Sys.PAst o.id s' → Sys.PAst o.id s) ∧ (Sys.PQ o.id s' → Sys.PQ o.id s) ∧
      (Sys.PRm o.id s' → Sys.PRm o.id s) ∧
      ∀ node ∈ o.wf.topo, Sys.PAT o.id node s' → Sys.PAT o.id node s := by
  intro o ho
  refine ⟨fun hy => ?_, fun hy => ?_, fun hy => ?_, fun node hnode hy => ?_⟩
  · apply Classical.byContradiction
    intro hn
    have := bound_v_add_ast h ho hn hy
    omega
  · apply Classical.byContradiction
    intro hn
    have := bound_v_add_q h ho hn hy
    omega
  · apply Classical.byContradiction
    intro hn
    have := bound_v_add_rm h ho hn hy
    omega
  · apply Classical.byContradiction
    intro hn
    have := bound_v_add_at h ho hnode hn hy
    have := boundWAT_pos s0 o node
    omega

/-! ### along the run -/

section
variable {env : SimEnv} {s0 : Sys}

theorem bound_run_mono (C : LiveCfg env s0) (K : LiveKernel env s0) {n m : Nat} (h : n ≤ m) :
    BoundMono s0 (simAt env s0 n).st (simAt env s0 m).st :=
  fun _ _ => ⟨fun hp => live_PAst_mono C K h hp, fun hp => live_PQ_mono C K h hp,
    fun hp => live_PRm_mono C K h hp, fun _ _ hp => live_PAT_mono C K h hp⟩

theorem bound_v_mono (C : LiveCfg env s0) (K : LiveKernel env s0) {n m : Nat} (h : n ≤ m) :
    boundV s0 (simAt env s0 n).st ≤ boundV s0 (simAt env s0 m).st :=
  bound_v_mono_of (bound_run_mono C K h)

theorem bound_lv_mono (C : LiveCfg env s0) (K : LiveKernel env s0) {n m : Nat} (h : n ≤ m) :
    boundLV env s0 n ≤ boundLV env s0 m := by
  unfold boundLV
  have := bound_v_mono C K h
  exact_mod_cast Nat.add_le_add_left this _

end

end Topsim
