/-
  OnTime5 — the clock of a run: `Now s t` says that every live process is due at
  `t` or later (everything before `t` has run).  It only moves forward
  (`now_step`); the times recorded in the state (the last block of an ended
  process, a recorded start, the end of a FINISHED observation) are behind it
  (`OtClock`).  Also: what the telescope's block does to a record (`ot_tel_rec`).
-/
import TopsimProofs.OnTime4

namespace Topsim

open KState Sys

namespace Sys

/-- every live process is due at `t` or later -/
def Now (s : Sys) (t : Time) : Prop := ∀ q ∈ s.procs, q.alive = true → t ≤ q.wake

theorem Now.mono {s : Sys} {t t' : Time} (h : Now s t) (hle : t' ≤ t) : Now s t' :=
  fun q hq ha => Rat.le_trans hle (h q hq ha)

/-- the clock does not go back: one block of a process of minimal wake time -/
theorem now_step {s : Sys} (hs : SInv s) {pid : Nat} {p : Proc} (hp : s.proc? pid = some p)
    (ha : p.alive = true) (hmin : ∀ q ∈ s.procs, q.alive = true → p.wake ≤ q.wake)
    (hint : p.k = .telescope → ∃ m : Nat, p.wake = ((m : Nat) : Time)) (orc : Oracle) {t : Time}
    (h : Now s t) : Now (s.resume pid orc).1 t := by
  obtain ⟨hpm, _⟩ := proc?_some hp
  obtain ⟨new, hm, _, hnewp⟩ := ot_step_table hs hp ha hmin orc
  have htp : t ≤ p.wake := h p hpm ha
  intro q hq hqa
  rcases (hm q).mp hq with rfl | ⟨hq0, _⟩ | hqn
  · obtain ⟨_, d, hd⟩ := fin_alive _ _ _ _ hqa
    have hd0 := lcDelay_nonneg s p orc d hd
    rw [hd, fin_timeout]
    show t ≤ p.wake + d
    have : p.wake + 0 ≤ p.wake + d := Rat.add_le_add_left.mpr hd0
    rw [Rat.add_zero] at this
    exact Rat.le_trans htp this
  · exact h q hq0 hqa
  · have hw := (hnewp q hqn).2.2.1
    split at hw
    · rename_i hk
      obtain ⟨m, hwm⟩ := hint hk
      rw [hw, hwm, natNow_natCast, ← hwm]; exact htp
    · rw [hw]; exact htp

/-- when the telescope's loop is about to run, a WAITING observation has no recorded start
(its supervisor, created in the telescope's previous block, has run in between) -/
theorem ot_no_waiting_ast {s : Sys} (hs : SInv s) (hA : OtAst s) {p : Proc} (hpm : p ∈ s.procs)
    (ha : p.alive = true) (hk : p.k = .telescope)
    (hmin : ∀ q ∈ s.procs, q.alive = true → p.wake ≤ q.wake) {o : Oid} {ob : Obs}
    (hob : s.obs? o = some ob) (hw : ob.status = .waiting) : ob.ast = none := by
  cases hast : ob.ast with
  | none => rfl
  | some a =>
    exfalso
    have hadm := hA.adm o ob hob (by rw [hast]; simp)
    obtain ⟨ob2, hob2, hsup⟩ := hs.eg.adm o hadm
    rw [hob] at hob2; cases hob2
    obtain ⟨q, hq, hqa, _, _, hlt⟩ := hsup hw
    have h1 := hlt p hpm hk ha
    have h2 := hmin q hq hqa
    exact absurd h1 (Rat.not_lt.mpr h2)

/-- **What the telescope's block (at time `m`) does to a record.**  Either the start time stays, and
the status stays or goes from RUNNING to FINISHED, a full duration after the recorded start; or the
observation was WAITING and due with no recorded start, and now has `m` recorded, still WAITING. -/
theorem ot_tel_rec {s : Sys} (hs : SInv s) (hti : ILTI s) (hA : OtAst s) {pid : Nat} {p : Proc}
    (hp : s.proc? pid = some p) (ha : p.alive = true)
    (hmin : ∀ q ∈ s.procs, q.alive = true → p.wake ≤ q.wake) (hk : p.k = .telescope) {m : Nat}
    (hwm : p.wake = ((m : Nat) : Time)) (orc : Oracle) :
    ∀ o ob', (s.resume pid orc).1.obs? o = some ob' → ∃ ob, s.obs? o = some ob ∧
      ((ob'.ast = ob.ast ∧ (ob'.status = ob.status ∨ (ob.status = .running ∧ ob'.status = .finished ∧
          ∃ a0, ob.ast = some a0 ∧ a0 + ob.duration ≤ m))) ∨
       (ob.status = .waiting ∧ ob.ast = none ∧ ob.est ≤ m ∧ ob'.ast = some m ∧ ob'.status = .waiting)) := by
  obtain ⟨hpm, _⟩ := proc?_some hp
  have hnat : natNow p.wake = m := by rw [hwm]; exact natNow_natCast m
  have hobsEq : (s.resume pid orc).1.obs = (s.block p orc).1.obs := (il_resume_fields s pid orc p hp ha).1
  intro o ob' hob'
  rw [obs?_congr hobsEq] at hob'
  rcases blockEvents_telescope (s := s) orc hk with ⟨_, hb, _⟩ | ⟨s0', e0, _, g2, _, _, _, _, _, hrun, _⟩
  · rw [hb] at hob'; exact ⟨ob', hob', Or.inl ⟨rfl, Or.inl rfl⟩⟩
  · rw [hnat] at hrun
    obtain ⟨ob, hob, _, a1, s1⟩ := telRun_tobs hrun o ob' hob'
    have hob2 := hob
    rw [obs?_congr g2] at hob2
    have hdur := hti.durPos ob (obs_mem_of_obs? hob2).1
    refine ⟨ob, hob2, ?_⟩
    rcases a1 with e | ⟨e, hmem⟩
    · left
      refine ⟨e, ?_⟩
      rcases s1 with e2 | ⟨e2, f⟩
      · exact Or.inl e2
      · rcases f with ⟨a0, ha0, hle⟩ | ⟨_, f2⟩
        · cases hst : ob.status with
          | waiting =>
            have := ot_no_waiting_ast hs hA hpm ha hk hmin hob2 hst
            rw [this] at ha0; cases ha0
          | running => exact Or.inr ⟨rfl, e2, a0, ha0, hle⟩
          | finished => left; rw [e2]
        · omega
    · right
      obtain ⟨ob1, hob1, hest1, hw1⟩ := telRun_startedEst hrun o hmem
      rw [hob] at hob1; cases hob1
      have hnone := ot_no_waiting_ast hs hA hpm ha hk hmin hob2 hw1
      refine ⟨hw1, hnone, hest1, e, ?_⟩
      rcases s1 with e2 | ⟨_, f⟩
      · rw [e2]; exact hw1
      · rcases f with ⟨a0, ha0, _⟩ | ⟨_, f2⟩
        · rw [hnone] at ha0; cases ha0
        · omega

/-! ### the recorded times are behind the clock -/

structure OtClock (s : Sys) : Prop where
  /-- an ended process ran its last block no later than now -/
  dead : ∀ r ∈ s.procs, r.alive = false → Now s r.wake
  /-- a recorded start is not in the future -/
  ast : ∀ o ob a, s.obs? o = some ob → ob.ast = some a → Now s ((a : Nat) : Time)
  /-- a FINISHED observation has run its full duration -/
  fin : ∀ o ob a, s.obs? o = some ob → ob.status = .finished → ob.ast = some a →
    Now s (((a + ob.duration : Nat) : Nat) : Time)

theorem otClock_start (s0 : Sys) (hw : WFConfig s0) : OtClock s0.start := by
  have hnone : ∀ o ob, s0.start.obs? o = some ob → ob.ast = none := by
    intro o ob hob
    have hm := (obs_mem_of_obs? hob).1
    rw [start_obs s0] at hm
    exact (hw.obsWaiting ob hm).2.1
  constructor
  · intro r hr hra
    rw [start_procs s0 hw] at hr
    simp only [List.mem_cons, List.not_mem_nil, or_false] at hr
    rcases hr with rfl | rfl | rfl | rfl | rfl <;> simp at hra
  · intro o ob a hob hast; rw [hnone o ob hob] at hast; cases hast
  · intro o ob a hob _ hast; rw [hnone o ob hob] at hast; cases hast

theorem otClock_step {s : Sys} (hs : SInv s) (hti : ILTI s) (hA : OtAst s) (h : OtClock s) {pid : Nat}
    {p : Proc} (hp : s.proc? pid = some p) (ha : p.alive = true)
    (hmin : ∀ q ∈ s.procs, q.alive = true → p.wake ≤ q.wake)
    (hint : p.k = .telescope → ∃ m : Nat, p.wake = ((m : Nat) : Time)) (orc : Oracle) :
    OtClock (s.resume pid orc).1 := by
  obtain ⟨hpm, _⟩ := proc?_some hp
  obtain ⟨new, hm, _, hnewp⟩ := ot_step_table hs hp ha hmin orc
  have hstep : ∀ {t : Time}, Now s t → Now (s.resume pid orc).1 t := fun h => now_step hs hp ha hmin hint orc h
  have hnowp : Now s p.wake := hmin
  constructor
  · intro r hr hra
    rcases (hm r).mp hr with rfl | ⟨hr0, _⟩ | hrn
    · have hw : (fin (s.block p orc).2.1 (s.block p orc).2.2 p.wake p).wake = p.wake := by
        cases hy : (s.block p orc).2.2 with
        | timeout d => rw [hy] at hra; simp [ha] at hra
        | done => rfl
        | raised x => rfl
      rw [hw]; exact hstep hnowp
    · exact hstep (h.dead r hr0 hra)
    · rw [(hnewp r hrn).1] at hra; cases hra
  · intro o ob' a hob' hast
    obtain ⟨ob, hob, hor⟩ := ot_step_ast hti hp ha orc o ob' hob'
    rcases hor with e | ⟨hk, _, e⟩
    · exact hstep (h.ast o ob a hob (by rw [← e]; exact hast))
    · obtain ⟨m, hwm⟩ := hint hk
      rw [hast, hwm, natNow_natCast] at e
      cases e
      rw [← hwm]; exact hstep hnowp
  · intro o ob' a hob' hfin hast
    by_cases hk : p.k = .telescope
    · obtain ⟨m, hwm⟩ := hint hk
      obtain ⟨ob, hob, hor⟩ := ot_tel_rec hs hti hA hp ha hmin hk hwm orc o ob' hob'
      have hdur : ob'.duration = ob.duration := by
        obtain ⟨ob0, hob0, hst⟩ := (ot_resume_keep s pid orc p hp ha).bwd hob'
        rw [hob] at hob0; cases hob0
        exact (ot_stat_fields hst).2.2.1
      rw [hdur]
      rcases hor with ⟨e, s1⟩ | ⟨_, _, _, _, e2⟩
      · rcases s1 with e2 | ⟨_, _, a0, ha0, hle⟩
        · exact hstep (h.fin o ob a hob (by rw [← e2]; exact hfin) (by rw [← e]; exact hast))
        · rw [e, ha0] at hast; cases hast
          have h1 : Now (s.resume pid orc).1 ((m : Nat) : Time) := by rw [← hwm]; exact hstep hnowp
          exact h1.mono (by exact_mod_cast hle)
      · rw [hfin] at e2; cases e2
    · obtain ⟨ob, hob, d, a1, s1⟩ := step_recs s pid orc p hp ha o ob' hob'
      obtain ⟨ob0, hob0, hor⟩ := ot_step_ast hti hp ha orc o ob' hob'
      rw [hob] at hob0; cases hob0
      have hast' : ob.ast = some a := by
        rcases hor with e | ⟨e, _⟩
        · rw [← e]; exact hast
        · exact absurd e hk
      have hfin' : ob.status = .finished := by
        rcases s1 with e | ⟨e, _⟩ | ⟨_, _, _, e⟩
        · rw [← e]; exact hfin
        · exact absurd e hk
        · rw [hfin] at e; cases e
      rw [d]
      exact hstep (h.fin o ob a hob hfin' hast')

end Sys

/-- `OtClock` holds in every state of every run of the simulator -/
theorem sim_otClock (env : SimEnv) (s0 : Sys) (hw : WFConfig s0) (k : SimState) (h : SimReach env s0 k) :
    OtClock k.st := by
  refine SimReach.sys_induct hw OtClock (otClock_start s0 hw) (fun s hs => ⟨hs.dead, hs.ast, hs.fin⟩)
    (fun s hs => ⟨hs.dead, hs.ast, hs.fin⟩) ?_ k h
  intro k hr ih pid p hp ha hen
  have hinv := hr.l3inv hw
  obtain ⟨p', hp', _, hmin⟩ := hen
  rw [hp] at hp'; cases hp'
  exact otClock_step hinv.sinv hinv.ti (sim_otAst env s0 hw k hr) ih hp ha hmin
    (fun hk => hinv.heap.telInt p (proc?_some hp).1 hk) _

end Topsim
