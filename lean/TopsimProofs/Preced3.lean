/-
  Preced3 — the four shipped algorithms, uniformly: what they propose comes from
  the plan's task list, was ready in the cluster's view, and the finished-task map
  is left alone.
-/
import TopsimProofs.Preced2
import TopsimProofs.AlgLemmas

namespace Topsim

open Alg

/-! ### new proposals are tasks of the plan -/

theorem dynamicStep_alloc (cl : Cluster) (plan : Plan) (view : Tid → TaskView) (n : Nat)
    (st st' : LoopSt) (t : Tid) (h : dynamicStep cl plan view n (.ok st) t = .ok st') :
    ∀ p ∈ st'.alloc, p.1 = t ∨ p ∈ st.alloc := by
  unfold dynamicStep at h
  simp only at h
  repeat' split at h
  all_goals try (simp at h; done)
  all_goals (injection h with h; subst h; intro p hp)
  all_goals try (exact Or.inr hp)
  all_goals
    rcases mem_dictSet hp with hp | hp
    · subst hp; exact Or.inl rfl
    · exact Or.inr hp

theorem greedyStep_alloc (cl : Cluster) (plan : Plan) (view : Tid → TaskView)
    (st st' : LoopSt) (t : Tid) (h : greedyStep cl plan view (.ok st) t = .ok st') :
    ∀ p ∈ st'.alloc, p.1 = t ∨ p ∈ st.alloc := by
  unfold greedyStep at h
  simp only at h
  repeat' split at h
  all_goals try (simp at h; done)
  all_goals (injection h with h; subst h; intro p hp)
  all_goals try (exact Or.inr hp)
  all_goals exact attemptAllocation_alloc cl _ t _ p hp |>.imp id id

theorem foldl_alloc_keys {α} (key : α → Tid) (f : Except Err LoopSt → α → Except Err LoopSt)
    (herr : ∀ e x, f (.error e) x = .error e)
    (hstep : ∀ st st' x, f (.ok st) x = .ok st' → ∀ p ∈ st'.alloc, p.1 = key x ∨ p ∈ st.alloc)
    (l : List α) (acc : Except Err LoopSt) (st' : LoopSt) (h : l.foldl f acc = .ok st') :
    ∃ st, acc = .ok st ∧ ∀ p ∈ st'.alloc, p.1 ∈ l.map key ∨ p ∈ st.alloc := by
  induction l generalizing acc with
  | nil => exact ⟨st', h, fun p hp => Or.inr hp⟩
  | cons x r ih =>
    obtain ⟨st1, h1, f1⟩ := ih (f acc x) h
    cases acc with
    | error e => rw [herr] at h1; exact absurd h1 (by simp)
    | ok st =>
      refine ⟨st, rfl, fun p hp => ?_⟩
      rcases f1 p hp with h2 | h2
      · exact Or.inl (by simp only [List.map_cons, List.mem_cons]; exact Or.inr h2)
      · rcases hstep st st1 x h1 p h2 with h3 | h3
        · exact Or.inl (by simp only [List.map_cons, List.mem_cons]; exact Or.inl h3)
        · exact Or.inr h3

theorem releaseBatch_finished (c : Cluster) (o : Oid) : (c.releaseBatch o).finished = c.finished := by
  unfold Cluster.releaseBatch
  split
  · rfl
  · simp only
    split <;> rfl

namespace Sys

/-- the pair lists: a key of `d` comes with a pair of `d` -/
theorem exists_pair_of_key {d : List (Tid × Mid)} {k : Tid} (h : k ∈ dictKeys d) : ∃ v, (k, v) ∈ d := by
  unfold dictKeys at h
  obtain ⟨⟨k', v⟩, hp, rfl⟩ := List.mem_map.mp h
  exact ⟨v, hp⟩

theorem key_of_pair {d : List (Tid × Mid)} {p : Tid × Mid} (h : p ∈ d) : p.1 ∈ dictKeys d :=
  List.mem_map_of_mem h

theorem taskView_hasPred (s : Sys) (t : Tid) :
    (s.taskView t).hasPred = false → (s.taskView t).predIds = [] := by
  unfold Sys.taskView
  split
  · intro _; rfl
  · intro h; simpa using h

/-- every key of the returned schedule is left over from the old one or is a task of the plan's
(pruned) task list -/
theorem runAlgorithm_keys (s : Sys) (orc : Oracle) (plan : Plan) (sched : List (Tid × Mid))
    (pool : List Tid) (out : AlgOut) (ha : s.alg ≠ .oracle)
    (h : s.runAlgorithm orc plan sched pool = .ok out) :
    ∀ k ∈ dictKeys out.schedule, k ∈ dictKeys sched ∨ k ∈ plan.tasks := by
  unfold runAlgorithm at h
  split at h
  · intro k hk
    rcases (batchRun_facts _ _ _ _ _ _ _ _ _ h).1 k hk with h1 | ⟨h1, _⟩
    · exact Or.inl h1
    · exact Or.inr h1
  · unfold Alg.queueRun at h
    injection h with h
    subst h
    intro k hk
    rcases (firstFreeFold_keys s.cl plan s.taskView _ _ _).1 k hk with h1 | ⟨h1, _⟩
    · exact Or.inl h1
    · exact Or.inr (List.mem_filter.mp h1).1
  · unfold Alg.dynamicRun at h
    simp only at h
    split at h
    · exact absurd h (by simp)
    · rename_i st hfold
      injection h with h
      subst h
      obtain ⟨st0, e0, f0⟩ := foldl_alloc_keys id _ (fun e x => rfl)
        (fun st st' x => dynamicStep_alloc _ _ _ _ st st' x) _ _ _ hfold
      injection e0 with e0
      subst e0
      intro k hk
      obtain ⟨v, hv⟩ := exists_pair_of_key hk
      rcases f0 (k, v) hv with h1 | h1
      · right
        simp only [List.map_id] at h1
        exact (List.mem_filter.mp (List.mem_mergeSort.mp h1)).1
      · exact Or.inl (key_of_pair h1)
  · unfold Alg.greedyRun at h
    split at h
    · exact absurd h (by simp)
    · rename_i st hfold
      injection h with h
      subst h
      obtain ⟨st0, e0, f0⟩ := foldl_alloc_keys id _ (fun e x => rfl)
        (fun st st' x => greedyStep_alloc _ _ _ st st' x) _ _ _ hfold
      injection e0 with e0
      subst e0
      intro k hk
      obtain ⟨v, hv⟩ := exists_pair_of_key hk
      rcases f0 (k, v) hv with h1 | h1
      · right
        simpa using h1
      · exact Or.inl (key_of_pair h1)
  · rename_i hb; exact absurd hb ha

/-- a shipped algorithm leaves the finished-task map alone -/
theorem runAlgorithm_finished_eq (s : Sys) (orc : Oracle) (plan : Plan) (sched : List (Tid × Mid))
    (pool : List Tid) (out : AlgOut) (ha : s.alg ≠ .oracle)
    (h : s.runAlgorithm orc plan sched pool = .ok out) : out.cl.finished = s.cl.finished := by
  unfold runAlgorithm at h
  split at h
  · obtain ⟨_, _, _, c1, hc1, hout⟩ := batchRun_facts _ _ _ _ _ _ _ _ _ h
    have h1 : c1.finished = s.cl.finished := by
      rcases hc1 with rfl | ⟨n, rfl, _⟩
      · rfl
      · exact provisionBatch_finished _ _ _
    rcases hout with e | ⟨_, e⟩
    · rw [e]; exact h1
    · rw [e, releaseBatch_finished]; exact h1
  · unfold Alg.queueRun at h
    injection h with h
    subst h
    simp only
    split
    · exact releaseBatch_finished _ _
    · rfl
  · unfold Alg.dynamicRun at h
    simp only at h
    split at h
    · exact absurd h (by simp)
    · injection h with h; subst h; rfl
  · unfold Alg.greedyRun at h
    split at h
    · exact absurd h (by simp)
    · injection h with h; subst h; rfl
  · rename_i hb; exact absurd hb ha

/-- what was newly proposed was ready: BatchProcessing / QueueProcessing /
DynamicSchedulingFromPlan test the plan's edges against `is_task_finished`,
GreedySchedulingFromPlan tests the task's own `pred` list against the keys of the finished map -/
theorem runAlgorithm_ready (s : Sys) (orc : Oracle) (plan : Plan) (sched : List (Tid × Mid))
    (pool : List Tid) (out : AlgOut) (ha : s.alg ≠ .oracle)
    (h : s.runAlgorithm orc plan sched pool = .ok out) :
    ∀ p ∈ out.schedule, p ∉ sched →
      (∀ q ∈ plan.preds p.1, s.cl.isTaskFinished q = true) ∨
      (∀ q ∈ (s.taskView p.1).predIds, dictHas s.cl.finished q = true) := by
  intro p hp hns
  unfold runAlgorithm at h
  split at h
  · exact Or.inl (batch_ready _ _ _ _ _ _ _ _ _ h p hp hns).2
  · exact Or.inl (queue_ready _ _ _ _ _ _ h p hp hns).2
  · exact Or.inl (dynamic_ready _ _ _ _ _ _ h p hp hns).2
  · exact Or.inr (greedy_ready _ _ _ (taskView_hasPred s) _ _ _ h p hp hns).2
  · rename_i hb; exact absurd hb ha

end Sys
end Topsim
