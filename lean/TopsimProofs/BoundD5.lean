/-
  BoundD5 — C05, the numeric clause under a delay model: timed liveness of the workflow-task workers
  along the run (Bound6f with the delayed weight): the invariant `BoundDTw` at every index with the
  deadline `boundDLV` — the start of a task pre-pays `boundDWAT`, the largest total the environment can
  hand its body on any machine + its largest transfer wait + 1 — and `boundD_tl_wf`.
-/
import TopsimProofs.BoundD4

namespace Topsim

open KState Sys

section
variable {env : SimEnv} {s0 : Sys}

/-- the setting of the step at index `n` -/
theorem boundD_tw_step_at (C : LiveCfg env s0) (K : LiveKernel env s0) (n : Nat) :
    ∃ e p new, (simAt env s0 n).peek = some e ∧ (simAt env s0 n).st.proc? e.pid = some p ∧
      e.time = p.wake ∧
      BoundDTwStep env s0 (simAt env s0 n).st (simAt env s0 (n + 1)).st p new := by
  obtain ⟨e, p, hpk, hpp, hpid, hstep⟩ := l7_step C K n
  obtain ⟨e', p', hpk', hpp', _, het, _⟩ := live_step C K n
  rw [hpk] at hpk'
  cases hpk'
  rw [hpp] at hpp'
  cases hpp'
  obtain ⟨new, hnew, hnp⟩ := Sys.block_newp (simAt env s0 n).st p (env.oracle (simAt env s0 n).st)
  refine ⟨e, p, new, hpk, hpp, het, ?_⟩
  exact
    { X := bound_tw_ctx C K n
      X' := bound_tw_ctx C K (n + 1)
      step := hstep
      hnew := hnew
      hnp := hnp
      aft := by
        intro d hd hdd t m preds ph tot hdk r hr
        exact live_aft_stable C K ((live_sinv C K n).pw.proc?_of_mem hd) hdk hdd hr (n + 1) (Nat.le_succ n) }

/-- an allocation process created at index `n` meets the deadline of index `n + 1` -/
theorem boundD_tw_new_at_le (C : LiveCfg env s0) (K : LiveKernel env s0) (n : Nat) {e : HEntry} {p : Proc}
    {new : List Proc} (hpk : (simAt env s0 n).peek = some e)
    (het : e.time = p.wake)
    (S : BoundDTwStep env s0 (simAt env s0 n).st (simAt env s0 (n + 1)).st p new)
    (hT : boundTau env s0 n ≤ boundDLV env s0 n)
    {o sc pa po fn} (hk : p.k = .allocTasks o sc pa po fn) {q : Proc} (hq : q ∈ new)
    {t m preds obs ing ret} (hqk : q.k = .allocTask t m preds obs ing ret) :
    q.wake + ((bound_tw_W s0 t : Nat) : Time) + ((boundD_tw_R env s0 t : Nat) : Time) + 1 ≤ boundDLV env s0 (n + 1) := by
  obtain ⟨ob, hob, hoid, node, hnode, hn, c, m', preds', hqk'⟩ :=
    Sys.bound_tw_spawn_named (l7_lib C K n) (l7_lib C K (n + 1)) (live_l7a C K (n + 1)) C.stat S.step hk
      S.hnew hq
  rw [hqk'] at hqk
  cases hqk
  subst hoid
  have hy : Sys.PAT ob.id node (simAt env s0 (n + 1)).st :=
    ⟨q, (S.mem q).mpr (Or.inr (Or.inr hq)), c, m, preds, some ob.id, false, 0, hqk'⟩
  have hV := boundD_v_add_at (env := env) (bound_run_mono C K (show n ≤ n + 1 by omega)) hob hnode hn hy
  have hobs := obs?_of_mem C.hw.obsNodup hob
  rw [bound_tw_W_wf hobs, boundD_tw_R_wf hobs]
  obtain ⟨_, _, hwk, _⟩ := S.hnp q hq
  rw [hk] at hwk
  simp only [reduceCtorEq, if_false] at hwk
  have htau : boundTau env s0 n = p.wake := by rw [bound_wk_tau hpk, het]
  rw [hwk, ← htau]
  unfold boundDLV at hT ⊢
  unfold boundDWAT at hV
  have h3 : ((boundLatest s0 + boundDV env s0 (simAt env s0 n).st +
      (boundDRt env s0 ob node + boundWait s0 ob node + 1) : Nat) : Rat) ≤
      ((boundLatest s0 + boundDV env s0 (simAt env s0 (n + 1)).st : Nat) : Rat) := by
    exact_mod_cast (by omega : boundLatest s0 + boundDV env s0 (simAt env s0 n).st +
      (boundDRt env s0 ob node + boundWait s0 ob node + 1) ≤ boundLatest s0 + boundDV env s0 (simAt env s0 (n + 1)).st)
  push_cast at h3 hT ⊢
  grind

/-- no worker in the initial state -/
theorem boundD_tw_zero (C : LiveCfg env s0) (B : Time) : BoundDTw env s0 (simAt env s0 0).st B := by
  obtain ⟨hprocs, hnp, _⟩ := C.hw.fresh
  have hst : (simAt env s0 0).st = s0.start := rfl
  have hp : s0.start.procs =
      [{ pid := 0, k := .monitor, wake := 0 }, { pid := 1, k := .telescope, wake := 0 },
       { pid := 2, k := .clusterLoop, wake := 0 }, { pid := 3, k := .schedLoop, wake := 0 },
       { pid := 4, k := .bufferLoop, wake := 0 }] := by
    simp [Sys.start, Sys.spawn, hprocs, hnp]
  rw [hst]
  constructor
  · intro d hd _ t m preds ph tot hk
    rw [hp] at hd
    simp only [List.mem_cons, List.not_mem_nil, or_false] at hd
    rcases hd with rfl | rfl | rfl | rfl | rfl <;> simp at hk
  · intro d hd _ t m preds obs ing ret hk
    rw [hp] at hd
    simp only [List.mem_cons, List.not_mem_nil, or_false] at hd
    rcases hd with rfl | rfl | rfl | rfl | rfl <;> simp at hk
  · intro d hd _ t m preds obs ing ret hk
    rw [hp] at hd
    simp only [List.mem_cons, List.not_mem_nil, or_false] at hd
    rcases hd with rfl | rfl | rfl | rfl | rfl <;> simp at hk

/-- the invariant at every index, with the delayed deadline `latest + V` (`boundDLV`) of that index -/
theorem boundD_tw_inv (C : LiveCfg env s0) (K : LiveKernel env s0) (n : Nat)
    (hprev : ∀ j, j < n → boundTau env s0 j ≤ boundDLV env s0 j) :
    BoundDTw env s0 (simAt env s0 n).st (boundDLV env s0 n) := by
  induction n with
  | zero => exact boundD_tw_zero C _
  | succ n ih =>
    have h0 := (ih (fun j hj => hprev j (by omega))).mono (boundD_lv_mono C K (Nat.le_succ n))
    obtain ⟨e, p, new, hpk, hpp, het, S⟩ := boundD_tw_step_at C K n
    refine boundD_tw_step S h0 ?_
    intro o sc pa po fn hk q hq t m preds obs ing ret hqk _
    exact boundD_tw_new_at_le C K n hpk het S (hprev n (Nat.lt_succ_self n)) hk hq hqk

/-- **Timed liveness of the workers of the workflow tasks.**  Any delay environment: if the clock was
within `latest + V` at every earlier index, every live allocation process / body of a task that is
not an ingest task is due, and so ends, before `latest + V`. -/
theorem boundD_tl_wf {env : SimEnv} {s0 : Sys} (C : LiveCfg env s0) (K : LiveKernel env s0)
    (n : Nat)
    (hprev : ∀ j, j < n → boundTau env s0 j ≤ boundDLV env s0 j) :
    ∀ q ∈ (simAt env s0 n).st.procs, q.alive = true → q.BoundWfWorker →
      q.wake + 1 ≤ boundDLV env s0 n := by
  have h := boundD_tw_inv C K n hprev
  have X := bound_tw_ctx C K n
  intro q hq hqa hw
  rcases hw with ⟨t, m, preds, obs, ing, ret, hk, hti⟩ | ⟨t, m, preds, ph, tot, hk, hti⟩
  · -- an allocation process
    have hR : (0 : Time) ≤ ((boundD_tw_R env s0 t : Nat) : Time) := Rat.natCast_nonneg
    have hW : (0 : Time) ≤ ((bound_tw_W s0 t : Nat) : Time) := Rat.natCast_nonneg
    by_cases hpc : q.pc = 0
    · have := h.at0 q hq hqa t m preds obs ing ret hk hti hpc
      grind
    · have hpc1 : 1 ≤ q.pc := by omega
      obtain ⟨d, hd, hdp, m', preds', ph, tot, hdk⟩ := (X.fi.ok q hq).atRet _ _ _ _ _ _ hk hpc1
      obtain ⟨g1, g2⟩ := h.at1 q hq hqa t m preds obs ing ret hk hti hpc1 d hd hdp
      cases hda : d.alive with
      | true =>
        have h1 := g1 hda
        have h2 := h.dw_two X hd hda hdk hti
        grind
      | false =>
        obtain ⟨r, f, _, _, hlt, hle⟩ := g2 hda
        obtain ⟨mq, hmq, _⟩ := bound_wk_Q_all C K n q hq hqa (by rw [hk]; simp [PK.tag])
        rw [hmq] at hlt ⊢
        unfold boundDLV at hle ⊢
        have h3 : ((mq : Nat) : Rat) < ((boundLatest s0 + boundDV env s0 (simAt env s0 n).st : Nat) : Rat) := by
          grind
        have h4 : mq < boundLatest s0 + boundDV env s0 (simAt env s0 n).st := by exact_mod_cast h3
        have h5 : mq + 1 ≤ boundLatest s0 + boundDV env s0 (simAt env s0 n).st := h4
        exact_mod_cast h5
  · -- a body
    have := h.dw_two X hq hqa hk hti
    grind

end

end Topsim
