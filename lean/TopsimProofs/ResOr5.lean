/-
  ResOr5 — the deterministic simulator (L3) and `ReachResv`.  `SimEnv` has no field for the inputs
  of a user algorithm: `SimEnv.oracle` always has `pre = []` and `proposals = []`, so every run of the
  simulator keeps to `ResOrOk` trivially and refines `ReachResv` (the counterpart of
  `l3_refines_reach`).
-/
import TopsimProofs.ResOr4
import TopsimProofs.IngestLimit12

namespace Topsim

open KState Sys

theorem resOr_envOracle_ok (env : SimEnv) (s : Sys) (pid : Nat) : ResOrOk s pid (env.oracle s) := by
  intro p _ oid sc pa po _
  exact ⟨fun op hop => by simp [SimEnv.oracle] at hop, fun pr hpr => by simp [SimEnv.oracle] at hpr⟩

theorem resOr_l3_refines_resv (env : SimEnv) (s0 : Sys) (hw : WFConfig s0) (k : SimState)
    (h : SimRun env s0 k) :
    ∃ s, ReachResv s0 s ∧ (k.st = s ∨ (k.st = { s with halted := true } ∧ k.st.halted = true)) := by
  induction h with
  | start => exact ⟨_, ReachResv.start, Or.inl rfl⟩
  | step k k1 hr hh hs ih =>
    obtain ⟨s, hrs, hks⟩ := ih
    rcases hks with hks | ⟨_, hks⟩
    · obtain ⟨hsi, hho⟩ := hr.toReach.inv hw
      obtain ⟨_, _, e, _, hc⟩ := il_l3_step env k k1 hsi hho hs
      rcases hc with ⟨hc, _⟩ | ⟨hen, _, hc⟩
      · exact ⟨s, hrs, Or.inr ⟨by rw [hc, hks], by rw [hc]⟩⟩
      · refine ⟨_, ReachResv.step s e.pid (env.oracle s) hrs (by rw [← hks]; exact hen)
          (fun _ => resOr_envOracle_ok env s e.pid), Or.inl ?_⟩
        rw [hc, hks]
    · rw [hks] at hh; exact absurd hh (by simp)

theorem resOr_l3_transfer (env : SimEnv) (s0 : Sys) (hw : WFConfig s0) (P : Sys → Prop)
    (hP : ∀ s, ReachResv s0 s → P s) (hhalt : ∀ s, P s → P { s with halted := true }) (k : SimState)
    (h : SimRun env s0 k) : P k.st := by
  obtain ⟨s, hrs, hks | ⟨hks, _⟩⟩ := resOr_l3_refines_resv env s0 hw k h
  · rw [hks]; exact hP s hrs
  · rw [hks]; exact hhalt s (hP s hrs)

end Topsim
