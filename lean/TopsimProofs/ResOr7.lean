/-
  ResOr7 — `ResOrRI` under the blocks other than the scheduler loop, the allocation processes and
  `allocate_tasks` (port of FinishRes5).
-/
import TopsimProofs.ResOr6

namespace Topsim
namespace Sys

open Cluster

/-- blocks that touch neither queue, plans, task records nor allocations -/
theorem resOr_ri_quiet {s : Sys} (hs : SInv s) (h : ResOrRI s) {p : Proc} (hp : p ∈ s.procs) (orc : Oracle)
    (h1 : p.k.tag ≠ "schedLoop") (h2 : p.k.tag ≠ "allocTasks") (h3 : p.k.tag ≠ "provIngest")
    (h4 : p.k.tag ≠ "allocTask") (h5 : p.k.tag ≠ "doWork")
    (new : List Proc) (hprocs : (s.block p orc).1.procs = s.procs ++ new) (hpwX : PW (s.block p orc).1)
    (hnew : ∀ q ∈ new, q.k.tag ≠ "allocTasks" ∧ q.k.tag ≠ "allocTask") :
    ResOrRI ((s.block p orc).1.updProc p.pid (fin (s.block p orc).2.1 (s.block p orc).2.2 p.wake)) := by
  have hpw := hs.pw
  have htag := block_tag s hpw p orc
  have hm := memSpec_updProc hpw hp new hprocs hpwX (fin (s.block p orc).2.1 (s.block p orc).2.2 p.wake)
  obtain ⟨hro, hid⟩ := block_runOn_idle s p orc h3 h4 h2
  have htasks := block_tasks s p orc h1 h3 h4 h5 h2
  have hts : ∀ t, tstat ((s.block p orc).1.updProc p.pid (fin (s.block p orc).2.1 (s.block p orc).2.2 p.wake)) t
      = tstat s t := fun t => tstat_of_tasks htasks t
  refine h.step hpw hp hm (by simp) (block_queue s p orc h1 h2) (block_plans s p orc h1 h2) ?_ ?_ ?_ ?_ ?_ ?_ ?_
  · intro t ht; rw [hts] at ht; exact ht
  · intro o c n ht; left; rw [hts] at ht; exact ht
  · intro q hq _ o sc pa po hqk
    rcases hq with rfl | hq
    · simp only [fin_k] at hqk; rw [hqk] at htag; exact absurd htag.symm h2
    · have := (hnew q hq).1; rw [hqk] at this; exact absurd rfl this
  · intro q hq _ t m preds o ret hqk
    rcases hq with rfl | hq
    · simp only [fin_k] at hqk; rw [hqk] at htag; exact absurd htag.symm h4
    · have := (hnew q hq).2; rw [hqk] at this; exact absurd rfl this
  · exact resOr_rc_quiet h hpw hp hm hro h4
  · intro o ho
    have : ((s.block p orc).1.updProc p.pid (fin (s.block p orc).2.1 (s.block p orc).2.2 p.wake)).cl.idle
        = s.cl.idle := hid
    rw [this] at ho; exact ho
  · exact h.keyNE.congr hid hro

/-! ### `do_work` -/

theorem resOr_ri_doWork {s : Sys} (hs : SInv s) (h : ResOrRI s) {p : Proc} (hp : p ∈ s.procs) (ha : p.alive = true)
    (orc : Oracle) {t m preds ph tot} (hk : p.k = .doWork t m preds ph tot) :
    ResOrRI ((s.block p orc).1.updProc p.pid (fin (s.block p orc).2.1 (s.block p orc).2.2 p.wake)) := by
  have hpw := hs.pw
  obtain ⟨U, hU⟩ := hs.ci
  have hb : s.block p orc = s.doWorkBlock p.wake orc t m preds ph tot := by
    unfold block; simp only [hk]
  have htag := block_tag s hpw p orc
  have hprocs : (s.block p orc).1.procs = s.procs ++ [] := by
    rw [hb]; simpa using doWorkBlock_procs s p.wake orc t m preds ph tot
  have hpwX : PW (s.block p orc).1 := by
    rw [hb]; exact (doWorkBlock_presE s p.wake orc t m preds ph tot).1.pw hpw
  have hm := memSpec_updProc hpw hp [] hprocs hpwX (fin (s.block p orc).2.1 (s.block p orc).2.2 p.wake)
  have h1 : p.k.tag ≠ "schedLoop" := by simp [hk, PK.tag]
  have h2 : p.k.tag ≠ "allocTasks" := by simp [hk, PK.tag]
  have h3 : p.k.tag ≠ "provIngest" := by simp [hk, PK.tag]
  have h4 : p.k.tag ≠ "allocTask" := by simp [hk, PK.tag]
  obtain ⟨hro, hid⟩ := block_runOn_idle s p orc h3 h4 h2
  -- the task has an allocation process, hence a record past UNSCHEDULED
  have hsched : tstat s t ≠ .unscheduled := by
    obtain ⟨a, ha1, _, _, preds', obs, ing, hak⟩ := hs.dg.dwAlloc p hp ha _ _ _ _ _ hk
    exact tstat_of_sched (hU.hasRec a ha1 _ _ _ _ _ _ hak)
  have hts : ∀ t', (tstat (s.block p orc).1 t' = tstat s t') ∨
      (t' = t ∧ tstat (s.block p orc).1 t' = .running) := by
    intro t'
    rw [hb]
    rcases doWorkBlock_tasks s p.wake orc t m preds ph tot with e | ⟨f, hf, hst, e⟩
    · exact Or.inl (tstat_of_tasks e t')
    · rw [tstat_of_tasks (a := s.updTask t f) e]
      rcases hst with hst | hst
      · by_cases ee : t' = t
        · right
          subst ee
          refine ⟨rfl, ?_⟩
          cases hr : s.task? t' with
          | none => rw [tstat_eq, hr] at hsched; exact absurd rfl hsched
          | some r => exact tstat_updTask_set s t' f hf .running hst hr
        · exact Or.inl (tstat_updTask_ne s f hf ee)
      · exact Or.inl (tstat_updTask_keep s t t' f hf hst)
  refine h.step hpw hp hm (by simp) (block_queue s p orc h1 h2) (block_plans s p orc h1 h2) ?_ ?_ ?_ ?_ ?_ ?_ ?_
  · intro t' ht
    have ht' : tstat (s.block p orc).1 t' = .unscheduled := ht
    rcases hts t' with e | ⟨_, e⟩
    · rw [e] at ht'; exact ht'
    · rw [e] at ht'; exact absurd ht' (by simp)
  · intro o c n ht
    left
    rcases hts (.wf o c n) with e | ⟨_, e⟩
    · have : tstat (s.block p orc).1 (.wf o c n) = .finished := ht
      rw [e] at this; exact this
    · have : tstat (s.block p orc).1 (.wf o c n) = .finished := ht
      rw [e] at this; exact absurd this (by simp)
  · intro q hq _ o sc pa po hqk
    rcases hq with rfl | hq
    · simp only [fin_k] at hqk; rw [hqk] at htag; exact absurd htag.symm h2
    · simp at hq
  · intro q hq _ t1 m1 preds1 o ret hqk
    rcases hq with rfl | hq
    · simp only [fin_k] at hqk; rw [hqk] at htag; exact absurd htag.symm h4
    · simp at hq
  · exact resOr_rc_quiet h hpw hp hm hro h4
  · intro o ho
    have : ((s.block p orc).1.updProc p.pid (fin (s.block p orc).2.1 (s.block p orc).2.2 p.wake)).cl.idle
        = s.cl.idle := hid
    rw [this] at ho; exact ho
  · exact h.keyNE.congr hid hro

/-! ### the ingest provisioner -/

theorem resOr_ri_provIngest {s : Sys} (hs : SInv s) (h : ResOrRI s) {p : Proc} (hp : p ∈ s.procs)
    (orc : Oracle) {o d} (hk : p.k = .provIngest o d) :
    ResOrRI ((s.block p orc).1.updProc p.pid (fin (s.block p orc).2.1 (s.block p orc).2.2 p.wake)) := by
  have hpw := hs.pw
  have hb : s.block p orc = s.provIngestBlock p.wake p.pc o d := by
    unfold block; simp only [hk]
  have htag := block_tag s hpw p orc
  obtain ⟨recs, hrecs, htasks, hro, hid, new, hprocs, hnew⟩ := provIngestBlock_shape s p.wake p.pc o d
  have hpwX : PW (s.block p orc).1 := by
    rw [hb]; exact (provIngestBlock_presE s p.wake p.pc o d).1.pw hpw
  rw [← hb] at htasks hro hid hprocs
  have hm := memSpec_updProc hpw hp new hprocs hpwX (fin (s.block p orc).2.1 (s.block p orc).2.2 p.wake)
  have h1 : p.k.tag ≠ "schedLoop" := by simp [hk, PK.tag]
  have h2 : p.k.tag ≠ "allocTasks" := by simp [hk, PK.tag]
  have h4 : p.k.tag ≠ "allocTask" := by simp [hk, PK.tag]
  have hts : ∀ o c n, tstat (s.block p orc).1 (.wf o c n) = tstat s (.wf o c n) := by
    intro o' c n
    apply tstat_append s _ recs htasks
    intro r hr e
    have := hrecs r hr
    rw [e] at this; simp [Tid.isIngest] at this
  refine h.step hpw hp hm (by simp) (block_queue s p orc h1 h2) (block_plans s p orc h1 h2) ?_ ?_ ?_ ?_ ?_ ?_ ?_
  · intro t ht
    exact resOr_back_append s (s.block p orc).1 recs htasks t ht
  · intro o' c n ht
    left
    have ht' : tstat (s.block p orc).1 (.wf o' c n) = .finished := ht
    rw [hts] at ht'; exact ht'
  · intro q hq _ o' sc pa po hqk
    rcases hq with rfl | hq
    · simp only [fin_k] at hqk; rw [hqk] at htag; exact absurd htag.symm h2
    · obtain ⟨t, m, e⟩ := hnew q hq; rw [e] at hqk; simp at hqk
  · intro q hq _ t m preds o' ret hqk
    rcases hq with rfl | hq
    · simp only [fin_k] at hqk; rw [hqk] at htag; exact absurd htag.symm h4
    · obtain ⟨t', m', e⟩ := hnew q hq; rw [e] at hqk; simp at hqk
  · exact resOr_rc_quiet h hpw hp hm hro h4
  · intro o' ho
    have : ((s.block p orc).1.updProc p.pid (fin (s.block p orc).2.1 (s.block p orc).2.2 p.wake)).cl.idle
        = s.cl.idle := hid
    rw [this] at ho; exact ho
  · exact h.keyNE.congr hid hro

end Sys
end Topsim
