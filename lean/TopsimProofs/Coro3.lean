/-
  Coro3 — the "real time" cold tier (C18 / C16): a lock-step rate below zero.

  In the code a cold `max_data_rate` of −1 means "real time: the cold tier is an extension of the
  hot one"; `Config.parse_buffer_config` multiplies every rate by the timestep unit, so the marker
  reaches the buffer as −unit; `transfer_observation` tests `transfer_rate < 0`, `receive_observation`
  tests `data_rate > 0` and takes the real-time branch otherwise.

  * arithmetic of one step at a negative rate (`coro_recv_neg`, `coro_send_neg`);
  * the exact result of one `hot2coldStep` / `cold2hotStep` at a negative lock-step rate;
  * the whole move: one step;
  * the step functions commute with any change of the two rates that keeps the lock-step rate
    negative (`coroWithRates`);
  * rate zero: the two sides of the lock-step disagree (`coro_rate_zero_*`).
-/
import TopsimModel.BufferOps
import TopsimProofs.TierLemmas

namespace Topsim
namespace Buffer

/-! ### arithmetic -/

theorem coro_recv_neg (rate left sz : Int) (h : rate < 0) : recvAmount rate left sz = (sz, left - sz) := by
  unfold recvAmount
  rw [if_neg (by omega)]

theorem coro_send_neg (rate left sz : Int) (h : rate < 0) : sendAmount rate left sz = (sz, left - sz) := by
  unfold sendAmount
  rw [if_pos h]

/-- the lock-step rate with a real-time cold tier is negative whatever the hot tier's rate -/
theorem coro_moveRate_neg_of_cold (b : Buffer) (h : b.cold.maxRate < 0) : b.moveRate < 0 := by
  unfold moveRate
  omega

theorem coro_moveRate_eq_cold (b : Buffer) (h : b.cold.maxRate ≤ b.hot.maxRate) :
    b.moveRate = b.cold.maxRate := by
  unfold moveRate
  omega

/-! ### one step at a negative lock-step rate -/

/-- `move_hot_to_cold`, one loop iteration, lock-step rate below zero: the exact next buffer -/
theorem coro_h2c_step_neg (b : Buffer) (o : Oid) (left : Int) (hr : b.moveRate < 0) :
    b.hot2coldStep o left =
      ({ b with
          hot := { b.hot with cur := b.hot.cur + b.sizeOf o,
                              transfer := if left - b.sizeOf o = 0 then none
                                          else if b.hot.transfer.isNone then some o else b.hot.transfer },
          cold := { b.cold with cur := b.cold.cur - b.sizeOf o,
                                transfer := if left - b.sizeOf o = 0 then none else some o,
                                stored := if left - b.sizeOf o = 0 then b.cold.stored ++ [o] else b.cold.stored },
          dltt := left - b.sizeOf o }, .ok (left - b.sizeOf o)) := by
  unfold hot2coldStep
  simp only [coro_recv_neg _ _ _ hr, coro_send_neg _ _ _ hr, ne_eq, not_true_eq_false, if_false]
  by_cases h0 : left - b.sizeOf o = 0 <;> cases ht : b.hot.transfer <;> simp [h0, ht]

/-- `move_cold_to_hot`, one loop iteration, lock-step rate below zero -/
theorem coro_c2h_step_neg (b : Buffer) (o : Oid) (left : Int) (hr : b.moveRate < 0) :
    b.cold2hotStep o left =
      ({ b with
          hot := { b.hot with cur := b.hot.cur - b.sizeOf o,
                              transfer := if left - b.sizeOf o = 0 then none else some o,
                              stored := if left - b.sizeOf o = 0 then b.hot.stored ++ [o] else b.hot.stored },
          cold := { b.cold with cur := b.cold.cur + b.sizeOf o,
                                transfer := if left - b.sizeOf o = 0 then none
                                            else if b.cold.transfer.isNone then some o else b.cold.transfer } },
        .ok (left - b.sizeOf o)) := by
  unfold cold2hotStep
  simp only [coro_recv_neg _ _ _ hr, coro_send_neg _ _ _ hr, ne_eq, not_true_eq_false, if_false]
  by_cases h0 : left - b.sizeOf o = 0 <;> cases ht : b.cold.transfer <;> simp [h0, ht]

/-- the first (and only) step of a move: the residual is the size -/
theorem coro_h2c_step_neg_whole (b : Buffer) (o : Oid) (hr : b.moveRate < 0) :
    b.hot2coldStep o (b.sizeOf o) =
      ({ b with
          hot := { b.hot with cur := b.hot.cur + b.sizeOf o, transfer := none },
          cold := { b.cold with cur := b.cold.cur - b.sizeOf o, transfer := none,
                                stored := b.cold.stored ++ [o] },
          dltt := 0 }, .ok 0) := by
  rw [coro_h2c_step_neg b o _ hr]
  simp

theorem coro_c2h_step_neg_whole (b : Buffer) (o : Oid) (hr : b.moveRate < 0) :
    b.cold2hotStep o (b.sizeOf o) =
      ({ b with
          hot := { b.hot with cur := b.hot.cur - b.sizeOf o, transfer := none,
                              stored := b.hot.stored ++ [o] },
          cold := { b.cold with cur := b.cold.cur + b.sizeOf o, transfer := none } }, .ok 0) := by
  rw [coro_c2h_step_neg b o _ hr]
  simp

/-! ### the whole move -/

theorem coro_h2c_run_neg (b : Buffer) (o : Oid) (fuel : Nat) (hr : b.moveRate < 0) (hs : 0 < b.sizeOf o)
    (hfuel : 1 < fuel) :
    hot2coldRun fuel b o (b.sizeOf o) 0 = ((b.hot2coldStep o (b.sizeOf o)).1, .ok 1) := by
  obtain ⟨f, rfl⟩ : ∃ f, fuel = f + 2 := ⟨fuel - 2, by omega⟩
  rw [coro_h2c_step_neg_whole b o hr]
  unfold hot2coldRun
  rw [if_neg (by omega), coro_h2c_step_neg_whole b o hr]
  simp only
  unfold hot2coldRun
  simp

theorem coro_c2h_run_neg (b : Buffer) (o : Oid) (fuel : Nat) (hr : b.moveRate < 0) (hs : 0 < b.sizeOf o)
    (hfuel : 1 < fuel) :
    cold2hotRun fuel b o (b.sizeOf o) 0 = ((b.cold2hotStep o (b.sizeOf o)).1, .ok 1) := by
  obtain ⟨f, rfl⟩ : ∃ f, fuel = f + 2 := ⟨fuel - 2, by omega⟩
  rw [coro_c2h_step_neg_whole b o hr]
  unfold cold2hotRun
  rw [if_neg (by omega), coro_c2h_step_neg_whole b o hr]
  simp only
  unfold cold2hotRun
  simp

/-! ### the two rates replaced -/

/-- the same buffer with other rates -/
def coroWithRates (b : Buffer) (h c : Int) : Buffer :=
  { b with hot := { b.hot with maxRate := h }, cold := { b.cold with maxRate := c } }

theorem coroWithRates_sizeOf (b : Buffer) (h c : Int) (o : Oid) : (coroWithRates b h c).sizeOf o = b.sizeOf o := rfl

theorem coroWithRates_moveRate (b : Buffer) (h c : Int) : (coroWithRates b h c).moveRate = min h c := rfl

theorem coroWithRates_self (b : Buffer) : coroWithRates b b.hot.maxRate b.cold.maxRate = b := rfl

/-- the admission tests never read a rate -/
theorem coroWithRates_coldHasCapacityFor (b : Buffer) (h c : Int) (sz : Int) :
    (coroWithRates b h c).coldHasCapacityFor sz = b.coldHasCapacityFor sz := rfl

theorem coroWithRates_hotHasCapacityFor (b : Buffer) (h c : Int) (sz : Int) :
    (coroWithRates b h c).hotHasCapacityFor sz = b.hotHasCapacityFor sz := rfl

theorem coroWithRates_checkCapacity (b : Buffer) (h c : Int) (rate duration : Int) :
    (coroWithRates b h c).checkCapacity rate duration = b.checkCapacity rate duration := rfl

theorem coroWithRates_loopDecide (b : Buffer) (h c : Int) (now : Nat) :
    (coroWithRates b h c).loopDecide now = b.loopDecide now := rfl

theorem coroWithRates_h2cBegin (b : Buffer) (h c : Int) :
    (coroWithRates b h c).hot2coldBegin = (coroWithRates b.hot2coldBegin.1 h c, b.hot2coldBegin.2) := by
  have key : ∀ o, (({ (coroWithRates b h c) with
        hot := { (coroWithRates b h c).hot with stored := (coroWithRates b h c).hot.stored.dropLast, transfer := some o },
        dltt := (coroWithRates b h c).sizeOf o } : Buffer).coldHasCapacityFor ((coroWithRates b h c).sizeOf o)) =
      (({ b with hot := { b.hot with stored := b.hot.stored.dropLast, transfer := some o },
                 dltt := b.sizeOf o } : Buffer).coldHasCapacityFor (b.sizeOf o)) := fun _ => rfl
  unfold hot2coldBegin
  cases hl : b.hot.stored.getLast? with
  | none =>
    have : (coroWithRates b h c).hot.stored.getLast? = none := hl
    rw [this]
  | some o =>
    have : (coroWithRates b h c).hot.stored.getLast? = some o := hl
    rw [this]
    simp only [key o]
    split
    · rename_i hc; rfl
    · rename_i hc; rfl

theorem coroWithRates_c2hBegin (b : Buffer) (h c : Int) :
    (coroWithRates b h c).cold2hotBegin = (coroWithRates b.cold2hotBegin.1 h c, b.cold2hotBegin.2) := by
  have key : ∀ o, (({ (coroWithRates b h c) with
        cold := { (coroWithRates b h c).cold with stored := (coroWithRates b h c).cold.stored.dropLast, transfer := some o } }
          : Buffer).hotHasCapacityFor ((coroWithRates b h c).sizeOf o)) =
      (({ b with cold := { b.cold with stored := b.cold.stored.dropLast, transfer := some o } }
          : Buffer).hotHasCapacityFor (b.sizeOf o)) := fun _ => rfl
  unfold cold2hotBegin
  cases hl : b.cold.stored.getLast? with
  | none =>
    have : (coroWithRates b h c).cold.stored.getLast? = none := hl
    rw [this]
  | some o =>
    have : (coroWithRates b h c).cold.stored.getLast? = some o := hl
    rw [this]
    simp only [key o]
    split
    · rename_i hc; rfl
    · rename_i hc; rfl

/-- a step at a negative lock-step rate does not depend on which negative number the rate is -/
theorem coroWithRates_h2cStep (b : Buffer) (h c : Int) (o : Oid) (left : Int)
    (hb : b.moveRate < 0) (hn : min h c < 0) :
    (coroWithRates b h c).hot2coldStep o left =
      (coroWithRates (b.hot2coldStep o left).1 h c, (b.hot2coldStep o left).2) := by
  rw [coro_h2c_step_neg b o left hb,
    coro_h2c_step_neg (coroWithRates b h c) o left (by rw [coroWithRates_moveRate]; exact hn)]
  rfl

theorem coroWithRates_c2hStep (b : Buffer) (h c : Int) (o : Oid) (left : Int)
    (hb : b.moveRate < 0) (hn : min h c < 0) :
    (coroWithRates b h c).cold2hotStep o left =
      (coroWithRates (b.cold2hotStep o left).1 h c, (b.cold2hotStep o left).2) := by
  rw [coro_c2h_step_neg b o left hb,
    coro_c2h_step_neg (coroWithRates b h c) o left (by rw [coroWithRates_moveRate]; exact hn)]
  rfl

/-! ### rate zero: the two sides of the lock-step disagree -/

/-- the receiver takes the real-time branch (`data_rate > 0` is false), the sender the metered one
(`transfer_rate < 0` is false) -/
theorem coro_rate_zero_amounts (left sz : Int) (hl : 0 ≤ left) :
    recvAmount 0 left sz = (sz, left - sz) ∧ sendAmount 0 left sz = (0, left) := by
  unfold recvAmount sendAmount
  refine ⟨by simp, ?_⟩
  rw [if_neg (by omega), if_neg (by omega)]
  simp

/-- … so the lock-step check raises for every observation of non-zero size -/
theorem coro_rate_zero_raises_h2c (b : Buffer) (o : Oid) (left : Int) (hr : b.moveRate = 0)
    (hl : 0 ≤ left) (hs : b.sizeOf o ≠ 0) : (b.hot2coldStep o left).2 = .error .runtime := by
  unfold hot2coldStep
  obtain ⟨h1, h2⟩ := coro_rate_zero_amounts left (b.sizeOf o) hl
  simp only [hr, h1, h2]
  rw [if_pos (by omega)]

theorem coro_rate_zero_raises_c2h (b : Buffer) (o : Oid) (left : Int) (hr : b.moveRate = 0)
    (hl : 0 ≤ left) (hs : b.sizeOf o ≠ 0) : (b.cold2hotStep o left).2 = .error .runtime := by
  unfold cold2hotStep
  obtain ⟨h1, h2⟩ := coro_rate_zero_amounts left (b.sizeOf o) hl
  simp only [hr, h1, h2]
  rw [if_pos (by omega)]

end Buffer
end Topsim
