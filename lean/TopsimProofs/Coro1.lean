/-
  Coro1 — helpers for C17Waits ("a task whose planned machine is busy waits for it").

  * `coro_busy_not_available`: under the cluster invariant a machine in the ingest pool or in the
    occupied pool is not in the available pool;
  * `coro_dynamic_busy_not_proposed`, `coro_runAlgorithm_busy_not_proposed`: one round of
    DynamicSchedulingFromPlan adds no proposal for a task whose planned machine is not available;
  * `coro_start_step`: the only block that turns a missing recorded start into a recorded one is the
    start block of the body of that task, and the stamp is the clock of that block;
  * `coro_start_after_finish_step`: at that block every other task that has a recorded start on the
    machine of the body has a recorded finish, not after the new start.
-/
import TopsimProofs.Interval3
import TopsimProofs.PlanFollow3

namespace Topsim
namespace Sys

open Cluster

/-! ### the pools -/

theorem coro_busy_not_available {c : Cluster} {U : List Tid} (h : Cluster.Inv c U) {m : Mid}
    (hb : c.isOccupied m = true) : m ∉ c.available := by
  intro hav
  have hpart := h.part m
  have hle : c.machines.count m ≤ 1 := List.nodup_iff_count.mp h.nodupM m
  have h1 : 0 < c.available.count m := List.count_pos_iff.mpr hav
  unfold Cluster.isOccupied at hb
  simp only [Bool.or_eq_true, decide_eq_true_eq] at hb
  rcases hb with hb | hb
  · have h2 : 0 < c.occupied.count m := List.count_pos_iff.mpr hb
    omega
  · have h2 : 0 < c.ingest.count m := List.count_pos_iff.mpr hb
    omega

/-! ### one round of the algorithm -/

/-- a task whose planned machine (as the algorithm reads it) is not in the available pool gets no
new proposal in this round -/
theorem coro_dynamic_busy_not_proposed (cl : Cluster) (plan : Plan) (view : Tid → TaskView)
    (sched : List (Tid × Mid)) (pool : List Tid) (out : AlgOut)
    (h : Alg.dynamicRun cl plan view sched pool = .ok out) (t : Tid) (m : Mid)
    (hm : (view t).machine = .ok m) (hbusy : m ∉ cl.available) :
    ∀ p ∈ out.schedule, p.1 = t → p ∈ sched := by
  intro p hp ht
  apply Classical.byContradiction
  intro hns
  have h1 := dynamic_planned_machine cl plan view sched pool out h p hp hns
  have h2 := dynamic_machine_available cl plan view sched pool out h p hp hns
  rw [ht, hm] at h1
  injection h1 with h1
  rw [← h1] at h2
  exact hbusy h2

/-- the machine `taskView` reports is the planned machine of the record -/
theorem coro_taskView_machine {s : Sys} {t : Tid} {r : TaskRec} {m m' : Mid} (hr : s.task? t = some r)
    (hp : r.planned = some m) (hv : (s.taskView t).machine = .ok m') : m' = m := by
  unfold taskView at hv
  rw [hr] at hv
  simp only [hp] at hv
  split at hv
  · cases hv
  · split at hv
    · injection hv with hv; exact hv.symm
    · cases hv

/-- `Scheduler.allocate_tasks` → `algorithm.run` with DynamicSchedulingFromPlan, in a state of the
block system: no new proposal for a task whose record names a planned machine that is not available -/
theorem coro_runAlgorithm_busy_not_proposed {s : Sys} (halg : s.alg = .dynamic) (orc : Oracle) (plan : Plan)
    (sc : List (Tid × Mid)) (po : List Tid) (out : AlgOut) (hrun : s.runAlgorithm orc plan sc po = .ok out)
    {t : Tid} {r : TaskRec} {m : Mid} (hr : s.task? t = some r) (hp : r.planned = some m)
    (hbusy : m ∉ s.cl.available) : ∀ p ∈ out.schedule, p.1 = t → p ∈ sc := by
  rw [runAlgorithm_dynamic halg] at hrun
  intro p hpm ht
  apply Classical.byContradiction
  intro hns
  have h1 := dynamic_planned_machine s.cl plan s.taskView sc po out hrun p hpm hns
  have h2 := dynamic_machine_available s.cl plan s.taskView sc po out hrun p hpm hns
  rw [ht] at h1
  have := coro_taskView_machine hr hp h1
  rw [this] at h2
  exact hbusy h2

/-! ### the block that records a start -/

/-- The step that records the start of `t` (no recorded start before, one after) is a block of the body
of `t`; the stamp is the wake time of that body (`env.now`), and no other record changes. -/
theorem coro_start_step {s : Sys} (hs : SInv s) {pid : Nat} (hen : s.enabled pid) (orc : Oracle)
    {t : Tid} {r r' : TaskRec} {a : Time}
    (hr : s.task? t = some r) (hnone : r.ast = none)
    (hr' : (s.resume pid orc).1.task? t = some r') (ha' : r'.ast = some a) :
    ∃ p, s.proc? pid = some p ∧ p.alive = true ∧ a = p.wake ∧
      (∃ m c ph tot, p.k = .doWork t m c ph tot) ∧
      ∀ x, x ≠ t → (s.resume pid orc).1.task? x = s.task? x := by
  obtain ⟨p, hp, ha, hmin⟩ := hen
  obtain ⟨hpm, hpid⟩ := proc?_some hp
  have hcore := resume_core s pid orc p hp ha
  have htasks : (s.resume pid orc).1.tasks = (s.block p orc).1.tasks := by rw [hcore.tasks]; rfl
  -- a step that keeps the stamps of the old records
  have hkeep : SpanStep s (s.resume pid orc).1 → False := by
    intro hT
    rcases hT.bwd hr' with ⟨r0, hr0, hk⟩ | ⟨h0, _⟩
    · rw [hr] at hr0
      injection hr0 with hr0
      subst hr0
      rw [hk.ast, hnone] at ha'
      cases ha'
    · rw [hr] at h0; cases h0
  cases hk : p.k with
  | doWork t1 m c ph tot =>
    have hb : s.block p orc = s.doWorkBlock p.wake orc t1 m c ph tot := block_doWork orc hk
    have hsh := doWorkBlock_shape2 s p.wake orc t1 m c ph tot
    rw [hb] at htasks
    generalize s.doWorkBlock p.wake orc t1 m c ph tot = X at hsh htasks
    cases hsh with
    | raised ph' e _ => exact absurd (SpanStep.of_eq htasks) hkeep
    | wait w => exact absurd (SpanStep.of_eq htasks) hkeep
    | start r0 mm dur _ _ _ =>
      obtain ⟨heq, hne, _, _⟩ := spanInv_stamp_frame hs hpm hk (dwStartF p.wake dur) (fun _ => rfl) htasks
      by_cases e : t = t1
      · subst e
        rw [heq r hr] at hr'
        injection hr' with hr'
        subst hr'
        have : (dwStartF p.wake dur r).ast = some p.wake := rfl
        rw [this] at ha'
        injection ha' with ha'
        exact ⟨p, hp, ha, ha'.symm, ⟨m, c, ph, tot, hk⟩, hne⟩
      · exfalso
        rw [hne t e, hr] at hr'
        injection hr' with hr'
        subst hr'
        rw [hnone] at ha'; cases ha'
    | finish h2 =>
      obtain ⟨heq, hne, _, _⟩ := spanInv_stamp_frame hs hpm hk (dwEndF p.wake tot)
        (fun r => (dwEndF_spec p.wake tot r).1) htasks
      exfalso
      by_cases e : t = t1
      · subst e
        rw [heq r hr] at hr'
        injection hr' with hr'
        subst hr'
        rw [(dwEndF_spec p.wake tot r).2.2.2.1, hnone] at ha'
        cases ha'
      · rw [hne t e, hr] at hr'
        injection hr' with hr'
        subst hr'
        rw [hnone] at ha'; cases ha'
  | _ =>
    exfalso
    exact hkeep ((block_spanStep s hs.pw p orc (by rw [hk]; simp [PK.tag])).of_tasks_eq htasks)

/-- … and at that block every other task with a body on the same machine and a recorded start has a
recorded finish that is not after the new start. -/
theorem coro_start_after_finish_step {s : Sys} (hs : SInv s) (h : IvInv s) {pid : Nat} (hen : s.enabled pid)
    (orc : Oracle) {t : Tid} {r r' : TaskRec} {a : Time}
    (hr : s.task? t = some r) (hnone : r.ast = none)
    (hr' : (s.resume pid orc).1.task? t = some r') (ha' : r'.ast = some a) :
    ∀ m, (∃ d ∈ s.procs, ∃ c ph tot, d.k = .doWork t m c ph tot) →
      ∀ u ru au, u ≠ t → (∃ d ∈ s.procs, ∃ c ph tot, d.k = .doWork u m c ph tot) →
        (s.resume pid orc).1.task? u = some ru → ru.ast = some au →
        ∃ fu, ru.aft = some fu ∧ fu ≤ a := by
  obtain ⟨p, hp, hal, hap, ⟨m0, c0, ph0, tot0, hk⟩, hoth⟩ := coro_start_step hs hen orc hr hnone hr' ha'
  obtain ⟨hpm, _⟩ := proc?_some hp
  intro m ⟨d, hd, c, ph, tot, hdk⟩ u ru au hne ⟨d1, hd1, c1, ph1, tot1, hk1⟩ hru hau
  have e := hs.dg.dwUniq d hd p hpm t m c ph tot m0 c0 ph0 tot0 hdk hk
  have hdp : d = p := hs.pw.eq_of_pid hd hpm e
  subst hdp
  rw [hk] at hdk
  injection hdk with _ e2 _ _ _
  subst e2
  rw [hoth u hne] at hru
  rw [hap]
  exact other_task_done h hs hpm hal hk hd1 hk1 hne hru hau

end Sys
end Topsim
