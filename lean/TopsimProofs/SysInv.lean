/-
  SysInv — the system invariant holds along every run; the statements cited by
  `TopsimProps/SysSafety.lean`.
-/
import TopsimProofs.SysInv17

namespace Topsim
namespace Sys

open Cluster

/-! ### runs whose oracle reservations stay within the public Cluster API -/

/-- `Reach`, with the side condition that, when the scheduling algorithm is the
oracle, its own reservation calls are `provision_batch_resources` /
`release_batch_resources` only -/
inductive ReachOk (s0 : Sys) : Sys → Prop
  | start : ReachOk s0 s0.start
  | step (s : Sys) (pid : Nat) (orc : Oracle) :
      ReachOk s0 s → s.enabled pid → (s.alg = .oracle → orc.preOk) → ReachOk s0 (s.resume pid orc).1

theorem ReachOk.toReach {s0 s : Sys} (h : ReachOk s0 s) : Reach s0 s := by
  induction h with
  | start => exact Reach.start
  | step s pid orc _ hen _ ih => exact Reach.step s pid orc ih hen

theorem reach_alg {s0 s : Sys} (h : Reach s0 s) : s.alg = s0.alg := by
  induction h with
  | start => exact start_alg s0
  | step s pid orc _ _ ih => rw [resume_alg]; exact ih

/-- with one of the four shipped algorithms the side condition is vacuous -/
theorem Reach.toOk {s0 s : Sys} (h : Reach s0 s) (hno : s0.alg ≠ .oracle) : ReachOk s0 s := by
  induction h with
  | start => exact ReachOk.start
  | step s pid orc hr hen ih =>
    exact ReachOk.step s pid orc ih hen (fun ho => absurd ((reach_alg hr).symm.trans ho) hno)

/-! ### the started simulation -/

theorem start_inv (s0 : Sys) (hw : WFConfig s0) : SInv s0.start := by
  obtain ⟨hprocs, hnp, htasks, _, _, hstarts, hactive, hadm, _⟩ := hw.fresh
  have hp : s0.start.procs = s0.procs ++
      [{ pid := s0.nextPid, k := .monitor, wake := 0 }, { pid := s0.nextPid + 1, k := .telescope, wake := 0 },
       { pid := s0.nextPid + 2, k := .clusterLoop, wake := 0 }, { pid := s0.nextPid + 3, k := .schedLoop, wake := 0 },
       { pid := s0.nextPid + 4, k := .bufferLoop, wake := 0 }] := by
    simp [start, spawn]
  have hn : s0.start.nextPid = s0.nextPid + 5 := by simp [start, spawn]
  have hcl : s0.start.cl = s0.cl := by simp [start, spawn]
  have ht : s0.start.tasks = s0.tasks := by simp [start, spawn]
  have ho : s0.start.obs = s0.obs := by simp [start, spawn]
  have hs : s0.start.starts = s0.starts := by simp [start, spawn]
  have ha : s0.start.active = s0.active := by simp [start, spawn]
  have hd : s0.start.admitted = s0.admitted := by simp [start, spawn]
  rw [hprocs, hnp] at hp
  rw [hnp] at hn
  simp only [List.nil_append, Nat.zero_add] at hp
  have hinv : Cluster.Inv s0.cl [] := by
    rw [hw.clInit]; exact inv_init _ hw.machinesNodup
  refine ⟨⟨?_, ?_⟩, ⟨[], ?_⟩, ?_, ?_⟩
  · rw [hp]; simp
  · rw [hp, hn]; intro p hp'; simp at hp'; rcases hp' with rfl | rfl | rfl | rfl | rfl <;> simp
  · constructor
    · rw [hcl]; exact hinv
    · rw [hp]; intro p hp'; simp at hp'; rcases hp' with rfl | rfl | rfl | rfl | rfl <;> simp
    · rw [hp]; intro p hp'; simp at hp'; rcases hp' with rfl | rfl | rfl | rfl | rfl <;> simp
    · rw [hp]; intro p hp'; simp at hp'; rcases hp' with rfl | rfl | rfl | rfl | rfl <;> simp
    · rw [hp]; intro p hp' q _ _ _ t m preds obs ing ret m' preds' obs' ing' ret' hk
      simp at hp'; rcases hp' with rfl | rfl | rfl | rfl | rfl <;> simp at hk
    · rw [hp]; intro p hp' t m preds obs ing ret hk
      simp at hp'; rcases hp' with rfl | rfl | rfl | rfl | rfl <;> simp at hk
    · rw [ht, htasks]; intro r hr; simp at hr
    · intro t ht'; simp at ht'
    · intro o i hoi; simp at hoi
    · rw [hp]; intro p hp' q _ o d d' hk
      simp at hp'; rcases hp' with rfl | rfl | rfl | rfl | rfl <;> simp at hk
    · rw [hp]; intro p hp' o d hk
      simp at hp'; rcases hp' with rfl | rfl | rfl | rfl | rfl <;> simp at hk
  · constructor
    · rw [hp]; intro p hp' q _ t m preds ph tot m' preds' ph' tot' hk
      simp at hp'; rcases hp' with rfl | rfl | rfl | rfl | rfl <;> simp at hk
    · rw [hp]; intro p hp' t m preds ph tot hk
      simp at hp'; rcases hp' with rfl | rfl | rfl | rfl | rfl <;> simp at hk
    · rw [hp]; intro p hp' _ t m preds ph tot hk
      simp at hp'; rcases hp' with rfl | rfl | rfl | rfl | rfl <;> simp at hk
    · rw [hs, hstarts]; simp
    · rw [hs, hstarts]; intro t ht'; simp at ht'
    · rw [ha, hactive]; simp
    · rw [ha, hactive]; intro mt hmt; simp at hmt
  · constructor
    · rw [ho]; exact hw.obsNodup
    · rw [hd, hadm]; simp
    · rw [hp]; intro p hp' q hq' hk hk'
      simp at hp' hq'
      rcases hp' with rfl | rfl | rfl | rfl | rfl <;> simp at hk <;>
      rcases hq' with rfl | rfl | rfl | rfl | rfl <;> simp at hk' <;> rfl
    · rw [hp]; intro p hp' hk
      simp at hp'; rcases hp' with rfl | rfl | rfl | rfl | rfl <;> simp at hk <;> decide
    · rw [hd, hadm]; intro o hoa; simp at hoa

/-! ### one step -/

theorem step_neutral {s : Sys} (h : SInv s) {pid : Nat} {p : Proc} (hp : s.proc? pid = some p)
    (ha : p.alive = true) (orc : Oracle) (hpres : Pres s (s.block p orc).1) (hk : p.k.neutral)
    (hk' : (s.block p orc).2.1.neutral) : SInv (s.resume pid orc).1 := by
  obtain ⟨hpm, hpid⟩ := proc?_some hp
  subst hpid
  exact (h.finish_neutral hpres hpm _ (by simp) hk (by simpa using hk')).core (resume_core s p.pid orc p hp ha)

theorem step_inv {s : Sys} (h : SInv s) {pid : Nat} (hen : s.enabled pid) (orc : Oracle)
    (hpre : s.alg = .oracle → orc.preOk) : SInv (s.resume pid orc).1 := by
  obtain ⟨p, hp, ha, hmin⟩ := hen
  cases hk : p.k with
  | monitor =>
    have hb : s.block p orc = ((s.monitorBlock p.wake).1, p.k, (s.monitorBlock p.wake).2) := by
      unfold block; simp only [hk]
    exact step_neutral h hp ha orc (by rw [hb]; exact monitorBlock_pres _ _)
      (by rw [hk]; exact ⟨rfl, rfl, rfl, rfl, rfl⟩) (by rw [hb, hk]; exact ⟨rfl, rfl, rfl, rfl, rfl⟩)
  | telescope => exact step_telescope h hp ha hmin hk orc
  | clusterLoop =>
    have hb : s.block p orc = ({ s with cl := s.cl.loopTick }, p.k, .timeout 1) := by
      unfold block; simp only [hk]
    exact step_neutral h hp ha orc (by rw [hb]; exact clusterLoop_pres _)
      (by rw [hk]; exact ⟨rfl, rfl, rfl, rfl, rfl⟩) (by rw [hb, hk]; exact ⟨rfl, rfl, rfl, rfl, rfl⟩)
  | schedLoop =>
    have hb : s.block p orc = ((s.schedLoopBlock p.wake orc).1, p.k, (s.schedLoopBlock p.wake orc).2) := by
      unfold block; simp only [hk]
    exact step_neutral h hp ha orc (by rw [hb]; exact schedLoopBlock_pres _ _ _)
      (by rw [hk]; exact ⟨rfl, rfl, rfl, rfl, rfl⟩) (by rw [hb, hk]; exact ⟨rfl, rfl, rfl, rfl, rfl⟩)
  | bufferLoop =>
    have hb : s.block p orc = ((s.bufferLoopBlock p.wake).1, p.k, (s.bufferLoopBlock p.wake).2) := by
      unfold block; simp only [hk]
    exact step_neutral h hp ha orc (by rw [hb]; exact bufferLoopBlock_pres _ _)
      (by rw [hk]; exact ⟨rfl, rfl, rfl, rfl, rfl⟩) (by rw [hb, hk]; exact ⟨rfl, rfl, rfl, rfl, rfl⟩)
  | allocIngest o tl => exact step_allocIngest h hp ha hk orc
  | provIngest o d => exact step_provIngest h hp ha hk orc
  | ingestStream o tl =>
    have hb : s.block p orc = s.ingestStreamBlock p.wake p.pc o tl := by
      unfold block; simp only [hk]
    exact step_neutral h hp ha orc (by rw [hb]; exact ingestStreamBlock_pres _ _ _ _ _)
      (by rw [hk]; exact ⟨rfl, rfl, rfl, rfl, rfl⟩) (by rw [hb]; exact ingestStreamBlock_kind _ _ _ _ _)
  | allocTask t m preds obs ing ret => exact step_allocTask h hp ha hk orc
  | doWork t m preds ph tot => exact step_doWork h hp ha hk orc
  | allocTasks o sc pa po fin =>
    have hb : s.block p orc = s.allocTasksBlock p.wake orc p.pc o sc pa po fin := by
      unfold block; simp only [hk]
    exact step_neutral h hp ha orc (by rw [hb]; exact allocTasksBlock_pres _ _ _ hpre _ _ _ _ _ _)
      (by rw [hk]; exact ⟨rfl, rfl, rfl, rfl, rfl⟩) (by rw [hb]; exact allocTasksBlock_kind _ _ _ _ _ _ _ _ _)
  | hot2cold cur =>
    have hb : s.block p orc = s.hot2coldBlock p.wake cur := by
      unfold block; simp only [hk]
    exact step_neutral h hp ha orc (by rw [hb]; exact hot2coldBlock_pres _ _ _)
      (by rw [hk]; exact ⟨rfl, rfl, rfl, rfl, rfl⟩) (by rw [hb]; exact hot2coldBlock_kind _ _ _)
  | cold2hot cur =>
    have hb : s.block p orc = s.cold2hotBlock p.wake cur := by
      unfold block; simp only [hk]
    exact step_neutral h hp ha orc (by rw [hb]; exact cold2hotBlock_pres _ _ _)
      (by rw [hk]; exact ⟨rfl, rfl, rfl, rfl, rfl⟩) (by rw [hb]; exact cold2hotBlock_kind _ _ _)

theorem reach_inv (s0 s : Sys) (hw : WFConfig s0) (h : ReachOk s0 s) : SInv s := by
  induction h with
  | start => exact start_inv s0 hw
  | step s pid orc _ hen hpre ih => exact step_inv ih hen orc hpre

/-! ### consequences -/

theorem nodup_map_of_inj_on {α β} (f : α → β) {l : List α} (h : l.Nodup)
    (hinj : ∀ a ∈ l, ∀ b ∈ l, f a = f b → a = b) : (l.map f).Nodup := by
  induction l with
  | nil => simp
  | cons x r ih =>
    rw [List.nodup_cons] at h
    simp only [List.map_cons, List.nodup_cons]
    refine ⟨?_, ih h.2 (fun a ha b hb => hinj a (List.mem_cons_of_mem _ ha) b (List.mem_cons_of_mem _ hb))⟩
    intro hx
    obtain ⟨y, hy, hxy⟩ := List.mem_map.mp hx
    have := hinj y (List.mem_cons_of_mem _ hy) x (by simp) hxy
    subst this
    exact h.1 hy

/-- every live task body is an entry of the cluster's `runOn` ghost -/
theorem SInv.active_runOn {s : Sys} (h : SInv s) : ∀ mt ∈ s.active,
    ∃ e ∈ s.cl.runOn, e.mach = mt.1 ∧ e.task = mt.2 := by
  intro mt hmt
  obtain ⟨U, hU⟩ := h.ci
  obtain ⟨p, hp, hpa, preds, tot, hpk⟩ := h.dg.actDw mt hmt
  obtain ⟨a, ha, haa, hapc, preds', obs, ing, hak⟩ := h.dg.dwAlloc p hp hpa _ _ _ _ _ hpk
  exact ⟨_, hU.runOn a ha haa _ _ _ _ _ _ hak hapc, rfl, rfl⟩

theorem Inv.runOn_mach_nodup {c : Cluster} {U} (h : Cluster.Inv c U) : (c.runOn.map (·.mach)).Nodup := by
  rw [List.nodup_iff_count]
  intro m
  have h1 := h.part m
  have h2 := h.runOn_count m
  have h3 := List.nodup_iff_count.mp h.nodupM m
  omega

theorem reach_cluster_inv (s0 s : Sys) (hw : WFConfig s0) (h : ReachOk s0 s) :
    ∃ U, Cluster.Inv s.cl U := by
  obtain ⟨U, hU⟩ := (reach_inv s0 s hw h).ci
  exact ⟨U, hU.inv⟩

theorem reach_active_nodup (s0 s : Sys) (hw : WFConfig s0) (h : ReachOk s0 s) :
    (s.active.map (·.1)).Nodup := by
  have hs := reach_inv s0 s hw h
  obtain ⟨U, hU⟩ := hs.ci
  have hnd := Inv.runOn_mach_nodup hU.inv
  have hrn : (s.cl.runOn.map (·.task)).Nodup := by rw [hU.inv.runOnTasks]; exact hU.inv.runNodup
  apply nodup_map_of_inj_on _ (nodup_of_map hs.dg.actNodup)
  intro a ha b hb hab
  obtain ⟨e1, he1, h11, h12⟩ := hs.active_runOn a ha
  obtain ⟨e2, he2, h21, h22⟩ := hs.active_runOn b hb
  have : e1 = e2 := eq_of_map_nodup hnd he1 he2 (by rw [h11, h21]; exact hab)
  subst this
  exact Prod.ext hab (by rw [← h12, ← h22])

theorem reach_free_not_active (s0 s : Sys) (hw : WFConfig s0) (h : ReachOk s0 s) (m : Mid)
    (hm : m ∈ s.cl.available ∨ m ∈ s.cl.idleAll) : m ∉ s.active.map (·.1) := by
  have hs := reach_inv s0 s hw h
  obtain ⟨U, hU⟩ := hs.ci
  intro hin
  obtain ⟨mt, hmt, rfl⟩ := List.mem_map.mp hin
  obtain ⟨e, he, h1, _⟩ := hs.active_runOn mt hmt
  have hr : mt.1 ∈ s.cl.runOn.map (·.mach) := by rw [← h1]; exact List.mem_map_of_mem he
  have h1 := hU.inv.part mt.1
  have h2 := hU.inv.runOn_count mt.1
  have h3 := List.nodup_iff_count.mp hU.inv.nodupM mt.1
  have h4 := count_pos_of_mem hr
  have h5 : 0 < s.cl.available.count mt.1 + s.cl.idleAll.count mt.1 := by
    rcases hm with hm | hm
    · have := count_pos_of_mem hm; omega
    · have := count_pos_of_mem hm; omega
  omega

theorem reach_starts_nodup (s0 s : Sys) (hw : WFConfig s0) (h : ReachOk s0 s) : s.starts.Nodup :=
  (reach_inv s0 s hw h).dg.startsNodup

/-- the telescope group needs no restriction on the oracle -/
theorem reach_einv (s0 s : Sys) (hw : WFConfig s0) (h : Reach s0 s) : EInv s := by
  induction h with
  | start => exact ⟨(start_inv s0 hw).pw, (start_inv s0 hw).eg⟩
  | step s pid orc _ hen ih => exact estep ih hen orc

theorem reach_admitted_nodup (s0 s : Sys) (hw : WFConfig s0) (h : Reach s0 s) : s.admitted.Nodup :=
  (reach_einv s0 s hw h).eg.admNodup

end Sys
end Topsim
