/-
  LifeCycle18 — the telescope's loop runs at every integer time and does not pass the end of an
  observation without finishing it; hence `telFinished` is stamped exactly one duration after the
  recorded start.
-/
import TopsimProofs.LifeCycle17

namespace Topsim
namespace Sys

theorem lcCast_le {a b : Nat} : ((a : Nat) : Rat) ≤ ((b : Nat) : Rat) ↔ a ≤ b := by norm_cast
theorem lcCast_succ (m : Nat) : ((m : Nat) : Rat) + 1 = (((m + 1 : Nat)) : Rat) := by norm_cast

/-! ### the loop cannot skip an observation that is due to finish -/

theorem telRun_err {n : Nat} {l : List Oid} {acc acc' : Sys × Option Err} {L : List Event}
    (h : TelRun n l acc acc' L) (he : acc.2 ≠ none) : acc'.2 = acc.2 := by
  induction h with
  | nil acc => rfl
  | cons oid l acc acc1 acc2 t L ht _ ih =>
    have h1 : acc1.2 = acc.2 := by
      cases ht with
      | quiet _ _ _ _ _ _ _ _ hpe => exact hpe he
      | start ob h0 => exact absurd h0 he
      | finish ob a h0 => exact absurd h0 he
    rw [ih (by rw [h1]; exact he), h1]

theorem telStep_frame {n : Nat} {oid : Oid} {acc acc' : Sys × Option Err} {t : List Event}
    (h : TelStep n oid acc acc' t) {o : Oid} (hne : o ≠ oid) : acc'.1.obs? o = acc.1.obs? o := by
  cases h with
  | quiet _ _ hobs => exact obs?_congr hobs o
  | start ob _ _ _ _ _ _ _ hobs => rw [lcObs?_updObs hobs (fun _ => rfl) o, if_neg hne]
  | finish ob a _ _ _ _ _ _ _ _ _ hobs => rw [lcObs?_updObs hobs (fun _ => rfl) o, if_neg hne]

/-- a run without error that visits `o`, RUNNING and a full duration past its start, finishes it -/
theorem telRun_mustFinish {n : Nat} {l : List Oid} {acc acc' : Sys × Option Err} {L : List Event}
    (hrun : TelRun n l acc acc' L) (hacct : TelAcct acc.1) (hnd : acc'.1.admitted.Nodup)
    (he : acc.2 = none) (he' : acc'.2 = none) (o : Oid) (hl : o ∈ l) {ob : Obs} {a : Nat}
    (hob : acc.1.obs? o = some ob) (hast : ob.ast = some a) (hle : a + ob.duration ≤ n)
    (hst : ob.status = .running) : obsFin acc'.1 o := by
  induction hrun with
  | nil acc => simp at hl
  | cons oid l acc acc1 acc2 t L ht hr ih =>
    have he1 : acc1.2 = none := by
      cases h1 : acc1.2 with
      | none => rfl
      | some e =>
        have := telRun_err hr (by rw [h1]; simp)
        rw [he', h1] at this; exact absurd this (by simp)
    have hnd1 : acc1.1.admitted.Nodup := by
      obtain ⟨t', ht'⟩ := telRun_admitted_prefix hr
      rw [← ht'] at hnd
      exact (List.nodup_append.mp hnd).1
    have hacct1 := hacct.telStep ht hnd1
    by_cases e : oid = o
    · subst e
      obtain ⟨hobm, hoid⟩ := obs_mem_of_obs? hob
      have hadm : ob.id ∈ acc.1.admitted := hacct.astAdm ob hobm (by rw [hast]; simp)
      have hts : acc.1.telStatus = true := hacct.stat ob hobm hadm (by rw [hst]; simp)
      cases ht with
      | quiet _ _ _ _ _ _ _ _ _ hwhy =>
        exfalso
        rcases hwhy with h1 | h1 | h1 | ⟨ob', hob', h1⟩
        · exact h1 he
        · exact h1 he1
        · rw [hob] at h1; simp at h1
        · rw [hob] at hob'; injection hob' with hob'; subst hob'
          rcases h1 with h1 | h1
          · have := (isReady_true h1).2.2
            rw [hst] at this; simp at this
          · unfold Obs.isFinishedAt at h1
            rw [hast] at h1
            simp [hle, hts, hst] at h1
      | start ob' _ _ _ hob' hw =>
        rw [hob] at hob'; injection hob' with hob'; subst hob'
        rw [hst] at hw; simp at hw
      | finish ob' a' _ _ _ hob' _ _ _ _ _ hobs =>
        apply (telRun_finished hr oid).1
        unfold obsFin
        rw [lcObs?_updObs hobs (fun _ => rfl) oid, if_pos rfl, hob]
        exact ⟨_, rfl, rfl⟩
    · have hl' : o ∈ l := by
        rcases List.mem_cons.mp hl with h | h
        · exact absurd h.symm e
        · exact h
      have hne : o ≠ oid := fun h => e h.symm
      exact ih hacct1 hnd he1 he' hl' (by rw [telStep_frame ht hne]; exact hob)

/-! ### the invariant -/

structure TelDisc (s : Sys) : Prop where
  int : ∀ q ∈ s.procs, q.k = .telescope → ∃ m : Nat, q.wake = ((m : Nat) : Time)
  due : ∀ q ∈ s.procs, q.k = .telescope → q.alive = true → ∀ ob ∈ s.obs, ∀ a, ob.ast = some a →
    ob.status ≠ .finished → q.wake ≤ (((a + ob.duration : Nat) : Nat) : Time)
  aiAst : ∀ q ∈ s.procs, ∀ o tl, q.k = .allocIngest o tl → q.pc = 0 →
    ∃ ob, s.obs? o = some ob ∧ ∃ a, ob.ast = some a ∧ q.wake = ((a : Nat) : Time)
  dur : ∀ ob ∈ s.obs, 1 ≤ ob.duration

theorem start_telDisc (s0 : Sys) (hw : WFConfig s0) : TelDisc s0.start := by
  have hp := start_procs s0 hw
  constructor
  · intro q hq hk
    rw [hp] at hq; simp only [List.mem_cons, List.not_mem_nil, or_false] at hq
    rcases hq with rfl | rfl | rfl | rfl | rfl <;> simp at hk
    exact ⟨0, by simp⟩
  · intro q _ _ _ ob hob a hast
    rw [start_obs s0] at hob
    rw [(hw.obsWaiting ob hob).2.1] at hast; simp at hast
  · intro q hq o tl hk
    rw [hp] at hq; simp only [List.mem_cons, List.not_mem_nil, or_false] at hq
    rcases hq with rfl | rfl | rfl | rfl | rfl <;> simp at hk
  · intro ob hob
    rw [start_obs s0] at hob
    exact (hw.obsWaiting ob hob).2.2.2

theorem telDisc_step {s0 s : Sys} (hw : WFConfig s0) (hr : Reach s0 s) (h : TelDisc s) {pid : Nat}
    (hen : s.enabled pid) (orc : Oracle) : TelDisc (s.resume pid orc).1 := by
  have hi := reach_einv s0 s hw hr
  have hacct := reach_telAcct hw hr
  have hacct' := reach_telAcct hw (Reach.step s pid orc hr hen)
  have hndA := reach_admitted_nodup s0 _ hw (Reach.step s pid orc hr hen)
  have hstarted := step_started s pid orc hen
  obtain ⟨p, hp, ha, hmin⟩ := hen
  obtain ⟨hpm, hpid⟩ := proc?_some hp
  obtain ⟨new, hnew, hnewp⟩ := block_newp s p orc
  have hm := resume_memSpec hi hp ha hmin orc hnew
  have hobsEq : (s.resume pid orc).1.obs = (s.block p orc).1.obs := (resume_alive s pid orc p hp ha).2.2.2.2.2.1
  have hrts := resume_telSame s pid orc p hp ha
  have hrecs := step_recs s pid orc p hp ha
  have hclsAI := allocIngest_class s hi.pw p orc
  have htag := block_tag s hi.pw p orc
  -- records persist
  have hkeep : ∀ o ob, s.obs? o = some ob → ∃ ob', (s.resume pid orc).1.obs? o = some ob' := by
    intro o ob hob
    obtain ⟨ob', h1, _⟩ := status_monotone s pid orc o ob hob
    exact ⟨ob', h1⟩
  -- a member of the record list is the record of its id
  have hmem : ∀ ob' ∈ (s.resume pid orc).1.obs, (s.resume pid orc).1.obs? ob'.id = some ob' :=
    fun ob' hob' => obs?_of_mem hacct'.nodup hob'
  -- new processes are telescopes never, supervisors only from the telescope
  have hnewTel : ∀ q ∈ new, q.k ≠ .telescope := by
    intro q hq hk
    have := (hnewp q hq).2.2.2
    rw [hk] at this
    cases hpk : p.k <;> rw [hpk] at this <;> simp [NewKind] at this
  -- durations
  have hdur : ∀ ob' ∈ (s.resume pid orc).1.obs, 1 ≤ ob'.duration := by
    intro ob' hob'
    obtain ⟨ob, hob, d, _, _⟩ := hrecs ob'.id ob' (hmem ob' hob')
    rw [d]; exact h.dur ob (obs_mem_of_obs? hob).1
  by_cases hk : p.k = .telescope
  · -- the telescope's block
    obtain ⟨m, hwm⟩ := h.int p hpm hk
    have hnat : natNow p.wake = m := by rw [hwm]; exact natNow_natCast m
    have hbk : (s.block p orc).2.1 = .telescope := by rw [block_telescope orc hk]
    -- the only telescope of the new table is the entry that ran
    have honly : ∀ q ∈ (s.resume pid orc).1.procs, q.k = .telescope →
        q = fin (s.block p orc).2.1 (s.block p orc).2.2 p.wake p := by
      intro q hq hqk
      rcases (hm q).mp hq with rfl | ⟨hq0, hne⟩ | hqn
      · rfl
      · exact absurd (hi.eg.telUniq q hq0 p hpm hqk hk) hne
      · exact absurd hqk (hnewTel q hqn)
    rcases blockEvents_telescope (s := s) orc hk with ⟨_, hb, hy, _⟩ | ⟨s0', e0, g1, g2, g3, _, g5, g6, _, hrun, hy⟩
    · -- every observation FINISHED: the loop ends
      have hobs : (s.resume pid orc).1.obs = s.obs := by rw [hobsEq, hb]
      constructor
      · intro q hq hqk
        rw [honly q hq hqk, hy]
        exact ⟨m, hwm⟩
      · intro q hq hqk hqa
        rw [honly q hq hqk, hy] at hqa
        simp [fin] at hqa
      · intro q hq o tl hqk hqc
        rcases (hm q).mp hq with rfl | ⟨hq0, _⟩ | hqn
        · simp only [fin_k] at hqk; rw [hbk] at hqk; simp at hqk
        · obtain ⟨ob, hob, a, hast, hwk⟩ := h.aiAst q hq0 o tl hqk hqc
          exact ⟨ob, by rw [obs?_congr hobs]; exact hob, a, hast, hwk⟩
        · rw [hb] at hnew
          have h2 : s.procs = s.procs ++ new := hnew
          have : new = [] := (List.append_cancel_left ((List.append_nil s.procs).trans h2)).symm
          rw [this] at hqn; simp at hqn
      · exact hdur
    · -- a run of visits
      rw [hnat] at hrun
      have h0 : TelAcct s0' :=
        ⟨by rw [g2]; exact hacct.nodup, by rw [g5, g1, g2]; exact hacct.use, by rw [g2, g1, g6]; exact hacct.stat,
         by rw [g2]; exact hacct.dem, by rw [g2, g1]; exact hacct.astAdm, by rw [g3, g1]; exact hacct.aiAdm⟩
      have hndX : (s.block p orc).1.admitted.Nodup := by rw [← hrts.admitted]; exact hndA
      have htobs := telRun_tobs hrun
      constructor
      · intro q hq hqk
        rw [honly q hq hqk]
        rcases hy with ⟨hy, _⟩ | ⟨x, hy, _⟩
        · rw [hy, fin_timeout]
          exact ⟨m + 1, by show p.wake + 1 = _; rw [hwm]; exact lcCast_succ m⟩
        · rw [hy]; exact ⟨m, hwm⟩
      · intro q hq hqk hqa ob' hob' a' hast' hst'
        rw [honly q hq hqk] at hqa ⊢
        obtain ⟨_, d, hd⟩ := fin_alive _ _ _ _ hqa
        have hyt : (s.block p orc).2.2 = .timeout 1 ∧ e0 = none := by
          rcases hy with hy | ⟨x, hy, _⟩
          · exact hy
          · rw [hy] at hd; simp at hd
        rw [hyt.1, fin_timeout]
        show p.wake + 1 ≤ _
        rw [hwm, lcCast_succ, lcCast_le]
        have hob'' := hmem ob' hob'
        rw [obs?_congr hobsEq] at hob''
        obtain ⟨ob, hob, d1, a1, s1⟩ := htobs ob'.id ob' hob''
        rw [obs?_congr g2] at hob
        obtain ⟨hobm, hoid⟩ := obs_mem_of_obs? hob
        have hd1 := hdur ob' hob'
        rcases a1 with e | ⟨e, _⟩
        · -- the start time is the old one
          have hast : ob.ast = some a' := by rw [← e]; exact hast'
          have hnf : ob.status ≠ .finished := by
            rcases s1 with e1 | ⟨e1, _⟩
            · rw [← e1]; exact hst'
            · exact absurd e1 hst'
          have hdue := h.due p hpm hk ha ob hobm a' hast hnf
          rw [hwm, lcCast_le] at hdue
          rw [d1]
          by_cases hlt : m < a' + ob.duration
          · omega
          · exfalso
            have hmeq : a' + ob.duration ≤ m := by omega
            -- not WAITING: an admitted observation has left WAITING when the telescope runs
            have hnw : ob.status ≠ .waiting := by
              intro hwt
              have hadm := hacct.astAdm ob hobm (by rw [hast]; simp)
              obtain ⟨ob2, hob2, hadm2⟩ := hi.eg.adm ob.id hadm
              rw [hoid] at hob2
              rw [hob] at hob2; injection hob2 with hob2; subst hob2
              obtain ⟨w, hw1, hwa, _, _, hlt'⟩ := hadm2 hwt
              have h1 := hlt' p hpm hk ha
              have h2 := hmin w hw1 hwa
              grind
            have hrun' : ob.status = .running := by
              cases hs : ob.status with
              | waiting => exact absurd hs hnw
              | running => rfl
              | finished => exact absurd hs hnf
            have hfin := telRun_mustFinish hrun h0 hndX rfl hyt.2 ob'.id
              (by rw [← hoid]; exact List.mem_map_of_mem hobm) (by rw [obs?_congr g2]; exact hob)
              hast hmeq hrun'
            obtain ⟨ob3, hob3, hst3⟩ := hfin
            rw [hob''] at hob3; injection hob3 with hob3; subst hob3
            exact hst' hst3
        · -- started in this block
          rw [e] at hast'; injection hast' with hast'
          omega
      · intro q hq o tl hqk hqc
        rcases (hm q).mp hq with rfl | ⟨hq0, _⟩ | hqn
        · simp only [fin_k] at hqk; rw [hbk] at hqk; simp at hqk
        · obtain ⟨ob, hob, a, hast, hwk⟩ := h.aiAst q hq0 o tl hqk hqc
          obtain ⟨ob', hob'⟩ := hkeep o ob hob
          refine ⟨ob', hob', a, ?_, hwk⟩
          have hob'' := hob'
          rw [obs?_congr hobsEq] at hob''
          obtain ⟨ob0, hob0, _, a1, _⟩ := htobs o ob' hob''
          rw [obs?_congr g2, hob] at hob0; injection hob0 with hob0; subst hob0
          rcases a1 with e | ⟨_, hmemL⟩
          · rw [e]; exact hast
          · -- `o` cannot be admitted again
            exfalso
            have hadm := hacct.aiAdm q hq0 o tl hqk
            have hc := hstarted o
            have h1 : 1 ≤ evCount o .telStarted (s.stepEvents pid orc) := by
              rw [stepEvents_alive orc hp ha]
              exact (evCount_pos_iff _ _ _).mpr ⟨_, hmemL, rfl, rfl⟩
            have h2 := List.count_pos_iff.mpr hadm
            have h3 := List.nodup_iff_count.mp hndA o
            omega
        · obtain ⟨new', e', f'⟩ := telRun_newAI hrun
          rw [g3] at e'
          have : new' = new := List.append_cancel_left (e'.symm.trans hnew)
          subst this
          obtain ⟨hmemL, _⟩ := f' q hqn o tl hqk
          obtain ⟨ob', hob', hast'⟩ := telRun_startedAst hrun o hmemL
          refine ⟨ob', by rw [obs?_congr hobsEq]; exact hob', m, hast', ?_⟩
          have := (hnewp q hqn).2.2.1
          rw [if_pos hk, hnat] at this
          exact this
      · exact hdur
  · -- any other block
    have hpk' : (s.block p orc).2.1 ≠ .telescope := by
      intro e
      rw [e] at htag
      apply hk
      cases hpk : p.k <;> rw [hpk] at htag <;> simp [PK.tag] at htag
    have hold : ∀ q ∈ (s.resume pid orc).1.procs, q.k = .telescope → q ∈ s.procs := by
      intro q hq hqk
      rcases (hm q).mp hq with rfl | ⟨hq0, _⟩ | hqn
      · simp only [fin_k] at hqk; exact absurd hqk hpk'
      · exact hq0
      · exact absurd hqk (hnewTel q hqn)
    -- the start time of a record after the step
    have hastKeep : ∀ o ob' a', (s.resume pid orc).1.obs? o = some ob' → ob'.ast = some a' →
        ∃ ob, s.obs? o = some ob ∧ ob.ast = some a' ∧ ob'.duration = ob.duration ∧
          (ob'.status ≠ .finished → ob.status ≠ .finished) := by
      intro o ob' a' hob' hast'
      obtain ⟨ob, hob, d, a1, s1⟩ := hrecs o ob' hob'
      have hnf : ob'.status ≠ .finished → ob.status ≠ .finished := by
        intro h1
        rcases s1 with e | ⟨e, _⟩ | ⟨tl, _, e, _⟩
        · rw [← e]; exact h1
        · exact absurd e hk
        · rw [e]; simp
      rcases a1 with e | ⟨e, _⟩ | ⟨tl, hpk, hpc, e⟩
      · exact ⟨ob, hob, by rw [← e]; exact hast', d, hnf⟩
      · exact absurd e hk
      · obtain ⟨ob2, hob2, a, hast2, hwk⟩ := h.aiAst p hpm o tl hpk hpc
        rw [hob] at hob2; injection hob2 with hob2; subst hob2
        have : natNow p.wake = a := by rw [hwk]; exact natNow_natCast a
        rw [e, this] at hast'
        exact ⟨ob, hob, by rw [hast2]; exact hast', d, hnf⟩
    constructor
    · intro q hq hqk
      exact h.int q (hold q hq hqk) hqk
    · intro q hq hqk hqa ob' hob' a' hast' hst'
      obtain ⟨ob, hob, hast, d, hnf⟩ := hastKeep ob'.id ob' a' (hmem ob' hob') hast'
      rw [d]
      exact h.due q (hold q hq hqk) hqk hqa ob (obs_mem_of_obs? hob).1 a' hast (hnf hst')
    · intro q hq o tl hqk hqc
      rcases (hm q).mp hq with rfl | ⟨hq0, _⟩ | hqn
      · simp at hqc
      · obtain ⟨ob, hob, a, hast, hwk⟩ := h.aiAst q hq0 o tl hqk hqc
        obtain ⟨ob', hob'⟩ := hkeep o ob hob
        refine ⟨ob', hob', a, ?_, hwk⟩
        obtain ⟨ob0, hob0, _, a1, _⟩ := hrecs o ob' hob'
        rw [hob] at hob0; injection hob0 with hob0; subst hob0
        rcases a1 with e | ⟨e, _⟩ | ⟨tl', hpk, hpc, e⟩
        · rw [e]; exact hast
        · exact absurd e hk
        · obtain ⟨ob2, hob2, a2, hast2, hwk2⟩ := h.aiAst p hpm o tl' hpk hpc
          rw [hob] at hob2; injection hob2 with hob2; subst hob2
          have : natNow p.wake = a2 := by rw [hwk2]; exact natNow_natCast a2
          rw [e, this, ← hast2]; exact hast
      · have := (hnewp q hqn).2.2.2
        rw [hqk] at this
        cases hpk : p.k <;> rw [hpk] at this <;> simp [NewKind] at this
        exact absurd hpk hk
    · exact hdur

theorem reach_telDisc {s0 s : Sys} (hw : WFConfig s0) (h : Reach s0 s) : TelDisc s := by
  induction h with
  | start => exact start_telDisc s0 hw
  | step s pid orc hr hen ih => exact telDisc_step hw hr ih hen orc

/-- `telFinished` is stamped exactly one duration after the recorded start -/
theorem step_telFinished_exact {s0 s : Sys} (hw : WFConfig s0) (hr : Reach s0 s) {pid : Nat}
    (hen : s.enabled pid) (orc : Oracle) (e : Event) (he : e ∈ s.stepEvents pid orc)
    (hk : e.kind = .telFinished) :
    ∃ ob a, s.obs? e.obs = some ob ∧ ob.ast = some a ∧ e.time = a + ob.duration := by
  have hd := reach_telDisc hw hr
  obtain ⟨p, hp, hpk, ht, hnf, _, ob, hob, hor⟩ := step_telFinished hen orc e he hk
  obtain ⟨p', hp', ha, _⟩ := hen
  rw [hp] at hp'; injection hp' with hp'; subst hp'
  have hdur := reach_durPos hw hr e.obs ob hob
  rcases hor with ⟨a, hast, hle⟩ | ⟨hle, _⟩
  · refine ⟨ob, a, hob, hast, ?_⟩
    obtain ⟨m, hwm⟩ := hd.int p (proc?_some hp).1 hpk
    have hnat : natNow p.wake = m := by rw [hwm]; exact natNow_natCast m
    have hdue := hd.due p (proc?_some hp).1 hpk ha ob (obs_mem_of_obs? hob).1 a hast
      (fun hst => hnf ⟨ob, hob, hst⟩)
    rw [hwm, lcCast_le] at hdue
    rw [ht, hnat] at hle ⊢
    omega
  · omega

end Sys
end Topsim
