/-
  BoundP6 — (plan-following algorithms; the counterpart of Bound6) timed liveness of the
  workflow-task workers (part 1): the arithmetic that differs.  The occupancy bound `boundP_tw_R` of
  a task id is `boundP_Rt` of its node: the runtime on the slowest machine, or the planned duration
  when the node has no work.  (The folds, the slowest machine, `ceilDiv`, the transfer wait and
  `bound_tw_W` are those of Bound6.)
-/
import TopsimProofs.BoundP3
import TopsimProofs.BoundP2

namespace Topsim

open KState Sys

/-- the nominal duration of a record on a machine: at most the runtime of its work on the slowest
machine when it carries work, its planned duration (at most `D`) otherwise -/
theorem boundP_tw_nominal_le {flops data cpu bw planned sc sb dur D : Nat} (hsc : 0 < sc) (hsb : 0 < sb)
    (hc : sc ≤ cpu) (hb : sb ≤ bw) (h0 : flops = 0 → data = 0 → planned ≤ D)
    (h : nominalDuration flops data cpu bw planned = .ok dur) :
    dur ≤ max (max (flops / sc) (data / sb)) (if flops = 0 ∧ data = 0 then D else 0) := by
  unfold nominalDuration at h
  split at h
  · unfold calculateRuntime at h
    split at h
    · cases h
    · injection h with h
      rw [← h]
      have := bound_tw_runtime_le (flops := flops) (data := data) hsc hsb hc hb
      omega
  · rename_i hw
    injection h with h
    have hz : flops = 0 ∧ data = 0 := ⟨by omega, by omega⟩
    have := h0 hz.1 hz.2
    rw [if_pos hz, ← h]
    omega

/-! ### the bounds of a task id -/

/-- the occupancy bound of a workflow task: `boundP_Rt` of its node -/
def boundP_tw_R (env : SimEnv) (s0 : Sys) (t : Tid) : Nat :=
  match t with
  | .wf o _ node =>
    match s0.obs? o with
    | some ob => boundP_Rt env s0 ob node
    | none => 1
  | _ => 1

theorem boundP_tw_R_pos (env : SimEnv) (s0 : Sys) (t : Tid) : 1 ≤ boundP_tw_R env s0 t := by
  unfold boundP_tw_R
  split
  · split
    · unfold boundP_Rt boundRt; omega
    · exact Nat.le_refl _
  · exact Nat.le_refl _

theorem boundP_tw_R_wf {env : SimEnv} {s0 : Sys} {ob : Obs} (h : s0.obs? ob.id = some ob) (c node : Nat) :
    boundP_tw_R env s0 (.wf ob.id c node) = boundP_Rt env s0 ob node := by
  simp only [boundP_tw_R, h]

end Topsim
