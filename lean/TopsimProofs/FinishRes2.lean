/-
  FinishRes2 — reservations under `allocBegin` / `allocEnd`.
-/
import TopsimProofs.FinishRes1

namespace Topsim
namespace Sys

open Cluster

theorem KeyNE.mono_runOn {c c' : Cluster} (h : KeyNE c) (hi : c'.idle = c.idle)
    (hr : ∀ e ∈ c.runOn, e.ing = false → e ∈ c'.runOn) : KeyNE c' := by
  intro o l hl
  rw [hi] at hl
  rcases h o l hl with h1 | ⟨e, he, h2, h3⟩
  · exact Or.inl h1
  · exact Or.inr ⟨e, hr e he h3, h2, h3⟩

theorem allocBegin_key (c : Cluster) (t : Tid) (m : Mid) (obs : Option Oid) (ing : Bool) (h : KeyNE c) :
    KeyNE (c.allocBegin t m obs ing).1 ∧
    ∀ x ∈ dictKeys (c.allocBegin t m obs ing).1.idle, x ∈ dictKeys c.idle := by
  unfold allocBegin
  by_cases ht : t ∈ c.running
  · simp only [ht, if_true]; exact ⟨h, fun _ hx => hx⟩
  · simp only [ht, if_false]
    cases ing with
    | true =>
      simp only [if_true]
      split
      · exact ⟨h, fun _ hx => hx⟩
      · exact ⟨h.mono_runOn rfl (fun e he _ => List.mem_append_left _ he), fun _ hx => hx⟩
    | false =>
      simp only [Bool.false_eq_true, if_false]
      split
      · exact ⟨h, fun _ hx => hx⟩
      · unfold setMachineOccupied
        by_cases hm : m ∈ c.available
        · simp only [hm, if_true]
          exact ⟨h.mono_runOn rfl (fun e he _ => List.mem_append_left _ he), fun _ hx => hx⟩
        · simp only [hm, if_false]
          cases obs with
          | none =>
            simp only
            exact ⟨h.mono_runOn rfl (fun e he _ => List.mem_append_left _ he), fun _ hx => hx⟩
          | some o =>
            simp only
            cases hg : dictGet c.idle o with
            | none =>
              simp only
              exact ⟨h.mono_runOn rfl (fun e he _ => List.mem_append_left _ he), fun _ hx => hx⟩
            | some l =>
              simp only
              by_cases hml : m ∈ l
              · simp only [hml, if_true]
                refine ⟨?_, ?_⟩
                · intro o' l' hl'
                  simp only at hl'
                  rw [dictGet_dictSet] at hl'
                  by_cases e : o = o'
                  · subst e
                    right
                    exact ⟨⟨t, m, some o, false⟩, by simp, rfl, rfl⟩
                  · rw [if_neg e] at hl'
                    rcases h o' l' hl' with h1 | ⟨e0, he0, h2, h3⟩
                    · exact Or.inl h1
                    · exact Or.inr ⟨e0, List.mem_append_left _ he0, h2, h3⟩
                · intro x hx
                  rw [dictKeys_dictSet_of_mem _ _ _ (mem_dictKeys_of_get hg)] at hx
                  exact hx
              · simp only [hml, if_false]
                exact ⟨h, fun _ hx => hx⟩

theorem KeyNE.erase {c c' : Cluster} (h : KeyNE c) (e : RunEntry) (hi : c'.idle = c.idle)
    (hr : c'.runOn = c.runOn.erase e)
    (hne : ∀ o l, e.obs = some o → e.ing = false → dictGet c.idle o = some l → l ≠ []) : KeyNE c' := by
  intro o l hl
  rw [hi] at hl
  rcases h o l hl with h1 | ⟨e0, he0, h2, h3⟩
  · exact Or.inl h1
  · by_cases ee : e0 = e
    · subst ee
      exact Or.inl (hne o l h2 h3 hl)
    · exact Or.inr ⟨e0, by rw [hr]; exact (List.mem_erase_of_ne ee).mpr he0, h2, h3⟩

theorem allocEnd_key (c : Cluster) (t : Tid) (m : Mid) (obs : Option Oid) (ing : Bool) (h : KeyNE c) :
    KeyNE (c.allocEnd t m obs ing).1 ∧
    ∀ x ∈ dictKeys (c.allocEnd t m obs ing).1.idle, x ∈ dictKeys c.idle := by
  unfold allocEnd
  by_cases ht : t ∈ c.running
  · simp only [ht, if_true]
    cases ing with
    | true =>
      simp only [if_true]
      split
      · exact ⟨h.erase ⟨t, m, obs, true⟩ rfl rfl (fun _ _ _ hh => by simp at hh), fun _ hx => hx⟩
      · exact ⟨h.mono_runOn rfl (fun e he _ => he), fun _ hx => hx⟩
    | false =>
      simp only [Bool.false_eq_true, if_false]
      unfold setMachineAvailable
      simp only
      by_cases hmo : m ∈ c.occupied
      · simp only [hmo, if_true]
        cases obs with
        | none =>
          simp only
          exact ⟨h.erase ⟨t, m, none, false⟩ rfl rfl (fun _ _ hh => by simp at hh), fun _ hx => hx⟩
        | some o =>
          simp only
          cases hg : dictGet c.idle o with
          | none =>
            simp only
            refine ⟨h.erase ⟨t, m, some o, false⟩ rfl rfl ?_, fun _ hx => hx⟩
            intro o' l' ho' _ hl'
            simp only [Option.some.injEq] at ho'
            subst ho'
            rw [hg] at hl'; exact absurd hl' (by simp)
          | some l =>
            simp only
            refine ⟨?_, ?_⟩
            · intro o' l' hl'
              simp only at hl'
              rw [dictGet_dictSet] at hl'
              by_cases e : o = o'
              · rw [if_pos e] at hl'
                injection hl' with hl'
                left; rw [← hl']; simp
              · rw [if_neg e] at hl'
                rcases h o' l' hl' with h1 | ⟨e0, he0, h2, h3⟩
                · exact Or.inl h1
                · refine Or.inr ⟨e0, (List.mem_erase_of_ne ?_).mpr he0, h2, h3⟩
                  intro hh
                  rw [hh] at h2
                  simp only [Option.some.injEq] at h2
                  exact e h2
            · intro x hx
              rw [dictKeys_dictSet_of_mem _ _ _ (mem_dictKeys_of_get hg)] at hx
              exact hx
      · simp only [hmo, if_false]
        exact ⟨h.mono_runOn rfl (fun e he _ => he), fun _ hx => hx⟩
  · simp only [ht, if_false]; exact ⟨h, fun _ hx => hx⟩

end Sys
end Topsim
