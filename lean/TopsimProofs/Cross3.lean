/-
  Cross3 — the invariant `CrossCX`: the tables of allocations kept by the `allocate_tasks`
  processes record, for every workflow task that has an allocation process or a body,
  the machine of that process / body; and the cross-machine list handed to an
  allocation process or a body of task `t` on machine `m` consists EXACTLY of the
  predecessors of `t` whose body ran on a machine other than `m` (every other
  predecessor has a body on `m` itself).  Preservation by the blocks other than those
  of `allocate_tasks`.
-/
import TopsimProofs.Cross2

namespace Topsim
namespace Sys

open Cluster

/-- task `x` has a body (live or ended) on a machine satisfying `P` -/
def CrossRan (s : Sys) (x : Tid) (P : Mid → Prop) : Prop :=
  ∃ d ∈ s.procs, ∃ m' c ph tot, d.k = .doWork x m' c ph tot ∧ P m'

/-- the list `cross` handed over for task `t` on machine `m`: predecessors of `t`; a predecessor
in the list has a body on another machine, a predecessor not in the list has a body on `m` -/
def CrossEx (s : Sys) (t : Tid) (m : Mid) (cross : List Tid) : Prop :=
  ∃ r, s.task? t = some r ∧ (∀ x ∈ cross, x ∈ r.preds) ∧
    ∀ x ∈ r.preds, (x ∈ cross → CrossRan s x (· ≠ m)) ∧ (x ∉ cross → CrossRan s x (· = m))

/-- every body of `s` is still there (same task, machine, list) in `Y` -/
def CrossKeepDW (s Y : Sys) : Prop :=
  ∀ d ∈ s.procs, ∀ x m c ph tot, d.k = .doWork x m c ph tot →
    ∃ d' ∈ Y.procs, ∃ ph' tot', d'.k = .doWork x m c ph' tot'

theorem CrossRan.mono {s Y : Sys} {x : Tid} {P : Mid → Prop} (h : CrossRan s x P) (hk : CrossKeepDW s Y) :
    CrossRan Y x P := by
  obtain ⟨d, hd, m', c, ph, tot, hdk, hp⟩ := h
  obtain ⟨d', hd', ph', tot', hdk'⟩ := hk d hd x m' c ph tot hdk
  exact ⟨d', hd', m', c, ph', tot', hdk', hp⟩

theorem CrossEx.mono {s Y : Sys} {t : Tid} {m : Mid} {cross : List Tid} (h : CrossEx s t m cross)
    (hT : TaskStepS s Y) (hk : CrossKeepDW s Y) : CrossEx Y t m cross := by
  obtain ⟨r, hr, h1, h2⟩ := h
  obtain ⟨r', hr', hs⟩ := hT.fwd t r hr
  refine ⟨r', hr', ?_, ?_⟩
  · intro x hx; rw [hs.preds]; exact h1 x hx
  · intro x hx
    rw [hs.preds] at hx
    exact ⟨fun hc => ((h2 x hx).1 hc).mono hk, fun hc => ((h2 x hx).2 hc).mono hk⟩

structure CrossCX (s : Sys) : Prop where
  /-- an entry of a table belongs to a task that has an allocation process -/
  paWit : ∀ P ∈ s.procs, ∀ o sc pa po fn, P.k = .allocTasks o sc pa po fn → ∀ x mx, dictGet pa x = some mx →
    ∃ q ∈ s.procs, ∃ m' c ob ret, q.k = .allocTask x m' c ob false ret
  /-- no table disagrees with the machine of an allocation process -/
  paAT : ∀ P ∈ s.procs, ∀ o sc pa po fn, P.k = .allocTasks o sc pa po fn → ∀ q ∈ s.procs, ∀ x m' c ob ret,
    q.k = .allocTask x m' c ob false ret → ∀ mx, dictGet pa x = some mx → mx = m'
  /-- no table disagrees with the machine of the body of a workflow task -/
  paDW : ∀ P ∈ s.procs, ∀ o sc pa po fn, P.k = .allocTasks o sc pa po fn → ∀ d ∈ s.procs, ∀ x m' c ph tot,
    d.k = .doWork x m' c ph tot → IsWf x → ∀ mx, dictGet pa x = some mx → mx = m'
  /-- the machine of a scheduler-side allocation process is in the table of its observation -/
  atTab : ∀ q ∈ s.procs, ∀ x m' c ob ret, q.k = .allocTask x m' c ob false ret →
    ∃ o, ob = some o ∧ ∃ P ∈ s.procs, ∃ sc pa po fn, P.k = .allocTasks o sc pa po fn ∧ dictGet pa x = some m'
  /-- the machine of the body of a workflow task is in a table -/
  dwTab : ∀ d ∈ s.procs, ∀ x m' c ph tot, d.k = .doWork x m' c ph tot → IsWf x →
    ∃ P ∈ s.procs, ∃ o sc pa po fn, P.k = .allocTasks o sc pa po fn ∧ dictGet pa x = some m'
  atCross : ∀ q ∈ s.procs, ∀ t m cross ob ret, q.k = .allocTask t m cross ob false ret → CrossEx s t m cross
  dwCross : ∀ d ∈ s.procs, ∀ t m cross ph tot, d.k = .doWork t m cross ph tot → IsWf t → CrossEx s t m cross

theorem CrossCX.core {a b : Sys} (h : CrossCX a) (e : Core8 a b) : CrossCX b := by
  have hT : TaskStepS a b := TaskStepR.of_eq TShape.refl e.tasks
  have hk : CrossKeepDW a b := fun d hd x m c ph tot hdk => ⟨d, by rw [e.procs]; exact hd, ph, tot, hdk⟩
  constructor
  · rw [e.procs]; exact h.paWit
  · rw [e.procs]; exact h.paAT
  · rw [e.procs]; exact h.paDW
  · rw [e.procs]; exact h.atTab
  · rw [e.procs]; exact h.dwTab
  · rw [e.procs]; intro q hq t m cross ob ret hqk
    exact (h.atCross q hq t m cross ob ret hqk).mono hT hk
  · rw [e.procs]; intro d hd t m cross ph tot hdk hw
    exact (h.dwCross d hd t m cross ph tot hdk hw).mono hT hk

/-- the generic step: no table changes, no scheduler-side allocation process is created, and the
body of a workflow task is created only by its allocation process (same machine, same list) -/
theorem CrossCX.quiet {s Y : Sys} (h : CrossCX s) (hT : TaskStepS s Y)
    (keepAT : ∀ q ∈ s.procs, ∀ x m c ob ret, q.k = .allocTask x m c ob false ret →
      ∃ q' ∈ Y.procs, ∃ ret', q'.k = .allocTask x m c ob false ret')
    (keepDW : CrossKeepDW s Y)
    (keepTs : ∀ P ∈ s.procs, ∀ o sc pa po fn, P.k = .allocTasks o sc pa po fn →
      ∃ P' ∈ Y.procs, ∃ sc' po' fn', P'.k = .allocTasks o sc' pa po' fn')
    (backTs : ∀ P' ∈ Y.procs, ∀ o sc' pa po' fn', P'.k = .allocTasks o sc' pa po' fn' →
      pa = [] ∨ ∃ P ∈ s.procs, ∃ sc po fn, P.k = .allocTasks o sc pa po fn)
    (backAT : ∀ q' ∈ Y.procs, ∀ x m c ob ret', q'.k = .allocTask x m c ob false ret' →
      ∃ q ∈ s.procs, ∃ ret, q.k = .allocTask x m c ob false ret)
    (backDW : ∀ d' ∈ Y.procs, ∀ x m c ph' tot', d'.k = .doWork x m c ph' tot' → IsWf x →
      (∃ d ∈ s.procs, ∃ ph tot, d.k = .doWork x m c ph tot) ∨
      (∃ q ∈ s.procs, ∃ ob ret, q.k = .allocTask x m c ob false ret)) : CrossCX Y := by
  constructor
  · intro P' hP' o sc' pa po' fn' hk x mx hg
    rcases backTs P' hP' o sc' pa po' fn' hk with e | ⟨P, hP, sc, po, fn, hPk⟩
    · rw [e, cross_dictGet_nil] at hg; exact absurd hg (by simp)
    · obtain ⟨q, hq, m', c, ob, ret, hqk⟩ := h.paWit P hP o sc pa po fn hPk x mx hg
      obtain ⟨q', hq', ret', hqk'⟩ := keepAT q hq x m' c ob ret hqk
      exact ⟨q', hq', m', c, ob, ret', hqk'⟩
  · intro P' hP' o sc' pa po' fn' hk q' hq' x m' c ob ret' hqk' mx hg
    rcases backTs P' hP' o sc' pa po' fn' hk with e | ⟨P, hP, sc, po, fn, hPk⟩
    · rw [e, cross_dictGet_nil] at hg; exact absurd hg (by simp)
    · obtain ⟨q, hq, ret, hqk⟩ := backAT q' hq' x m' c ob ret' hqk'
      exact h.paAT P hP o sc pa po fn hPk q hq x m' c ob ret hqk mx hg
  · intro P' hP' o sc' pa po' fn' hk d' hd' x m' c ph' tot' hdk' hw mx hg
    rcases backTs P' hP' o sc' pa po' fn' hk with e | ⟨P, hP, sc, po, fn, hPk⟩
    · rw [e, cross_dictGet_nil] at hg; exact absurd hg (by simp)
    · rcases backDW d' hd' x m' c ph' tot' hdk' hw with ⟨d, hd, ph, tot, hdk⟩ | ⟨q, hq, ob, ret, hqk⟩
      · exact h.paDW P hP o sc pa po fn hPk d hd x m' c ph tot hdk hw mx hg
      · exact h.paAT P hP o sc pa po fn hPk q hq x m' c ob ret hqk mx hg
  · intro q' hq' x m' c ob ret' hqk'
    obtain ⟨q, hq, ret, hqk⟩ := backAT q' hq' x m' c ob ret' hqk'
    obtain ⟨o, ho, P, hP, sc, pa, po, fn, hPk, hg⟩ := h.atTab q hq x m' c ob ret hqk
    obtain ⟨P', hP', sc', po', fn', hPk'⟩ := keepTs P hP o sc pa po fn hPk
    exact ⟨o, ho, P', hP', sc', pa, po', fn', hPk', hg⟩
  · intro d' hd' x m' c ph' tot' hdk' hw
    rcases backDW d' hd' x m' c ph' tot' hdk' hw with ⟨d, hd, ph, tot, hdk⟩ | ⟨q, hq, ob, ret, hqk⟩
    · obtain ⟨P, hP, o, sc, pa, po, fn, hPk, hg⟩ := h.dwTab d hd x m' c ph tot hdk hw
      obtain ⟨P', hP', sc', po', fn', hPk'⟩ := keepTs P hP o sc pa po fn hPk
      exact ⟨P', hP', o, sc', pa, po', fn', hPk', hg⟩
    · obtain ⟨o, _, P, hP, sc, pa, po, fn, hPk, hg⟩ := h.atTab q hq x m' c ob ret hqk
      obtain ⟨P', hP', sc', po', fn', hPk'⟩ := keepTs P hP o sc pa po fn hPk
      exact ⟨P', hP', o, sc', pa, po', fn', hPk', hg⟩
  · intro q' hq' t m cross ob ret' hqk'
    obtain ⟨q, hq, ret, hqk⟩ := backAT q' hq' t m cross ob ret' hqk'
    exact (h.atCross q hq t m cross ob ret hqk).mono hT keepDW
  · intro d' hd' t m cross ph' tot' hdk' hw
    rcases backDW d' hd' t m cross ph' tot' hdk' hw with ⟨d, hd, ph, tot, hdk⟩ | ⟨q, hq, ob, ret, hqk⟩
    · exact (h.dwCross d hd t m cross ph tot hdk hw).mono hT keepDW
    · exact (h.atCross q hq t m cross ob ret hqk).mono hT keepDW

/-! ### membership in the process table after one block -/

theorem cross_old_mem {s : Sys} (hs : SInv s) {p : Proc} (hp : p ∈ s.procs) (ha : p.alive = true)
    (hmin : ∀ q ∈ s.procs, q.alive = true → p.wake ≤ q.wake) (orc : Oracle) (g : Proc → Proc)
    {q : Proc} (hq : q ∈ s.procs) (hne : q.pid ≠ p.pid) : q ∈ ((s.block p orc).1.updProc p.pid g).procs := by
  obtain ⟨hpre, hpwX⟩ := block_pre_str hs.pw hs.eg hp ha hmin orc
  exact (mem_updProc_iff hpwX (hpre.subset hp) g q).mpr (Or.inr ⟨hpre.subset hq, hne⟩)

theorem cross_self_mem {s : Sys} (hs : SInv s) {p : Proc} (hp : p ∈ s.procs) (ha : p.alive = true)
    (hmin : ∀ q ∈ s.procs, q.alive = true → p.wake ≤ q.wake) (orc : Oracle) (g : Proc → Proc) :
    g p ∈ ((s.block p orc).1.updProc p.pid g).procs := by
  obtain ⟨hpre, hpwX⟩ := block_pre_str hs.pw hs.eg hp ha hmin orc
  exact (mem_updProc_iff hpwX (hpre.subset hp) g (g p)).mpr (Or.inl rfl)

theorem cross_new_mem {s : Sys} (hs : SInv s) {p : Proc} (hp : p ∈ s.procs) (ha : p.alive = true)
    (hmin : ∀ q ∈ s.procs, q.alive = true → p.wake ≤ q.wake) (orc : Oracle) (g : Proc → Proc)
    {q : Proc} (hq : q ∈ (s.block p orc).1.procs) (hne : q.k.tag ≠ p.k.tag) :
    q ∈ ((s.block p orc).1.updProc p.pid g).procs := by
  obtain ⟨hpre, hpwX⟩ := block_pre_str hs.pw hs.eg hp ha hmin orc
  refine (mem_updProc_iff hpwX (hpre.subset hp) g q).mpr (Or.inr ⟨hq, ?_⟩)
  intro e
  have : q = p := hpwX.eq_of_pid hq (hpre.subset hp) e
  rw [this] at hne
  exact hne rfl

/-- a block whose process keeps its parameters, that changes no table and creates bodies of
workflow tasks only for its own allocation -/
theorem cross_cx_step_simple {s : Sys} (h : CrossCX s) (hs : SInv s) {p : Proc} (hp : p ∈ s.procs) (ha : p.alive = true)
    (hmin : ∀ q ∈ s.procs, q.alive = true → p.wake ≤ q.wake) (orc : Oracle)
    (htel : p.k = .telescope → ((natNow p.wake : Nat) : Time) = p.wake)
    (hT : TaskStepS s (s.block p orc).1)
    (hAT : ∀ x m c ob ing ret, p.k = .allocTask x m c ob ing ret →
      ∃ ret', (s.block p orc).2.1 = .allocTask x m c ob ing ret')
    (hDW : ∀ x m c ph tot, p.k = .doWork x m c ph tot → ∃ ph' tot', (s.block p orc).2.1 = .doWork x m c ph' tot')
    (hTs : ∀ o sc pa po fn, p.k = .allocTasks o sc pa po fn →
      ∃ sc' po' fn', (s.block p orc).2.1 = .allocTasks o sc' pa po' fn')
    (hAT' : ∀ x m c ob ing ret', (s.block p orc).2.1 = .allocTask x m c ob ing ret' →
      ∃ ret, p.k = .allocTask x m c ob ing ret)
    (hDW' : ∀ x m c ph' tot', (s.block p orc).2.1 = .doWork x m c ph' tot' → ∃ ph tot, p.k = .doWork x m c ph tot)
    (hTs' : ∀ o sc' pa po' fn', (s.block p orc).2.1 = .allocTasks o sc' pa po' fn' →
      ∃ sc po fn, p.k = .allocTasks o sc pa po fn)
    (hnew : ∀ q ∈ (s.block p orc).1.procs, q ∉ s.procs →
      (∀ x m c ob ret, q.k ≠ .allocTask x m c ob false ret) ∧
      (∀ o sc pa po fn, q.k = .allocTasks o sc pa po fn → pa = []) ∧
      (∀ x m c ph tot, q.k = .doWork x m c ph tot → IsWf x → ∃ ob ret, p.k = .allocTask x m c ob false ret)) :
    CrossCX ((s.block p orc).1.updProc p.pid (fin (s.block p orc).2.1 (s.block p orc).2.2 p.wake)) := by
  have hpc := resume_procs hs hp ha hmin orc htel
  have hold := fun {q : Proc} (hq : q ∈ s.procs) (hne : q.pid ≠ p.pid) =>
    cross_old_mem hs hp ha hmin orc (fin (s.block p orc).2.1 (s.block p orc).2.2 p.wake) hq hne
  have hself := cross_self_mem hs hp ha hmin orc (fin (s.block p orc).2.1 (s.block p orc).2.2 p.wake)
  have hpid : ∀ {q : Proc}, q ∈ s.procs → q.pid = p.pid → q = p := fun hq e => hs.pw.eq_of_pid hq hp e
  refine h.quiet (hT.of_tasks_eq rfl) ?_ ?_ ?_ ?_ ?_ ?_
  · intro q hq x m c ob ret hqk
    by_cases e : q.pid = p.pid
    · have := hpid hq e; subst this
      obtain ⟨ret', hk'⟩ := hAT x m c ob false ret hqk
      exact ⟨_, hself, ret', by rw [fin_k]; exact hk'⟩
    · exact ⟨q, hold hq e, ret, hqk⟩
  · intro d hd x m c ph tot hdk
    by_cases e : d.pid = p.pid
    · have := hpid hd e; subst this
      obtain ⟨ph', tot', hk'⟩ := hDW x m c ph tot hdk
      exact ⟨_, hself, ph', tot', by rw [fin_k]; exact hk'⟩
    · exact ⟨d, hold hd e, ph, tot, hdk⟩
  · intro P hP o sc pa po fn hPk
    by_cases e : P.pid = p.pid
    · have := hpid hP e; subst this
      obtain ⟨sc', po', fn', hk'⟩ := hTs o sc pa po fn hPk
      exact ⟨_, hself, sc', po', fn', by rw [fin_k]; exact hk'⟩
    · exact ⟨P, hold hP e, sc, po, fn, hPk⟩
  · intro P' hP' o sc' pa po' fn' hPk'
    rcases hpc P' hP' with rfl | ⟨h1, _⟩ | ⟨h1, h2, _⟩
    · rw [fin_k] at hPk'
      obtain ⟨sc, po, fn, hk⟩ := hTs' o sc' pa po' fn' hPk'
      exact Or.inr ⟨p, hp, sc, po, fn, hk⟩
    · exact Or.inr ⟨P', h1, sc', po', fn', hPk'⟩
    · exact Or.inl ((hnew P' h1 h2).2.1 o sc' pa po' fn' hPk')
  · intro q' hq' x m c ob ret' hqk'
    rcases hpc q' hq' with rfl | ⟨h1, _⟩ | ⟨h1, h2, _⟩
    · rw [fin_k] at hqk'
      obtain ⟨ret, hk⟩ := hAT' x m c ob false ret' hqk'
      exact ⟨p, hp, ret, hk⟩
    · exact ⟨q', h1, ret', hqk'⟩
    · exact absurd hqk' ((hnew q' h1 h2).1 x m c ob ret')
  · intro d' hd' x m c ph' tot' hdk' hw
    rcases hpc d' hd' with rfl | ⟨h1, _⟩ | ⟨h1, h2, _⟩
    · rw [fin_k] at hdk'
      obtain ⟨ph, tot, hk⟩ := hDW' x m c ph' tot' hdk'
      exact Or.inl ⟨p, hp, ph, tot, hk⟩
    · exact Or.inl ⟨d', h1, ph', tot', hdk'⟩
    · obtain ⟨ob, ret, hk⟩ := (hnew d' h1 h2).2.2 x m c ph' tot' hdk' hw
      exact Or.inr ⟨p, hp, ob, ret, hk⟩

/-! ### the three kinds of block -/

/-- a harmless block creates an `allocate_tasks` process only with the empty table -/
theorem cross_block_new_pairs (s : Sys) (p : Proc) (orc : Oracle) (h2 : p.k.tag ≠ "allocTask")
    (h3 : p.k.tag ≠ "doWork") (h4 : p.k.tag ≠ "allocTasks") :
    ∀ q ∈ (s.block p orc).1.procs, q ∉ s.procs → ∀ o sc pa po fn, q.k = .allocTasks o sc pa po fn → pa = [] := by
  intro q hq hn o sc pa po fn hqk
  by_cases h1 : p.k.tag = "schedLoop"
  · cases hk : p.k with
    | schedLoop =>
      have hb : s.block p orc = ((s.schedLoopBlock p.wake orc).1, p.k, (s.schedLoopBlock p.wake orc).2) := by
        unfold block; simp only [hk]
      rw [hb] at hq
      rcases schedLoopBlock_buf s p.wake orc with ⟨_, _, _, _, hprocs⟩ |
        ⟨oid, ob, recs, plan, _, _, _, _, _, _, hq'⟩
      · rw [hprocs] at hq; exact absurd hq hn
      · rcases hq' with ⟨_, _, hprocs⟩ | ⟨_, _, hprocs⟩
        · rw [hprocs] at hq; exact absurd hq hn
        · have := mem_new_of_append hprocs hq hn
          simp only [List.mem_singleton] at this
          subst this
          simp only [PK.allocTasks.injEq] at hqk
          exact hqk.2.2.1.symm
    | _ => rw [hk] at h1; simp [PK.tag] at h1
  · have := block_new_notSched s p orc h1 h2 h3 h4 q hq hn
    rw [hqk] at this
    exact absurd rfl this

theorem cross_cx_harmless {s : Sys} (h : CrossCX s) (hpr : PR s) (hs : SInv s) (hno : s.alg ≠ .oracle) {p : Proc}
    (hp : p ∈ s.procs) (ha : p.alive = true) (hmin : ∀ q ∈ s.procs, q.alive = true → p.wake ≤ q.wake)
    (orc : Oracle) (h2 : p.k.tag ≠ "allocTask") (h3 : p.k.tag ≠ "doWork") (h4 : p.k.tag ≠ "allocTasks") :
    CrossCX ((s.block p orc).1.updProc p.pid (fin (s.block p orc).2.1 (s.block p orc).2.2 p.wake)) := by
  obtain ⟨hT, _⟩ := block_taskStep s p orc hno h2 h3
  have htag := block_tag s hs.pw p orc
  have htel : p.k = .telescope → ((natNow p.wake : Nat) : Time) = p.wake := by
    intro hk
    obtain ⟨n, hn⟩ := hpr.telNat p hp hk
    rw [hn, natNow_natCast]
  refine cross_cx_step_simple h hs hp ha hmin orc htel hT.toS ?_ ?_ ?_ ?_ ?_ ?_ ?_
  · intro x m c ob ing ret e; rw [e] at h2; exact absurd rfl h2
  · intro x m c ph tot e; rw [e] at h3; exact absurd rfl h3
  · intro o sc pa po fn e; rw [e] at h4; exact absurd rfl h4
  · intro x m c ob ing ret' e; rw [e] at htag; exact absurd htag.symm h2
  · intro x m c ph' tot' e; rw [e] at htag; exact absurd htag.symm h3
  · intro o sc' pa po' fn' e; rw [e] at htag; exact absurd htag.symm h4
  · intro q hq hn
    have hh := block_new_harmless s p orc h2 h3 h4 q hq hn
    refine ⟨hh.2.2.2, cross_block_new_pairs s p orc h2 h3 h4 q hq hn, ?_⟩
    intro x m c ph tot e
    exact absurd (by rw [e]; rfl) hh.2.1

theorem cross_cx_allocTask {s : Sys} (h : CrossCX s) (hs : SInv s) {p : Proc}
    (hp : p ∈ s.procs) (ha : p.alive = true) (hmin : ∀ q ∈ s.procs, q.alive = true → p.wake ≤ q.wake)
    (orc : Oracle) {t m preds obs ing ret} (hk : p.k = .allocTask t m preds obs ing ret) :
    CrossCX ((s.block p orc).1.updProc p.pid (fin (s.block p orc).2.1 (s.block p orc).2.2 p.wake)) := by
  have hpw := hs.pw
  obtain ⟨U, hU⟩ := hs.ci
  have hb : s.block p orc = s.allocTaskBlock p.wake t m preds obs ing ret := by
    unfold block; simp only [hk]
  have htel : p.k = .telescope → ((natNow p.wake : Nat) : Time) = p.wake := by
    intro e; rw [hk] at e; exact absurd e (by simp)
  have hkind : ∃ ret', (s.block p orc).2.1 = .allocTask t m preds obs ing ret' := by
    rw [hb]
    rcases allocTaskBlock_cases s hpw p.wake t m preds obs ing ret with
      ⟨_, e, _, heq⟩ | ⟨_, _, heq⟩ | ⟨_, _, heq⟩ | ⟨_, _, e, _, heq⟩ | ⟨_, _, _, heq⟩ <;> rw [heq] <;>
      exact ⟨_, rfl⟩
  obtain ⟨ret', hk'⟩ := hkind
  -- records: shape kept; new processes: the body of the own task
  have hfacts : TaskStepS s (s.block p orc).1 ∧ ∀ q ∈ (s.block p orc).1.procs, q ∉ s.procs →
      q.k = .doWork t m preds 0 0 ∧ (ing = true → t.isIngest = true) := by
    rcases allocTaskBlock_cases s hpw p.wake t m preds obs ing ret with
      ⟨_, e, _, heq⟩ | ⟨hnr', hok, heq⟩ | ⟨_, _, heq⟩ | ⟨_, _, e, _, heq⟩ | ⟨hr, htr, hok, heq⟩
    · rw [hb, heq]
      exact ⟨TaskStepR.of_eq TShape.refl rfl, fun q hq hn => absurd hq hn⟩
    · rw [hb, heq]
      refine ⟨?_, ?_⟩
      · have x := TaskStepR.updTask (R := TShape) TShape.refl
          ({ s with cl := (s.cl.allocBegin t m obs ing).1 } : Sys) t
          (fun r => { r with status := .scheduled }) (fun _ => rfl) (fun r _ => ⟨rfl, rfl, rfl⟩)
        have y := TaskStepR.of_src_eq (s := s) x rfl
        exact TaskStepR.of_tasks_eq y rfl
      · intro q hq hn
        simp only [spawn_procs, updTask_procs, List.mem_append, List.mem_singleton] at hq
        rcases hq with h1 | h1
        · exact absurd h1 hn
        · subst h1
          refine ⟨rfl, ?_⟩
          intro e
          subst e
          have hpc0 := hU.pc_zero hp ha hk hnr'
          exact hU.inv.pendTask _ (hU.pend p hp ha t m preds obs ret hk hpc0)
    · rw [hb, heq]
      exact ⟨TaskStepR.of_eq TShape.refl rfl, fun q hq hn => absurd hq hn⟩
    · rw [hb, heq]
      exact ⟨TaskStepR.of_eq TShape.refl rfl, fun q hq hn => absurd hq hn⟩
    · rw [hb, heq]
      refine ⟨?_, fun q hq hn => absurd hq hn⟩
      have x := TaskStepR.updTask (R := TShape) TShape.refl
        ({ s with cl := (s.cl.allocEnd t m obs ing).1 } : Sys) t
        (fun r => { r with status := .finished }) (fun _ => rfl) (fun r _ => ⟨rfl, rfl, rfl⟩)
      exact TaskStepR.of_src_eq (s := s) x rfl
  obtain ⟨hT, hnew⟩ := hfacts
  refine cross_cx_step_simple h hs hp ha hmin orc htel hT ?_ ?_ ?_ ?_ ?_ ?_ ?_
  · intro x m1 c ob ing1 ret1 e
    rw [hk] at e
    simp only [PK.allocTask.injEq] at e
    obtain ⟨e1, e2, e3, e4, e5, _⟩ := e
    subst e1 e2 e3 e4 e5
    exact ⟨ret', hk'⟩
  · intro x m1 c ph tot e; rw [hk] at e; exact absurd e (by simp)
  · intro o sc pa po fn e; rw [hk] at e; exact absurd e (by simp)
  · intro x m1 c ob ing1 ret1 e
    rw [hk'] at e
    simp only [PK.allocTask.injEq] at e
    obtain ⟨e1, e2, e3, e4, e5, _⟩ := e
    subst e1 e2 e3 e4 e5
    exact ⟨ret, hk⟩
  · intro x m1 c ph' tot' e; rw [hk'] at e; exact absurd e (by simp)
  · intro o sc' pa po' fn' e; rw [hk'] at e; exact absurd e (by simp)
  · intro q hq hn
    obtain ⟨hqk, hting⟩ := hnew q hq hn
    refine ⟨?_, ?_, ?_⟩
    · intro x m1 c ob ret1 e; rw [hqk] at e; exact absurd e (by simp)
    · intro o sc pa po fn e; rw [hqk] at e; exact absurd e (by simp)
    · intro x m1 c ph tot e hw
      rw [hqk] at e
      simp only [PK.doWork.injEq] at e
      obtain ⟨e1, e2, e3, _⟩ := e
      subst e1 e2 e3
      have hif : ing = false := by
        cases hi : ing with
        | false => rfl
        | true =>
          have := hting hi
          rw [isWf_not_ingest hw] at this
          exact absurd this (by simp)
      subst hif
      exact ⟨obs, ret, hk⟩

theorem cross_cx_doWork {s : Sys} (h : CrossCX s) (hs : SInv s) {p : Proc} (hp : p ∈ s.procs)
    (ha : p.alive = true) (hmin : ∀ q ∈ s.procs, q.alive = true → p.wake ≤ q.wake) (orc : Oracle)
    {t m preds ph tot} (hk : p.k = .doWork t m preds ph tot) :
    CrossCX ((s.block p orc).1.updProc p.pid (fin (s.block p orc).2.1 (s.block p orc).2.2 p.wake)) := by
  have hb : s.block p orc = s.doWorkBlock p.wake orc t m preds ph tot := by
    unfold block; simp only [hk]
  have htel : p.k = .telescope → ((natNow p.wake : Nat) : Time) = p.wake := by
    intro e; rw [hk] at e; exact absurd e (by simp)
  have hprocs : (s.block p orc).1.procs = s.procs := by rw [hb]; exact doWorkBlock_procs s p.wake orc t m preds ph tot
  have hsh := doWorkBlock_shape s p.wake orc t m preds ph tot
  rw [← hb] at hsh
  have hfacts : TaskStepS s (s.block p orc).1 ∧ ∃ ph' tot', (s.block p orc).2.1 = .doWork t m preds ph' tot' := by
    generalize s.block p orc = X at hsh
    cases hsh with
    | raised ph' e => exact ⟨TaskStepR.of_eq TShape.refl rfl, ph', tot, rfl⟩
    | wait w _ _ _ => exact ⟨TaskStepR.of_eq TShape.refl rfl, 1, tot, rfl⟩
    | start r mm dur tot' _ _ _ =>
      refine ⟨?_, 2, tot', rfl⟩
      exact (TaskStepR.updTask TShape.refl s t (dwStartF p.wake dur) (fun _ => rfl)
        (fun r _ => ⟨rfl, rfl, rfl⟩)).of_tasks_eq rfl
    | finish _ =>
      refine ⟨?_, 3, tot, rfl⟩
      refine (TaskStepR.updTask TShape.refl s t (dwEndF p.wake tot) (fun r => (dwEndF_spec p.wake tot r).1)
        (fun r _ => ?_)).of_tasks_eq rfl
      obtain ⟨a, b, c, _⟩ := dwEndF_spec p.wake tot r
      exact ⟨a, b, c⟩
  obtain ⟨hT, ph', tot', hk'⟩ := hfacts
  refine cross_cx_step_simple h hs hp ha hmin orc htel hT ?_ ?_ ?_ ?_ ?_ ?_ ?_
  · intro x m1 c ob ing1 ret1 e; rw [hk] at e; exact absurd e (by simp)
  · intro x m1 c ph1 tot1 e
    rw [hk] at e
    simp only [PK.doWork.injEq] at e
    obtain ⟨e1, e2, e3, _⟩ := e
    subst e1 e2 e3
    exact ⟨ph', tot', hk'⟩
  · intro o sc pa po fn e; rw [hk] at e; exact absurd e (by simp)
  · intro x m1 c ob ing1 ret1 e; rw [hk'] at e; exact absurd e (by simp)
  · intro x m1 c ph1 tot1 e
    rw [hk'] at e
    simp only [PK.doWork.injEq] at e
    obtain ⟨e1, e2, e3, _⟩ := e
    subst e1 e2 e3
    exact ⟨ph, tot, hk⟩
  · intro o sc' pa po' fn' e; rw [hk'] at e; exact absurd e (by simp)
  · intro q hq hn
    rw [hprocs] at hq
    exact absurd hq hn

end Sys
end Topsim
