/-
  Preced14 — the exact form of precedence (recorded finish of a predecessor ≤
  recorded start of the task) under one condition on the order of the blocks inside
  an instant: the block in which an allocation process reports its task finished runs
  after the `allocate_tasks` block of that task's observation (`pollAfterSched`).
  Invariant `PX` and its generic preservation.
  -- F13: with the repair (`allocate_task_to_cluster` reports a task finished only at a time
  -- `≥ aft`) `PX` is preserved by every step without the order condition (Preced16/17:
  -- `px_allocTask`, `reach_px` over plain `Reach`); `pollAfterSched` / `ReachSchedFirst` are kept
  -- as definitions (the simulator's runs satisfy them).  Note that `pollAfterSched` speaks of the
  -- blocks in which the process "finds its task's body ended" (`procTriggered`); with the repair
  -- such a block reports the task finished only if also `now ≥ aft`.
-/
import TopsimProofs.Preced13

namespace Topsim
namespace Sys

open Cluster

/-! ### the order condition -/

/-- `pid` may run its next block: when that block is the one in which a scheduler-side
allocation process (`allocate_task_to_cluster` of a task of observation `o`) finds its task's
body ended and reports the task finished, every live `allocate_tasks` process of `o` has already
run at this instant (it is due strictly later).  A predicate on (state, pid). -/
def pollAfterSched (s : Sys) (pid : Nat) : Prop :=
  ∀ p, s.proc? pid = some p → ∀ t m cross o ret, p.k = .allocTask t m cross (some o) false ret →
    t ∈ s.cl.running → s.procTriggered ret = true →
    ∀ q ∈ s.procs, q.alive = true → ∀ sc pa po fn, q.k = .allocTasks o sc pa po fn → p.wake < q.wake

/-- `ReachOk` where every step satisfies `pollAfterSched` -/
inductive ReachSchedFirst (s0 : Sys) : Sys → Prop
  | start : ReachSchedFirst s0 s0.start
  | step (s : Sys) (pid : Nat) (orc : Oracle) :
      ReachSchedFirst s0 s → s.enabled pid → (s.alg = .oracle → orc.preOk) → pollAfterSched s pid →
      ReachSchedFirst s0 (s.resume pid orc).1

theorem ReachSchedFirst.toOk {s0 s : Sys} (h : ReachSchedFirst s0 s) : ReachOk s0 s := by
  induction h with
  | start => exact ReachOk.start
  | step s pid orc _ hen hpre _ ih => exact ReachOk.step s pid orc ih hen hpre

/-! ### the invariant -/

structure PX (s : Sys) : Prop where
  /-- every process other than a task body is due at whole instants -/
  natWake : ∀ p ∈ s.procs, p.k.tag ≠ "doWork" → ∃ n : Nat, p.wake = (n : Time)
  /-- the predecessor list of a workflow record holds tasks of the same observation and clock -/
  predObs : ∀ t r, s.task? t = some r → ∀ o c n, t = Tid.wf o c n → ∀ q ∈ r.preds, ∃ u, q = Tid.wf o c u
  schedObs : ∀ p ∈ s.procs, ∀ o sc pa po fn, p.k = .allocTasks o sc pa po fn →
    ∀ t ∈ dictKeys sc, ∃ c n, t = Tid.wf o c n
  atObs : ∀ p ∈ s.procs, ∀ t m cross obs ret, p.k = .allocTask t m cross obs false ret →
    ∃ o c n, obs = some o ∧ t = Tid.wf o c n
  /-- the recorded finish of a task the cluster reports finished is not later than the next block
  of its observation's `allocate_tasks` -/
  finSched : ∀ o c n, FinT s (Tid.wf o c n) → ∀ rq f, s.task? (Tid.wf o c n) = some rq → rq.aft = some f →
    ∀ p ∈ s.procs, p.alive = true → ∀ sc pa po fn, p.k = .allocTasks o sc pa po fn → f ≤ p.wake
  /-- an allocation process before its first block: its task's predecessors finished by then -/
  atT : ∀ p ∈ s.procs, p.alive = true → p.pc = 0 → ∀ t m cross obs ret,
    p.k = .allocTask t m cross obs false ret → ∀ r, s.task? t = some r → ∀ q ∈ r.preds,
    ∀ rq f, s.task? q = some rq → rq.aft = some f → f ≤ p.wake
  /-- a body before its start: its task's predecessors finished by the time it is due -/
  dwT : ∀ d ∈ s.procs, d.alive = true → ∀ t m cross ph tot, d.k = .doWork t m cross ph tot → ph < 2 →
    IsWf t → ∀ r, s.task? t = some r → ∀ q ∈ r.preds,
    ∀ rq f, s.task? q = some rq → rq.aft = some f → f ≤ d.wake
  /-- a started workflow task: recorded finish of every task of its predecessor list ≤ its start -/
  startedX : ∀ t r a, s.task? t = some r → r.ast = some a → IsWf t → ∀ q ∈ r.preds,
    ∀ rq f, s.task? q = some rq → rq.aft = some f → f ≤ a

theorem at_hasRec {s : Sys} (hs : SInv s) {p : Proc} (hp : p ∈ s.procs) {t m cross obs ing ret}
    (hk : p.k = .allocTask t m cross obs ing ret) : ∃ r, s.task? t = some r := by
  obtain ⟨U, hU⟩ := hs.ci
  obtain ⟨r, hr, _⟩ := hU.hasRec p hp t m cross obs ing ret hk
  exact ⟨r, hr⟩

theorem PX.core {a b : Sys} (h : PX a) (e : Core8 a b) : PX b := by
  have ht : ∀ t, b.task? t = a.task? t := fun t => by unfold task?; rw [e.tasks]
  have hf : ∀ q, FinT b q ↔ FinT a q := fun q => finT_congr (by rw [e.cl]) q
  constructor
  · rw [e.procs]; exact h.natWake
  · intro t r hr; rw [ht] at hr; exact h.predObs t r hr
  · rw [e.procs]; exact h.schedObs
  · rw [e.procs]; exact h.atObs
  · intro o c n hq rq f h1 h2
    rw [ht] at h1; rw [e.procs]
    exact h.finSched o c n ((hf _).mp hq) rq f h1 h2
  · rw [e.procs]; intro p hp hpa hpc t m cross obs ret hk r hr q hq rq f h1 h2
    rw [ht] at hr h1
    exact h.atT p hp hpa hpc t m cross obs ret hk r hr q hq rq f h1 h2
  · rw [e.procs]; intro d hd hda t m cross ph tot hk hph hw r hr q hq rq f h1 h2
    rw [ht] at hr h1
    exact h.dwT d hd hda t m cross ph tot hk hph hw r hr q hq rq f h1 h2
  · intro t r a hr hast hw q hq rq f h1 h2
    rw [ht] at hr h1
    exact h.startedX t r a hr hast hw q hq rq f h1 h2

/-- the generic step: the stamps of the old records are kept -/
theorem PX.quiet {s Y : Sys} (h : PX s) (hs : SInv s) (hT : TaskStep s Y)
    (hFn : ∀ o c n, FinT Y (Tid.wf o c n) → FinT s (Tid.wf o c n) ∨
      ∀ rq f, Y.task? (Tid.wf o c n) = some rq → rq.aft = some f →
        ∀ p ∈ Y.procs, p.alive = true → ∀ sc pa po fn, p.k = .allocTasks o sc pa po fn → f ≤ p.wake)
    (hFreshObs : ∀ t r', s.task? t = none → Y.task? t = some r' → ∀ o c n, t = Tid.wf o c n →
      ∀ q ∈ r'.preds, ∃ u, q = Tid.wf o c u)
    (hNat : ∀ q ∈ Y.procs, q.k.tag ≠ "doWork" → ∃ n : Nat, q.wake = (n : Time))
    (hSchedObs : ∀ q ∈ Y.procs, ∀ o sc pa po fn, q.k = .allocTasks o sc pa po fn →
      ∀ t ∈ dictKeys sc, ∃ c n, t = Tid.wf o c n)
    (hAtObs : ∀ q ∈ Y.procs, ∀ t m cross obs ret, q.k = .allocTask t m cross obs false ret →
      ∃ o c n, obs = some o ∧ t = Tid.wf o c n)
    (hSched : ∀ q ∈ Y.procs, q.alive = true → ∀ o sc pa po fn, q.k = .allocTasks o sc pa po fn →
      (∃ q0 ∈ s.procs, q0.alive = true ∧ (∃ sc0 pa0 po0 fn0, q0.k = .allocTasks o sc0 pa0 po0 fn0) ∧
        q0.wake ≤ q.wake) ∨ ∀ c n, ¬ FinT Y (Tid.wf o c n))
    (hAT : ∀ q ∈ Y.procs, q.alive = true → q.pc = 0 → ∀ t m cross obs ret,
      q.k = .allocTask t m cross obs false ret → q ∈ s.procs ∨
      ∀ r, Y.task? t = some r → ∀ x ∈ r.preds, ∀ rq f, Y.task? x = some rq → rq.aft = some f → f ≤ q.wake)
    (hDW : ∀ d ∈ Y.procs, d.alive = true → ∀ t m cross ph tot, d.k = .doWork t m cross ph tot → ph < 2 →
      IsWf t → d ∈ s.procs ∨
      ∀ r, Y.task? t = some r → ∀ x ∈ r.preds, ∀ rq f, Y.task? x = some rq → rq.aft = some f → f ≤ d.wake) :
    PX Y := by
  -- a stamp found in `Y` was there in `s`
  have haft : ∀ x rq' f, Y.task? x = some rq' → rq'.aft = some f → ∃ rq, s.task? x = some rq ∧ rq.aft = some f := by
    intro x rq' f h1 h2
    rcases hT.bwd h1 with ⟨rq, h3, hk⟩ | ⟨_, hfr⟩
    · exact ⟨rq, h3, by rw [← hk.aft]; exact h2⟩
    · rw [hfr.aft] at h2; exact absurd h2 (by simp)
  refine ⟨hNat, ?_, hSchedObs, hAtObs, ?_, ?_, ?_, ?_⟩
  · intro t r' hr' o c n e q hq
    rcases hT.bwd hr' with ⟨r, hr, hk⟩ | ⟨h0, _⟩
    · rw [hk.shape.preds] at hq; exact h.predObs t r hr o c n e q hq
    · exact hFreshObs t r' h0 hr' o c n e q hq
  · intro o c n hq rq' f h1 h2 p hp hpa sc pa po fn hk
    rcases hFn o c n hq with hq' | hnew
    · obtain ⟨rq, h3, h4⟩ := haft _ rq' f h1 h2
      rcases hSched p hp hpa o sc pa po fn hk with ⟨q0, hq0, hq0a, ⟨sc0, pa0, po0, fn0, hk0⟩, hw⟩ | hno
      · have := h.finSched o c n hq' rq f h3 h4 q0 hq0 hq0a sc0 pa0 po0 fn0 hk0
        grind
      · exact absurd hq (hno c n)
    · exact hnew rq' f h1 h2 p hp hpa sc pa po fn hk
  · intro p hp hpa hpc t m cross obs ret hk r' hr' q hq rq' f h1 h2
    rcases hAT p hp hpa hpc t m cross obs ret hk with hold | hnew
    · obtain ⟨rq, h3, h4⟩ := haft q rq' f h1 h2
      rcases hT.bwd hr' with ⟨r, hr, hkk⟩ | ⟨h0, _⟩
      · rw [hkk.shape.preds] at hq
        exact h.atT p hold hpa hpc t m cross obs ret hk r hr q hq rq f h3 h4
      · obtain ⟨r, hr⟩ := at_hasRec hs hold hk
        rw [h0] at hr; exact absurd hr (by simp)
    · exact hnew r' hr' q hq rq' f h1 h2
  · intro d hd hda t m cross ph tot hk hph hw r' hr' q hq rq' f h1 h2
    rcases hDW d hd hda t m cross ph tot hk hph hw with hold | hnew
    · obtain ⟨rq, h3, h4⟩ := haft q rq' f h1 h2
      rcases hT.bwd hr' with ⟨r, hr, hkk⟩ | ⟨h0, _⟩
      · rw [hkk.shape.preds] at hq
        exact h.dwT d hold hda t m cross ph tot hk hph hw r hr q hq rq f h3 h4
      · obtain ⟨r, hr⟩ := dw_hasRec hs hold hk
        rw [h0] at hr; exact absurd hr (by simp)
    · exact hnew r' hr' q hq rq' f h1 h2
  · intro t r' a hr' hast hw q hq rq' f h1 h2
    obtain ⟨rq, h3, h4⟩ := haft q rq' f h1 h2
    rcases hT.bwd hr' with ⟨r, hr, hk⟩ | ⟨_, hfr⟩
    · rw [hk.shape.preds] at hq
      exact h.startedX t r a hr (by rw [← hk.ast]; exact hast) hw q hq rq f h3 h4
    · rw [hfr.ast] at hast; exact absurd hast (by simp)

end Sys
end Topsim
