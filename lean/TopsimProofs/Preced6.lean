/-
  Preced6 — the structural invariant `ST` along every run (of a shipped algorithm)
  that has not crashed, from a configuration whose buffer holds no observation.
-/
import TopsimProofs.Preced5

namespace Topsim
namespace Sys

open Cluster

/-! ### what the planner makes -/

theorem planOf_shape (o : Obs) (c : Nat) (stat : Bool) (rows : List (Nat × Mid × Nat × Nat))
    (recs : List TaskRec) (plan : Plan)
    (h : (recs, plan) = (if stat = true then staticPlanOf o c rows else batchPlan o c)) :
    plan.obs = o.id ∧
    plan.edges = o.wf.edges.map (fun e => (Tid.wf o.id c e.1, Tid.wf o.id c e.2.1)) ∧
    plan.tasks = recs.map (·.id) ∧
    ∀ r ∈ recs, ∃ n, r.id = Tid.wf o.id c n ∧
      r.preds = (o.wf.edges.filter (fun e => e.2.1 = n)).map (fun e => Tid.wf o.id c e.1) ∧
      r.io = (o.wf.edges.filter (fun e => e.2.1 = n)).map (fun e => (Tid.wf o.id c e.1, e.2.2)) ∧
      r.ast = none ∧ r.aft = none ∧ r.status = .unscheduled := by
  split at h
  · injection h with h1 h2
    subst h1 h2
    refine ⟨rfl, rfl, rfl, ?_⟩
    intro r hr
    simp only [List.mem_map] at hr
    obtain ⟨⟨n, mid, est, eft⟩, _, rfl⟩ := hr
    exact ⟨n, rfl, rfl, rfl, rfl, rfl, rfl⟩
  · injection h with h1 h2
    subst h1 h2
    refine ⟨rfl, rfl, rfl, ?_⟩
    intro r hr
    simp only [List.mem_map] at hr
    obtain ⟨n, _, rfl⟩ := hr
    exact ⟨n, rfl, rfl, rfl, rfl, rfl, rfl⟩

/-! ### the allocation process and the finished-task map -/

theorem allocBegin_finished (c : Cluster) (t : Tid) (m : Mid) (obs : Option Oid) (ing : Bool)
    (h : (c.allocBegin t m obs ing).2 = none) :
    (c.allocBegin t m obs ing).1.finished = if ing then dictSet c.finished t false else c.finished := by
  unfold allocBegin at h ⊢
  by_cases ht : t ∈ c.running
  · simp [ht] at h
  · simp only [ht, if_false] at h ⊢
    cases ing with
    | true =>
      simp only [if_true] at h ⊢
      by_cases hm : m ∈ c.ingest
      · simp only [hm, decide_true, Bool.not_true, Bool.false_eq_true, if_false]
      · simp [hm] at h
    | false =>
      simp only [Bool.false_eq_true, if_false] at h ⊢
      by_cases hel : (!(decide (m ∈ c.available) || decide (m ∈ c.idleOf obs))) = true
      · simp [hel] at h
      · simp only [hel] at h ⊢
        have hf := setMachineOccupied_fields c m obs
        generalize c.setMachineOccupied m obs = r at h hf
        obtain ⟨c1, e1⟩ := r
        cases e1 with
        | some e => simp at h
        | none =>
          simp only at hf ⊢
          exact hf.2.2.2

/-! ### the invariant along a run -/

def STInv (s : Sys) : Prop := s.crashed = none → ST s

theorem start_st (s0 : Sys) (hw : WFConfig s0) : ST s0.start := by
  obtain ⟨_, _, htasks, hplans, _⟩ := hw.fresh
  have ht : s0.start.tasks = [] := by rw [← htasks]; simp [start, spawn]
  have hpl : s0.start.plans = [] := by rw [← hplans]; simp [start, spawn]
  have hcl : s0.start.cl = Cluster.init (s0.machines.map (·.id)) := by rw [← hw.clInit]; simp [start, spawn]
  have hnone : ∀ t, s0.start.task? t = none := by intro t; unfold task?; rw [ht]; rfl
  constructor
  · rw [hpl]; intro pl h; simp at h
  · rw [hpl]; intro pl h; simp at h
  · rw [hpl]; intro pl h; simp at h
  · rw [hpl]; intro pl h; simp at h
  · rw [hpl]; intro pl h; simp at h
  · intro t r h; rw [hnone] at h; exact absurd h (by simp)
  · intro q h; rw [hcl] at h; simp [Cluster.init, dictGet] at h

/-- the scheduler loop: a new plan with its records, for an observation without plan -/
theorem st_schedLoop {s : Sys} (h : ST s) (hwi : WI s) (hb : BufI s) (now : Time) (orc : Oracle) :
    ST (s.schedLoopBlock now orc).1 := by
  have hcl := schedLoopBlock_clq s now orc
  rcases schedLoopBlock_buf s now orc with ⟨_, hpl, htasks, _, _⟩ |
    ⟨oid, o, recs, plan, hnx, hob, hrp, _, hpl, htasks, _⟩
  · exact h.congr htasks hpl (by rw [hcl])
  · have hoid : o.id = oid := (obs_mem_of_obs? hob).2
    obtain ⟨g1, g2, g3, g4⟩ := planOf_shape o (natNow now) s.staticPlan orc.plan recs plan hrp
    rw [hoid] at g1 g2 g4
    obtain ⟨_, hst, _, _⟩ := bufList_next s.buf oid hnx
    have hnoplan : ∀ pl ∈ s.plans, pl.obs ≠ oid := by
      intro pl hpl' e
      have h1 := hb.planLoc pl hpl'
      rw [e] at h1
      have h2 := hb.cnt oid
      have c1 := count_pos_of_mem hst
      have c2 := count_pos_of_mem h1
      unfold locCount bufList at h2
      simp only [List.count_append] at h2 c2
      omega
    have hfilter : s.plans.filter (fun pl => decide (pl.obs ≠ oid)) = s.plans := by
      rw [List.filter_eq_self]
      intro pl hpl'; simpa using hnoplan pl hpl'
    rw [hfilter] at hpl
    have hplanNone : s.plan? oid = none := by
      unfold plan?
      rw [List.find?_eq_none]
      intro pl hpl'; simpa using hnoplan pl hpl'
    -- old records are not about `oid`
    have hold : ∀ c n, s.task? (.wf oid c n) = none := by
      intro c n
      cases h0 : s.task? (.wf oid c n) with
      | none => rfl
      | some r =>
        have hm : r ∈ s.tasks := List.mem_of_find?_eq_some h0
        have := hwi.pr r hm oid c n (task?_id h0)
        rw [hplanNone] at this; simp at this
    generalize hX : (s.schedLoopBlock now orc).1 = X at hcl hpl htasks ⊢
    have htq := task?_append s X recs htasks
    have holdq : ∀ t r, s.task? t = some r → X.task? t = some r := by
      intro t r hr; rw [htq, hr]
    have hnewq : ∀ t r', s.task? t = none → X.task? t = some r' → r' ∈ recs ∧ r'.id = t := by
      intro t r' h0 h1
      rw [htq, h0] at h1
      exact ⟨List.mem_of_find?_eq_some h1, by simpa using List.find?_some h1⟩
    have hmem : ∀ pl' ∈ X.plans, pl' ∈ s.plans ∨ pl' = plan := by
      intro pl' hpl'
      rw [hpl] at hpl'
      rcases List.mem_append.mp hpl' with h1 | h1
      · exact Or.inl h1
      · exact Or.inr (by simpa using h1)
    -- a record of the new batch, found under a new id
    have hrecq : ∀ c n r', X.task? (.wf oid c n) = some r' → r' ∈ recs ∧ r'.id = .wf oid c n :=
      fun c n r' h1 => hnewq _ r' (hold c n) h1
    constructor
    · intro pl' hpl' e he
      rcases hmem pl' hpl' with h1 | rfl
      · exact h.edgeWf pl' h1 e he
      · rw [g2] at he
        obtain ⟨x, _, rfl⟩ := List.mem_map.mp he
        exact ⟨natNow now, x.1, x.2.1, by rw [g1]⟩
    · intro pl' hpl' t ht r' hr' q hq
      rcases hmem pl' hpl' with h1 | rfl
      · obtain ⟨r, hr⟩ := h.planRecs pl' h1 t ht
        rw [holdq t r hr] at hr'
        injection hr' with e
        subst e
        exact h.recEdge pl' h1 t ht r hr q hq
      · rw [g3] at ht
        obtain ⟨r0, hr0, rfl⟩ := List.mem_map.mp ht
        obtain ⟨n0, e0, _⟩ := g4 r0 hr0
        rw [e0] at hr'
        obtain ⟨hm', hid'⟩ := hrecq _ _ r' hr'
        obtain ⟨n', e', p', _⟩ := g4 r' hm'
        have : n' = n0 := by
          rw [e'] at hid'; injection hid'
        subst this
        rw [p'] at hq
        obtain ⟨x, hx, rfl⟩ := List.mem_map.mp hq
        obtain ⟨hx1, hx2⟩ := List.mem_filter.mp hx
        have hx2' : x.2.1 = n' := by simpa using hx2
        rw [g2, e0, ← hx2']
        exact List.mem_map_of_mem (f := fun e => (Tid.wf oid (natNow now) e.1, Tid.wf oid (natNow now) e.2.1)) hx1
    · intro pl' hpl' q t he r' hr'
      rcases hmem pl' hpl' with h1 | rfl
      · cases h0 : s.task? t with
        | some r =>
          rw [holdq t r h0] at hr'
          injection hr' with e
          subst e
          exact h.edgeRec pl' h1 q t he r h0
        | none =>
          exfalso
          obtain ⟨hm', hid'⟩ := hnewq t r' h0 hr'
          obtain ⟨n', e', _⟩ := g4 r' hm'
          obtain ⟨c, u, v, e⟩ := h.edgeWf pl' h1 _ he
          injection e with e1 e2
          rw [← hid', e'] at e2
          injection e2 with e3 _ _
          exact hnoplan pl' h1 e3.symm
      · rw [g2] at he
        obtain ⟨x, hx, e⟩ := List.mem_map.mp he
        injection e with e1 e2
        subst e1 e2
        obtain ⟨hm', hid'⟩ := hrecq _ _ r' hr'
        obtain ⟨n', e', p', _⟩ := g4 r' hm'
        have : n' = x.2.1 := by
          rw [e'] at hid'; injection hid'
        subst this
        rw [p']
        have hxf : x ∈ o.wf.edges.filter (fun e => decide (e.2.1 = x.2.1)) :=
          List.mem_filter.mpr ⟨hx, decide_eq_true rfl⟩
        exact List.mem_map_of_mem (f := fun e => Tid.wf oid (natNow now) e.1) hxf
    · intro pl' hpl' t ht
      rcases hmem pl' hpl' with h1 | rfl
      · obtain ⟨r, hr⟩ := h.planRecs pl' h1 t ht
        exact ⟨r, holdq t r hr⟩
      · rw [g3] at ht
        obtain ⟨r0, hr0, rfl⟩ := List.mem_map.mp ht
        obtain ⟨n0, e0, _⟩ := g4 r0 hr0
        rw [htq, e0, hold]
        simp only
        cases hf : recs.find? (fun r => decide (r.id = Tid.wf oid (natNow now) n0)) with
        | some r' => exact ⟨r', rfl⟩
        | none =>
          rw [List.find?_eq_none] at hf
          exact absurd (hf r0 hr0) (by simp [e0])
    · intro pl' hpl' t ht
      rcases hmem pl' hpl' with h1 | rfl
      · exact h.planWf pl' h1 t ht
      · rw [g3] at ht
        obtain ⟨r0, hr0, rfl⟩ := List.mem_map.mp ht
        obtain ⟨n0, e0, _⟩ := g4 r0 hr0
        exact ⟨natNow now, n0, by rw [e0, g1]⟩
    · intro t r' hr' q hq
      cases h0 : s.task? t with
      | some r =>
        rw [holdq t r h0] at hr'
        injection hr' with e
        subst e
        exact h.predsWf t r h0 q hq
      | none =>
        obtain ⟨hm', _⟩ := hnewq t r' h0 hr'
        obtain ⟨n', _, p', _⟩ := g4 r' hm'
        rw [p'] at hq
        obtain ⟨x, _, rfl⟩ := List.mem_map.mp hq
        exact ⟨_, _, _, rfl⟩
    · intro q hq
      rw [hcl] at hq
      exact h.finFalse q hq

/-- the allocation process -/
theorem st_allocTask {s : Sys} (hs : SInv s) (h : ST s) {p : Proc} (hp : p ∈ s.procs) (ha : p.alive = true)
    {t m preds obs ing ret} (hk : p.k = .allocTask t m preds obs ing ret) :
    ST (s.allocTaskBlock p.wake t m preds obs ing ret).1 := by
  have hpw := hs.pw
  obtain ⟨U, hU⟩ := hs.ci
  have hsetS : ∀ (c : Cluster) (st : TStatus), TaskStepS ({ s with cl := c } : Sys)
      ((({ s with cl := c } : Sys)).updTask t (fun r => { r with status := st })) := fun c st =>
    TaskStepR.updTask1 TShape.refl _ t _ (fun _ => rfl) (fun _ _ => ⟨rfl, rfl, rfl⟩)
  have hnn : ∀ (c : Cluster) (st : TStatus) (x : Tid) (r' : TaskRec), ({ s with cl := c } : Sys).task? x = none →
      ((({ s with cl := c } : Sys)).updTask t (fun r => { r with status := st })).task? x = some r' →
      x.isIngest = true := by
    intro c st x r' h0 h1
    have := NoNew.updTask ({ s with cl := c } : Sys) t (fun r => { r with status := st }) (fun _ => rfl) x h0
    rw [this] at h1
    exact absurd h1 (by simp)
  rcases allocTaskBlock_cases s hpw p.wake t m preds obs ing ret with
    ⟨_, e, he, heq⟩ | ⟨hnr, hok, heq⟩ | ⟨_, _, heq⟩ | ⟨hr, _, e, he, _⟩ | ⟨hr, _, hok, heq⟩
  · rw [heq]
    have hun := allocBegin_err_unchanged s.cl t m obs ing e he
    exact h.congr rfl rfl (by show (s.cl.allocBegin t m obs ing).1.finished = _; rw [hun])
  · rw [heq]
    have hfin := allocBegin_finished s.cl t m obs ing hok
    have h1 : ST ({ s with cl := (s.cl.allocBegin t m obs ing).1 } : Sys) := by
      refine h.step (TaskStepR.of_eq TShape.refl rfl) (PlanStep.of_eq rfl)
        (fun x r' h0 h1 => by
          have h0' : s.task? x = none := h0
          have h1' : s.task? x = some r' := h1
          rw [h0'] at h1'; exact absurd h1' (by simp)) ?_
      intro q hq
      have hq' : dictGet (s.cl.allocBegin t m obs ing).1.finished q = some false := hq
      rw [hfin] at hq'
      cases ing with
      | false => exact Or.inl hq'
      | true =>
        simp only [if_true] at hq'
        rw [dictGet_dictSet] at hq'
        split at hq'
        · rename_i e
          right
          rw [← e]
          have hpc0 := hU.pc_zero hp ha hk hnr
          exact hU.inv.pendTask _ (hU.pend p hp ha t m preds obs ret hk hpc0)
        · exact Or.inl hq'
    have h2 := h1.quiet (hsetS _ .scheduled) (PlanStep.of_eq rfl) (hnn _ .scheduled) rfl
    exact h2.congr rfl rfl rfl
  · rw [heq]; exact h
  · exfalso
    have := (hU.atEnd hpw hp ha hk hr (fin p.k .done p.wake) (by simp) (by simp) (by simp)).1
    rw [this] at he; exact absurd he (by simp)
  · rw [heq]
    have hfin := (allocEnd_fields s.cl t m obs ing hok).2.2.2
    have h1 : ST ({ s with cl := (s.cl.allocEnd t m obs ing).1 } : Sys) := by
      refine h.step (TaskStepR.of_eq TShape.refl rfl) (PlanStep.of_eq rfl)
        (fun x r' h0 h1 => by
          have h0' : s.task? x = none := h0
          have h1' : s.task? x = some r' := h1
          rw [h0'] at h1'; exact absurd h1' (by simp)) ?_
      intro q hq
      have hq' : dictGet (s.cl.allocEnd t m obs ing).1.finished q = some false := hq
      rw [hfin, dictGet_dictSet] at hq'
      split at hq'
      · exact absurd hq' (by simp)
      · exact Or.inl hq'
    exact h1.quiet (hsetS _ .finished) (PlanStep.of_eq rfl) (hnn _ .finished) rfl

/-- the task body -/
theorem st_doWork {s : Sys} (h : ST s) (now : Time) (orc : Oracle) (t : Tid) (m : Mid) (preds : List Tid)
    (ph tot : Nat) : ST (s.doWorkBlock now orc t m preds ph tot).1 := by
  have hsh := doWorkBlock_shape s now orc t m preds ph tot
  generalize s.doWorkBlock now orc t m preds ph tot = X at hsh
  have key : ∀ f : TaskRec → TaskRec, (∀ r, TShape r (f r)) → ST (s.updTask t f) := by
    intro f hf
    refine h.quiet (TaskStepR.updTask1 TShape.refl s t f (fun r => (hf r).id) (fun r _ => hf r))
      (PlanStep.of_eq rfl) ?_ rfl
    intro x r' h0 h1
    rw [NoNew.updTask s t f (fun r => (hf r).id) x h0] at h1
    exact absurd h1 (by simp)
  cases hsh with
  | raised _ _ => exact h
  | wait _ _ _ _ => exact h
  | start r mm dur tot' _ _ _ =>
    exact (key (dwStartF now dur) (fun r => ⟨rfl, rfl, rfl⟩)).congr rfl rfl rfl
  | finish _ =>
    refine (key (dwEndF now tot) (fun r => ?_)).congr rfl rfl rfl
    obtain ⟨a, b, c, _⟩ := dwEndF_spec now tot r
    exact ⟨a, b, c⟩

theorem st_step {s : Sys} (hs : SInv s) (hbuf : BufI s) (hwi : WInv s) (h : STInv s) (hno : s.alg ≠ .oracle)
    {pid : Nat} (hen : s.enabled pid) (orc : Oracle) : STInv (s.resume pid orc).1 := by
  intro hc
  obtain ⟨p, hp, ha, _⟩ := hen
  obtain ⟨hc0, _⟩ := resume_nocrash s pid orc p hp ha hc
  have hst := h hc0
  obtain ⟨hpm, hpid⟩ := proc?_some hp
  subst hpid
  have hcore := resume_core s p.pid orc p hp ha
  have hplans := resume_plans s p.pid orc p hp ha
  suffices hX : ST (s.block p orc).1 from
    hX.congr (by rw [hcore.tasks]; rfl) (by rw [hplans]) (by rw [hcore.cl]; rfl)
  by_cases h1 : p.k.tag = "schedLoop"
  · cases hk : p.k with
    | schedLoop =>
      have hb : s.block p orc = ((s.schedLoopBlock p.wake orc).1, p.k, (s.schedLoopBlock p.wake orc).2) := by
        unfold block; simp only [hk]
      rw [hb]; exact st_schedLoop hst (hwi hc0) hbuf _ _
    | _ => rw [hk] at h1; simp [PK.tag] at h1
  · by_cases h2 : p.k.tag = "allocTask"
    · cases hk : p.k with
      | allocTask t m preds obs ing ret =>
        have hb : s.block p orc = s.allocTaskBlock p.wake t m preds obs ing ret := by
          unfold block; simp only [hk]
        rw [hb]; exact st_allocTask hs hst hpm ha hk
      | _ => rw [hk] at h2; simp [PK.tag] at h2
    · by_cases h3 : p.k.tag = "doWork"
      · cases hk : p.k with
        | doWork t m preds ph tot =>
          have hb : s.block p orc = s.doWorkBlock p.wake orc t m preds ph tot := by
            unfold block; simp only [hk]
          rw [hb]; exact st_doWork hst _ _ _ _ _ _ _
        | _ => rw [hk] at h3; simp [PK.tag] at h3
      · have hq := block_quietB s p orc hno h1 h2 h3
        exact hst.quiet hq.task.toS hq.plan hq.newIng hq.fin

theorem reach_st (s0 s : Sys) (hw : WFConfig s0) (hbuf : bufList s0.buf = []) (hno : s0.alg ≠ .oracle)
    (h : Reach s0 s) : STInv s := by
  induction h with
  | start => exact fun _ => start_st s0 hw
  | step s pid orc hr hen ih =>
    have hok := hr.toOk hno
    exact st_step (reach_inv s0 s hw hok) (reachOk_bufi s0 s hw hbuf hok) (reachOk_wi s0 s hw hbuf hok) ih
      (by rw [reach_alg hr]; exact hno) hen orc

end Sys
end Topsim
