/-
  DelayTraj3 — the delay-flag invariant `DelInv`: the per-record facts `DRec` for every record
  every block reads; a body between its two stamps has the nominal duration in its record unless
  `update_allocation` lengthened it (and then flagged it); a body that has ended left the flag set
  when its total exceeded the nominal duration.  Along `ReachD R`, any block order.
-/
import TopsimProofs.DelayTraj2
import TopsimProofs.LifeCycle10
import TopsimProofs.TaskTable1

namespace Topsim
namespace Sys

/-! ### the two stamping functions and the delay fields -/

theorem drec_start {stat : Bool} {r : TaskRec} (h : DRec stat r) (now : Time) (h0 : 0 ≤ now) (dur : Nat) :
    DRec stat (dwStartF now dur r) := by
  unfold dwStartF
  exact ⟨h.nonneg, h.flag, fun a ha => by injection ha with ha; rw [← ha]; exact h0, h.ingest,
    h.workless, h.untouched, h.batch⟩

theorem dwEndF_delay (now : Time) (tot : Nat) (r : TaskRec) :
    (dwEndF now tot r).delayOffset =
      (if r.duration < tot then r.delayOffset + ((tot - r.duration : Nat) : Int) else r.delayOffset) ∧
    ((dwEndF now tot r).delayFlag = true ↔
      (r.duration < tot ∨ (r.eft : Rat) < now + 1 ∨ r.delayFlag = true)) ∧
    (dwEndF now tot r).eft = r.eft ∧ (dwEndF now tot r).allocObj = r.allocObj := by
  unfold dwEndF
  simp only
  by_cases hd : r.duration < tot
  · simp only [if_pos hd]
    refine ⟨by first | trivial | rfl, ⟨fun _ => Or.inl hd, fun _ => ?_⟩, by first | trivial | rfl, by first | trivial | rfl⟩
    split <;> rfl
  · simp only [if_neg hd]
    refine ⟨by first | trivial | rfl, ?_, by first | trivial | rfl, by first | trivial | rfl⟩
    by_cases he : (r.eft : Rat) < now + 1
    · have he' : now + 1 > (r.eft : Rat) := he
      simp only [if_pos he']
      exact ⟨fun _ => Or.inr (Or.inl he), fun _ => trivial⟩
    · have he' : ¬ (now + 1 > (r.eft : Rat)) := he
      simp only [if_neg he']
      constructor
      · intro hf; exact Or.inr (Or.inr hf)
      · rintro (h | h | h)
        · exact absurd h hd
        · exact absurd h he
        · exact h

theorem drec_end {stat : Bool} {r : TaskRec} (h : DRec stat r) (ha : r.aft = none) (now : Time) (tot : Nat) :
    DRec stat (dwEndF now tot r) := by
  obtain ⟨e1, e2, e3, e4⟩ := dwEndF_delay now tot r
  obtain ⟨q1, _, _, q4, _, q6⟩ := dwEndF_spec now tot r
  obtain ⟨w1, w2, _⟩ := dwEndF_work now tot r
  have hflag0 : r.delayFlag = true ↔ 0 < r.delayOffset := by
    rw [h.flag, ha]; simp
  have hpos : r.duration < tot → (0 : Int) < ((tot - r.duration : Nat) : Int) := by
    intro hd
    have : 0 < tot - r.duration := by omega
    exact_mod_cast this
  constructor
  · rw [e1]
    split
    · rename_i hd
      have := hpos hd
      have := h.nonneg
      omega
    · exact h.nonneg
  · rw [e2, e1, q6, e3]
    constructor
    · rintro (hd | he | hf)
      · left; rw [if_pos hd]
        have := hpos hd
        have := h.nonneg
        omega
      · exact Or.inr ⟨_, rfl, he⟩
      · left
        have := hflag0.mp hf
        split
        · rename_i hd
          have := hpos hd
          omega
        · exact this
    · rintro (hp | ⟨f, hf, hlt⟩)
      · by_cases hd : r.duration < tot
        · exact Or.inl hd
        · rw [if_neg hd] at hp
          exact Or.inr (Or.inr (hflag0.mpr hp))
      · injection hf with hf
        rw [← hf] at hlt
        exact Or.inr (Or.inl hlt)
  · rw [q4]; exact h.astNonneg
  · rw [q1, w1, w2, e3]; exact h.ingest
  · intro _ _ hn; rw [q6] at hn; cases hn
  · intro _ hn; rw [q6] at hn; cases hn
  · rw [e3]; exact h.batch

theorem nomOf_end (now : Time) (tot : Nat) (r : TaskRec) (mm : Machine) :
    nomOf (dwEndF now tot r) mm = nomOf r mm := by
  obtain ⟨w1, w2, w3⟩ := dwEndF_work now tot r
  unfold nomOf
  rw [w1, w2, w3]

/-! ### the invariant -/

structure DelInv (s : Sys) : Prop where
  /-- the per-record facts, for every record a block can read -/
  recs : ∀ t r, s.task? t = some r → DRec s.staticPlan r
  /-- a live body between its stamps: the record holds the nominal duration, or `update_allocation`
  has lengthened it since the start (flag set, offset recorded) -/
  run : ∀ d ∈ s.procs, d.alive = true → ∀ t m c tot, d.k = .doWork t m c 2 tot →
    ∀ r mm, s.task? t = some r → s.machine? m = some mm →
      r.duration = nomOf r mm ∨ (r.delayFlag = true ∧ r.allocObj = true ∧ 0 < r.delayOffset)
  /-- a body that has ended: total above the nominal duration ⇒ flagged; and for a record
  `update_allocation` never touched, a recorded offset comes from the body only -/
  done : ∀ d ∈ s.procs, ∀ t m c tot, d.k = .doWork t m c 3 tot →
    ∀ r mm, s.task? t = some r → s.machine? m = some mm →
      (nomOf r mm < tot → r.delayFlag = true) ∧
      (r.allocObj = false → 0 < r.delayOffset → nomOf r mm < tot)

theorem run_tdel {r r' : TaskRec} (k : TDel r r') (mm : Machine)
    (h : r.duration = nomOf r mm ∨ (r.delayFlag = true ∧ r.allocObj = true ∧ 0 < r.delayOffset)) :
    r'.duration = nomOf r' mm ∨ (r'.delayFlag = true ∧ r'.allocObj = true ∧ 0 < r'.delayOffset) := by
  rw [nomOf_tdel k mm]
  rcases k.chg with ⟨e1, e2, e3⟩ | hc
  · rcases h with h | ⟨h1, h2, h3⟩
    · exact Or.inl (e1.trans h)
    · exact Or.inr ⟨by rw [e3]; exact h1, k.obj h2, by rw [e2]; exact h3⟩
  · exact Or.inr hc

theorem done_tdel {r r' : TaskRec} (k : TDel r r') (mm : Machine) (tot : Nat)
    (h : (nomOf r mm < tot → r.delayFlag = true) ∧
      (r.allocObj = false → 0 < r.delayOffset → nomOf r mm < tot)) :
    (nomOf r' mm < tot → r'.delayFlag = true) ∧
      (r'.allocObj = false → 0 < r'.delayOffset → nomOf r' mm < tot) := by
  rw [nomOf_tdel k mm]
  rcases k.chg with ⟨_, e2, e3⟩ | ⟨c1, c2, _⟩
  · refine ⟨fun hn => by rw [e3]; exact h.1 hn, fun hobj hpos => ?_⟩
    have hobj0 : r.allocObj = false := by
      cases hb : r.allocObj with
      | false => rfl
      | true => rw [k.obj hb] at hobj; cases hobj
    exact h.2 hobj0 (by rw [← e2]; exact hpos)
  · exact ⟨fun _ => c1, fun hobj => by rw [c2] at hobj; cases hobj⟩

/-! ### a step that stamps nothing -/

theorem delInv_quiet {s s' : Sys} (h : DelInv s) (hs : SInv s) {p p' : Proc} {new : List Proc}
    (hm : MemSpec s s' p p' new) (hT : DStep s.staticPlan s s') (hmach : s'.machines = s.machines)
    (hstat : s'.staticPlan = s.staticPlan)
    (hnew : ∀ q ∈ new, ∀ t m c ph tot, q.k = .doWork t m c ph tot → ph = 0)
    (hp' : ∀ t m c ph tot, p'.k = .doWork t m c ph tot → ph ≤ 1 ∨ (p'.alive = false ∧ ph ≤ 2)) :
    DelInv s' := by
  have hmq : ∀ x, s'.machine? x = s.machine? x := machine?_congr hmach
  have hback : ∀ d ∈ s.procs, ∀ t m c ph tot, d.k = .doWork t m c ph tot → ∀ r', s'.task? t = some r' →
      ∃ r, s.task? t = some r ∧ TDel r r' := by
    intro d hd t m c ph tot hdk r' hr'
    rcases hT.bwd hr' with h1 | ⟨h0, _⟩
    · exact h1
    · obtain ⟨r, hr⟩ := dw_hasRec hs hd hdk
      rw [h0] at hr; cases hr
  constructor
  · intro t r' hr'
    rw [hstat]
    rcases hT.bwd hr' with ⟨r, hr, hk⟩ | ⟨_, hf⟩
    · exact (h.recs t r hr).step hk
    · exact hf
  · intro d hd hda t m c tot hk r' mm hr' hmm
    rcases (hm d).mp hd with rfl | ⟨h1, _⟩ | h1
    · rcases hp' t m c 2 tot hk with h2 | ⟨h2, _⟩
      · omega
      · rw [h2] at hda; cases hda
    · obtain ⟨r, hr, hk'⟩ := hback d h1 t m c 2 tot hk r' hr'
      exact run_tdel hk' mm (h.run d h1 hda t m c tot hk r mm hr (by rw [← hmq]; exact hmm))
    · have := hnew d h1 t m c 2 tot hk; omega
  · intro d hd t m c tot hk r' mm hr' hmm
    rcases (hm d).mp hd with rfl | ⟨h1, _⟩ | h1
    · rcases hp' t m c 3 tot hk with h2 | ⟨_, h2⟩ <;> omega
    · obtain ⟨r, hr, hk'⟩ := hback d h1 t m c 3 tot hk r' hr'
      exact done_tdel hk' mm tot (h.done d h1 t m c tot hk r mm hr (by rw [← hmq]; exact hmm))
    · have := hnew d h1 t m c 3 tot hk; omega

/-! ### the two stamps -/

theorem delInv_start {R} {s s' : Sys} (h : DelInv s) (hs : SInv s) (_hsp : SpanInv R s) {p p' : Proc}
    {new : List Proc} (hp : p ∈ s.procs) (_ha : p.alive = true) (hw0 : 0 ≤ p.wake) {t m c ph tot}
    (hk : p.k = .doWork t m c ph tot)
    (r : TaskRec) (mm : Machine) (dur tot' : Nat) (hr : s.task? t = some r) (hmm : s.machine? m = some mm)
    (hnd : nominalDuration r.flops r.data mm.cpu mm.bw r.duration = .ok dur)
    (hm : MemSpec s s' p p' new) (hnew : ∀ q, q ∉ new)
    (ht : s'.tasks = (s.updTask t (dwStartF p.wake dur)).tasks) (hmach : s'.machines = s.machines)
    (hstat : s'.staticPlan = s.staticPlan)
    (hk' : p'.k = .doWork t m c 2 tot') : DelInv s' := by
  obtain ⟨heq, hne, hback, hoth⟩ := spanInv_stamp_frame hs hp hk (dwStartF p.wake dur) (fun _ => rfl) ht
  have hmq : ∀ x, s'.machine? x = s.machine? x := machine?_congr hmach
  constructor
  · intro x r' hr'
    rw [hstat]
    rcases hback x r' hr' with ⟨rfl, r0, hr0, rfl⟩ | ⟨_, hr0⟩
    · exact drec_start (h.recs x r0 hr0) p.wake hw0 dur
    · exact h.recs x r' hr0
  · intro d hd hda t1 m1 c1 tot1 hdk r' mm' hr' hmm'
    rcases (hm d).mp hd with rfl | ⟨h1, h2⟩ | h1
    · rw [hk'] at hdk
      injection hdk with e1 e2 _ _ _
      subst e1 e2
      rw [heq r hr] at hr'
      injection hr' with hr'
      subst hr'
      rw [hmq, hmm] at hmm'
      injection hmm' with hmm'
      subst hmm'
      left
      show dur = nomOf (dwStartF p.wake dur r) mm
      unfold nomOf
      have hf : (dwStartF p.wake dur r).flops = r.flops := rfl
      have hd' : (dwStartF p.wake dur r).data = r.data := rfl
      have hdu : (dwStartF p.wake dur r).duration = dur := rfl
      rw [hf, hd', hdu]
      split
      · rename_i hwk
        have hwk' : r.flops > 0 ∨ r.data > 0 := hwk
        unfold nominalDuration at hnd
        rw [if_pos hwk'] at hnd
        exact (runtime_formula _ _ _ _ _ hnd).2.2
      · rfl
    · have hnt := hoth d h1 h2 t1 m1 c1 2 tot1 hdk
      rw [hne t1 hnt] at hr'
      exact h.run d h1 hda t1 m1 c1 tot1 hdk r' mm' hr' (by rw [← hmq]; exact hmm')
    · exact absurd h1 (hnew d)
  · intro d hd t1 m1 c1 tot1 hdk r' mm' hr' hmm'
    rcases (hm d).mp hd with rfl | ⟨h1, h2⟩ | h1
    · rw [hk'] at hdk; injection hdk with _ _ _ e _; omega
    · have hnt := hoth d h1 h2 t1 m1 c1 3 tot1 hdk
      rw [hne t1 hnt] at hr'
      exact h.done d h1 t1 m1 c1 tot1 hdk r' mm' hr' (by rw [← hmq]; exact hmm')
    · exact absurd h1 (hnew d)

theorem delInv_finish {R} {s s' : Sys} (h : DelInv s) (hs : SInv s) (hsp : SpanInv R s) {p p' : Proc}
    {new : List Proc} (hp : p ∈ s.procs) (ha : p.alive = true) {t m c ph tot}
    (hk : p.k = .doWork t m c ph tot) (hph : 2 ≤ ph)
    (hm : MemSpec s s' p p' new) (hnew : ∀ q, q ∉ new)
    (ht : s'.tasks = (s.updTask t (dwEndF p.wake tot)).tasks) (hmach : s'.machines = s.machines)
    (hstat : s'.staticPlan = s.staticPlan)
    (hk' : p'.k = .doWork t m c 3 tot) (ha' : p'.alive = false) : DelInv s' := by
  have hph2 : ph = 2 := by
    have := hsp.phase p hp ha t m c ph tot hk
    omega
  subst hph2
  obtain ⟨heq, hne, hback, hoth⟩ := spanInv_stamp_frame hs hp hk (dwEndF p.wake tot)
    (fun r => (dwEndF_spec p.wake tot r).1) ht
  have hmq : ∀ x, s'.machine? x = s.machine? x := machine?_congr hmach
  -- the record of a task whose body is alive carries no finish stamp
  have hnone : ∀ r0, s.task? t = some r0 → r0.aft = none := by
    intro r0 hr0
    cases haft : r0.aft with
    | none => rfl
    | some f =>
      exfalso
      obtain ⟨d, hd, m1, c1, tot1, hdk⟩ := hsp.stamped t r0 f hr0 haft
      have e := hs.dg.dwUniq d hd p hp t m1 c1 3 tot1 m c 2 tot hdk hk
      have : d = p := hs.pw.eq_of_pid hd hp e
      subst this
      rw [hk] at hdk
      injection hdk with _ _ _ e4 _
      omega
  constructor
  · intro x r' hr'
    rw [hstat]
    rcases hback x r' hr' with ⟨rfl, r0, hr0, rfl⟩ | ⟨_, hr0⟩
    · exact drec_end (h.recs x r0 hr0) (hnone r0 hr0) p.wake tot
    · exact h.recs x r' hr0
  · intro d hd hda t1 m1 c1 tot1 hdk r' mm' hr' hmm'
    rcases (hm d).mp hd with rfl | ⟨h1, h2⟩ | h1
    · rw [ha'] at hda; cases hda
    · have hnt := hoth d h1 h2 t1 m1 c1 2 tot1 hdk
      rw [hne t1 hnt] at hr'
      exact h.run d h1 hda t1 m1 c1 tot1 hdk r' mm' hr' (by rw [← hmq]; exact hmm')
    · exact absurd h1 (hnew d)
  · intro d hd t1 m1 c1 tot1 hdk r' mm' hr' hmm'
    rcases (hm d).mp hd with rfl | ⟨h1, h2⟩ | h1
    · rw [hk'] at hdk
      injection hdk with e1 e2 _ _ e5
      subst e1 e2 e5
      obtain ⟨r0, hr0⟩ := dw_hasRec hs hp hk
      rw [heq r0 hr0] at hr'
      injection hr' with hr'
      subst hr'
      have hmm0 : s.machine? m = some mm' := by rw [← hmq]; exact hmm'
      have hrun := h.run p hp ha t m c tot hk r0 mm' hr0 hmm0
      have hrec := h.recs t r0 hr0
      obtain ⟨e1, e2, _, e4⟩ := dwEndF_delay p.wake tot r0
      rw [nomOf_end]
      constructor
      · intro hn
        rw [e2]
        rcases hrun with hdur | ⟨hf, _, _⟩
        · exact Or.inl (by rw [hdur]; exact hn)
        · exact Or.inr (Or.inr hf)
      · intro hobj hpos
        rw [e4] at hobj
        rcases hrun with hdur | ⟨_, ho, _⟩
        · have h0 := hrec.untouched hobj (hnone r0 hr0)
          rw [e1, h0] at hpos
          by_cases hd' : r0.duration < tot
          · rw [← hdur]; exact hd'
          · rw [if_neg hd'] at hpos; exact absurd hpos (by decide)
        · rw [ho] at hobj; cases hobj
    · have hnt := hoth d h1 h2 t1 m1 c1 3 tot1 hdk
      rw [hne t1 hnt] at hr'
      exact h.done d h1 t1 m1 c1 tot1 hdk r' mm' hr' (by rw [← hmq]; exact hmm')
    · exact absurd h1 (hnew d)

/-! ### one step -/

theorem delInv_step {R} {s : Sys} (hs : SInv s) (hsp : SpanInv R s) (hnn : ∀ q ∈ s.procs, 0 ≤ q.wake)
    (h : DelInv s) {pid : Nat} (hen : s.enabled pid) (orc : Oracle) : DelInv (s.resume pid orc).1 := by
  obtain ⟨p, hp, ha, hmin⟩ := hen
  obtain ⟨hpm, hpid⟩ := proc?_some hp
  obtain ⟨new, hnewe, hnewp⟩ := block_newp s p orc
  have hm := resume_memSpec ⟨hs.pw, hs.eg⟩ hp ha hmin orc hnewe
  have hcore := resume_core s pid orc p hp ha
  have htasks : (s.resume pid orc).1.tasks = (s.block p orc).1.tasks := by rw [hcore.tasks]; rfl
  have hmach := resume_machs s pid orc
  have hstat := resume_stat s pid orc
  by_cases htag : p.k.tag = "doWork"
  · cases hk : p.k with
    | doWork t m c ph tot =>
      have hnone : ∀ q, q ∉ new := by
        intro q hq
        have := (hnewp q hq).2.2.2
        rw [hk] at this
        exact this
      have hb : s.block p orc = s.doWorkBlock p.wake orc t m c ph tot := block_doWork orc hk
      have hsh := doWorkBlock_shape2 s p.wake orc t m c ph tot
      rw [hb] at hm htasks
      generalize s.doWorkBlock p.wake orc t m c ph tot = X at hsh hm htasks
      cases hsh with
      | raised ph' e hph' =>
        refine delInv_quiet h hs hm (DStep.of_eq htasks) hmach hstat (fun q hq => absurd hq (hnone q)) ?_
        intro t1 m1 c1 ph1 tot1 hk1
        right
        refine ⟨rfl, ?_⟩
        simp only [fin_k] at hk1
        injection hk1 with _ _ _ e4 _
        omega
      | wait w =>
        refine delInv_quiet h hs hm (DStep.of_eq htasks) hmach hstat (fun q hq => absurd hq (hnone q)) ?_
        intro t1 m1 c1 ph1 tot1 hk1
        left
        simp only [fin_k] at hk1
        injection hk1 with _ _ _ e4 _
        omega
      | start r mm dur hr hmm hnd =>
        exact delInv_start h hs hsp hpm ha (hnn p hpm) hk r mm dur
          (orc.bodyTotal t (s.starts.filter (fun x => !x.isIngest)).length dur) hr hmm hnd hm hnone htasks hmach hstat
          (by simp only [fin_k])
      | finish hph =>
        exact delInv_finish h hs hsp hpm ha hk hph hm hnone htasks hmach hstat (by simp only [fin_k]) rfl
    | _ => rw [hk] at htag; simp [PK.tag] at htag
  · have hT : DStep s.staticPlan s (s.resume pid orc).1 := (block_dStep s p orc htag).of_tasks_eq htasks
    refine delInv_quiet h hs hm hT hmach hstat ?_ ?_
    · intro q hq t m c ph tot hqk
      exact newKind_dw (hnewp q hq).2.2.2 hqk
    · intro t m c ph tot hk1
      exfalso
      simp only [fin_k] at hk1
      have := block_tag s hs.pw p orc
      rw [hk1] at this
      exact htag this.symm

theorem delInv_start0 (s0 : Sys) (hw : WFConfig s0) : DelInv s0.start := by
  obtain ⟨hprocs, hnp, htasks, _⟩ := hw.fresh
  have hp : s0.start.procs = s0.procs ++
      [{ pid := s0.nextPid, k := .monitor, wake := 0 }, { pid := s0.nextPid + 1, k := .telescope, wake := 0 },
       { pid := s0.nextPid + 2, k := .clusterLoop, wake := 0 }, { pid := s0.nextPid + 3, k := .schedLoop, wake := 0 },
       { pid := s0.nextPid + 4, k := .bufferLoop, wake := 0 }] := by
    simp [start, spawn]
  have ht : s0.start.tasks = s0.tasks := by simp [start, spawn]
  rw [hprocs] at hp
  simp only [List.nil_append] at hp
  constructor
  · intro t r hr
    unfold task? at hr
    rw [ht, htasks] at hr
    simp at hr
  · rw [hp]; intro d hd _ t m c tot hk
    simp at hd; rcases hd with rfl | rfl | rfl | rfl | rfl <;> simp at hk
  · rw [hp]; intro d hd t m c tot hk
    simp at hd; rcases hd with rfl | rfl | rfl | rfl | rfl <;> simp at hk

/-- every process of a reachable state is due at a non-negative time -/
theorem reach_wake_nonneg {s0 s : Sys} (hw : WFConfig s0) (h : Reach s0 s) : ∀ q ∈ s.procs, 0 ≤ q.wake := by
  obtain ⟨evs, hev⟩ := h.toEv
  exact (reachEv_ti hw hev).nonneg

theorem reachD_delInv {R} (s0 s : Sys) (hw : WFConfig s0) (h : ReachD R s0 s) : DelInv s := by
  induction h with
  | start => exact delInv_start0 s0 hw
  | step s pid orc hr hen _ _ ih =>
    exact delInv_step (reach_inv s0 s hw hr.toOk) (reachD_spanInv s0 s hw hr)
      (reach_wake_nonneg hw hr.toOk.toReach) ih hen orc

end Sys
end Topsim
