/-
  Preced17 — `PX` under the blocks of a task body, one step, and `PX` along every
  run in the restricted order that has not crashed.
-/
import TopsimProofs.Preced16

namespace Topsim
namespace Sys

open Cluster

/-- the start (`ast := now`) or the end (`aft := now + 1`) of the body of task `t` -/
theorem px_dw {s : Sys} (h : PX s) (hpr : PR s) (hs : SInv s) {p : Proc} (hp : p ∈ s.procs) (ha : p.alive = true)
    {t m preds ph tot} (hk : p.k = .doWork t m preds ph tot) (f : TaskRec → TaskRec)
    (hshape : ∀ r, TShape r (f r)) (k' : PK) (y : Yield)
    (hk' : ∃ ph' tot', k' = .doWork t m preds ph' tot' ∧ 2 ≤ ph')
    (Y : Sys) (hYt : Y.tasks = (s.updTask t f).tasks) (hYc : Y.cl = s.cl)
    (hYp : Y.procs = (s.updProc p.pid (fin k' y p.wake)).procs)
    (heff : ((∀ r, (f r).aft = r.aft ∧ (f r).ast = some p.wake) ∧ ph < 2) ∨
      (∀ r, (f r).ast = r.ast ∧ (f r).aft = some (p.wake + 1))) : PX Y := by
  obtain ⟨ph', tot', hk', hph'⟩ := hk'
  have hid : ∀ r, (f r).id = r.id := fun r => (hshape r).id
  have htq : ∀ x, Y.task? x = (s.updTask t f).task? x := fun x => by unfold task?; rw [hYt]
  have heq : ∀ r, s.task? t = some r → Y.task? t = some (f r) := fun r hr => by
    rw [htq]; exact task?_updTask_eq s f hid hr
  have hne : ∀ x, x ≠ t → Y.task? x = s.task? x := fun x hx => by
    rw [htq]; exact task?_updTask_ne s f hid hx
  have hnofin : ¬ FinT s t := finT_no_dw hs hp ha hk
  have hfin : ∀ q, FinT Y q ↔ FinT s q := fun q => finT_congr (by rw [hYc]) q
  have hmem : ∀ q, q ∈ Y.procs ↔ q = fin k' y p.wake p ∨ (q ∈ s.procs ∧ q.pid ≠ p.pid) := by
    intro q; rw [hYp]; exact mem_updProc_iff hs.pw hp _ q
  have hback : ∀ x r', Y.task? x = some r' →
      (x = t ∧ ∃ r, s.task? t = some r ∧ r' = f r) ∨ (x ≠ t ∧ s.task? x = some r') := by
    intro x r' hr'
    by_cases e : x = t
    · subst e
      cases h0 : s.task? x with
      | none =>
        rw [htq, task?_updTask s x x f hid, h0] at hr'
        exact absurd hr' (by simp)
      | some r =>
        rw [heq r h0] at hr'
        injection hr' with e'
        exact Or.inl ⟨rfl, r, rfl, e'.symm⟩
    · rw [hne x e] at hr'; exact Or.inr ⟨e, hr'⟩
  -- the record of a task, with its predecessor list, before the block
  have hrec : ∀ x r', Y.task? x = some r' → ∃ r, s.task? x = some r ∧ r'.preds = r.preds := by
    intro x r' hr'
    rcases hback x r' hr' with ⟨rfl, r, hr, rfl⟩ | ⟨_, hr⟩
    · exact ⟨r, hr, (hshape r).preds⟩
    · exact ⟨r', hr, rfl⟩
  -- a stamp of a task other than `t`
  have hstamp : ∀ x, x ≠ t → ∀ rq' f0, Y.task? x = some rq' → rq'.aft = some f0 →
      ∃ rq, s.task? x = some rq ∧ rq.aft = some f0 := by
    intro x hx rq' f0 h3 h4
    rw [hne x hx] at h3
    exact ⟨rq', h3, h4⟩
  constructor
  · intro q hq hqt
    rcases (hmem q).mp hq with rfl | ⟨h1, _⟩
    · simp only [fin_k] at hqt; rw [hk'] at hqt; simp [PK.tag] at hqt
    · exact h.natWake q h1 hqt
  · intro x r' hr' o c n e q hq
    obtain ⟨r, hr, hp'⟩ := hrec x r' hr'
    rw [hp'] at hq
    exact h.predObs x r hr o c n e q hq
  · intro q hq o sc pa po fn hqk
    rcases (hmem q).mp hq with rfl | ⟨h1, _⟩
    · simp only [fin_k] at hqk; rw [hk'] at hqk; exact absurd hqk (by simp)
    · exact h.schedObs q h1 o sc pa po fn hqk
  · intro q hq t1 m1 cross obs ret hqk
    rcases (hmem q).mp hq with rfl | ⟨h1, _⟩
    · simp only [fin_k] at hqk; rw [hk'] at hqk; exact absurd hqk (by simp)
    · exact h.atObs q h1 t1 m1 cross obs ret hqk
  · intro o c n hq rq' f0 h3 h4 q hq' hqa sc pa po fn hqk
    have hq0 := (hfin _).mp hq
    have hxt : Tid.wf o c n ≠ t := fun e => hnofin (e ▸ hq0)
    obtain ⟨rq, h5, h6⟩ := hstamp _ hxt rq' f0 h3 h4
    rcases (hmem q).mp hq' with rfl | ⟨h1, _⟩
    · simp only [fin_k] at hqk; rw [hk'] at hqk; exact absurd hqk (by simp)
    · exact h.finSched o c n hq0 rq f0 h5 h6 q h1 hqa sc pa po fn hqk
  · intro q hq hqa hqpc t1 m1 cross obs ret hqk r' hr' x hx rq' f0 h3 h4
    rcases (hmem q).mp hq with rfl | ⟨h1, _⟩
    · simp only [fin_k] at hqk; rw [hk'] at hqk; exact absurd hqk (by simp)
    · obtain ⟨r, hr, hp'⟩ := hrec t1 r' hr'
      rw [hp'] at hx
      obtain ⟨r0, hr0, hq0⟩ := hpr.atRdy q h1 t1 m1 cross obs ret hqk
      rw [hr] at hr0
      injection hr0 with e
      subst e
      have hxt : x ≠ t := fun e => hnofin (e ▸ (hq0 x hx).2)
      obtain ⟨rq, h5, h6⟩ := hstamp x hxt rq' f0 h3 h4
      exact h.atT q h1 hqa hqpc t1 m1 cross obs ret hqk r hr x hx rq f0 h5 h6
  · intro d hd hda t1 m1 cross ph1 tot1 hdk hph1 hw r' hr' x hx rq' f0 h3 h4
    rcases (hmem d).mp hd with rfl | ⟨h1, _⟩
    · simp only [fin_k] at hdk
      rw [hk'] at hdk
      simp only [PK.doWork.injEq] at hdk
      omega
    · obtain ⟨r, hr, hp'⟩ := hrec t1 r' hr'
      rw [hp'] at hx
      obtain ⟨_, a0, ha0, preds', obs, hak⟩ := dw_alloc hs h1 hda hdk
      rw [isWf_not_ingest hw] at hak
      obtain ⟨r0, hr0, hq0⟩ := hpr.atRdy a0 ha0 t1 m1 preds' obs d.pid hak
      rw [hr] at hr0
      injection hr0 with e
      subst e
      have hxt : x ≠ t := fun e => hnofin (e ▸ (hq0 x hx).2)
      obtain ⟨rq, h5, h6⟩ := hstamp x hxt rq' f0 h3 h4
      exact h.dwT d h1 hda t1 m1 cross ph1 tot1 hdk hph1 hw r hr x hx rq f0 h5 h6
  · intro x r' a hr' hast hw q hq rq' f0 h3 h4
    rcases hback x r' hr' with ⟨rfl, r, hr, rfl⟩ | ⟨_, hr⟩
    · rw [(hshape r).preds] at hq
      rcases heff with ⟨h1, hph⟩ | h1
      · -- the start
        rw [(h1 r).2] at hast
        injection hast with e
        subst e
        -- the predecessor is reported finished, hence is another task
        obtain ⟨_, a0, ha0, preds', obs, hak⟩ := dw_alloc hs hp ha hk
        rw [isWf_not_ingest hw] at hak
        obtain ⟨r0, hr0, hq0⟩ := hpr.atRdy a0 ha0 x m preds' obs p.pid hak
        rw [hr] at hr0
        injection hr0 with e
        subst e
        have hxt : q ≠ x := fun e => hnofin (e ▸ (hq0 q hq).2)
        obtain ⟨rq, h5, h6⟩ := hstamp q hxt rq' f0 h3 h4
        exact h.dwT p hp ha x m preds ph tot hk hph hw r hr q hq rq f0 h5 h6
      · -- the end: `ast` untouched
        have hast' : r.ast = some a := by rw [← (h1 r).1]; exact hast
        obtain ⟨_, g1, _⟩ := hpr.started x r a hr hast' hw q hq
        have hxt : q ≠ x := fun e => hnofin (e ▸ g1)
        obtain ⟨rq, h5, h6⟩ := hstamp q hxt rq' f0 h3 h4
        exact h.startedX x r a hr hast' hw q hq rq f0 h5 h6
    · obtain ⟨_, g1, _⟩ := hpr.started x r' a hr hast hw q hq
      have hxt : q ≠ t := fun e => hnofin (e ▸ g1)
      obtain ⟨rq, h5, h6⟩ := hstamp q hxt rq' f0 h3 h4
      exact h.startedX x r' a hr hast hw q hq rq f0 h5 h6

/-- the task body -/
theorem px_doWork {s : Sys} (h : PX s) (hpr : PR s) (hs : SInv s) {p : Proc} (hp : p ∈ s.procs)
    (ha : p.alive = true) (orc : Oracle) {t m preds ph tot}
    (hk : p.k = .doWork t m preds ph tot) (hnr : ∀ e, (s.block p orc).2.2 ≠ .raised e) :
    PX ((s.block p orc).1.updProc p.pid (fin (s.block p orc).2.1 (s.block p orc).2.2 p.wake)) := by
  have hb : s.block p orc = s.doWorkBlock p.wake orc t m preds ph tot := by
    unfold block; simp only [hk]
  have hsh := doWorkBlock_shape s p.wake orc t m preds ph tot
  generalize hX : s.doWorkBlock p.wake orc t m preds ph tot = X at hsh
  have hbX : s.block p orc = X := hb.trans hX
  cases hsh with
  | raised ph' e => rw [hbX] at hnr; exact absurd rfl (hnr e)
  | wait w hph _ hw =>
    -- nothing is written; the body is due later
    rw [hbX]
    have hw0 := transferWait_nonneg _ _ _ _ _ _ hw
    have hmem : ∀ q, q ∈ (s.updProc p.pid (fin (.doWork t m preds 1 tot) (.timeout w) p.wake)).procs ↔
        q = fin (.doWork t m preds 1 tot) (.timeout w) p.wake p ∨ (q ∈ s.procs ∧ q.pid ≠ p.pid) :=
      fun q => mem_updProc_iff hs.pw hp _ q
    constructor
    · intro q hq hqt
      rcases (hmem q).mp hq with rfl | ⟨h1, _⟩
      · simp [PK.tag] at hqt
      · exact h.natWake q h1 hqt
    · exact h.predObs
    · intro q hq o sc pa po fn hqk
      rcases (hmem q).mp hq with rfl | ⟨h1, _⟩
      · simp at hqk
      · exact h.schedObs q h1 o sc pa po fn hqk
    · intro q hq t1 m1 cross obs ret hqk
      rcases (hmem q).mp hq with rfl | ⟨h1, _⟩
      · simp at hqk
      · exact h.atObs q h1 t1 m1 cross obs ret hqk
    · intro o c n hq rq f0 h3 h4 q hq' hqa sc pa po fn hqk
      rcases (hmem q).mp hq' with rfl | ⟨h1, _⟩
      · simp at hqk
      · exact h.finSched o c n hq rq f0 h3 h4 q h1 hqa sc pa po fn hqk
    · intro q hq hqa hqpc t1 m1 cross obs ret hqk
      rcases (hmem q).mp hq with rfl | ⟨h1, _⟩
      · simp at hqk
      · exact h.atT q h1 hqa hqpc t1 m1 cross obs ret hqk
    · intro d hd hda t1 m1 cross ph1 tot1 hdk hph1 hw1 r hr x hx rq f0 h3 h4
      rcases (hmem d).mp hd with rfl | ⟨h1, _⟩
      · simp only [fin_k, PK.doWork.injEq] at hdk
        obtain ⟨e1, e2, e3, _⟩ := hdk
        subst e1 e2 e3
        have := h.dwT p hp ha t m preds ph tot hk (by omega) hw1 r hr x hx rq f0 h3 h4
        show f0 ≤ p.wake + w
        grind
      · exact h.dwT d h1 hda t1 m1 cross ph1 tot1 hdk hph1 hw1 r hr x hx rq f0 h3 h4
    · exact h.startedX
  | start r mm dur tot' hph _ _ =>
    rw [hbX]
    refine px_dw h hpr hs hp ha hk (dwStartF p.wake dur) (fun r => ⟨rfl, rfl, rfl⟩) _ _ ⟨2, tot', rfl, by omega⟩ _
      rfl rfl rfl (Or.inl ⟨fun r => ⟨rfl, rfl⟩, ?_⟩)
    rcases hph with e | ⟨e, _⟩ <;> omega
  | finish _ =>
    rw [hbX]
    refine px_dw h hpr hs hp ha hk (dwEndF p.wake tot) (fun r => ?_) _ _ ⟨3, tot, rfl, by omega⟩ _
      rfl rfl rfl (Or.inr (fun r => ?_))
    · obtain ⟨a, b, c, _⟩ := dwEndF_spec p.wake tot r
      exact ⟨a, b, c⟩
    · obtain ⟨_, _, _, d, _, f⟩ := dwEndF_spec p.wake tot r
      exact ⟨d, f⟩

/-! ### along a run -/

def PXInv (s : Sys) : Prop := s.crashed = none → PX s

theorem start_px (s0 : Sys) (hw : WFConfig s0) : PX s0.start := by
  obtain ⟨hprocs, _, htasks, _⟩ := hw.fresh
  have hp : s0.start.procs = s0.procs ++
      [{ pid := s0.nextPid, k := .monitor, wake := 0 }, { pid := s0.nextPid + 1, k := .telescope, wake := 0 },
       { pid := s0.nextPid + 2, k := .clusterLoop, wake := 0 }, { pid := s0.nextPid + 3, k := .schedLoop, wake := 0 },
       { pid := s0.nextPid + 4, k := .bufferLoop, wake := 0 }] := by
    simp [start, spawn]
  rw [hprocs] at hp
  simp only [List.nil_append] at hp
  have ht : s0.start.tasks = [] := by rw [← htasks]; simp [start, spawn]
  have hnone : ∀ t, s0.start.task? t = none := by intro t; unfold task?; rw [ht]; rfl
  constructor
  · intro p hp' _
    rw [hp] at hp'
    simp only [List.mem_cons, List.not_mem_nil, or_false] at hp'
    rcases hp' with rfl | rfl | rfl | rfl | rfl <;> exact ⟨0, by simp⟩
  · intro t r h1; rw [hnone] at h1; exact absurd h1 (by simp)
  · intro p hp' o sc pa po fn hk
    rw [hp] at hp'
    simp only [List.mem_cons, List.not_mem_nil, or_false] at hp'
    rcases hp' with rfl | rfl | rfl | rfl | rfl <;> simp at hk
  · intro p hp' t m cross obs ret hk
    rw [hp] at hp'
    simp only [List.mem_cons, List.not_mem_nil, or_false] at hp'
    rcases hp' with rfl | rfl | rfl | rfl | rfl <;> simp at hk
  · intro o c n _ rq f h1; rw [hnone] at h1; exact absurd h1 (by simp)
  · intro p hp' _ _ t m cross obs ret hk
    rw [hp] at hp'
    simp only [List.mem_cons, List.not_mem_nil, or_false] at hp'
    rcases hp' with rfl | rfl | rfl | rfl | rfl <;> simp at hk
  · intro d hd _ t m cross ph tot hk
    rw [hp] at hd
    simp only [List.mem_cons, List.not_mem_nil, or_false] at hd
    rcases hd with rfl | rfl | rfl | rfl | rfl <;> simp at hk
  · intro t r a h1; rw [hnone] at h1; exact absurd h1 (by simp)

theorem px_step {s : Sys} (hs : SInv s) (hwi : WInv s) (hbf : BufI s) (hst : STInv s) (hpr : PRInv s)
    (h : PXInv s) (hno : s.alg ≠ .oracle) {pid : Nat} (hen : s.enabled pid) (orc : Oracle) :
    PXInv (s.resume pid orc).1 := by
  intro hc
  obtain ⟨p, hp, ha, hmin⟩ := hen
  obtain ⟨hc0, hnr⟩ := resume_nocrash s pid orc p hp ha hc
  have hpx := h hc0
  have hprs := hpr hc0
  obtain ⟨hpm, hpid⟩ := proc?_some hp
  subst hpid
  refine PX.core ?_ (resume_core s p.pid orc p hp ha)
  by_cases h2 : p.k.tag = "allocTask"
  · cases hk : p.k with
    | allocTask t m preds obs ing ret => exact px_allocTask hpx hprs hs (hwi hc0) hpm ha hmin orc hk hnr
    | _ => rw [hk] at h2; simp [PK.tag] at h2
  · by_cases h3 : p.k.tag = "doWork"
    · cases hk : p.k with
      | doWork t m preds ph tot => exact px_doWork hpx hprs hs hpm ha orc hk hnr
      | _ => rw [hk] at h3; simp [PK.tag] at h3
    · by_cases h4 : p.k.tag = "allocTasks"
      · cases hk : p.k with
        | allocTasks o sc pa po fn => exact px_allocTasks hpx hprs hs (hst hc0) hno hpm ha hmin orc hk
        | _ => rw [hk] at h4; simp [PK.tag] at h4
      · exact px_harmless hpx hprs hs (hwi hc0) hbf hno hpm ha hmin orc h2 h3 h4

theorem ReachSchedFirst.toReach {s0 s : Sys} (h : ReachSchedFirst s0 s) : Reach s0 s := h.toOk.toReach

-- F13: `PX` along EVERY run (`Reach`: any order of the blocks inside an instant); before the repair
-- only along `ReachSchedFirst` (every step satisfying `pollAfterSched`)
theorem reach_px (s0 s : Sys) (hw : WFConfig s0) (hbuf : bufList s0.buf = []) (hno : s0.alg ≠ .oracle)
    (h : Reach s0 s) : PXInv s := by
  induction h with
  | start => exact fun _ => start_px s0 hw
  | step s pid orc hr hen ih =>
    have hok := hr.toOk hno
    exact px_step (reach_inv s0 s hw hok) (reachOk_wi s0 s hw hbuf hok) (reachOk_bufi s0 s hw hbuf hok)
      (reach_st s0 s hw hbuf hno hr) (reach_pr s0 s hw hbuf hno hr) ih
      (by rw [reach_alg hr]; exact hno) hen orc

/-- the exact form, for every order of the blocks inside an instant -/
-- F13: hypothesis `ReachSchedFirst s0 s` weakened to `Reach s0 s`
theorem reach_precedence_exact (s0 s : Sys) (hw : WFConfig s0) (hbuf : bufList s0.buf = [])
    (hno : s0.alg ≠ .oracle) (h : Reach s0 s) (hc : s.crashed = none) :
    ∀ pl ∈ s.plans, ∀ q t, (q, t) ∈ pl.edges → ∀ r a, s.task? t = some r → r.ast = some a →
      s.cl.isTaskFinished q = true ∧
      ∃ rq f, s.task? q = some rq ∧ rq.status = .finished ∧ rq.aft = some f ∧ f ≤ a := by
  have hre := h
  have hst := reach_st s0 s hw hbuf hno hre hc
  have hpx := reach_px s0 s hw hbuf hno h hc
  intro pl hpl q t he r a hr hast
  obtain ⟨g1, rq, f, k1, k2, k3, _⟩ := reach_precedence s0 s hw hbuf hno hre hc pl hpl q t he r a hr hast
  have hq : q ∈ r.preds := hst.edgeRec pl hpl q t he r hr
  have hw' : IsWf t := by
    obtain ⟨c, u, v, e⟩ := hst.edgeWf pl hpl _ he
    injection e with _ e2
    exact ⟨_, _, _, e2⟩
  exact ⟨g1, rq, f, k1, k2, k3, hpx.startedX t r a hr hast hw' q hq rq f k1 k3⟩

end Sys
end Topsim
